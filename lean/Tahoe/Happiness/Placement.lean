import Tahoe.Happiness.Flow
/-
Model of `allmydata/immutable/happiness_upload.py: share_placement` and all its helpers
(`_calculate_mappings`, `_reindex`, `_flow_network`, `_servermap_flow_graph`,
`_compute_maximum_graph`, `_convert_mappings`, `_extract_ids`, `_distribute_homeless_shares`,
the round-robin generator).

Sets are sorted duplicate-free lists (ascending = CPython's iteration order for ints < 8, the ids
the exact correspondence runs on); dicts are association lists in insertion order.
A mapping value `set([peer])` / `None` is modelled as `Option Nat` (the code only ever builds
singleton sets there).

Two switches select between the code as it is in the repository and the repaired code
(`fixes/C07-indexedshares.diff`, `fixes/C07-dropped-peer.diff`):
* `resetShares = false`: `_servermap_flow_graph` creates the list `indexedShares` once, outside
  the `for peer in peers` loop, and inserts that *same list object* as the adjacency row of every
  peer; every row therefore ends up holding the shares of all peers of the servermap.
  `resetShares = true`: a fresh list per peer.
* `keepPeer = false`: `share_placement` removes a writable peer from `new_peers` when all its
  existing shares were consumed by the read-only phase, so that peer takes part in neither of
  the later matchings.  `keepPeer = true`: the peer stays.
-/
namespace Tahoe.Happiness

structure Cfg where
  resetShares : Bool
  keepPeer : Bool
deriving Repr, DecidableEq

/-- the repository's code -/
def Cfg.asIs : Cfg := { resetShares := false, keepPeer := false }
/-- with both proposed repairs -/
def Cfg.fixed : Cfg := { resetShares := true, keepPeer := true }

/-- Python `list.insert(i, x)`: an index beyond the end appends -/
def pyInsert {α : Type} (l : List α) (i : Nat) (x : α) : List α := l.insertIdx (min i l.length) x

/-- `happiness_upload._reindex(items, base)`: `item -> index` (dict) for a set iterated in
ascending order; `index -> item` is its inverse. -/
def reindexItems (items : List Nat) (base : Nat) : List (Nat × Nat) :=
  items.zip (List.range' base items.length)

/-- `item_to_index[x]` (KeyError → 0, never taken: callers look up members only) -/
def toIndex (tbl : List (Nat × Nat)) (x : Nat) : Nat := (tbl.lookup x).getD 0

/-- `index_to_item[i]` -/
def ofIndex (tbl : List (Nat × Nat)) (i : Nat) : Nat :=
  ((tbl.find? (fun e => e.2 == i)).map (·.1)).getD 0

/-- `_flow_network(peerIndices, shareIndices)` -/
def flowNetwork (peerIndices shareIndices : List Nat) : Graph :=
  let sink := (peerIndices ++ shareIndices).length + 1
  let g0 : Graph := [peerIndices]
  let g1 := peerIndices.foldl (fun g pi => pyInsert g pi shareIndices) g0
  let g2 := shareIndices.foldl (fun g si => pyInsert g si [sink]) g1
  g2 ++ [[]]

/-- the shares of `peer` in `servermap` that are in `share_to_index`, as indices, in the set's
iteration order -/
def indexedSharesOf (servermap : SetMap) (shareTbl : List (Nat × Nat)) (peer : Nat) : List Nat :=
  if dhas servermap peer then
    ((dget servermap peer).filter (fun s => (shareTbl.lookup s).isSome)).map (toIndex shareTbl)
  else []

/-- `_servermap_flow_graph(peers, shares, servermap)` -/
def servermapFlowGraph (cfg : Cfg) (peers shares : List Nat) (servermap : SetMap) : Graph :=
  if servermap.isEmpty then [] else
  let peerTbl := reindexItems peers 1
  let shareTbl := reindexItems shares (peers.length + 1)
  let sink := peers.length + shares.length + 1
  let g0 : Graph := [peers.map (toIndex peerTbl)]
  -- the single shared list, after the whole loop has run
  let shared := peers.flatMap (indexedSharesOf servermap shareTbl)
  let g1 := peers.foldl (fun g peer =>
      pyInsert g (toIndex peerTbl peer)
        (if cfg.resetShares then indexedSharesOf servermap shareTbl peer else shared)) g0
  let g2 := shares.foldl (fun g share => pyInsert g (toIndex shareTbl share) [sink]) g1
  g2 ++ [[]]

/-- `new_mappings.setdefault(k, v)` / `dict[k] = v` on an association list -/
def setDefault {β : Type} (d : List (Nat × β)) (k : Nat) (v : β) : List (Nat × β) :=
  if (d.lookup k).isSome then d else d ++ [(k, v)]

def dictSet {β : Type} (k : Nat) (v : β) : List (Nat × β) → List (Nat × β)
  | [] => [(k, v)]
  | (k', v') :: rest => if k' = k then (k, v) :: rest else (k', v') :: dictSet k v rest

/-- `_compute_maximum_graph(graph, shareIndices)`: `shareIndex -> peerIndex | None`.
`peer[0]` on an empty row would raise `IndexError`; a share vertex's row in the residual graph
always holds the sink or the matched peer, the model returns `none` there. -/
def computeMaximumGraph (g : Graph) (shareIndices : List Nat) : List (Nat × Option Nat) :=
  if g.isEmpty then [] else
  let dim := g.length
  let rg := (maxFlowInner g).2.1
  shareIndices.foldl (fun m si =>
    let row := adj rg si
    if row = [dim - 1] then setDefault m si none else setDefault m si row.head?) []

/-- `_convert_mappings(index_to_peer, index_to_share, maximum_graph)` -/
def convertMappings (peerTbl shareTbl : List (Nat × Nat)) (mg : List (Nat × Option Nat)) :
    List (Nat × Option Nat) :=
  mg.foldl (fun m e => setDefault m (ofIndex shareTbl e.1) (e.2.map (ofIndex peerTbl))) []

/-- `_calculate_mappings(peers, shares, servermap=None)`; `none`/empty servermap is falsy -/
def calculateMappings (cfg : Cfg) (peers shares : List Nat) (servermap : SetMap) :
    List (Nat × Option Nat) :=
  let peerTbl := reindexItems peers 1
  let shareTbl := reindexItems shares (peers.length + 1)
  let shareIndices := shares.map (toIndex shareTbl)
  let g := if !servermap.isEmpty then servermapFlowGraph cfg peers shares servermap
           else flowNetwork (peers.map (toIndex peerTbl)) shareIndices
  convertMappings peerTbl shareTbl (computeMaximumGraph g shareIndices)

/-- `_extract_ids(mappings)`: (peers, shares) that are mapped -/
def extractStep (acc : List Nat × List Nat) (e : Nat × Option Nat) : List Nat × List Nat :=
  match e.2 with
  | none => acc
  | some p => (sinsert p acc.1, sinsert e.1 acc.2)

def extractIds (m : List (Nat × Option Nat)) : List Nat × List Nat := m.foldl extractStep ([], [])

/-- `PriorityQueue.get()` on a list of `(priority, peerid)` tuples: the least tuple -/
def pqMin : List (Nat × Nat) → Option (Nat × Nat)
  | [] => none
  | a :: rest => match pqMin rest with
    | none => some a
    | some b => if a.1 < b.1 ∨ (a.1 = b.1 ∧ a.2 ≤ b.2) then some a else some b

/-- first loop of `_distribute_homeless_shares`: a homeless share that some server of the
(writable) servermap already holds is mapped to the first such server in dict order (lease
renewal); the others are collected in `to_distribute` -/
def dhRenew (p2s : SetMap) (shareids : List Nat) (st : List (Nat × Option Nat) × List Nat)
    (share : Nat) : List (Nat × Option Nat) × List Nat :=
  if shareids.contains share then
    match p2s.find? (fun e => e.2.contains share) with
    | some e => (dictSet share (some e.1) st.1, st.2)
    | none => st
  else (st.1, sinsert share st.2)

/-- `priority[peer] += 1` for a mapped peer of the servermap -/
def dhCount (peerids : List Nat) (pr : List (Nat × Nat)) (e : Nat × Option Nat) : List (Nat × Nat) :=
  match e.2 with
  | none => pr
  | some p => if peerids.contains p then pr.map (fun x => if x.1 = p then (x.1, x.2 + 1) else x) else pr

/-- last loop: the share goes to the peer with the least `(priority, peerid)` tuple, which is put
back with its priority incremented -/
def dhAssign (st : List (Nat × Option Nat) × List (Nat × Nat)) (share : Nat) :
    List (Nat × Option Nat) × List (Nat × Nat) :=
  match pqMin st.2 with
  | none => st          -- unreachable: the queue keeps its size
  | some pk => (dictSet share (some pk.2) st.1, (st.2.erase pk) ++ [(pk.1 + 1, pk.2)])

/-- `_distribute_homeless_shares(mappings, homeless_shares, peers_to_shares)` (mutates and, in
the model, returns `mappings`); `p2s` in dict order. -/
def distributeHomeless (mappings : List (Nat × Option Nat)) (homeless : List Nat) (p2s : SetMap) :
    List (Nat × Option Nat) :=
  let peerids := mkSet (p2s.map (·.1))
  let shareids := mkSet (p2s.flatMap (·.2))
  let st := homeless.foldl (dhRenew p2s shareids) (mappings, [])
  let mappings := st.1
  let toDistribute := st.2
  let prio0 : List (Nat × Nat) := peerids.map (fun p => (p, 0))
  let prio := mappings.foldl (dhCount peerids) prio0
  if prio.isEmpty then mappings else
  let pq : List (Nat × Nat) := prio.map (fun x => (x.2, x.1))
  (toDistribute.foldl dhAssign (mappings, pq)).1

/-- result of `share_placement`; `hang` = the round-robin generator over an empty set of writable
peers would spin forever (`next(peer_iter)` never returns). -/
inductive Placement where
  | ok (m : List (Nat × Nat))
  | hang
deriving Repr, DecidableEq

/-- one item of the final dict comprehension: `v.pop() if v else next(peer_iter)`; the state is
the dict so far and the number of `next` calls made -/
def finalizeStep (rr : List Nat) (st : List (Nat × Nat) × Nat) (e : Nat × Option Nat) :
    List (Nat × Nat) × Nat :=
  match e.2 with
  | some p => (st.1 ++ [(e.1, p)], st.2)
  | none => (st.1 ++ [(e.1, rr.getD (st.2 % rr.length) 0)], st.2 + 1)

/-- the final dict comprehension with the round-robin iterator -/
def finalize (rr : List Nat) (mappings : List (Nat × Option Nat)) : Placement :=
  if rr.isEmpty ∧ mappings.any (fun e => e.2.isNone) then .hang else
  .ok (mappings.foldl (finalizeStep rr) ([], 0)).1

/-- `share_placement(peers, readonly_peers, shares, peers_to_shares)`; the three sets as lists in
any order (normalised to sets), `peers_to_shares` in dict order. -/
def sharePlacement (cfg : Cfg) (peers0 readonly0 shares0 : List Nat) (p2s0 : SetMap) : Placement :=
  let peers := mkSet peers0
  let readonly := mkSet readonly0
  let shares := mkSet shares0
  let p2s : SetMap := p2s0.map (fun e => (e.1, mkSet e.2))
  if peers.isEmpty then .ok [] else
  let keys := mkSet (p2s.map (·.1))            -- sorted(peers_to_shares.keys())
  -- read-only phase
  let roKeys := keys.filter (fun p => readonly.contains p)
  let readonlyMap : SetMap := roKeys.map (fun p => (p, dget p2s p))
  let readonlyShares := mkSet (readonlyMap.flatMap (·.2))
  let roMappings := calculateMappings cfg readonly readonlyShares readonlyMap
  let used := extractIds roMappings
  let usedPeers := used.1
  let usedShares := used.2
  -- existing allocations on the other peers
  let newPeers0 := sdiff peers usedPeers
  let newShares0 := sdiff shares usedShares
  let st := keys.foldl (fun (st : SetMap × List Nat) peer =>
      if usedPeers.contains peer then (st.1.filter (fun e => e.1 != peer), st.2)
      else
        let rest := sdiff (dget st.1 peer) usedShares
        if rest.isEmpty then
          (st.1.filter (fun e => e.1 != peer),
           if cfg.keepPeer then st.2 else st.2.filter (fun p => p != peer))
        else (st.1.map (fun e => if e.1 = peer then (e.1, rest) else e), st.2)) (p2s, newPeers0)
  let servermap := st.1
  let newPeers1 := st.2
  let exMappings := calculateMappings cfg newPeers1 newShares0 servermap
  let ex := extractIds exMappings
  -- fresh placements
  let newPeers2 := sdiff (sdiff newPeers1 ex.1) usedPeers
  let newShares2 := sdiff (sdiff newShares0 ex.2) usedShares
  let newMappings := calculateMappings cfg newPeers2 newShares2 []
  let mappings := (roMappings ++ exMappings ++ newMappings).foldl
      (fun (m : List (Nat × Option Nat)) e => dictSet e.1 e.2 m) []
  let homeless := mkSet ((mappings.filter (fun e => e.2.isNone)).map (·.1))
  let mappings := if homeless.isEmpty then mappings else
      distributeHomeless mappings homeless (p2s.filter (fun e => !readonly.contains e.1))
  finalize (sdiff peers readonly) mappings

/-! ### Specification side (used by the theorems of C07 and by the driver's `spread` / `holds` ops) -/

/-- `s in peers_to_shares[p]` (dict lookup: the entry of key `p`; the value is a set) -/
def Holds (E : SetMap) (p s : Nat) : Prop := s ∈ dget (E.map (fun e => (e.1, mkSet e.2))) p

instance (E : SetMap) (p s : Nat) : Decidable (Holds E p s) := by unfold Holds; infer_instance

/-- number of distinct servers a placement uses (`len(set(placement.values()))`) -/
def distinctServers (res : List (Nat × Nat)) : Nat := (mkSet (res.map (·.2))).length

end Tahoe.Happiness
