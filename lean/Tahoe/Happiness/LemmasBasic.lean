import Tahoe.Happiness.Flow
/-! Helper lemmas for C08/C07: reads after writes on lists, matrices and adjacency lists. -/
namespace Tahoe.Happiness

theorem getD_set {α : Type} (l : List α) (i j : Nat) (x d : α) :
    (l.set i x).getD j d = if i = j ∧ i < l.length then x else l.getD j d := by
  simp [List.getD_eq_getElem?_getD, List.getElem?_set]; grind

theorem getD_of_le {α : Type} (l : List α) (i : Nat) (d : α) (h : l.length ≤ i) : l.getD i d = d := by
  simp [List.getD_eq_getElem?_getD, List.getElem?_eq_none h]

theorem getD_replicate {α : Type} (n i : Nat) (x d : α) :
    (List.replicate n x).getD i d = if i < n then x else d := by
  simp [List.getD_eq_getElem?_getD, List.getElem?_replicate]; grind

theorem getD_modify {α : Type} (l : List α) (i j : Nat) (f : α → α) (d : α) :
    (l.modify i f).getD j d = if i = j ∧ i < l.length then f (l.getD j d) else l.getD j d := by
  simp only [List.getD_eq_getElem?_getD, List.getElem?_modify]
  by_cases hj : j < l.length
  · simp [List.getElem?_eq_getElem hj]; grind
  · simp [List.getElem?_eq_none (Nat.le_of_not_lt hj)]; grind

/-- a `dim × dim` matrix -/
def Sq (f : Matrix) (dim : Nat) : Prop := f.length = dim ∧ ∀ i, i < dim → (f.getD i []).length = dim

theorem Sq.zero (dim : Nat) : Sq (zeroMatrix dim) dim := by
  refine ⟨by simp [zeroMatrix], ?_⟩
  intro i hi; simp [zeroMatrix, hi]

theorem mget_zero (dim i j : Nat) : mget (zeroMatrix dim) i j = 0 := by
  simp only [mget, zeroMatrix, getD_replicate]
  split
  · rw [getD_replicate]; split <;> rfl
  · rfl

theorem Sq.mset {f : Matrix} {dim : Nat} (h : Sq f dim) (i j : Nat) (x : Int) : Sq (mset f i j x) dim := by
  refine ⟨by simp [Tahoe.Happiness.mset, h.1], ?_⟩
  intro k hk
  simp only [Tahoe.Happiness.mset, getD_modify]
  split
  · rw [List.length_set]; exact h.2 k hk
  · exact h.2 k hk

theorem mget_mset {f : Matrix} {dim : Nat} (h : Sq f dim) (a b c d : Nat) (x : Int) :
    mget (mset f a b x) c d = if a = c ∧ b = d ∧ a < dim ∧ b < dim then x else mget f c d := by
  simp only [mget, Tahoe.Happiness.mset, getD_modify, h.1]
  by_cases hac : a = c
  · subst hac
    by_cases ha : a < dim
    · simp only [true_and, ha, if_true, getD_set, h.2 a ha, and_true]
    · simp [ha]
  · simp only [hac, false_and, if_false]

theorem adj_pushAdj (g : Graph) (u v w : Nat) :
    adj (pushAdj g u v) w = if u = w ∧ u < g.length then adj g w ++ [v] else adj g w := by
  simp only [adj, pushAdj, getD_modify]

theorem length_pushAdj (g : Graph) (u v : Nat) : (pushAdj g u v).length = g.length := by
  simp [pushAdj]

theorem adj_of_le (g : Graph) (u : Nat) (h : g.length ≤ u) : adj g u = [] := getD_of_le g u [] h

theorem lt_of_mem_adj {g : Graph} {u v : Nat} (h : v ∈ adj g u) : u < g.length := by
  by_cases hu : u < g.length
  · exact hu
  · rw [adj_of_le g u (Nat.le_of_not_lt hu)] at h; simp at h

theorem mem_edgesOf (g : Graph) (u v : Nat) : (u, v) ∈ edgesOf g ↔ v ∈ adj g u := by
  simp only [edgesOf, List.mem_flatMap, List.mem_range, List.mem_map, Prod.mk.injEq]
  constructor
  · rintro ⟨i, _, w, hw, rfl, rfl⟩; exact hw
  · intro h; exact ⟨u, lt_of_mem_adj h, v, h, rfl, rfl⟩

end Tahoe.Happiness
