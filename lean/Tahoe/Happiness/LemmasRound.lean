import Tahoe.Happiness.LemmasAugment
/-! One round of the augment loop: the BFS path in the residual network is an alternating path,
pushing one unit along it yields the indicator matrix of a matching with one more edge. -/
namespace Tahoe.Happiness
attribute [-simp] List.getD_eq_getElem?_getD

section
variable {g : Graph} {n m : Nat} {f : Matrix} {M : List (Nat × Nat)}

theorem FlowInv.f0_free (hI : FlowInv g n m none f M) {i : Nat} (h1 : 1 ≤ i) (h2 : i ≤ n) :
    mget f 0 i = 1 ↔ i ∈ M.map (·.1) := by
  rw [hI.f0 i h1 h2]; simp only [reduceCtorEq, or_false]; split <;> simp_all

theorem FlowInv.fe_iff (hI : FlowInv g n m none f M) {i s : Nat} (h1 : 1 ≤ i) (h2 : i ≤ n)
    (hs : s ∈ adj g i) : mget f i s = 1 ↔ (i, s) ∈ M := by
  rw [hI.fe i s h1 h2 hs]; split <;> simp_all

theorem FlowInv.ft_iff (_hL : Layered g n m) (hI : FlowInv g n m none f M) {s : Nat} (h1 : n + 1 ≤ s)
    (h2 : s ≤ n + m) : mget f s (n + m + 1) = 1 ↔ s ∈ M.map (·.2) := by
  rw [hI.ft s h1 h2]; split <;> simp_all

/-- residual edges out of the source lead to free servers -/
theorem resid_from_source (hL : Layered g n m) (hI : FlowInv g n m none f M) {v : Nat}
    (h : v ∈ adj (residualNetwork g f).1 0) : 1 ≤ v ∧ v ≤ n ∧ v ∉ M.map (·.1) := by
  rw [(residual_graph g f hL.inRange).2] at h
  rcases h with ⟨h1, h2⟩ | ⟨h1, _⟩
  · have := (hL.src v).mp h1
    exact ⟨this.1, this.2, fun hm => h2 ((hI.f0_free this.1 this.2).mpr hm)⟩
  · have := hL.up h1; omega

/-- residual edges out of a server lead to a share over a non-matching edge, or back to the source -/
theorem resid_from_server (hL : Layered g n m) (hI : FlowInv g n m none f M) {u v : Nat}
    (hu1 : 1 ≤ u) (hu2 : u ≤ n) (h : v ∈ adj (residualNetwork g f).1 u) :
    (v ∈ adj g u ∧ (u, v) ∉ M) ∨ v = 0 := by
  rw [(residual_graph g f hL.inRange).2] at h
  rcases h with ⟨h1, h2⟩ | ⟨h1, _⟩
  · left; exact ⟨h1, fun hm => h2 ((hI.fe_iff hu1 hu2 h1).mpr hm)⟩
  · right
    by_cases hv : v = 0
    · exact hv
    · have := hL.up h1
      by_cases hvn : v ≤ n
      · have := hL.srv v (by omega) hvn u h1; omega
      · by_cases hvs : v ≤ n + m
        · rw [hL.shr v (by omega) hvs] at h1; simp at h1; omega
        · omega

/-- residual edges out of a share lead to the sink if the share is free, or back along its
matching edge -/
theorem resid_from_share (hL : Layered g n m) (hI : FlowInv g n m none f M) {u v : Nat}
    (hu1 : n + 1 ≤ u) (hu2 : u ≤ n + m) (h : v ∈ adj (residualNetwork g f).1 u) :
    (v = n + m + 1 ∧ u ∉ M.map (·.2)) ∨ (1 ≤ v ∧ v ≤ n ∧ (v, u) ∈ M) := by
  rw [(residual_graph g f hL.inRange).2] at h
  rcases h with ⟨h1, h2⟩ | ⟨h1, h2⟩
  · left
    rw [hL.shr u hu1 hu2] at h1
    simp only [List.mem_singleton] at h1
    subst h1
    exact ⟨rfl, fun hm => h2 ((hI.ft_iff hL hu1 hu2).mpr hm)⟩
  · right
    have hup := hL.up h1
    by_cases hv : v = 0
    · subst hv; have := (hL.src u).mp h1; omega
    · by_cases hvn : v ≤ n
      · exact ⟨by omega, hvn, (hI.fe_iff (by omega) hvn h1).mp h2⟩
      · by_cases hvs : v ≤ n + m
        · rw [hL.shr v (by omega) hvs] at h1; simp at h1; omega
        · omega

theorem resid_to_free_server (hL : Layered g n m) (hI : FlowInv g n m none f M) {i : Nat}
    (h1 : 1 ≤ i) (h2 : i ≤ n) (hfree : i ∉ M.map (·.1)) : i ∈ adj (residualNetwork g f).1 0 := by
  rw [(residual_graph g f hL.inRange).2]
  left; exact ⟨(hL.src i).mpr ⟨h1, h2⟩, fun h => hfree ((hI.f0_free h1 h2).mp h)⟩

theorem resid_forward (hL : Layered g n m) (hI : FlowInv g n m none f M) {i s : Nat}
    (h1 : 1 ≤ i) (h2 : i ≤ n) (hs : s ∈ adj g i) (hnm : (i, s) ∉ M) :
    s ∈ adj (residualNetwork g f).1 i := by
  rw [(residual_graph g f hL.inRange).2]
  left; exact ⟨hs, fun h => hnm ((hI.fe_iff h1 h2 hs).mp h)⟩

theorem resid_backward (hL : Layered g n m) (hI : FlowInv g n m none f M) {i s : Nat}
    (hm : (i, s) ∈ M) : i ∈ adj (residualNetwork g f).1 s := by
  rw [(residual_graph g f hL.inRange).2]
  obtain ⟨h1, h2, hs⟩ := hI.sub (i, s) hm
  right; exact ⟨hs, (hI.fe_iff h1 h2 hs).mpr hm⟩

theorem resid_to_sink (hL : Layered g n m) (hI : FlowInv g n m none f M) {s : Nat}
    (h1 : n + 1 ≤ s) (h2 : s ≤ n + m) (hfree : s ∉ M.map (·.2)) :
    (n + m + 1) ∈ adj (residualNetwork g f).1 s := by
  rw [(residual_graph g f hL.inRange).2]
  left
  refine ⟨by rw [hL.shr s h1 h2]; simp, fun h => hfree ((hI.ft_iff hL h1 h2).mp h)⟩

theorem resid_inRange (hL : Layered g n m) : InRange (residualNetwork g f).1 := by
  intro u v h
  rw [(residual_graph g f hL.inRange).1]
  rw [(residual_graph g f hL.inRange).2] at h
  rcases h with ⟨h1, _⟩ | ⟨h1, _⟩
  · exact hL.inRange u v h1
  · exact lt_of_mem_adj h1

/-- a BFS chain from a server to the sink in the residual network is an alternating path with
respect to any matching that agrees with `M` on the shares not yet passed -/
theorem chain_alt (hL : Layered g n m) (hI : FlowInv g n m none f M) (dist : Nat → Int) :
    ∀ (path : List (Nat × Nat)) (i : Nat) (M' : List (Nat × Nat)), 1 ≤ i → i ≤ n →
      Chain (residualNetwork g f).1 dist i (n + m + 1) path →
      (∀ a b, dist i < dist b → ((a, b) ∈ M' ↔ (a, b) ∈ M)) → dist 0 < dist i →
      AltChain g (n + m + 1) M' i path
  | [], i, M', h1, h2, hc, _, _ => by
    have := hc.nil_eq; omega
  | [e], i, M', h1, h2, hc, _, _ => by
    cases hc with
    | cons hv hd hrest =>
      have := hrest.nil_eq
      subst this
      rcases resid_from_server hL hI h1 h2 hv with ⟨hv', _⟩ | hv'
      · have := hL.srv i h1 h2 _ hv'; omega
      · omega
  | e1 :: e2 :: rest, i, M', h1, h2, hc, hagree, h0 => by
    cases hc with
    | @cons _ s _ _ hv hd hrest =>
      cases hrest with
      | @cons _ w _ _ hw hdw hrest2 =>
        rcases resid_from_server hL hI h1 h2 hv with ⟨hs, hnm⟩ | hs0
        · obtain ⟨hs1, hs2⟩ := hL.srv i h1 h2 s hs
          rcases resid_from_share hL hI hs1 hs2 hw with ⟨hwt, hfree⟩ | ⟨hw1, hw2, hwm⟩
          · subst hwt
            have hlen := hrest2.dist_eq
            have : rest = [] := by
              cases rest with
              | nil => rfl
              | cons a b => simp at hlen; omega
            subst this
            apply AltChain.last hs
            intro hmem
            obtain ⟨a, ha⟩ := mem_map_snd.mp hmem
            exact hfree (mem_map_snd.mpr ⟨a, (hagree a s (by omega)).mp ha⟩)
          · apply AltChain.step hs ((hagree w s (by omega)).mpr hwm)
            apply chain_alt hL hI dist rest w _ hw1 hw2 hrest2
            · intro a b hb
              have hbs : b ≠ s := by intro e; subst e; omega
              rw [List.mem_cons, List.mem_erase_of_ne (by simp [hbs])]
              have : (a, b) ≠ (i, s) := by simp [hbs]
              simp only [this, false_or]
              exact hagree a b (by omega)
            · omega
        · subst hs0; omega

theorem foldl_min_one (xs : List Int) (h : ∀ x ∈ xs, x = 1) : xs.foldl min 1 = 1 := by
  induction xs with
  | nil => rfl
  | cons a rest ih =>
    have := h a (by simp); subst this
    simp only [List.foldl_cons]
    have : min (1 : Int) 1 = 1 := by simp
    rw [this]; exact ih (fun x hx => h x (by simp [hx]))

theorem pathDelta_one (cf : Matrix) (path : List (Nat × Nat)) (hne : path ≠ [])
    (h : ∀ e ∈ path, mget cf e.1 e.2 = 1) : pathDelta cf path = 1 := by
  unfold pathDelta
  cases path with
  | nil => exact absurd rfl hne
  | cons e rest =>
    simp only [List.map_cons]
    rw [h e (by simp)]
    apply foldl_min_one
    intro x hx
    simp only [List.mem_map] at hx
    obtain ⟨e', he', rfl⟩ := hx
    exact h e' (by simp [he'])

/-- one unit pushed from the source into a free server -/
theorem push_source (hL : Layered g n m) (hI : FlowInv g n m none f M) {i : Nat} (h1 : 1 ≤ i)
    (h2 : i ≤ n) (hfree : i ∉ M.map (·.1)) : FlowInv g n m (some i) (pushEdge 1 f (0, i)) M := by
  have key := mget_pushEdge hI.sq 1 0 i (by omega) (by omega) (by omega)
  constructor
  · exact hI.sq.pushEdge 1 _
  · exact hI.mat
  · exact hI.sub
  · intro x hx; simp only [Option.some.injEq] at hx; subst hx; exact ⟨h1, h2, hfree⟩
  · intro j hj1 hj2
    rw [key]
    by_cases hji : j = i
    · subst hji
      rw [if_pos ⟨rfl, rfl⟩, hI.f0 j hj1 hj2]
      simp [hfree]
    · rw [if_neg (by omega), if_neg (by omega), hI.f0 j hj1 hj2]
      have : (some i = some j) ↔ False := by simp; omega
      simp only [this, reduceCtorEq]
  · intro j x hj1 hj2 hx
    have := hL.srv j hj1 hj2 x hx
    rw [key, if_neg (by omega), if_neg (by omega)]
    exact hI.fe j x hj1 hj2 hx
  · intro y hy1 hy2
    rw [key, if_neg (by omega), if_neg (by omega)]
    exact hI.ft y hy1 hy2

/-- One round of the loop: if `augmenting_path_for` finds a path in the residual network of a
flow that encodes the matching `M`, pushing `delta` along it yields a flow that encodes a matching
with one more edge. -/
theorem round_inv (hL : Layered g n m) (hI : FlowInv g n m none f M) (path : List (Nat × Nat))
    (hp : augmentingPathFor (residualNetwork g f).1 = some path) :
    ∃ M', FlowInv g n m none (path.foldl (pushEdge (pathDelta (residualNetwork g f).2 path)) f) M' ∧
      M'.length = M.length + 1 := by
  have hlen : (residualNetwork g f).1.length = n + m + 2 := by
    rw [(residual_graph g f hL.inRange).1, hL.len]
  obtain ⟨hc, hne⟩ := augPath_some _ (resid_inRange hL) (by omega) path hp
  have hdelta : pathDelta (residualNetwork g f).2 path = 1 := by
    apply pathDelta_one _ _ hne
    intro e he
    exact residual_cap g f hL.inRange hL.edgesNodup hL.anti e.1 e.2 (hc.edges e he)
  rw [hdelta]
  rw [hlen] at hc
  have ht : n + m + 2 - 1 = n + m + 1 := by omega
  rw [ht] at hc
  cases hc with
  | @cons _ i0 _ rest hv hd hrest =>
    obtain ⟨h1, h2, hfree⟩ := resid_from_source hL hI hv
    have hI1 := push_source hL hI h1 h2 hfree
    have halt := chain_alt hL hI _ rest i0 M h1 h2 hrest (fun _ _ _ => Iff.rfl) (by omega)
    simp only [List.foldl_cons]
    exact altChain_push hL rest M i0 _ halt hI1

/-- what the `while` loop maintains -/
def LoopInv (g : Graph) (n m : Nat) (st : FlowState) (M : List (Nat × Nat)) : Prop :=
  FlowInv g n m none st.1 M ∧ st.2.1 = (residualNetwork g st.1).1 ∧ st.2.2 = (residualNetwork g st.1).2

theorem matching_length_le (hI : FlowInv g n m none f M) : M.length ≤ n := by
  have hnd : (M.map (·.1)).Nodup := by
    rw [List.nodup_iff_pairwise_ne, List.pairwise_map]
    exact hI.mat.imp (fun h => h.1)
  have hsub : M.map (·.1) ⊆ List.range' 1 n := by
    intro x hx
    obtain ⟨y, hy⟩ := mem_map_fst.mp hx
    have := hI.sub (x, y) hy
    simp only [List.mem_range'_1]; omega
  have := hnd.length_le_of_subset hsub
  simpa using this

theorem loopInv_init (hL : Layered g n m) : LoopInv g n m (flowInit g) [] := by
  refine ⟨?_, rfl, rfl⟩
  simp only [flowInit, hL.len]
  constructor
  · exact Sq.zero _
  · exact List.Pairwise.nil
  · intro e he; simp at he
  · intro x hx; simp at hx
  · intro i _ _; simp [mget_zero]
  · intro i s _ _ _; simp [mget_zero]
  · intro s _ _; simp [mget_zero]

theorem flowLoop_outer (hL : Layered g n m) :
    ∀ (fuel : Nat) (st : FlowState) (M : List (Nat × Nat)), LoopInv g n m st M →
      n < fuel + M.length →
      ∃ M', LoopInv g n m (flowLoop augmentOuter g fuel st) M' ∧
        augmentingPathFor (flowLoop augmentOuter g fuel st).2.1 = none := by
  intro fuel
  induction fuel with
  | zero =>
    intro st M hI hf
    have := matching_length_le hI.1
    omega
  | succ k ih =>
    intro st M hI hf
    unfold flowLoop
    split
    · rename_i hsome
      split
      · rename_i path hp
        obtain ⟨hF, hrg, hrf⟩ := hI
        rw [hrg] at hp
        obtain ⟨M', hI', hlen⟩ := round_inv hL hF path hp
        have hinv' : LoopInv g n m (augmentOuter g st path) M' := by
          refine ⟨?_, rfl, rfl⟩
          simp only [augmentOuter]
          rw [hrf]; exact hI'
        exact ih _ M' hinv' (by omega)
      · rename_i hnone; rw [hnone] at hsome; simp at hsome
    · rename_i hnone
      refine ⟨M, hI, ?_⟩
      simpa using hnone

theorem sum_indicator (l : List Nat) (hl : l.Nodup) :
    ∀ (L : List Nat), L.Nodup → (∀ x ∈ L, x ∈ l) →
      (l.map (fun v => if v ∈ L then (1 : Int) else 0)).sum = L.length := by
  induction l with
  | nil =>
    intro L _ hsub
    cases L with
    | nil => rfl
    | cons a _ => have := hsub a (by simp); simp at this
  | cons a rest ih =>
    intro L hL hsub
    have hnd := List.nodup_cons.mp hl
    simp only [List.map_cons, List.sum_cons]
    by_cases ha : a ∈ L
    · rw [if_pos ha]
      have hcongr : rest.map (fun v => if v ∈ L then (1 : Int) else 0) =
          rest.map (fun v => if v ∈ L.erase a then (1 : Int) else 0) := by
        apply List.map_congr_left
        intro v hv
        have hva : v ≠ a := fun e => hnd.1 (e ▸ hv)
        simp only [List.mem_erase_of_ne hva]
      rw [hcongr, ih hnd.2 (L.erase a) (hL.erase a)]
      · rw [List.length_erase_of_mem ha]
        have : 0 < L.length := List.length_pos_of_mem ha
        omega
      · intro x hx
        have hx' := (hL.mem_erase_iff).mp hx
        have := hsub x hx'.2
        simp only [List.mem_cons] at this
        rcases this with h | h
        · exact absurd h hx'.1
        · exact h
    · rw [if_neg ha, ih hnd.2 L hL]
      · simp
      · intro x hx
        have := hsub x hx
        simp only [List.mem_cons] at this
        rcases this with h | h
        · subst h; exact absurd hx ha
        · exact h

/-- the value read off the flow matrix is the size of the encoded matching -/
theorem flowValue_eq (hI : FlowInv g n m none f M) : flowValue f n = M.length := by
  unfold flowValue
  have hnd : (M.map (·.1)).Nodup := by
    rw [List.nodup_iff_pairwise_ne, List.pairwise_map]
    exact hI.mat.imp (fun h => h.1)
  have hcongr : (List.range' 1 n).map (fun v => mget f 0 v) =
      (List.range' 1 n).map (fun v => if v ∈ M.map (·.1) then (1 : Int) else 0) := by
    apply List.map_congr_left
    intro v hv
    simp only [List.mem_range'_1] at hv
    rw [hI.f0 v hv.1 (by omega)]
    simp only [reduceCtorEq, or_false]
  rw [hcongr, sum_indicator _ (List.nodup_range' 1) _ hnd]
  · simp
  · intro x hx
    obtain ⟨y, hy⟩ := mem_map_fst.mp hx
    have := hI.sub (x, y) hy
    simp only [List.mem_range'_1]; omega

end
end Tahoe.Happiness
