import Tahoe.Happiness.LemmasPath
import Tahoe.Happiness.LemmasResidual
/-! The augmentation step keeps the flow matrix the indicator of a matching and enlarges the
matching by one edge. -/
namespace Tahoe.Happiness
attribute [-simp] List.getD_eq_getElem?_getD

/-- the shape of the flow networks built by `_flow_network_for` / `_flow_network` /
`_servermap_flow_graph`: source 0, servers `1..n`, shares `n+1..n+m`, sink `n+m+1` -/
structure Layered (g : Graph) (n m : Nat) : Prop where
  len : g.length = n + m + 2
  src : ∀ v, v ∈ adj g 0 ↔ 1 ≤ v ∧ v ≤ n
  srcNodup : (adj g 0).Nodup
  srv : ∀ i, 1 ≤ i → i ≤ n → ∀ v ∈ adj g i, n + 1 ≤ v ∧ v ≤ n + m
  srvNodup : ∀ i, 1 ≤ i → i ≤ n → (adj g i).Nodup
  shr : ∀ s, n + 1 ≤ s → s ≤ n + m → adj g s = [n + m + 1]
  snk : adj g (n + m + 1) = []

theorem Layered.up {g : Graph} {n m : Nat} (h : Layered g n m) {u v : Nat} (hv : v ∈ adj g u) :
    u < v ∧ v ≤ n + m + 1 := by
  have hu := lt_of_mem_adj hv
  rw [h.len] at hu
  by_cases h0 : u = 0
  · subst h0; have := (h.src v).mp hv; omega
  · by_cases h1 : u ≤ n
    · have := h.srv u (by omega) h1 v hv; omega
    · by_cases h2 : u ≤ n + m
      · rw [h.shr u (by omega) h2] at hv; simp at hv; omega
      · have : u = n + m + 1 := by omega
        subst this; rw [h.snk] at hv; simp at hv

theorem Layered.inRange {g : Graph} {n m : Nat} (h : Layered g n m) : InRange g := by
  intro u v hv; have := h.up hv; rw [h.len]; omega

theorem Layered.rowNodup {g : Graph} {n m : Nat} (h : Layered g n m) (u : Nat) : (adj g u).Nodup := by
  by_cases hu : u < g.length
  · rw [h.len] at hu
    by_cases h0 : u = 0
    · subst h0; exact h.srcNodup
    · by_cases h1 : u ≤ n
      · exact h.srvNodup u (by omega) h1
      · by_cases h2 : u ≤ n + m
        · rw [h.shr u (by omega) h2]; simp
        · have : u = n + m + 1 := by omega
          subst this; rw [h.snk]; simp
  · rw [adj_of_le g u (by omega)]; simp

theorem nodup_map_of_inj {α β : Type} {f : α → β} {l : List α} (hf : ∀ a b, f a = f b → a = b)
    (h : l.Nodup) : (l.map f).Nodup := by
  rw [List.nodup_iff_pairwise_ne] at *
  rw [List.pairwise_map]
  exact h.imp (fun hab e => hab (hf _ _ e))

theorem nodup_flatMap_pairs (l : List Nat) (hl : l.Nodup) (F : Nat → List Nat)
    (hF : ∀ i, (F i).Nodup) : (l.flatMap (fun i => (F i).map (fun v => (i, v)))).Nodup := by
  induction l with
  | nil => simp
  | cons a rest ih =>
    have := List.nodup_cons.mp hl
    simp only [List.flatMap_cons]
    rw [List.nodup_append]
    refine ⟨?_, ih this.2, ?_⟩
    · exact nodup_map_of_inj (fun _ _ h => by simpa using h) (hF a)
    · intro x hx y hy
      simp only [List.mem_map] at hx
      simp only [List.mem_flatMap, List.mem_map] at hy
      obtain ⟨v, _, rfl⟩ := hx
      obtain ⟨i, hi, w, _, rfl⟩ := hy
      intro e
      simp only [Prod.mk.injEq] at e
      exact this.1 (e.1 ▸ hi)

theorem Layered.edgesNodup {g : Graph} {n m : Nat} (h : Layered g n m) : (edgesOf g).Nodup := by
  unfold edgesOf
  exact nodup_flatMap_pairs _ List.nodup_range (adj g) h.rowNodup

theorem Layered.anti {g : Graph} {n m : Nat} (h : Layered g n m) :
    ∀ a b, b ∈ adj g a → a ∉ adj g b := by
  intro a b h1 h2
  have := h.up h1; have := h.up h2; omega

/-- the two coordinates of a matching determine the edge -/
def Matching (M : List (Nat × Nat)) : Prop := M.Pairwise (fun a b => a.1 ≠ b.1 ∧ a.2 ≠ b.2)

theorem Matching.fst_inj {M : List (Nat × Nat)} (h : Matching M) {a b : Nat × Nat}
    (ha : a ∈ M) (hb : b ∈ M) (e : a.1 = b.1) : a = b := by
  induction M with
  | nil => simp at ha
  | cons x rest ih =>
    have hp := List.pairwise_cons.mp h
    simp only [List.mem_cons] at ha hb
    rcases ha with rfl | ha <;> rcases hb with rfl | hb
    · rfl
    · exact absurd e (hp.1 b hb).1
    · exact absurd e.symm (hp.1 a ha).1
    · exact ih hp.2 ha hb

theorem Matching.snd_inj {M : List (Nat × Nat)} (h : Matching M) {a b : Nat × Nat}
    (ha : a ∈ M) (hb : b ∈ M) (e : a.2 = b.2) : a = b := by
  induction M with
  | nil => simp at ha
  | cons x rest ih =>
    have hp := List.pairwise_cons.mp h
    simp only [List.mem_cons] at ha hb
    rcases ha with rfl | ha <;> rcases hb with rfl | hb
    · rfl
    · exact absurd e (hp.1 b hb).2
    · exact absurd e.symm (hp.1 a ha).2
    · exact ih hp.2 ha hb

theorem Matching.nodup {M : List (Nat × Nat)} (h : Matching M) : M.Nodup := by
  unfold Matching at h
  rw [List.nodup_iff_pairwise_ne]
  exact h.imp (fun hab e => hab.1 (by rw [e]))

/-- the flow matrix is the indicator of the matching `M` (on the edges of the network);
`exc = some x`: additionally one unit has been pushed from the source into the free server `x` -/
structure FlowInv (g : Graph) (n m : Nat) (exc : Option Nat) (f : Matrix) (M : List (Nat × Nat)) :
    Prop where
  sq : Sq f (n + m + 2)
  mat : Matching M
  sub : ∀ e ∈ M, 1 ≤ e.1 ∧ e.1 ≤ n ∧ e.2 ∈ adj g e.1
  excfree : ∀ x, exc = some x → 1 ≤ x ∧ x ≤ n ∧ x ∉ M.map (·.1)
  f0 : ∀ i, 1 ≤ i → i ≤ n → mget f 0 i = if i ∈ M.map (·.1) ∨ exc = some i then 1 else 0
  fe : ∀ i s, 1 ≤ i → i ≤ n → s ∈ adj g i → mget f i s = if (i, s) ∈ M then 1 else 0
  ft : ∀ s, n + 1 ≤ s → s ≤ n + m → mget f s (n + m + 1) = if s ∈ M.map (·.2) then 1 else 0

theorem Sq.pushEdge {f : Matrix} {dim : Nat} (h : Sq f dim) (d : Int) (e : Nat × Nat) :
    Sq (pushEdge d f e) dim := by
  unfold Tahoe.Happiness.pushEdge; exact (h.mset _ _ _).mset _ _ _

theorem mget_pushEdge {f : Matrix} {dim : Nat} (h : Sq f dim) (d : Int) (a b : Nat)
    (ha : a < dim) (hb : b < dim) (hab : a ≠ b) (x y : Nat) :
    mget (pushEdge d f (a, b)) x y =
      if x = a ∧ y = b then mget f a b + d else if x = b ∧ y = a then mget f b a - d else mget f x y := by
  unfold Tahoe.Happiness.pushEdge
  simp only [mget_mset (h.mset _ _ _), mget_mset h]
  grind

/-- alternating path from the free server `i` to a free share, with respect to the matching as
it evolves while the path is processed edge pair by edge pair -/
inductive AltChain (g : Graph) (t : Nat) : List (Nat × Nat) → Nat → List (Nat × Nat) → Prop
  | last {M : List (Nat × Nat)} {i s : Nat} : s ∈ adj g i → s ∉ M.map (·.2) →
      AltChain g t M i [(i, s), (s, t)]
  | step {M : List (Nat × Nat)} {i s i' : Nat} {rest : List (Nat × Nat)} : s ∈ adj g i →
      (i', s) ∈ M → AltChain g t ((i, s) :: M.erase (i', s)) i' rest →
      AltChain g t M i ((i, s) :: (s, i') :: rest)

theorem mem_map_fst {M : List (Nat × Nat)} {x : Nat} : x ∈ M.map (·.1) ↔ ∃ y, (x, y) ∈ M := by
  simp only [List.mem_map]
  constructor
  · rintro ⟨⟨a, b⟩, h, rfl⟩; exact ⟨b, h⟩
  · rintro ⟨y, h⟩; exact ⟨(x, y), h, rfl⟩

theorem mem_map_snd {M : List (Nat × Nat)} {y : Nat} : y ∈ M.map (·.2) ↔ ∃ x, (x, y) ∈ M := by
  simp only [List.mem_map]
  constructor
  · rintro ⟨⟨a, b⟩, h, rfl⟩; exact ⟨a, h⟩
  · rintro ⟨x, h⟩; exact ⟨(x, y), h, rfl⟩

theorem mget_push2 {f : Matrix} {dim : Nat} (h : Sq f dim) (a b c : Nat) (ha : a < dim) (hb : b < dim)
    (hc : c < dim) (hab : a ≠ b) (hbc : b ≠ c) (hac : a ≠ c) (x y : Nat) :
    mget (pushEdge 1 (pushEdge 1 f (a, b)) (b, c)) x y =
      if x = a ∧ y = b then mget f a b + 1
      else if x = b ∧ y = a then mget f b a - 1
      else if x = b ∧ y = c then mget f b c + 1
      else if x = c ∧ y = b then mget f c b - 1
      else mget f x y := by
  simp only [mget_pushEdge (h.pushEdge 1 (a, b)) 1 b c hb hc hbc, mget_pushEdge h 1 a b ha hb hab]
  grind

theorem altChain_push {g : Graph} {n m : Nat} (hL : Layered g n m) :
    ∀ (path M : List (Nat × Nat)) (i : Nat) (f : Matrix), AltChain g (n + m + 1) M i path →
      FlowInv g n m (some i) f M →
      ∃ M', FlowInv g n m none (path.foldl (pushEdge 1) f) M' ∧ M'.length = M.length + 1 := by
  intro path M i f hc
  induction hc generalizing f with
  | @last M i s hs hfree =>
    intro hI
    obtain ⟨hi1, hi2, hifree⟩ := hI.excfree i rfl
    obtain ⟨hs1, hs2⟩ := hL.srv i hi1 hi2 s hs
    have hisM : (i, s) ∉ M := fun h => hfree (mem_map_snd.mpr ⟨i, h⟩)
    refine ⟨(i, s) :: M, ?_, by simp⟩
    have sq1 := hI.sq.pushEdge 1 (i, s)
    have key := mget_push2 hI.sq i s (n + m + 1) (by omega) (by omega) (by omega) (by omega)
      (by omega) (by omega)
    simp only [List.foldl_cons, List.foldl_nil]
    constructor
    · exact sq1.pushEdge 1 _
    · apply List.pairwise_cons.mpr
      refine ⟨?_, hI.mat⟩
      intro e he
      constructor
      · intro h; have h' : i = e.1 := h
        exact hifree (by rw [h']; exact List.mem_map_of_mem he)
      · intro h; have h' : s = e.2 := h
        exact hfree (by rw [h']; exact List.mem_map_of_mem he)
    · intro e he
      simp only [List.mem_cons] at he
      rcases he with rfl | he
      · exact ⟨hi1, hi2, hs⟩
      · exact hI.sub e he
    · intro x hx; simp at hx
    · intro j hj1 hj2
      rw [key, if_neg (by omega), if_neg (by omega), if_neg (by omega), if_neg (by omega),
        hI.f0 j hj1 hj2]
      simp only [List.map_cons, List.mem_cons, Option.some.injEq]
      have hiff : (j ∈ M.map (·.1) ∨ i = j) ↔ ((j = i ∨ j ∈ M.map (·.1)) ∨ (none : Option Nat) = some j) := by
        simp; constructor
        · rintro (h | h); exact Or.inr h; exact Or.inl h.symm
        · rintro (h | h); exact Or.inr h.symm; exact Or.inl h
      by_cases hc : j ∈ M.map (·.1) ∨ i = j
      · rw [if_pos hc, if_pos (hiff.mp hc)]
      · rw [if_neg hc, if_neg (fun h => hc (hiff.mpr h))]
    · intro j x hj1 hj2 hx
      obtain ⟨hx1, hx2⟩ := hL.srv j hj1 hj2 x hx
      rw [key]
      by_cases hjx : j = i ∧ x = s
      · obtain ⟨rfl, rfl⟩ := hjx
        rw [if_pos ⟨rfl, rfl⟩, hI.fe j x hj1 hj2 hx, if_neg hisM, if_pos (by simp)]; rfl
      · rw [if_neg hjx, if_neg (by omega), if_neg (by omega), if_neg (by omega), hI.fe j x hj1 hj2 hx]
        have : (j, x) ∈ (i, s) :: M ↔ (j, x) ∈ M := by
          simp only [List.mem_cons, Prod.mk.injEq, hjx, false_or]
        simp only [this]
    · intro y hy1 hy2
      rw [key, if_neg (by omega), if_neg (by omega)]
      by_cases hys : y = s
      · subst hys
        rw [if_pos ⟨rfl, rfl⟩, hI.ft y hy1 hy2, if_neg hfree, if_pos (by simp)]; rfl
      · rw [if_neg (by omega), if_neg (by omega), hI.ft y hy1 hy2]
        have : y ∈ ((i, s) :: M).map (·.2) ↔ y ∈ M.map (·.2) := by
          simp only [List.map_cons, List.mem_cons, hys, false_or]
        simp only [this]
  | @step M i s i' rest hs hm hrest ih =>
    intro hI
    obtain ⟨hi1, hi2, hifree⟩ := hI.excfree i rfl
    obtain ⟨hs1, hs2⟩ := hL.srv i hi1 hi2 s hs
    obtain ⟨hi'1, hi'2, hs'⟩ := hI.sub (i', s) hm
    simp only at hi'1 hi'2 hs'
    have hnd := hI.mat.nodup
    have hii' : i ≠ i' := by
      intro e; subst e; exact hifree (mem_map_fst.mpr ⟨s, hm⟩)
    have hisM : (i, s) ∉ M := fun h => hifree (mem_map_fst.mpr ⟨s, h⟩)
    have sq1 := hI.sq.pushEdge 1 (i, s)
    have key := mget_push2 hI.sq i s i' (by omega) (by omega) (by omega) (by omega)
      (by omega) hii'
    have hmem : ∀ e, e ∈ M.erase (i', s) ↔ e ≠ (i', s) ∧ e ∈ M := fun e => hnd.mem_erase_iff
    have hstep : FlowInv g n m (some i') (pushEdge 1 (pushEdge 1 f (i, s)) (s, i'))
        ((i, s) :: M.erase (i', s)) := by
      constructor
      · exact sq1.pushEdge 1 _
      · apply List.pairwise_cons.mpr
        refine ⟨?_, hI.mat.sublist List.erase_sublist⟩
        intro e he
        have he' := (hmem e).mp he
        constructor
        · intro h; have h' : i = e.1 := h
          exact hifree (by rw [h']; exact List.mem_map_of_mem he'.2)
        · intro h
          exact he'.1 (hI.mat.snd_inj he'.2 hm h.symm)
      · intro e he
        simp only [List.mem_cons] at he
        rcases he with rfl | he
        · exact ⟨hi1, hi2, hs⟩
        · exact hI.sub e ((hmem e).mp he).2
      · intro x hx
        simp only [Option.some.injEq] at hx
        subst hx
        refine ⟨hi'1, hi'2, ?_⟩
        simp only [List.map_cons, List.mem_cons, not_or]
        refine ⟨Ne.symm hii', ?_⟩
        intro h
        obtain ⟨y, hy⟩ := mem_map_fst.mp h
        have hy' := (hmem _).mp hy
        exact hy'.1 (hI.mat.fst_inj hy'.2 hm rfl)
      · intro j hj1 hj2
        rw [key, if_neg (by omega), if_neg (by omega), if_neg (by omega), if_neg (by omega),
          hI.f0 j hj1 hj2]
        simp only [List.map_cons, List.mem_cons, Option.some.injEq]
        have hiff : (j ∈ M.map (·.1) ∨ i = j) ↔ ((j = i ∨ j ∈ (M.erase (i', s)).map (·.1)) ∨ i' = j) := by
          constructor
          · rintro (h | h)
            · obtain ⟨y, hy⟩ := mem_map_fst.mp h
              by_cases hji : j = i'
              · right; exact hji.symm
              · left; right
                exact mem_map_fst.mpr ⟨y, (hmem _).mpr ⟨by simp [hji], hy⟩⟩
            · left; left; exact h.symm
          · rintro ((h | h) | h)
            · right; exact h.symm
            · obtain ⟨y, hy⟩ := mem_map_fst.mp h
              left; exact mem_map_fst.mpr ⟨y, ((hmem _).mp hy).2⟩
            · left; subst h; exact mem_map_fst.mpr ⟨s, hm⟩
        by_cases hc : j ∈ M.map (·.1) ∨ i = j
        · rw [if_pos hc, if_pos (hiff.mp hc)]
        · rw [if_neg hc, if_neg (fun h => hc (hiff.mpr h))]
      · intro j x hj1 hj2 hx
        obtain ⟨hx1, hx2⟩ := hL.srv j hj1 hj2 x hx
        rw [key]
        by_cases hjx : j = i ∧ x = s
        · obtain ⟨rfl, rfl⟩ := hjx
          rw [if_pos ⟨rfl, rfl⟩, hI.fe j x hj1 hj2 hx, if_neg hisM, if_pos (by simp)]; rfl
        · rw [if_neg hjx, if_neg (by omega), if_neg (by omega)]
          by_cases hjx' : j = i' ∧ x = s
          · obtain ⟨rfl, rfl⟩ := hjx'
            rw [if_pos ⟨rfl, rfl⟩, hI.fe j x hj1 hj2 hx, if_pos hm]
            have : (j, x) ∉ (i, x) :: M.erase (j, x) := by
              simp only [List.mem_cons, Prod.mk.injEq, not_or]
              exact ⟨fun h => hii' h.1.symm, fun h => ((hmem _).mp h).1 rfl⟩
            rw [if_neg this]; rfl
          · rw [if_neg hjx', hI.fe j x hj1 hj2 hx]
            have : (j, x) ∈ (i, s) :: M.erase (i', s) ↔ (j, x) ∈ M := by
              simp only [List.mem_cons, Prod.mk.injEq, hjx, false_or, hmem, ne_eq, hjx',
                not_false_eq_true, true_and]
            simp only [this]
      · intro y hy1 hy2
        rw [key, if_neg (by omega), if_neg (by omega), if_neg (by omega), if_neg (by omega),
          hI.ft y hy1 hy2]
        simp only [List.map_cons, List.mem_cons]
        have hiff : y ∈ M.map (·.2) ↔ (y = s ∨ y ∈ (M.erase (i', s)).map (·.2)) := by
          constructor
          · intro h
            obtain ⟨x, hx⟩ := mem_map_snd.mp h
            by_cases hys : y = s
            · left; exact hys
            · right; exact mem_map_snd.mpr ⟨x, (hmem _).mpr ⟨by simp [hys], hx⟩⟩
          · rintro (h | h)
            · subst h; exact mem_map_snd.mpr ⟨i', hm⟩
            · obtain ⟨x, hx⟩ := mem_map_snd.mp h
              exact mem_map_snd.mpr ⟨x, ((hmem _).mp hx).2⟩
        by_cases hc : y ∈ M.map (·.2)
        · rw [if_pos hc, if_pos (hiff.mp hc)]
        · rw [if_neg hc, if_neg (fun h => hc (hiff.mpr h))]
    obtain ⟨M', h1, h2⟩ := ih _ hstep
    refine ⟨M', by simpa only [List.foldl_cons] using h1, ?_⟩
    rw [h2]
    simp only [List.length_cons]
    rw [List.length_erase_of_mem hm]
    have : 0 < M.length := List.length_pos_of_mem hm
    omega

end Tahoe.Happiness
