import Tahoe.Happiness.LemmasPlacement2
/-! Spread maximality of the repaired `share_placement`, part 1: what one `_calculate_mappings`
phase returns, in the original ids: the mapped (share, peer) pairs form a maximum matching of the
phase's relation. -/
namespace Tahoe.Happiness
attribute [-simp] List.getD_eq_getElem?_getD

/-- a `(peer, share)` pair the phase may use: any pair when no servermap is given, else the peer
must hold the share in the servermap -/
def PhaseEdge (peers shares : List Nat) (sm : SetMap) (p s : Nat) : Prop :=
  p ∈ peers ∧ s ∈ shares ∧ (sm.isEmpty = false → s ∈ dget sm p)

theorem peers_getElem_toIndex (peers : List Nat) (p : Nat) (hp : p ∈ peers) :
    ∃ h : toIndex (reindexItems peers 1) p - 1 < peers.length,
      peers[toIndex (reindexItems peers 1) p - 1] = p := by
  have hr := toIndex_range peers 1 p hp
  have hj : toIndex (reindexItems peers 1) p - 1 < peers.length := by omega
  refine ⟨hj, ?_⟩
  have := ofIndex_getElem peers 1 (toIndex (reindexItems peers 1) p - 1) hj
  rw [show 1 + (toIndex (reindexItems peers 1) p - 1) = toIndex (reindexItems peers 1) p by omega,
    ofIndex_toIndex peers 1 p hp] at this
  exact this.symm

/-- the adjacency row of a peer's vertex in the phase's flow network -/
theorem adj_cmGraph_peer (peers shares : List Nat) (sm : SetMap) (hp : peers.Nodup) (hs : shares.Nodup)
    (p : Nat) (hpm : p ∈ peers) :
    adj (cmGraph peers shares sm) (toIndex (reindexItems peers 1) p) =
      if sm.isEmpty = false then indexedSharesOf sm (reindexItems shares (peers.length + 1)) p
      else List.range' (peers.length + 1) shares.length := by
  obtain ⟨hj, hget⟩ := peers_getElem_toIndex peers p hpm
  have hr := toIndex_range peers 1 p hpm
  generalize toIndex (reindexItems peers 1) p = t at hj hget hr
  obtain ⟨j, rfl⟩ : ∃ j, t = j + 1 := ⟨t - 1, by omega⟩
  simp only [Nat.add_sub_cancel] at hj hget
  unfold cmGraph
  by_cases hne : sm.isEmpty = false
  · simp only [hne, Bool.not_false, if_true]
    rw [servermapFlowGraph_eq peers shares sm hp hs hne, adj_netOf_server _ _ _ (by simp) _ hj]
    simp only [List.getD_eq_getElem?_getD, List.getElem?_map, List.getElem?_eq_getElem hj,
      Option.map_some, Option.getD_some, hget]
  · have hem : sm.isEmpty = true := by simpa using hne
    simp only [hem, Bool.not_true, Bool.false_eq_true, if_false]
    rw [map_toIndex peers 1 hp, map_toIndex shares _ hs, flowNetwork_eq,
      adj_netOf_server _ _ _ (by simp) _ hj]
    simp [List.getD_eq_getElem?_getD, hj]

theorem mem_indexedSharesOf (sm : SetMap) (shares : List Nat) (base p s : Nat) (hs : s ∈ shares)
    (hd : s ∈ dget sm p) :
    toIndex (reindexItems shares base) s ∈ indexedSharesOf sm (reindexItems shares base) p := by
  unfold indexedSharesOf
  have hhas : dhas sm p = true := by
    unfold dhas; unfold dget at hd
    cases h : sm.lookup p with
    | none => rw [h] at hd; simp at hd
    | some v => rfl
  simp only [hhas, if_true, List.mem_map, List.mem_filter]
  exact ⟨s, ⟨hd, (lookup_reindexItems shares base s).mpr hs⟩, rfl⟩

/-- **one phase, in original ids**: the pairs `(share, peer)` with `mappings[share] = {peer}` are a
matching of the phase's relation, and no matching of that relation has more edges. -/
theorem calculateMappings_matching (peers shares : List Nat) (sm : SetMap) (hp : peers.Nodup)
    (hs : shares.Nodup) (hrows : ∀ p, (dget sm p).Nodup) :
    ∃ Lp : List (Nat × Nat),
      (∀ s p, (s, p) ∈ Lp ↔ (s, some p) ∈ calculateMappings Cfg.fixed peers shares sm) ∧
      (Lp.map (·.1)).Nodup ∧ (Lp.map (·.2)).Nodup ∧
      ∀ Mo : List (Nat × Nat), Matching Mo → (∀ e ∈ Mo, PhaseEdge peers shares sm e.1 e.2) →
        Mo.length ≤ Lp.length := by
  have hL := cmGraph_layered peers shares sm hp hs hrows
  obtain ⟨M, hM, hsub, hopt, hcase⟩ := cmgValue_spec hL
  rw [calculateMappings_eq peers shares sm hp hs]
  -- every edge of M: server index in 1..n, share index in the share range
  have hrange : ∀ e ∈ M, 1 ≤ e.1 ∧ e.1 < 1 + peers.length ∧
      peers.length + 1 ≤ e.2 ∧ e.2 < peers.length + 1 + shares.length := by
    intro e he
    obtain ⟨h1, h2, h3⟩ := hsub e he
    have := hL.srv e.1 h1 h2 e.2 h3
    omega
  let back : Nat × Nat → Nat × Nat := fun e =>
    (ofIndex (reindexItems shares (peers.length + 1)) e.2, ofIndex (reindexItems peers 1) e.1)
  refine ⟨M.map back, ?_, ?_, ?_, ?_⟩
  · intro s p
    constructor
    · intro h
      obtain ⟨e, he, heq⟩ := List.mem_map.mp h
      obtain ⟨r1, r2, r3, r4⟩ := hrange e he
      simp only [back, Prod.mk.injEq] at heq
      obtain ⟨hs', hp'⟩ := heq
      have hsm := ofIndex_mem shares (peers.length + 1) e.2 r3 r4
      rw [hs'] at hsm
      refine List.mem_map.mpr ⟨s, hsm.1, ?_⟩
      simp only [Prod.mk.injEq, true_and]
      have hti : toIndex (reindexItems shares (peers.length + 1)) s = e.2 := hsm.2 hs
      rw [hti]
      rcases hcase e.2 r3 (by omega) with ⟨_, hnm⟩ | ⟨i, hv, hi⟩
      · exact absurd (mem_map_snd.mpr ⟨e.1, he⟩) hnm
      · rw [hv]
        have : (i, e.2) = e := hM.snd_inj hi he rfl
        have hi1 : i = e.1 := by rw [← this]
        simp [hi1, hp']
    · intro h
      obtain ⟨s', hs', heq⟩ := List.mem_map.mp h
      simp only [Prod.mk.injEq] at heq
      obtain ⟨rfl, hval⟩ := heq
      have hr := toIndex_range shares (peers.length + 1) s' hs'
      rcases hcase _ hr.1 (by omega) with ⟨hnone, _⟩ | ⟨i, hv, hi⟩
      · rw [hnone] at hval; simp at hval
      · rw [hv] at hval
        simp only [Option.map_some, Option.some.injEq] at hval
        refine List.mem_map.mpr ⟨(i, toIndex (reindexItems shares (peers.length + 1)) s'), hi, ?_⟩
        simp only [back, Prod.mk.injEq]
        exact ⟨ofIndex_toIndex shares _ s' hs', hval⟩
  · rw [List.map_map, List.nodup_iff_pairwise_ne, List.pairwise_map]
    apply hM.imp_of_mem
    intro a b ha hb hab e
    simp only [Function.comp, back] at e
    obtain ⟨_, _, a3, a4⟩ := hrange a ha
    obtain ⟨_, _, b3, b4⟩ := hrange b hb
    have h1 := (ofIndex_mem shares (peers.length + 1) a.2 a3 a4).2 hs
    have h2 := (ofIndex_mem shares (peers.length + 1) b.2 b3 b4).2 hs
    rw [e] at h1
    exact hab.2 (h1.symm.trans h2)
  · rw [List.map_map, List.nodup_iff_pairwise_ne, List.pairwise_map]
    apply hM.imp_of_mem
    intro a b ha hb hab e
    simp only [Function.comp, back] at e
    obtain ⟨a1, a2, _, _⟩ := hrange a ha
    obtain ⟨b1, b2, _, _⟩ := hrange b hb
    have h1 := (ofIndex_mem peers 1 a.1 a1 a2).2 hp
    have h2 := (ofIndex_mem peers 1 b.1 b1 b2).2 hp
    rw [e] at h1
    exact hab.1 (h1.symm.trans h2)
  · intro Mo hMo hedge
    let fwd : Nat × Nat → Nat × Nat := fun e =>
      (toIndex (reindexItems peers 1) e.1, toIndex (reindexItems shares (peers.length + 1)) e.2)
    have hlen : (Mo.map fwd).length ≤ M.length := by
      apply hopt
      · show List.Pairwise _ _
        rw [List.pairwise_map]
        apply hMo.imp_of_mem
        intro a b ha hb hab
        obtain ⟨pa, sa, _⟩ := hedge a ha
        obtain ⟨pb, sb, _⟩ := hedge b hb
        exact ⟨fun e => hab.1 (toIndex_inj peers 1 _ _ pa pb e),
          fun e => hab.2 (toIndex_inj shares _ _ _ sa sb e)⟩
      · intro e he
        obtain ⟨a, ha, rfl⟩ := List.mem_map.mp he
        obtain ⟨pa, sa, hda⟩ := hedge a ha
        have hr := toIndex_range peers 1 a.1 pa
        refine ⟨hr.1, by simp only [fwd]; omega, ?_⟩
        show toIndex (reindexItems shares (peers.length + 1)) a.2 ∈
          adj (cmGraph peers shares sm) (toIndex (reindexItems peers 1) a.1)
        rw [adj_cmGraph_peer peers shares sm hp hs a.1 pa]
        split
        · rename_i hne
          exact mem_indexedSharesOf sm shares _ a.1 a.2 sa (hda hne)
        · have := toIndex_range shares (peers.length + 1) a.2 sa
          simp only [List.mem_range'_1]; omega
    simpa using hlen

theorem zip_matching (l1 l2 : List Nat) (h1 : l1.Nodup) (h2 : l2.Nodup) : Matching (l1.zip l2) := by
  induction l1 generalizing l2 with
  | nil => exact List.Pairwise.nil
  | cons a rest ih =>
    cases l2 with
    | nil => exact List.Pairwise.nil
    | cons b rest2 =>
      have n1 := List.nodup_cons.mp h1
      have n2 := List.nodup_cons.mp h2
      simp only [List.zip_cons_cons]
      apply List.pairwise_cons.mpr
      refine ⟨?_, ih rest2 n1.2 n2.2⟩
      intro e he
      obtain ⟨x, y⟩ := e
      have := List.of_mem_zip he
      exact ⟨fun h => n1.1 (by have h' : a = x := h; rw [h']; exact this.1),
        fun h => n2.1 (by have h' : b = y := h; rw [h']; exact this.2)⟩

/-- the last phase (no servermap: every peer may take every share) maps `min(|peers|, |shares|)` shares -/
theorem calculateMappings_complete (peers shares : List Nat) (hp : peers.Nodup) (hs : shares.Nodup)
    (Lp : List (Nat × Nat))
    (hopt : ∀ Mo : List (Nat × Nat), Matching Mo → (∀ e ∈ Mo, PhaseEdge peers shares [] e.1 e.2) →
      Mo.length ≤ Lp.length) : min peers.length shares.length ≤ Lp.length := by
  have := hopt (peers.zip shares) (zip_matching peers shares hp hs) (by
    intro e he
    obtain ⟨x, y⟩ := e
    have := List.of_mem_zip he
    exact ⟨this.1, this.2, by simp⟩)
  simpa using this

/-! ### entries survive the merge, the homeless distribution and the final comprehension -/

theorem dictSet_self {β : Type} (k : Nat) (v : β) (d : List (Nat × β)) : (k, v) ∈ dictSet k v d := by
  induction d with
  | nil => simp [dictSet]
  | cons e rest ih =>
    obtain ⟨k', v'⟩ := e
    unfold dictSet
    split
    · simp
    · simp only [List.mem_cons]; right; exact ih

theorem dictSet_other {β : Type} (k : Nat) (v : β) (d : List (Nat × β)) (e : Nat × β) (hne : e.1 ≠ k)
    (he : e ∈ d) : e ∈ dictSet k v d := by
  induction d with
  | nil => simp at he
  | cons a rest ih =>
    obtain ⟨k', v'⟩ := a
    unfold dictSet
    simp only [List.mem_cons] at he
    split
    · rename_i hk
      rcases he with rfl | he
      · exact absurd hk hne
      · simp only [List.mem_cons]; right; exact he
    · rcases he with rfl | he
      · simp
      · simp only [List.mem_cons]; right; exact ih he

theorem dictSet_keys_nodup {β : Type} (k : Nat) (v : β) (d : List (Nat × β)) (h : (d.map (·.1)).Nodup) :
    ((dictSet k v d).map (·.1)).Nodup := by
  induction d with
  | nil => simp [dictSet]
  | cons a rest ih =>
    obtain ⟨k', v'⟩ := a
    simp only [List.map_cons, List.nodup_cons] at h
    unfold dictSet
    split
    · rename_i hk; subst hk; simpa using h
    · rename_i hk
      simp only [List.map_cons, List.nodup_cons]
      refine ⟨?_, ih h.2⟩
      intro hm
      rcases (dictSet_keys k v rest k').mp hm with h' | h'
      · exact hk h'
      · exact h.1 h'

/-- `dict(items)`: an item whose key carries the same value wherever it occurs in `items` is in the dict -/
theorem foldl_dictSet_mem {β : Type} (l : List (Nat × β)) (k : Nat) (v : β)
    (hall : ∀ e ∈ l, e.1 = k → e.2 = v) :
    ∀ acc : List (Nat × β), ((k, v) ∈ acc ∨ ∃ e ∈ l, e.1 = k) →
      (k, v) ∈ l.foldl (fun m e => dictSet e.1 e.2 m) acc := by
  induction l with
  | nil => intro acc h; rcases h with h | ⟨e, he, _⟩; exact h; simp at he
  | cons a rest ih =>
    intro acc h
    simp only [List.foldl_cons]
    apply ih (fun e he => hall e (by simp [he]))
    by_cases hak : a.1 = k
    · left
      have := hall a (by simp) hak
      rw [← hak, ← this]; exact dictSet_self _ _ _
    · rcases h with h | ⟨e, he, hek⟩
      · left; exact dictSet_other _ _ _ _ (fun h' => hak (by simpa using h'.symm)) h
      · simp only [List.mem_cons] at he
        rcases he with rfl | he
        · exact absurd hek hak
        · right; exact ⟨e, he, hek⟩

theorem foldl_dictSet_keys_nodup {β : Type} (l : List (Nat × β)) (acc : List (Nat × β))
    (h : (acc.map (·.1)).Nodup) : ((l.foldl (fun m e => dictSet e.1 e.2 m) acc).map (·.1)).Nodup := by
  induction l generalizing acc with
  | nil => exact h
  | cons a rest ih => simp only [List.foldl_cons]; exact ih _ (dictSet_keys_nodup _ _ _ h)

/-- `_distribute_homeless_shares` rewrites only the entries of homeless shares -/
theorem distributeHomeless_preserves (mp : List (Nat × Option Nat)) (homeless : List Nat) (p2s : SetMap)
    (e : Nat × Option Nat) (he : e ∈ mp) (hk : e.1 ∉ homeless) :
    e ∈ distributeHomeless mp homeless p2s := by
  have h1 : e ∈ (homeless.foldl (dhRenew p2s (mkSet (p2s.flatMap (·.2)))) (mp, [])).1 ∧
      ∀ x ∈ (homeless.foldl (dhRenew p2s (mkSet (p2s.flatMap (·.2)))) (mp, [])).2, x ∈ homeless := by
    apply foldl_inv (fun st : List (Nat × Option Nat) × List Nat => e ∈ st.1 ∧ ∀ x ∈ st.2, x ∈ homeless)
    · exact ⟨he, by simp⟩
    · intro st share hshare hst
      unfold dhRenew
      split
      · split
        · exact ⟨dictSet_other _ _ _ _ (fun h => hk (h ▸ hshare)) hst.1, hst.2⟩
        · exact hst
      · refine ⟨hst.1, ?_⟩
        intro x hx
        rcases (mem_sinsert share x st.2).mp hx with rfl | hx
        · exact hshare
        · exact hst.2 x hx
  unfold distributeHomeless
  simp only
  split
  · exact h1.1
  · apply foldl_inv (fun st : List (Nat × Option Nat) × List (Nat × Nat) => e ∈ st.1)
    · exact h1.1
    · intro st share hshare hst
      unfold dhAssign
      split
      · exact hst
      · exact dictSet_other _ _ _ _ (fun h => hk (h ▸ h1.2 share hshare)) hst

theorem finalize_fold_mem (rr : List Nat) :
    ∀ (l : List (Nat × Option Nat)) (acc : List (Nat × Nat)) (k : Nat),
      (∀ e ∈ acc, e ∈ (l.foldl (finalizeStep rr) (acc, k)).1) ∧
      ∀ s p, (s, some p) ∈ l → (s, p) ∈ (l.foldl (finalizeStep rr) (acc, k)).1 := by
  intro l
  induction l with
  | nil => intro acc k; simp
  | cons a rest ih =>
    intro acc k
    simp only [List.foldl_cons]
    obtain ⟨ak, av⟩ := a
    cases av with
    | some q =>
      simp only [finalizeStep]
      obtain ⟨h1, h2⟩ := ih (acc ++ [(ak, q)]) k
      refine ⟨fun e he => h1 e (by simp [he]), ?_⟩
      intro s p hsp
      simp only [List.mem_cons, Prod.mk.injEq, Option.some.injEq] at hsp
      rcases hsp with ⟨rfl, rfl⟩ | hsp
      · exact h1 _ (by simp)
      · exact h2 s p hsp
    | none =>
      simp only [finalizeStep]
      obtain ⟨h1, h2⟩ := ih (acc ++ [(ak, rr.getD (k % rr.length) 0)]) (k + 1)
      refine ⟨fun e he => h1 e (by simp [he]), ?_⟩
      intro s p hsp
      simp only [List.mem_cons, Prod.mk.injEq, reduceCtorEq, and_false, false_or] at hsp
      exact h2 s p hsp

theorem finalize_mem (rr : List Nat) (mp : List (Nat × Option Nat)) (res : List (Nat × Nat))
    (h : finalize rr mp = .ok res) (s p : Nat) (hsp : (s, some p) ∈ mp) : (s, p) ∈ res := by
  unfold finalize at h
  split at h
  · simp at h
  · simp only [Placement.ok.injEq] at h
    subst h
    exact (finalize_fold_mem rr mp [] 0).2 s p hsp

end Tahoe.Happiness
