import Tahoe.Happiness.LemmasSpread
/-! Spread maximality of the repaired `share_placement`, part 2: the three phases together. -/
namespace Tahoe.Happiness
attribute [-simp] List.getD_eq_getElem?_getD

theorem filter_length_split {α : Type} (q : α → Bool) (l : List α) :
    (l.filter q).length + (l.filter (fun x => !q x)).length = l.length := by
  induction l with
  | nil => rfl
  | cons a rest ih =>
    simp only [List.filter_cons]
    cases q a <;> simp <;> omega

/-- removing `B` from the duplicate-free `A` loses at most the elements listed in `C` -/
theorem sdiff_length_ge (A B C : List Nat) (hA : A.Nodup) (hC : ∀ x ∈ A, x ∈ B → x ∈ C) :
    A.length ≤ (sdiff A B).length + C.length := by
  have hsplit := filter_length_split (fun x => !B.contains x) A
  have hrem : (A.filter (fun x => !(!B.contains x))).length ≤ C.length := by
    apply (hA.sublist List.filter_sublist).length_le_of_subset
    intro x hx
    simp only [List.mem_filter, Bool.not_not, List.contains_eq_mem, decide_eq_true_eq] at hx
    exact hC x hx.1 hx.2
  unfold sdiff
  omega

theorem value_unique {β : Type} (l : List (Nat × β)) (h : (l.map (·.1)).Nodup) (k : Nat) (v v' : β)
    (h1 : (k, v) ∈ l) (h2 : (k, v') ∈ l) : v = v' := by
  have := inj_of_nodup_map (·.1) l h h1 h2 rfl
  simpa using congrArg Prod.snd this

theorem mem_of_fst_eq {β : Type} {l : List (Nat × β)} {e : Nat × β} {k : Nat} (he : e ∈ l)
    (hk : e.1 = k) : (k, e.2) ∈ l := by
  subst hk; exact he

theorem foldl_dictSet_mem_post {β : Type} (pre post : List (Nat × β)) (k : Nat) (v : β)
    (hall : ∀ e ∈ post, e.1 = k → e.2 = v) (hex : ∃ e ∈ post, e.1 = k) :
    (k, v) ∈ (pre ++ post).foldl (fun m e => dictSet e.1 e.2 m) [] := by
  rw [List.foldl_append]
  exact foldl_dictSet_mem post k v hall _ (Or.inr hex)

section
variable (P R S : List Nat) (E : SetMap)

/-- the pairs mapped by the three phases all appear in the final placement, their peers are
pairwise distinct, and together they are at least `min(|M_ro| + |P|, |S|)` many, where `M_ro`
bounds every matching of read-only peers to shares they hold -/
theorem phases_spread (hP : P.Nodup) (hR : R.Nodup) (hS : S.Nodup) (hE : RowsNodup E)
    (hdisj : ∀ x ∈ P, x ∉ R) :
    ∃ L : List (Nat × Nat) , ∃ k1 : Nat,
      (L.map (·.2)).Nodup ∧
      (∀ s p, (s, p) ∈ L → (s, some p) ∈ finalMappings P R S E) ∧
      min (k1 + P.length) S.length ≤ L.length ∧
      ∀ Mo : List (Nat × Nat), Matching Mo →
        (∀ e ∈ Mo, e.1 ∈ R ∧ e.2 ∈ dget E e.1) → Mo.length ≤ k1 := by
  -- the three phases
  have hro := calculateMappings_matching R (mkSet ((roMap R E).flatMap (·.2))) (roMap R E) hR
    (mkSet_nodup _) (roMap_rows R E hE)
  obtain ⟨L1, a1, a2, a3, a4⟩ := hro
  obtain ⟨ph1, ph2⟩ := phase2_spec P E (extractIds (roMappings R E)).1 (extractIds (roMappings R E)).2 hE
  have hst2nd : (phase2 P E (extractIds (roMappings R E)).1 (extractIds (roMappings R E)).2).2.Nodup := by
    rw [ph1]; exact sdiff_nodup _ _ hP
  have hex := calculateMappings_matching
    (phase2 P E (extractIds (roMappings R E)).1 (extractIds (roMappings R E)).2).2
    (sdiff S (extractIds (roMappings R E)).2)
    (phase2 P E (extractIds (roMappings R E)).1 (extractIds (roMappings R E)).2).1
    hst2nd (sdiff_nodup _ _ hS) (dget_nodup _ ph2)
  obtain ⟨L2, b1, b2, b3, _⟩ := hex
  have hP3 : (sdiff (sdiff (phase2 P E (extractIds (roMappings R E)).1 (extractIds (roMappings R E)).2).2
      (extractIds (exMappings P R S E)).1) (extractIds (roMappings R E)).1).Nodup :=
    sdiff_nodup _ _ (sdiff_nodup _ _ hst2nd)
  have hS3 : (sdiff (sdiff (sdiff S (extractIds (roMappings R E)).2) (extractIds (exMappings P R S E)).2)
      (extractIds (roMappings R E)).2).Nodup := sdiff_nodup _ _ (sdiff_nodup _ _ (sdiff_nodup _ _ hS))
  have hnw := calculateMappings_matching _ _ [] hP3 hS3 (by intro p; simp [dget])
  obtain ⟨L3, c1, c2, c3, c4⟩ := hnw
  have hc := calculateMappings_complete _ _ hP3 hS3 L3 c4
  -- names for the phase results
  have hroK := (calculateMappings_sound R (mkSet ((roMap R E).flatMap (·.2))) (roMap R E) hR
    (mkSet_nodup _) (roMap_rows R E hE)).1
  have hexK := (exMappings_sound P R S E hP hS hE).1
  have hnwK := (calculateMappings_sound _ _ [] hP3 hS3 (by intro p; simp [dget])).1
  -- membership facts in terms of the stage definitions
  have m1 : ∀ s p, (s, p) ∈ L1 ↔ (s, some p) ∈ roMappings R E := a1
  have m2 : ∀ s p, (s, p) ∈ L2 ↔ (s, some p) ∈ exMappings P R S E := b1
  have m3 : ∀ s p, (s, p) ∈ L3 ↔ (s, some p) ∈ newMappings P R S E := c1
  have k1nd : ((roMappings R E).map (·.1)).Nodup := by
    show ((calculateMappings Cfg.fixed R _ (roMap R E)).map (·.1)).Nodup
    rw [hroK]; exact mkSet_nodup _
  have k2nd : ((exMappings P R S E).map (·.1)).Nodup := by rw [hexK]; exact sdiff_nodup _ _ hS
  have k3nd : ((newMappings P R S E).map (·.1)).Nodup := by
    show ((calculateMappings Cfg.fixed _ _ []).map (·.1)).Nodup
    rw [hnwK]; exact hS3
  have k3keys : ∀ k, k ∈ (newMappings P R S E).map (·.1) →
      k ∉ (extractIds (roMappings R E)).2 ∧ k ∉ (extractIds (exMappings P R S E)).2 := by
    intro k hk
    have : k ∈ (calculateMappings Cfg.fixed _ _ []).map (·.1) := hk
    rw [hnwK, mem_sdiff, mem_sdiff, mem_sdiff] at this
    exact ⟨this.2, this.1.2⟩
  have k2keys : ∀ k, k ∈ (exMappings P R S E).map (·.1) → k ∉ (extractIds (roMappings R E)).2 := by
    intro k hk; rw [hexK, mem_sdiff] at hk; exact hk.2
  -- every mapped pair reaches the merged mapping
  have hmerged : ∀ s p, (s, p) ∈ L1 ++ L2 ++ L3 → (s, some p) ∈ mergedMappings P R S E := by
    intro s p h
    simp only [List.mem_append] at h
    unfold mergedMappings
    rcases h with (h | h) | h
    · have hin := (m1 s p).mp h
      have hused : s ∈ (extractIds (roMappings R E)).2 := (mem_extractIds_shares _ s).mpr ⟨p, hin⟩
      have := foldl_dictSet_mem_post [] (roMappings R E ++ exMappings P R S E ++ newMappings P R S E) s (some p)
        (by
          intro e he hk
          simp only [List.mem_append] at he
          rcases he with (he | he) | he
          · exact value_unique _ k1nd s e.2 (some p) (mem_of_fst_eq he hk) hin
          · exact absurd hused (k2keys s (List.mem_map.mpr ⟨e, he, hk⟩))
          · exact absurd hused (k3keys s (List.mem_map.mpr ⟨e, he, hk⟩)).1)
        ⟨(s, some p), by simp [hin], rfl⟩
      simpa using this
    · have hin := (m2 s p).mp h
      have hused : s ∈ (extractIds (exMappings P R S E)).2 := (mem_extractIds_shares _ s).mpr ⟨p, hin⟩
      have := foldl_dictSet_mem_post (roMappings R E) (exMappings P R S E ++ newMappings P R S E) s (some p)
        (by
          intro e he hk
          simp only [List.mem_append] at he
          rcases he with he | he
          · exact value_unique _ k2nd s e.2 (some p) (mem_of_fst_eq he hk) hin
          · exact absurd hused (k3keys s (List.mem_map.mpr ⟨e, he, hk⟩)).2)
        ⟨(s, some p), by simp [hin], rfl⟩
      simpa [List.append_assoc] using this
    · have hin := (m3 s p).mp h
      have := foldl_dictSet_mem_post (roMappings R E ++ exMappings P R S E) (newMappings P R S E) s (some p)
        (by
          intro e he hk
          exact value_unique _ k3nd s e.2 (some p) (mem_of_fst_eq he hk) hin)
        ⟨(s, some p), hin, rfl⟩
      exact this
  have hmkeys : ((mergedMappings P R S E).map (·.1)).Nodup := by
    unfold mergedMappings; exact foldl_dictSet_keys_nodup _ [] (by simp)
  have hfinal : ∀ s p, (s, p) ∈ L1 ++ L2 ++ L3 → (s, some p) ∈ finalMappings P R S E := by
    intro s p h
    have hm := hmerged s p h
    unfold finalMappings
    simp only
    split
    · exact hm
    · apply distributeHomeless_preserves _ _ _ _ hm
      intro hh
      rw [mem_mkSet] at hh
      obtain ⟨e, he, hes⟩ := List.mem_map.mp hh
      simp only [List.mem_filter] at he
      have hv := value_unique _ hmkeys s e.2 (some p) (mem_of_fst_eq he.1 hes) hm
      rw [hv] at he; simp at he
  -- peers of the three lists
  have p1 : ∀ e ∈ L1, e.2 ∈ R := fun e he =>
    (roMappings_sound R E hR hE e.1 e.2 ((m1 e.1 e.2).mp he)).1
  have p2 : ∀ e ∈ L2, e.2 ∈ P ∧ e.2 ∈ (extractIds (exMappings P R S E)).1 := fun e he =>
    ⟨(exMappings_sound P R S E hP hS hE).2 e.1 e.2 ((m2 e.1 e.2).mp he),
     (mem_extractIds_peers _ e.2).mpr ⟨e.1, (m2 e.1 e.2).mp he⟩⟩
  have p3 : ∀ e ∈ L3, e.2 ∈ P ∧ e.2 ∉ (extractIds (exMappings P R S E)).1 := by
    intro e he
    have hin : (e.1, some e.2) ∈ calculateMappings Cfg.fixed _ _ [] := (m3 e.1 e.2).mp he
    have := ((calculateMappings_sound _ _ [] hP3 hS3 (by intro p; simp [dget])).2 e.1 e.2 hin).1
    rw [mem_sdiff, mem_sdiff, ph1, mem_sdiff] at this
    exact ⟨this.1.1.1, this.1.2⟩
  refine ⟨L1 ++ L2 ++ L3, L1.length, ?_, hfinal, ?_, ?_⟩
  · simp only [List.map_append]
    rw [List.nodup_append, List.nodup_append]
    refine ⟨⟨a3, b3, ?_⟩, c3, ?_⟩
    · intro x hx y hy e
      obtain ⟨ex, hex1, rfl⟩ := List.mem_map.mp hx
      obtain ⟨ey, hey1, rfl⟩ := List.mem_map.mp hy
      exact hdisj _ (p2 ey hey1).1 (e ▸ p1 ex hex1)
    · intro x hx y hy e
      obtain ⟨ey, hey1, rfl⟩ := List.mem_map.mp hy
      simp only [List.mem_append] at hx
      rcases hx with hx | hx
      · obtain ⟨ex, hex1, rfl⟩ := List.mem_map.mp hx
        exact hdisj _ (p3 ey hey1).1 (e ▸ p1 ex hex1)
      · obtain ⟨ex, hex1, rfl⟩ := List.mem_map.mp hx
        exact (p3 ey hey1).2 (e ▸ (p2 ex hex1).2)
  · -- sizes
    have s1 := sdiff_length_ge P (extractIds (roMappings R E)).1 [] hP (by
      intro x hx hu
      obtain ⟨s, hs⟩ := (mem_extractIds_peers _ x).mp hu
      exact absurd (roMappings_sound R E hR hE s x hs).1 (hdisj x hx))
    have s2 := sdiff_length_ge (sdiff P (extractIds (roMappings R E)).1)
      (extractIds (exMappings P R S E)).1 (L2.map (·.2)) (sdiff_nodup _ _ hP) (by
      intro x _ hu
      obtain ⟨s, hs⟩ := (mem_extractIds_peers _ x).mp hu
      exact List.mem_map.mpr ⟨(s, x), (m2 s x).mpr hs, rfl⟩)
    have s3 := sdiff_length_ge (sdiff (sdiff P (extractIds (roMappings R E)).1)
      (extractIds (exMappings P R S E)).1) (extractIds (roMappings R E)).1 []
      (sdiff_nodup _ _ (sdiff_nodup _ _ hP)) (by
      intro x hx hu
      rw [mem_sdiff, mem_sdiff] at hx
      obtain ⟨s, hs⟩ := (mem_extractIds_peers _ x).mp hu
      exact absurd (roMappings_sound R E hR hE s x hs).1 (hdisj x hx.1.1))
    have t1 := sdiff_length_ge S (extractIds (roMappings R E)).2 (L1.map (·.1)) hS (by
      intro x _ hu
      obtain ⟨p, hp⟩ := (mem_extractIds_shares _ x).mp hu
      exact List.mem_map.mpr ⟨(x, p), (m1 x p).mpr hp, rfl⟩)
    have t2 := sdiff_length_ge (sdiff S (extractIds (roMappings R E)).2)
      (extractIds (exMappings P R S E)).2 (L2.map (·.1)) (sdiff_nodup _ _ hS) (by
      intro x _ hu
      obtain ⟨p, hp⟩ := (mem_extractIds_shares _ x).mp hu
      exact List.mem_map.mpr ⟨(x, p), (m2 x p).mpr hp, rfl⟩)
    have t3 := sdiff_length_ge (sdiff (sdiff S (extractIds (roMappings R E)).2)
      (extractIds (exMappings P R S E)).2) (extractIds (roMappings R E)).2 []
      (sdiff_nodup _ _ (sdiff_nodup _ _ hS)) (by
      intro x hx hu
      rw [mem_sdiff, mem_sdiff] at hx
      exact absurd hu hx.1.2)
    rw [ph1] at hc
    simp only [List.length_append, List.length_map, List.length_nil] at *
    omega
  · -- the read-only phase is a maximum matching of read-only peers to shares they hold
    intro Mo hMo hedge
    apply a4 Mo hMo
    intro e he
    obtain ⟨hr, hd⟩ := hedge e he
    have hkey : e.1 ∈ (mkSet (E.map (·.1))).filter (fun p => R.contains p) := by
      simp only [List.mem_filter, List.contains_eq_mem, decide_eq_true_eq]
      refine ⟨?_, hr⟩
      rw [mem_mkSet]
      unfold dget at hd
      cases hl : E.lookup e.1 with
      | none => rw [hl] at hd; simp at hd
      | some v =>
        have : (E.lookup e.1).isSome := by rw [hl]; rfl
        exact (lookup_isSome_iff_keys E e.1).mp this
    have hdro : dget (roMap R E) e.1 = dget E e.1 := by
      unfold dget roMap
      rw [lookup_map_mk, if_pos hkey]
      rfl
    refine ⟨hr, ?_, fun _ => by rw [hdro]; exact hd⟩
    rw [mem_mkSet]
    simp only [List.mem_flatMap]
    exact ⟨(e.1, dget E e.1), List.mem_map.mpr ⟨e.1, hkey, rfl⟩, hd⟩

end

theorem holds_iff (E : SetMap) (hk : (E.map (·.1)).Nodup) (p s : Nat) :
    Holds E p s ↔ ∃ x ∈ E, x.1 = p ∧ s ∈ x.2 := by
  constructor
  · exact mem_dget_normalised E p s
  · rintro ⟨x, hx, rfl, hs⟩
    unfold Holds dget
    induction E with
    | nil => simp at hx
    | cons a rest ih =>
      simp only [List.map_cons, List.nodup_cons] at hk
      simp only [List.map_cons, List.lookup_cons]
      simp only [List.mem_cons] at hx
      rcases hx with rfl | hx
      · simp [mem_mkSet, hs]
      · have hne : x.1 ≠ a.1 := fun e => hk.1 (e ▸ List.mem_map_of_mem hx)
        have : (x.1 == a.1) = false := by simpa using hne
        simp only [this]
        exact ih hk.2 hx

theorem nodup_same_length (l1 l2 : List Nat) (h1 : l1.Nodup) (h2 : l2.Nodup) (h : ∀ x, x ∈ l1 ↔ x ∈ l2) :
    l1.length = l2.length := by
  have a := h1.length_le_of_subset (fun x hx => (h x).mp hx)
  have b := h2.length_le_of_subset (fun x hx => (h x).mpr hx)
  omega

/-- **spread, matching form**: the placement returned by the repaired `share_placement` uses at
least as many distinct servers as any matching of servers to shares in which a writable server may
take any share and a read-only server only a share it holds -/
theorem spread_ge_matching (W R S : List Nat) (E : SetMap) (res : List (Nat × Nat)) (hW : W ≠ [])
    (hdisj : ∀ x ∈ W, x ∉ R) (h : sharePlacement Cfg.fixed W R S E = .ok res) :
    ∀ Mo : List (Nat × Nat), Matching Mo →
      (∀ e ∈ Mo, e.2 ∈ S ∧ (e.1 ∈ W ∨ (e.1 ∈ R ∧ Holds E e.1 e.2))) →
      Mo.length ≤ distinctServers res := by
  intro Mo hMo hedge
  rw [sharePlacement_fixed_eq] at h
  have hne : (mkSet W).isEmpty = false := by
    cases W with
    | nil => exact absurd rfl hW
    | cons a rest =>
      have : a ∈ mkSet (a :: rest) := (mem_mkSet _ a).mpr (by simp)
      cases hm : mkSet (a :: rest) with
      | nil => rw [hm] at this; simp at this
      | cons _ _ => rfl
  simp only [hne, Bool.false_eq_true, if_false] at h
  obtain ⟨L, k1, hLnd, hLfin, hLlen, hk1⟩ := phases_spread (mkSet W) (mkSet R) (mkSet S)
    (E.map (fun e => (e.1, mkSet e.2))) (mkSet_nodup W) (mkSet_nodup R) (mkSet_nodup S)
    (rowsNodup_normalised E)
    (fun x hx hr => hdisj x ((mem_mkSet W x).mp hx) ((mem_mkSet R x).mp hr))
  -- lower bound: the distinct peers of L are servers of res
  have hlow : L.length ≤ distinctServers res := by
    have := hLnd.length_le_of_subset (l₂ := mkSet (res.map (·.2))) (by
      intro x hx
      obtain ⟨e, he, rfl⟩ := List.mem_map.mp hx
      rw [mem_mkSet]
      exact List.mem_map.mpr ⟨(e.1, e.2), finalize_mem _ _ res h e.1 e.2 (hLfin e.1 e.2 he), rfl⟩)
    simpa [distinctServers] using this
  -- upper bound on Mo
  have hsplit := filter_length_split (fun e : Nat × Nat => W.contains e.1) Mo
  have hw : (Mo.filter (fun e => W.contains e.1)).length ≤ (mkSet W).length := by
    have hnd : ((Mo.filter (fun e => W.contains e.1)).map (·.1)).Nodup := by
      rw [List.nodup_iff_pairwise_ne, List.pairwise_map]
      exact (hMo.sublist List.filter_sublist).imp (fun hab => hab.1)
    have := hnd.length_le_of_subset (l₂ := mkSet W) (by
      intro x hx
      obtain ⟨e, he, rfl⟩ := List.mem_map.mp hx
      simp only [List.mem_filter, List.contains_eq_mem, decide_eq_true_eq] at he
      exact (mem_mkSet W _).mpr he.2)
    simpa using this
  have hr : (Mo.filter (fun e => !W.contains e.1)).length ≤ k1 := by
    apply hk1 _ (hMo.sublist List.filter_sublist)
    intro e he
    simp only [List.mem_filter, List.contains_eq_mem, Bool.not_eq_true', decide_eq_false_iff_not] at he
    rcases (hedge e he.1).2 with hw' | ⟨hr', hh⟩
    · exact absurd hw' he.2
    · exact ⟨(mem_mkSet R _).mpr hr', hh⟩
  have hs : Mo.length ≤ (mkSet S).length := by
    have hnd : (Mo.map (·.2)).Nodup := by
      rw [List.nodup_iff_pairwise_ne, List.pairwise_map]
      exact hMo.imp (fun hab => hab.2)
    have := hnd.length_le_of_subset (l₂ := mkSet S) (by
      intro x hx
      obtain ⟨e, he, rfl⟩ := List.mem_map.mp hx
      exact (mem_mkSet S _).mpr (hedge e he).1)
    simpa using this
  omega

/-- every placement (a share → server list with distinct shares) contains a matching with one
edge per distinct server -/
theorem placement_has_matching (A : List (Nat × Nat)) (hA : (A.map (·.1)).Nodup) :
    ∃ Mo : List (Nat × Nat), Matching Mo ∧ (∀ e ∈ Mo, (e.2, e.1) ∈ A) ∧
      Mo.length = distinctServers A := by
  induction A with
  | nil => exact ⟨[], List.Pairwise.nil, by simp, by simp [distinctServers, mkSet]⟩
  | cons a rest ih =>
    simp only [List.map_cons, List.nodup_cons] at hA
    obtain ⟨Mo, h1, h2, h3⟩ := ih hA.2
    by_cases hin : a.2 ∈ rest.map (·.2)
    · refine ⟨Mo, h1, fun e he => by simp [h2 e he], ?_⟩
      rw [h3]
      unfold distinctServers
      apply nodup_same_length _ _ (mkSet_nodup _) (mkSet_nodup _)
      intro x
      simp only [mem_mkSet, List.map_cons, List.mem_cons]
      constructor
      · intro hx; right; exact hx
      · rintro (rfl | hx)
        · exact hin
        · exact hx
    · refine ⟨(a.2, a.1) :: Mo, ?_, ?_, ?_⟩
      · apply List.pairwise_cons.mpr
        refine ⟨?_, h1⟩
        intro e he
        have hm := h2 e he
        constructor
        · intro heq
          apply hin
          exact List.mem_map.mpr ⟨(e.2, e.1), hm, by simpa using heq.symm⟩
        · intro heq
          apply hA.1
          exact List.mem_map.mpr ⟨(e.2, e.1), hm, by simpa using heq.symm⟩
      · intro e he
        simp only [List.mem_cons] at he
        rcases he with rfl | he
        · simp
        · simp [h2 e he]
      · simp only [List.length_cons, h3]
        unfold distinctServers
        have hnd : (a.2 :: mkSet (rest.map (·.2))).Nodup :=
          List.nodup_cons.mpr ⟨fun hm => hin ((mem_mkSet _ _).mp hm), mkSet_nodup _⟩
        have := nodup_same_length _ _ hnd (mkSet_nodup ((a :: rest).map (·.2))) (by
          intro x
          simp only [List.mem_cons, mem_mkSet, List.map_cons])
        simpa using this

end Tahoe.Happiness
