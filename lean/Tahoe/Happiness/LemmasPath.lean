import Tahoe.Happiness.LemmasBfs
/-! `augmenting_path_for`: the walk back along the predecessor table yields a path from the source
to the sink whose vertices have strictly increasing BFS distance (hence are distinct); and `False`
is returned only when the sink was not reached. -/
namespace Tahoe.Happiness
attribute [-simp] List.getD_eq_getElem?_getD

/-- `path` leads from `a` to `b` along edges of `g`; every step increases `dist` by one -/
inductive Chain (g : Graph) (dist : Nat → Int) : Nat → Nat → List (Nat × Nat) → Prop
  | nil (a : Nat) : Chain g dist a a []
  | cons {u v b : Nat} {rest : List (Nat × Nat)} : v ∈ adj g u → dist v = dist u + 1 →
      Chain g dist v b rest → Chain g dist u b ((u, v) :: rest)

theorem Chain.dist_eq {g : Graph} {dist : Nat → Int} {a b : Nat} {p : List (Nat × Nat)}
    (h : Chain g dist a b p) : dist b = dist a + p.length := by
  induction h with
  | nil a => simp
  | cons h1 h2 _ ih => rw [ih, h2]; simp; omega

theorem Chain.nil_eq {g : Graph} {dist : Nat → Int} {a b : Nat} (h : Chain g dist a b []) : a = b := by
  generalize hp : ([] : List (Nat × Nat)) = p at h
  cases h with
  | nil => rfl
  | cons => simp at hp

theorem Chain.edges {g : Graph} {dist : Nat → Int} {a b : Nat} {p : List (Nat × Nat)}
    (h : Chain g dist a b p) : ∀ e ∈ p, e.2 ∈ adj g e.1 := by
  induction h with
  | nil a => simp
  | cons h1 h2 _ ih =>
    intro e he
    simp only [List.mem_cons] at he
    rcases he with rfl | he
    · exact h1
    · exact ih e he

theorem walkBack_spec (g : Graph) (st : Bfs) (hs : BfsSpec g 0 st) (t : Nat) :
    ∀ (fuel n : Nat) (acc : List (Nat × Nat)), st.color.getD n 0 ≠ 0 →
      Chain g (fun v => st.dist.getD v (-1)) n t acc → st.dist.getD n (-1) < (fuel : Int) →
      ∃ path, walkBack st.pred fuel n acc = some path ∧
        Chain g (fun v => st.dist.getD v (-1)) 0 t path := by
  intro fuel
  induction fuel with
  | zero =>
    intro n acc hv _ hd
    have := (hs.distpos n hv).1
    omega
  | succ k ih =>
    intro n acc hv hc hd
    unfold walkBack
    by_cases hn : n = 0
    · subst hn; exact ⟨acc, by simp, hc⟩
    · simp only [hn, if_false]
      rcases hs.vis n hv with h0 | hsome
      · exact absurd h0 hn
      · obtain ⟨p, hp⟩ := Option.isSome_iff_exists.mp hsome
        obtain ⟨e1, e2, e3, e4⟩ := hs.predE n p hp
        rw [hp]
        apply ih p ((p, n) :: acc) e2 (Chain.cons e1 e4 hc)
        omega

/-- outcome of `augmenting_path_for` on a graph whose BFS from 0 is described by `BfsSpec` -/
theorem augPath_some (g : Graph) (hr : InRange g) (hlen : 1 < g.length)
    (path : List (Nat × Nat)) (h : augmentingPathFor g = some path) :
    Chain g (fun v => (bfsRun g 0).dist.getD v (-1)) 0 (g.length - 1) path ∧ path ≠ [] := by
  have hs := bfsRun_spec g 0 hr (by omega)
  unfold augmentingPathFor bfs at h
  simp only at h
  split at h
  · simp at h
  · rename_i p hp
    split at h
    · simp at h
    · obtain ⟨e1, e2, e3, e4⟩ := hs.predE _ p hp
      have hd := (hs.distpos _ e3).2
      obtain ⟨path', hw, hc⟩ := walkBack_spec g (bfsRun g 0) hs (g.length - 1) (g.length + 1)
        (g.length - 1) [] e3 (Chain.nil _) (by omega)
      rw [hw] at h
      simp only [Option.some.injEq] at h
      subst h
      refine ⟨hc, ?_⟩
      intro hnil
      subst hnil
      have := hc.nil_eq
      omega

theorem augPath_none (g : Graph) (hr : InRange g) (hlen : 1 < g.length)
    (h : augmentingPathFor g = none) :
    (bfsRun g 0).color.getD (g.length - 1) 0 = 0 ∨ 0 < 0 ∨ (g.length - 1) ∈ adj g 0 := by
  have hs := bfsRun_spec g 0 hr (by omega)
  unfold augmentingPathFor bfs at h
  simp only at h
  split at h
  · rename_i hp
    left
    by_cases hv : (bfsRun g 0).color.getD (g.length - 1) 0 = 0
    · exact hv
    · rcases hs.vis _ hv with h0 | hsome
      · omega
      · rw [hp] at hsome; simp at hsome
  · rename_i p hp
    obtain ⟨e1, e2, e3, e4⟩ := hs.predE _ p hp
    split at h
    · rename_i hp0; subst hp0; right; right; exact e1
    · have hd := (hs.distpos _ e3).2
      obtain ⟨path', hw, hc⟩ := walkBack_spec g (bfsRun g 0) hs (g.length - 1) (g.length + 1)
        (g.length - 1) [] e3 (Chain.nil _) (by omega)
      rw [hw] at h; simp at h

end Tahoe.Happiness
