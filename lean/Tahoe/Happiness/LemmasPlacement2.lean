import Tahoe.Happiness.LemmasPlacement
import Tahoe.Happiness.LemmasSbs
/-! The pipeline of `share_placement` (repaired code): where keys and mapped peers come from. -/
namespace Tahoe.Happiness
attribute [-simp] List.getD_eq_getElem?_getD

theorem mkSet_fold (l acc : List Nat) (h : acc.Pairwise (· < ·)) :
    (l.foldl (fun acc x => sinsert x acc) acc).Pairwise (· < ·) ∧
    ∀ z, z ∈ l.foldl (fun acc x => sinsert x acc) acc ↔ z ∈ l ∨ z ∈ acc := by
  induction l generalizing acc with
  | nil => simp [h]
  | cons a rest ih =>
    simp only [List.foldl_cons]
    obtain ⟨h1, h2⟩ := ih (sinsert a acc) (sorted_sinsert a acc h)
    refine ⟨h1, ?_⟩
    intro z
    rw [h2 z, mem_sinsert]
    simp only [List.mem_cons]
    constructor
    · rintro (h | h | h)
      · left; right; exact h
      · left; left; exact h
      · right; exact h
    · rintro ((h | h) | h)
      · right; left; exact h
      · left; exact h
      · right; right; exact h

theorem mkSet_sorted (l : List Nat) : (mkSet l).Pairwise (· < ·) := (mkSet_fold l [] List.Pairwise.nil).1
theorem mkSet_nodup (l : List Nat) : (mkSet l).Nodup := nodup_of_sorted _ (mkSet_sorted l)
theorem mem_mkSet (l : List Nat) (z : Nat) : z ∈ mkSet l ↔ z ∈ l := by
  have := (mkSet_fold l [] List.Pairwise.nil).2 z
  simpa [mkSet] using this

theorem mem_sdiff (a b : List Nat) (z : Nat) : z ∈ sdiff a b ↔ z ∈ a ∧ z ∉ b := by
  simp [sdiff]

theorem sdiff_nodup (a b : List Nat) (h : a.Nodup) : (sdiff a b).Nodup :=
  h.sublist List.filter_sublist

/-- all value lists of a set-valued dict are duplicate-free -/
def RowsNodup (d : SetMap) : Prop := ∀ e ∈ d, e.2.Nodup

theorem dget_nodup (d : SetMap) (h : RowsNodup d) (p : Nat) : (dget d p).Nodup := by
  unfold dget
  cases hl : d.lookup p with
  | none => simp
  | some v =>
    simp only [Option.getD_some]
    have : (p, v) ∈ d := by
      clear h
      induction d with
      | nil => simp at hl
      | cons e rest ih =>
        obtain ⟨k, b⟩ := e
        rw [List.lookup_cons] at hl
        by_cases hx : p = k
        · subst hx; simp at hl; subst hl; simp
        · have : (p == k) = false := by simpa using hx
          rw [this] at hl
          simp only [List.mem_cons]; right; exact ih hl
    exact h (p, v) this

theorem extractIds_fold (m : List (Nat × Option Nat)) (acc : List Nat × List Nat) :
    (∀ p, p ∈ (m.foldl extractStep acc).1 ↔ p ∈ acc.1 ∨ ∃ s, (s, some p) ∈ m) ∧
    (∀ s, s ∈ (m.foldl extractStep acc).2 ↔ s ∈ acc.2 ∨ ∃ p, (s, some p) ∈ m) := by
  induction m generalizing acc with
  | nil => simp
  | cons e rest ih =>
    obtain ⟨k, v⟩ := e
    simp only [List.foldl_cons]
    cases v with
    | none =>
      simp only [extractStep]
      obtain ⟨h1, h2⟩ := ih acc
      constructor
      · intro p; rw [h1 p]; simp
      · intro s; rw [h2 s]; simp
    | some q =>
      simp only [extractStep]
      obtain ⟨h1, h2⟩ := ih (sinsert q acc.1, sinsert k acc.2)
      constructor
      · intro p
        rw [h1 p]
        simp only [mem_sinsert, List.mem_cons, Prod.mk.injEq, Option.some.injEq]
        constructor
        · rintro ((h | h) | ⟨s, h⟩)
          · right; exact ⟨k, Or.inl ⟨rfl, h⟩⟩
          · left; exact h
          · right; exact ⟨s, Or.inr h⟩
        · rintro (h | ⟨s, ⟨_, h⟩ | h⟩)
          · left; right; exact h
          · left; left; exact h
          · right; exact ⟨s, h⟩
      · intro s
        rw [h2 s]
        simp only [mem_sinsert, List.mem_cons, Prod.mk.injEq, Option.some.injEq]
        constructor
        · rintro ((h | h) | ⟨p, h⟩)
          · right; exact ⟨q, Or.inl ⟨h, rfl⟩⟩
          · left; exact h
          · right; exact ⟨p, Or.inr h⟩
        · rintro (h | ⟨p, ⟨h, _⟩ | h⟩)
          · left; right; exact h
          · left; left; exact h
          · right; exact ⟨p, h⟩

theorem mem_extractIds_peers (m : List (Nat × Option Nat)) (p : Nat) :
    p ∈ (extractIds m).1 ↔ ∃ s, (s, some p) ∈ m := by
  have := (extractIds_fold m ([], [])).1 p
  simpa [extractIds] using this

theorem mem_extractIds_shares (m : List (Nat × Option Nat)) (s : Nat) :
    s ∈ (extractIds m).2 ↔ ∃ p, (s, some p) ∈ m := by
  have := (extractIds_fold m ([], [])).2 s
  simpa [extractIds] using this

/-! ### `dict[k] = v` folds -/

theorem dictSet_keys {β : Type} (k : Nat) (v : β) (d : List (Nat × β)) (x : Nat) :
    x ∈ (dictSet k v d).map (·.1) ↔ x = k ∨ x ∈ d.map (·.1) := by
  induction d with
  | nil => simp [dictSet]
  | cons e rest ih =>
    obtain ⟨k', v'⟩ := e
    unfold dictSet
    split
    · rename_i h; subst h; simp
    · simp only [List.map_cons, List.mem_cons, ih]
      constructor
      · rintro (h | h | h)
        · right; left; exact h
        · left; exact h
        · right; right; exact h
      · rintro (h | h | h)
        · right; left; exact h
        · left; exact h
        · right; right; exact h

theorem dictSet_mem {β : Type} (k : Nat) (v : β) (d : List (Nat × β)) (e : Nat × β)
    (h : e ∈ dictSet k v d) : e = (k, v) ∨ e ∈ d := by
  induction d with
  | nil => simp [dictSet] at h; left; exact h
  | cons e' rest ih =>
    obtain ⟨k', v'⟩ := e'
    unfold dictSet at h
    split at h
    · simp only [List.mem_cons] at h ⊢
      rcases h with h | h
      · left; exact h
      · right; right; exact h
    · simp only [List.mem_cons] at h ⊢
      rcases h with h | h
      · right; left; exact h
      · rcases ih h with h | h
        · left; exact h
        · right; right; exact h

theorem foldl_dictSet {β : Type} (l : List (Nat × β)) (acc : List (Nat × β)) :
    (∀ x, x ∈ (l.foldl (fun m e => dictSet e.1 e.2 m) acc).map (·.1) ↔
      x ∈ acc.map (·.1) ∨ x ∈ l.map (·.1)) ∧
    (∀ e, e ∈ l.foldl (fun m e => dictSet e.1 e.2 m) acc → e ∈ acc ∨ e ∈ l) := by
  induction l generalizing acc with
  | nil => simp
  | cons a rest ih =>
    simp only [List.foldl_cons]
    obtain ⟨h1, h2⟩ := ih (dictSet a.1 a.2 acc)
    constructor
    · intro x
      rw [h1 x, dictSet_keys]
      simp only [List.map_cons, List.mem_cons]
      constructor
      · rintro ((h | h) | h)
        · right; left; exact h
        · left; exact h
        · right; right; exact h
      · rintro (h | h | h)
        · left; right; exact h
        · left; left; exact h
        · right; exact h
    · intro e he
      rcases h2 e he with h | h
      · rcases dictSet_mem _ _ _ _ h with h | h
        · right; rw [h]; simp
        · left; exact h
      · right; simp [h]

theorem foldl_inv {α β : Type} (P : β → Prop) (f : β → α → β) (l : List α) (b : β) (h0 : P b)
    (hstep : ∀ b a, a ∈ l → P b → P (f b a)) : P (l.foldl f b) := by
  induction l generalizing b with
  | nil => exact h0
  | cons a rest ih =>
    simp only [List.foldl_cons]
    exact ih (f b a) (hstep b a (by simp) h0) (fun b' a' ha' hb' => hstep b' a' (by simp [ha']) hb')

/-! ### the stages of `share_placement` (repaired code) on normalised arguments -/

/-- `readonly_map` -/
def roMap (R : List Nat) (E : SetMap) : SetMap :=
  ((mkSet (E.map (·.1))).filter (fun p => R.contains p)).map (fun p => (p, dget E p))

def roMappings (R : List Nat) (E : SetMap) : List (Nat × Option Nat) :=
  calculateMappings Cfg.fixed R (mkSet ((roMap R E).flatMap (·.2))) (roMap R E)

/-- the loop that builds `servermap` (and, in the unrepaired code, shrinks `new_peers`) -/
def phase2 (P : List Nat) (E : SetMap) (usedPeers usedShares : List Nat) : SetMap × List Nat :=
  (mkSet (E.map (·.1))).foldl (fun (st : SetMap × List Nat) peer =>
      if usedPeers.contains peer then (st.1.filter (fun e => e.1 != peer), st.2)
      else
        let rest := sdiff (dget st.1 peer) usedShares
        if rest.isEmpty then
          (st.1.filter (fun e => e.1 != peer),
           if Cfg.fixed.keepPeer then st.2 else st.2.filter (fun p => p != peer))
        else (st.1.map (fun e => if e.1 = peer then (e.1, rest) else e), st.2)) (E, sdiff P usedPeers)

def exMappings (P R S : List Nat) (E : SetMap) : List (Nat × Option Nat) :=
  let used := extractIds (roMappings R E)
  let st := phase2 P E used.1 used.2
  calculateMappings Cfg.fixed st.2 (sdiff S used.2) st.1

def newMappings (P R S : List Nat) (E : SetMap) : List (Nat × Option Nat) :=
  let used := extractIds (roMappings R E)
  let st := phase2 P E used.1 used.2
  let ex := extractIds (exMappings P R S E)
  calculateMappings Cfg.fixed (sdiff (sdiff st.2 ex.1) used.1) (sdiff (sdiff (sdiff S used.2) ex.2) used.2) []

def mergedMappings (P R S : List Nat) (E : SetMap) : List (Nat × Option Nat) :=
  (roMappings R E ++ exMappings P R S E ++ newMappings P R S E).foldl
    (fun (m : List (Nat × Option Nat)) e => dictSet e.1 e.2 m) []

def finalMappings (P R S : List Nat) (E : SetMap) : List (Nat × Option Nat) :=
  let mappings := mergedMappings P R S E
  let homeless := mkSet ((mappings.filter (fun e => e.2.isNone)).map (·.1))
  if homeless.isEmpty then mappings else
    distributeHomeless mappings homeless (E.filter (fun e => !R.contains e.1))

theorem sharePlacement_fixed_eq (p0 r0 s0 : List Nat) (e0 : SetMap) :
    sharePlacement Cfg.fixed p0 r0 s0 e0 =
      if (mkSet p0).isEmpty then .ok [] else
        finalize (sdiff (mkSet p0) (mkSet r0))
          (finalMappings (mkSet p0) (mkSet r0) (mkSet s0) (e0.map (fun e => (e.1, mkSet e.2)))) := by
  rfl

theorem lookup_map_mk (l : List Nat) (v : Nat → List Nat) (p : Nat) :
    (l.map (fun q => (q, v q))).lookup p = if p ∈ l then some (v p) else none := by
  induction l with
  | nil => simp
  | cons a rest ih =>
    simp only [List.map_cons, List.lookup_cons, List.mem_cons]
    by_cases h : p = a
    · subst h; simp
    · have : (p == a) = false := by simpa using h
      simp only [this, ih, h, false_or]

theorem mem_dget_roMap (R : List Nat) (E : SetMap) (p s : Nat) (h : s ∈ dget (roMap R E) p) :
    p ∈ R ∧ s ∈ dget E p := by
  unfold dget roMap at h
  rw [lookup_map_mk] at h
  split at h
  · rename_i hm
    simp only [List.mem_filter, List.contains_eq_mem, decide_eq_true_eq] at hm
    exact ⟨hm.2, by simpa [dget] using h⟩
  · simp at h

theorem roMap_rows (R : List Nat) (E : SetMap) (hE : RowsNodup E) (p : Nat) :
    (dget (roMap R E) p).Nodup := by
  unfold dget roMap
  rw [lookup_map_mk]
  split
  · simpa using dget_nodup E hE p
  · simp

/-- a peer mapped by the read-only phase is read-only and holds the share -/
theorem roMappings_sound (R : List Nat) (E : SetMap) (hR : R.Nodup) (hE : RowsNodup E) (s p : Nat)
    (h : (s, some p) ∈ roMappings R E) : p ∈ R ∧ s ∈ dget E p := by
  unfold roMappings at h
  obtain ⟨hk, hs⟩ := calculateMappings_sound R (mkSet ((roMap R E).flatMap (·.2))) (roMap R E) hR
    (mkSet_nodup _) (roMap_rows R E hE)
  obtain ⟨_, h2, h3⟩ := hs s p h
  by_cases hne : (roMap R E).isEmpty = false
  · exact mem_dget_roMap R E p s (h3 hne)
  · have : roMap R E = [] := by simpa using hne
    rw [this] at h2
    simp [mkSet] at h2

theorem phase2_spec (P : List Nat) (E : SetMap) (uP uS : List Nat) (hE : RowsNodup E) :
    (phase2 P E uP uS).2 = sdiff P uP ∧ RowsNodup (phase2 P E uP uS).1 := by
  unfold phase2
  apply foldl_inv (fun st : SetMap × List Nat => st.2 = sdiff P uP ∧ RowsNodup st.1)
  · exact ⟨rfl, hE⟩
  · intro st peer _ hst
    obtain ⟨h1, h2⟩ := hst
    simp only [Cfg.fixed, if_true]
    split
    · exact ⟨h1, fun e he => h2 e (List.mem_filter.mp he).1⟩
    · split
      · exact ⟨h1, fun e he => h2 e (List.mem_filter.mp he).1⟩
      · refine ⟨h1, ?_⟩
        intro e he
        obtain ⟨e', he', rfl⟩ := List.mem_map.mp he
        split
        · exact sdiff_nodup _ _ (dget_nodup st.1 h2 peer)
        · exact h2 e' he'

section
variable (P R S : List Nat) (E : SetMap)

theorem exMappings_sound (hP : P.Nodup) (hS : S.Nodup) (hE : RowsNodup E) :
    (exMappings P R S E).map (·.1) = sdiff S (extractIds (roMappings R E)).2 ∧
    ∀ s p, (s, some p) ∈ exMappings P R S E → p ∈ P := by
  unfold exMappings
  simp only
  obtain ⟨h1, h2⟩ := phase2_spec P E (extractIds (roMappings R E)).1 (extractIds (roMappings R E)).2 hE
  obtain ⟨hk, hs⟩ := calculateMappings_sound
    (phase2 P E (extractIds (roMappings R E)).1 (extractIds (roMappings R E)).2).2
    (sdiff S (extractIds (roMappings R E)).2)
    (phase2 P E (extractIds (roMappings R E)).1 (extractIds (roMappings R E)).2).1
    (by rw [h1]; exact sdiff_nodup _ _ hP) (sdiff_nodup _ _ hS) (dget_nodup _ h2)
  refine ⟨hk, ?_⟩
  intro s p hm
  have := (hs s p hm).1
  rw [h1] at this
  exact ((mem_sdiff _ _ _).mp this).1

theorem newMappings_sound (hP : P.Nodup) (hS : S.Nodup) (hE : RowsNodup E) :
    ∀ s p, (s, some p) ∈ newMappings P R S E → p ∈ P := by
  unfold newMappings
  simp only
  obtain ⟨h1, _⟩ := phase2_spec P E (extractIds (roMappings R E)).1 (extractIds (roMappings R E)).2 hE
  intro s p hm
  have := (calculateMappings_sound _ _ [] (by
      apply sdiff_nodup; apply sdiff_nodup; rw [h1]; exact sdiff_nodup _ _ hP) (by
      apply sdiff_nodup; apply sdiff_nodup; exact sdiff_nodup _ _ hS) (by intro p; simp [dget])).2 s p hm
  have h := this.1
  rw [mem_sdiff, mem_sdiff, h1, mem_sdiff] at h
  exact h.1.1.1

/-- every share to place is a key of the merged mapping -/
theorem merged_keys (hP : P.Nodup) (hS : S.Nodup) (hE : RowsNodup E) (s : Nat) (hs : s ∈ S) :
    s ∈ (mergedMappings P R S E).map (·.1) := by
  unfold mergedMappings
  rw [(foldl_dictSet _ []).1 s]
  right
  simp only [List.map_append, List.mem_append]
  by_cases hu : s ∈ (extractIds (roMappings R E)).2
  · left; left
    obtain ⟨p, hp⟩ := (mem_extractIds_shares _ s).mp hu
    exact List.mem_map.mpr ⟨(s, some p), hp, rfl⟩
  · left; right
    rw [(exMappings_sound P R S E hP hS hE).1, mem_sdiff]
    exact ⟨hs, hu⟩

/-- a mapped peer in the merged mapping is writable, or read-only and holding the share -/
theorem merged_sound (hP : P.Nodup) (hR : R.Nodup) (hS : S.Nodup) (hE : RowsNodup E) (s p : Nat)
    (h : (s, some p) ∈ mergedMappings P R S E) : p ∈ P ∨ (p ∈ R ∧ s ∈ dget E p) := by
  unfold mergedMappings at h
  rcases (foldl_dictSet _ []).2 _ h with h | h
  · simp at h
  · simp only [List.mem_append] at h
    rcases h with (h | h) | h
    · right; exact roMappings_sound R E hR hE s p h
    · left; exact (exMappings_sound P R S E hP hS hE).2 s p h
    · left; exact newMappings_sound P R S E hP hS hE s p h

end

theorem pqMin_mem (pq : List (Nat × Nat)) (pk : Nat × Nat) (h : pqMin pq = some pk) : pk ∈ pq := by
  induction pq generalizing pk with
  | nil => simp [pqMin] at h
  | cons a rest ih =>
    unfold pqMin at h
    split at h
    · simp only [Option.some.injEq] at h; subst h; simp
    · rename_i b hb
      split at h
      · simp only [Option.some.injEq] at h; subst h; simp
      · simp only [Option.some.injEq] at h; subst h
        simp only [List.mem_cons]; right; exact ih b hb

/-- `_distribute_homeless_shares` keeps every key and only adds peers of the servermap it was given -/
theorem distributeHomeless_spec (mp : List (Nat × Option Nat)) (homeless : List Nat) (p2s : SetMap) :
    (∀ k, k ∈ mp.map (·.1) → k ∈ (distributeHomeless mp homeless p2s).map (·.1)) ∧
    (∀ s p, (s, some p) ∈ distributeHomeless mp homeless p2s →
      (s, some p) ∈ mp ∨ p ∈ p2s.map (·.1)) := by
  -- invariant on the mapping
  let I : List (Nat × Option Nat) → Prop := fun m =>
    (∀ k, k ∈ mp.map (·.1) → k ∈ m.map (·.1)) ∧
    (∀ s p, (s, some p) ∈ m → (s, some p) ∈ mp ∨ p ∈ p2s.map (·.1))
  have hset : ∀ m share q, I m → q ∈ p2s.map (·.1) → I (dictSet share (some q) m) := by
    intro m share q hm hq
    constructor
    · intro k hk; rw [dictSet_keys]; right; exact hm.1 k hk
    · intro s p hsp
      rcases dictSet_mem _ _ _ _ hsp with h | h
      · simp only [Prod.mk.injEq, Option.some.injEq] at h; right; rw [h.2]; exact hq
      · exact hm.2 s p h
  have h1 : I (homeless.foldl (dhRenew p2s (mkSet (p2s.flatMap (·.2)))) (mp, [])).1 := by
    apply foldl_inv (fun st : List (Nat × Option Nat) × List Nat => I st.1)
    · exact ⟨fun k hk => hk, fun s p h => Or.inl h⟩
    · intro st share _ hst
      unfold dhRenew
      split
      · split
        · rename_i e he
          exact hset _ _ _ hst (List.mem_map.mpr ⟨e, List.mem_of_find?_eq_some he, rfl⟩)
        · exact hst
      · exact hst
  unfold distributeHomeless
  simp only
  split
  · exact h1
  · -- the priority queue only holds peers of the servermap
    have hprio : ∀ x ∈ (homeless.foldl (dhRenew p2s (mkSet (p2s.flatMap (·.2)))) (mp, [])).1.foldl
        (dhCount (mkSet (p2s.map (·.1)))) ((mkSet (p2s.map (·.1))).map (fun p => (p, 0))),
        x.1 ∈ p2s.map (·.1) := by
      apply foldl_inv (fun pr : List (Nat × Nat) => ∀ x ∈ pr, x.1 ∈ p2s.map (·.1))
      · intro x hx
        obtain ⟨q, hq, rfl⟩ := List.mem_map.mp hx
        exact (mem_mkSet _ q).mp hq
      · intro pr e _ hpr
        unfold dhCount
        split
        · exact hpr
        · split
          · intro x hx
            obtain ⟨y, hy, rfl⟩ := List.mem_map.mp hx
            have := hpr y hy
            split <;> exact this
          · exact hpr
    have h2 : I ((homeless.foldl (dhRenew p2s (mkSet (p2s.flatMap (·.2)))) (mp, [])).2.foldl dhAssign
        ((homeless.foldl (dhRenew p2s (mkSet (p2s.flatMap (·.2)))) (mp, [])).1,
         ((homeless.foldl (dhRenew p2s (mkSet (p2s.flatMap (·.2)))) (mp, [])).1.foldl
            (dhCount (mkSet (p2s.map (·.1)))) ((mkSet (p2s.map (·.1))).map (fun p => (p, 0)))).map
            (fun x => (x.2, x.1)))).1 := by
      have := foldl_inv (fun st : List (Nat × Option Nat) × List (Nat × Nat) =>
          I st.1 ∧ ∀ x ∈ st.2, x.2 ∈ p2s.map (·.1)) dhAssign
        (homeless.foldl (dhRenew p2s (mkSet (p2s.flatMap (·.2)))) (mp, [])).2
        ((homeless.foldl (dhRenew p2s (mkSet (p2s.flatMap (·.2)))) (mp, [])).1,
         ((homeless.foldl (dhRenew p2s (mkSet (p2s.flatMap (·.2)))) (mp, [])).1.foldl
            (dhCount (mkSet (p2s.map (·.1)))) ((mkSet (p2s.map (·.1))).map (fun p => (p, 0)))).map
            (fun x => (x.2, x.1)))
        ⟨h1, by
          intro x hx
          obtain ⟨y, hy, rfl⟩ := List.mem_map.mp hx
          exact hprio y hy⟩
        (by
          intro st share _ hst
          unfold dhAssign
          split
          · exact hst
          · rename_i pk hpk
            have hmem := pqMin_mem _ _ hpk
            refine ⟨hset _ _ _ hst.1 (hst.2 pk hmem), ?_⟩
            intro x hx
            simp only [List.mem_append, List.mem_singleton] at hx
            rcases hx with hx | rfl
            · exact hst.2 x (List.mem_of_mem_erase hx)
            · exact hst.2 pk hmem)
      exact this.1
    exact h2

theorem finalize_fold (rr : List Nat) :
    ∀ (l : List (Nat × Option Nat)) (acc : List (Nat × Nat)) (k : Nat),
      (rr ≠ [] ∨ ∀ e ∈ l, e.2 ≠ none) →
      ((l.foldl (finalizeStep rr) (acc, k)).1.map (·.1) = acc.map (·.1) ++ l.map (·.1)) ∧
      ∀ e ∈ (l.foldl (finalizeStep rr) (acc, k)).1, e ∈ acc ∨ (e.1, some e.2) ∈ l ∨ e.2 ∈ rr := by
  intro l
  induction l with
  | nil => intro acc k _; exact ⟨by simp, fun e he => Or.inl (by simpa using he)⟩
  | cons a rest ih =>
    intro acc k hrr
    simp only [List.foldl_cons]
    have hrr' : rr ≠ [] ∨ ∀ e ∈ rest, e.2 ≠ none := by
      rcases hrr with h | h
      · left; exact h
      · right; intro e he; exact h e (by simp [he])
    obtain ⟨ak, av⟩ := a
    cases av with
    | some p =>
      simp only [finalizeStep]
      obtain ⟨h1, h2⟩ := ih (acc ++ [(ak, p)]) k hrr'
      refine ⟨by rw [h1]; simp, ?_⟩
      intro e he
      rcases h2 e he with h | h | h
      · simp only [List.mem_append, List.mem_singleton] at h
        rcases h with h | h
        · left; exact h
        · right; left; rw [h]; simp
      · right; left; simp [h]
      · right; right; exact h
    | none =>
      simp only [finalizeStep]
      obtain ⟨h1, h2⟩ := ih (acc ++ [(ak, rr.getD (k % rr.length) 0)]) (k + 1) hrr'
      refine ⟨by rw [h1]; simp, ?_⟩
      have hne : rr ≠ [] := by
        rcases hrr with h | h
        · exact h
        · exact absurd rfl (h (ak, none) (by simp))
      intro e he
      rcases h2 e he with h | h | h
      · simp only [List.mem_append, List.mem_singleton] at h
        rcases h with h | h
        · left; exact h
        · right; right; rw [h]
          have hpos : 0 < rr.length := List.length_pos_iff.mpr hne
          have hlt : k % rr.length < rr.length := Nat.mod_lt _ hpos
          simp only [List.getD_eq_getElem?_getD, List.getElem?_eq_getElem hlt, Option.getD_some]
          exact List.getElem_mem hlt
      · right; left; simp [h]
      · right; right; exact h

theorem finalize_spec (rr : List Nat) (mp : List (Nat × Option Nat)) (res : List (Nat × Nat))
    (h : finalize rr mp = .ok res) :
    res.map (·.1) = mp.map (·.1) ∧ ∀ e ∈ res, (e.1, some e.2) ∈ mp ∨ e.2 ∈ rr := by
  unfold finalize at h
  split at h
  · simp at h
  · rename_i hc
    simp only [Placement.ok.injEq] at h
    subst h
    have hrr : rr ≠ [] ∨ ∀ e ∈ mp, e.2 ≠ none := by
      by_cases hr : rr = []
      · right
        intro e he hnone
        apply hc
        refine ⟨by simp [hr], ?_⟩
        simp only [List.any_eq_true]
        exact ⟨e, he, by simp [hnone]⟩
      · left; exact hr
    obtain ⟨h1, h2⟩ := finalize_fold rr mp [] 0 hrr
    refine ⟨by simpa using h1, ?_⟩
    intro e he
    rcases h2 e he with h | h | h
    · simp at h
    · left; exact h
    · right; exact h

theorem mem_dget_normalised (E : SetMap) (p s : Nat)
    (h : s ∈ dget (E.map (fun e => (e.1, mkSet e.2))) p) : ∃ e ∈ E, e.1 = p ∧ s ∈ e.2 := by
  induction E with
  | nil => simp [dget] at h
  | cons a rest ih =>
    unfold dget at h
    simp only [List.map_cons, List.lookup_cons] at h
    by_cases hp : p = a.1
    · subst hp
      simp only [beq_self_eq_true, Option.getD_some] at h
      exact ⟨a, by simp, rfl, (mem_mkSet _ s).mp h⟩
    · have : (p == a.1) = false := by simpa using hp
      simp only [this] at h
      obtain ⟨e, he, h1, h2⟩ := ih h
      exact ⟨e, by simp [he], h1, h2⟩

theorem rowsNodup_normalised (E : SetMap) : RowsNodup (E.map (fun e => (e.1, mkSet e.2))) := by
  intro e he
  obtain ⟨e', _, rfl⟩ := List.mem_map.mp he
  exact mkSet_nodup _

/-- what the placement returned by the repaired `share_placement` consists of -/
theorem sharePlacement_fixed_spec (W R S : List Nat) (E : SetMap) (res : List (Nat × Nat))
    (hW : W ≠ []) (h : sharePlacement Cfg.fixed W R S E = .ok res) :
    (∀ s ∈ S, s ∈ res.map (·.1)) ∧
    (∀ e ∈ res, e.2 ∈ W ∨ (e.2 ∈ R ∧ ∃ x ∈ E, x.1 = e.2 ∧ e.1 ∈ x.2) ∨
      (e.2 ∉ R ∧ e.2 ∈ E.map (·.1))) := by
  rw [sharePlacement_fixed_eq] at h
  have hne : (mkSet W).isEmpty = false := by
    cases W with
    | nil => exact absurd rfl hW
    | cons a rest =>
      have : a ∈ mkSet (a :: rest) := (mem_mkSet _ a).mpr (by simp)
      cases hm : mkSet (a :: rest) with
      | nil => rw [hm] at this; simp at this
      | cons _ _ => rfl
  simp only [hne, Bool.false_eq_true, if_false] at h
  obtain ⟨hkeys, hent⟩ := finalize_spec _ _ res h
  have hE := rowsNodup_normalised E
  have hmk := merged_keys (mkSet W) (mkSet R) (mkSet S) _ (mkSet_nodup W) (mkSet_nodup S) hE
  have hms := merged_sound (mkSet W) (mkSet R) (mkSet S) _ (mkSet_nodup W) (mkSet_nodup R)
    (mkSet_nodup S) hE
  constructor
  · intro s hs
    rw [hkeys]
    have hm := hmk s ((mem_mkSet S s).mpr hs)
    unfold finalMappings
    simp only
    split
    · exact hm
    · exact (distributeHomeless_spec _ _ _).1 s hm
  · intro e he
    have hsound : ∀ s p, (s, some p) ∈ finalMappings (mkSet W) (mkSet R) (mkSet S)
        (E.map (fun e => (e.1, mkSet e.2))) →
        p ∈ W ∨ (p ∈ R ∧ ∃ x ∈ E, x.1 = p ∧ s ∈ x.2) ∨ (p ∉ R ∧ p ∈ E.map (·.1)) := by
      intro s p hsp
      have hmerged : (s, some p) ∈ mergedMappings (mkSet W) (mkSet R) (mkSet S)
          (E.map (fun e => (e.1, mkSet e.2))) →
          p ∈ W ∨ (p ∈ R ∧ ∃ x ∈ E, x.1 = p ∧ s ∈ x.2) ∨ (p ∉ R ∧ p ∈ E.map (·.1)) := by
        intro hm
        rcases hms s p hm with h1 | ⟨h1, h2⟩
        · left; exact (mem_mkSet W p).mp h1
        · right; left
          exact ⟨(mem_mkSet R p).mp h1, mem_dget_normalised E p s h2⟩
      unfold finalMappings at hsp
      simp only at hsp
      split at hsp
      · exact hmerged hsp
      · rcases (distributeHomeless_spec _ _ _).2 s p hsp with h1 | h1
        · exact hmerged h1
        · right; right
          simp only [List.mem_map, List.mem_filter] at h1
          obtain ⟨x, ⟨hx1, hx2⟩, rfl⟩ := h1
          obtain ⟨y, hy, rfl⟩ := hx1
          simp only [List.contains_eq_mem, Bool.not_eq_true', decide_eq_false_iff_not] at hx2
          exact ⟨fun hr => hx2 ((mem_mkSet R _).mpr hr), List.mem_map.mpr ⟨y, hy, rfl⟩⟩
    rcases hent e he with h1 | h1
    · exact hsound e.1 e.2 h1
    · left
      exact (mem_mkSet W _).mp ((mem_sdiff _ _ _).mp h1).1

end Tahoe.Happiness
