import Tahoe.Happiness.LemmasInner
import Tahoe.Happiness.Placement
/-! Lemmas about the model of `share_placement` (repaired code): index tables, the two graph
builders produce layered networks, what `_calculate_mappings` returns. -/
namespace Tahoe.Happiness
attribute [-simp] List.getD_eq_getElem?_getD

theorem pyInsert_length {α : Type} (l : List α) (x : α) : pyInsert l l.length x = l ++ [x] := by
  unfold pyInsert; simp [List.insertIdx_length_self]

theorem foldl_pyInsert {α : Type} (idx : Nat → Nat) (row : Nat → α) :
    ∀ (items : List Nat) (g0 : List α), items.map idx = List.range' g0.length items.length →
      items.foldl (fun g p => pyInsert g (idx p) (row p)) g0 = g0 ++ items.map row := by
  intro items
  induction items with
  | nil => intro g0 _; simp
  | cons a rest ih =>
    intro g0 h
    simp only [List.map_cons, List.length_cons, List.range'_succ, List.cons.injEq] at h
    simp only [List.foldl_cons, List.map_cons]
    rw [h.1, pyInsert_length, ih (g0 ++ [row a]) (by simpa using h.2)]
    simp

theorem reindexItems_cons (a : Nat) (rest : List Nat) (base : Nat) :
    reindexItems (a :: rest) base = (a, base) :: reindexItems rest (base + 1) := by
  simp [reindexItems, List.range'_succ]

theorem toIndex_cons (a : Nat) (rest : List Nat) (base x : Nat) :
    toIndex (reindexItems (a :: rest) base) x =
      if x = a then base else toIndex (reindexItems rest (base + 1)) x := by
  rw [reindexItems_cons]
  unfold toIndex
  rw [List.lookup_cons]
  by_cases h : x = a
  · simp [h]
  · have : (x == a) = false := by simpa using h
    simp [this, h]

theorem ofIndex_cons (a : Nat) (rest : List Nat) (base i : Nat) :
    ofIndex (reindexItems (a :: rest) base) i =
      if base = i then a else ofIndex (reindexItems rest (base + 1)) i := by
  rw [reindexItems_cons]
  unfold ofIndex
  rw [List.find?_cons]
  by_cases h : base = i
  · simp [h]
  · have : (base == i) = false := by simpa using h
    simp [this, h]

theorem lookup_reindexItems (items : List Nat) (base x : Nat) :
    ((reindexItems items base).lookup x).isSome ↔ x ∈ items := by
  induction items generalizing base with
  | nil => simp [reindexItems]
  | cons a rest ih =>
    rw [reindexItems_cons, List.lookup_cons]
    by_cases h : x = a
    · simp [h]
    · have : (x == a) = false := by simpa using h
      simp [this, h, ih]

theorem toIndex_range (items : List Nat) (base x : Nat) (hx : x ∈ items) :
    base ≤ toIndex (reindexItems items base) x ∧
      toIndex (reindexItems items base) x < base + items.length := by
  induction items generalizing base with
  | nil => simp at hx
  | cons a rest ih =>
    rw [toIndex_cons]
    by_cases h : x = a
    · simp [h]
    · simp only [h, if_false, List.length_cons]
      have hx' : x ∈ rest := by simpa [h] using hx
      have := ih (base + 1) hx'
      omega

theorem ofIndex_toIndex (items : List Nat) (base x : Nat) (hx : x ∈ items) :
    ofIndex (reindexItems items base) (toIndex (reindexItems items base) x) = x := by
  induction items generalizing base with
  | nil => simp at hx
  | cons a rest ih =>
    rw [toIndex_cons]
    by_cases h : x = a
    · simp only [h, if_true]; rw [ofIndex_cons]; simp
    · simp only [h, if_false]
      have hx' : x ∈ rest := by simpa [h] using hx
      rw [ofIndex_cons]
      have := toIndex_range rest (base + 1) x hx'
      rw [if_neg (by omega)]
      exact ih (base + 1) hx'

theorem toIndex_inj (items : List Nat) (base x y : Nat) (hx : x ∈ items) (hy : y ∈ items)
    (e : toIndex (reindexItems items base) x = toIndex (reindexItems items base) y) : x = y := by
  rw [← ofIndex_toIndex items base x hx, e, ofIndex_toIndex items base y hy]

theorem map_toIndex (items : List Nat) (base : Nat) (hnd : items.Nodup) :
    items.map (toIndex (reindexItems items base)) = List.range' base items.length := by
  induction items generalizing base with
  | nil => simp
  | cons a rest ih =>
    have hn := List.nodup_cons.mp hnd
    simp only [List.map_cons, List.length_cons, List.range'_succ]
    rw [toIndex_cons]
    simp only [if_true, List.cons.injEq, true_and]
    rw [← ih (base + 1) hn.2]
    apply List.map_congr_left
    intro x hx
    rw [toIndex_cons]
    have : x ≠ a := fun e => hn.1 (e ▸ hx)
    simp [this]

theorem ofIndex_mem (items : List Nat) (base i : Nat) (h1 : base ≤ i) (h2 : i < base + items.length) :
    ofIndex (reindexItems items base) i ∈ items ∧
    (items.Nodup → toIndex (reindexItems items base) (ofIndex (reindexItems items base) i) = i) := by
  induction items generalizing base with
  | nil => simp at h2; omega
  | cons a rest ih =>
    rw [ofIndex_cons]
    by_cases h : base = i
    · subst h
      simp only [if_true, List.mem_cons, true_or, true_and]
      intro _; rw [toIndex_cons]; simp
    · simp only [h, if_false]
      simp only [List.length_cons] at h2
      obtain ⟨m1, m2⟩ := ih (base + 1) (by omega) (by omega)
      refine ⟨by simp [m1], ?_⟩
      intro hnd
      have hn := List.nodup_cons.mp hnd
      rw [toIndex_cons]
      have : ofIndex (reindexItems rest (base + 1)) i ≠ a := fun e => hn.1 (e ▸ m1)
      simp only [this, if_false]
      exact m2 hn.2

theorem getD_append'' {α : Type} (l1 l2 : List α) (i : Nat) (d : α) :
    (l1 ++ l2).getD i d = if i < l1.length then l1.getD i d else l2.getD (i - l1.length) d := by
  simp only [List.getD_eq_getElem?_getD, List.getElem?_append]
  split <;> rfl

/-- the common shape of the graphs built by `_flow_network` and `_servermap_flow_graph` -/
def netOf (n m : Nat) (rows : List (List Nat)) : Graph :=
  [List.range' 1 n] ++ rows ++ List.replicate m [n + m + 1] ++ [[]]

theorem adj_netOf_server (n m : Nat) (rows : List (List Nat)) (hr : rows.length = n) (j : Nat)
    (hj : j < n) : adj (netOf n m rows) (j + 1) = rows.getD j [] := by
  simp only [netOf, adj, List.append_assoc, getD_append'', List.length_cons, List.length_nil]
  rw [if_neg (by omega), if_pos (by omega)]
  congr 1

theorem layered_netOf (n m : Nat) (rows : List (List Nat)) (hr : rows.length = n)
    (hrows : ∀ row ∈ rows, row.Nodup ∧ ∀ v ∈ row, n + 1 ≤ v ∧ v ≤ n + m) :
    Layered (netOf n m rows) n m := by
  have hmem : ∀ i, 1 ≤ i → i ≤ n → adj (netOf n m rows) i ∈ rows := by
    intro i h1 h2
    have := adj_netOf_server n m rows hr (i - 1) (by omega)
    rw [show i - 1 + 1 = i by omega] at this
    rw [this]
    have hlt : i - 1 < rows.length := by omega
    simp only [List.getD_eq_getElem?_getD, List.getElem?_eq_getElem hlt, Option.getD_some]
    exact List.getElem_mem hlt
  constructor
  · simp [netOf, hr]; omega
  · intro v
    simp only [netOf, adj, List.append_assoc, List.cons_append, List.nil_append]
    simp [List.getD_eq_getElem?_getD, List.mem_range'_1]; omega
  · simp only [netOf, adj, List.append_assoc, List.cons_append, List.nil_append]
    simp [List.getD_eq_getElem?_getD]
    exact List.nodup_range' 1
  · intro i h1 h2 v hv
    exact (hrows _ (hmem i h1 h2)).2 v hv
  · intro i h1 h2
    exact (hrows _ (hmem i h1 h2)).1
  · intro s h1 h2
    simp only [netOf, adj, List.append_assoc, getD_append'', List.length_cons, List.length_nil, hr,
      List.length_replicate]
    rw [if_neg (by omega), if_neg (by omega), if_pos (by omega), getD_replicate, if_pos (by omega)]
  · simp only [netOf, adj, List.append_assoc, getD_append'', List.length_cons, List.length_nil, hr,
      List.length_replicate]
    rw [if_neg (by omega), if_neg (by omega), if_neg (by omega)]
    have : n + m + 1 - (0 + 1) - n - m = 0 := by omega
    rw [this]; rfl

theorem map_const_eq_replicate {α β : Type} (l : List α) (c : β) :
    l.map (fun _ => c) = List.replicate l.length c := by
  induction l with
  | nil => rfl
  | cons a rest ih => simp [List.replicate_succ, ih]

/-- `_flow_network` on the index lists `_calculate_mappings` passes -/
theorem flowNetwork_eq (n m : Nat) :
    flowNetwork (List.range' 1 n) (List.range' (n + 1) m) =
      netOf n m (List.replicate n (List.range' (n + 1) m)) := by
  unfold flowNetwork netOf
  simp only [List.length_append, List.length_range']
  rw [foldl_pyInsert (fun x => x) (fun _ => List.range' (n + 1) m) (List.range' 1 n)
    [List.range' 1 n] (by simp)]
  rw [foldl_pyInsert (fun x => x) (fun _ => [n + m + 1]) (List.range' (n + 1) m) _ (by simp)]
  rw [map_const_eq_replicate, map_const_eq_replicate]
  simp

/-- `_servermap_flow_graph` (repaired) in closed form -/
theorem servermapFlowGraph_eq (peers shares : List Nat) (sm : SetMap) (hp : peers.Nodup)
    (hs : shares.Nodup) (hne : sm.isEmpty = false) :
    servermapFlowGraph Cfg.fixed peers shares sm =
      netOf peers.length shares.length
        (peers.map (indexedSharesOf sm (reindexItems shares (peers.length + 1)))) := by
  unfold servermapFlowGraph netOf
  simp only [hne, Cfg.fixed, if_true, Bool.false_eq_true, if_false]
  rw [map_toIndex peers 1 hp]
  rw [foldl_pyInsert (toIndex (reindexItems peers 1))
    (indexedSharesOf sm (reindexItems shares (peers.length + 1))) peers [List.range' 1 peers.length]
    (by rw [map_toIndex peers 1 hp]; simp)]
  rw [foldl_pyInsert (toIndex (reindexItems shares (peers.length + 1)))
    (fun _ => [peers.length + shares.length + 1]) shares _
    (by rw [map_toIndex shares _ hs]; simp)]
  rw [map_const_eq_replicate]

theorem indexedSharesOf_spec (sm : SetMap) (shares : List Nat) (base peer : Nat)
    (hrow : (dget sm peer).Nodup) :
    (indexedSharesOf sm (reindexItems shares base) peer).Nodup ∧
    ∀ v ∈ indexedSharesOf sm (reindexItems shares base) peer,
      base ≤ v ∧ v < base + shares.length ∧
      ∃ s ∈ shares, s ∈ dget sm peer ∧ v = toIndex (reindexItems shares base) s := by
  unfold indexedSharesOf
  split
  · constructor
    · have hf : ((dget sm peer).filter (fun s => ((reindexItems shares base).lookup s).isSome)).Nodup :=
        hrow.sublist List.filter_sublist
      rw [List.nodup_iff_pairwise_ne, List.pairwise_map]
      rw [List.nodup_iff_pairwise_ne] at hf
      apply hf.imp_of_mem
      intro a b ha hb hab e
      simp only [List.mem_filter] at ha hb
      exact hab (toIndex_inj shares base a b ((lookup_reindexItems shares base a).mp ha.2)
        ((lookup_reindexItems shares base b).mp hb.2) e)
    · intro v hv
      simp only [List.mem_map, List.mem_filter] at hv
      obtain ⟨s, ⟨hs1, hs2⟩, rfl⟩ := hv
      have hs := (lookup_reindexItems shares base s).mp hs2
      have := toIndex_range shares base s hs
      exact ⟨this.1, this.2, s, hs, hs1, rfl⟩
  · simp

theorem lookup_isSome_iff_keys {β : Type} (d : List (Nat × β)) (k : Nat) :
    (d.lookup k).isSome ↔ k ∈ d.map (·.1) := by
  rw [List.lookup_isSome_iff]
  simp only [List.mem_map, beq_iff_eq]
  constructor
  · rintro ⟨p, hp, rfl⟩; exact ⟨p, hp, rfl⟩
  · rintro ⟨p, hp, rfl⟩; exact ⟨p, hp, rfl⟩

theorem foldl_setDefault {β : Type} (v : Nat → β) :
    ∀ (l : List Nat) (acc : List (Nat × β)), l.Nodup → (∀ x ∈ l, x ∉ acc.map (·.1)) →
      l.foldl (fun m si => setDefault m si (v si)) acc = acc ++ l.map (fun si => (si, v si)) := by
  intro l
  induction l with
  | nil => intro acc _ _; simp
  | cons a rest ih =>
    intro acc hnd hfresh
    have hn := List.nodup_cons.mp hnd
    simp only [List.foldl_cons, List.map_cons]
    have ha : ¬ (acc.lookup a).isSome := fun h =>
      hfresh a (by simp) ((lookup_isSome_iff_keys acc a).mp h)
    have hsd : setDefault acc a (v a) = acc ++ [(a, v a)] := by
      unfold setDefault; simp only [ha]; rfl
    rw [hsd, ih (acc ++ [(a, v a)]) hn.2]
    · simp
    · intro x hx
      simp only [List.map_append, List.map_cons, List.map_nil, List.mem_append, List.mem_singleton,
        not_or]
      exact ⟨hfresh x (by simp [hx]), fun e => hn.1 (e ▸ hx)⟩

/-- the value `_compute_maximum_graph` stores for a share vertex -/
def cmgValue (g : Graph) (si : Nat) : Option Nat :=
  if adj (maxFlowInner g).2.1 si = [g.length - 1] then none else (adj (maxFlowInner g).2.1 si).head?

theorem computeMaximumGraph_eq (g : Graph) (hne : g.isEmpty = false) (sis : List Nat) (hnd : sis.Nodup) :
    computeMaximumGraph g sis = sis.map (fun si => (si, cmgValue g si)) := by
  unfold computeMaximumGraph
  simp only [hne, Bool.false_eq_true, if_false]
  have : (fun (m : List (Nat × Option Nat)) si =>
      if adj (maxFlowInner g).2.1 si = [g.length - 1] then setDefault m si none
      else setDefault m si (adj (maxFlowInner g).2.1 si).head?) =
      (fun m si => setDefault m si (cmgValue g si)) := by
    funext m si
    unfold cmgValue
    split <;> rfl
  rw [this, foldl_setDefault (cmgValue g) sis [] hnd (by simp)]
  simp

/-- on a layered network the stored value is `None` for an unmatched share and the matched server
otherwise, for the maximum matching `M` the loop ends with -/
theorem cmgValue_spec {g : Graph} {n m : Nat} (hL : Layered g n m) :
    ∃ M : List (Nat × Nat), Matching M ∧ (∀ e ∈ M, 1 ≤ e.1 ∧ e.1 ≤ n ∧ e.2 ∈ adj g e.1) ∧
      (∀ M' : List (Nat × Nat), Matching M' →
        (∀ e ∈ M', 1 ≤ e.1 ∧ e.1 ≤ n ∧ e.2 ∈ adj g e.1) → M'.length ≤ M.length) ∧
      ∀ si, n + 1 ≤ si → si ≤ n + m →
        (cmgValue g si = none ∧ si ∉ M.map (·.2)) ∨ (∃ i, cmgValue g si = some i ∧ (i, si) ∈ M) := by
  obtain ⟨M, hI, hrg, _, hopt⟩ := maxFlowInner_spec hL
  refine ⟨M, hI.mat, hI.sub, hopt, ?_⟩
  intro si h1 h2
  unfold cmgValue
  rw [hrg, hL.len]
  have ht : n + m + 2 - 1 = n + m + 1 := by omega
  rw [ht]
  have hrows := residual_rows_nodup g (maxFlowInner g).1 hL.inRange hL.edgesNodup hL.anti si
  obtain ⟨r1, r2⟩ := share_row hL hI h1 h2
  by_cases hm : si ∈ M.map (·.2)
  · right
    obtain ⟨i, hi⟩ := mem_map_snd.mp hm
    have hmem := resid_backward hL hI hi
    have hall := r2 i hi
    obtain ⟨hi1, hi2, _⟩ := hI.sub (i, si) hi
    simp only at hi1 hi2
    refine ⟨i, ?_, hi⟩
    generalize adj (residualNetwork g (maxFlowInner g).1).1 si = row at *
    cases row with
    | nil => simp at hmem
    | cons a rest =>
      have ha := hall a (by simp)
      subst ha
      have : a :: rest ≠ [n + m + 1] := by
        intro e; simp only [List.cons.injEq] at e; omega
      simp [this]
  · left
    refine ⟨?_, hm⟩
    have hmem := resid_to_sink hL hI h1 h2 hm
    have hall := r1 hm
    generalize adj (residualNetwork g (maxFlowInner g).1).1 si = row at *
    cases row with
    | nil => simp at hmem
    | cons a rest =>
      have ha := hall a (by simp)
      subst ha
      cases rest with
      | nil => simp
      | cons b rest' =>
        have hb := hall b (by simp)
        subst hb
        simp at hrows

theorem foldl_setDefault' {α β : Type} (key : α → Nat) (val : α → β) :
    ∀ (l : List α) (acc : List (Nat × β)), (l.map key).Nodup → (∀ x ∈ l, key x ∉ acc.map (·.1)) →
      l.foldl (fun m e => setDefault m (key e) (val e)) acc = acc ++ l.map (fun e => (key e, val e)) := by
  intro l
  induction l with
  | nil => intro acc _ _; simp
  | cons a rest ih =>
    intro acc hnd hfresh
    simp only [List.map_cons] at hnd
    have hn := List.nodup_cons.mp hnd
    simp only [List.foldl_cons, List.map_cons]
    have ha : ¬ (acc.lookup (key a)).isSome := fun h =>
      hfresh a (by simp) ((lookup_isSome_iff_keys acc (key a)).mp h)
    have hsd : setDefault acc (key a) (val a) = acc ++ [(key a, val a)] := by
      unfold setDefault; simp only [ha]; rfl
    rw [hsd, ih (acc ++ [(key a, val a)]) hn.2]
    · simp
    · intro x hx
      simp only [List.map_append, List.map_cons, List.map_nil, List.mem_append, List.mem_singleton,
        not_or]
      exact ⟨hfresh x (by simp [hx]), fun e => hn.1 (e ▸ List.mem_map_of_mem hx)⟩

theorem ofIndex_getElem (items : List Nat) (base j : Nat) (hj : j < items.length) :
    ofIndex (reindexItems items base) (base + j) = items[j] := by
  induction items generalizing base j with
  | nil => simp at hj
  | cons a rest ih =>
    rw [ofIndex_cons]
    cases j with
    | zero => simp
    | succ k =>
      rw [if_neg (by omega)]
      have := ih (base + 1) k (by simpa using hj)
      rw [show base + 1 + k = base + (k + 1) by omega] at this
      simpa using this

/-- the graph `_calculate_mappings` runs the flow on -/
def cmGraph (peers shares : List Nat) (sm : SetMap) : Graph :=
  if !sm.isEmpty then servermapFlowGraph Cfg.fixed peers shares sm
  else flowNetwork (peers.map (toIndex (reindexItems peers 1)))
    (shares.map (toIndex (reindexItems shares (peers.length + 1))))

/-- `_calculate_mappings` (repaired code) in closed form: one entry per share, in the order of the
share set, holding the peer matched to it by the flow computation, if any -/
theorem calculateMappings_eq (peers shares : List Nat) (sm : SetMap) (hp : peers.Nodup)
    (hs : shares.Nodup) :
    calculateMappings Cfg.fixed peers shares sm =
      shares.map (fun s => (s, (cmgValue (cmGraph peers shares sm)
        (toIndex (reindexItems shares (peers.length + 1)) s)).map (ofIndex (reindexItems peers 1)))) := by
  unfold calculateMappings
  show convertMappings _ _ (computeMaximumGraph (cmGraph peers shares sm) _) = _
  have hne : (cmGraph peers shares sm).isEmpty = false := by
    unfold cmGraph
    split
    · rename_i h
      rw [servermapFlowGraph_eq peers shares sm hp hs (by simpa using h)]
      simp [netOf]
    · simp [flowNetwork]
  have hsis : (shares.map (toIndex (reindexItems shares (peers.length + 1)))).Nodup := by
    rw [map_toIndex shares _ hs]; exact List.nodup_range' 1
  rw [computeMaximumGraph_eq _ hne _ hsis]
  unfold convertMappings
  simp only [List.foldl_map]
  have := foldl_setDefault' (β := Option Nat)
    (fun s => ofIndex (reindexItems shares (peers.length + 1)) (toIndex (reindexItems shares (peers.length + 1)) s))
    (fun s => (cmgValue (cmGraph peers shares sm) (toIndex (reindexItems shares (peers.length + 1)) s)).map
      (ofIndex (reindexItems peers 1))) shares [] (by
        have : shares.map (fun s => ofIndex (reindexItems shares (peers.length + 1))
            (toIndex (reindexItems shares (peers.length + 1)) s)) = shares := by
          conv => rhs; rw [← List.map_id shares]
          apply List.map_congr_left
          intro x hx
          simp [ofIndex_toIndex shares _ x hx]
        rw [this]; exact hs) (by simp)
  simp only [List.nil_append] at this
  rw [this]
  apply List.map_congr_left
  intro x hx
  rw [ofIndex_toIndex shares _ x hx]

theorem cmGraph_layered (peers shares : List Nat) (sm : SetMap) (hp : peers.Nodup) (hs : shares.Nodup)
    (hrows : ∀ p, (dget sm p).Nodup) : Layered (cmGraph peers shares sm) peers.length shares.length := by
  unfold cmGraph
  split
  · rename_i h
    rw [servermapFlowGraph_eq peers shares sm hp hs (by simpa using h)]
    apply layered_netOf _ _ _ (by simp)
    intro row hrow
    obtain ⟨p, _, rfl⟩ := List.mem_map.mp hrow
    obtain ⟨h1, h2⟩ := indexedSharesOf_spec sm shares (peers.length + 1) p (hrows p)
    refine ⟨h1, ?_⟩
    intro v hv
    have := h2 v hv
    omega
  · rw [map_toIndex peers 1 hp, map_toIndex shares _ hs, flowNetwork_eq]
    apply layered_netOf _ _ _ (by simp)
    intro row hrow
    have := List.eq_of_mem_replicate hrow
    subst this
    refine ⟨List.nodup_range' 1, ?_⟩
    intro v hv
    simp only [List.mem_range'_1] at hv
    omega

/-- soundness of `_calculate_mappings` (repaired code): exactly the given shares are keys, a
mapped peer is one of the given peers, and when a servermap was supplied the peer holds the share -/
theorem calculateMappings_sound (peers shares : List Nat) (sm : SetMap) (hp : peers.Nodup)
    (hs : shares.Nodup) (hrows : ∀ p, (dget sm p).Nodup) :
    (calculateMappings Cfg.fixed peers shares sm).map (·.1) = shares ∧
    ∀ s p, (s, some p) ∈ calculateMappings Cfg.fixed peers shares sm →
      p ∈ peers ∧ s ∈ shares ∧ (sm.isEmpty = false → s ∈ dget sm p) := by
  rw [calculateMappings_eq peers shares sm hp hs]
  refine ⟨by simp [List.map_map, Function.comp_def], ?_⟩
  intro s p hmem
  obtain ⟨s', hs', heq⟩ := List.mem_map.mp hmem
  simp only [Prod.mk.injEq] at heq
  obtain ⟨rfl, hval⟩ := heq
  have hL := cmGraph_layered peers shares sm hp hs hrows
  obtain ⟨M, _, hsub, _, hcase⟩ := cmgValue_spec hL
  have hrange := toIndex_range shares (peers.length + 1) s' hs'
  rcases hcase (toIndex (reindexItems shares (peers.length + 1)) s') hrange.1 (by omega) with
    ⟨hnone, _⟩ | ⟨i, hsome, hiM⟩
  · rw [hnone] at hval; simp at hval
  · rw [hsome] at hval
    simp only [Option.map_some, Option.some.injEq] at hval
    obtain ⟨hi1, hi2, hadj⟩ := hsub _ hiM
    simp only at hi1 hi2 hadj
    have hj : i - 1 < peers.length := by omega
    have hpi : p = peers[i - 1] := by
      rw [← hval]
      have := ofIndex_getElem peers 1 (i - 1) hj
      rw [show 1 + (i - 1) = i by omega] at this
      exact this
    refine ⟨by rw [hpi]; exact List.getElem_mem hj, hs', ?_⟩
    intro hne
    have hg : cmGraph peers shares sm = netOf peers.length shares.length
        (peers.map (indexedSharesOf sm (reindexItems shares (peers.length + 1)))) := by
      unfold cmGraph
      simp only [hne, Bool.not_false, if_true]
      exact servermapFlowGraph_eq peers shares sm hp hs hne
    rw [hg] at hadj
    have := adj_netOf_server peers.length shares.length
      (peers.map (indexedSharesOf sm (reindexItems shares (peers.length + 1)))) (by simp) (i - 1) hj
    rw [show i - 1 + 1 = i by omega] at this
    rw [this] at hadj
    have hrow : (peers.map (indexedSharesOf sm (reindexItems shares (peers.length + 1)))).getD (i - 1) []
        = indexedSharesOf sm (reindexItems shares (peers.length + 1)) peers[i - 1] := by
      simp only [List.getD_eq_getElem?_getD, List.getElem?_map, List.getElem?_eq_getElem hj]
      rfl
    rw [hrow, ← hpi] at hadj
    obtain ⟨_, _, s'', hs'', hd, he⟩ := (indexedSharesOf_spec sm shares (peers.length + 1) p (hrows p)).2 _ hadj
    have := toIndex_inj shares _ s' s'' hs' hs'' he
    rw [this]; exact hd

end Tahoe.Happiness
