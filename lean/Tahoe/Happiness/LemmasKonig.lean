import Tahoe.Happiness.LemmasRound
/-! Optimality: when `augmenting_path_for` returns `False`, the vertices reached by the last BFS
give a vertex cover no larger than the current matching, so no matching is larger (König's
argument, proved directly). -/
namespace Tahoe.Happiness
attribute [-simp] List.getD_eq_getElem?_getD

/-- pigeonhole in relational form: a relation that is total on `l1`, lands in `l2` and never
relates two different elements of `l1` to the same element -/
theorem inj_length_le (R : Nat × Nat → Nat × Nat → Prop) :
    ∀ (l1 l2 : List (Nat × Nat)), l1.Nodup → (∀ a ∈ l1, ∃ b ∈ l2, R a b) →
      (∀ a a' b, a ∈ l1 → a' ∈ l1 → R a b → R a' b → a = a') → l1.length ≤ l2.length := by
  intro l1
  induction l1 with
  | nil => intro l2 _ _ _; simp
  | cons a rest ih =>
    intro l2 hnd hex hinj
    have hnd' := List.nodup_cons.mp hnd
    obtain ⟨b, hb, hab⟩ := hex a (by simp)
    have := ih (l2.erase b) hnd'.2
      (by
        intro a' ha'
        obtain ⟨b', hb', hab'⟩ := hex a' (by simp [ha'])
        refine ⟨b', ?_, hab'⟩
        have hne : b' ≠ b := by
          intro e; subst e
          have := hinj a a' b' (by simp) (by simp [ha']) hab hab'
          subst this; exact hnd'.1 ha'
        exact (List.mem_erase_of_ne hne).mpr hb')
      (by
        intro x x' y hx hx' h1 h2
        exact hinj x x' y (by simp [hx]) (by simp [hx']) h1 h2)
    rw [List.length_erase_of_mem hb] at this
    have : 0 < l2.length := List.length_pos_of_mem hb
    simp only [List.length_cons]; omega

section
variable {g : Graph} {n m : Nat} {f : Matrix} {M : List (Nat × Nat)}

theorem resid_from_sink (hL : Layered g n m) (_hI : FlowInv g n m none f M) {v : Nat}
    (h : v ∈ adj (residualNetwork g f).1 (n + m + 1)) : n + 1 ≤ v ∧ v ≤ n + m := by
  rw [(residual_graph g f hL.inRange).2] at h
  rcases h with ⟨h1, _⟩ | ⟨h1, _⟩
  · rw [hL.snk] at h1; simp at h1
  · have hup := hL.up h1
    by_cases hv : v = 0
    · subst hv; have := (hL.src _).mp h1; omega
    · by_cases hvn : v ≤ n
      · have := hL.srv v (by omega) hvn _ h1; omega
      · omega

/-- with no augmenting path left, every matching of the network's server/share edges is at most
as large as the current one -/
theorem no_aug_optimal (hL : Layered g n m) (hI : FlowInv g n m none f M)
    (hnone : augmentingPathFor (residualNetwork g f).1 = none) :
    ∀ M' : List (Nat × Nat), Matching M' →
      (∀ e ∈ M', 1 ≤ e.1 ∧ e.1 ≤ n ∧ e.2 ∈ adj g e.1) → M'.length ≤ M.length := by
  intro M' hM' hsub'
  have hlen : (residualNetwork g f).1.length = n + m + 2 := by
    rw [(residual_graph g f hL.inRange).1, hL.len]
  have hs := bfsRun_spec (residualNetwork g f).1 0 (resid_inRange hL) (by omega)
  have hnone' := augPath_none _ (resid_inRange hL) (by omega) hnone
  rw [hlen] at hnone'
  have ht : n + m + 2 - 1 = n + m + 1 := by omega
  rw [ht] at hnone'
  generalize hst : bfsRun (residualNetwork g f).1 0 = st at hs hnone'
  -- the sink is not reached
  have hsink : st.color.getD (n + m + 1) 0 = 0 := by
    rcases hnone' with h | h | h
    · exact h
    · omega
    · have := resid_from_source hL hI h; omega
  -- Claim A: an edge whose server is reached has its share reached
  have claimA : ∀ i s, 1 ≤ i → i ≤ n → s ∈ adj g i → st.color.getD i 0 ≠ 0 →
      st.color.getD s 0 ≠ 0 := by
    intro i s h1 h2 hsi hZ
    by_cases hm : (i, s) ∈ M
    · rcases hs.vis i hZ with h0 | hsome
      · omega
      · obtain ⟨u, hu⟩ := Option.isSome_iff_exists.mp hsome
        obtain ⟨e1, e2, _, _⟩ := hs.predE i u hu
        have hult := lt_of_mem_adj e1
        rw [hlen] at hult
        by_cases hu0 : u = 0
        · subst hu0
          have := (resid_from_source hL hI e1).2.2
          exact absurd (mem_map_fst.mpr ⟨s, hm⟩) this
        · by_cases hun : u ≤ n
          · rcases resid_from_server hL hI (by omega) hun e1 with ⟨h, _⟩ | h
            · have := hL.srv u (by omega) hun i h; omega
            · omega
          · by_cases hus : u ≤ n + m
            · rcases resid_from_share hL hI (by omega) hus e1 with ⟨h, _⟩ | ⟨_, _, h⟩
              · omega
              · have := hI.mat.fst_inj h hm rfl
                simp only [Prod.mk.injEq] at this
                rw [← this.2]; exact e2
            · have : u = n + m + 1 := by omega
              subst this
              have := resid_from_sink hL hI e1; omega
    · exact hs.closed i s hZ (resid_forward hL hI h1 h2 hsi hm)
  apply inj_length_le
    (fun e x => x ∈ M ∧ ((st.color.getD e.1 0 = 0 ∧ x.1 = e.1) ∨ (st.color.getD e.1 0 ≠ 0 ∧ x.2 = e.2)))
    M' M hM'.nodup
  · intro e he
    obtain ⟨h1, h2, hes⟩ := hsub' e he
    by_cases hZ : st.color.getD e.1 0 = 0
    · have hmem : e.1 ∈ M.map (·.1) := by
        apply Classical.byContradiction
        intro hfree
        have := hs.closed 0 e.1 hs.src (resid_to_free_server hL hI h1 h2 hfree)
        exact this hZ
      obtain ⟨y, hy⟩ := mem_map_fst.mp hmem
      exact ⟨(e.1, y), hy, hy, Or.inl ⟨hZ, rfl⟩⟩
    · have hZs := claimA e.1 e.2 h1 h2 hes hZ
      obtain ⟨hs1, hs2⟩ := hL.srv e.1 h1 h2 e.2 hes
      have hmem : e.2 ∈ M.map (·.2) := by
        apply Classical.byContradiction
        intro hfree
        have := hs.closed e.2 _ hZs (resid_to_sink hL hI hs1 hs2 hfree)
        exact this hsink
      obtain ⟨x, hx⟩ := mem_map_snd.mp hmem
      exact ⟨(x, e.2), hx, hx, Or.inr ⟨hZ, rfl⟩⟩
  · intro e e' x he he' hR hR'
    obtain ⟨hxM, hcase⟩ := hR
    obtain ⟨_, hcase'⟩ := hR'
    have mixed : ∀ a b : Nat × Nat, a ∈ M' → b ∈ M' → st.color.getD a.1 0 = 0 → x.1 = a.1 →
        st.color.getD b.1 0 ≠ 0 → x.2 = b.2 → False := by
      intro a b _ hb hZa hxa hZb hxb
      obtain ⟨h1, h2, hbs⟩ := hsub' b hb
      have hZs := claimA b.1 b.2 h1 h2 hbs hZb
      have hback : x.1 ∈ adj (residualNetwork g f).1 x.2 := resid_backward hL hI (by simpa using hxM)
      have := hs.closed x.2 x.1 (by rw [hxb]; exact hZs) hback
      rw [hxa] at this; exact this hZa
    rcases hcase with ⟨hZ, hx⟩ | ⟨hZ, hx⟩ <;> rcases hcase' with ⟨hZ', hx'⟩ | ⟨hZ', hx'⟩
    · exact hM'.fst_inj he he' (by rw [← hx, ← hx'])
    · exact (mixed e e' he he' hZ hx hZ' hx').elim
    · exact (mixed e' e he' he hZ' hx' hZ hx).elim
    · exact hM'.snd_inj he he' (by rw [← hx, ← hx'])

/-- **The flow loop of `servers_of_happiness` on a layered network computes a maximum matching.** -/
theorem maxFlowOuter_spec (hL : Layered g n m) :
    ∃ M, FlowInv g n m none (maxFlowOuter g).1 M ∧
      flowValue (maxFlowOuter g).1 n = M.length ∧
      augmentingPathFor (maxFlowOuter g).2.1 = none ∧
      ∀ M' : List (Nat × Nat), Matching M' →
        (∀ e ∈ M', 1 ≤ e.1 ∧ e.1 ≤ n ∧ e.2 ∈ adj g e.1) → M'.length ≤ M.length := by
  obtain ⟨M, hinv, hnone⟩ := flowLoop_outer hL g.length (flowInit g) [] (loopInv_init hL)
    (by rw [hL.len]; simp; omega)
  refine ⟨M, hinv.1, flowValue_eq hinv.1, hnone, ?_⟩
  have : augmentingPathFor (residualNetwork g (maxFlowOuter g).1).1 = none := by
    show augmentingPathFor (residualNetwork g (flowLoop augmentOuter g g.length (flowInit g)).1).1 = none
    rw [← hinv.2.1]; exact hnone
  exact no_aug_optimal hL hinv.1 this

end
end Tahoe.Happiness
