import Tahoe.Happiness.LemmasAugment
/-! `happinessutil._reindex` / `_flow_network_for`: the produced graph is a layered flow network
whose server/share edges are the relation of the servermap under an injective renumbering. -/
namespace Tahoe.Happiness
attribute [-simp] List.getD_eq_getElem?_getD

/-- the dict `shares` of `_reindex`: distinct keys, values `start, start+1, …` in insertion order -/
structure TblInv (start : Nat) (tbl : List (Nat × Nat)) : Prop where
  keys : (tbl.map (·.1)).Nodup
  vals : tbl.map (·.2) = List.range' start tbl.length

/-- `shares[x]` -/
def tidx (tbl : List (Nat × Nat)) (x : Nat) : Nat := (tbl.lookup x).getD 0

theorem lookup_isSome_iff_mem_keys (tbl : List (Nat × Nat)) (x : Nat) :
    (tbl.lookup x).isSome ↔ x ∈ tbl.map (·.1) := by
  rw [List.lookup_isSome_iff]
  simp only [List.mem_map, beq_iff_eq]
  constructor
  · rintro ⟨p, hp, rfl⟩; exact ⟨p, hp, rfl⟩
  · rintro ⟨p, hp, rfl⟩; exact ⟨p, hp, rfl⟩

theorem lookup_append_of_mem (t1 t2 : List (Nat × Nat)) (x : Nat) (h : x ∈ t1.map (·.1)) :
    (t1 ++ t2).lookup x = t1.lookup x := by
  rw [List.lookup_append]
  have := (lookup_isSome_iff_mem_keys t1 x).mpr h
  obtain ⟨v, hv⟩ := Option.isSome_iff_exists.mp this
  rw [hv]; rfl

theorem lookup_mem (tbl : List (Nat × Nat)) (x v : Nat) (h : tbl.lookup x = some v) : (x, v) ∈ tbl := by
  induction tbl with
  | nil => simp at h
  | cons e rest ih =>
    obtain ⟨k, b⟩ := e
    rw [List.lookup_cons] at h
    by_cases hx : x = k
    · subst hx; simp at h; subst h; simp
    · have : (x == k) = false := by simpa using hx
      rw [this] at h
      simp only [List.mem_cons]; right; exact ih h

theorem inj_of_nodup_map {α β : Type} (f : α → β) (l : List α) (h : (l.map f).Nodup) {a b : α}
    (ha : a ∈ l) (hb : b ∈ l) (e : f a = f b) : a = b := by
  induction l with
  | nil => simp at ha
  | cons x rest ih =>
    simp only [List.map_cons, List.nodup_cons, List.mem_map, not_exists, not_and] at h
    simp only [List.mem_cons] at ha hb
    rcases ha with rfl | ha <;> rcases hb with rfl | hb
    · rfl
    · exact absurd e.symm (h.1 b hb)
    · exact absurd e (h.1 a ha)
    · exact ih h.2 ha hb

theorem TblInv.val_range {start : Nat} {tbl : List (Nat × Nat)} (h : TblInv start tbl) {x v : Nat}
    (hm : (x, v) ∈ tbl) : start ≤ v ∧ v < start + tbl.length := by
  have : v ∈ tbl.map (·.2) := List.mem_map.mpr ⟨(x, v), hm, rfl⟩
  rw [h.vals] at this
  simpa [List.mem_range'_1] using this

theorem TblInv.tidx_range {start : Nat} {tbl : List (Nat × Nat)} (h : TblInv start tbl) {x : Nat}
    (hx : x ∈ tbl.map (·.1)) : start ≤ tidx tbl x ∧ tidx tbl x < start + tbl.length := by
  have := (lookup_isSome_iff_mem_keys tbl x).mpr hx
  obtain ⟨v, hv⟩ := Option.isSome_iff_exists.mp this
  unfold tidx; rw [hv]
  exact h.val_range (lookup_mem tbl x v hv)

theorem TblInv.tidx_inj {start : Nat} {tbl : List (Nat × Nat)} (h : TblInv start tbl) {x y : Nat}
    (hx : x ∈ tbl.map (·.1)) (hy : y ∈ tbl.map (·.1)) (e : tidx tbl x = tidx tbl y) : x = y := by
  obtain ⟨v, hv⟩ := Option.isSome_iff_exists.mp ((lookup_isSome_iff_mem_keys tbl x).mpr hx)
  obtain ⟨w, hw⟩ := Option.isSome_iff_exists.mp ((lookup_isSome_iff_mem_keys tbl y).mpr hy)
  unfold tidx at e; rw [hv, hw] at e
  simp only [Option.getD_some] at e
  subst e
  have hnd : (tbl.map (·.2)).Nodup := by rw [h.vals]; exact List.nodup_range' 1
  have := inj_of_nodup_map (·.2) tbl hnd (lookup_mem tbl x v hv) (lookup_mem tbl y v hw) rfl
  simpa using congrArg Prod.fst this

theorem numberRow_spec (start : Nat) (row : List Nat) (tbl : List (Nat × Nat)) (h : TblInv start tbl) :
    ∃ ext, (numberRow row (tbl, start + tbl.length)).1 = tbl ++ ext ∧
      (numberRow row (tbl, start + tbl.length)).2 = start + (tbl ++ ext).length ∧
      TblInv start (tbl ++ ext) ∧ (∀ x ∈ row, x ∈ (tbl ++ ext).map (·.1)) ∧
      (∀ k ∈ ext.map (·.1), k ∈ row) := by
  induction row generalizing tbl with
  | nil => exact ⟨[], by simp [numberRow], by simp [numberRow], by simpa using h, by simp, by simp⟩
  | cons a rest ih =>
    unfold numberRow
    simp only [List.foldl_cons]
    by_cases ha : (tbl.lookup a).isSome
    · simp only [ha, if_true]
      obtain ⟨ext, e1, e2, e3, e4, e5⟩ := ih tbl h
      refine ⟨ext, e1, e2, e3, ?_, ?_⟩
      · intro x hx
        simp only [List.mem_cons] at hx
        rcases hx with rfl | hx
        · have := (lookup_isSome_iff_mem_keys tbl x).mp ha
          simp only [List.map_append, List.mem_append]; left; exact this
        · exact e4 x hx
      · intro k hk; simp only [List.mem_cons]; right; exact e5 k hk
    · simp only [ha]
      have hnk : a ∉ tbl.map (·.1) := fun hm => ha ((lookup_isSome_iff_mem_keys tbl a).mpr hm)
      have h1 : TblInv start (tbl ++ [(a, start + tbl.length)]) := by
        constructor
        · simp only [List.map_append, List.map_cons, List.map_nil]
          rw [List.nodup_append]
          refine ⟨h.keys, by simp, ?_⟩
          intro x hx y hy
          simp only [List.mem_singleton] at hy
          subst hy; intro e; subst e; exact hnk hx
        · simp only [List.map_append, List.map_cons, List.map_nil, List.length_append,
            List.length_cons, List.length_nil, h.vals]
          rw [List.range'_concat]; simp
      have hlen : start + tbl.length + 1 = start + (tbl ++ [(a, start + tbl.length)]).length := by
        simp; omega
      rw [hlen]
      obtain ⟨ext, e1, e2, e3, e4, e5⟩ := ih (tbl ++ [(a, start + tbl.length)]) h1
      refine ⟨(a, start + tbl.length) :: ext, ?_, ?_, ?_, ?_, ?_⟩
      · simpa [numberRow] using e1
      · simpa [numberRow] using e2
      · simpa using e3
      · intro x hx
        simp only [List.mem_cons] at hx
        rcases hx with rfl | hx
        · simp
        · simpa using e4 x hx
      · intro k hk
        simp only [List.map_cons, List.mem_cons] at hk ⊢
        rcases hk with rfl | hk
        · left; rfl
        · right; exact e5 k hk

theorem tidx_append_of_mem (t1 t2 : List (Nat × Nat)) (x : Nat) (h : x ∈ t1.map (·.1)) :
    tidx (t1 ++ t2) x = tidx t1 x := by
  unfold tidx; rw [lookup_append_of_mem t1 t2 x h]

theorem reindexRows_spec (start : Nat) (rows : List (List Nat)) :
    ∀ (out0 : List (List Nat)) (tbl : List (Nat × Nat)), TblInv start tbl →
    ∃ ext, (reindexRows rows (out0, tbl, start + tbl.length)).2.1 = tbl ++ ext ∧
      TblInv start (tbl ++ ext) ∧
      (reindexRows rows (out0, tbl, start + tbl.length)).1 =
        out0 ++ rows.map (fun row => row.map (tidx (tbl ++ ext))) ∧
      (∀ row ∈ rows, ∀ x ∈ row, x ∈ (tbl ++ ext).map (·.1)) ∧
      (∀ k ∈ ext.map (·.1), ∃ row ∈ rows, k ∈ row) := by
  induction rows with
  | nil =>
    intro out0 tbl h
    exact ⟨[], by simp [reindexRows], by simpa using h, by simp [reindexRows], by simp, by simp⟩
  | cons row rest ih =>
    intro out0 tbl h
    obtain ⟨ext1, a1, a2, a3, a4, a5⟩ := numberRow_spec start row tbl h
    unfold reindexRows
    simp only [List.foldl_cons]
    rw [a1, a2]
    obtain ⟨ext2, b1, b2, b3, b4, b5⟩ := ih (out0 ++ [row.map (fun x => ((tbl ++ ext1).lookup x).getD 0)])
      (tbl ++ ext1) a3
    unfold reindexRows at b1 b3
    refine ⟨ext1 ++ ext2, ?_, ?_, ?_, ?_, ?_⟩
    · rw [b1]; simp
    · simpa using b2
    · rw [b3]
      simp only [List.map_cons, List.append_assoc, List.singleton_append]
      congr 2
      apply List.map_congr_left
      intro x hx
      have := tidx_append_of_mem (tbl ++ ext1) ext2 x (a4 x hx)
      simp only [tidx, List.append_assoc] at this
      exact this.symm
    · intro r hr x hx
      simp only [List.mem_cons] at hr
      rcases hr with rfl | hr
      · have := a4 x hx
        simp only [List.map_append, List.mem_append] at this ⊢
        rcases this with h1 | h1
        · left; exact h1
        · right; left; exact h1
      · have := b4 r hr x hx
        simpa using this
    · intro k hk
      simp only [List.map_append, List.mem_append] at hk
      rcases hk with hk | hk
      · exact ⟨row, by simp, a5 k hk⟩
      · obtain ⟨r, hr, hkr⟩ := b5 k hk
        exact ⟨r, by simp [hr], hkr⟩

theorem getD_append' {α : Type} (l1 l2 : List α) (i : Nat) (d : α) :
    (l1 ++ l2).getD i d = if i < l1.length then l1.getD i d else l2.getD (i - l1.length) d := by
  simp only [List.getD_eq_getElem?_getD, List.getElem?_append]
  split <;> rfl

theorem getD_map' {α β : Type} (f : α → β) (l : List α) (i : Nat) (d : α) (d' : β) (h : i < l.length) :
    (l.map f).getD i d' = f (l.getD i d) := by
  simp only [List.getD_eq_getElem?_getD, List.getElem?_map, List.getElem?_eq_getElem h]
  rfl

/-- shape of `_flow_network_for(servermap)` -/
theorem flowNetworkFor_spec (sm : SetMap) :
    ∃ (m : Nat) (β : Nat → Nat),
      (flowNetworkFor sm).length = sm.length + m + 2 ∧
      adj (flowNetworkFor sm) 0 = List.range' 1 sm.length ∧
      (∀ j, j < sm.length → adj (flowNetworkFor sm) (j + 1) = ((sm.map (·.2)).getD j []).map β) ∧
      (∀ s, sm.length + 1 ≤ s → s ≤ sm.length + m → adj (flowNetworkFor sm) s = [sm.length + m + 1]) ∧
      adj (flowNetworkFor sm) (sm.length + m + 1) = [] ∧
      (∀ row ∈ sm.map (·.2), ∀ x ∈ row, sm.length + 1 ≤ β x ∧ β x ≤ sm.length + m) ∧
      (∀ row ∈ sm.map (·.2), ∀ row' ∈ sm.map (·.2), ∀ x ∈ row, ∀ y ∈ row', β x = β y → x = y) := by
  have h0 : TblInv (1 + sm.length) [] := ⟨by simp, by simp⟩
  obtain ⟨ext, b1, b2, b3, b4, _⟩ := reindexRows_spec (1 + sm.length) (sm.map (·.2)) [] [] h0
  simp only [List.length_nil, Nat.add_zero, List.nil_append] at b1 b2 b3 b4
  have hrl : (sm.map (·.2)).length = sm.length := by simp
  have hout : (reindexRows (sm.map (·.2)) ([], [], 1 + sm.length)).1.length = sm.length := by
    rw [b3]; simp
  have hfst : ((List.range' 1 sm.length).zip (reindexRows (sm.map (·.2)) ([], [], 1 + sm.length)).1).map (·.1)
      = List.range' 1 sm.length := by
    apply List.map_fst_zip; simp [hout]
  have hsnd : ((List.range' 1 sm.length).zip (reindexRows (sm.map (·.2)) ([], [], 1 + sm.length)).1).map (·.2)
      = (sm.map (·.2)).map (fun row => row.map (tidx ext)) := by
    rw [← b3]; apply List.map_snd_zip; simp [hout]
  have hzl : ((List.range' 1 sm.length).zip (reindexRows (sm.map (·.2)) ([], [], 1 + sm.length)).1).length
      = sm.length := by simp [hout]
  have hg : flowNetworkFor sm = [List.range' 1 sm.length] ++
      (sm.map (·.2)).map (fun row => row.map (tidx ext)) ++
      List.replicate ext.length [sm.length + ext.length + 1] ++ [[]] := by
    unfold flowNetworkFor reindex
    simp only [hrl]
    rw [hfst, hsnd, hzl, b1]
  refine ⟨ext.length, tidx ext, ?_, ?_, ?_, ?_, ?_, ?_, ?_⟩
  · rw [hg]; simp; omega
  · rw [hg]; simp [adj, List.getD_eq_getElem?_getD]
  · intro j hj
    rw [hg]
    simp only [adj, List.append_assoc, getD_append', List.length_cons, List.length_nil,
      List.length_map]
    rw [if_neg (by omega), if_pos (by omega)]
    have : j + 1 - (0 + 1) = j := by omega
    rw [this]
    exact getD_map' _ _ j [] [] (by simpa using hj)
  · intro s hs1 hs2
    rw [hg]
    simp only [adj, List.append_assoc, getD_append', List.length_cons, List.length_nil,
      List.length_map, List.length_replicate]
    rw [if_neg (by omega), if_neg (by omega), if_pos (by omega), getD_replicate, if_pos (by omega)]
  · rw [hg]
    simp only [adj, List.append_assoc, getD_append', List.length_cons, List.length_nil,
      List.length_map, List.length_replicate]
    rw [if_neg (by omega), if_neg (by omega), if_neg (by omega)]
    have : sm.length + ext.length + 1 - (0 + 1) - sm.length - ext.length = 0 := by omega
    rw [this]; rfl
  · intro row hrow x hx
    have := b2.tidx_range (b4 row hrow x hx)
    omega
  · intro row hrow row' hrow' x hx y hy e
    exact b2.tidx_inj (b4 row hrow x hx) (b4 row' hrow' y hy) e

end Tahoe.Happiness
