import Tahoe.Happiness.LemmasKonig
import Tahoe.Happiness.LemmasReindex
/-! Assembly for C08: `servers_of_happiness` from a servermap, and from a sharemap. -/
namespace Tahoe.Happiness
attribute [-simp] List.getD_eq_getElem?_getD

theorem getD_map_getElem {α β : Type} (f : α → β) (l : List α) (j : Nat) (d : β) (h : j < l.length) :
    (l.map f).getD j d = f l[j] := by
  simp only [List.getD_eq_getElem?_getD, List.getElem?_map, List.getElem?_eq_getElem h]
  rfl

theorem exists_preimage_list {A B : Type} (φ : A → B) (E1 : List A) (M : List B)
    (h : ∀ b ∈ M, ∃ a ∈ E1, φ a = b) : ∃ M1 : List A, (∀ a ∈ M1, a ∈ E1) ∧ M1.map φ = M := by
  induction M with
  | nil => exact ⟨[], by simp, rfl⟩
  | cons b rest ih =>
    obtain ⟨a, ha, hab⟩ := h b (by simp)
    obtain ⟨M1, h1, h2⟩ := ih (fun b' hb' => h b' (by simp [hb']))
    refine ⟨a :: M1, ?_, by simp [hab, h2]⟩
    intro x hx
    simp only [List.mem_cons] at hx
    rcases hx with rfl | hx
    · exact ha
    · exact h1 x hx

theorem mem_relOfServermap (sm : SetMap) (p x : Nat) :
    (p, x) ∈ relOfServermap sm ↔ ∃ e ∈ sm, e.1 = p ∧ x ∈ e.2 := by
  simp only [relOfServermap, List.mem_flatMap, List.mem_map, Prod.mk.injEq]
  constructor
  · rintro ⟨e, he, s, hs, rfl, rfl⟩; exact ⟨e, he, rfl, hs⟩
  · rintro ⟨e, he, rfl, hx⟩; exact ⟨e, he, x, hx, rfl, rfl⟩

theorem idxOf_inj {l : List Nat} {a b : Nat} (ha : a ∈ l) (hb : b ∈ l)
    (e : l.idxOf a = l.idxOf b) : a = b := by
  have h1 := List.idxOf_lt_length_iff.mpr ha
  have h2 := List.idxOf_lt_length_iff.mpr hb
  have := List.getElem_idxOf h1
  rw [← this]
  simp only [e]
  exact List.getElem_idxOf h2

/-- `servers_of_happiness` after `shares_by_server`: for every servermap (distinct servers, each
share list duplicate-free, any iteration order) the value is the size of a maximum matching of the
server/share relation. -/
theorem sohOfServermap_spec (sm : SetMap) (hk : (sm.map (·.1)).Nodup) (hr : ∀ e ∈ sm, e.2.Nodup) :
    ∃ k : Nat, sohOfServermap sm = (k : Int) ∧ IsMaxMatchingSize (relOfServermap sm) k := by
  obtain ⟨m, β, g1, g2, g3, g4, g5, g6, g7⟩ := flowNetworkFor_spec sm
  generalize hg : flowNetworkFor sm = g at *
  have hrow : ∀ j (hj : j < sm.length), (sm.map (·.2)).getD j [] = sm[j].2 :=
    fun j hj => getD_map_getElem _ sm j [] hj
  have hL : Layered g sm.length m := by
    constructor
    · exact g1
    · intro v; rw [g2]; simp only [List.mem_range'_1]; omega
    · rw [g2]; exact List.nodup_range' 1
    · intro i h1 h2 v hv
      have := g3 (i - 1) (by omega)
      rw [show i - 1 + 1 = i by omega, hrow (i - 1) (by omega)] at this
      rw [this] at hv
      obtain ⟨x, hx, rfl⟩ := List.mem_map.mp hv
      exact g6 _ (List.mem_map.mpr ⟨sm[i - 1], List.getElem_mem _, rfl⟩) x hx
    · intro i h1 h2
      have := g3 (i - 1) (by omega)
      rw [show i - 1 + 1 = i by omega, hrow (i - 1) (by omega)] at this
      rw [this]
      have hnd := hr sm[i - 1] (List.getElem_mem _)
      rw [List.nodup_iff_pairwise_ne, List.pairwise_map]
      rw [List.nodup_iff_pairwise_ne] at hnd
      apply hnd.imp_of_mem
      intro a b ha hb hab e
      have hmem : sm[i - 1].2 ∈ sm.map (·.2) :=
        List.mem_map.mpr ⟨sm[i - 1], List.getElem_mem (by omega : i - 1 < sm.length), rfl⟩
      exact hab (g7 _ hmem _ hmem a ha b hb e)
    · exact g4
    · exact g5
  obtain ⟨M, hI, hval, _, hopt⟩ := maxFlowOuter_spec hL
  refine ⟨M.length, ?_, ?_, ?_⟩
  · unfold sohOfServermap; rw [hg]; exact hval
  · -- a matching of the relation with |M| edges
    let φ : Nat × Nat → Nat × Nat := fun e => ((sm.map (·.1)).idxOf e.1 + 1, β e.2)
    have hpre : ∀ b ∈ M, ∃ a ∈ relOfServermap sm, φ a = b := by
      intro b hb
      obtain ⟨h1, h2, hv⟩ := hI.sub b hb
      have hj : b.1 - 1 < sm.length := by omega
      have := g3 (b.1 - 1) hj
      rw [show b.1 - 1 + 1 = b.1 by omega, hrow (b.1 - 1) hj] at this
      rw [this] at hv
      obtain ⟨x, hx, hxv⟩ := List.mem_map.mp hv
      refine ⟨(sm[b.1 - 1].1, x), (mem_relOfServermap sm _ _).mpr ⟨sm[b.1 - 1], List.getElem_mem _, rfl, hx⟩, ?_⟩
      have hidx : (sm.map (·.1)).idxOf sm[b.1 - 1].1 = b.1 - 1 := by
        have := hk.idxOf_getElem (b.1 - 1) (by simpa using hj)
        simpa using this
      show ((sm.map (·.1)).idxOf sm[b.1 - 1].1 + 1, β x) = b
      rw [hidx, hxv]
      ext
      · simp; omega
      · rfl
    obtain ⟨M1, hsub, hmap⟩ := exists_preimage_list φ _ M hpre
    refine ⟨M1, ⟨hsub, ?_⟩, by rw [← hmap]; simp⟩
    have hp : List.Pairwise (fun a b => a.1 ≠ b.1 ∧ a.2 ≠ b.2) (M1.map φ) := by rw [hmap]; exact hI.mat
    rw [List.pairwise_map] at hp
    apply hp.imp
    intro a b hab
    exact ⟨fun e => hab.1 (by simp only [φ, e]), fun e => hab.2 (by simp only [φ, e])⟩
  · -- every matching of the relation maps to a matching of the network
    intro Ms hMs
    obtain ⟨hsub, hpair⟩ := hMs
    let φ : Nat × Nat → Nat × Nat := fun e => ((sm.map (·.1)).idxOf e.1 + 1, β e.2)
    have hedge : ∀ e ∈ Ms, ∃ e' ∈ sm, e'.1 = e.1 ∧ e.2 ∈ e'.2 := by
      intro e he
      exact (mem_relOfServermap sm e.1 e.2).mp (hsub e he)
    have hlen : (Ms.map φ).length ≤ M.length := by
      apply hopt
      · show List.Pairwise _ _
        rw [List.pairwise_map]
        apply hpair.imp_of_mem
        intro a b ha hb hab
        obtain ⟨ea, hea, ea1, ea2⟩ := hedge a ha
        obtain ⟨eb, heb, eb1, eb2⟩ := hedge b hb
        constructor
        · intro e
          simp only [φ, Nat.add_right_cancel_iff] at e
          have h1 : a.1 ∈ sm.map (·.1) := List.mem_map.mpr ⟨ea, hea, ea1⟩
          have h2 : b.1 ∈ sm.map (·.1) := List.mem_map.mpr ⟨eb, heb, eb1⟩
          exact hab.1 (idxOf_inj h1 h2 e)
        · intro e
          simp only [φ] at e
          exact hab.2 (g7 _ (List.mem_map.mpr ⟨ea, hea, rfl⟩) _ (List.mem_map.mpr ⟨eb, heb, rfl⟩)
            a.2 ea2 b.2 eb2 e)
      · intro e he
        obtain ⟨a, ha, rfl⟩ := List.mem_map.mp he
        obtain ⟨ea, hea, ea1, ea2⟩ := hedge a ha
        have hmemk : a.1 ∈ sm.map (·.1) := List.mem_map.mpr ⟨ea, hea, ea1⟩
        have hj : (sm.map (·.1)).idxOf a.1 < sm.length := by
          have := List.idxOf_lt_length_iff.mpr hmemk; simpa using this
        have hkey : sm[(sm.map (·.1)).idxOf a.1].1 = a.1 := by
          have := List.getElem_idxOf (List.idxOf_lt_length_iff.mpr hmemk)
          rw [List.getElem_map] at this
          exact this
        have hsame : sm[(sm.map (·.1)).idxOf a.1] = ea :=
          inj_of_nodup_map (·.1) sm hk (List.getElem_mem _) hea (by rw [hkey, ea1])
        refine ⟨by simp [φ], by simp only [φ]; omega, ?_⟩
        show β a.2 ∈ adj g ((sm.map (·.1)).idxOf a.1 + 1)
        rw [g3 _ hj, hrow _ hj, hsame]
        exact List.mem_map.mpr ⟨a.2, ea2, rfl⟩
    simpa using hlen

end Tahoe.Happiness
