import Tahoe.Happiness.LemmasBasic
/-! Soundness and completeness of the transcribed `bfs`: loop invariant, fuel sufficiency, and the
resulting specification of the predecessor table. -/
namespace Tahoe.Happiness
attribute [-simp] List.getD_eq_getElem?_getD

/-- all edges of the graph point to existing vertices -/
def InRange (g : Graph) : Prop := ∀ u v, v ∈ adj g u → v < g.length

/-- loop invariant of `bfs`; `cur` is the vertex whose neighbours are being scanned (popped from
the queue but not yet black), if any -/
structure BfsInv (g : Graph) (s : Nat) (cur : Option Nat) (st : Bfs) : Prop where
  clen : st.color.length = g.length
  plen : st.pred.length = g.length
  dlen : st.dist.length = g.length
  qgray : ∀ q ∈ st.queue, st.color.getD q 0 = 1
  qnd : st.queue.Nodup
  col : ∀ v, st.color.getD v 0 ≤ 2
  curq : ∀ n, cur = some n → n ∉ st.queue
  grayq : ∀ v, st.color.getD v 0 = 1 → v ∈ st.queue ∨ cur = some v
  black : ∀ u, st.color.getD u 0 = 2 → ∀ v ∈ adj g u, st.color.getD v 0 ≠ 0
  predE : ∀ v u, st.pred.getD v none = some u →
    v ∈ adj g u ∧ st.color.getD u 0 ≠ 0 ∧ st.color.getD v 0 ≠ 0 ∧
    st.dist.getD v (-1) = st.dist.getD u (-1) + 1
  vis : ∀ v, st.color.getD v 0 ≠ 0 → v = s ∨ (st.pred.getD v none).isSome
  preds : st.pred.getD s none = none
  cols : st.color.getD s 0 ≠ 0
  dists : st.dist.getD s (-1) = 0
  distpos : ∀ v, st.color.getD v 0 ≠ 0 →
    0 ≤ st.dist.getD v (-1) ∧ st.dist.getD v (-1) + 1 ≤ ((st.color.countP (· != 0) : Nat) : Int)

theorem countP_set_white (color : List Nat) (v : Nat) (hv : v < color.length)
    (hw : color.getD v 0 = 0) : (color.set v 1).countP (· != 0) = color.countP (· != 0) + 1 := by
  rw [List.countP_set hv]
  have : color[v] = 0 := by
    have := hw; simp only [List.getD_eq_getElem?_getD, List.getElem?_eq_getElem hv] at this; simpa using this
  simp [this]

theorem visit_inv (g : Graph) (s n : Nat) (st : Bfs) (v : Nat)
    (h : BfsInv g s (some n) st) (hn : st.color.getD n 0 = 1) (hv : v ∈ adj g n) :
    BfsInv g s (some n) (Bfs.visit n st v) := by
  unfold Bfs.visit
  split
  · rename_i hc
    obtain ⟨hvlt, hwhite⟩ := hc
    have hnv : n ≠ v := by intro e; subst e; omega
    have hsv : s ≠ v := by intro e; subst e; exact h.cols hwhite
    have hcnt := countP_set_white st.color v hvlt hwhite
    have hvp : v < st.pred.length := by rw [h.plen, ← h.clen]; exact hvlt
    have hvd : v < st.dist.length := by rw [h.dlen, ← h.clen]; exact hvlt
    constructor
    · simp [h.clen]
    · simp [h.plen]
    · simp [h.dlen]
    · intro q hq
      simp only [List.mem_append, List.mem_singleton] at hq
      simp only [getD_set]
      rcases hq with hq | rfl
      · have := h.qgray q hq; split <;> simp_all
      · simp [hvlt]
    · rw [List.nodup_append]
      refine ⟨h.qnd, by simp, ?_⟩
      intro a ha b hb
      simp only [List.mem_singleton] at hb
      subst hb
      intro e; subst e
      have := h.qgray a ha; omega
    · intro x
      simp only [getD_set]
      have := h.col x
      split <;> omega
    · intro m hm
      simp only [Option.some.injEq] at hm
      subst hm
      simp only [List.mem_append, List.mem_singleton, not_or]
      exact ⟨h.curq n rfl, hnv⟩
    · intro x hx
      simp only [getD_set] at hx
      by_cases hxv : v = x
      · subst hxv; left; simp
      · simp only [hxv, false_and, if_false] at hx
        rcases h.grayq x hx with h1 | h1
        · left; simp [h1]
        · right; exact h1
    · intro u hu w hw
      simp only [getD_set] at hu ⊢
      by_cases huv : v = u
      · subst huv; simp [hvlt] at hu
      · simp only [huv, false_and, if_false] at hu
        have := h.black u hu w hw
        split <;> simp_all
    · intro x u hx
      simp only [getD_set] at hx ⊢
      by_cases hxv : v = x
      · subst hxv
        simp only [true_and, hvp, if_true, Option.some.injEq] at hx
        subst hx
        simp [hvlt, hvd, Ne.symm hnv, hn, hv]
      · simp only [hxv, false_and, if_false] at hx
        obtain ⟨a, b, c, d⟩ := h.predE x u hx
        have huv : v ≠ u := by intro e; subst e; exact b hwhite
        simp [hxv, huv, a, b, c, d]
    · intro x hx
      simp only [getD_set] at hx ⊢
      by_cases hxv : v = x
      · subst hxv; right; simp [hvp]
      · simp only [hxv, false_and, if_false] at hx ⊢
        exact h.vis x hx
    · simp only [getD_set]; simp [Ne.symm hsv, h.preds]
    · simp only [getD_set]; have := h.cols; split <;> simp_all
    · simp only [getD_set]; simp [Ne.symm hsv, h.dists]
    · intro x hx
      simp only [getD_set] at hx ⊢
      rw [hcnt]
      have hdn := h.distpos n (by omega)
      by_cases hxv : v = x
      · subst hxv
        simp only [true_and, hvd, if_true]
        omega
      · simp only [hxv, false_and, if_false] at hx ⊢
        have := h.distpos x hx
        omega
  · exact h

theorem visit_color_mono (n : Nat) (st : Bfs) (v x : Nat) (hx : st.color.getD x 0 ≠ 0) :
    (Bfs.visit n st v).color.getD x 0 = st.color.getD x 0 := by
  unfold Bfs.visit
  split
  · rename_i hc
    simp only [getD_set]
    have : v ≠ x := by intro e; subst e; exact hx hc.2
    simp [this]
  · rfl

theorem visit_nonwhite (n : Nat) (st : Bfs) (v : Nat) (hv : v < st.color.length) :
    (Bfs.visit n st v).color.getD v 0 ≠ 0 := by
  unfold Bfs.visit
  split
  · simp [getD_set, hv]
  · rename_i hc; intro h; exact hc ⟨hv, h⟩

theorem visit_color_length (n : Nat) (st : Bfs) (v : Nat) :
    (Bfs.visit n st v).color.length = st.color.length := by
  unfold Bfs.visit; split <;> simp

theorem visitFold (g : Graph) (s n : Nat) (l : List Nat) (st : Bfs)
    (h : BfsInv g s (some n) st) (hn : st.color.getD n 0 = 1) (hl : ∀ v ∈ l, v ∈ adj g n)
    (hr : InRange g) :
    BfsInv g s (some n) (l.foldl (Bfs.visit n) st) ∧
    (l.foldl (Bfs.visit n) st).color.getD n 0 = 1 ∧
    (∀ x, st.color.getD x 0 ≠ 0 → (l.foldl (Bfs.visit n) st).color.getD x 0 ≠ 0) ∧
    (∀ v ∈ l, (l.foldl (Bfs.visit n) st).color.getD v 0 ≠ 0) := by
  induction l generalizing st with
  | nil => simp [h, hn]
  | cons v rest ih =>
    simp only [List.foldl_cons]
    have hv := hl v (by simp)
    have h1 := visit_inv g s n st v h hn hv
    have hn1 : (Bfs.visit n st v).color.getD n 0 = 1 := by
      rw [visit_color_mono n st v n (by omega)]; exact hn
    obtain ⟨a, b, c, d⟩ := ih (Bfs.visit n st v) h1 hn1 (fun w hw => hl w (by simp [hw]))
    refine ⟨a, b, ?_, ?_⟩
    · intro x hx
      apply c
      rw [visit_color_mono n st v x hx]; exact hx
    · intro w hw
      simp only [List.mem_cons] at hw
      rcases hw with rfl | hw
      · apply c
        apply visit_nonwhite
        rw [h.clen]; exact hr n w hv
      · exact d w hw

theorem step_inv (g : Graph) (s n : Nat) (q : List Nat) (st : Bfs) (hr : InRange g)
    (h : BfsInv g s none st) (hq : st.queue = n :: q) :
    BfsInv g s none (Bfs.step g st n q) := by
  have hn : st.color.getD n 0 = 1 := h.qgray n (by simp [hq])
  have h0 : BfsInv g s (some n) { st with queue := q } := by
    constructor
    · exact h.clen
    · exact h.plen
    · exact h.dlen
    · intro x hx; exact h.qgray x (by simp [hq, hx])
    · have := h.qnd; rw [hq] at this; exact (List.nodup_cons.mp this).2
    · exact h.col
    · intro m hm
      simp only [Option.some.injEq] at hm
      subst hm
      have := h.qnd; rw [hq] at this; exact (List.nodup_cons.mp this).1
    · intro v hv
      rcases h.grayq v hv with h1 | h1
      · simp only [hq, List.mem_cons] at h1
        rcases h1 with rfl | h1
        · right; rfl
        · left; exact h1
      · simp at h1
    · exact h.black
    · exact h.predE
    · exact h.vis
    · exact h.preds
    · exact h.cols
    · exact h.dists
    · exact h.distpos
  obtain ⟨a, b, c, d⟩ := visitFold g s n (adj g n) { st with queue := q } h0 hn (fun v hv => hv) hr
  unfold Bfs.step
  generalize (adj g n).foldl (Bfs.visit n) { st with queue := q } = st1 at a b c d
  have hnlt : n < st1.color.length := by
    by_cases hlt : n < st1.color.length
    · exact hlt
    · rw [getD_of_le _ _ _ (Nat.le_of_not_lt hlt)] at b; omega
  have hcnt : (st1.color.set n 2).countP (· != 0) = st1.color.countP (· != 0) := by
    rw [List.countP_set hnlt]
    have : st1.color[n] = 1 := by
      have := b; simp only [List.getD_eq_getElem?_getD, List.getElem?_eq_getElem hnlt] at this; simpa using this
    simp [this]
    have : 0 < List.countP (fun x => x != 0) st1.color := by
      apply List.countP_pos_iff.mpr
      exact ⟨1, by rw [← this]; exact List.getElem_mem hnlt, by simp⟩
    omega
  constructor
  · simp [a.clen]
  · exact a.plen
  · exact a.dlen
  · intro x hx
    simp only [getD_set]
    have hx1 := a.qgray x hx
    have : n ≠ x := by
      intro e; subst e
      exact a.curq n rfl hx
    simp [this, hx1]
  · exact a.qnd
  · intro x
    simp only [getD_set]
    have := a.col x
    split <;> omega
  · intro m hm; simp at hm
  · intro v hv
    simp only [getD_set] at hv
    by_cases hnv : n = v
    · subst hnv; simp [hnlt] at hv
    · simp only [hnv, false_and, if_false] at hv
      rcases a.grayq v hv with h1 | h1
      · left; exact h1
      · simp at h1; exact absurd h1 hnv
  · intro u hu w hw
    simp only [getD_set] at hu ⊢
    by_cases hnu : n = u
    · subst hnu
      have := d w hw
      split <;> simp_all
    · simp only [hnu, false_and, if_false] at hu
      have := a.black u hu w hw
      split <;> simp_all
  · intro x u hx
    obtain ⟨p1, p2, p3, p4⟩ := a.predE x u hx
    refine ⟨p1, ?_, ?_, p4⟩
    · simp only [getD_set]; split <;> simp_all
    · simp only [getD_set]; split <;> simp_all
  · intro x hx
    apply a.vis
    simp only [getD_set] at hx
    by_cases hnx : n = x
    · subst hnx; omega
    · simpa [hnx] using hx
  · exact a.preds
  · simp only [getD_set]; have := a.cols; split <;> simp_all
  · exact a.dists
  · intro x hx
    show _ ∧ _ ≤ ((List.countP (fun x => x != 0) (st1.color.set n 2) : Nat) : Int)
    rw [hcnt]
    apply a.distpos
    simp only [getD_set] at hx
    by_cases hnx : n = x
    · subst hnx; omega
    · simpa [hnx] using hx

theorem init_inv (g : Graph) (s : Nat) (hs : s < g.length) : BfsInv g s none (bfsInit g s) := by
  have hcnt : ((List.replicate g.length 0).set s 1).countP (· != 0) = 1 := by
    rw [countP_set_white _ s (by simpa using hs) (by simp [getD_replicate, hs])]
    simp [List.countP_replicate]
  constructor
  · simp [bfsInit]
  · simp [bfsInit]
  · simp [bfsInit]
  · intro q hq; simp only [bfsInit, List.mem_singleton] at hq; subst hq
    simp [bfsInit, getD_set, hs]
  · simp [bfsInit]
  · intro x; simp only [bfsInit, getD_set, getD_replicate]; split <;> (try split) <;> omega
  · intro m hm; simp at hm
  · intro v hv
    simp only [bfsInit, getD_set, getD_replicate] at hv
    left; simp only [bfsInit, List.mem_singleton]
    split at hv
    · rename_i h; exact h.1.symm
    · split at hv <;> omega
  · intro u hu
    simp only [bfsInit, getD_set, getD_replicate] at hu
    split at hu
    · omega
    · split at hu <;> omega
  · intro v u hv
    simp only [bfsInit, getD_replicate] at hv
    split at hv <;> simp at hv
  · intro v hv
    simp only [bfsInit, getD_set, getD_replicate] at hv
    left
    split at hv
    · rename_i h; exact h.1.symm
    · split at hv <;> omega
  · simp only [bfsInit, getD_replicate]; split <;> rfl
  · simp [bfsInit, getD_set, hs]
  · simp [bfsInit, getD_set, hs]
  · intro v hv
    simp only [bfsInit, getD_set, getD_replicate] at hv ⊢
    rw [hcnt]
    split at hv
    · rename_i h; have : v < g.length := h.1 ▸ hs
      simp [h.1, this]
    · split at hv <;> omega

theorem bfsLoop_inv (g : Graph) (s : Nat) (hr : InRange g) (fuel : Nat) (st : Bfs)
    (h : BfsInv g s none st) : BfsInv g s none (bfsLoop g fuel st) := by
  induction fuel generalizing st with
  | zero => exact h
  | succ k ih =>
    unfold bfsLoop
    split
    · exact h
    · rename_i n q hq
      exact ih _ (step_inv g s n q st hr h hq)

/-- number of vertices that are not black -/
def nonBlack (c : List Nat) : Nat := c.countP (· != 2)

theorem visit_nonBlack (n : Nat) (st : Bfs) (v : Nat) :
    nonBlack (Bfs.visit n st v).color = nonBlack st.color := by
  unfold Bfs.visit
  split
  · rename_i hc
    obtain ⟨hv, hw⟩ := hc
    have h0 : st.color[v] = 0 := by
      have := hw; simp only [List.getD_eq_getElem?_getD, List.getElem?_eq_getElem hv] at this; simpa using this
    simp only [nonBlack]
    rw [List.countP_set hv]
    have : 0 < List.countP (fun x => x != 2) st.color := by
      apply List.countP_pos_iff.mpr
      exact ⟨0, by rw [← h0]; exact List.getElem_mem hv, by simp⟩
    simp [h0]; omega
  · rfl

theorem visitFold_nonBlack (n : Nat) (l : List Nat) (st : Bfs) :
    nonBlack (l.foldl (Bfs.visit n) st).color = nonBlack st.color := by
  induction l generalizing st with
  | nil => rfl
  | cons v rest ih => simp only [List.foldl_cons]; rw [ih, visit_nonBlack]

theorem step_nonBlack (g : Graph) (s n : Nat) (q : List Nat) (st : Bfs) (hr : InRange g)
    (h : BfsInv g s none st) (hq : st.queue = n :: q) :
    nonBlack (Bfs.step g st n q).color + 1 = nonBlack st.color := by
  have hn : st.color.getD n 0 = 1 := h.qgray n (by simp [hq])
  have h0 : BfsInv g s (some n) { st with queue := q } := by
    constructor
    · exact h.clen
    · exact h.plen
    · exact h.dlen
    · intro x hx; exact h.qgray x (by simp [hq, hx])
    · have := h.qnd; rw [hq] at this; exact (List.nodup_cons.mp this).2
    · exact h.col
    · intro m hm
      simp only [Option.some.injEq] at hm
      subst hm
      have := h.qnd; rw [hq] at this; exact (List.nodup_cons.mp this).1
    · intro v hv
      rcases h.grayq v hv with h1 | h1
      · simp only [hq, List.mem_cons] at h1
        rcases h1 with rfl | h1
        · right; rfl
        · left; exact h1
      · simp at h1
    · exact h.black
    · exact h.predE
    · exact h.vis
    · exact h.preds
    · exact h.cols
    · exact h.dists
    · exact h.distpos
  obtain ⟨a, b, c, d⟩ := visitFold g s n (adj g n) { st with queue := q } h0 hn (fun v hv => hv) hr
  have e := visitFold_nonBlack n (adj g n) { st with queue := q }
  unfold Bfs.step
  generalize (adj g n).foldl (Bfs.visit n) { st with queue := q } = st1 at a b c d e
  have hnlt : n < st1.color.length := by
    by_cases hlt : n < st1.color.length
    · exact hlt
    · rw [getD_of_le _ _ _ (Nat.le_of_not_lt hlt)] at b; omega
  have h1 : st1.color[n] = 1 := by
    have := b; simp only [List.getD_eq_getElem?_getD, List.getElem?_eq_getElem hnlt] at this; simpa using this
  show nonBlack (st1.color.set n 2) + 1 = nonBlack st.color
  rw [← show nonBlack st1.color = nonBlack st.color from e]
  simp only [nonBlack]
  rw [List.countP_set hnlt]
  have : 0 < List.countP (fun x => x != 2) st1.color := by
    apply List.countP_pos_iff.mpr
    exact ⟨1, by rw [← h1]; exact List.getElem_mem hnlt, by simp⟩
  simp [h1]; omega

theorem bfsLoop_done (g : Graph) (s : Nat) (hr : InRange g) (fuel : Nat) (st : Bfs)
    (h : BfsInv g s none st) (hf : nonBlack st.color ≤ fuel) : (bfsLoop g fuel st).queue = [] := by
  induction fuel generalizing st with
  | zero =>
    unfold bfsLoop
    match hq : st.queue with
    | [] => rfl
    | n :: q =>
      exfalso
      have hn : st.color.getD n 0 = 1 := h.qgray n (by simp [hq])
      have hnlt : n < st.color.length := by
        by_cases hlt : n < st.color.length
        · exact hlt
        · rw [getD_of_le _ _ _ (Nat.le_of_not_lt hlt)] at hn; omega
      have h1 : st.color[n] = 1 := by
        have := hn; simp only [List.getD_eq_getElem?_getD, List.getElem?_eq_getElem hnlt] at this; simpa using this
      have : 0 < nonBlack st.color := by
        apply List.countP_pos_iff.mpr
        exact ⟨1, by rw [← h1]; exact List.getElem_mem hnlt, by simp⟩
      omega
  | succ k ih =>
    unfold bfsLoop
    split
    · assumption
    · rename_i n q hq
      apply ih _ (step_inv g s n q st hr h hq)
      have := step_nonBlack g s n q st hr h hq
      omega

/-- What `bfs` guarantees about its final arrays. -/
structure BfsSpec (g : Graph) (s : Nat) (st : Bfs) : Prop where
  plen : st.pred.length = g.length
  src : st.color.getD s 0 ≠ 0
  closed : ∀ u v, st.color.getD u 0 ≠ 0 → v ∈ adj g u → st.color.getD v 0 ≠ 0
  predE : ∀ v u, st.pred.getD v none = some u →
    v ∈ adj g u ∧ st.color.getD u 0 ≠ 0 ∧ st.color.getD v 0 ≠ 0 ∧
    st.dist.getD v (-1) = st.dist.getD u (-1) + 1
  vis : ∀ v, st.color.getD v 0 ≠ 0 → v = s ∨ (st.pred.getD v none).isSome
  preds : st.pred.getD s none = none
  dists : st.dist.getD s (-1) = 0
  distpos : ∀ v, st.color.getD v 0 ≠ 0 →
    0 ≤ st.dist.getD v (-1) ∧ st.dist.getD v (-1) + 1 ≤ (g.length : Int)

theorem bfsRun_spec (g : Graph) (s : Nat) (hr : InRange g) (hs : s < g.length) :
    BfsSpec g s (bfsRun g s) := by
  have h0 := init_inv g s hs
  have hinv := bfsLoop_inv g s hr g.length _ h0
  have hdone := bfsLoop_done g s hr g.length _ h0 (by
    simp only [nonBlack]
    calc _ ≤ (bfsInit g s).color.length := List.countP_le_length
      _ = g.length := by simp [bfsInit])
  unfold bfsRun
  generalize bfsLoop g g.length (bfsInit g s) = st at hinv hdone
  constructor
  · exact hinv.plen
  · exact hinv.cols
  · intro u v hu hv
    have hc := hinv.col u
    have : st.color.getD u 0 = 2 := by
      by_cases h1 : st.color.getD u 0 = 1
      · rcases hinv.grayq u h1 with h | h
        · rw [hdone] at h; simp at h
        · simp at h
      · omega
    exact hinv.black u this v hv
  · exact hinv.predE
  · exact hinv.vis
  · exact hinv.preds
  · exact hinv.dists
  · intro v hv
    obtain ⟨a, b⟩ := hinv.distpos v hv
    refine ⟨a, ?_⟩
    have : st.color.countP (· != 0) ≤ g.length := by
      rw [← hinv.clen]; exact List.countP_le_length
    omega

end Tahoe.Happiness
