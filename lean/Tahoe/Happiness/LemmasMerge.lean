import Tahoe.Happiness.LemmasPlacement2
/-! `merge_servers`: the merged sharemap holds exactly the pairs of the sharemap and of the trackers. -/
namespace Tahoe.Happiness

theorem mem_rel_iff (m : SetMap) (p s : Nat) : (p, s) ∈ rel m ↔ (s, p) ∈ relOfServermap m := by
  simp only [rel, relOfServermap, List.mem_flatMap, List.mem_map, Prod.mk.injEq]
  constructor
  · rintro ⟨e, he, q, hq, rfl, rfl⟩; exact ⟨e, he, q, hq, rfl, rfl⟩
  · rintro ⟨e, he, q, hq, rfl, rfl⟩; exact ⟨e, he, q, hq, rfl, rfl⟩

theorem rel_normalise (m : SetMap) (p s : Nat) :
    (p, s) ∈ rel (m.map (fun e => (e.1, mkSet e.2))) ↔ (p, s) ∈ rel m := by
  simp only [rel, List.mem_flatMap, List.mem_map, Prod.mk.injEq]
  constructor
  · rintro ⟨e, ⟨e', he', rfl⟩, q, hq, rfl, rfl⟩
    exact ⟨e', he', q, (mem_mkSet _ q).mp hq, rfl, rfl⟩
  · rintro ⟨e, he, q, hq, rfl, rfl⟩
    exact ⟨(e.1, mkSet e.2), ⟨e, he, rfl⟩, q, (mem_mkSet _ q).mpr hq, rfl, rfl⟩

theorem mergeFold_rel (buckets : List Nat) (sid : Nat) (sm : SetMap) (p s : Nat) :
    (p, s) ∈ rel (buckets.foldl (fun sm shnum => addToSet shnum sid sm) sm) ↔
      (p = sid ∧ s ∈ buckets) ∨ (p, s) ∈ rel sm := by
  induction buckets generalizing sm with
  | nil => simp
  | cons b rest ih =>
    simp only [List.foldl_cons]
    rw [ih, mem_rel_iff (addToSet b sid sm), addToSet_rel, ← mem_rel_iff]
    simp only [List.mem_cons]
    constructor
    · rintro (⟨h1, h2⟩ | ⟨h1, h2⟩ | h)
      · left; exact ⟨h1, Or.inr h2⟩
      · left; exact ⟨h2, Or.inl h1⟩
      · right; exact h
    · rintro (⟨h1, h2 | h2⟩ | h)
      · right; left; exact ⟨h2, h1⟩
      · left; exact ⟨h1, h2⟩
      · right; right; exact h

/-- `merge_servers(servermap, upload_trackers)` relates exactly the (server, share) pairs of the
servermap and, for every tracker, the tracker's server with each of its buckets -/
theorem mergeServers_rel (m trackers : SetMap) (p s : Nat) :
    (p, s) ∈ rel (mergeServers m trackers) ↔
      (p, s) ∈ rel m ∨ ∃ t ∈ trackers, t.1 = p ∧ s ∈ t.2 := by
  unfold mergeServers
  simp only
  have hgen : ∀ (sm : SetMap), (p, s) ∈ rel (trackers.foldl
      (fun sm t => t.2.foldl (fun sm shnum => addToSet shnum t.1 sm) sm) sm) ↔
      (p, s) ∈ rel sm ∨ ∃ t ∈ trackers, t.1 = p ∧ s ∈ t.2 := by
    induction trackers with
    | nil => intro sm; simp
    | cons t rest ih =>
      intro sm
      simp only [List.foldl_cons]
      rw [ih, mergeFold_rel]
      simp only [List.mem_cons]
      constructor
      · rintro ((⟨h1, h2⟩ | h) | ⟨t', ht', h1, h2⟩)
        · right; exact ⟨t, Or.inl rfl, h1.symm, h2⟩
        · left; exact h
        · right; exact ⟨t', Or.inr ht', h1, h2⟩
      · rintro (h | ⟨t', rfl | ht', h1, h2⟩)
        · left; right; exact h
        · left; left; exact ⟨h1.symm, h2⟩
        · right; exact ⟨t', ht', h1, h2⟩
  rw [hgen, rel_normalise]

/-- `get_sharemap_of_preexisting_shares` (= the inversion loop of `shares_by_server`) relates a
server to a share exactly when `existing_shares[server]` lists the share -/
theorem preexisting_rel (existing : SetMap) (p s : Nat) :
    (p, s) ∈ rel (sharesByServer existing) ↔ (p, s) ∈ relOfServermap existing := by
  rw [mem_rel_iff, (sharesByServer_spec existing).2 (s, p), mem_rel_iff]

end Tahoe.Happiness
