import Tahoe.Happiness.LemmasKonig
/-! The copy of the Edmonds–Karp loop in `_compute_maximum_graph` (residual network rebuilt after
every edge of the path) computes the same states as the one in `servers_of_happiness`. -/
namespace Tahoe.Happiness
attribute [-simp] List.getD_eq_getElem?_getD

theorem augmentInner_fold (g : Graph) (delta : Int) (path : List (Nat × Nat)) (st : FlowState) :
    (path.foldl (fun (st : FlowState) e =>
        let f := pushEdge delta st.1 e
        let r := residualNetwork g f
        (f, r.1, r.2)) st).1 = path.foldl (pushEdge delta) st.1 ∧
    (path ≠ [] →
      (path.foldl (fun (st : FlowState) e =>
        let f := pushEdge delta st.1 e
        let r := residualNetwork g f
        (f, r.1, r.2)) st).2 =
      ((residualNetwork g (path.foldl (pushEdge delta) st.1)).1,
       (residualNetwork g (path.foldl (pushEdge delta) st.1)).2)) := by
  induction path generalizing st with
  | nil => simp
  | cons e rest ih =>
    simp only [List.foldl_cons]
    obtain ⟨h1, h2⟩ := ih (pushEdge delta st.1 e, (residualNetwork g (pushEdge delta st.1 e)).1,
      (residualNetwork g (pushEdge delta st.1 e)).2)
    refine ⟨h1, fun _ => ?_⟩
    cases rest with
    | nil => simp
    | cons e' rest' => exact h2 (by simp)

/-- on a non-empty path both variants of the round produce the same state -/
theorem augmentInner_eq_outer (g : Graph) (st : FlowState) (path : List (Nat × Nat)) (h : path ≠ []) :
    augmentInner g st path = augmentOuter g st path := by
  unfold augmentInner augmentOuter
  obtain ⟨h1, h2⟩ := augmentInner_fold g (pathDelta st.2.2 path) path st
  apply Prod.ext
  · exact h1
  · exact h2 h

section
variable {g : Graph} {n m : Nat}

theorem flowLoop_inner (hL : Layered g n m) :
    ∀ (fuel : Nat) (st : FlowState) (M : List (Nat × Nat)), LoopInv g n m st M →
      n < fuel + M.length →
      ∃ M', LoopInv g n m (flowLoop augmentInner g fuel st) M' ∧
        augmentingPathFor (flowLoop augmentInner g fuel st).2.1 = none := by
  intro fuel
  induction fuel with
  | zero =>
    intro st M hI hf
    have := matching_length_le hI.1
    omega
  | succ k ih =>
    intro st M hI hf
    unfold flowLoop
    split
    · rename_i hsome
      split
      · rename_i path hp
        obtain ⟨hF, hrg, hrf⟩ := hI
        have hp' := hp
        rw [hrg] at hp'
        have hlen : (residualNetwork g st.1).1.length = n + m + 2 := by
          rw [(residual_graph g st.1 hL.inRange).1, hL.len]
        have hne := (augPath_some _ (resid_inRange hL) (by omega) path hp').2
        obtain ⟨M', hI', hlen'⟩ := round_inv hL hF path hp'
        have hinv' : LoopInv g n m (augmentInner g st path) M' := by
          rw [augmentInner_eq_outer g st path hne]
          refine ⟨?_, rfl, rfl⟩
          simp only [augmentOuter]
          rw [hrf]; exact hI'
        exact ih _ M' hinv' (by omega)
      · rename_i hnone; rw [hnone] at hsome; simp at hsome
    · rename_i hnone
      refine ⟨M, hI, ?_⟩
      simpa using hnone

/-- the flow loop of `_compute_maximum_graph` on a layered network ends with the indicator matrix
of a maximum matching and the residual network of that flow -/
theorem maxFlowInner_spec (hL : Layered g n m) :
    ∃ M, FlowInv g n m none (maxFlowInner g).1 M ∧
      (maxFlowInner g).2.1 = (residualNetwork g (maxFlowInner g).1).1 ∧
      augmentingPathFor (maxFlowInner g).2.1 = none ∧
      ∀ M' : List (Nat × Nat), Matching M' →
        (∀ e ∈ M', 1 ≤ e.1 ∧ e.1 ≤ n ∧ e.2 ∈ adj g e.1) → M'.length ≤ M.length := by
  obtain ⟨M, hinv, hnone⟩ := flowLoop_inner hL g.length (flowInit g) [] (loopInv_init hL)
    (by rw [hL.len]; simp; omega)
  refine ⟨M, hinv.1, hinv.2.1, hnone, ?_⟩
  have : augmentingPathFor (residualNetwork g (maxFlowInner g).1).1 = none := by
    show augmentingPathFor (residualNetwork g (flowLoop augmentInner g g.length (flowInit g)).1).1 = none
    rw [← hinv.2.1]; exact hnone
  exact no_aug_optimal hL hinv.1 this

/-- what `_compute_maximum_graph` reads off the final residual network: the row of a share vertex
is `[sink]` iff the share is unmatched, otherwise it is `[i]` for the server `i` matched to it -/
theorem share_row (hL : Layered g n m) {f : Matrix} {M : List (Nat × Nat)}
    (hI : FlowInv g n m none f M) {s : Nat} (hs1 : n + 1 ≤ s) (hs2 : s ≤ n + m) :
    (s ∉ M.map (·.2) → ∀ v, v ∈ adj (residualNetwork g f).1 s → v = n + m + 1) ∧
    (∀ i, (i, s) ∈ M → ∀ v, v ∈ adj (residualNetwork g f).1 s → v = i) := by
  constructor
  · intro hfree v hv
    rcases resid_from_share hL hI hs1 hs2 hv with ⟨h, _⟩ | ⟨_, _, h⟩
    · exact h
    · exact absurd (mem_map_snd.mpr ⟨v, h⟩) hfree
  · intro i hm v hv
    rcases resid_from_share hL hI hs1 hs2 hv with ⟨_, h⟩ | ⟨_, _, h⟩
    · exact absurd (mem_map_snd.mpr ⟨i, hm⟩) h
    · have := hI.mat.snd_inj h hm rfl
      simpa using congrArg Prod.fst this

end
end Tahoe.Happiness
