import Tahoe.Happiness.Placement
/-
Model of `allmydata/immutable/upload.py: PeerSelector`, the uploader-side caller of
`share_placement`, as a state machine.  State = what the selector knows (writable peers, read-only
peers, bad peers, existing shares in dict insertion order, the number of shares to place); every
public method is an operation; `get_share_placements()` is `share_placement` of the *current*
state (the code recomputes the plan on every call).

`mark_readonly_peer` is `self.readonly_peers.add(peerid); self.peers.remove(peerid)`: for a peer
that is not writable the `add` has already happened when `remove` raises `KeyError`; the model
does the same and reports the exception.
-/
namespace Tahoe.Happiness

structure SelState where
  total : Nat
  peers : List Nat          -- set
  readonly : List Nat       -- set
  bad : List Nat            -- set
  existing : SetMap         -- dict peerid -> set(shnum), insertion order
deriving Repr

inductive SelOp where
  | addPeer (p : Nat)
  | addPeerWithShare (p sh : Nat)
  | markReadonly (p : Nat)
  | markBad (p : Nat)
  | getPlacements
deriving Repr, DecidableEq

inductive SelOut where
  | none                     -- the method returns None
  | keyError                 -- `self.peers.remove(peerid)` raised
  | plan (pl : Placement)
deriving Repr, DecidableEq

def SelState.init (total : Nat) : SelState :=
  { total := total, peers := [], readonly := [], bad := [], existing := [] }

/-- `self.existing_shares[peerid].add(shnum)` / `= set([shnum])` on the insertion-ordered dict -/
def addExisting (p sh : Nat) : SetMap → SetMap
  | [] => [(p, [sh])]
  | (k, s) :: rest => if k = p then (k, sinsert sh s) :: rest else (k, s) :: addExisting p sh rest

/-- the state after one operation (`get_share_placements` changes nothing the plan depends on) -/
def SelState.next (s : SelState) : SelOp → SelState
  | .addPeer p => { s with peers := sinsert p s.peers }
  | .addPeerWithShare p sh => { s with existing := addExisting p sh s.existing }
  | .markReadonly p =>
    { s with readonly := sinsert p s.readonly, peers := s.peers.filter (fun q => q != p) }
  | .markBad p =>
    if s.peers.contains p then
      { s with peers := s.peers.filter (fun q => q != p), bad := sinsert p s.bad }
    else if s.readonly.contains p then
      { s with readonly := s.readonly.filter (fun q => q != p), bad := sinsert p s.bad }
    else s
  | .getPlacements => s

/-- the plan `share_placement(self.peers, self.readonly_peers, set(range(total)), self.existing_shares)` -/
def SelState.plan (cfg : Cfg) (s : SelState) : Placement :=
  sharePlacement cfg s.peers s.readonly (List.range s.total) s.existing

/-- what the caller of one operation observes -/
def SelState.out (cfg : Cfg) (s : SelState) : SelOp → SelOut
  | .markReadonly p => if s.peers.contains p then .none else .keyError
  | .getPlacements => .plan (s.plan cfg)
  | _ => .none

/-- the state after a history -/
def SelState.after (s : SelState) (ops : List SelOp) : SelState := ops.foldl SelState.next s

/-- the outputs of a history, one per operation -/
def SelState.run (cfg : Cfg) : SelState → List SelOp → List SelOut
  | _, [] => []
  | s, op :: rest => s.out cfg op :: SelState.run cfg (s.next op) rest

/-- **Event "allocation failed"**: the answer to `allocate_buckets` for this server was a failure of
any kind -- an exception from the server, a lost connection, or the uploader's own 15 s query
timeout -- or `False`.  `Tahoe2ServerSelector._buckets_allocated` must then demote the server
(`mark_readonly_peer`), so that the next plan no longer counts on it as writable.  In the model the
event *is* the demotion; a timed-out query is no exception. -/
abbrev SelOp.allocationFailed (p : Nat) : SelOp := SelOp.markReadonly p

/-- **Specification of the selector's input** (what `Tahoe2ServerSelector.get_shareholders` must have
told the selector when it asks for the first plan): every server of the grid was added, the
read-only ones were demoted, and every share found on disk was booked under the server that
answered with it.  `held` is the ground truth `server -> shares on disk`.  Between later plans
the history grows by one `SelOp.allocationFailed p` for every server whose allocation failed or
timed out (and by `markBad p` for a server whose existing-shares query failed). -/
def specHistory (nsrv : Nat) (ro : List Nat) (held : SetMap) : List SelOp :=
  (List.range nsrv).map SelOp.addPeer ++ ro.map SelOp.markReadonly ++
    (held.flatMap (fun e => e.2.map (fun sh => (e.1, sh)))).map (fun x => SelOp.addPeerWithShare x.1 x.2)

/-- the state the selector is in when it was told exactly the ground truth -/
def toldState (total nsrv : Nat) (ro : List Nat) (held : SetMap) : SelState :=
  (SelState.init total).after (specHistory nsrv ro held)

/-! ### The allocation rounds of `Tahoe2ServerSelector.get_shareholders`, as far as the selector sees them

One pass of the `while` loop: `get_share_placements()`, one `allocate_buckets` query to every
tracker the plan gives shares, then `_buckets_allocated(res, tracker, shares_to_ask)` for every
answer.  Towards the selector that handler does exactly one thing: when `res` is a `Failure`
(whatever kind: an exception from the server, a lost connection, the uploader's own 15 s
`timeout_call`) it calls `mark_readonly_peer(serverid)` and swallows the `KeyError` of a server
that was not writable.  A server that answered -- with or without progress, full or not -- is
*not* reported to the selector (`_make_readonly` only moves the tracker between the uploader's
local lists; `alreadygot` shares go to `preexisting_shares`, not to `add_peer_with_share`). -/

/-- how a server answered its `allocate_buckets` query in one round -/
inductive Answer where
  | ok              -- answered, some progress
  | noProgress      -- answered, nothing allocated / already there (a full server)
  | error           -- the remote call raised
  | timeout         -- no answer within the 15 s query timeout
  | disconnected    -- connection lost
deriving Repr, DecidableEq

/-- `isinstance(res, failure.Failure)` in `_buckets_allocated` -/
def Answer.failed : Answer → Bool
  | .error | .timeout | .disconnected => true
  | .ok | .noProgress => false

/-- what one round's answers do to the selector: one `allocationFailed` per failed query, in the
order the answers are handled -/
def roundOps (answers : List (Nat × Answer)) : List SelOp :=
  answers.filterMap (fun x => if x.2.failed then some (SelOp.allocationFailed x.1) else none)

/-- selector state after the answers of one round were handled -/
def SelState.afterRound (s : SelState) (answers : List (Nat × Answer)) : SelState :=
  s.after (roundOps answers)

/-- selector states at the successive `get_share_placements()` calls: before the first round,
after the first, … -/
def SelState.roundStates (s : SelState) : List (List (Nat × Answer)) → List SelState
  | [] => [s]
  | r :: rest => s :: SelState.roundStates (s.afterRound r) rest

/-- the plans of the successive rounds -/
def SelState.roundPlans (cfg : Cfg) (s : SelState) (rounds : List (List (Nat × Answer))) : List Placement :=
  (s.roundStates rounds).map (SelState.plan cfg)

end Tahoe.Happiness
