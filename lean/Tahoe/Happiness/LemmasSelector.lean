import Tahoe.Happiness.LemmasPlacement2
import Tahoe.Happiness.Selector
/-! The selector state prescribed by the ground truth (`toldState`) holds exactly the ground truth. -/
namespace Tahoe.Happiness

theorem addExisting_eq (p sh : Nat) (d : SetMap) : addExisting p sh d = addToSet p sh d := by
  induction d with
  | nil => rfl
  | cons e rest ih =>
    obtain ⟨k, s⟩ := e
    simp only [addExisting, addToSet, ih]

theorem after_append (s : SelState) (a b : List SelOp) : s.after (a ++ b) = (s.after a).after b := by
  simp [SelState.after, List.foldl_append]

theorem after_addPeers (s : SelState) (l : List Nat) :
    (s.after (l.map SelOp.addPeer)).readonly = s.readonly ∧
    (s.after (l.map SelOp.addPeer)).existing = s.existing ∧
    (s.after (l.map SelOp.addPeer)).bad = s.bad ∧
    ∀ p, p ∈ (s.after (l.map SelOp.addPeer)).peers ↔ p ∈ l ∨ p ∈ s.peers := by
  induction l generalizing s with
  | nil => simp [SelState.after]
  | cons a rest ih =>
    have := ih (s.next (.addPeer a))
    simp only [List.map_cons, SelState.after, List.foldl_cons] at this ⊢
    obtain ⟨h1, h2, h3, h4⟩ := this
    refine ⟨h1, h2, h3, ?_⟩
    intro p
    rw [h4 p]
    simp only [SelState.next, mem_sinsert, List.mem_cons]
    constructor
    · rintro (h | h | h)
      · left; right; exact h
      · left; left; exact h
      · right; exact h
    · rintro ((h | h) | h)
      · right; left; exact h
      · left; exact h
      · right; right; exact h

theorem after_markReadonly (s : SelState) (l : List Nat) :
    (s.after (l.map SelOp.markReadonly)).existing = s.existing ∧
    (s.after (l.map SelOp.markReadonly)).bad = s.bad ∧
    (∀ p, p ∈ (s.after (l.map SelOp.markReadonly)).readonly ↔ p ∈ l ∨ p ∈ s.readonly) ∧
    ∀ p, p ∈ (s.after (l.map SelOp.markReadonly)).peers ↔ p ∈ s.peers ∧ p ∉ l := by
  induction l generalizing s with
  | nil => simp [SelState.after]
  | cons a rest ih =>
    have := ih (s.next (.markReadonly a))
    simp only [List.map_cons, SelState.after, List.foldl_cons] at this ⊢
    obtain ⟨h1, h2, h3, h4⟩ := this
    refine ⟨h1, h2, ?_, ?_⟩
    · intro p
      rw [h3 p]
      simp only [SelState.next, mem_sinsert, List.mem_cons]
      constructor
      · rintro (h | h | h)
        · left; right; exact h
        · left; left; exact h
        · right; exact h
      · rintro ((h | h) | h)
        · right; left; exact h
        · left; exact h
        · right; right; exact h
    · intro p
      rw [h4 p]
      simp only [SelState.next, List.mem_filter, bne_iff_ne, ne_eq, List.mem_cons, not_or]
      constructor
      · rintro ⟨⟨h1, h2⟩, h3⟩; exact ⟨h1, h2, h3⟩
      · rintro ⟨h1, h2, h3⟩; exact ⟨⟨h1, h2⟩, h3⟩

theorem after_addShares (s : SelState) (L : List (Nat × Nat)) :
    (s.after (L.map (fun x => SelOp.addPeerWithShare x.1 x.2))).peers = s.peers ∧
    (s.after (L.map (fun x => SelOp.addPeerWithShare x.1 x.2))).readonly = s.readonly ∧
    (s.after (L.map (fun x => SelOp.addPeerWithShare x.1 x.2))).bad = s.bad ∧
    (s.after (L.map (fun x => SelOp.addPeerWithShare x.1 x.2))).existing =
      L.foldl (fun ret e => addToSet e.1 e.2 ret) s.existing := by
  induction L generalizing s with
  | nil => simp [SelState.after]
  | cons a rest ih =>
    have := ih (s.next (.addPeerWithShare a.1 a.2))
    simp only [List.map_cons, SelState.after, List.foldl_cons] at this ⊢
    obtain ⟨h1, h2, h3, h4⟩ := this
    refine ⟨h1, h2, h3, ?_⟩
    rw [h4]
    simp only [SelState.next, addExisting_eq]

/-- the state prescribed by the ground truth: writable = all servers but the read-only ones,
read-only as given, nobody bad, and the existing-share relation is exactly the shares on disk,
each under the server that holds it; the dict is well formed -/
theorem toldState_spec (total nsrv : Nat) (ro : List Nat) (held : SetMap) :
    (∀ p, p ∈ (toldState total nsrv ro held).peers ↔ p < nsrv ∧ p ∉ ro) ∧
    (∀ p, p ∈ (toldState total nsrv ro held).readonly ↔ p ∈ ro) ∧
    (toldState total nsrv ro held).bad = [] ∧
    (∀ e, e ∈ relOfServermap (toldState total nsrv ro held).existing ↔ e ∈ relOfServermap held) ∧
    SbsInv (toldState total nsrv ro held).existing := by
  unfold toldState specHistory
  rw [after_append, after_append]
  obtain ⟨a1, a2, a3, a4⟩ := after_addPeers (SelState.init total) (List.range nsrv)
  obtain ⟨b1, b2, b3, b4⟩ := after_markReadonly ((SelState.init total).after ((List.range nsrv).map SelOp.addPeer)) ro
  obtain ⟨c1, c2, c3, c4⟩ := after_addShares
    (((SelState.init total).after ((List.range nsrv).map SelOp.addPeer)).after (ro.map SelOp.markReadonly))
    (held.flatMap (fun e => e.2.map (fun sh => (e.1, sh))))
  have hfold := fold_addToSet (held.flatMap (fun e => e.2.map (fun sh => (e.1, sh)))) [] ⟨by simp, by simp⟩
  refine ⟨?_, ?_, ?_, ?_, ?_⟩
  · intro p; rw [c1, b4 p, a4 p]; simp [SelState.init]
  · intro p; rw [c2, b3 p, a1]; simp [SelState.init]
  · rw [c3, b2, a3]; rfl
  · intro e
    obtain ⟨p, s⟩ := e
    rw [c4, b1, a2]
    show (p, s) ∈ relOfServermap (List.foldl _ [] _) ↔ _
    rw [hfold.2 p s]
    simp [relOfServermap]
  · rw [c4, b1, a2]; exact hfold.1

/-- a server that is not writable stays not writable until it is added again -/
theorem not_writable_persists (p : Nat) (ops : List SelOp) (hops : SelOp.addPeer p ∉ ops) (s : SelState)
    (h : p ∉ s.peers) : p ∉ (s.after ops).peers := by
  induction ops generalizing s with
  | nil => exact h
  | cons op rest ih =>
    simp only [List.mem_cons, not_or] at hops
    simp only [SelState.after, List.foldl_cons]
    apply ih hops.2
    cases op with
    | addPeer q =>
      simp only [SelState.next, mem_sinsert, not_or]
      refine ⟨fun e => hops.1 (by rw [e]), h⟩
    | addPeerWithShare q sh => exact h
    | markReadonly q =>
      simp only [SelState.next, List.mem_filter, not_and]
      intro hm; exact absurd hm h
    | markBad q =>
      simp only [SelState.next]
      split
      · simp only [List.mem_filter, not_and]; intro hm; exact absurd hm h
      · split <;> exact h
    | getPlacements => exact h

/-- a read-only server stays read-only until it is written off as bad -/
theorem readonly_persists (p : Nat) (ops : List SelOp) (hops : SelOp.markBad p ∉ ops) (s : SelState)
    (h : p ∈ s.readonly) : p ∈ (s.after ops).readonly := by
  induction ops generalizing s with
  | nil => exact h
  | cons op rest ih =>
    simp only [List.mem_cons, not_or] at hops
    simp only [SelState.after, List.foldl_cons]
    apply ih hops.2
    cases op with
    | addPeer q => exact h
    | addPeerWithShare q sh => exact h
    | markReadonly q => simp only [SelState.next, mem_sinsert]; right; exact h
    | markBad q =>
      have hqp : q ≠ p := fun e => hops.1 (by rw [e])
      simp only [SelState.next]
      split
      · exact h
      · split
        · simp only [List.mem_filter, bne_iff_ne, ne_eq]
          exact ⟨h, fun e => hqp e.symm⟩
        · exact h
    | getPlacements => exact h

end Tahoe.Happiness
