import Tahoe.Happiness.LemmasSpread2
import Tahoe.Happiness.Selector
/-! The selector state prescribed by the ground truth (`toldState`) holds exactly the ground truth. -/
namespace Tahoe.Happiness

theorem addExisting_eq (p sh : Nat) (d : SetMap) : addExisting p sh d = addToSet p sh d := by
  induction d with
  | nil => rfl
  | cons e rest ih =>
    obtain ⟨k, s⟩ := e
    simp only [addExisting, addToSet, ih]

theorem after_append (s : SelState) (a b : List SelOp) : s.after (a ++ b) = (s.after a).after b := by
  simp [SelState.after, List.foldl_append]

theorem after_addPeers (s : SelState) (l : List Nat) :
    (s.after (l.map SelOp.addPeer)).readonly = s.readonly ∧
    (s.after (l.map SelOp.addPeer)).existing = s.existing ∧
    (s.after (l.map SelOp.addPeer)).bad = s.bad ∧
    ∀ p, p ∈ (s.after (l.map SelOp.addPeer)).peers ↔ p ∈ l ∨ p ∈ s.peers := by
  induction l generalizing s with
  | nil => simp [SelState.after]
  | cons a rest ih =>
    have := ih (s.next (.addPeer a))
    simp only [List.map_cons, SelState.after, List.foldl_cons] at this ⊢
    obtain ⟨h1, h2, h3, h4⟩ := this
    refine ⟨h1, h2, h3, ?_⟩
    intro p
    rw [h4 p]
    simp only [SelState.next, mem_sinsert, List.mem_cons]
    constructor
    · rintro (h | h | h)
      · left; right; exact h
      · left; left; exact h
      · right; exact h
    · rintro ((h | h) | h)
      · right; left; exact h
      · left; exact h
      · right; right; exact h

theorem after_markReadonly (s : SelState) (l : List Nat) :
    (s.after (l.map SelOp.markReadonly)).existing = s.existing ∧
    (s.after (l.map SelOp.markReadonly)).bad = s.bad ∧
    (∀ p, p ∈ (s.after (l.map SelOp.markReadonly)).readonly ↔ p ∈ l ∨ p ∈ s.readonly) ∧
    ∀ p, p ∈ (s.after (l.map SelOp.markReadonly)).peers ↔ p ∈ s.peers ∧ p ∉ l := by
  induction l generalizing s with
  | nil => simp [SelState.after]
  | cons a rest ih =>
    have := ih (s.next (.markReadonly a))
    simp only [List.map_cons, SelState.after, List.foldl_cons] at this ⊢
    obtain ⟨h1, h2, h3, h4⟩ := this
    refine ⟨h1, h2, ?_, ?_⟩
    · intro p
      rw [h3 p]
      simp only [SelState.next, mem_sinsert, List.mem_cons]
      constructor
      · rintro (h | h | h)
        · left; right; exact h
        · left; left; exact h
        · right; exact h
      · rintro ((h | h) | h)
        · right; left; exact h
        · left; exact h
        · right; right; exact h
    · intro p
      rw [h4 p]
      simp only [SelState.next, List.mem_filter, bne_iff_ne, ne_eq, List.mem_cons, not_or]
      constructor
      · rintro ⟨⟨h1, h2⟩, h3⟩; exact ⟨h1, h2, h3⟩
      · rintro ⟨h1, h2, h3⟩; exact ⟨⟨h1, h2⟩, h3⟩

theorem after_addShares (s : SelState) (L : List (Nat × Nat)) :
    (s.after (L.map (fun x => SelOp.addPeerWithShare x.1 x.2))).peers = s.peers ∧
    (s.after (L.map (fun x => SelOp.addPeerWithShare x.1 x.2))).readonly = s.readonly ∧
    (s.after (L.map (fun x => SelOp.addPeerWithShare x.1 x.2))).bad = s.bad ∧
    (s.after (L.map (fun x => SelOp.addPeerWithShare x.1 x.2))).existing =
      L.foldl (fun ret e => addToSet e.1 e.2 ret) s.existing := by
  induction L generalizing s with
  | nil => simp [SelState.after]
  | cons a rest ih =>
    have := ih (s.next (.addPeerWithShare a.1 a.2))
    simp only [List.map_cons, SelState.after, List.foldl_cons] at this ⊢
    obtain ⟨h1, h2, h3, h4⟩ := this
    refine ⟨h1, h2, h3, ?_⟩
    rw [h4]
    simp only [SelState.next, addExisting_eq]

/-- the state prescribed by the ground truth: writable = all servers but the read-only ones,
read-only as given, nobody bad, and the existing-share relation is exactly the shares on disk,
each under the server that holds it; the dict is well formed -/
theorem toldState_spec (total nsrv : Nat) (ro : List Nat) (held : SetMap) :
    (∀ p, p ∈ (toldState total nsrv ro held).peers ↔ p < nsrv ∧ p ∉ ro) ∧
    (∀ p, p ∈ (toldState total nsrv ro held).readonly ↔ p ∈ ro) ∧
    (toldState total nsrv ro held).bad = [] ∧
    (∀ e, e ∈ relOfServermap (toldState total nsrv ro held).existing ↔ e ∈ relOfServermap held) ∧
    SbsInv (toldState total nsrv ro held).existing := by
  unfold toldState specHistory
  rw [after_append, after_append]
  obtain ⟨a1, a2, a3, a4⟩ := after_addPeers (SelState.init total) (List.range nsrv)
  obtain ⟨b1, b2, b3, b4⟩ := after_markReadonly ((SelState.init total).after ((List.range nsrv).map SelOp.addPeer)) ro
  obtain ⟨c1, c2, c3, c4⟩ := after_addShares
    (((SelState.init total).after ((List.range nsrv).map SelOp.addPeer)).after (ro.map SelOp.markReadonly))
    (held.flatMap (fun e => e.2.map (fun sh => (e.1, sh))))
  have hfold := fold_addToSet (held.flatMap (fun e => e.2.map (fun sh => (e.1, sh)))) [] ⟨by simp, by simp⟩
  refine ⟨?_, ?_, ?_, ?_, ?_⟩
  · intro p; rw [c1, b4 p, a4 p]; simp [SelState.init]
  · intro p; rw [c2, b3 p, a1]; simp [SelState.init]
  · rw [c3, b2, a3]; rfl
  · intro e
    obtain ⟨p, s⟩ := e
    rw [c4, b1, a2]
    show (p, s) ∈ relOfServermap (List.foldl _ [] _) ↔ _
    rw [hfold.2 p s]
    simp [relOfServermap]
  · rw [c4, b1, a2]; exact hfold.1

/-- a server that is not writable stays not writable until it is added again -/
theorem not_writable_persists (p : Nat) (ops : List SelOp) (hops : SelOp.addPeer p ∉ ops) (s : SelState)
    (h : p ∉ s.peers) : p ∉ (s.after ops).peers := by
  induction ops generalizing s with
  | nil => exact h
  | cons op rest ih =>
    simp only [List.mem_cons, not_or] at hops
    simp only [SelState.after, List.foldl_cons]
    apply ih hops.2
    cases op with
    | addPeer q =>
      simp only [SelState.next, mem_sinsert, not_or]
      refine ⟨fun e => hops.1 (by rw [e]), h⟩
    | addPeerWithShare q sh => exact h
    | markReadonly q =>
      simp only [SelState.next, List.mem_filter, not_and]
      intro hm; exact absurd hm h
    | markBad q =>
      simp only [SelState.next]
      split
      · simp only [List.mem_filter, not_and]; intro hm; exact absurd hm h
      · split <;> exact h
    | getPlacements => exact h

/-- a read-only server stays read-only until it is written off as bad -/
theorem readonly_persists (p : Nat) (ops : List SelOp) (hops : SelOp.markBad p ∉ ops) (s : SelState)
    (h : p ∈ s.readonly) : p ∈ (s.after ops).readonly := by
  induction ops generalizing s with
  | nil => exact h
  | cons op rest ih =>
    simp only [List.mem_cons, not_or] at hops
    simp only [SelState.after, List.foldl_cons]
    apply ih hops.2
    cases op with
    | addPeer q => exact h
    | addPeerWithShare q sh => exact h
    | markReadonly q => simp only [SelState.next, mem_sinsert]; right; exact h
    | markBad q =>
      have hqp : q ≠ p := fun e => hops.1 (by rw [e])
      simp only [SelState.next]
      split
      · exact h
      · split
        · simp only [List.mem_filter, bne_iff_ne, ne_eq]
          exact ⟨h, fun e => hqp e.symm⟩
        · exact h
    | getPlacements => exact h

/-! ### allocation rounds -/

/-- the server failed (in any way) in this round -/
def FailedIn (answers : List (Nat × Answer)) (p : Nat) : Prop := ∃ a, (p, a) ∈ answers ∧ a.failed = true

/-- what a list of demotions does to the selector state -/
theorem after_demotions (s : SelState) (l : List Nat) :
    (s.after (l.map SelOp.allocationFailed)).existing = s.existing ∧
    (s.after (l.map SelOp.allocationFailed)).bad = s.bad ∧
    (s.after (l.map SelOp.allocationFailed)).total = s.total ∧
    (∀ p, p ∈ (s.after (l.map SelOp.allocationFailed)).readonly ↔ p ∈ l ∨ p ∈ s.readonly) ∧
    ∀ p, p ∈ (s.after (l.map SelOp.allocationFailed)).peers ↔ p ∈ s.peers ∧ p ∉ l := by
  have h := after_markReadonly s l
  have ht : (s.after (l.map SelOp.markReadonly)).total = s.total := by
    clear h
    induction l generalizing s with
    | nil => rfl
    | cons a rest ih =>
      have := ih (s.next (.markReadonly a))
      simpa [SelState.after, SelState.next] using this
  exact ⟨h.1, h.2.1, ht, h.2.2.1, h.2.2.2⟩

theorem roundOps_eq (answers : List (Nat × Answer)) :
    roundOps answers = ((answers.filter (fun x => x.2.failed)).map (·.1)).map SelOp.allocationFailed := by
  induction answers with
  | nil => rfl
  | cons a rest ih =>
    unfold roundOps at ih ⊢
    simp only [List.filterMap_cons, List.filter_cons]
    cases h : a.2.failed <;> simp [ih]

theorem mem_failed_list (answers : List (Nat × Answer)) (p : Nat) :
    p ∈ (answers.filter (fun x => x.2.failed)).map (·.1) ↔ FailedIn answers p := by
  simp only [List.mem_map, List.mem_filter, FailedIn]
  constructor
  · rintro ⟨x, ⟨hx, hf⟩, rfl⟩; exact ⟨x.2, hx, hf⟩
  · rintro ⟨a, ha, hf⟩; exact ⟨(p, a), ⟨ha, hf⟩, rfl⟩

/-- **one round, as seen by the selector**: exactly the servers whose query failed -- by an error, a
lost connection or the query timeout alike -- move from the writable to the read-only set; nothing
else changes -/
theorem afterRound_spec (s : SelState) (answers : List (Nat × Answer)) :
    (s.afterRound answers).existing = s.existing ∧ (s.afterRound answers).bad = s.bad ∧
    (s.afterRound answers).total = s.total ∧
    (∀ p, p ∈ (s.afterRound answers).readonly ↔ FailedIn answers p ∨ p ∈ s.readonly) ∧
    ∀ p, p ∈ (s.afterRound answers).peers ↔ p ∈ s.peers ∧ ¬ FailedIn answers p := by
  unfold SelState.afterRound
  rw [roundOps_eq]
  obtain ⟨h1, h2, h3, h4, h5⟩ := after_demotions s ((answers.filter (fun x => x.2.failed)).map (·.1))
  refine ⟨h1, h2, h3, ?_, ?_⟩
  · intro p; rw [h4 p, mem_failed_list]
  · intro p; rw [h5 p, mem_failed_list]

/-- the repaired `share_placement` uses at least `min(#writable, #shares)` distinct servers -/
theorem spread_ge_min (W R S : List Nat) (E : SetMap) (res : List (Nat × Nat)) (hW : W ≠ [])
    (hdisj : ∀ x ∈ W, x ∉ R) (h : sharePlacement Cfg.fixed W R S E = .ok res) :
    min (mkSet W).length (mkSet S).length ≤ distinctServers res := by
  have := spread_ge_matching W R S E res hW hdisj h ((mkSet W).zip (mkSet S))
    (zip_matching _ _ (mkSet_nodup W) (mkSet_nodup S)) (by
      intro e he
      obtain ⟨x, y⟩ := e
      have hm := List.of_mem_zip he
      exact ⟨(mem_mkSet S y).mp hm.2, Or.inl ((mem_mkSet W x).mp hm.1)⟩)
  simpa using this

theorem mkSet_length_of_sorted (l : List Nat) (h : l.Pairwise (· < ·)) : (mkSet l).length = l.length :=
  nodup_same_length _ _ (mkSet_nodup l) (nodup_of_sorted l h) (fun x => mem_mkSet l x)

end Tahoe.Happiness
