import Tahoe.Mutable.ServerMap
/-
Model of the success/failure bookkeeping of `allmydata/mutable/publish.py` class `Publish`:
`writers` (a `DictOfSets` shnum ↦ set of write proxies), `_connection_problem`, `_got_write_answer`
(`wrote`, surprise shares, `surprised`, `bad_servers`, `placed`), `_push` (`len(self.writers) <
required_shares or self.surprised` ⇒ `_failure`), `_failure` (error class), `_done`, and `update_goal`.
Mathlib-free, executable (driver `Drv/C47.lean`).

Representation:
* a write proxy is `(shnum, server)`; `self.writers` is the flat list of proxies — `len(self.writers)` is the
  number of distinct share numbers that still have a proxy (`DictOfSets.discard` deletes a key whose set
  became empty), i.e. `numShnums`.
* checkstrings are compared only for equality with `self._checkstring`: they are numbers (the harness
  interns the byte strings).
* the network: every proxy's `finish_publishing()` Deferred fires once, either with an answer
  `(wrote, read_data)` or with a failure (→ `_connection_problem`, after which `_got_write_answer(None)`
  returns at `if not answer`).  The order in which they fire is the event list.  `DeferredList` fires
  after all of them, then `_push` runs in `DONE_STATE`.
* both formats write once per proxy in this code base (`SDMFSlotWriteProxy.finish_publishing`,
  `MDMFSlotWriteProxy.finish_publishing` → `_write`), so all answers arrive after the last `_push` that
  precedes `finish_publishing`; those earlier `_push` calls see the initial state.
-/
namespace Tahoe.Mutable.Pub
open Tahoe.Mutable

structure Writer where
  shnum : Nat
  server : Nat
  deriving DecidableEq, Repr

inductive Event
  | problem (w : Writer)                                           -- errback → `_connection_problem`
  | answer (w : Writer) (wrote : Bool) (readData : List (Nat × Nat))   -- `(wrote, {shnum: [checkstring]})`
  deriving DecidableEq, Repr

def Event.writer : Event → Writer
  | .problem w => w
  | .answer w _ _ => w

structure Pub where
  k : Nat                          -- `required_shares`
  writers : List Writer            -- `self.writers`
  checkstring : Nat                -- `self._checkstring`
  haveVerinfo : Bool               -- `bool(self.versioninfo)`
  surprised : Bool := false
  badServers : List Nat := []
  placed : List (Nat × Nat) := []  -- (server, shnum)
  goal : List (Nat × Nat) := []    -- `self.goal` (server, shnum): no answer and no failure changes it
  deriving Repr

/-- `len(self.writers)` -/
def numShnums (ws : List Writer) : Nat := (dedup (ws.map (·.shnum))).length

/-- the surprise test of `_got_write_answer`: some share in `read_data`, other than the proxy's own and
    other than shares this publish is itself writing to that server, has a checkstring different from
    `self._checkstring` (both sub-cases — server asked / not asked by the mapupdate — set `surprised`) -/
def isSurprise (ws : List Writer) (cs : Nat) (w : Writer) (rd : List (Nat × Nat)) : Bool :=
  rd.any (fun e => e.1 != w.shnum && !(ws.any (fun x => x.server == w.server && x.shnum == e.1)) && e.2 != cs)

def step (p : Pub) : Event → Pub
  | .problem w => { p with writers := p.writers.filter (· ≠ w) }       -- `self.writers.discard(writer.shnum, writer)`
  | .answer w wrote rd =>
    let p1 := if isSurprise p.writers p.checkstring w rd then { p with surprised := true } else p
    if !wrote then { p1 with surprised := true, badServers := setAdd p1.badServers w.server }
    else if p1.haveVerinfo then { p1 with placed := setAdd p1.placed (w.server, w.shnum) }
    else p1

inductive Result | success | notEnoughServers | uncoordinatedWrite
  deriving DecidableEq, Repr

/-- `_push`: `none` = carry on (or `_done()` in `DONE_STATE`); `some e` = `_failure()` with its error class -/
def pushCheck (p : Pub) : Option Result :=
  if numShnums p.writers < p.k || p.surprised then
    some (if p.surprised then .uncoordinatedWrite else .notEnoughServers)
  else none

/-- the whole publish as seen by its caller -/
def run (p : Pub) (evs : List Event) : Result :=
  match pushCheck p with
  | some e => e                                   -- fails before anything is written
  | none => match pushCheck (evs.foldl step p) with
    | some e => e
    | none => .success

/-! ### `update_goal` -/

/-- ordered insert by `(number of shares already assigned, position in the permuted list)` -/
def insertEntry (e : Nat × Nat × Nat) : List (Nat × Nat × Nat) → List (Nat × Nat × Nat)
  | [] => [e]
  | f :: l => if e.1 < f.1 || (e.1 == f.1 && e.2.1 < f.2.1) then e :: f :: l else f :: insertEntry e l

/-- round-robin placement of the homeless shares over the sorted server list -/
def placeHomeless (servers : List Nat) : List Nat → Nat → List (Nat × Nat) → List (Nat × Nat)
  | [], _, goal => goal
  | sh :: rest, i, goal =>
    let goal' := setAdd goal (servers.getD i 0, sh)
    let i' := if servers.length ≤ i + 1 then 0 else i + 1
    placeHomeless servers rest i' goal'

/-- `Publish.update_goal`: `goal` = (server, shnum) pairs, `full` = permuted server list with the
    `upload_permitted()` flag; `none` = `NotEnoughServersError("Ran out of non-bad servers")` -/
def updateGoal (goal : List (Nat × Nat)) (bad : List Nat) (total : Nat) (full : List (Nat × Bool)) :
    Option (List (Nat × Nat)) :=
  let goal1 := goal.filter (fun e => e.1 ∉ bad)
  let homeless := (List.range total).filter (fun sh => !(goal1.any (fun e => e.2 == sh)))
  if homeless.isEmpty then some goal1
  else
    let entries := (full.zipIdx.filter (fun e => e.1.1 ∉ bad && e.1.2)).map
      (fun e => ((goal1.filter (fun g => g.1 == e.1.1)).length, e.2, e.1.1))
    let sorted := entries.foldr insertEntry []
    if sorted.isEmpty then none
    else some (placeHomeless (sorted.map (·.2.2)) homeless 0 goal1)

end Tahoe.Mutable.Pub
