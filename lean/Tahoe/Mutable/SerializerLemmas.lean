import Tahoe.Mutable.Serializer
/-! Helper lemmas for C13: the invariant of the serializer chain. -/
namespace Tahoe.Serializer

theorem scan_append (l1 l2 : List Ev) (st : Nat × Option Nat) :
    scan (l1 ++ l2) st = (scan l1 st).bind (scan l2) := by
  induction l1 generalizing st with
  | nil => simp [scan]
  | cons e rest ih =>
    obtain ⟨n, o⟩ := st
    cases e with
    | start i => cases o <;> simp [scan] <;> split <;> simp [ih]
    | finish i r => cases o <;> simp [scan] <;> split <;> simp [ih]
    | deliver i r => simp [scan, ih]
    | retry i => cases o <;> simp [scan] <;> split <;> simp [ih]

theorem succeeded_append (l1 l2 : List Ev) : succeeded (l1 ++ l2) = succeeded l1 ++ succeeded l2 := by
  induction l1 with
  | nil => simp [succeeded]
  | cons e rest ih =>
    cases e with
    | start i => simp [succeeded, ih]
    | finish i r => cases r <;> simp [succeeded, ih]
    | deliver i r => simp [succeeded, ih]
    | retry i => simp [succeeded, ih]

/-- `k` request triples for operations a, a+1, …, a+k-1 -/
def triplesFrom (a : Nat) : Nat → List Item
  | 0 => []
  | k + 1 => .start a :: .handoff a :: .logerr :: triplesFrom (a + 1) k

theorem triplesFrom_snoc (a k : Nat) :
    triplesFrom a k ++ [.start (a + k), .handoff (a + k), .logerr] = triplesFrom a (k + 1) := by
  induction k generalizing a with
  | zero => simp [triplesFrom]
  | succ k ih =>
    have := ih (a + 1)
    simp only [triplesFrom, List.cons_append] at *
    rw [show a + (k + 1) = a + 1 + k by omega, this]

/-- the serializer is idle: nothing pending, `n` operations requested and all finished -/
structure Idle (c : Core) (ch : List Item) (n : Nat) : Prop where
  waiting : c.waiting = none
  chain : ch = []
  cur : c.cur = .ok
  scan : scan c.log (0, none) = some (n, none)
  content : c.content = succeeded c.log

/-- the serializer is paused on operation `j`; operations j+1 … are queued behind it -/
structure Busy (c : Core) (ch : List Item) (j k : Nat) : Prop where
  waiting : c.waiting = some j
  chain : ch = .handoff j :: .logerr :: triplesFrom (j + 1) k
  scan : scan c.log (0, none) = some (j, some j)
  snap : c.snap = c.content
  content : c.content = succeeded c.log

/-- running queued triples from an idle-like core -/
theorem run_triples (k : Nat) : ∀ (a : Nat) (c : Core),
    c.cur = .ok → c.waiting = none → scan c.log (0, none) = some (a, none) → c.content = succeeded c.log →
    (run (triplesFrom a k) c).1.nextId = c.nextId ∧
    (Idle (run (triplesFrom a k) c).1 (run (triplesFrom a k) c).2 (a + k) ∨
     ∃ j k', j + 1 + k' = a + k ∧ a ≤ j ∧ Busy (run (triplesFrom a k) c).1 (run (triplesFrom a k) c).2 j k') := by
  induction k with
  | zero =>
    intro a c hc hw hs hcont
    simp only [triplesFrom, run]
    exact ⟨trivial, Or.inl ⟨hw, rfl, hc, by simpa using hs, hcont⟩⟩
  | succ k ih =>
    intro a c hc hw hs hcont
    simp only [triplesFrom, run, hc]
    split
    · -- synchronous completion with result r
      rename_i r hr
      have hscan : ∀ r, scan (c.log ++ [Ev.start a] ++ [Ev.finish a r]) (0, none) = some (a + 1, none) := by
        intro r; rw [scan_append, scan_append, hs]; simp [scan]
      cases r with
      | ok =>
        simp only [commit]
        have := ih (a + 1) { c with log := c.log ++ [Ev.start a] ++ [Ev.finish a .ok], snap := c.content,
                                     content := c.content ++ [a], evq := c.evq ++ [(a, Res.ok)], cur := .ok }
          rfl hw (hscan .ok) (by simp [succeeded_append, succeeded, hcont])
        obtain ⟨h1, h2⟩ := this
        refine ⟨h1, ?_⟩
        rcases h2 with h | ⟨j, k', hj, haj, hb⟩
        · left; rw [show a + (k + 1) = a + 1 + k by omega]; exact h
        · right; exact ⟨j, k', by omega, by omega, hb⟩
      | fail =>
        simp only [commit]
        have := ih (a + 1) { c with log := c.log ++ [Ev.start a] ++ [Ev.finish a .fail], snap := c.content,
                                     evq := c.evq ++ [(a, Res.fail)], cur := .ok }
          rfl hw (hscan .fail) (by simp [succeeded_append, succeeded, hcont])
        obtain ⟨h1, h2⟩ := this
        refine ⟨h1, ?_⟩
        rcases h2 with h | ⟨j, k', hj, haj, hb⟩
        · left; rw [show a + (k + 1) = a + 1 + k by omega]; exact h
        · right; exact ⟨j, k', by omega, by omega, hb⟩
    · -- asynchronous: pause on operation a
      refine ⟨rfl, Or.inr ⟨a, k, by omega, by omega, ?_⟩⟩
      exact ⟨rfl, rfl, by rw [scan_append, hs]; simp [scan], rfl,
             by simp [succeeded_append, succeeded, hcont]⟩

end Tahoe.Serializer

namespace Tahoe.Serializer

/-- `run` only appends to the log -/
theorem run_log_grows (ch : List Item) (c : Core) : ∃ tail, (run ch c).1.log = c.log ++ tail := by
  induction ch generalizing c with
  | nil => exact ⟨[], by simp [run]⟩
  | cons it rest ih =>
    cases it with
    | start i =>
      simp only [run]
      split
      · exact ih _
      · split
        · rename_i r _
          obtain ⟨t, ht⟩ := ih { commit { c with log := c.log ++ [Ev.start i], snap := c.content } i r with
                        cur := r, log := c.log ++ [Ev.start i] ++ [Ev.finish i r] }
          exact ⟨Ev.start i :: Ev.finish i r :: t, by rw [ht]; simp⟩
        · exact ⟨[Ev.start i], rfl⟩
    | handoff i => simp only [run]; exact ih _
    | logerr => simp only [run]; exact ih _

/-- the count of finished operations never decreases along a scan -/
theorem scan_mono (l : List Ev) : ∀ (n : Nat) (o : Option Nat) (m : Nat) (o' : Option Nat),
    scan l (n, o) = some (m, o') → n ≤ m := by
  induction l with
  | nil => intro n o m o' h; simp [scan] at h; omega
  | cons e rest ih =>
    intro n o m o' h
    cases e with
    | start i =>
      cases o with
      | none =>
        simp only [scan] at h
        split at h
        · exact ih _ _ _ _ h
        · simp at h
      | some j => simp [scan] at h
    | finish i r =>
      cases o with
      | none => simp [scan] at h
      | some j =>
        simp only [scan] at h
        split at h
        · have := ih _ _ _ _ h; omega
        · simp at h
    | deliver i r => simp only [scan] at h; exact ih _ _ _ _ h
    | retry i =>
      cases o with
      | none => simp [scan] at h
      | some j =>
        simp only [scan] at h
        split at h
        · exact ih _ _ _ _ h
        · simp at h

/-- in an accepted log every further attempt belongs to an operation that is not finished yet:
scanning from `n` finished operations (with the operation in progress, if any, being number `n`),
only operations `≥ n` can have attempts -/
theorem scan_retry_ge (l : List Ev) : ∀ (n : Nat) (o : Option Nat) (st : Nat × Option Nat),
    scan l (n, o) = some st → (∀ j, o = some j → j = n) → ∀ i, Ev.retry i ∈ l → n ≤ i := by
  induction l with
  | nil => intro n o st _ _ i hi; simp at hi
  | cons e rest ih =>
    intro n o st h ho i hi
    cases e with
    | start i0 =>
      have hi' : Ev.retry i ∈ rest := by simpa using hi
      cases o with
      | none =>
        simp only [scan] at h
        split at h
        · rename_i heq
          exact ih n (some i0) st h (by intro j hj; cases hj; exact heq) i hi'
        · simp at h
      | some j => simp [scan] at h
    | finish i0 r0 =>
      have hi' : Ev.retry i ∈ rest := by simpa using hi
      cases o with
      | none => simp [scan] at h
      | some j =>
        simp only [scan] at h
        split at h
        · have := ih (n + 1) none st h (by intro j hj; cases hj) i hi'; omega
        · simp at h
    | deliver i0 r0 =>
      have hi' : Ev.retry i ∈ rest := by simpa using hi
      simp only [scan] at h
      exact ih n o st h ho i hi'
    | retry i0 =>
      cases o with
      | none => simp [scan] at h
      | some j =>
        simp only [scan] at h
        split at h
        · rename_i heq
          simp only [List.mem_cons, Ev.retry.injEq] at hi
          rcases hi with hi | hi
          · have := ho j rfl; omega
          · exact ih n (some j) st h ho i hi
        · simp at h

/-- in an accepted log the successfully finished operations appear in request order -/
theorem scan_succeeded_sorted (l : List Ev) : ∀ (n : Nat) (o : Option Nat) (st : Nat × Option Nat),
    scan l (n, o) = some st → (∀ j, o = some j → j = n) →
    (∀ i, i ∈ succeeded l → n ≤ i) ∧ (succeeded l).Pairwise (· < ·) := by
  induction l with
  | nil => intro n o st _ _; simp [succeeded]
  | cons e rest ih =>
    intro n o st h ho
    cases e with
    | start i0 =>
      cases o with
      | none =>
        simp only [scan] at h
        split at h
        · rename_i heq
          simpa [succeeded] using ih n (some i0) st h (by intro j hj; cases hj; exact heq)
        · simp at h
      | some j => simp [scan] at h
    | finish i0 r0 =>
      cases o with
      | none => simp [scan] at h
      | some j =>
        simp only [scan] at h
        split at h
        · rename_i hc
          obtain ⟨h1, h2⟩ := ih (n + 1) none st h (by intro j hj; cases hj)
          cases r0 with
          | ok =>
            simp only [succeeded, List.mem_cons, List.pairwise_cons]
            refine ⟨?_, ?_, h2⟩
            · intro i hi
              rcases hi with hi | hi
              · omega
              · have := h1 i hi; omega
            · intro i hi; have := h1 i hi; omega
          | fail =>
            simp only [succeeded]
            exact ⟨fun i hi => by have := h1 i hi; omega, h2⟩
        · simp at h
    | deliver i0 r0 =>
      simp only [scan] at h
      simpa [succeeded] using ih n o st h ho
    | retry i0 =>
      cases o with
      | none => simp [scan] at h
      | some j =>
        simp only [scan] at h
        split at h
        · simpa [succeeded] using ih n (some j) st h ho
        · simp at h

end Tahoe.Serializer
