import Tahoe.Mutable.ServerMapLemmas
/-! Helper lemmas about `ServermapUpdater._check_for_done`'s MODE_WRITE scan (`scanLoop`), used by
    `Tahoe/Props/C11.lean`. -/
namespace Tahoe.Mutable

/-- a server the scan treats as "answered with no shares" / "answered with shares" / any answer -/
def Upd.isEmptyResp (u : Upd) (s : Nat) : Prop := s ∉ u.bad ∧ s ∈ u.empty
def Upd.isFound (u : Upd) (s : Nat) : Prop := s ∉ u.bad ∧ s ∉ u.empty ∧ s ∈ u.withShares
def Upd.responded (u : Upd) (s : Nat) : Prop := s ∈ u.bad ∨ s ∈ u.empty ∨ s ∈ u.withShares

instance (u : Upd) (s : Nat) : Decidable (u.isEmptyResp s) := by unfold Upd.isEmptyResp; infer_instance

/-- What a scan that ends with `found_boundary` and `last_not_responded == -1` has seen: it stopped after a
    prefix `pre` of the server list in which every server had answered, a server with shares occurs (or one was
    already recorded), and at least `EPSILON` servers answered "no shares" (counting those already counted since
    the last server with shares). -/
theorem scanLoop_boundary (u : Upd) : ∀ (l : List Nat) (i : Nat) (s : Scan),
    s.foundBoundary = false → s.lastNotResponded = none →
    (scanLoop u i l s).foundBoundary = true → (scanLoop u i l s).lastNotResponded = none →
    ∃ pre suf, l = pre ++ suf ∧ (∀ x ∈ pre, u.responded x) ∧
      (s.lastFound.isSome = true ∨ ∃ x ∈ pre, u.isFound x) ∧
      u.epsilon ≤ s.numNotFound + (pre.filter (fun x => decide (u.isEmptyResp x))).length := by
  intro l
  induction l with
  | nil =>
    intro i s hf _ hb _
    simp only [scanLoop] at hb
    rw [hf] at hb; exact absurd hb (by simp)
  | cons server rest ih =>
    intro i s hf hn hb hl
    simp only [scanLoop] at hb hl
    by_cases hbad : server ∈ u.bad
    · simp only [hbad, if_true] at hb hl
      obtain ⟨pre, suf, h1, h2, h3, h4⟩ := ih (i + 1) s hf hn hb hl
      refine ⟨server :: pre, suf, by rw [h1]; rfl, ?_, ?_, ?_⟩
      · intro x hx
        rcases List.mem_cons.mp hx with rfl | hx
        · exact Or.inl hbad
        · exact h2 x hx
      · rcases h3 with h | ⟨x, hx, hxf⟩
        · exact Or.inl h
        · exact Or.inr ⟨x, List.mem_cons_of_mem _ hx, hxf⟩
      · have : decide (u.isEmptyResp server) = false := by simp [Upd.isEmptyResp, hbad]
        simp only [List.filter_cons, this]
        exact h4
    · simp only [hbad, if_false] at hb hl
      by_cases hemp : server ∈ u.empty
      · simp only [hemp, if_true] at hb hl
        have hcount : decide (u.isEmptyResp server) = true := by simp [Upd.isEmptyResp, hbad, hemp]
        by_cases hfound : s.lastFound.isSome = true
        · simp only [hfound, if_true] at hb hl
          by_cases heps : u.epsilon ≤ s.numNotFound + 1
          · -- the `break`
            refine ⟨[server], rest, rfl, ?_, Or.inl hfound, ?_⟩
            · intro x hx; simp only [List.mem_singleton] at hx; subst hx; exact Or.inr (Or.inl hemp)
            · simp only [List.filter_cons, hcount, if_true, List.filter_nil, List.length_cons, List.length_nil]
              omega
          · simp only [heps, if_false] at hb hl
            obtain ⟨pre, suf, h1, h2, h3, h4⟩ := ih (i + 1) { s with numNotFound := s.numNotFound + 1 } hf hn hb hl
            refine ⟨server :: pre, suf, by rw [h1]; rfl, ?_, ?_, ?_⟩
            · intro x hx
              rcases List.mem_cons.mp hx with rfl | hx
              · exact Or.inr (Or.inl hemp)
              · exact h2 x hx
            · rcases h3 with h | ⟨x, hx, hxf⟩
              · exact Or.inl h
              · exact Or.inr ⟨x, List.mem_cons_of_mem _ hx, hxf⟩
            · simp only [List.filter_cons, hcount, if_true, List.length_cons]
              simp only at h4
              omega
        · simp only [hfound, Bool.false_eq_true, if_false] at hb hl
          obtain ⟨pre, suf, h1, h2, h3, h4⟩ := ih (i + 1) s hf hn hb hl
          refine ⟨server :: pre, suf, by rw [h1]; rfl, ?_, ?_, ?_⟩
          · intro x hx
            rcases List.mem_cons.mp hx with rfl | hx
            · exact Or.inr (Or.inl hemp)
            · exact h2 x hx
          · rcases h3 with h | ⟨x, hx, hxf⟩
            · exact Or.inl h
            · exact Or.inr ⟨x, List.mem_cons_of_mem _ hx, hxf⟩
          · simp only [List.filter_cons, hcount, if_true, List.length_cons]
            omega
      · simp only [hemp, if_false] at hb hl
        have hcount : decide (u.isEmptyResp server) = false := by simp [Upd.isEmptyResp, hemp]
        by_cases hws : server ∈ u.withShares
        · simp only [hws, if_true] at hb hl
          obtain ⟨pre, suf, h1, h2, _, h4⟩ :=
            ih (i + 1) { s with lastFound := some i, numNotFound := 0 } hf hn hb hl
          refine ⟨server :: pre, suf, by rw [h1]; rfl, ?_, ?_, ?_⟩
          · intro x hx
            rcases List.mem_cons.mp hx with rfl | hx
            · exact Or.inr (Or.inr hws)
            · exact h2 x hx
          · exact Or.inr ⟨server, List.mem_cons_self, hbad, hemp, hws⟩
          · simp only [List.filter_cons, hcount, Bool.false_eq_true, if_false]
            simp only at h4
            omega
        · -- a server that has not answered: `last_not_responded` becomes set and stays set
          simp only [hws, if_false] at hb hl
          exfalso
          have key : ∀ (l : List Nat) (j : Nat) (t : Scan), t.lastNotResponded.isSome = true →
              (scanLoop u j l t).lastNotResponded.isSome = true := by
            intro l
            induction l with
            | nil => intro j t h; simpa [scanLoop] using h
            | cons a l ih2 =>
              intro j t h
              simp only [scanLoop]
              split
              · exact ih2 _ _ h
              · split
                · split
                  · split
                    · exact h
                    · exact ih2 _ _ h
                  · exact ih2 _ _ h
                · split
                  · exact ih2 _ _ h
                  · exact ih2 _ _ rfl
          have := key rest (i + 1) { s with lastNotResponded := some i, numNotResponded := s.numNotResponded + 1 } rfl
          rw [hl] at this
          exact absurd this (by simp)

end Tahoe.Mutable
