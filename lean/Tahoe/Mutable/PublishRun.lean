import Tahoe.Mutable.PublishDecision
/-
End-to-end model of the last phase of `Publish` (`mutable/publish.py` `finish_publishing` and what is below
and above it), so that "success" can be related to what the servers hold:

* storage server (C24 at checkstring level): a `slot_testv_and_readv_and_writev` request is executed or not;
  when executed it stores the share iff it answers `wrote = True`;
* the network: the answer is delivered, or the request fails before it is executed (`lostBefore`: server
  error, disconnect), or after (`lostAfter`: the answer is lost);
* the write proxy (`SDMFSlotWriteProxy.finish_publishing`; `MDMFSlotWriteProxy._write` and its result
  handler, which hands an answer *and a Failure* on unchanged): `proxyResult`;
* `finish_publishing`'s per-proxy chain `d.addErrback(self._connection_problem, writer)`,
  `d.addCallback(self._got_write_answer, writer, started)` — the *same* proxy is bound into both: a Failure
  becomes `_connection_problem(f, writer)` whose `None` result makes `_got_write_answer` return at once;
  an answer goes to `_got_write_answer`: `chainEvent`;
* `DeferredList` + `_push` in `DONE_STATE`: `Pub.run` (PublishDecision.lean).
Mathlib-free; driver `Drv/C47.lean` (`rpc` lines).
-/
namespace Tahoe.Mutable.Pub

inductive Rpc
  | answered (wrote : Bool) (rd : List (Nat × Nat))
  | lostBefore
  | lostAfter (wrote : Bool)
  deriving DecidableEq, Repr

/-- did the server store the new share? -/
def Rpc.stored : Rpc → Bool
  | .answered w _ => w
  | .lostBefore => false
  | .lostAfter w => w

/-- what the proxy's Deferred fires with: `some (wrote, read_data)`, or `none` = a Failure -/
def proxyResult : Rpc → Option (Bool × List (Nat × Nat))
  | .answered w rd => some (w, rd)
  | .lostBefore => none
  | .lostAfter _ => none

/-- the callback chain `finish_publishing` hangs on proxy `w`'s Deferred -/
def chainEvent (w : Writer) (r : Rpc) : Event :=
  match proxyResult r with
  | some (wrote, rd) => .answer w wrote rd
  | none => .problem w

def eventsOf (arrivals : List (Writer × Rpc)) : List Event := arrivals.map (fun a => chainEvent a.1 a.2)

/-- the publish as seen by its caller, given what happened to each request, in arrival order -/
def runRpcs (p : Pub) (arrivals : List (Writer × Rpc)) : Result := run p (eventsOf arrivals)

/-- the (server, shnum) slots that hold the new version afterwards because of this publish -/
def storedSlots (arrivals : List (Writer × Rpc)) : List (Nat × Nat) :=
  (arrivals.filter (fun a => a.2.stored)).map (fun a => (a.1.server, a.1.shnum))

/-- `Publish.publish` / `Publish.update`: "for (server, shnum) in self.goal: writer = writer_class(shnum, …)" —
    one write proxy per goal entry -/
def writersOfGoal (goal : List (Nat × Nat)) : List Writer := goal.map (fun e => ⟨e.2, e.1⟩)

end Tahoe.Mutable.Pub
