import Tahoe.Base.DrvUtil
import Tahoe.Mutable.ServerMap
/-! Line-protocol parsing of servermaps shared by the drivers `Drv/C14.lean` (VTABLE + ops, see `Drv/C11.lean`
    for the format).  Mathlib-free. -/
namespace Tahoe.Mutable.Parse
open Tahoe.Drv Tahoe.Mutable

def natsOfHex (s : String) : Option (List Nat) := (bytesOfHex s).map (·.map UInt8.toNat)

def parseVer (t : String) : Option VerInfo :=
  match t.splitOn "/" with
  | [sq, rh, iv, ss, dl, k, n, pf, off] => do
    let iv' ← if iv == "N" then some none else (natsOfHex iv).map some
    pure { seqnum := ← sq.toNat?, rootHash := ← natsOfHex rh, iv := iv', segsize := ← ss.toNat?,
           datalength := ← dl.toNat?, k := ← k.toNat?, n := ← n.toNat?, pfx := ← natsOfHex pf,
           offsets := ← parseNatList off }
  | _ => none

def parseVTable (t : String) : Option (List VerInfo) :=
  if t == "-" then some [] else (t.splitOn ";").mapM parseVer

def applyOp (tbl : List VerInfo) (sm : ServerMap) (op : String) : Option ServerMap :=
  match op.splitOn ":" with
  | ["a", s, sh, vi] => do
      let v ← tbl[← vi.toNat?]?
      pure (sm.addNewShare (← s.toNat?) (← sh.toNat?) v)
  | ["b", s, sh, cs] => do pure (sm.markBadShare (← s.toNat?) (← sh.toNat?) (← natsOfHex cs))
  | ["r", s] => do pure (sm.markReachable (← s.toNat?))
  | ["u", s] => do pure (sm.markUnreachable (← s.toNat?))
  | _ => none

def buildMap (tbl : List VerInfo) : ServerMap → List String → Option ServerMap
  | sm, [] => some sm
  | sm, op :: rest => match applyOp tbl sm op with
    | some sm' => buildMap tbl sm' rest
    | none => none

def insertSorted (lt : α → α → Bool) (a : α) : List α → List α
  | [] => [a]
  | b :: l => if lt a b then a :: b :: l else b :: insertSorted lt a l

def sortBy (lt : α → α → Bool) (l : List α) : List α := l.foldr (insertSorted lt) []

def vidx (tbl : List VerInfo) (v : VerInfo) : Nat := (tbl.findIdx? (· == v)).getD 999999

def pairLt (a b : Nat × Nat) : Bool := a.1 < b.1 || (a.1 == b.1 && a.2 < b.2)

def joinOr (sep : String) (l : List String) : String := if l.isEmpty then "-" else sep.intercalate l

def showNats (l : List Nat) : String := joinOr "," ((sortBy (· < ·) l).map toString)


end Tahoe.Mutable.Parse
