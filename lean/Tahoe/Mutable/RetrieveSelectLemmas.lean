import Tahoe.Mutable.RetrieveSelect
/-! Lemmas for the Retrieve share-selection loop (C10 liveness). -/
namespace Tahoe.RetrSel

def shn (l : List MShare) : List Nat := l.map (·.shnum)

theorem shn_append (a b : List MShare) : shn (a ++ b) = shn a ++ shn b := by simp [shn]

theorem mem_shn {l : List MShare} {s : MShare} (h : s ∈ l) : s.shnum ∈ shn l :=
  List.mem_map.2 ⟨s, h, rfl⟩

theorem inj_of_nodup : ∀ {l : List MShare}, (shn l).Nodup → ∀ {a b : MShare}, a ∈ l → b ∈ l →
    a.shnum = b.shnum → a = b := by
  intro l
  induction l with
  | nil => intro _ a b ha; simp at ha
  | cons x xs ih =>
    intro h a b ha hb e
    simp only [shn, List.map_cons, List.nodup_cons] at h
    obtain ⟨hx, hxs⟩ := h
    simp only [List.mem_cons] at ha hb
    rcases ha with ha | ha <;> rcases hb with hb | hb
    · rw [ha, hb]
    · subst ha; exact absurd (e ▸ mem_shn hb) hx
    · subst hb; exact absurd (e.symm ▸ mem_shn ha) hx
    · exact ih hxs ha hb e

/-- the unused shares are exactly those behind the active prefix -/
theorem unused_eq (act rest : List MShare) (h : (shn (act ++ rest)).Nodup) :
    (act ++ rest).filter (fun s => !act.any (fun a => a.shnum == s.shnum)) = rest := by
  rw [shn_append, List.nodup_append] at h
  obtain ⟨_, _, hd⟩ := h
  rw [List.filter_append]
  have h1 : act.filter (fun s => !act.any (fun a => a.shnum == s.shnum)) = [] := by
    rw [List.filter_eq_nil_iff]
    intro s hs
    have : act.any (fun a => a.shnum == s.shnum) = true := List.any_eq_true.2 ⟨s, hs, by simp⟩
    simp [this]
  have h2 : rest.filter (fun s => !act.any (fun a => a.shnum == s.shnum)) = rest := by
    rw [List.filter_eq_self]
    intro s hs
    simp only [Bool.not_eq_eq_eq_not, Bool.not_true, List.any_eq_false, beq_iff_eq]
    intro a ha e
    exact hd _ (mem_shn ha) _ (mem_shn hs) e
  rw [h1, h2, List.nil_append]

/-- dropping the bad candidates by share number removes exactly them -/
theorem drop_bad_eq (act cand rest : List MShare) (h : (shn (act ++ (cand ++ rest))).Nodup) :
    (act ++ (cand ++ rest)).filter (fun s => !(cand.filter (fun s => !s.good)).any (fun b => b.shnum == s.shnum))
      = act ++ (cand.filter (·.good) ++ rest) := by
  rw [shn_append, shn_append, List.nodup_append] at h
  obtain ⟨_, h2, hd1⟩ := h
  rw [List.nodup_append] at h2
  obtain ⟨hc, _, hd2⟩ := h2
  rw [List.filter_append, List.filter_append]
  congr 1
  · rw [List.filter_eq_self]
    intro s hs
    simp only [Bool.not_eq_eq_eq_not, Bool.not_true, List.any_eq_false, beq_iff_eq, List.mem_filter]
    intro b hb e
    exact hd1 _ (mem_shn hs) _ (List.mem_append_left _ (mem_shn hb.1)) e.symm
  · congr 1
    · apply List.filter_congr
      intro s hs
      cases hg : s.good with
      | true =>
        simp only [Bool.not_eq_eq_eq_not, Bool.not_true, List.any_eq_false, beq_iff_eq, List.mem_filter]
        intro b hb e
        have := inj_of_nodup hc hb.1 hs e
        subst this
        simp [hg] at hb
      | false =>
        simp only [Bool.not_eq_eq_eq_not, Bool.not_false, List.any_eq_true, beq_iff_eq, List.mem_filter]
        exact ⟨s, ⟨hs, by simp [hg]⟩, rfl⟩
    · rw [List.filter_eq_self]
      intro s hs
      simp only [Bool.not_eq_eq_eq_not, Bool.not_true, List.any_eq_false, beq_iff_eq, List.mem_filter]
      intro b hb e
      exact hd2 _ (mem_shn hb.1) _ (mem_shn hs) e

/-- the loop with "drop only the bad share", started from an all-good active prefix -/
theorem retrLoop_fixed_ok (k : Nat) : ∀ (fuel : Nat) (act rest : List MShare),
    (shn (act ++ rest)).Nodup → (∀ a, a ∈ act → a.good = true) → act.length ≤ k →
    k ≤ act.length + (rest.filter (·.good)).length → rest.length < fuel →
    ∃ used, retrLoop false k fuel (act ++ rest) act = .ok used ∧ used.length = k ∧
      ∀ n, n ∈ used → ∃ s, s ∈ act ++ rest ∧ s.good = true ∧ s.shnum = n := by
  intro fuel
  induction fuel with
  | zero => intro act rest _ _ _ _ h; omega
  | succ fuel ih =>
    intro act rest hnd hact hle hk hfuel
    have hlen : (rest.filter (·.good)).length ≤ rest.length := List.length_filter_le _ _
    have hneed : k - act.length ≤ rest.length := by omega
    have hcl : (rest.take (k - act.length)).length = k - act.length := by
      rw [List.length_take]; omega
    unfold retrLoop
    simp only [unused_eq act rest hnd, hcl, Nat.lt_irrefl, if_false, Bool.false_eq_true]
    split
    · -- no bad candidate: done
      rename_i hbad
      have hgood : ∀ s, s ∈ rest.take (k - act.length) → s.good = true := by
        intro s hs
        have : (rest.take (k - act.length)).filter (fun s => !s.good) = [] := by
          simpa [List.isEmpty_iff] using hbad
        rw [List.filter_eq_nil_iff] at this
        have := this s hs
        simpa using this
      refine ⟨_, rfl, by simp [hcl]; omega, ?_⟩
      intro n hn
      simp only [List.map_append, List.mem_append, List.mem_map] at hn
      rcases hn with ⟨s, hs, rfl⟩ | ⟨s, hs, rfl⟩
      · exact ⟨s, List.mem_append_left _ hs, hact s hs, rfl⟩
      · exact ⟨s, List.mem_append_right _ (List.mem_of_mem_take hs), hgood s hs, rfl⟩
    · rename_i hbad
      -- split rest into the candidates and what is behind them
      have hsplit : rest = rest.take (k - act.length) ++ rest.drop (k - act.length) :=
        (List.take_append_drop _ _).symm
      have hnd' : (shn (act ++ (rest.take (k - act.length) ++ rest.drop (k - act.length)))).Nodup := by
        rw [← hsplit]; exact hnd
      have hrem := drop_bad_eq act (rest.take (k - act.length)) (rest.drop (k - act.length)) hnd'
      rw [← hsplit] at hrem
      rw [hrem, ← List.append_assoc]
      have hneed1 : 1 ≤ k - act.length := by
        cases hz : k - act.length with
        | zero => rw [hz] at hbad; simp at hbad
        | succ n => omega
      have hcount : (rest.filter (·.good)).length =
          ((rest.take (k - act.length)).filter (·.good)).length + ((rest.drop (k - act.length)).filter (·.good)).length := by
        conv => lhs; rw [hsplit]
        rw [List.filter_append, List.length_append]
      have hcg : ((rest.take (k - act.length)).filter (·.good)).length ≤ k - act.length := by
        have := List.length_filter_le (·.good) (rest.take (k - act.length)); omega
      have hsub : List.Sublist (act ++ (rest.take (k - act.length)).filter (·.good) ++ rest.drop (k - act.length)) (act ++ rest) := by
        rw [List.append_assoc, ← hrem]; exact List.filter_sublist
      obtain ⟨used, hu, hul, hum⟩ := ih (act ++ (rest.take (k - act.length)).filter (·.good)) (rest.drop (k - act.length))
        (List.Nodup.sublist (List.Sublist.map _ hsub) hnd)
        (by
          intro a ha
          rcases List.mem_append.1 ha with ha | ha
          · exact hact a ha
          · exact (List.mem_filter.1 ha).2)
        (by rw [List.length_append]; omega)
        (by rw [List.length_append]; omega)
        (by rw [List.length_drop]; omega)
      refine ⟨used, hu, hul, ?_⟩
      intro n hn
      obtain ⟨s, hs, hg, hn'⟩ := hum n hn
      exact ⟨s, hsub.subset hs, hg, hn'⟩

theorem inj_of_nodup_map (f : MShare → Nat) : ∀ {l : List MShare}, (l.map f).Nodup → ∀ {a b : MShare}, a ∈ l → b ∈ l →
    f a = f b → a = b := by
  intro l
  induction l with
  | nil => intro _ a b ha; simp at ha
  | cons x xs ih =>
    intro h a b ha hb e
    simp only [List.map_cons, List.nodup_cons] at h
    obtain ⟨hx, hxs⟩ := h
    simp only [List.mem_cons] at ha hb
    rcases ha with ha | ha <;> rcases hb with hb | hb
    · rw [ha, hb]
    · subst ha; exact absurd (e ▸ List.mem_map.2 ⟨b, hb, rfl⟩) hx
    · subst hb; exact absurd (e.symm ▸ List.mem_map.2 ⟨a, ha, rfl⟩) hx
    · exact ih hxs ha hb e

/-- when every server holds one share, dropping a bad share's server is dropping the share -/
theorem retrLoop_dropSrv_eq (k : Nat) : ∀ (fuel : Nat) (rem act : List MShare),
    (rem.map (·.server)).Nodup → (rem.map (·.shnum)).Nodup →
    retrLoop true k fuel rem act = retrLoop false k fuel rem act := by
  intro fuel
  induction fuel with
  | zero => intro rem act _ _; rfl
  | succ fuel ih =>
    intro rem act hs hn
    unfold retrLoop
    simp only [if_true, Bool.false_eq_true, if_false]
    split
    · rfl
    · split
      · rfl
      · have hcongr : rem.filter (fun s => !((rem.filter (fun s => !act.any (fun a => a.shnum == s.shnum))).take (k - act.length)
              |>.filter (fun s => !s.good)).any (fun b => b.server == s.server))
            = rem.filter (fun s => !((rem.filter (fun s => !act.any (fun a => a.shnum == s.shnum))).take (k - act.length)
              |>.filter (fun s => !s.good)).any (fun b => b.shnum == s.shnum)) := by
          apply List.filter_congr
          intro s hsm
          congr 1
          rw [Bool.eq_iff_iff]
          simp only [List.any_eq_true, beq_iff_eq, List.mem_filter]
          constructor
          · rintro ⟨b, ⟨hb, hg⟩, e⟩
            have hbm : b ∈ rem := (List.mem_filter.1 (List.mem_of_mem_take hb)).1
            have := inj_of_nodup_map (·.server) hs hbm hsm e
            exact ⟨b, ⟨hb, hg⟩, by rw [this]⟩
          · rintro ⟨b, ⟨hb, hg⟩, e⟩
            have hbm : b ∈ rem := (List.mem_filter.1 (List.mem_of_mem_take hb)).1
            have := inj_of_nodup_map (·.shnum) hn hbm hsm e
            exact ⟨b, ⟨hb, hg⟩, by rw [this]⟩
        rw [hcongr]
        exact ih _ _ (List.Nodup.sublist (List.Sublist.map _ List.filter_sublist) hs)
          (List.Nodup.sublist (List.Sublist.map _ List.filter_sublist) hn)

theorem pairLe_trans (a b c : Nat × Nat) (h1 : pairLe a b = true) (h2 : pairLe b c = true) : pairLe a c = true := by
  simp only [pairLe, Bool.or_eq_true, decide_eq_true_eq, Bool.and_eq_true, beq_iff_eq] at *
  omega

theorem pairLe_total (a b : Nat × Nat) : (pairLe a b || pairLe b a) = true := by
  simp only [pairLe, Bool.or_eq_true, decide_eq_true_eq, Bool.and_eq_true, beq_iff_eq]
  omega

theorem pairLe_antisymm (a b : Nat × Nat) (h1 : pairLe a b = true) (h2 : pairLe b a = true) : a = b := by
  simp only [pairLe, Bool.or_eq_true, decide_eq_true_eq, Bool.and_eq_true, beq_iff_eq] at *
  exact Prod.ext (by omega) (by omega)

/-- sorting forgets the insertion order -/
theorem mergeSort_eq_of_perm (d1 d2 : Offsets) (h : d1.Perm d2) : d1.mergeSort pairLe = d2.mergeSort pairLe := by
  apply List.Perm.eq_of_pairwise (le := fun a b => pairLe a b = true)
  · intro a b _ _ h1 h2; exact pairLe_antisymm a b h1 h2
  · exact List.pairwise_mergeSort pairLe_trans pairLe_total d1
  · exact List.pairwise_mergeSort pairLe_trans pairLe_total d2
  · exact ((List.mergeSort_perm d1 pairLe).trans h).trans (List.mergeSort_perm d2 pairLe).symm

/-- a sorted permutation of the dict is what sorting gives -/
theorem mergeSort_eq_of_sorted_perm (d t : Offsets) (hp : d.Perm t) (hs : t.Pairwise (fun a b => pairLe a b = true)) :
    d.mergeSort pairLe = t := by
  apply List.Perm.eq_of_pairwise (le := fun a b => pairLe a b = true)
  · intro a b _ _ h1 h2; exact pairLe_antisymm a b h1 h2
  · exact List.pairwise_mergeSort pairLe_trans pairLe_total d
  · exact hs
  · exact (List.mergeSort_perm d pairLe).trans hp

/-! ### `best` picks the largest recoverable verinfo -/

theorem vlt_irrefl (a : VerInfo) : vlt a a = false := by
  simp [vlt]

theorem vlt_trichotomy (a b : VerInfo) (h1 : vlt a b = false) (h2 : vlt b a = false) : a = b := by
  obtain ⟨a1, a2, a3, a4⟩ := a
  obtain ⟨b1, b2, b3, b4⟩ := b
  simp only [vlt, Bool.or_eq_false_iff, decide_eq_false_iff_not, Bool.and_eq_false_imp, beq_iff_eq, Nat.not_lt] at h1 h2
  have e1 : a1 = b1 := by omega
  subst e1
  have h1' := h1.2 rfl
  have h2' := h2.2 rfl
  have e2 : a2 = b2 := by omega
  subst e2
  have h1'' := h1'.2 rfl
  have h2'' := h2'.2 rfl
  have e3 : a3 = b3 := by omega
  subst e3
  have := h1''.2 rfl
  have := h2''.2 rfl
  have e4 : a4 = b4 := by omega
  subst e4
  rfl

/-- the fold inside `best`, with the recoverability test as a parameter -/
def bestStep (rec : VerInfo → Bool) (acc : Option VerInfo) (s : MShare) : Option VerInfo :=
  if rec s.verinfo then
    match acc with
    | none => some s.verinfo
    | some b => if vlt b s.verinfo then some s.verinfo else some b
  else acc

theorem best_eq_foldl (k : Nat) (m : List MShare) : best k m = m.foldl (bestStep (recoverable k m)) none := rfl

theorem bestStep_keeps_max (rec : VerInfo → Bool) (v : VerInfo) (l : List MShare)
    (hmax : ∀ s, s ∈ l → rec s.verinfo = true → vlt v s.verinfo = false) :
    l.foldl (bestStep rec) (some v) = some v := by
  induction l with
  | nil => rfl
  | cons s rest ih =>
    simp only [List.foldl_cons]
    have hstep : bestStep rec (some v) s = some v := by
      unfold bestStep
      split
      · rename_i hr
        simp [hmax s List.mem_cons_self hr]
      · rfl
    rw [hstep]
    exact ih (fun t ht => hmax t (List.mem_cons_of_mem _ ht))

theorem bestStep_finds_max (rec : VerInfo → Bool) (v : VerInfo) (hv : rec v = true) (l : List MShare)
    (hmem : ∃ s, s ∈ l ∧ s.verinfo = v)
    (hmax : ∀ s, s ∈ l → rec s.verinfo = true → vlt v s.verinfo = false) :
    ∀ acc : Option VerInfo, (acc = none ∨ ∃ b, acc = some b ∧ vlt v b = false) →
      l.foldl (bestStep rec) acc = some v := by
  induction l with
  | nil => obtain ⟨s, hs, _⟩ := hmem; simp at hs
  | cons s rest ih =>
    intro acc hacc
    simp only [List.foldl_cons]
    have hmax' : ∀ t, t ∈ rest → rec t.verinfo = true → vlt v t.verinfo = false :=
      fun t ht => hmax t (List.mem_cons_of_mem _ ht)
    by_cases hsv : s.verinfo = v
    · -- this share carries v: the accumulator becomes v and stays
      have hstep : bestStep rec acc s = some v := by
        unfold bestStep
        rw [hsv, hv]
        simp only [if_true]
        rcases hacc with h | ⟨b, h, hb⟩
        · rw [h]
        · rw [h]
          simp only
          split
          · rfl
          · rename_i hlt
            have : vlt b v = false := by simpa using hlt
            rw [vlt_trichotomy v b hb this]
      rw [hstep]
      exact bestStep_keeps_max rec v rest hmax'
    · have hmem' : ∃ t, t ∈ rest ∧ t.verinfo = v := by
        obtain ⟨t, ht, htv⟩ := hmem
        rcases List.mem_cons.1 ht with h | h
        · subst h; exact absurd htv hsv
        · exact ⟨t, h, htv⟩
      apply ih hmem' hmax'
      unfold bestStep
      split
      · rename_i hr
        have hle := hmax s List.mem_cons_self hr
        rcases hacc with h | ⟨b, h, hb⟩
        · rw [h]; exact Or.inr ⟨_, rfl, hle⟩
        · rw [h]
          simp only
          split
          · exact Or.inr ⟨_, rfl, hle⟩
          · exact Or.inr ⟨b, rfl, hb⟩
      · exact hacc

end Tahoe.RetrSel
