import Tahoe.Mutable.Race
/-! Helper lemmas about the concurrent-writers model (used by `Tahoe/Props/C12.lean`). -/
namespace Tahoe.Mutable.Race

@[simp] theorem upd_same {α β : Type} [DecidableEq α] (f : α → β) (a : α) (b : β) : upd f a b a = b := by
  simp [upd]

theorem upd_other {α β : Type} [DecidableEq α] (f : α → β) (a x : α) (b : β) (h : x ≠ a) : upd f a b x = f x := by
  simp [upd, h]

/-! #### flags only ever get set -/

theorem step_refused_mono (cfg : Cfg) (st : St) (e : Ev) (w : Nat) (h : st.refused w = true) :
    (step cfg st e).refused w = true := by
  cases e with
  | survey w' s => simp only [step]; split <;> exact h
  | write w' slot =>
    simp only [step]
    split
    · exact h
    · simp only [upd]; split <;> simp_all

theorem step_surprised_mono (cfg : Cfg) (st : St) (e : Ev) (w : Nat) (h : st.surprised w = true) :
    (step cfg st e).surprised w = true := by
  cases e with
  | survey w' s => simp only [step]; split <;> exact h
  | write w' slot =>
    simp only [step]
    split <;> (by_cases hw : w = w' <;> simp [upd, hw, h]) <;> simp_all

theorem run_refused_mono (cfg : Cfg) (st : St) (evs : List Ev) (w : Nat) (h : st.refused w = true) :
    (run cfg st evs).refused w = true := by
  induction evs generalizing st with
  | nil => exact h
  | cons e evs ih => exact ih _ (step_refused_mono cfg st e w h)

theorem run_surprised_mono (cfg : Cfg) (st : St) (evs : List Ev) (w : Nat) (h : st.surprised w = true) :
    (run cfg st evs).surprised w = true := by
  induction evs generalizing st with
  | nil => exact h
  | cons e evs ih => exact ih _ (step_surprised_mono cfg st e w h)

/-! #### shares are never deleted; a writer's belief is always about a share that exists -/

/-- every belief `seen w slot = some _` is about a populated slot -/
def SeenPop (st : St) : Prop := ∀ w slot, st.seen w slot ≠ none → st.store slot ≠ none

theorem step_store_populated (cfg : Cfg) (st : St) (e : Ev) (slot : Slot) (h : st.store slot ≠ none) :
    (step cfg st e).store slot ≠ none := by
  cases e with
  | survey w s => simp only [step]; split <;> exact h
  | write w sl =>
    simp only [step]
    split
    · simp only [upd]
      split
      · simp
      · exact h
    · exact h

theorem step_survey_store (cfg : Cfg) (st : St) (w s : Nat) : (step cfg st (.survey w s)).store = st.store := by
  simp only [step]; split <;> rfl

theorem step_seenPop (cfg : Cfg) (st : St) (e : Ev) (h : SeenPop st) : SeenPop (step cfg st e) := by
  intro w slot hseen
  cases e with
  | survey w' s =>
    rw [step_survey_store]
    simp only [step] at hseen
    split at hseen
    · exact h w slot hseen
    · simp only [upd] at hseen
      split at hseen
      · rename_i hww; subst hww
        dsimp only at hseen
        split at hseen
        · exact hseen
        · exact h _ slot hseen
      · exact h w slot hseen
  | write w' sl =>
    have hpop : st.store slot ≠ none → (step cfg st (.write w' sl)).store slot ≠ none :=
      step_store_populated cfg st _ slot
    simp only [step] at hseen
    split at hseen
    · rename_i heq
      by_cases hs : slot = sl
      · subst hs
        simp only [step, heq, if_true]; simp [upd]
      · apply hpop
        simp only [upd] at hseen
        split at hseen
        · rename_i hww; subst hww
          rw [upd_other _ _ _ _ hs] at hseen
          exact h _ slot hseen
        · exact h w slot hseen
    · exact hpop (h w slot hseen)

theorem run_seenPop (cfg : Cfg) (st : St) (evs : List Ev) (h : SeenPop st) : SeenPop (run cfg st evs) := by
  induction evs generalizing st with
  | nil => exact h
  | cons e evs ih => exact ih _ (step_seenPop cfg st e h)

theorem run_store_populated (cfg : Cfg) (st : St) (evs : List Ev) (slot : Slot) (h : st.store slot ≠ none) :
    (run cfg st evs).store slot ≠ none := by
  induction evs generalizing st with
  | nil => exact h
  | cons e evs ih => exact ih _ (step_store_populated cfg st e slot h)

/-- after any write attempt on a slot the slot holds a share: the write happened, or it was refused because
    a share is there -/
theorem write_populates (cfg : Cfg) (st : St) (w : Nat) (slot : Slot) (h : SeenPop st) :
    (step cfg st (.write w slot)).store slot ≠ none := by
  simp only [step]
  split
  · simp [upd]
  · rename_i hne
    intro hnone
    simp only at hnone
    by_cases hs : st.seen w slot = none
    · exact hne (by rw [hnone, hs])
    · exact h w slot hs hnone

theorem run_append (cfg : Cfg) (st : St) (a b : List Ev) : run cfg st (a ++ b) = run cfg (run cfg st a) b := by
  simp [run, List.foldl_append]

/-- a slot some writer attempted to write in the schedule is populated at the end -/
theorem attempted_populated (cfg : Cfg) (st : St) (evs : List Ev) (w : Nat) (slot : Slot) (h : SeenPop st)
    (hm : Ev.write w slot ∈ evs) : (run cfg st evs).store slot ≠ none := by
  obtain ⟨a, b, rfl⟩ := List.append_of_mem hm
  rw [run_append]
  have h1 := run_seenPop cfg st a h
  show (run cfg (run cfg st a) (Ev.write w slot :: b)).store slot ≠ none
  simp only [run, List.foldl_cons]
  exact run_store_populated cfg _ b slot (write_populates cfg _ w slot h1)

/-! #### every stored version is the old one or some writer's -/

def VersIn (vers : List Ver) (st : St) : Prop := ∀ slot v, st.store slot = some v → v ∈ vers

theorem step_versIn (cfg : Cfg) (vers : List Ver) (st : St) (e : Ev) (hv : ∀ w, cfg.ver w ∈ vers)
    (h : VersIn vers st) : VersIn vers (step cfg st e) := by
  intro slot v hs
  cases e with
  | survey w s => simp only [step] at hs; split at hs <;> exact h slot v hs
  | write w sl =>
    simp only [step] at hs
    split at hs
    · simp only [upd] at hs
      split at hs
      · simp only [Option.some.injEq] at hs; rw [← hs]; exact hv w
      · exact h slot v hs
    · exact h slot v hs

theorem run_versIn (cfg : Cfg) (vers : List Ver) (st : St) (evs : List Ev) (hv : ∀ w, cfg.ver w ∈ vers)
    (h : VersIn vers st) : VersIn vers (run cfg st evs) := by
  induction evs generalizing st with
  | nil => exact h
  | cons e evs ih => exact ih _ (step_versIn cfg vers st e hv h)

/-! #### pigeonhole over share numbers -/

theorem length_filter_split {α : Type} (p : α → Bool) (l : List α) :
    l.length = (l.filter p).length + (l.filter (fun x => !p x)).length := by
  induction l with
  | nil => rfl
  | cons a l ih =>
    simp only [List.filter_cons, List.length_cons]
    cases p a <;> simp <;> omega

/-- if every share number of a duplicate-free list `S` carries one of the versions `vers` and
    `|vers| · k ≤ |S|`, some version is carried by at least `k` of them -/
theorem pigeonhole (holds : Ver → Nat → Prop) (k : Nat) :
    ∀ (vers : List Ver) (S : List Nat), vers ≠ [] → S.Nodup →
      (∀ sh ∈ S, ∃ v ∈ vers, holds v sh) → vers.length * k ≤ S.length →
      ∃ v ∈ vers, ∃ shs : List Nat, shs.Nodup ∧ k ≤ shs.length ∧ ∀ sh ∈ shs, sh ∈ S ∧ holds v sh := by
  intro vers
  induction vers with
  | nil => intro S h; exact absurd rfl h
  | cons v rest ih =>
    intro S _ hnd hall hlen
    classical
    let p : Nat → Bool := fun sh => decide (holds v sh)
    have hsplit := length_filter_split p S
    by_cases hbig : k ≤ (S.filter p).length
    · refine ⟨v, List.mem_cons_self, S.filter p, List.Nodup.sublist List.filter_sublist hnd, hbig, ?_⟩
      intro sh hsh
      simp only [List.mem_filter, p, decide_eq_true_eq] at hsh
      exact hsh
    · have hS2 : ∀ sh ∈ S.filter (fun x => !p x), ∃ v' ∈ rest, holds v' sh := by
        intro sh hsh
        simp only [List.mem_filter, p, Bool.not_eq_true', decide_eq_false_iff_not] at hsh
        obtain ⟨v', hv', hh⟩ := hall sh hsh.1
        rcases List.mem_cons.mp hv' with rfl | hv'
        · exact absurd hh hsh.2
        · exact ⟨v', hv', hh⟩
      by_cases hrest : rest = []
      · subst hrest
        exfalso
        have hempty : S.filter (fun x => !p x) = [] := by
          apply List.eq_nil_iff_forall_not_mem.mpr
          intro sh hsh
          obtain ⟨v', hv', _⟩ := hS2 sh hsh
          simp at hv'
        rw [hempty] at hsplit
        simp only [List.length_cons, List.length_nil, Nat.zero_add, Nat.one_mul, Nat.add_zero] at hlen hsplit
        omega
      · have hlen2 : rest.length * k ≤ (S.filter (fun x => !p x)).length := by
          simp only [List.length_cons, Nat.add_mul, Nat.one_mul] at hlen
          omega
        obtain ⟨v', hv', shs, h1, h2, h3⟩ :=
          ih (S.filter (fun x => !p x)) hrest (List.Nodup.sublist List.filter_sublist hnd) hS2 hlen2
        refine ⟨v', List.mem_cons_of_mem _ hv', shs, h1, h2, fun sh hsh => ?_⟩
        obtain ⟨hm, hh⟩ := h3 sh hsh
        exact ⟨(List.mem_filter.mp hm).1, hh⟩

/-- a belief stays "no share" under every event except the writer's own survey of that server or own write there -/
theorem step_seen_none (cfg : Cfg) (st : St) (e : Ev) (w : Nat) (slot : Slot) (h : st.seen w slot = none)
    (h1 : e ≠ .survey w slot.1) (h2 : e ≠ .write w slot) : (step cfg st e).seen w slot = none := by
  cases e with
  | survey w' srv =>
    simp only [step]
    split
    · exact h
    · by_cases hw : w = w'
      · subst hw
        have hs : ¬ slot.1 = srv := fun hs => h1 (by rw [hs])
        simp [upd, hs, h]
      · simp [upd, hw, h]
  | write w' sl =>
    simp only [step]
    split
    · by_cases hw : w = w'
      · subst hw
        have hs : ¬ slot = sl := fun hs => h2 (by rw [hs])
        simp [upd, hs, h]
      · simp [upd, hw, h]
    · exact h

theorem run_seen_none (cfg : Cfg) (st : St) (evs : List Ev) (w : Nat) (slot : Slot) (h : st.seen w slot = none)
    (hev : ∀ e ∈ evs, e ≠ .survey w slot.1 ∧ e ≠ .write w slot) : (run cfg st evs).seen w slot = none := by
  induction evs generalizing st with
  | nil => exact h
  | cons e evs ih =>
    simp only [run, List.foldl_cons]
    exact ih _ (step_seen_none cfg st e w slot h (hev e List.mem_cons_self).1 (hev e List.mem_cons_self).2)
      (fun e' he' => hev e' (List.mem_cons_of_mem _ he'))

end Tahoe.Mutable.Race
