import Tahoe.Mutable.ServerMap
/-
Several passes of `ServermapUpdater` into ONE `ServerMap` (`MutableFileNode.modify()`:
`get_best_mutable_version()` then `MutableFileVersion._modify_and_retry`'s own `_update_servermap()`;
the MODE_CHECK retry after `UncoordinatedWriteError`; the MDMF update path).  What a pass does to the
map, as seen from the `ServerMap` API (`mutable/servermap.py`):
* a share that validates      → `_got_signature_one_share` → `add_new_share(server, shnum, verinfo, now)`
* a query that errors         → `_query_failed` → `mark_server_unreachable(server)` (the entries recorded
                                 for that server by an earlier pass stay)
* a query that was processed  → `_done_processing` → `mark_server_reachable(server)`
Nothing else touches `_known_shares` during a survey (a corrupt share → `mark_bad_share`, not modelled
here: a share rejected as corrupt is not an observed version).  Mathlib-free.
-/
namespace Tahoe.Mutable

inductive SurveyEv
  | share (server shnum : Nat) (v : VerInfo)
  | failed (server : Nat)
  | answered (server : Nat)
  deriving DecidableEq, Repr

def applySurveyEv (sm : ServerMap) : SurveyEv → ServerMap
  | .share s sh v => sm.addNewShare s sh v
  | .failed s => sm.markUnreachable s
  | .answered s => sm.markReachable s

/-- the map after the given passes (each a list of events in the order the answers were processed) -/
def resurvey (sm : ServerMap) (passes : List (List SurveyEv)) : ServerMap :=
  passes.foldl (fun m p => p.foldl applySurveyEv m) sm

end Tahoe.Mutable
