import Tahoe.Mutable.Content
/-! Helper lemmas for C09 (slices of a splice, `TransformingUploadable.read`, the publisher's push loop).
    Property theorems are in `Tahoe/Props/C09.lean`. -/
namespace Tahoe.Mutable.Content

theorem getElem?_slice (b : Bytes) (i j n : Nat) :
    (slice b i j)[n]? = if i + n < j then b[i + n]? else none := by
  simp only [slice, List.getElem?_drop, List.getElem?_take]

theorem length_slice (b : Bytes) (i j : Nat) : (slice b i j).length = min j b.length - i := by
  simp [slice]

theorem slice_append_slice (b : Bytes) (i j k : Nat) (h1 : i ≤ j) (h2 : j ≤ k) :
    slice b i j ++ slice b j k = slice b i k := by
  apply List.ext_getElem?
  intro n
  simp only [List.getElem?_append, length_slice, getElem?_slice]
  by_cases hj : j ≤ b.length
  · have : min j b.length = j := by omega
    rw [this]
    split
    · have : i + n < j := by omega
      simp [this]; intro; omega
    · have : ¬ i + n < j := by omega
      have e : j + (n - (j - i)) = i + n := by omega
      rw [e]
  · have : min j b.length = b.length := by omega
    rw [this]
    split
    · have : i + n < j := by omega
      simp [this]; intro; omega
    · have e1 : b[j + (n - (b.length - i))]? = none := List.getElem?_eq_none (by omega)
      have e2 : b[i + n]? = none := List.getElem?_eq_none (by omega)
      simp [e1, e2]

theorem slice_empty (b : Bytes) (i : Nat) : slice b i i = [] := by
  apply List.ext_getElem?; intro n; simp [getElem?_slice]; intro; omega


theorem getElem?_splice (old data : Bytes) (off x : Nat) (h : off ≤ old.length) :
    (splice old off data)[x]? =
      if x < off then old[x]? else if x < off + data.length then data[x - off]? else old[x]? := by
  simp only [splice, List.getElem?_append, List.length_take, List.length_append, List.getElem?_take, List.getElem?_drop]
  have : min off old.length = off := by omega
  rw [this]
  by_cases h1 : x < off
  · have : x < off + data.length := by omega
    simp [h1, this]
  · by_cases h2 : x < off + data.length
    · simp [h1, h2]
    · simp only [h1, h2, if_false]; congr 1; omega

theorem length_splice (old data : Bytes) (off : Nat) (h : off ≤ old.length) :
    (splice old off data).length = max old.length (off + data.length) := by
  simp [splice]; omega

/-- old bytes before the write position -/
theorem slice_splice_before (old data : Bytes) (off a b : Nat) (h : off ≤ old.length) (hb : b ≤ off) :
    slice (splice old off data) a b = slice old a b := by
  apply List.ext_getElem?; intro n
  simp only [getElem?_slice, getElem?_splice _ _ _ _ h]
  split
  · have : a + n < off := by omega
    simp [this]
  · rfl

/-- the new bytes -/
theorem slice_splice_new (old data : Bytes) (off a b : Nat) (h : off ≤ old.length) (ha : off ≤ a)
    (hb : b ≤ off + data.length) :
    slice (splice old off data) a b = slice data (a - off) (b - off) := by
  apply List.ext_getElem?; intro n
  simp only [getElem?_slice, getElem?_splice _ _ _ _ h]
  by_cases h1 : a + n < b
  · have h2 : ¬ a + n < off := by omega
    have h3 : a + n < off + data.length := by omega
    have h4 : a - off + n < b - off := by omega
    simp only [h1, h2, h3, h4, if_true, if_false]; congr 1; omega
  · have h4 : ¬ a - off + n < b - off := by omega
    simp [h1, h4]

/-- old bytes after the written range -/
theorem slice_splice_after (old data : Bytes) (off a b : Nat) (h : off ≤ old.length)
    (ha : off + data.length ≤ a) :
    slice (splice old off data) a b = slice old a b := by
  apply List.ext_getElem?; intro n
  simp only [getElem?_slice, getElem?_splice _ _ _ _ h]
  split
  · have h2 : ¬ a + n < off := by omega
    have h3 : ¬ a + n < off + data.length := by omega
    simp [h2, h3]
  · rfl

theorem slice_slice (b : Bytes) (p q i j : Nat) (h : p + j ≤ q) :
    slice (slice b p q) i j = slice b (p + i) (p + j) := by
  apply List.ext_getElem?; intro n
  simp only [getElem?_slice]
  by_cases h1 : i + n < j
  · have : p + (i + n) < q := by omega
    have h2 : p + i + n < p + j := by omega
    simp only [h1, this, h2, if_true]; congr 1; omega
  · have h2 : ¬ p + i + n < p + j := by omega
    simp [h1, h2]


theorem slice_eq_nil (b : Bytes) (i j : Nat) (h : j ≤ i) : slice b i j = [] := by
  apply List.ext_getElem?; intro n; simp [getElem?_slice]; intro; omega

/-- the three zones of a slice of the splice -/
theorem slice_splice (old data : Bytes) (off P Q : Nat) (h : off ≤ old.length) :
    slice (splice old off data) P Q =
      slice old P (min Q off) ++ slice data (max P off - off) (min Q (off + data.length) - off)
        ++ slice old (max P (off + data.length)) Q := by
  by_cases hPQ : P ≤ Q
  · have e1 : slice old P (min Q off) = slice (splice old off data) P (max P (min Q off)) := by
      by_cases hh : P ≤ min Q off
      · rw [slice_splice_before _ _ _ _ _ h (by omega)]; congr 1; omega
      · rw [slice_eq_nil _ _ _ (by omega), slice_eq_nil _ _ _ (by omega)]
    have e2 : slice data (max P off - off) (min Q (off + data.length) - off)
        = slice (splice old off data) (max P (min Q off)) (max (max P (min Q off)) (min Q (off + data.length))) := by
      by_cases hh : max P off ≤ min Q (off + data.length)
      · rw [slice_splice_new _ _ _ _ _ h (by omega) (by omega)]; congr 1 <;> omega
      · rw [slice_eq_nil _ _ _ (by omega), slice_eq_nil _ _ _ (by omega)]
    have e3 : slice old (max P (off + data.length)) Q
        = slice (splice old off data) (max (max P (min Q off)) (min Q (off + data.length))) Q := by
      by_cases hh : max P (off + data.length) ≤ Q
      · rw [slice_splice_after _ _ _ _ _ h (by omega)]; congr 1; omega
      · rw [slice_eq_nil _ _ _ (by omega), slice_eq_nil _ _ _ (by omega)]
    rw [e1, e2, e3, slice_append_slice _ _ _ _ (by omega) (by omega), slice_append_slice _ _ _ _ (by omega) (by omega)]
  · rw [slice_eq_nil _ _ _ (by omega), slice_eq_nil _ _ _ (by omega), slice_eq_nil _ _ _ (by omega),
        slice_eq_nil _ _ _ (by omega)]; rfl


/-- invariant of the uploadable between the publisher's reads; `P` = absolute file position of the
    next read. -/
structure Inv (old data : Bytes) (seg off : Nat) (t : TU) (P : Nat) : Prop where
  newdata : t.newdata = data
  segsize : t.segsize = seg
  fso : t.fso = off % seg
  start : t.start = segmentOf old seg (off / seg)
  marker : P = (off / seg) * seg + t.marker
  pos : t.pos = min data.length (P - off)
  aligned : t.marker = 0 ∨ seg ≤ t.marker

theorem read_out (old data : Bytes) (seg off : Nat) (t : TU) (P L : Nat)
    (hseg : 0 < seg) (hoff : off ≤ old.length) (inv : Inv old data seg off t P) (hL : L ≤ seg)
    (hend : off + data.length < P + L → t.end_ = slice old P (P + seg)) :
    (t.read L).1 = slice (splice old off data) P (P + L) := by
  obtain ⟨h1, h2, h3, h4, h5, h6, h7⟩ := inv
  have hdm := Nat.div_add_mod off seg
  have hml := Nat.mod_lt off hseg
  have hcomm : seg * (off / seg) = off / seg * seg := Nat.mul_comm _ _
  rw [slice_splice _ _ _ _ _ hoff]
  simp only [TU.read, h1, h2, h3, h4, h6, segmentOf]
  rcases h7 with h7 | h7
  · -- first read: marker = 0, P = start_segment * seg ≤ off
    have hP : P + off % seg = off := by omega
    have hPe : off / seg * seg = P := by omega
    have hpos : min data.length (P - off) = 0 := by omega
    have hodl : (if 0 < off % seg then min (off % seg) L else 0) = min (off % seg) L := by
      split <;> omega
    simp only [h7, hpos, Nat.add_zero, Nat.zero_add, Nat.sub_zero, gt_iff_lt, hodl, hPe]
    congr 1
    · congr 1
      · -- old start data
        by_cases hf : 0 < off % seg
        · simp only [hf, if_true]
          rw [slice_slice _ _ _ _ _ (by omega)]
          congr 1; omega
        · simp only [hf, if_false]
          rw [slice_eq_nil _ _ _ (by omega)]
      · -- new data
        congr 1 <;> omega
    · -- old end data
      split
      · rename_i hoel
        have hne : off + data.length < P + L := by omega
        rw [hend hne]
        have hodo : (L - min (off % seg) L - (L - min (off % seg) L - data.length) + min (off % seg) L) % seg
            = data.length + off % seg := by
          rw [Nat.mod_eq_of_lt] <;> omega
        rw [hodo, slice_slice _ _ _ _ _ (by omega)]
        congr 1 <;> omega
      · rename_i hoel
        rw [slice_eq_nil _ _ _ (by omega)]
  · -- later reads: marker ≥ seg, P > off
    have hf : ¬ (t.marker < off % seg) := by omega
    simp only [gt_iff_lt, hf, if_false, Nat.sub_zero, Nat.add_zero, List.nil_append]
    rw [slice_eq_nil old P _ (by omega), List.nil_append]
    congr 1
    · -- new data
      by_cases hp : P - off ≤ data.length
      · congr 1 <;> omega
      · rw [slice_eq_nil _ _ _ (by omega), slice_eq_nil _ _ _ (by omega)]
    · split
      · rename_i hoel
        have hne : off + data.length < P + L := by omega
        rw [hend hne]
        have hodo : (L - (L - (data.length - min data.length (P - off)))) % seg
            = data.length - min data.length (P - off) := by
          rw [Nat.mod_eq_of_lt] <;> omega
        rw [hodo, slice_slice _ _ _ _ _ (by omega)]
        congr 1 <;> omega
      · rename_i hoel
        rw [slice_eq_nil _ _ _ (by omega)]


theorem read_inv (old data : Bytes) (seg off : Nat) (t : TU) (P L : Nat)
    (hseg : 0 < seg) (inv : Inv old data seg off t P) (hL : L ≤ seg)
    (hlen : (t.read L).1.length = L) (hal : seg ≤ t.marker + L) :
    Inv old data seg off (t.read L).2 (P + L) := by
  obtain ⟨h1, h2, h3, h4, h5, h6, h7⟩ := inv
  have hdm := Nat.div_add_mod off seg
  have hml := Nat.mod_lt off hseg
  have hcomm : seg * (off / seg) = off / seg * seg := Nat.mul_comm _ _
  have hmk : (t.read L).2.marker = t.marker + (t.read L).1.length := rfl
  refine ⟨h1, h2, h3, h4, ?_, ?_, ?_⟩
  · rw [hmk, hlen]; omega
  · show t.pos + (slice t.newdata t.pos _).length = _
    simp only [length_slice, h1, h3, h6]
    rcases h7 with h7 | h7
    · have hodl : (if off % seg > t.marker then min (off % seg - t.marker) L else 0) = min (off % seg) L := by
        rw [h7]; split <;> omega
      rw [hodl]; omega
    · have hodl : (if off % seg > t.marker then min (off % seg - t.marker) L else 0) = 0 := by
        rw [if_neg (by omega)]
      rw [hodl]; omega
  · right; rw [hmk, hlen]; exact hal


/-- geometry of a segmentation: `n` segments of `seg` bytes, the last one of `tail` bytes. -/
def Geom (len seg n tail : Nat) : Prop :=
  0 < seg ∧ ((n = 0 ∧ len = 0) ∨ (0 < n ∧ (n - 1) * seg + tail = len ∧ 0 < tail ∧ tail ≤ seg))

theorem geom_numSegments (len seg : Nat) (hseg : 0 < seg) :
    Geom len seg (numSegments len seg) (tailSize len seg) := by
  refine ⟨hseg, ?_⟩
  have hdm := Nat.div_add_mod len seg
  have hml := Nat.mod_lt len hseg
  have hns : numSegments len seg = len / seg + (if len % seg = 0 then 0 else 1) := by
    simp [numSegments, divCeil, Nat.ne_of_gt hseg]
  have hts : tailSize len seg = if len = 0 then seg else if len % seg = 0 then seg else len % seg := by
    simp only [tailSize]
    by_cases h0 : len = 0 <;> by_cases hm : len % seg = 0 <;> simp [h0, hm, Nat.ne_of_gt hseg]
  rw [hns, hts]
  generalize len / seg = q at *
  generalize len % seg = r at *
  by_cases h0 : len = 0
  · left
    have hr : r = 0 := by
      have := Nat.le_add_left r (seg * q); omega
    have hq : q = 0 := by
      rcases Nat.eq_zero_or_pos q with h | h
      · exact h
      · have := Nat.mul_le_mul_left seg h; omega
    simp [hr, hq, h0]
  · right
    by_cases hm : r = 0
    · have hq : 0 < q := by
        rcases Nat.eq_zero_or_pos q with h | h
        · subst h; simp at hdm; omega
        · exact h
      obtain ⟨q', rfl⟩ : ∃ q', q = q' + 1 := ⟨q - 1, by omega⟩
      have e : seg * (q' + 1) = q' * seg + seg := by rw [Nat.mul_comm, Nat.succ_mul]
      simp only [h0, hm, if_true, if_false, Nat.add_zero, Nat.add_sub_cancel]
      omega
    · have e : seg * q = q * seg := Nat.mul_comm _ _
      simp only [h0, hm, if_false, Nat.add_sub_cancel]
      omega

/-- the length the publisher asks for segment `j`. -/
def want (n seg tail j : Nat) : Nat := if j + 1 = n then tail else seg

theorem geom_end {len seg n tail : Nat} (g : Geom len seg n tail) (j : Nat) (hj : j < n) :
    j * seg + want n seg tail j = min ((j + 1) * seg) len ∧ j * seg < len := by
  obtain ⟨hseg, g⟩ := g
  rcases g with ⟨h, _⟩ | ⟨hn, hlen, ht, hts⟩
  · omega
  · unfold want
    have hs : (j + 1) * seg = j * seg + seg := Nat.succ_mul _ _
    by_cases hl : j + 1 = n
    · subst hl
      rw [Nat.add_sub_cancel] at hlen; simp only [if_true]; omega
    · have hle : j + 1 ≤ n - 1 := by omega
      have := Nat.mul_le_mul_right seg hle
      simp only [hl, if_false]; omega

theorem pushLoop_spec {σ : Type} (rd : σ → Nat → Bytes × σ) (I : σ → Nat → Prop) (full : Bytes)
    (n seg tail hi : Nat)
    (hrd : ∀ st cur, I st cur → cur < hi →
      (rd st (want n seg tail cur)).1 = slice full (cur * seg) (cur * seg + want n seg tail cur)
      ∧ (rd st (want n seg tail cur)).1.length = want n seg tail cur
      ∧ (cur + 1 < hi → I (rd st (want n seg tail cur)).2 (cur + 1))) :
    ∀ count cur st, I st cur → cur + count ≤ hi →
      pushLoop rd n seg tail cur count st
        = some ((List.range' cur count).map fun j => slice full (j * seg) (j * seg + want n seg tail j)) := by
  intro count
  induction count with
  | zero => intro cur st _ _; simp [pushLoop]
  | succ c ih =>
    intro cur st hI hb
    obtain ⟨h1, h2, h3⟩ := hrd st cur hI (by omega)
    simp only [pushLoop, List.range'_succ, List.map_cons]
    unfold want at h1 h2 h3
    rw [if_pos h2]
    by_cases hc : c = 0
    · subst hc; simp [pushLoop, h1, want]
    · rw [ih (cur + 1) _ (h3 (by omega)) (by omega), h1]; simp [want]

theorem flatten_segs (full : Bytes) (seg n tail : Nat) (g : Geom full.length seg n tail) :
    ∀ count cur, cur + count ≤ n →
      ((List.range' cur count).map fun j => slice full (j * seg) (j * seg + want n seg tail j)).flatten
        = slice full (cur * seg) (min ((cur + count) * seg) full.length) := by
  intro count
  induction count with
  | zero => intro cur _; simp; rw [slice_eq_nil _ _ _ (by omega)]
  | succ c ih =>
    intro cur hb
    obtain ⟨he, hlt⟩ := geom_end g cur (by omega)
    simp only [List.range'_succ, List.map_cons, List.flatten_cons]
    rw [ih (cur + 1) (by omega), he]
    have hs : (cur + 1) * seg = cur * seg + seg := Nat.succ_mul _ _
    have hm : (cur + 1) * seg ≤ (cur + 1 + c) * seg := Nat.mul_le_mul_right seg (by omega)
    have e : cur + (c + 1) = cur + 1 + c := by omega
    rw [e]
    by_cases hfull : (cur + 1) * seg ≤ full.length
    · have : min ((cur + 1) * seg) full.length = (cur + 1) * seg := by omega
      rw [this, slice_append_slice _ _ _ _ (by omega) (by omega)]
    · have e1 : min ((cur + 1) * seg) full.length = full.length := by omega
      have e2 : min ((cur + 1 + c) * seg) full.length = full.length := by omega
      rw [e1, e2, slice_eq_nil _ ((cur + 1) * seg) _ (by omega), List.append_nil]

theorem take_slice (b : Bytes) (i j w : Nat) : (slice b i j).take w = slice b i (min j (i + w)) := by
  apply List.ext_getElem?; intro n
  simp only [List.getElem?_take, getElem?_slice]
  by_cases h1 : n < w <;> by_cases h2 : i + n < j
  · have : i + n < min j (i + w) := by omega
    simp [h1, h2, this]
  · have : ¬ i + n < min j (i + w) := by omega
    simp [h1, h2, this]
  · have : ¬ i + n < min j (i + w) := by omega
    simp [h1, this]
  · have : ¬ i + n < min j (i + w) := by omega
    simp [h1, this]

theorem drop_slice (b : Bytes) (i j d : Nat) : (slice b i j).drop d = slice b (i + d) j := by
  apply List.ext_getElem?; intro n
  simp only [List.getElem?_drop, getElem?_slice]
  have e : i + (d + n) = i + d + n := by omega
  rw [e]

/-- quotient/remainder facts in the shape `omega` can use (products are atoms) -/
theorem div_bounds (a seg : Nat) (hseg : 0 < seg) :
    a / seg * seg ≤ a ∧ a < a / seg * seg + seg ∧ a / seg * seg + a % seg = a := by
  have hdm := Nat.div_add_mod a seg
  have hml := Nat.mod_lt a hseg
  have hcomm : seg * (a / seg) = a / seg * seg := Nat.mul_comm _ _
  omega

theorem le_numSegments_mul (len seg : Nat) (hseg : 0 < seg) : len ≤ numSegments len seg * seg := by
  obtain ⟨_, g'⟩ := geom_numSegments len seg hseg
  rcases g' with ⟨_, h0⟩ | ⟨hn0, hl, ht0, hts⟩
  · omega
  · have e : (numSegments len seg - 1 + 1) * seg = (numSegments len seg - 1) * seg + seg := Nat.succ_mul _ _
    have e' : numSegments len seg - 1 + 1 = numSegments len seg := by omega
    rw [e'] at e; omega

/-- a position inside the data lies in a segment that exists -/
theorem div_lt_numSegments (len seg x : Nat) (hseg : 0 < seg) (hx : x < len) : x / seg < numSegments len seg := by
  obtain ⟨s1, _, _⟩ := div_bounds x seg hseg
  have := le_numSegments_mul len seg hseg
  apply Nat.lt_of_mul_lt_mul_right (a := seg); omega

theorem length_segmentOf (content : Bytes) (seg i : Nat) (hseg : 0 < seg) (hi : i < numSegments content.length seg) :
    (segmentOf content seg i).length
      = if i + 1 = numSegments content.length seg then tailSize content.length seg else seg := by
  obtain ⟨he, hlt⟩ := geom_end (geom_numSegments content.length seg hseg) i hi
  have hs : (i + 1) * seg = i * seg + seg := Nat.succ_mul _ _
  simp only [segmentOf, length_slice]
  unfold want at he
  split at he <;> rename_i hc
  · rw [if_pos hc]; omega
  · rw [if_neg hc]; omega

/-- `_decode_blocks` gives back the stored segment: the `size_to_use` cut removes exactly the decoder's
    padding (it would not if the tail test looked at anything but `segnum == num_segments - 1`). -/
theorem decodeBlocks_eq (content : Bytes) (seg k i : Nat) (hseg : 0 < seg)
    (hi : i < numSegments content.length seg) :
    decodeBlocks content seg k i = segmentOf content seg i := by
  have hl := length_segmentOf content seg i hseg hi
  simp only [decodeBlocks, decodedJoined]
  rw [← hl, List.take_append_of_le_length (Nat.le_refl _), List.take_length]

theorem readSegs_spec (content : Bytes) (seg k off size : Nat) (hseg : 0 < seg) (hsize : 0 < size)
    (hlen : off + size ≤ content.length) :
    ∀ c cur, off / seg ≤ cur → cur + c = (off + size - 1) / seg + 1 →
      readSegs content seg k off size (off / seg) ((off + size - 1) / seg) cur c
        = slice content (max off (cur * seg)) (off + size) := by
  obtain ⟨s1, s2, s3⟩ := div_bounds off seg hseg
  obtain ⟨l1, l2, l3⟩ := div_bounds (off + size - 1) seg hseg
  obtain ⟨w1, w2, w3⟩ := div_bounds (off + size) seg hseg
  intro c
  induction c with
  | zero =>
    intro cur h1 h2
    have := Nat.mul_le_mul_right seg (show (off + size - 1) / seg + 1 ≤ cur by omega)
    rw [Nat.succ_mul] at this
    simp only [readSegs]; rw [slice_eq_nil _ _ _ (by omega)]
  | succ c ih =>
    intro cur h1 h2
    have hcs : (cur + 1) * seg = cur * seg + seg := Nat.succ_mul _ _
    have hm1 := Nat.mul_le_mul_right seg h1
    have hm2 := Nat.mul_le_mul_right seg (show cur ≤ (off + size - 1) / seg by omega)
    have hcn : cur < numSegments content.length seg := by
      have := le_numSegments_mul content.length seg hseg
      apply Nat.lt_of_mul_lt_mul_right (a := seg); omega
    simp only [readSegs, decodeBlocks_eq content seg k cur hseg hcn, segmentOf]
    -- the piece of this segment
    have piece : (if cur = off / seg then
          (if cur = (off + size - 1) / seg then
              if (off + size) % seg ≠ 0 then (slice content (cur * seg) (cur * seg + seg)).take ((off + size) % seg)
              else slice content (cur * seg) (cur * seg + seg)
            else slice content (cur * seg) (cur * seg + seg)).drop (off % seg)
        else
          (if cur = (off + size - 1) / seg then
              if (off + size) % seg ≠ 0 then (slice content (cur * seg) (cur * seg + seg)).take ((off + size) % seg)
              else slice content (cur * seg) (cur * seg + seg)
            else slice content (cur * seg) (cur * seg + seg)))
        = slice content (max off (cur * seg)) (min (off + size) ((cur + 1) * seg)) := by
      have hlast : cur = (off + size - 1) / seg →
          (if (off + size) % seg ≠ 0 then (slice content (cur * seg) (cur * seg + seg)).take ((off + size) % seg)
              else slice content (cur * seg) (cur * seg + seg))
            = slice content (cur * seg) (off + size) := by
        intro hc
        by_cases hw : (off + size) % seg = 0
        · simp only [hw, ne_eq, not_true_eq_false, if_false]
          congr 1
          -- (off+size) = (last+1)*seg
          have hq : (off + size) / seg = (off + size - 1) / seg + 1 := by
            have hA : (off + size - 1) / seg * seg < (off + size) / seg * seg := by omega
            have hB : (off + size) / seg * seg ≤ ((off + size - 1) / seg + 1) * seg := by
              rw [Nat.succ_mul]; omega
            have h3 := Nat.lt_of_mul_lt_mul_right hA
            have h4 : (off + size) / seg ≤ (off + size - 1) / seg + 1 := by
              rcases Nat.lt_or_ge ((off + size - 1) / seg + 1) ((off + size) / seg) with h | h
              · have := Nat.mul_le_mul_right seg (show (off + size - 1) / seg + 1 + 1 ≤ (off + size) / seg by omega)
                rw [Nat.succ_mul] at this; omega
              · exact h
            omega
          rw [hq, Nat.succ_mul] at w3
          have hlE : cur * seg = (off + size - 1) / seg * seg := by rw [← hc]
          omega
        · simp only [hw, ne_eq, not_false_eq_true, if_true]
          rw [take_slice]; congr 1
          have hq : (off + size) / seg = (off + size - 1) / seg := by
            have hA : (off + size) / seg * seg ≤ off + size - 1 := by omega
            have h4 : (off + size) / seg ≤ (off + size - 1) / seg := by
              rcases Nat.lt_or_ge ((off + size - 1) / seg) ((off + size) / seg) with h | h
              · have := Nat.mul_le_mul_right seg (show (off + size - 1) / seg + 1 ≤ (off + size) / seg by omega)
                rw [Nat.succ_mul] at this; omega
              · exact h
            have h5 : (off + size - 1) / seg ≤ (off + size) / seg := Nat.div_le_div_right (by omega)
            omega
          rw [hq] at w3
          have hlE : cur * seg = (off + size - 1) / seg * seg := by rw [← hc]
          omega
      by_cases hs : cur = off / seg <;> by_cases hl : cur = (off + size - 1) / seg
      · have hsE : cur * seg = off / seg * seg := by rw [← hs]
        have hlE : cur * seg = (off + size - 1) / seg * seg := by rw [← hl]
        rw [if_pos hs, if_pos hl, hlast hl, drop_slice]; congr 1 <;> omega
      · have hsE : cur * seg = off / seg * seg := by rw [← hs]
        have : cur + 1 ≤ (off + size - 1) / seg := by omega
        have := Nat.mul_le_mul_right seg this
        rw [if_pos hs, if_neg hl, drop_slice]; congr 1 <;> omega
      · have hlE : cur * seg = (off + size - 1) / seg * seg := by rw [← hl]
        have : off / seg + 1 ≤ cur := by omega
        have := Nat.mul_le_mul_right seg this
        rw [Nat.succ_mul] at this
        rw [if_neg hs, if_pos hl, hlast hl]; congr 1 <;> omega
      · have : off / seg + 1 ≤ cur := by omega
        have := Nat.mul_le_mul_right seg this
        rw [Nat.succ_mul] at this
        have : cur + 1 ≤ (off + size - 1) / seg := by omega
        have := Nat.mul_le_mul_right seg this
        rw [if_neg hs, if_neg hl]; congr 1 <;> omega
    rw [piece, ih (cur + 1) (by omega) (by omega)]
    have : max off ((cur + 1) * seg) = (cur + 1) * seg := by omega
    rw [this]
    by_cases hh : (cur + 1) * seg ≤ off + size
    · have : min (off + size) ((cur + 1) * seg) = (cur + 1) * seg := by omega
      rw [this, slice_append_slice _ _ _ _ (by omega) hh]
    · have : min (off + size) ((cur + 1) * seg) = off + size := by omega
      rw [this, slice_eq_nil _ ((cur + 1) * seg) _ (by omega), List.append_nil]

theorem le_nextMultiple (n k : Nat) (hk : 0 < k) : n ≤ nextMultiple n k := by
  have hdm := Nat.div_add_mod n k
  have hml := Nat.mod_lt n hk
  have hcomm : k * (n / k) = n / k * k := Nat.mul_comm _ _
  simp only [nextMultiple, divCeil]
  split
  · simp; omega
  · rw [Nat.succ_mul]; omega

theorem slice_full (b : Bytes) (j : Nat) (h : b.length ≤ j) : slice b 0 j = b := by
  simp [slice, List.take_of_length_le h]

/-- a whole-file publish stores exactly the data, segmented by the format's segment size -/
theorem publishAll_eq (cfg : Cfg) (fmt : Fmt) (data : Bytes) (hk : 0 < cfg.k) (hm : 0 < cfg.maxSeg) :
    publishAll cfg fmt data
      = some { fmt := fmt, segsize := pubSegsize cfg fmt data.length, content := data } := by
  simp only [publishAll]
  by_cases hz : pubSegsize cfg fmt data.length = 0
  · -- only an empty SDMF file has segment size 0
    have hd : data.length = 0 := by
      cases fmt with
      | sdmf => have := le_nextMultiple data.length cfg.k hk; simp only [pubSegsize] at hz; omega
      | mdmf => have := le_nextMultiple cfg.maxSeg cfg.k hk; simp only [pubSegsize] at hz; omega
    have : data = [] := List.length_eq_zero_iff.mp hd
    subst this
    have hz' : pubSegsize cfg fmt 0 = 0 := hz
    simp [hz', numSegments, pushLoop]
  · have hseg : 0 < pubSegsize cfg fmt data.length := Nat.pos_of_ne_zero hz
    generalize pubSegsize cfg fmt data.length = seg at *
    have g := geom_numSegments data.length seg hseg
    have key := pushLoop_spec (plainRead data) (fun pos cur => pos = cur * seg) data
      (numSegments data.length seg) seg (tailSize data.length seg) (numSegments data.length seg)
      (by
        intro st cur hI hc
        obtain ⟨he, hlt⟩ := geom_end g cur hc
        subst hI
        refine ⟨rfl, ?_, ?_⟩
        · simp only [plainRead, length_slice]; omega
        · intro hc2
          simp only [plainRead, length_slice, want, if_neg (show ¬ cur + 1 = numSegments data.length seg by omega)]
          simp only [want, if_neg (show ¬ cur + 1 = numSegments data.length seg by omega)] at he
          rw [Nat.succ_mul]; omega)
      (numSegments data.length seg) 0 0 (by simp) (by omega)
    rw [key]
    simp only
    rw [flatten_segs data seg _ _ g _ 0 (by omega)]
    rw [Nat.zero_mul, Nat.zero_add, slice_full]
    -- n * seg ≥ len
    obtain ⟨_, g'⟩ := g
    rcases g' with ⟨_, h0⟩ | ⟨hn, hl, ht, hts⟩
    · omega
    · have : (numSegments data.length seg - 1 + 1) * seg = (numSegments data.length seg - 1) * seg + seg := Nat.succ_mul _ _
      have e : numSegments data.length seg - 1 + 1 = numSegments data.length seg := by omega
      rw [e] at this
      omega


theorem read_end (t : TU) (L : Nat) : (t.read L).2.end_ = t.end_ := rfl

/-- `TransformingUploadable.read` under the publisher's loop: the segments of the splice. -/
theorem tu_pushLoop (old data : Bytes) (seg off : Nat) (hseg : 0 < seg) (hoff : off ≤ old.length)
    (endSeg : Bytes) (count : Nat)
    (hcount : off / seg + count ≤ numSegments (max old.length (off + data.length)) seg)
    (hend : ∀ j, off / seg ≤ j → j < off / seg + count →
      off + data.length < j * seg + want (numSegments (max old.length (off + data.length)) seg) seg
          (tailSize (max old.length (off + data.length)) seg) j →
      endSeg = slice old (j * seg) (j * seg + seg)) :
    pushLoop TU.read (numSegments (max old.length (off + data.length)) seg) seg
        (tailSize (max old.length (off + data.length)) seg) (off / seg) count
        (TU.init data off seg (segmentOf old seg (off / seg)) endSeg)
      = some ((List.range' (off / seg) count).map fun j =>
          slice (splice old off data) (j * seg)
            (j * seg + want (numSegments (max old.length (off + data.length)) seg) seg
              (tailSize (max old.length (off + data.length)) seg) j)) := by
  have g := geom_numSegments (max old.length (off + data.length)) seg hseg
  generalize hn : numSegments (max old.length (off + data.length)) seg = n at *
  generalize ht : tailSize (max old.length (off + data.length)) seg = tail at *
  obtain ⟨s1, s2, s3⟩ := div_bounds off seg hseg
  apply pushLoop_spec TU.read
    (fun t cur => Inv old data seg off t (cur * seg) ∧ t.end_ = endSeg ∧ off / seg ≤ cur)
    (splice old off data) n seg tail (off / seg + count)
  · intro t cur ⟨inv, he, hge⟩ hc
    obtain ⟨hgE, hlt⟩ := geom_end g cur (by omega)
    have hL : want n seg tail cur ≤ seg := by
      unfold want; obtain ⟨_, g'⟩ := g
      rcases g' with ⟨h0, _⟩ | ⟨_, _, _, hts⟩
      · omega
      · split <;> omega
    have hout := read_out old data seg off t (cur * seg) (want n seg tail cur) hseg hoff inv hL
      (by intro h; rw [he]; exact hend cur hge hc h)
    have hlen : (t.read (want n seg tail cur)).1.length = want n seg tail cur := by
      rw [hout, length_slice, length_splice _ _ _ hoff]; omega
    refine ⟨hout, hlen, ?_⟩
    intro hc2
    have hw : want n seg tail cur = seg := by unfold want; rw [if_neg (by omega)]
    have hinv := read_inv old data seg off t (cur * seg) (want n seg tail cur) hseg inv hL hlen (by omega)
    rw [hw] at hinv ⊢
    rw [Nat.succ_mul]
    exact ⟨hinv, he, by omega⟩
  · refine ⟨⟨rfl, rfl, rfl, rfl, by simp [TU.init], ?_, Or.inl rfl⟩, rfl, Nat.le_refl _⟩
    simp only [TU.init]; omega
  · exact Nat.le_refl _

theorem pubSegsize_mdmf (cfg : Cfg) (x : Nat) : pubSegsize cfg .mdmf x = nextMultiple cfg.maxSeg cfg.k := rfl

/-- `(X-1)/seg + 1 = X/seg + [X % seg ≠ 0]` for `X > 0` -/
theorem div_pred (X seg : Nat) (hseg : 0 < seg) (hX : 0 < X) :
    (X - 1) / seg + 1 = X / seg + (if X % seg = 0 then 0 else 1) := by
  obtain ⟨w1, w2, w3⟩ := div_bounds X seg hseg
  by_cases hm : X % seg = 0
  · simp only [hm, if_true, Nat.add_zero]
    have hq : 0 < X / seg := by
      rcases Nat.eq_zero_or_pos (X / seg) with h | h
      · rw [h] at w3; omega
      · exact h
    have : (X - 1) / seg = X / seg - 1 := by
      apply Nat.div_eq_of_lt_le
      · have : (X / seg - 1 + 1) * seg = (X / seg - 1) * seg + seg := Nat.succ_mul _ _
        have e : X / seg - 1 + 1 = X / seg := by omega
        rw [e] at this; omega
      · have e : X / seg - 1 + 1 = X / seg := by omega
        rw [e]; omega
    omega
  · simp only [hm, if_false]
    have : (X - 1) / seg = X / seg := by
      apply Nat.div_eq_of_lt_le
      · omega
      · rw [Nat.succ_mul]; omega
    omega

theorem drop_splice_after (old data : Bytes) (off B : Nat) (h : off ≤ old.length)
    (hB : off + data.length ≤ B) : (splice old off data).drop B = old.drop B := by
  apply List.ext_getElem?; intro i
  simp only [List.getElem?_drop, getElem?_splice _ _ _ _ h]
  rw [if_neg (by omega), if_neg (by omega)]

theorem take_slice_drop (l : Bytes) (A B : Nat) (h : A ≤ B) :
    l.take A ++ slice l A (min B l.length) ++ l.drop B = l := by
  have e : slice l A (min B l.length) = (l.take B).drop A := by
    simp only [slice]; congr 1
    rw [List.take_eq_take_iff]; omega
  have e2 : l.take A = (l.take B).take A := by
    rw [List.take_take]; congr 1; omega
  rw [e, e2, List.take_append_drop, List.take_append_drop]


theorem recordUpdate_fresh (ud : UpdateData) (sh : Nat) (en : Entry) (h : sh ∉ ud.map (·.1)) :
    recordUpdate ud sh en = ud ++ [(sh, [en])] := by
  induction ud with
  | nil => rfl
  | cons p rest ih =>
    obtain ⟨sh', es⟩ := p
    simp only [List.map_cons, List.mem_cons, not_or] at h
    simp only [recordUpdate, if_neg (Ne.symm h.1), ih h.2, List.cons_append]

theorem foldl_record_fresh (en : Entry) :
    ∀ (shares : List Nat) (ud : UpdateData), shares.Nodup → (∀ sh ∈ shares, sh ∉ ud.map (·.1)) →
      shares.foldl (fun ud sh => recordUpdate ud sh en) ud = ud ++ shares.map (fun sh => (sh, [en])) := by
  intro shares
  induction shares with
  | nil => intro ud _ _; simp
  | cons sh rest ih =>
    intro ud hnd hdis
    rw [List.nodup_cons] at hnd
    simp only [List.foldl_cons]
    rw [recordUpdate_fresh ud sh en (hdis sh List.mem_cons_self), ih _ hnd.2]
    · simp
    · intro x hx
      simp only [List.map_append, List.map_cons, List.map_nil, List.mem_append, List.mem_singleton, not_or]
      exact ⟨hdis x (List.mem_cons_of_mem _ hx), fun h => hnd.1 (h ▸ hx)⟩

theorem servermapUpdateData_some (shares : List Nat) (numSegs ver s : Nat) (e : Int) (en : Entry)
    (hf : (fetchShare numSegs ver s e).bind gotUpdateResults = some en) (hnd : shares.Nodup) :
    servermapUpdateData shares numSegs ver s e [] = shares.map (fun sh => (sh, [en])) := by
  simp only [servermapUpdateData, hf]
  simpa using foldl_record_fresh en shares [] hnd (by simp)

theorem servermapUpdateData_none (shares : List Nat) (numSegs ver s : Nat) (e : Int)
    (hf : (fetchShare numSegs ver s e).bind gotUpdateResults = none) :
    servermapUpdateData shares numSegs ver s e [] = [] := by
  simp only [servermapUpdateData, hf]
  induction shares with
  | nil => rfl
  | cons _ _ ih => simpa using ih

theorem boundaryMaps_single (v : Item) (bh S E : Item) :
    ∀ shares : List Nat,
      boundaryMaps v (shares.map (fun sh => (sh, [(v, (bh, S, E))])))
        = .ok (shares.map (fun sh => (sh, S)), shares.map (fun sh => (sh, E))) := by
  intro shares
  induction shares with
  | nil => rfl
  | cons sh rest ih =>
    simp only [List.map_cons, boundaryMaps, selectDatum, List.filter_cons, decide_true, if_true,
      List.filter_nil, List.map_nil, List.all_nil, ih]

theorem decodeFetched_blocks (content : Bytes) (seg k : Nat) (shares : List Nat) (i : Nat)
    (hne : shares ≠ []) (hk : k ≤ shares.length) :
    decodeFetched content seg k (shares.map (fun sh => (sh, Item.block (i : Int)))) (i : Int)
      = .ok (decodeBlocks content seg k i) := by
  cases shares with
  | nil => exact absurd rfl hne
  | cons sh rest =>
    simp only [List.map_cons, decodeFetched, List.length_cons, List.length_map]
    rw [if_neg (by simp only [List.length_cons] at hk; omega), if_neg (by omega)]
    simp only [Int.toNat_natCast, decodeBlocks]

theorem decodeFetched_end (content : Bytes) (seg k : Nat) (shares : List Nat) (e : Int)
    (hne : shares ≠ []) (hk : k ≤ shares.length) :
    decodeFetched content seg k (shares.map (fun sh => (sh, Item.block e))) e
      = .ok (if e < 0 then [] else decodeBlocks content seg k e.toNat) := by
  by_cases he : e < 0
  · cases shares with
    | nil => exact absurd rfl hne
    | cons sh rest =>
      simp only [List.map_cons, decodeFetched, List.length_cons, List.length_map]
      rw [if_neg (by simp only [List.length_cons] at hk; omega), if_pos (Or.inl he), if_pos he]
  · have : e = ((e.toNat : Nat) : Int) := by omega
    rw [if_neg he]
    rw [this, decodeFetched_blocks content seg k shares e.toNat hne hk, Int.toNat_natCast]

/-- the servermap-to-Retrieve step gives the updater its two boundary segments, start first -/
theorem boundarySegmentsFrom_spec (shares : List Nat) (content : Bytes) (seg k s : Nat) (e : Int)
    (hnd : shares.Nodup) (hk0 : 0 < k) (hk : k ≤ shares.length) :
    boundarySegmentsFrom shares content seg k s e
      = if content.length = 0 then .error .assertion
        else if ¬ (s < numSegments content.length seg ∧ e < (numSegments content.length seg : Int)) then .error .index
        else .ok (decodeBlocks content seg k s, if e < 0 then [] else decodeBlocks content seg k e.toNat) := by
  have hne : shares ≠ [] := by intro h; subst h; simp at hk; omega
  by_cases hfetch : s < numSegments content.length seg ∧ e < (numSegments content.length seg : Int)
  · have hf : (fetchShare (numSegments content.length seg) 0 s e).bind gotUpdateResults
        = some (Item.verinfo 0, (Item.blockhashes, Item.block s, Item.block e)) := by
      simp only [fetchShare]
      rw [if_neg (by omega)]; rfl
    simp only [boundarySegmentsFrom, boundarySegmentsOf, servermapUpdateData_some shares _ 0 s e _ hf hnd, boundaryMaps_single,
      decodeFetched_blocks content seg k shares s hne hk, decodeFetched_end content seg k shares e hne hk]
    by_cases h0 : content.length = 0
    · simp [h0]
    · simp [h0, hfetch]
  · have hf : (fetchShare (numSegments content.length seg) 0 s e).bind gotUpdateResults = none := by
      simp only [fetchShare]
      rw [if_pos (by omega)]; rfl
    simp only [boundarySegmentsFrom, boundarySegmentsOf, servermapUpdateData_none shares _ 0 s e hf, boundaryMaps, decodeFetched]
    by_cases h0 : content.length = 0
    · simp [h0]
    · simp [h0, hfetch]

theorem boundarySegmentsFrom_nil (content : Bytes) (seg k s : Nat) (e : Int) :
    boundarySegmentsFrom [] content seg k s e
      = if content.length = 0 then .error .assertion else .error .index := by
  simp only [boundarySegmentsFrom, boundarySegmentsOf, servermapUpdateData, List.foldl_nil, boundaryMaps, decodeFetched]

/-- **The updater and the publisher agree.**  With `start_segment`/`end_segment` as
    `_do_update_update` computes them (the two old segments handed to TransformingUploadable) and
    `end_segment` as `Publish.setup_encoding_parameters` computes it (the number `c` of segments pushed),
    the publisher stays inside the new file, covers the whole written range, and reads exactly the
    segments of the splice. -/
theorem updater_publisher_agree (old data : Bytes) (seg off : Nat) (hseg : 0 < seg)
    (hpos : 0 < old.length) (hoff : off ≤ old.length)
    (hstart : off / seg < numSegments old.length seg) :
    ∃ c, (pubEndSegment (max old.length (off + data.length)) seg (off + data.length) + 1
          - ((off / seg : Nat) : Int)).toNat = c
      ∧ off / seg + c ≤ numSegments (max old.length (off + data.length)) seg
      ∧ off + data.length ≤ (off / seg + c) * seg
      ∧ pushLoop TU.read (numSegments (max old.length (off + data.length)) seg) seg
          (tailSize (max old.length (off + data.length)) seg) (off / seg) c
          (TU.init data off seg (segmentOf old seg (off / seg))
            (if (if off + data.length < old.length then (((off + data.length : Nat) : Int) - 1).ediv (seg : Int)
            else ((off / seg : Nat) : Int)) < 0 then []
        else segmentOf old seg
          (if off + data.length < old.length then (((off + data.length : Nat) : Int) - 1).ediv (seg : Int)
            else ((off / seg : Nat) : Int)).toNat))
        = some ((List.range' (off / seg) c).map fun j =>
            slice (splice old off data) (j * seg)
              (j * seg + want (numSegments (max old.length (off + data.length)) seg) seg
                (tailSize (max old.length (off + data.length)) seg) j)) := by
  -- geometry of the old and of the new file
  have gN := geom_numSegments old.length seg hseg
  have gD := geom_numSegments (max old.length (off + data.length)) seg hseg
  obtain ⟨s1, s2, s3⟩ := div_bounds off seg hseg
  obtain ⟨x1, x2, x3⟩ := div_bounds (off + data.length) seg hseg
  generalize hnN : numSegments old.length seg = nN at *
  generalize htN : tailSize old.length seg = tN at *
  generalize hn : numSegments (max old.length (off + data.length)) seg = n at *
  generalize ht : tailSize (max old.length (off + data.length)) seg = tail at *
  -- n * seg ≥ D, (n-1) * seg < D
  have hnD : max old.length (off + data.length) ≤ n * seg ∧ 0 < n := by
    obtain ⟨_, g'⟩ := gD
    rcases g' with ⟨_, h0⟩ | ⟨hn0, hl, ht0, hts⟩
    · omega
    · have : (n - 1 + 1) * seg = (n - 1) * seg + seg := Nat.succ_mul _ _
      have e : n - 1 + 1 = n := by omega
      rw [e] at this; omega
  have hstartN : off / seg * seg < old.length := by
    obtain ⟨_, g'⟩ := gN
    rcases g' with ⟨_, h0⟩ | ⟨hn0, hl, ht0, hts⟩
    · omega
    · have := Nat.mul_le_mul_right seg (show off / seg ≤ nN - 1 by omega); omega
  have hstartn : off / seg < n := by
    apply Nat.lt_of_mul_lt_mul_right (a := seg); omega
  -- the number of segments pushed
  have hcnt : ∃ c, (pubEndSegment (max old.length (off + data.length)) seg (off + data.length) + 1
        - ((off / seg : Nat) : Int)).toNat = c ∧ off / seg + c ≤ n ∧ off + data.length ≤ (off / seg + c) * seg
        ∧ (off + data.length < old.length → 0 < off + data.length →
            off / seg + c = (off + data.length - 1) / seg + 1) := by
    simp only [pubEndSegment, hn]
    by_cases hX : off + data.length < old.length
    · have hD : max old.length (off + data.length) = old.length := by omega
      rw [if_pos (by omega)]
      have hXn : (off + data.length) / seg < n := by
        apply Nat.lt_of_mul_lt_mul_right (a := seg); omega
      have hmono : off / seg ≤ (off + data.length) / seg := Nat.div_le_div_right (by omega)
      by_cases hmod : (off + data.length) % seg = 0
      · refine ⟨(off + data.length) / seg - off / seg, by simp only [hmod, if_true]; omega, by omega, ?_, ?_⟩
        · have : off / seg + ((off + data.length) / seg - off / seg) = (off + data.length) / seg := by omega
          rw [this]; omega
        · intro _ h0
          have := div_pred (off + data.length) seg hseg h0
          simp only [hmod, if_true] at this; omega
      · refine ⟨(off + data.length) / seg + 1 - off / seg, by simp only [hmod, if_false]; omega, by omega, ?_, ?_⟩
        · have : off / seg + ((off + data.length) / seg + 1 - off / seg) = (off + data.length) / seg + 1 := by omega
          rw [this, Nat.succ_mul]; omega
        · intro _ h0
          have := div_pred (off + data.length) seg hseg h0
          simp only [hmod, if_false] at this; omega
    · rw [if_neg (by omega)]
      refine ⟨n - off / seg, by omega, by omega, ?_, by omega⟩
      have : off / seg + (n - off / seg) = n := by omega
      rw [this]; omega
  obtain ⟨c, hc, hcn, hcX, hcE⟩ := hcnt
  refine ⟨c, hc, hcn, hcX, ?_⟩
  have hloop := tu_pushLoop old data seg off hseg hoff
    (if (if off + data.length < old.length then (((off + data.length : Nat) : Int) - 1).ediv (seg : Int)
          else ((off / seg : Nat) : Int)) < 0 then []
      else segmentOf old seg
        (if off + data.length < old.length then (((off + data.length : Nat) : Int) - 1).ediv (seg : Int)
          else ((off / seg : Nat) : Int)).toNat) c (by rw [hn]; exact hcn)
    (by
      rw [hn, ht]
      intro j hj1 hj2 hj3
      obtain ⟨hgE, _⟩ := geom_end gD j (by omega)
      have hX : off + data.length < old.length := by omega
      have h0 : 0 < off + data.length := by
        rcases Nat.eq_zero_or_pos (off + data.length) with h | h
        · have : off = 0 := by omega
          subst this
          have hc0 := hcX
          simp only [Nat.zero_div, Nat.zero_add] at hj1 hj2 hc
          exfalso
          -- count is 0 when nothing is written at offset 0
          have hd : data.length = 0 := by omega
          have : c = 0 := by
            rw [← hc]; simp only [pubEndSegment, hd]
            rw [if_pos (by omega)]; simp
          omega
        · exact h
      have hE := hcE hX h0
      have hEd := div_bounds (off + data.length - 1) seg hseg
      have hjE : j = (off + data.length - 1) / seg := by
        have hle : j ≤ (off + data.length - 1) / seg := by omega
        rcases Nat.lt_or_ge j ((off + data.length - 1) / seg) with hlt | hge
        · have := Nat.mul_le_mul_right seg (show j + 1 ≤ (off + data.length - 1) / seg by omega)
          omega
        · omega
      have hcast : (((off + data.length : Nat) : Int) - 1) = (((off + data.length - 1 : Nat)) : Int) := by omega
      rw [if_pos hX, hcast]
      have hediv : (((off + data.length - 1 : Nat)) : Int).ediv (seg : Int)
          = ((((off + data.length - 1) / seg : Nat)) : Int) := rfl
      rw [hediv, if_neg (by omega), Int.toNat_natCast, segmentOf, hjE])
  rw [hn, ht] at hloop
  exact hloop

theorem mdmfUpdate_splice (cfg : Cfg) (v : Version) (off : Nat) (data : Bytes)
    (hk : 0 < cfg.k) (hm : 0 < cfg.maxSeg)
    (hsegv : v.segsize = nextMultiple cfg.maxSeg cfg.k)
    (hpos : 0 < v.content.length) (hoff : off ≤ v.content.length)
    (hstart : off / v.segsize < numSegments v.content.length v.segsize) :
    mdmfUpdate cfg v off data
      = .ok { fmt := .mdmf, segsize := v.segsize, content := splice v.content off data } := by
  have hseg : 0 < v.segsize := by
    have := le_nextMultiple cfg.maxSeg cfg.k hk; omega
  obtain ⟨fmt, seg, old⟩ := v
  simp only at hsegv hpos hoff hstart hseg ⊢
  -- `_decode_blocks` returns the two boundary segments as stored
  have hdS := decodeBlocks_eq old seg cfg.k (off / seg) hseg hstart
  have hdE : (if (if off + data.length < old.length then (((off + data.length : Nat) : Int) - 1).ediv (seg : Int)
          else ((off / seg : Nat) : Int)) < 0 then []
      else decodeBlocks old seg cfg.k
        (if off + data.length < old.length then (((off + data.length : Nat) : Int) - 1).ediv (seg : Int)
          else ((off / seg : Nat) : Int)).toNat)
      = (if (if off + data.length < old.length then (((off + data.length : Nat) : Int) - 1).ediv (seg : Int)
          else ((off / seg : Nat) : Int)) < 0 then []
      else segmentOf old seg
        (if off + data.length < old.length then (((off + data.length : Nat) : Int) - 1).ediv (seg : Int)
          else ((off / seg : Nat) : Int)).toNat) := by
    by_cases hX : off + data.length < old.length
    · simp only [hX, if_true]
      rcases Nat.eq_zero_or_pos (off + data.length) with h0 | h0
      · have : ((((off + data.length : Nat) : Int) - 1).ediv (seg : Int)) < 0 := by
          rw [h0]
          show ((((0 : Nat) : Int) - 1) / (seg : Int)) < 0
          exact Int.ediv_lt_of_lt_mul (by omega) (by omega)
        rw [if_pos this, if_pos this]
      · have hcast : (((off + data.length : Nat) : Int) - 1) = (((off + data.length - 1 : Nat)) : Int) := by omega
        have hediv : (((off + data.length - 1 : Nat)) : Int).ediv (seg : Int)
            = ((((off + data.length - 1) / seg : Nat)) : Int) := rfl
        have hnn : ¬ ((((off + data.length - 1) / seg : Nat)) : Int) < 0 := Int.not_lt.mpr (Int.natCast_nonneg _)
        rw [hcast, hediv, if_neg hnn, if_neg hnn, Int.toNat_natCast,
          decodeBlocks_eq old seg cfg.k _ hseg (div_lt_numSegments _ _ _ hseg (by omega))]
    · simp only [hX, if_false]
      have hnn : ¬ (((off / seg : Nat)) : Int) < 0 := Int.not_lt.mpr (Int.natCast_nonneg _)
      rw [if_neg hnn, if_neg hnn, Int.toNat_natCast, hdS]
  -- the servermap-to-Retrieve step delivers them, start first
  have hEn : (if off + data.length < old.length then (((off + data.length : Nat) : Int) - 1).ediv (seg : Int)
      else ((off / seg : Nat) : Int)) < ((numSegments old.length seg : Nat) : Int) := by
    by_cases hX : off + data.length < old.length
    · simp only [hX, if_true]
      rcases Nat.eq_zero_or_pos (off + data.length) with h0 | h0
      · have : ((((off + data.length : Nat) : Int) - 1).ediv (seg : Int)) < 0 := by
          rw [h0]
          show ((((0 : Nat) : Int) - 1) / (seg : Int)) < 0
          exact Int.ediv_lt_of_lt_mul (by omega) (by omega)
        have := Int.natCast_nonneg (numSegments old.length seg)
        omega
      · have hcast : (((off + data.length : Nat) : Int) - 1) = (((off + data.length - 1 : Nat)) : Int) := by omega
        have hediv : (((off + data.length - 1 : Nat)) : Int).ediv (seg : Int)
            = ((((off + data.length - 1) / seg : Nat)) : Int) := rfl
        rw [hcast, hediv]
        exact Int.ofNat_lt.mpr (div_lt_numSegments _ _ _ hseg (by omega))
    · simp only [hX, if_false]
      exact Int.ofNat_lt.mpr hstart
  have hbs := boundarySegmentsFrom_spec (List.range cfg.k) old seg cfg.k (off / seg)
    (if off + data.length < old.length then (((off + data.length : Nat) : Int) - 1).ediv (seg : Int)
      else ((off / seg : Nat) : Int)) List.nodup_range hk (by simp)
  have hg : ¬ ¬ (off / seg < numSegments old.length seg ∧
      (if off + data.length < old.length then (((off + data.length : Nat) : Int) - 1).ediv (seg : Int)
        else ((off / seg : Nat) : Int)) < ((numSegments old.length seg : Nat) : Int)) :=
    fun hneg => hneg ⟨hstart, hEn⟩
  rw [if_neg (Nat.ne_of_gt hpos), if_neg hg, hdS, hdE] at hbs
  simp only [mdmfUpdate, pubSegsize_mdmf, ← hsegv, Nat.ne_of_gt hseg, if_false, hoff, not_true_eq_false,
    updateRange, hbs]
  obtain ⟨s1, _, _⟩ := div_bounds off seg hseg
  obtain ⟨c, hc, hcn, hcX, hloop⟩ := updater_publisher_agree old data seg off hseg hpos hoff hstart
  rw [hc, hloop]
  simp only
  have hfl := flatten_segs (splice old off data) seg _ _
    (by rw [length_splice _ _ _ hoff]; exact geom_numSegments _ seg hseg) c (off / seg) hcn
  rw [hfl]
  have h1 : List.take (off / seg * seg) old = (splice old off data).take (off / seg * seg) := by
    have := slice_splice_before old data off 0 (off / seg * seg) hoff s1
    simpa [slice] using this.symm
  have h2 := drop_splice_after old data off ((off / seg + c) * seg) hoff hcX
  rw [h1, ← h2, take_slice_drop _ _ _ (Nat.mul_le_mul_right seg (by omega))]

/-- what the servermap records for a version published by this client: the segment size rule -/
def WF (cfg : Cfg) (v : Version) : Prop := v.segsize = pubSegsize cfg v.fmt v.content.length

theorem sdmfSplice_eq_splice (old data : Bytes) (off : Nat) (h : off ≤ old.length) :
    sdmfSplice old off data = splice old off data := by
  simp only [sdmfSplice, splice, List.length_take]
  have : off - min off old.length = 0 := by omega
  rw [this]; simp

theorem sdmfSplice_eq_spec (old data : Bytes) (off : Nat) :
    sdmfSplice old off data = specStep old (.update off data) := by
  simp only [sdmfSplice, specStep, List.length_take]
  have : off - min off old.length = off - old.length := by omega
  rw [this]

theorem splice_eq_spec (old data : Bytes) (off : Nat) (h : off ≤ old.length) :
    splice old off data = specStep old (.update off data) := by
  rw [← sdmfSplice_eq_spec, sdmfSplice_eq_splice _ _ _ h]

theorem modifyWith_spec (cfg : Cfg) (v : Version) (new? : Option Bytes) (hk : 0 < cfg.k) (hm : 0 < cfg.maxSeg)
    (wf : WF cfg v) :
    ∃ v', modifyWith cfg v new? = some v' ∧ v'.content = new?.getD v.content ∧ v'.fmt = v.fmt ∧ WF cfg v' := by
  cases new? with
  | none => exact ⟨v, rfl, rfl, rfl, wf⟩
  | some new =>
    simp only [modifyWith, Option.getD_some]
    by_cases h : new = v.content
    · rw [if_pos h]; exact ⟨v, rfl, h.symm, rfl, wf⟩
    · rw [if_neg h, publishAll_eq cfg v.fmt new hk hm]; exact ⟨_, rfl, rfl, rfl, rfl⟩

/-- the start segment is fetchable unless the write starts exactly at an EOF that is a segment boundary -/
theorem start_fetchable (size seg off : Nat) (hseg : 0 < seg) (hpos : 0 < size) (hoff : off ≤ size)
    (hb : ¬ (off = size ∧ off % seg = 0)) : off / seg < numSegments size seg := by
  have g := geom_numSegments size seg hseg
  obtain ⟨s1, s2, s3⟩ := div_bounds off seg hseg
  obtain ⟨_, g'⟩ := g
  rcases g' with ⟨_, h0⟩ | ⟨hn0, hl, ht0, hts⟩
  · omega
  · have e : (numSegments size seg - 1 + 1) * seg = (numSegments size seg - 1) * seg + seg := Nat.succ_mul _ _
    have e' : numSegments size seg - 1 + 1 = numSegments size seg := by omega
    rw [e'] at e
    apply Nat.lt_of_mul_lt_mul_right (a := seg)
    by_cases hlt : off < size
    · omega
    · have : off = size := by omega
      have hne : off % seg ≠ 0 := fun h => hb ⟨this, h⟩
      -- size is not a multiple of seg, so the tail is shorter than seg
      rcases Nat.lt_or_ge (tailSize size seg) seg with h | h
      · omega
      · have hts' : tailSize size seg = seg := by omega
        rw [hts'] at hl
        have : size % seg = 0 := by
          rw [← hl, ← e]; exact Nat.mul_mod_left _ _
        omega

theorem update_spec (cfg : Cfg) (v : Version) (off : Nat) (data : Bytes) (hk : 0 < cfg.k) (hm : 0 < cfg.maxSeg)
    (wf : WF cfg v) (hpos : 0 < v.content.length)
    (hb : v.fmt = .mdmf → off ≤ v.content.length ∧ ¬ (off = v.content.length ∧ off % v.segsize = 0)) :
    ∃ v', update cfg v off data = .ok v' ∧ v'.content = specStep v.content (.update off data)
      ∧ v'.fmt = v.fmt ∧ WF cfg v' := by
  have hseg : 0 < v.segsize := by
    rw [wf]
    cases hf : v.fmt with
    | sdmf => have := le_nextMultiple v.content.length cfg.k hk; simp only [pubSegsize]; omega
    | mdmf => have := le_nextMultiple cfg.maxSeg cfg.k hk; simp only [pubSegsize]; omega
  simp only [update, Nat.ne_of_gt hseg, if_false]
  cases hf : v.fmt with
  | sdmf =>
    simp only
    obtain ⟨v', h1, h2, h3, h4⟩ := modifyWith_spec cfg v (some (sdmfSplice v.content off data)) hk hm wf
    rw [h1]
    exact ⟨v', rfl, by rw [h2, Option.getD_some, sdmfSplice_eq_spec], by rw [h3, hf], h4⟩
  | mdmf =>
    simp only
    obtain ⟨hoff, hb'⟩ := hb hf
    have wf' : v.segsize = nextMultiple cfg.maxSeg cfg.k := by rw [wf, hf]; rfl
    rw [mdmfUpdate_splice cfg v off data hk hm wf' hpos hoff
      (start_fetchable _ _ _ hseg hpos hoff hb')]
    exact ⟨_, rfl, splice_eq_spec _ _ _ hoff, rfl, wf'⟩


theorem mdmfUpdate_ok_guard (cfg : Cfg) (v v' : Version) (off : Nat) (data : Bytes)
    (h : mdmfUpdate cfg v off data = .ok v') :
    0 < v.content.length ∧ off ≤ v.content.length
      ∧ off / v.segsize < numSegments v.content.length v.segsize := by
  unfold mdmfUpdate at h
  simp only [updateRange] at h
  by_cases h1 : v.segsize = 0
  · rw [if_pos h1] at h; cases h
  · rw [if_neg h1] at h
    by_cases h2 : off ≤ v.content.length
    · rw [if_neg (by simpa using h2)] at h
      -- the boundary-segment step succeeds only on a non-empty file whose start segment exists
      rcases Nat.eq_zero_or_pos cfg.k with hk0 | hk0
      · rw [hk0, List.range_zero, boundarySegmentsFrom_nil] at h
        by_cases h3 : v.content.length = 0
        · simp [h3] at h
        · simp [h3] at h
      · rw [boundarySegmentsFrom_spec (List.range cfg.k) v.content v.segsize cfg.k _ _ List.nodup_range hk0
          (by simp)] at h
        by_cases h3 : v.content.length = 0
        · rw [if_pos h3] at h; cases h
        · rw [if_neg h3] at h
          by_cases h4 : off / v.segsize < numSegments v.content.length v.segsize
          · exact ⟨by omega, h2, h4⟩
          · exfalso
            rw [if_pos (fun hc => h4 hc.1)] at h
            simp at h
    · rw [if_pos h2] at h; cases h

theorem step_spec (cfg : Cfg) (st st' : Option Version) (op : Op) (hk : 0 < cfg.k) (hm : 0 < cfg.maxSeg)
    (wf : ∀ v, st = some v → WF cfg v) (h : step cfg st op = .ok st') :
    contentOf st' = specStep (contentOf st) op ∧ (∀ v, st' = some v → WF cfg v) := by
  cases op with
  | create fmt data =>
    simp only [step, publishAll_eq cfg fmt data hk hm] at h
    cases h
    exact ⟨rfl, by intro v hv; cases hv; rfl⟩
  | overwrite data =>
    cases st with
    | none => simp [step] at h
    | some v =>
      simp only [step, publishAll_eq cfg v.fmt data hk hm] at h
      cases h
      exact ⟨rfl, by intro v hv; cases hv; rfl⟩
  | modify m =>
    cases st with
    | none => simp [step] at h
    | some v =>
      obtain ⟨v', h1, h2, _, h4⟩ := modifyWith_spec cfg v (m v.content) hk hm (wf v rfl)
      simp only [step, h1] at h
      cases h
      exact ⟨h2, by intro w hw; cases hw; exact h4⟩
  | update off data =>
    cases st with
    | none => simp [step] at h
    | some v =>
      simp only [step] at h
      cases hu : update cfg v off data with
      | error e => rw [hu] at h; cases h
      | ok v' =>
        rw [hu] at h; cases h
        have wfv := wf v rfl
        -- acceptance implies the guard
        have hseg : v.segsize ≠ 0 := by
          intro h0; simp [update, h0] at hu
        cases hf : v.fmt with
        | sdmf =>
          have hpos : 0 < v.content.length := by
            rcases Nat.eq_zero_or_pos v.content.length with h0 | h0
            · exfalso; apply hseg; rw [wfv, hf, h0]; simp [pubSegsize, nextMultiple, divCeil]
            · exact h0
          obtain ⟨w, hw1, hw2, _, hw4⟩ := update_spec cfg v off data hk hm wfv hpos (by intro h; rw [hf] at h; cases h)
          rw [hu] at hw1; cases hw1
          exact ⟨hw2, by intro x hx; cases hx; exact hw4⟩
        | mdmf =>
          have hm' : mdmfUpdate cfg v off data = .ok v' := by
            simpa [update, hseg, hf] using hu
          obtain ⟨g1, g2, g3⟩ := mdmfUpdate_ok_guard cfg v v' off data hm'
          have wf' : v.segsize = nextMultiple cfg.maxSeg cfg.k := by rw [wfv, hf]; rfl
          rw [mdmfUpdate_splice cfg v off data hk hm wf' g1 g2 g3] at hm'
          cases hm'
          exact ⟨splice_eq_spec _ _ _ g2, by intro x hx; cases hx; exact wf'⟩

theorem run_refines (cfg : Cfg) (hk : 0 < cfg.k) (hm : 0 < cfg.maxSeg) :
    ∀ (ops : List Op) (st : Option Version), (∀ v, st = some v → WF cfg v) →
      (run cfg st ops).map (fun r => contentOf r.2)
        = specRun (contentOf st) (((run cfg st ops).map (·.1)).zip ops) := by
  intro ops
  induction ops with
  | nil => intro st _; rfl
  | cons op ops ih =>
    intro st wf
    simp only [run]
    cases hs : step cfg st op with
    | error e =>
      simp only [List.map_cons, List.zip_cons_cons, specRun, Bool.false_eq_true, if_false]
      rw [ih st wf]
    | ok st' =>
      obtain ⟨h1, h2⟩ := step_spec cfg st st' op hk hm wf hs
      simp only [List.map_cons, List.zip_cons_cons, specRun, if_true]
      rw [ih st' h2, h1]

theorem read_spec (k : Nat) (v : Version) (off size : Nat) (hseg : 0 < v.segsize) (hsize : 0 < size)
    (hlen : off + size ≤ v.content.length) :
    read k v off (some size) = .ok (slice v.content off (off + size)) := by
  simp only [read, Nat.ne_of_gt hsize, if_false]
  rw [if_neg (by simp; omega)]
  congr 1
  have := readSegs_spec v.content v.segsize k off size hseg hsize hlen
    ((off + size - 1) / v.segsize + 1 - off / v.segsize) (off / v.segsize) (Nat.le_refl _)
    (by have : off / v.segsize ≤ (off + size - 1) / v.segsize := Nat.div_le_div_right (by omega)
        omega)
  rw [this]
  obtain ⟨s1, _, _⟩ := div_bounds off v.segsize hseg
  congr 1; omega


/-- a version published by a client has a positive segment size unless it is empty -/
theorem wf_segsize_pos (cfg : Cfg) (v : Version) (hk : 0 < cfg.k) (hm : 0 < cfg.maxSeg) (wf : WF cfg v)
    (hpos : 0 < v.content.length) : 0 < v.segsize := by
  rw [wf]
  cases v.fmt with
  | sdmf => have := le_nextMultiple v.content.length cfg.k hk; simp only [pubSegsize]; omega
  | mdmf => have := le_nextMultiple cfg.maxSeg cfg.k hk; simp only [pubSegsize]; omega

/-- every state of a history is a client-published version -/
theorem run_wf (cfg : Cfg) (hk : 0 < cfg.k) (hm : 0 < cfg.maxSeg) :
    ∀ (ops : List Op) (st : Option Version), (∀ v, st = some v → WF cfg v) →
      ∀ r ∈ run cfg st ops, ∀ v, r.2 = some v → WF cfg v := by
  intro ops
  induction ops with
  | nil => intro st _ r hr; simp [run] at hr
  | cons op ops ih =>
    intro st wf r hr
    simp only [run] at hr
    cases hs : step cfg st op with
    | error e =>
      rw [hs] at hr
      rcases List.mem_cons.mp hr with h | h
      · subst h; exact wf
      · exact ih st wf r h
    | ok st' =>
      rw [hs] at hr
      obtain ⟨_, h2⟩ := step_spec cfg st st' op hk hm wf hs
      rcases List.mem_cons.mp hr with h | h
      · subst h; exact h2
      · exact ih st' h2 r h

end Tahoe.Mutable.Content
