/-
Model of concurrent mutable publishes at the level of checkstrings (C12): `W` writers against the
storage servers' test-and-set (`slot_testv_and_readv_and_writev`), `Publish`'s use of it
(`mutable/publish.py`: test vector = the checkstring recorded by the writer's survey, or "share must not
exist" for a share the survey did not see; `mutable/layout.py` `SDMFSlotWriteProxy.finish_publishing`,
`MDMFSlotWriteProxy._write`: after a first successful write the proxy's test vector becomes its own new
checkstring), and `_got_write_answer`'s surprise detection.  Mathlib-free, executable (driver
`Drv/C12.lean`).  The byte-level storage semantics (C24) are *not* used: a slot holds a version id.

* servers: `store : (server, shnum) → Option Ver` (`none` = no such share).  Shares are never deleted.
* a schedule is any list of atomic server operations `survey w server` (`slot_readv` executed at the
  server: the writer learns the checkstring of every share of that server) and `write w slot` (one
  `slot_testv_and_readv_and_writev` executed at the server, test vector = what the writer believes the
  slot holds).  Any interleaving of any number of writers is a schedule; a writer stops surveying once it
  has started writing (a later `survey` event of that writer is ignored) — a retry is a new writer.
* per writer: `seen` (its belief per slot), `refused` (some write came back `wrote = False`),
  `surprised` (some answer showed a share, not among those this writer writes to that server, with a
  checkstring other than `expect` = `Publish._checkstring`), `wrote` (slots written).
-/
namespace Tahoe.Mutable.Race

abbrev Slot := Nat × Nat          -- (server, shnum)
abbrev Ver := Nat                 -- a checkstring (seqnum, root hash[, salt]) as an opaque id

inductive Ev
  | survey (w : Nat) (server : Nat)
  | write (w : Nat) (slot : Slot)
  deriving DecidableEq, Repr

/-- static description of the writers -/
structure Cfg where
  nsh : Nat                       -- share numbers 0..nsh-1 exist (what a `readv` of a server can return)
  k : Nat
  ver : Nat → Ver                 -- the new version writer `w` publishes
  goal : Nat → List Slot          -- the slots writer `w` writes (`Publish.goal` / `self.writers`)
  expect : Nat → Option Ver       -- `Publish._checkstring` (MDMF: the new checkstring; SDMF: the old one)

structure St where
  store : Slot → Option Ver
  seen : Nat → Slot → Option Ver
  writing : Nat → Bool
  refused : Nat → Bool
  surprised : Nat → Bool
  wrote : Nat → List Slot

def St.init (store : Slot → Option Ver) : St :=
  { store := store, seen := fun _ _ => none, writing := fun _ => false, refused := fun _ => false,
    surprised := fun _ => false, wrote := fun _ => [] }

def upd {α β : Type} [DecidableEq α] (f : α → β) (a : α) (b : β) : α → β := fun x => if x = a then b else f x

/-- `read_data` of an answer: the checkstring of every share on that server (read before the write) -/
def readData (cfg : Cfg) (st : St) (server : Nat) : List (Nat × Ver) :=
  (List.range cfg.nsh).filterMap (fun sh => (st.store (server, sh)).map (fun v => (sh, v)))

/-- `_got_write_answer`: a share other than the proxy's own and other than those this publish writes to
    that server, whose checkstring differs from `self._checkstring` -/
def isSurprise (cfg : Cfg) (st : St) (w : Nat) (slot : Slot) : Bool :=
  (readData cfg st slot.1).any (fun e =>
    e.1 != slot.2 && !((cfg.goal w).contains (slot.1, e.1)) && (some e.2 != cfg.expect w))

def step (cfg : Cfg) (st : St) : Ev → St
  | .survey w server =>
    if st.writing w then st
    else { st with seen := upd st.seen w (fun slot => if slot.1 = server then st.store slot else st.seen w slot) }
  | .write w slot =>
    let sur := isSurprise cfg st w slot
    let st1 := { st with writing := upd st.writing w true,
                         surprised := upd st.surprised w (st.surprised w || sur) }
    if st.store slot = st.seen w slot then                       -- the test vector matches
      { st1 with store := upd st.store slot (some (cfg.ver w)),
                 seen := upd st.seen w (upd (st.seen w) slot (some (cfg.ver w))),
                 wrote := upd st.wrote w (slot :: st.wrote w) }
    else { st1 with refused := upd st.refused w true }

def run (cfg : Cfg) (st : St) (evs : List Ev) : St := evs.foldl (step cfg) st

inductive Outcome | success | notEnoughServers | uncoordinatedWrite
  deriving DecidableEq, Repr

def distinctShnums (l : List Slot) : Nat := ((l.map (·.2)).eraseDups).length

/-- what writer `w`'s publish reports once all its answers are in (`Publish._push` in `DONE_STATE`) -/
def outcome (cfg : Cfg) (st : St) (w : Nat) : Outcome :=
  if st.refused w || st.surprised w then .uncoordinatedWrite
  else if distinctShnums (st.wrote w) < cfg.k then .notEnoughServers
  else .success

end Tahoe.Mutable.Race
