import Tahoe.Mutable.PublishDecision
import Tahoe.Mutable.ServerMapLemmas
/-! Helper lemmas about the `Publish` bookkeeping model (used by `Tahoe/Props/C47.lean`). -/
namespace Tahoe.Mutable.Pub
open Tahoe.Mutable

theorem step_k (p : Pub) (e : Event) : (step p e).k = p.k := by
  cases e with
  | problem w => rfl
  | answer w wrote rd => simp only [step]; split <;> split <;> (try split) <;> rfl

theorem step_checkstring (p : Pub) (e : Event) : (step p e).checkstring = p.checkstring := by
  cases e with
  | problem w => rfl
  | answer w wrote rd => simp only [step]; split <;> split <;> (try split) <;> rfl

theorem step_answer_writers (p : Pub) (w : Writer) (wrote : Bool) (rd : List (Nat × Nat)) :
    (step p (.answer w wrote rd)).writers = p.writers := by
  simp only [step]; split <;> split <;> (try split) <;> rfl

theorem foldl_k (p : Pub) (evs : List Event) : (evs.foldl step p).k = p.k := by
  induction evs generalizing p with
  | nil => rfl
  | cons e evs ih => simp only [List.foldl_cons]; rw [ih, step_k]

theorem foldl_checkstring (p : Pub) (evs : List Event) : (evs.foldl step p).checkstring = p.checkstring := by
  induction evs generalizing p with
  | nil => rfl
  | cons e evs ih => simp only [List.foldl_cons]; rw [ih, step_checkstring]

/-- the proxies left at the end are exactly those whose Deferred did not errback -/
theorem foldl_writers (p : Pub) (evs : List Event) :
    (evs.foldl step p).writers = p.writers.filter (fun w => decide (Event.problem w ∉ evs)) := by
  induction evs generalizing p with
  | nil =>
    simp only [List.foldl_nil, List.not_mem_nil, not_false_eq_true, decide_true]
    exact (List.filter_eq_self.mpr (fun _ _ => rfl)).symm
  | cons e evs ih =>
    simp only [List.foldl_cons]
    rw [ih]
    cases e with
    | problem w =>
      simp only [step, List.filter_filter]
      apply List.filter_congr
      intro x _
      simp only [List.mem_cons, Event.problem.injEq, not_or, ne_eq, decide_not, Bool.decide_and]
      by_cases h1 : x = w <;> by_cases h2 : Event.problem x ∈ evs <;> simp [h1, h2]
    | answer w wrote rd =>
      rw [step_answer_writers]
      apply List.filter_congr
      intro x _
      simp

theorem step_surprised_mono (p : Pub) (e : Event) (h : p.surprised = true) : (step p e).surprised = true := by
  cases e with
  | problem w => exact h
  | answer w wrote rd =>
    simp only [step]
    split <;> split <;> (try split) <;> simp_all

theorem foldl_surprised_mono (p : Pub) (evs : List Event) (h : p.surprised = true) :
    (evs.foldl step p).surprised = true := by
  induction evs generalizing p with
  | nil => exact h
  | cons e evs ih => exact ih _ (step_surprised_mono p e h)

/-- one answer leaves `surprised` false only if `wrote` and nothing surprising was read -/
theorem step_not_surprised (p : Pub) (w : Writer) (wrote : Bool) (rd : List (Nat × Nat))
    (h : (step p (.answer w wrote rd)).surprised = false) :
    p.surprised = false ∧ wrote = true ∧ isSurprise p.writers p.checkstring w rd = false := by
  simp only [step] at h
  cases hs : isSurprise p.writers p.checkstring w rd <;> cases wrote <;> simp_all
  all_goals (split at h <;> simp_all)

theorem isSurprise_false_spec (ws : List Writer) (cs : Nat) (w : Writer) (rd : List (Nat × Nat))
    (h : isSurprise ws cs w rd = false) :
    ∀ e ∈ rd, e.2 ≠ cs → e.1 = w.shnum ∨ ∃ x ∈ ws, x.server = w.server ∧ x.shnum = e.1 := by
  intro e he hne
  unfold isSurprise at h
  have := List.any_eq_false.mp h e he
  by_cases h1 : e.1 = w.shnum
  · exact Or.inl h1
  · right
    by_cases h3 : (ws.any fun x => x.server == w.server && x.shnum == e.1) = true
    · obtain ⟨x, hx, hxx⟩ := List.any_eq_true.mp h3
      simp only [Bool.and_eq_true, beq_iff_eq] at hxx
      exact ⟨x, hx, hxx⟩
    · exfalso
      apply this
      simp only [Bool.not_eq_true] at h3
      simp [h1, h3, hne]

theorem foldl_not_surprised (p : Pub) (evs : List Event) (h : (evs.foldl step p).surprised = false) :
    p.surprised = false ∧
    ∀ w wrote rd, Event.answer w wrote rd ∈ evs →
      wrote = true ∧
      ∀ e ∈ rd, e.2 ≠ p.checkstring → e.1 = w.shnum ∨ ∃ x ∈ p.writers, x.server = w.server ∧ x.shnum = e.1 := by
  induction evs generalizing p with
  | nil => exact ⟨h, fun _ _ _ hm => absurd hm (by simp)⟩
  | cons ev evs ih =>
    simp only [List.foldl_cons] at h
    obtain ⟨h1, h2⟩ := ih _ h
    have hsub : ∀ x ∈ (step p ev).writers, x ∈ p.writers := by
      intro x hx
      cases ev with
      | problem w => simp only [step, List.mem_filter] at hx; exact hx.1
      | answer w wrote rd => rw [step_answer_writers] at hx; exact hx
    have hp : p.surprised = false := by
      cases hps : p.surprised
      · rfl
      · rw [step_surprised_mono p ev hps] at h1; exact absurd h1 (by simp)
    refine ⟨hp, ?_⟩
    intro w wrote rd hm
    rcases List.mem_cons.mp hm with rfl | hm
    · obtain ⟨_, hw, hs⟩ := step_not_surprised p w wrote rd h1
      exact ⟨hw, isSurprise_false_spec _ _ _ _ hs⟩
    · obtain ⟨hw, hrest⟩ := h2 w wrote rd hm
      refine ⟨hw, fun e he hne => ?_⟩
      rw [step_checkstring] at hrest
      rcases hrest e he hne with h | ⟨x, hx, hxx⟩
      · exact Or.inl h
      · exact Or.inr ⟨x, hsub x hx, hxx⟩

theorem run_success (p : Pub) (evs : List Event) (h : run p evs = .success) :
    (evs.foldl step p).surprised = false ∧ p.k ≤ numShnums (evs.foldl step p).writers := by
  unfold run at h
  split at h
  · rename_i e he
    unfold pushCheck at he
    split at he
    · simp only [Option.some.injEq] at he; subst he; split at h <;> simp at h
    · simp at he
  · split at h
    · rename_i e he
      unfold pushCheck at he
      split at he
      · simp only [Option.some.injEq] at he; subst he; split at h <;> simp at h
      · simp at he
    · rename_i he
      unfold pushCheck at he
      split at he
      · simp at he
      · rename_i hc
        simp only [Bool.or_eq_true, decide_eq_true_eq, not_or, Nat.not_lt, Bool.not_eq_true] at hc
        rw [foldl_k] at hc
        exact ⟨hc.2, hc.1⟩

end Tahoe.Mutable.Pub
