/-
Model of the authenticity checks a mutable-file reader applies to a share (C10), symbolic crypto.

  ServermapUpdater._try_to_set_pubkey      fingerprint(pubkey field) must equal the fingerprint in the cap;
                                           skipped when the node already holds a public key (which was
                                           itself installed only through this check)
  ServermapUpdater._got_signature_one_share verify(pubkey, signature, signed prefix)
  Retrieve._validate_block / _set_segment  block (with its salt) hashes into the block hash tree, whose
                                           root is leaf `shnum` of the share hash tree, whose root is the
                                           root_hash inside the signed prefix
The encrypted private key is not examined on a read.  Mathlib-free; the executable part (the
field-level decision used by the driver) is `fieldDecision`.
-/
namespace Tahoe.Authentic

/-- the signed prefix of a share: `>BQ32s16s BBQQ` (SDMF) / `>BQ32sBBQQ` (MDMF) -/
structure Prefix (H : Type) where
  seqnum : Nat
  root : H
  salt : Nat          -- SDMF IV (0 for MDMF, whose per-segment salts are hashed with the blocks)
  k : Nat
  n : Nat
  segsize : Nat
  datalen : Nat
  deriving DecidableEq, Repr

/-- everything a storage server (the adversary) supplies for one share -/
structure Share (PK Sig H Chain Blocks : Type) where
  pubkey : PK
  pre : Prefix H
  sig : Sig
  chain : Chain       -- share hash chain
  blocks : Blocks     -- the share's blocks (with salts), from which the block hash tree is recomputed

/-- the primitives, as parameters -/
structure Prims (PK Sig H FP Chain Blocks : Type) where
  verify : PK → Prefix H → Sig → Bool
  fp : PK → FP
  bhtRoot : Blocks → H                       -- root of the block hash tree over (salt ‖ block) leaves
  chainOk : Chain → Nat → H → H → Bool       -- chain, shnum, leaf, root

variable {PK Sig H FP Chain Blocks : Type} [DecidableEq FP]

/-- the reader's decision for one share: `known` is the public key the node already holds, if any -/
def accept (P : Prims PK Sig H FP Chain Blocks) (capFp : FP) (known : Option PK) (shnum : Nat)
    (s : Share PK Sig H Chain Blocks) : Bool :=
  let pkOk := match known with
    | some _ => true
    | none => P.fp s.pubkey == capFp
  let pk := known.getD s.pubkey
  pkOk && P.verify pk s.pre s.sig && P.chainOk s.chain shnum (P.bhtRoot s.blocks) s.pre.root

/-- a published version: its signed prefix and, per share number, the blocks written -/
structure Version (H Blocks : Type) where
  pre : Prefix H
  blocksOf : Nat → Blocks

/-! ### field-level decision table (executable; compared with the real reader share by share) -/

inductive Field
  | none | version | seqnum | rootHash | salt | kN | segsize | datalen
  | pubkey | signature | shareData | encPrivkey
  deriving DecidableEq, Repr

/-- is a single share with exactly this field altered still accepted by a read through the read-cap?
`warm` = the node already holds the public key.  (The two hash-chain fields are not in the table:
which of their bytes a read consults depends on the tree shapes; they are covered by `accept` and by
the harness monitor instead.) -/
def fieldDecision (warm : Bool) : Field → Bool
  | .none => true
  | .encPrivkey => true          -- not examined on read
  | .pubkey => warm              -- only examined when no key is known yet
  | _ => false                   -- signed prefix, signature, share data: rejected

/-! ### share-hash-tree validation across one whole Retrieve (retrieve.py)

`Retrieve._setup_download` makes ONE `IncompleteHashTree(N)` per download and seeds it with the root
hash of the signed prefix (`share_hash_tree.set_hashes({0: root_hash})`); `_validate_block` feeds every
share's chain and block-hash root into it; `_handle_bad_share` / `_mark_bad_share` drop the reader and
leave the tree alone.  `IncompleteHashTree.set_hashes` checks the hashes it is given against the nodes it
already knows and *adopts* the root it computed itself when it knows none -- so the seeded root is what
ties every later share to the signature, and it must survive every rejected share.

Deviation: of the tree only its root is kept (`tree : Option H`); with collision-free hashing every
known inner node is determined by the root, so "consistent with the known nodes" = "hashes to the known
root".  Chains the reader does not ask for because the nodes are already known are modelled as given;
a chain that stops below the root is "not connected" (`chainRoot = none`) even if nodes the tree
happens to know already would bridge the gap -- then the real tree compares with those nodes, which
under the invariant are the signed root's, so it accepts only leaves of the signed root anyway.
(In the `none` branch -- never reached from `Retr.setup` -- a real tree that adopted a root computed from
a damaged leaf also remembers the chain's inner nodes; the driver correspondence therefore feeds unseeded
trees internally consistent shares only.) -/

/-- what `set_hashes` computes on the way up: the root obtained from a chain, the leaf number and the
leaf -- or `none` when the supplied hashes do not CONNECT the leaf to the root: some node on the way
(the leaf itself, or a parent `set_hashes` computed from it) has no known sibling.  That is
`NotEnoughHashesError("unable to validate [i]")`; it is raised for every such node, whether it was
passed in or computed, and all hashes of the call are forgotten. -/
structure TreeOps (H Chain : Type) where
  chainRoot : Chain → Nat → H → Option H

/-- the part of a `Retrieve` that block validation reads and writes -/
structure Retr (H Blocks : Type) where
  tree : Option H                  -- root node of `self.share_hash_tree`, if known
  shares : List (Nat × Blocks)     -- validated (shnum, blocks), oldest first
  bad : List Nat                   -- share numbers marked bad

/-- what happens to a Retrieve: a share's answer arrives and goes through `_validate_block`, or the
share fails for any other reason (connection error, layout error, block hash tree failure, prefix mismatch) -/
inductive REv (Chain Blocks : Type)
  | offer (shnum : Nat) (chain : Chain) (blocks : Blocks)
  | fail (shnum : Nat)

/-- `_setup_download`: a fresh tree seeded with the signed root -/
def Retr.setup {H Blocks : Type} (root : H) : Retr H Blocks := { tree := some root, shares := [], bad := [] }

/-- `_mark_bad_share`: the reader is dropped; the share hash tree is NOT touched -/
def markBad {H Blocks : Type} (r : Retr H Blocks) (shnum : Nat) : Retr H Blocks := { r with bad := shnum :: r.bad }

/-- one event.  `offer` = `share_hash_tree.set_hashes(hashes=chain, leaves={shnum: bht[0]})` followed by
acceptance, or `CorruptShareError` → `_handle_bad_share` → `_mark_bad_share`. -/
def rstep {H Chain Blocks : Type} [DecidableEq H] (T : TreeOps H Chain) (bhtRoot : Blocks → H)
    (r : Retr H Blocks) : REv Chain Blocks → Retr H Blocks
  | .offer i c b =>
    match T.chainRoot c i (bhtRoot b) with
    | none => markBad r i                      -- NotEnoughHashesError: the leaf is not tied to the root
    | some computed =>
      match r.tree with
      | some root => if computed = root then { r with shares := r.shares ++ [(i, b)] } else markBad r i
      | none => { r with tree := some computed, shares := r.shares ++ [(i, b)] }   -- a root it computed itself is accepted
  | .fail i => markBad r i

def rrun {H Chain Blocks : Type} [DecidableEq H] (T : TreeOps H Chain) (bhtRoot : Blocks → H)
    (r : Retr H Blocks) (evs : List (REv Chain Blocks)) : Retr H Blocks := evs.foldl (rstep T bhtRoot) r

/-- NOT the code: the variant in which bad-share handling starts over with a clean share hash tree.
Kept only for the counterexample in Props/C10 that shows why the seeded root must never be reset. -/
def rstepReset {H Chain Blocks : Type} [DecidableEq H] (T : TreeOps H Chain) (bhtRoot : Blocks → H)
    (r : Retr H Blocks) (e : REv Chain Blocks) : Retr H Blocks :=
  let r' := rstep T bhtRoot r e
  if r'.bad.length = r.bad.length then r' else { r' with tree := none }

/-- NOT the code: the variant in which a node without a known sibling is treated as a "surplus hash"
and dropped unless it is one of the leaves passed in -- so a parent computed from the leaf under
validation is dropped too and the leaf counts as validated although nothing tied it to the root.
Kept only for the counterexample in Props/C10. -/
def rstepSurplus {H Chain Blocks : Type} [DecidableEq H] (T : TreeOps H Chain) (bhtRoot : Blocks → H)
    (r : Retr H Blocks) : REv Chain Blocks → Retr H Blocks
  | .offer i c b =>
    match T.chainRoot c i (bhtRoot b) with
    | none => { r with shares := r.shares ++ [(i, b)] }
    | some _ => rstep T bhtRoot r (.offer i c b)
  | .fail i => markBad r i

/-! #### a toy hash universe for the driver (share "families": family f = one consistent set of N shares) -/
namespace Toy

inductive TH
  | fam (f : Nat)                      -- root of family f's share hash tree
  | leafOf (f i : Nat)                 -- block-hash root of share i of family f
  | junkLeaf (id : Nat)                -- block-hash root of a damaged block
  | junkRoot (c i : Nat) (leaf : TH)   -- what a chain of family c computes from a leaf that is not its own
  deriving DecidableEq, Repr

/-- chains are identified with their family, plus whether they reach up to the root (`true`) or stop
below it (`false`: e.g. a chain whose records name only the sibling leaf) -/
def ops : TreeOps TH (Nat × Bool) where
  chainRoot := fun c i leaf =>
    if !c.2 then none
    else some (if leaf = .leafOf c.1 i then .fam c.1 else .junkRoot c.1 i leaf)

inductive Ev
  | offer (shnum fam : Nat)            -- an internally consistent share of family `fam`
  | damaged (shnum fam id : Nat)       -- chain of family `fam`, block data damaged
  | truncated (shnum fam : Nat)        -- an internally consistent share of family `fam` whose chain stops below the root
  | fail (shnum : Nat)
  deriving Repr

def toREv : Ev → REv (Nat × Bool) TH
  | .offer i f => .offer i (f, true) (.leafOf f i)
  | .damaged i f id => .offer i (f, true) (.junkLeaf id)
  | .truncated i f => .offer i (f, false) (.leafOf f i)
  | .fail i => .fail i

/-- per event: was the share accepted?  plus the final state -/
def run (seed : Option Nat) (evs : List Ev) : List Bool × Retr TH TH :=
  evs.foldl (fun (acc : List Bool × Retr TH TH) e =>
    let r' := rstep ops id acc.2 (toREv e)
    (acc.1 ++ [decide (r'.bad.length = acc.2.bad.length)], r'))
    ([], { tree := seed.map TH.fam, shares := [], bad := [] })

end Toy

/-! ### which header a Retrieve believes, and the salt it decrypts with

`ServermapUpdater` leaves the slot reader of every share it verified in `ServerMap.proxies`, keyed by
(verinfo, server, storage index, shnum); the header that reader holds is the one whose signed prefix
the signature check covered -- for SDMF it contains the 16-byte IV.  `Retrieve._setup_download` reuses
that reader; only if there is none does it make a fresh one, which fetches the header again from the
server, and nothing compares that header with the signed prefix (`_try_to_validate_prefix` has no
caller).  `_decode_blocks` decrypts with the salt reported by the first active reader; SDMF block hashes
cover the ciphertext only, so a wrong IV is not noticed by the hash checks.  Hence: the IV used for
decryption is the signed one exactly as long as the readers are the cached ones. -/

/-- one active reader: is it the cached one; the prefix verified at map-update time; the prefix a fresh fetch returns -/
structure ReaderHdr (H : Type) where
  cached : Bool
  verified : Prefix H
  fetched : Prefix H          -- whatever the server sends now

/-- the header the reader works with -/
def ReaderHdr.believed {H : Type} (r : ReaderHdr H) : Prefix H := if r.cached then r.verified else r.fetched

/-- `_decode_blocks`: `salt = list(blocks_and_salts.items())[0][1][1]` -- the first active reader's (SDMF: its header's IV) -/
def decryptSalt {H : Type} (readers : List (ReaderHdr H)) : Option Nat := readers.head?.map (fun r => r.believed.salt)

/-! ### the map update's signature cache (`ServermapUpdater._got_signature_one_share`)

    if verinfo not in self._valid_versions:
        rsa.verify_signature(pubkey, signature, prefix)        # BadSignature -> CorruptShareError
    self._valid_versions.add(verinfo)
    ... self._servermap.add_new_share(server, shnum, verinfo, timestamp)

One RSA check per version instead of one per share.  `verinfo` contains the complete signed prefix
(and the offsets), so a cache hit means "this very prefix was verified before".  The cache key is a
parameter here (`key`): the code uses the whole verinfo; a coarser key (seqnum, root hash, salt) is the
variant of seed C10-a. -/

/-- what one share contributes to the map update: its signed prefix, the identity of its offsets table, its signature -/
structure SigIn (H Sig : Type) where
  pre : Prefix H
  offs : Nat
  sig : Sig

/-- `_valid_versions` (as cache keys) and the verinfos entered into the servermap, newest first -/
structure SigCache (H K : Type) where
  valid : List K
  entered : List (Prefix H × Nat)

/-- one share through `_got_signature_one_share` -/
def gotSignature {H Sig K : Type} [DecidableEq K] (verify : Prefix H → Sig → Bool) (key : Prefix H → Nat → K)
    (st : SigCache H K) (x : SigIn H Sig) : SigCache H K :=
  if key x.pre x.offs ∈ st.valid then { st with entered := (x.pre, x.offs) :: st.entered }
  else if verify x.pre x.sig then { valid := key x.pre x.offs :: st.valid, entered := (x.pre, x.offs) :: st.entered }
  else st                                                        -- CorruptShareError: the share is marked bad

def mapUpdate {H Sig K : Type} [DecidableEq K] (verify : Prefix H → Sig → Bool) (key : Prefix H → Nat → K)
    (xs : List (SigIn H Sig)) : SigCache H K := xs.foldl (gotSignature verify key) { valid := [], entered := [] }

/-- the key the code uses: the whole verinfo -/
def fullKey {H : Type} (p : Prefix H) (o : Nat) : Prefix H × Nat := (p, o)

/-- NOT the code: (seqnum, root hash, salt) only -/
def coarseKey {H : Type} (p : Prefix H) (_o : Nat) : Nat × H × Nat := (p.seqnum, p.root, p.salt)

/-! ### which fields of a share the signature covers, and which are in the version identity

layout.py: the signed prefix is `>BQ32s16s BBQQ` (SDMF: version, seqnum, root hash, IV, k, N, segsize,
datalength) / `>BQ32sBBQQ` (MDMF: the same without the IV); the offsets table follows it, unsigned.
servermap.py `_got_signature_one_share`: verinfo = (seqnum, root_hash, IV-or-None, segsize, datalength,
k, N, prefix, offsets_tuple) -- every signed field (inside `prefix`) plus the offsets.  The map update
checks: known format version, public key against the cap's fingerprint (cold node), signature over the
prefix.  It does not look at the hash chains, the block data or the encrypted private key. -/

inductive HField
  | version | seqnum | rootHash | salt | kN | segsize | datalen      -- the signed prefix (salt: SDMF only)
  | offsets                                                          -- the offsets table
  | pubkey | signature | shareHashChain | blockHashTree | shareData | encPrivkey
  deriving DecidableEq, Repr

def HField.all : List HField :=
  [.version, .seqnum, .rootHash, .salt, .kN, .segsize, .datalen, .offsets, .pubkey, .signature,
   .shareHashChain, .blockHashTree, .shareData, .encPrivkey]

/-- inside the byte range the signature is computed over -/
def signedField : HField → Bool
  | .version | .seqnum | .rootHash | .salt | .kN | .segsize | .datalen => true
  | _ => false

/-- part of `verinfo`, the identity under which the servermap files the share -/
def inVerinfo : HField → Bool
  | .offsets => true
  | f => signedField f

/-- what a map update (fresh read-cap node) does with a share in which exactly this field was altered -/
inductive MapOutcome
  | rejected            -- not entered (CorruptShareError / UnknownVersionError / bad key)
  | sameIdentity        -- entered under the verinfo of the intact shares
  | newIdentity         -- entered under a verinfo of its own
  deriving DecidableEq, Repr

def mapOutcome : HField → MapOutcome
  | .offsets => .newIdentity
  | .pubkey | .signature => .rejected
  | .shareHashChain | .blockHashTree | .shareData | .encPrivkey => .sameIdentity
  | _ => .rejected                       -- a signed field: the signature no longer matches the prefix

/-! ### who can make a version: symbolic terms and adversary knowledge (Dolev–Yao) -/

inductive T
  | sk | pk | writekey
  | msg (n : Nat)                  -- a signed prefix
  | hash (tag : Nat) (t : T)       -- tag 1 = read key derivation; other tags = other derivations
  | sig (key m : T)
  | enc (key payload : T)
  | pair (a b : T)
  deriving DecidableEq, Repr

def readkeyTag : Nat := 1

/-- what an adversary can compute from a set of known terms -/
inductive Derivable (K : T → Prop) : T → Prop
  | known {t} : K t → Derivable K t
  | hash {t} (tag) : Derivable K t → Derivable K (.hash tag t)
  | sign {k m} : Derivable K k → Derivable K m → Derivable K (.sig k m)
  | encrypt {k p} : Derivable K k → Derivable K p → Derivable K (.enc k p)
  | decrypt {k p} : Derivable K (.enc k p) → Derivable K k → Derivable K p
  | pair {a b} : Derivable K a → Derivable K b → Derivable K (.pair a b)
  | fst {a b} : Derivable K (.pair a b) → Derivable K a
  | snd {a b} : Derivable K (.pair a b) → Derivable K b
  | pkOfSk : Derivable K .sk → Derivable K .pk

/-- terms that may be public without endangering the signing key: `published n` says prefix n was
signed by the write-cap holder -/
def Pub (published : Nat → Prop) : T → Prop
  | .sk => False
  | .writekey => False
  | .pk => True
  | .msg _ => True
  | .hash tag t => (tag = readkeyTag ∧ t = .writekey) ∨ Pub published t
  | .sig k m => (k = .sk ∧ ∃ n, m = .msg n ∧ published n) ∨ (Pub published k ∧ Pub published m)
  | .enc k p => Pub published p ∨ ¬ Pub published k
  | .pair a b => Pub published a ∧ Pub published b

end Tahoe.Authentic
