/-
Model of the authenticity checks a mutable-file reader applies to a share (C10), symbolic crypto.

  ServermapUpdater._try_to_set_pubkey      fingerprint(pubkey field) must equal the fingerprint in the cap;
                                           skipped when the node already holds a public key (which was
                                           itself installed only through this check)
  ServermapUpdater._got_signature_one_share verify(pubkey, signature, signed prefix)
  Retrieve._validate_block / _set_segment  block (with its salt) hashes into the block hash tree, whose
                                           root is leaf `shnum` of the share hash tree, whose root is the
                                           root_hash inside the signed prefix
The encrypted private key is not examined on a read.  Mathlib-free; the executable part (the
field-level decision used by the driver) is `fieldDecision`.
-/
namespace Tahoe.Authentic

/-- the signed prefix of a share: `>BQ32s16s BBQQ` (SDMF) / `>BQ32sBBQQ` (MDMF) -/
structure Prefix (H : Type) where
  seqnum : Nat
  root : H
  salt : Nat          -- SDMF IV (0 for MDMF, whose per-segment salts are hashed with the blocks)
  k : Nat
  n : Nat
  segsize : Nat
  datalen : Nat
  deriving DecidableEq, Repr

/-- everything a storage server (the adversary) supplies for one share -/
structure Share (PK Sig H Chain Blocks : Type) where
  pubkey : PK
  pre : Prefix H
  sig : Sig
  chain : Chain       -- share hash chain
  blocks : Blocks     -- the share's blocks (with salts), from which the block hash tree is recomputed

/-- the primitives, as parameters -/
structure Prims (PK Sig H FP Chain Blocks : Type) where
  verify : PK → Prefix H → Sig → Bool
  fp : PK → FP
  bhtRoot : Blocks → H                       -- root of the block hash tree over (salt ‖ block) leaves
  chainOk : Chain → Nat → H → H → Bool       -- chain, shnum, leaf, root

variable {PK Sig H FP Chain Blocks : Type} [DecidableEq FP]

/-- the reader's decision for one share: `known` is the public key the node already holds, if any -/
def accept (P : Prims PK Sig H FP Chain Blocks) (capFp : FP) (known : Option PK) (shnum : Nat)
    (s : Share PK Sig H Chain Blocks) : Bool :=
  let pkOk := match known with
    | some _ => true
    | none => P.fp s.pubkey == capFp
  let pk := known.getD s.pubkey
  pkOk && P.verify pk s.pre s.sig && P.chainOk s.chain shnum (P.bhtRoot s.blocks) s.pre.root

/-- a published version: its signed prefix and, per share number, the blocks written -/
structure Version (H Blocks : Type) where
  pre : Prefix H
  blocksOf : Nat → Blocks

/-! ### field-level decision table (executable; compared with the real reader share by share) -/

inductive Field
  | none | version | seqnum | rootHash | salt | kN | segsize | datalen
  | pubkey | signature | shareData | encPrivkey
  deriving DecidableEq, Repr

/-- is a single share with exactly this field altered still accepted by a read through the read-cap?
`warm` = the node already holds the public key.  (The two hash-chain fields are not in the table:
which of their bytes a read consults depends on the tree shapes; they are covered by `accept` and by
the harness monitor instead.) -/
def fieldDecision (warm : Bool) : Field → Bool
  | .none => true
  | .encPrivkey => true          -- not examined on read
  | .pubkey => warm              -- only examined when no key is known yet
  | _ => false                   -- signed prefix, signature, share data: rejected

/-! ### who can make a version: symbolic terms and adversary knowledge (Dolev–Yao) -/

inductive T
  | sk | pk | writekey
  | msg (n : Nat)                  -- a signed prefix
  | hash (tag : Nat) (t : T)       -- tag 1 = read key derivation; other tags = other derivations
  | sig (key m : T)
  | enc (key payload : T)
  | pair (a b : T)
  deriving DecidableEq, Repr

def readkeyTag : Nat := 1

/-- what an adversary can compute from a set of known terms -/
inductive Derivable (K : T → Prop) : T → Prop
  | known {t} : K t → Derivable K t
  | hash {t} (tag) : Derivable K t → Derivable K (.hash tag t)
  | sign {k m} : Derivable K k → Derivable K m → Derivable K (.sig k m)
  | encrypt {k p} : Derivable K k → Derivable K p → Derivable K (.enc k p)
  | decrypt {k p} : Derivable K (.enc k p) → Derivable K k → Derivable K p
  | pair {a b} : Derivable K a → Derivable K b → Derivable K (.pair a b)
  | fst {a b} : Derivable K (.pair a b) → Derivable K a
  | snd {a b} : Derivable K (.pair a b) → Derivable K b
  | pkOfSk : Derivable K .sk → Derivable K .pk

/-- terms that may be public without endangering the signing key: `published n` says prefix n was
signed by the write-cap holder -/
def Pub (published : Nat → Prop) : T → Prop
  | .sk => False
  | .writekey => False
  | .pk => True
  | .msg _ => True
  | .hash tag t => (tag = readkeyTag ∧ t = .writekey) ∨ Pub published t
  | .sig k m => (k = .sk ∧ ∃ n, m = .msg n ∧ published n) ∨ (Pub published k ∧ Pub published m)
  | .enc k p => Pub published p ∨ ¬ Pub published k
  | .pair a b => Pub published a ∧ Pub published b

end Tahoe.Authentic
