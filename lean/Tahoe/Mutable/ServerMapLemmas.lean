import Tahoe.Mutable.ServerMap
/-! Helper lemmas about the `ServerMap` model (used by `Tahoe/Props/C11.lean` and `C14.lean`). -/
namespace Tahoe.Mutable

theorem mem_dedup {α : Type} [DecidableEq α] (a : α) (l : List α) : a ∈ dedup l ↔ a ∈ l := by
  induction l with
  | nil => simp [dedup]
  | cons b l ih =>
    simp only [dedup]
    split
    · rename_i hb
      rw [ih]; constructor
      · intro h; exact List.mem_cons_of_mem _ h
      · intro h; rcases List.mem_cons.mp h with rfl | h
        · exact hb
        · exact h
    · simp only [List.mem_cons, ih]

theorem nodup_dedup {α : Type} [DecidableEq α] (l : List α) : (dedup l).Nodup := by
  induction l with
  | nil => simp [dedup]
  | cons b l ih =>
    simp only [dedup]
    split
    · exact ih
    · rename_i hb
      exact List.nodup_cons.mpr ⟨fun h => hb ((mem_dedup b l).mp h), ih⟩

theorem le_foldl_max_init (l : List Nat) (i : Nat) : i ≤ l.foldl max i := by
  induction l generalizing i with
  | nil => simp
  | cons a l ih => simp only [List.foldl_cons]; exact Nat.le_trans (Nat.le_max_left i a) (ih _)

theorem le_foldl_max_of_mem (l : List Nat) (i x : Nat) (h : x ∈ l) : x ≤ l.foldl max i := by
  induction l generalizing i with
  | nil => simp at h
  | cons a l ih =>
    simp only [List.foldl_cons]
    rcases List.mem_cons.mp h with rfl | h
    · exact Nat.le_trans (Nat.le_max_right i x) (le_foldl_max_init l _)
    · exact ih _ h

theorem foldl_max_mem_or_init (l : List Nat) (i : Nat) : l.foldl max i = i ∨ l.foldl max i ∈ l := by
  induction l generalizing i with
  | nil => simp
  | cons a l ih =>
    simp only [List.foldl_cons]
    rcases ih (max i a) with h | h
    · rw [h]
      rcases Nat.le_total i a with hia | hia
      · right; rw [Nat.max_eq_right hia]; exact List.mem_cons_self
      · left; exact Nat.max_eq_left hia
    · right; exact List.mem_cons_of_mem _ h

namespace ServerMap

/-- a version is *located* when some share in the map carries it -/
def Located (sm : ServerMap) (v : VerInfo) : Prop := ∃ key, (key, v) ∈ sm.known

theorem mem_versions (sm : ServerMap) (v : VerInfo) : v ∈ sm.versions ↔ sm.Located v := by
  unfold versions Located
  rw [mem_dedup]
  simp only [List.mem_map]
  constructor
  · rintro ⟨⟨key, w⟩, h, rfl⟩; exact ⟨key, h⟩
  · rintro ⟨key, h⟩; exact ⟨(key, v), h, rfl⟩

theorem mem_recoverable (sm : ServerMap) (v : VerInfo) :
    v ∈ sm.recoverable ↔ sm.Located v ∧ v.k ≤ sm.distinctShnums v := by
  unfold recoverable
  simp only [List.mem_filter, mem_versions, decide_eq_true_eq]

theorem mem_unrecoverable (sm : ServerMap) (v : VerInfo) :
    v ∈ sm.unrecoverable ↔ sm.Located v ∧ sm.distinctShnums v < v.k := by
  unfold unrecoverable
  simp only [List.mem_filter, mem_versions, decide_eq_true_eq]

/-- every located version is recoverable or unrecoverable, never both -/
theorem located_split (sm : ServerMap) (v : VerInfo) (h : sm.Located v) :
    (v ∈ sm.recoverable ∧ v ∉ sm.unrecoverable) ∨ (v ∈ sm.unrecoverable ∧ v ∉ sm.recoverable) := by
  rw [mem_recoverable, mem_unrecoverable]
  rcases Nat.lt_or_ge (sm.distinctShnums v) v.k with hlt | hge
  · right; exact ⟨⟨h, hlt⟩, fun h' => by omega⟩
  · left; exact ⟨⟨h, hge⟩, fun h' => by omega⟩

theorem seqnum_le_highest (sm : ServerMap) (key : ShareKey) (v : VerInfo) (h : (key, v) ∈ sm.known) :
    v.seqnum ≤ sm.highestSeqnum := by
  unfold highestSeqnum
  apply le_foldl_max_of_mem
  simp only [sharesAvailable, List.map_map, List.mem_map, Function.comp]
  exact ⟨v, (mem_versions sm v).mpr ⟨key, h⟩, rfl⟩

/-- `highest_seqnum` is 0 or the seqnum of a located version -/
theorem highest_is_located (sm : ServerMap) :
    sm.highestSeqnum = 0 ∨ ∃ v, sm.Located v ∧ v.seqnum = sm.highestSeqnum := by
  unfold highestSeqnum
  rcases foldl_max_mem_or_init ((sharesAvailable sm).map (fun e => e.1.seqnum)) 0 with h | h
  · left; exact h
  · right
    simp only [sharesAvailable, List.map_map, List.mem_map, Function.comp] at h
    obtain ⟨v, hv, he⟩ := h
    refine ⟨v, (mem_versions sm v).mp hv, ?_⟩
    rw [he]; simp only [sharesAvailable, List.map_map]

/-! #### the tuple order -/

theorem le_refl (a : VerInfo) : VerInfo.le a a := List.le_refl _
theorem le_trans {a b c : VerInfo} (h1 : VerInfo.le a b) (h2 : VerInfo.le b c) : VerInfo.le a c :=
  List.le_trans h1 h2
theorem le_total (a b : VerInfo) : VerInfo.le a b ∨ VerInfo.le b a := List.le_total _ _

/-- the order is by sequence number first, root hash second -/
theorem le_seqnum {a b : VerInfo} (h : VerInfo.le a b) :
    a.seqnum ≤ b.seqnum ∧ (a.seqnum = b.seqnum → a.rootHash ≤ b.rootHash) := by
  unfold VerInfo.le VerInfo.key at h
  rw [List.cons_le_cons_iff] at h
  rcases h with h | ⟨h1, h2⟩
  · rw [List.cons_lt_cons_iff] at h
    rcases h with h | ⟨_, h⟩
    · exact ⟨Nat.le_of_lt h, fun he => by omega⟩
    · exact absurd h (by simp)
  · have hs : a.seqnum = b.seqnum := by simpa using h1
    refine ⟨Nat.le_of_eq hs, fun _ => ?_⟩
    rw [List.cons_le_cons_iff] at h2
    rcases h2 with h | ⟨h, _⟩
    · exact List.le_of_lt h
    · rw [h]; exact List.le_refl _

theorem foldl_max_spec (l : List VerInfo) (v : VerInfo) :
    let m := l.foldl (fun m w => if VerInfo.le m w then w else m) v
    (m = v ∨ m ∈ l) ∧ VerInfo.le v m ∧ ∀ w ∈ l, VerInfo.le w m := by
  induction l generalizing v with
  | nil => simp [le_refl]
  | cons a l ih =>
    simp only [List.foldl_cons]
    by_cases hva : VerInfo.le v a
    · simp only [hva, if_true]
      obtain ⟨h1, h2, h3⟩ := ih a
      refine ⟨?_, le_trans hva h2, ?_⟩
      · rcases h1 with h | h
        · right; rw [h]; exact List.mem_cons_self
        · right; exact List.mem_cons_of_mem _ h
      · intro w hw
        rcases List.mem_cons.mp hw with rfl | hw
        · exact h2
        · exact h3 w hw
    · simp only [hva, if_false]
      obtain ⟨h1, h2, h3⟩ := ih v
      refine ⟨?_, h2, ?_⟩
      · rcases h1 with h | h
        · left; exact h
        · right; exact List.mem_cons_of_mem _ h
      · intro w hw
        rcases List.mem_cons.mp hw with rfl | hw
        · rcases le_total v w with h | h
          · exact absurd h hva
          · exact le_trans h h2
        · exact h3 w hw

theorem maxVer_none (l : List VerInfo) : maxVer l = none ↔ l = [] := by
  cases l <;> simp [maxVer]

theorem maxVer_some (l : List VerInfo) (m : VerInfo) (h : maxVer l = some m) :
    m ∈ l ∧ ∀ w ∈ l, VerInfo.le w m := by
  cases l with
  | nil => simp [maxVer] at h
  | cons v l =>
    simp only [maxVer, Option.some.injEq] at h
    obtain ⟨h1, h2, h3⟩ := foldl_max_spec l v
    rw [h] at h1 h2 h3
    refine ⟨?_, ?_⟩
    · rcases h1 with h | h
      · rw [h]; exact List.mem_cons_self
      · exact List.mem_cons_of_mem _ h
    · intro w hw
      rcases List.mem_cons.mp hw with rfl | hw
      · exact h2
      · exact h3 w hw

end ServerMap
end Tahoe.Mutable
