/-
Model of `MutableFileNode._do_serialized` (mutable/filenode.py) on top of a small model of the
Twisted Deferred callback chain it uses, and of `NodeMaker.create_from_cap` memoisation
(nodemaker.py).  Mathlib-free, executable (driver Drv/C13.lean).

    d = defer.Deferred()
    self._serializer.addCallback(lambda ignore: cb(*args, **kwargs))      -- Item.start i
    self._serializer.addBoth(lambda res: eventually(d.callback, res))     -- Item.handoff i
    self._serializer.addErrback(log.err)                                  -- Item.logerr
    return d

`self._serializer` is one long-lived Deferred that has already fired.  Twisted runs newly added
callbacks at once when the Deferred has a result and is not paused; a callback returning an
unfired Deferred pauses the chain until that Deferred fires, and its result (value or Failure)
becomes the chain's current result.  `eventually(f, x)` returns None and queues `f(x)` on foolscap's
FIFO eventual-send queue, which runs in a later reactor turn.

An operation may consist of several *attempts*: `MutableFileVersion._modify_and_retry` (behind
`MutableFileNode.modify`, hence behind every directory edit) catches `UncoordinatedWriteError`, waits
for the backoffer and returns the Deferred of the next `_modify_and_retry(...)` call from its errback,
so the next attempt is chained into the Deferred the serialized callable returned: that Deferred --
the operation's extent as `_do_serialized` sees it -- stays unfired until the last attempt ends
(`Op.retry`, `Ev.retry`; the operation re-reads the contents at every attempt).

Re-entrancy: the comment in `_do_serialized` says the callable "is *not* allowed to invoke other
serialized methods within this (or any other) MutableFileNode".  `Op.innerReq i` is that case: the body
of operation i (in progress) requests another serialized operation on the same node and makes its own
result wait for it (`Core.inner`); `blocked` says whether the inner Deferred of an operation can fire.

Deviation: the three `add…` calls are modelled as one append followed by one run (equivalent: the
chain is only run when not paused, and running is idempotent on an empty chain).  Re-entrant calls
of `_do_serialized` from inside a serialized callable are excluded (the code comment forbids them).
-/
namespace Tahoe.Serializer

inductive Res | ok | fail
  deriving DecidableEq, Repr

inductive Item | start (i : Nat) | handoff (i : Nat) | logerr
  deriving DecidableEq, Repr

/-- observable log -/
inductive Ev
  | start (i : Nat)                -- the operation's callable is invoked
  | finish (i : Nat) (r : Res)     -- the operation's own result (success or failure) is available
  | deliver (i : Nat) (r : Res)    -- the caller's Deferred fires (from the eventual queue)
  | retry (i : Nat)                -- an attempt of operation i ended in UncoordinatedWriteError; its next attempt begins
  deriving DecidableEq, Repr

/-- everything but the pending callback chain; `content`/`snap` model what serialized
read-modify-write operations (MutableFileNode.modify, hence every directory edit) see and write:
an operation reads `content` when it starts and, if it succeeds, writes `modifier i` of what it read. -/
structure Core where
  cur : Res := .ok                       -- current result of the `_serializer` Deferred
  waiting : Option Nat := none           -- paused on the inner Deferred of this operation
  nextId : Nat := 0
  syncRes : List (Nat × Res) := []       -- operations whose callable completes synchronously
  evq : List (Nat × Res) := []           -- foolscap eventual-send queue (FIFO)
  log : List Ev := []
  content : List Nat := []               -- ids of modifiers applied so far, newest last (free monoid of edits)
  snap : List Nat := []                  -- what the running operation read when it started
  inner : List (Nat × Nat) := []         -- (i, j): the body of operation i waits for operation j, requested from inside i
  deriving Repr

structure St where
  core : Core := {}
  chain : List Item := []
  deriving Repr

/-- write performed by operation `i` finishing with `r` -/
def commit (c : Core) (i : Nat) (r : Res) : Core :=
  match r with
  | .ok => { c with content := c.snap ++ [i] }
  | .fail => c

/-- `Deferred._runCallbacks`: process chain items until the chain is empty or pauses. -/
def run : List Item → Core → Core × List Item
  | [], c => (c, [])
  | .start i :: rest, c =>
    match c.cur with
    | .fail => run rest c                                   -- addCallback: errback is a pass-through
    | .ok =>
      let c1 := { c with log := c.log ++ [.start i], snap := c.content }
      match c.syncRes.lookup i with
      | some r =>                                           -- callable returned a value / raised / fired Deferred
        run rest { commit c1 i r with cur := r, log := c1.log ++ [.finish i r] }
      | none => ({ c1 with waiting := some i }, rest)       -- callable returned an unfired Deferred: pause
  | .handoff i :: rest, c =>
    run rest { c with evq := c.evq ++ [(i, c.cur)], cur := .ok }   -- eventually(...) returns None
  | .logerr :: rest, c =>
    run rest { c with cur := .ok }                          -- log.err returns None (only runs on failure)

def kick (s : St) : St :=
  match s.core.waiting with
  | some _ => s
  | none => let (c, ch) := run s.chain s.core; { core := c, chain := ch }

inductive Op
  | req (sync : Option Res)      -- client calls `_do_serialized`; `some r`: the callable completes synchronously with r
  | fin (i : Nat) (r : Res)      -- the inner Deferred of operation i fires
  | turn                         -- one turn of the eventual-send queue
  | retry (i : Nat)              -- the current attempt of operation i collides (UncoordinatedWriteError) and, after the
                                 -- backoff, `_retry` chains the next attempt into the operation's own Deferred
  | innerReq (i : Nat)           -- the body of operation i calls `_do_serialized` on its own node and waits for the result
  deriving Repr

/-- has operation `j` produced its result? -/
def finishedIn (log : List Ev) (j : Nat) : Bool :=
  log.any (fun e => match e with | .finish j' _ => j' == j | _ => false)

/-- the inner Deferred of operation `i` cannot fire yet: its body waits for an operation that has not finished -/
def blocked (c : Core) (i : Nat) : Bool := c.inner.any (fun p => p.1 == i && !finishedIn c.log p.2)

/-- the inner Deferred of operation i fires -/
def finStep (s : St) (i : Nat) (r : Res) : St :=
  if s.core.waiting = some i then
    let c := commit s.core i r
    kick { s with core := { c with waiting := none, cur := r, log := c.log ++ [.finish i r] } }
  else s

def step (s : St) : Op → St
  | .req sync =>
    let i := s.core.nextId
    let c := { s.core with nextId := i + 1,
                           syncRes := match sync with | some r => (i, r) :: s.core.syncRes | none => s.core.syncRes }
    kick { core := c, chain := s.chain ++ [.start i, .handoff i, .logerr] }
  | .fin i r => if blocked s.core i then s else finStep s i r
  | .turn =>
    { s with core := { s.core with evq := [], log := s.core.log ++ s.core.evq.map (fun p => .deliver p.1 p.2) } }
  | .retry i =>
    if s.core.waiting = some i then
      -- the inner Deferred does not fire: the chain stays paused on operation i; the new attempt reads again
      { s with core := { s.core with log := s.core.log ++ [.retry i], snap := s.core.content } }
    else s
  | .innerReq i =>
    if s.core.waiting = some i then
      -- `_do_serialized` from inside the callable: the triple is appended behind the paused chain (nothing runs)
      let j := s.core.nextId
      { core := { s.core with nextId := j + 1, inner := (i, j) :: s.core.inner },
        chain := s.chain ++ [.start j, .handoff j, .logerr] }
    else s

def runOps (ops : List Op) : St := ops.foldl step {}

/-- scan a log: starts and finishes must alternate, in request order 0,1,2,…, and every further
attempt of an operation lies between its start and its finish;
returns (number of finished operations, the operation in progress). -/
def scan : List Ev → Nat × Option Nat → Option (Nat × Option Nat)
  | [], st => some st
  | .start i :: rest, (n, none) => if i = n then scan rest (n, some i) else none
  | .start _ :: _, (_, some _) => none
  | .finish i _ :: rest, (n, some j) => if i = j ∧ i = n then scan rest (n + 1, none) else none
  | .finish _ _ :: _, (_, none) => none
  | .deliver _ _ :: rest, st => scan rest st
  | .retry i :: rest, (n, some j) => if i = j then scan rest (n, some j) else none
  | .retry _ :: _, (_, none) => none

/-- ids of the operations that finished successfully, in log order -/
def succeeded : List Ev → List Nat
  | [] => []
  | .finish i .ok :: rest => i :: succeeded rest
  | _ :: rest => succeeded rest

/-! ### NodeMaker.create_from_cap memoisation -/

/-- kind of node a cap string denotes (after `uri.from_string` with the given `deep_immutable`) -/
inductive Kind | unknown | immutable | mutable
  deriving DecidableEq, Repr

structure Maker where
  cache : List (String × Nat) := []    -- memokey ↦ node object id (WeakValueDictionary, no collection modelled)
  fresh : Nat := 0                     -- next object id
  deriving Repr

def memokey (deepImm : Bool) (bigcap : String) : String := (if deepImm then "I" else "M") ++ bigcap

/-- `bigcap = writecap or readcap` (an empty string stands for None/empty): the memo key is built
from the write cap when there is one, else from the read cap; the other argument plays no role. -/
def bigcapOf (writecap readcap : String) : String := if writecap.isEmpty then readcap else writecap

/-- returns the node object id; `kind` is what the cap parses to -/
def createFromCap (m : Maker) (deepImm : Bool) (bigcap : String) (kind : Kind) : Maker × Nat :=
  match m.cache.lookup (memokey deepImm bigcap) with
  | some n => (m, n)
  | none =>
    let n := m.fresh
    match kind with
    | .mutable => ({ cache := (memokey deepImm bigcap, n) :: m.cache, fresh := n + 1 }, n)
    | _ => ({ m with fresh := n + 1 }, n)              -- immutable and unknown nodes are not cached

/-- `create_from_cap(writecap, readcap, deep_immutable)` -/
def createFromCaps (m : Maker) (deepImm : Bool) (writecap readcap : String) (kind : Kind) : Maker × Nat :=
  createFromCap m deepImm (bigcapOf writecap readcap) kind

end Tahoe.Serializer
