import Tahoe.Mutable.Content
/-!
C09 — a reused `MutableFileVersion` object as model state (Mathlib-free, executable; used by `Drv/C09.lean`).

`mv = node.get_best_mutable_version()` gives an object holding `self._version` (the verinfo it was created for)
and `self._servermap` (a MODE_WRITE servermap).  Through the object (`mutable/filenode.py`):
* `update` (`_update`, as repaired by 6586d18): first `best = self._servermap.best_recoverable_version();
  if best != self._version: self._version = best`, then the update of that version; a publish records the
  new version in the object's servermap (`Publish` → `servermap.add_new_share`), so `best` moves on;
* `modify` (`_modify_and_retry`): refreshes the servermap and sets `self._version = best` (`_use_best_version`),
  then `_modify_once`; a publish moves the servermap's best on;
* `overwrite`: publish with the object's servermap (new seqnum = `highest_seqnum() + 1`); the servermap then lists
  only the new version; `self._version` is *not* touched;
* `read`: `Retrieve(node, …, self._servermap, self._version)`; `download()` answers an empty range at once and
  checks the range against the *pinned* version's length (`_start_download` precondition) before
  `_setup_download` looks the pinned version up in the servermap: `versionmap[self.verinfo]` — KeyError when the
  servermap no longer lists it (a publish went through the object since it was pinned).
Versions are identified by their sequence number.  The model covers an object that is not overtaken (no change
through another object between its uses): then its servermap's best version is the file on the grid (invariant
`HInv`, theorem `held_object_refines` in Props/C09.lean).  What the code refuses for an overtaken object depends on
cached proxies and is not modelled (monitor only).
-/
namespace Tahoe.Mutable.Content

/-- the reused version object: `self._version` (seqnum, verinfo data) and the best version of `self._servermap`. -/
structure Handle where
  pinned : Nat
  pinnedVer : Version
  smapSeq : Nat
  smapVer : Version

/-- grid + object -/
structure HState where
  seq : Nat          -- seqnum of the version on the grid
  file : Version     -- that version
  h : Handle

inductive HOp
  | pin                                     -- `mv = node.get_best_mutable_version()` (fresh servermap)
  | update (off : Nat) (data : Bytes)
  | overwrite (data : Bytes)
  | modify (m : Bytes → Option Bytes)
  | read (off : Nat) (size? : Option Nat)

inductive HOut
  | none
  | ok                      -- mutator succeeded
  | refused (e : Err)       -- mutator or read raised (nothing published)
  | keyError                -- read: `versionmap[self.verinfo]`
  | bytes (b : Bytes)

/-- a publish through the object: new seqnum on the grid, recorded in the object's servermap. -/
def HState.publish (s : HState) (h : Handle) (v' : Version) : HState :=
  { seq := s.seq + 1, file := v', h := { h with smapSeq := s.seq + 1, smapVer := v' } }

/-- does an accepted `update` publish?  MDMF always; SDMF goes through `_modify_once`, where an unchanged
    result is not published. -/
def updatePublishes (old : Version) (off : Nat) (data : Bytes) : Bool :=
  match old.fmt with
  | .mdmf => true
  | .sdmf => decide (sdmfSplice old.content off data ≠ old.content)

def hstep (cfg : Cfg) (s : HState) : HOp → HState × HOut
  | .pin => ({ s with h := { pinned := s.seq, pinnedVer := s.file, smapSeq := s.seq, smapVer := s.file } }, .none)
  | .update off data =>
    let h := { s.h with pinned := s.h.smapSeq, pinnedVer := s.h.smapVer }   -- re-pin to the servermap's best version
    let old := h.smapVer
    match update cfg old off data with
    | .error e => ({ s with h := h }, .refused e)
    | .ok v' =>
      if updatePublishes old off data then (s.publish h v', .ok) else ({ s with h := h }, .ok)
  | .overwrite data =>
    match publishAll cfg s.h.smapVer.fmt data with
    | some v' => (s.publish s.h v', .ok)
    | none => (s, .refused .assertion)
  | .modify m =>
    -- `_modify_and_retry`: refresh the servermap, then `self._version = best` (`_use_best_version`)
    let h := { s.h with pinned := s.h.smapSeq, pinnedVer := s.h.smapVer }
    let old := h.smapVer
    match m old.content with
    | none => ({ s with h := h }, .ok)
    | some new =>
      if new = old.content then ({ s with h := h }, .ok) else
      match publishAll cfg old.fmt new with
      | some v' => (s.publish h v', .ok)
      | none => ({ s with h := h }, .refused .assertion)
  | .read off size? =>
    match read cfg.k s.h.pinnedVer off size? with
    | .error e => (s, .refused e)                       -- range precondition, against the pinned version's length
    | .ok b =>
      if s.h.pinned = s.h.smapSeq then (s, .bytes b)
      else if b = [] then (s, .bytes [])                -- empty range: answered before the version is looked up
      else (s, .keyError)

def hrun (cfg : Cfg) : HState → List HOp → List (HState × HOut)
  | _, [] => []
  | s, op :: ops => let r := hstep cfg s op; r :: hrun cfg r.1 ops

/-- the same operation through a fresh object / the node (`Op` of Content.lean); reads and `pin` change nothing -/
def HOp.plain : HOp → Option Op
  | .update off data => some (.update off data)
  | .overwrite data => some (.overwrite data)
  | .modify m => some (.modify m)
  | _ => none

/-- the object is not overtaken: its servermap's best version is the version on the grid (and if it is still
    pinned to that version, the pinned verinfo is that version's). -/
def HInv (s : HState) : Prop :=
  s.h.smapSeq = s.seq ∧ s.h.smapVer = s.file ∧ s.h.pinned ≤ s.seq ∧ (s.h.pinned = s.seq → s.h.pinnedVer = s.file)

end Tahoe.Mutable.Content
