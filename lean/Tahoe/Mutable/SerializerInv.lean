import Tahoe.Mutable.SerializerLemmas
/-! The reachable-state invariant of the serializer and its preservation by every event. -/
namespace Tahoe.Serializer

def Inv (s : St) : Prop :=
  ∃ n, s.core.nextId = n ∧ (Idle s.core s.chain n ∨ ∃ j k, j + 1 + k = n ∧ Busy s.core s.chain j k)

theorem scan_delivers (l : List Ev) (q : List (Nat × Res)) (st : Nat × Option Nat) :
    scan (l ++ q.map (fun p => Ev.deliver p.1 p.2)) st = scan l st := by
  rw [scan_append]
  have : ∀ st', scan (q.map (fun p => Ev.deliver p.1 p.2)) st' = some st' := by
    induction q with
    | nil => intro st'; simp [scan]
    | cons p rest ih => intro st'; simp [scan, ih]
  cases h : scan l st <;> simp [this]

theorem succeeded_delivers (l : List Ev) (q : List (Nat × Res)) :
    succeeded (l ++ q.map (fun p => Ev.deliver p.1 p.2)) = succeeded l := by
  rw [succeeded_append]
  have : succeeded (q.map (fun p => Ev.deliver p.1 p.2)) = [] := by
    induction q with
    | nil => simp [succeeded]
    | cons p rest ih => simp [succeeded, ih]
  simp [this]

theorem kick_idle (s : St) (h : s.core.waiting = none) :
    kick s = ⟨(run s.chain s.core).1, (run s.chain s.core).2⟩ := by
  unfold kick; rw [h]

theorem kick_busy (s : St) (j : Nat) (h : s.core.waiting = some j) : kick s = s := by
  unfold kick; rw [h]

theorem inv_init : Inv {} := ⟨0, rfl, Or.inl ⟨rfl, rfl, rfl, by simp [scan], by simp [succeeded]⟩⟩

theorem inv_step (s : St) (op : Op) (h : Inv s) : Inv (step s op) := by
  obtain ⟨n, hn, h⟩ := h
  cases op with
  | req sync =>
    rcases h with hi | ⟨j, k, hjk, hb⟩
    · -- idle: the new triple runs at once
      obtain ⟨hw, hch, hcur, hscan, hcont⟩ := hi
      have := run_triples 1 s.core.nextId
        { s.core with nextId := s.core.nextId + 1,
                      syncRes := match sync with | some r => (s.core.nextId, r) :: s.core.syncRes | none => s.core.syncRes }
        hcur hw (hn ▸ hscan) hcont
      obtain ⟨h1, h2⟩ := this
      simp only [step]
      rw [kick_idle _ (by exact hw)]
      simp only [hch, List.nil_append]
      simp only [triplesFrom] at h1 h2
      refine ⟨s.core.nextId + 1, h1, ?_⟩
      rcases h2 with h | ⟨j, k', hj, _, hb⟩
      · exact Or.inl h
      · exact Or.inr ⟨j, k', hj, hb⟩
    · obtain ⟨hw, hch, hscan, hsnap, hcont⟩ := hb
      simp only [step]
      rw [kick_busy _ j (by exact hw)]
      refine ⟨n + 1, by simp [hn], Or.inr ⟨j, k + 1, by omega, ⟨hw, ?_, hscan, hsnap, hcont⟩⟩⟩
      simp only [hch, List.cons_append]
      rw [show s.core.nextId = j + 1 + k by omega, triplesFrom_snoc]
  | fin i r =>
    rcases h with hi | ⟨j, k, hjk, hb⟩
    · have : s.core.waiting ≠ some i := by rw [hi.waiting]; simp
      simp only [step, this, if_false]; exact ⟨n, hn, Or.inl hi⟩
    · obtain ⟨hw, hch, hscan, hsnap, hcont⟩ := hb
      by_cases hij : i = j
      · subst hij
        have hnext : (commit s.core i r).nextId = s.core.nextId := by cases r <;> rfl
        have := run_triples k (i + 1)
          { commit s.core i r with waiting := none, log := (commit s.core i r).log ++ [Ev.finish i r],
                                   evq := (commit s.core i r).evq ++ [(i, r)], cur := .ok }
          rfl rfl
          (by
            have : (commit s.core i r).log = s.core.log := by cases r <;> rfl
            simp only [this]; rw [scan_append, hscan]; simp [scan])
          (by
            cases r with
            | ok => simp [commit, succeeded_append, succeeded, hsnap, hcont]
            | fail => simp [commit, succeeded_append, succeeded, hcont])
        obtain ⟨h1, h2⟩ := this
        simp only [step]
        rw [if_pos hw, kick_idle _ rfl]
        simp only [hch, run]
        refine ⟨n, by rw [← hn, ← hnext]; exact h1, ?_⟩
        rcases h2 with h | ⟨j', k', hj, _, hb⟩
        · left; rw [show n = i + 1 + k by omega]; exact h
        · exact Or.inr ⟨j', k', by omega, hb⟩
      · have : s.core.waiting ≠ some i := by rw [hw]; simp; omega
        simp only [step, this, if_false]
        exact ⟨n, hn, Or.inr ⟨j, k, hjk, ⟨hw, hch, hscan, hsnap, hcont⟩⟩⟩
  | turn =>
    rcases h with hi | ⟨j, k, hjk, hb⟩
    · obtain ⟨hw, hch, hcur, hscan, hcont⟩ := hi
      exact ⟨n, hn, Or.inl ⟨hw, hch, hcur, by simp only [step]; rw [scan_delivers]; exact hscan,
                    by simp only [step]; rw [succeeded_delivers]; exact hcont⟩⟩
    · obtain ⟨hw, hch, hscan, hsnap, hcont⟩ := hb
      exact ⟨n, hn, Or.inr ⟨j, k, hjk, ⟨hw, hch, by simp only [step]; rw [scan_delivers]; exact hscan, hsnap,
                    by simp only [step]; rw [succeeded_delivers]; exact hcont⟩⟩⟩
  | retry i =>
    rcases h with hi | ⟨j, k, hjk, hb⟩
    · have : s.core.waiting ≠ some i := by rw [hi.waiting]; simp
      simp only [step, this, if_false]; exact ⟨n, hn, Or.inl hi⟩
    · obtain ⟨hw, hch, hscan, hsnap, hcont⟩ := hb
      by_cases hij : i = j
      · subst hij
        simp only [step, if_pos hw]
        refine ⟨n, hn, Or.inr ⟨i, k, hjk, ⟨hw, hch, ?_, rfl, ?_⟩⟩⟩
        · show scan (s.core.log ++ [Ev.retry i]) (0, none) = some (i, some i)
          rw [scan_append, hscan]; simp [scan]
        · show s.core.content = succeeded (s.core.log ++ [Ev.retry i])
          rw [succeeded_append]; simp [succeeded, hcont]
      · have : s.core.waiting ≠ some i := by rw [hw]; simp; omega
        simp only [step, this, if_false]
        exact ⟨n, hn, Or.inr ⟨j, k, hjk, ⟨hw, hch, hscan, hsnap, hcont⟩⟩⟩

theorem inv_foldl (ops : List Op) (s : St) (h : Inv s) : Inv (ops.foldl step s) := by
  induction ops generalizing s with
  | nil => exact h
  | cons op rest ih => exact ih _ (inv_step s op h)

theorem inv_runOps (ops : List Op) : Inv (runOps ops) := inv_foldl ops {} inv_init

end Tahoe.Serializer
