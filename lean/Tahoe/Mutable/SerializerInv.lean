import Tahoe.Mutable.SerializerLemmas
/-! The reachable-state invariant of the serializer and its preservation by every event. -/
namespace Tahoe.Serializer

def Inv (s : St) : Prop :=
  ∃ n, s.core.nextId = n ∧ (Idle s.core s.chain n ∨ ∃ j k, j + 1 + k = n ∧ Busy s.core s.chain j k)

theorem scan_delivers (l : List Ev) (q : List (Nat × Res)) (st : Nat × Option Nat) :
    scan (l ++ q.map (fun p => Ev.deliver p.1 p.2)) st = scan l st := by
  rw [scan_append]
  have : ∀ st', scan (q.map (fun p => Ev.deliver p.1 p.2)) st' = some st' := by
    induction q with
    | nil => intro st'; simp [scan]
    | cons p rest ih => intro st'; simp [scan, ih]
  cases h : scan l st <;> simp [this]

theorem succeeded_delivers (l : List Ev) (q : List (Nat × Res)) :
    succeeded (l ++ q.map (fun p => Ev.deliver p.1 p.2)) = succeeded l := by
  rw [succeeded_append]
  have : succeeded (q.map (fun p => Ev.deliver p.1 p.2)) = [] := by
    induction q with
    | nil => simp [succeeded]
    | cons p rest ih => simp [succeeded, ih]
  simp [this]

theorem kick_idle (s : St) (h : s.core.waiting = none) :
    kick s = ⟨(run s.chain s.core).1, (run s.chain s.core).2⟩ := by
  unfold kick; rw [h]

theorem kick_busy (s : St) (j : Nat) (h : s.core.waiting = some j) : kick s = s := by
  unfold kick; rw [h]

theorem inv_init : Inv {} := ⟨0, rfl, Or.inl ⟨rfl, rfl, rfl, by simp [scan], by simp [succeeded]⟩⟩

theorem inv_finStep (s : St) (i : Nat) (r : Res) (h : Inv s) : Inv (finStep s i r) := by
  obtain ⟨n, hn, h⟩ := h
  rcases h with hi | ⟨j, k, hjk, hb⟩
  · have : s.core.waiting ≠ some i := by rw [hi.waiting]; simp
    simp only [finStep, this, if_false]; exact ⟨n, hn, Or.inl hi⟩
  · obtain ⟨hw, hch, hscan, hsnap, hcont⟩ := hb
    by_cases hij : i = j
    · subst hij
      have hnext : (commit s.core i r).nextId = s.core.nextId := by cases r <;> rfl
      have := run_triples k (i + 1)
        { commit s.core i r with waiting := none, log := (commit s.core i r).log ++ [Ev.finish i r],
                                 evq := (commit s.core i r).evq ++ [(i, r)], cur := .ok }
        rfl rfl
        (by
          have : (commit s.core i r).log = s.core.log := by cases r <;> rfl
          simp only [this]; rw [scan_append, hscan]; simp [scan])
        (by
          cases r with
          | ok => simp [commit, succeeded_append, succeeded, hsnap, hcont]
          | fail => simp [commit, succeeded_append, succeeded, hcont])
      obtain ⟨h1, h2⟩ := this
      simp only [finStep]
      rw [if_pos hw, kick_idle _ rfl]
      simp only [hch, run]
      refine ⟨n, by rw [← hn, ← hnext]; exact h1, ?_⟩
      rcases h2 with h | ⟨j', k', hj, _, hb⟩
      · left; rw [show n = i + 1 + k by omega]; exact h
      · exact Or.inr ⟨j', k', by omega, hb⟩
    · have : s.core.waiting ≠ some i := by rw [hw]; simp; omega
      simp only [finStep, this, if_false]
      exact ⟨n, hn, Or.inr ⟨j, k, hjk, ⟨hw, hch, hscan, hsnap, hcont⟩⟩⟩

theorem inv_step (s : St) (op : Op) (h : Inv s) : Inv (step s op) := by
  obtain ⟨n, hn, h⟩ := h
  cases op with
  | req sync =>
    rcases h with hi | ⟨j, k, hjk, hb⟩
    · -- idle: the new triple runs at once
      obtain ⟨hw, hch, hcur, hscan, hcont⟩ := hi
      have := run_triples 1 s.core.nextId
        { s.core with nextId := s.core.nextId + 1,
                      syncRes := match sync with | some r => (s.core.nextId, r) :: s.core.syncRes | none => s.core.syncRes }
        hcur hw (hn ▸ hscan) hcont
      obtain ⟨h1, h2⟩ := this
      simp only [step]
      rw [kick_idle _ (by exact hw)]
      simp only [hch, List.nil_append]
      simp only [triplesFrom] at h1 h2
      refine ⟨s.core.nextId + 1, h1, ?_⟩
      rcases h2 with h | ⟨j, k', hj, _, hb⟩
      · exact Or.inl h
      · exact Or.inr ⟨j, k', hj, hb⟩
    · obtain ⟨hw, hch, hscan, hsnap, hcont⟩ := hb
      simp only [step]
      rw [kick_busy _ j (by exact hw)]
      refine ⟨n + 1, by simp [hn], Or.inr ⟨j, k + 1, by omega, ⟨hw, ?_, hscan, hsnap, hcont⟩⟩⟩
      simp only [hch, List.cons_append]
      rw [show s.core.nextId = j + 1 + k by omega, triplesFrom_snoc]
  | fin i r =>
    simp only [step]
    split
    · exact ⟨n, hn, h⟩
    · exact inv_finStep s i r ⟨n, hn, h⟩
  | turn =>
    rcases h with hi | ⟨j, k, hjk, hb⟩
    · obtain ⟨hw, hch, hcur, hscan, hcont⟩ := hi
      exact ⟨n, hn, Or.inl ⟨hw, hch, hcur, by simp only [step]; rw [scan_delivers]; exact hscan,
                    by simp only [step]; rw [succeeded_delivers]; exact hcont⟩⟩
    · obtain ⟨hw, hch, hscan, hsnap, hcont⟩ := hb
      exact ⟨n, hn, Or.inr ⟨j, k, hjk, ⟨hw, hch, by simp only [step]; rw [scan_delivers]; exact hscan, hsnap,
                    by simp only [step]; rw [succeeded_delivers]; exact hcont⟩⟩⟩
  | retry i =>
    rcases h with hi | ⟨j, k, hjk, hb⟩
    · have : s.core.waiting ≠ some i := by rw [hi.waiting]; simp
      simp only [step, this, if_false]; exact ⟨n, hn, Or.inl hi⟩
    · obtain ⟨hw, hch, hscan, hsnap, hcont⟩ := hb
      by_cases hij : i = j
      · subst hij
        simp only [step, if_pos hw]
        refine ⟨n, hn, Or.inr ⟨i, k, hjk, ⟨hw, hch, ?_, rfl, ?_⟩⟩⟩
        · show scan (s.core.log ++ [Ev.retry i]) (0, none) = some (i, some i)
          rw [scan_append, hscan]; simp [scan]
        · show s.core.content = succeeded (s.core.log ++ [Ev.retry i])
          rw [succeeded_append]; simp [succeeded, hcont]
      · have : s.core.waiting ≠ some i := by rw [hw]; simp; omega
        simp only [step, this, if_false]
        exact ⟨n, hn, Or.inr ⟨j, k, hjk, ⟨hw, hch, hscan, hsnap, hcont⟩⟩⟩
  | innerReq i =>
    rcases h with hi | ⟨j, k, hjk, hb⟩
    · have : s.core.waiting ≠ some i := by rw [hi.waiting]; simp
      simp only [step, this, if_false]; exact ⟨n, hn, Or.inl hi⟩
    · obtain ⟨hw, hch, hscan, hsnap, hcont⟩ := hb
      by_cases hij : i = j
      · subst hij
        simp only [step, if_pos hw]
        refine ⟨n + 1, by simp [hn], Or.inr ⟨i, k + 1, by omega, ⟨hw, ?_, hscan, hsnap, hcont⟩⟩⟩
        simp only [hch, List.cons_append]
        rw [show s.core.nextId = i + 1 + k by omega, triplesFrom_snoc]
      · have : s.core.waiting ≠ some i := by rw [hw]; simp; omega
        simp only [step, this, if_false]
        exact ⟨n, hn, Or.inr ⟨j, k, hjk, ⟨hw, hch, hscan, hsnap, hcont⟩⟩⟩

theorem inv_foldl (ops : List Op) (s : St) (h : Inv s) : Inv (ops.foldl step s) := by
  induction ops generalizing s with
  | nil => exact h
  | cons op rest ih => exact ih _ (inv_step s op h)

theorem inv_runOps (ops : List Op) : Inv (runOps ops) := inv_foldl ops {} inv_init

/-! ### the self-wait deadlock -/

/-- operation `i` is in progress and waits for operation `j`, requested from inside it, which has not finished -/
def SelfWait (s : St) (i j : Nat) : Prop :=
  s.core.waiting = some i ∧ (i, j) ∈ s.core.inner ∧ finishedIn s.core.log j = false

theorem blocked_of_selfWait (s : St) (i j : Nat) (h : SelfWait s i j) : blocked s.core i = true := by
  obtain ⟨_, hm, hf⟩ := h
  unfold blocked
  rw [List.any_eq_true]
  exact ⟨(i, j), hm, by simp [hf]⟩

theorem finishedIn_append (l1 l2 : List Ev) (j : Nat) :
    finishedIn (l1 ++ l2) j = (finishedIn l1 j || finishedIn l2 j) := by simp [finishedIn]

theorem selfWait_step (s : St) (i j : Nat) (op : Op) (h : SelfWait s i j) : SelfWait (step s op) i j := by
  have hb := blocked_of_selfWait s i j h
  obtain ⟨hw, hm, hf⟩ := h
  cases op with
  | req sync =>
    simp only [step]
    rw [kick_busy _ i (by exact hw)]
    exact ⟨hw, hm, hf⟩
  | fin i' r =>
    simp only [step]
    by_cases hi : i' = i
    · subst hi; simp only [hb, if_true]; exact ⟨hw, hm, hf⟩
    · have : s.core.waiting ≠ some i' := by rw [hw]; simp; omega
      split
      · exact ⟨hw, hm, hf⟩
      · simp only [finStep, this, if_false]; exact ⟨hw, hm, hf⟩
  | turn =>
    refine ⟨hw, hm, ?_⟩
    simp only [step]
    rw [finishedIn_append, hf]
    simp [finishedIn]
  | retry i' =>
    simp only [step]
    split
    · refine ⟨hw, hm, ?_⟩
      show finishedIn (s.core.log ++ [Ev.retry i']) j = false
      rw [finishedIn_append, hf]; simp [finishedIn]
    · exact ⟨hw, hm, hf⟩
  | innerReq i' =>
    simp only [step]
    split
    · exact ⟨hw, List.mem_cons_of_mem _ hm, hf⟩
    · exact ⟨hw, hm, hf⟩

theorem selfWait_foldl (ops : List Op) (s : St) (i j : Nat) (h : SelfWait s i j) : SelfWait (ops.foldl step s) i j := by
  induction ops generalizing s with
  | nil => exact h
  | cons op rest ih => exact ih _ (selfWait_step s i j op h)

/-- without `innerReq` events nothing ever waits from inside -/
def NoInner (ops : List Op) : Prop := ∀ op, op ∈ ops → ∀ i, op ≠ Op.innerReq i

theorem run_inner (ch : List Item) (c : Core) : (run ch c).1.inner = c.inner := by
  induction ch generalizing c with
  | nil => simp [run]
  | cons it rest ih =>
    cases it with
    | start i =>
      simp only [run]
      split
      · exact ih _
      · split
        · rename_i r _
          rw [ih]; cases r <;> rfl
        · rfl
    | handoff i => simp only [run]; rw [ih]
    | logerr => simp only [run]; rw [ih]

theorem kick_inner (s : St) : (kick s).core.inner = s.core.inner := by
  unfold kick
  split
  · rfl
  · exact run_inner _ _

theorem step_inner_noInner (s : St) (op : Op) (hop : ∀ i, op ≠ Op.innerReq i) (h : s.core.inner = []) :
    (step s op).core.inner = [] := by
  cases op with
  | req sync => simp only [step]; rw [kick_inner]; exact h
  | fin i r =>
    simp only [step]
    split
    · exact h
    · simp only [finStep]
      split
      · rw [kick_inner]; cases r <;> exact h
      · exact h
  | turn => exact h
  | retry i => simp only [step]; split <;> exact h
  | innerReq i => exact absurd rfl (hop i)

theorem inner_nil_of_noInner (ops : List Op) (h : NoInner ops) : (runOps ops).core.inner = [] := by
  have : ∀ (l : List Op) (s : St), (∀ op, op ∈ l → ∀ i, op ≠ Op.innerReq i) → s.core.inner = [] →
      (l.foldl step s).core.inner = [] := by
    intro l
    induction l with
    | nil => intro s _ hs; exact hs
    | cons op rest ih =>
      intro s hl hs
      exact ih _ (fun o ho => hl o (List.mem_cons_of_mem _ ho))
        (step_inner_noInner s op (hl op List.mem_cons_self) hs)
  exact this ops {} h rfl

end Tahoe.Serializer
