import Tahoe.Mutable.CheckRepair
import Tahoe.Mutable.ServerMapLemmas
/-! Helper lemmas for `Tahoe/Props/C14.lean`. -/
namespace Tahoe.Mutable.Check
open Tahoe.Mutable Tahoe.Mutable.ServerMap

theorem nodup_versions (sm : ServerMap) : sm.versions.Nodup := nodup_dedup _

theorem nodup_recoverable (sm : ServerMap) : sm.recoverable.Nodup :=
  List.Nodup.sublist List.filter_sublist (nodup_versions sm)

/-- a duplicate-free list all of whose elements equal `v` and that contains `v` is `[v]` -/
theorem eq_singleton_of_nodup {α : Type} (l : List α) (v : α) (hn : l.Nodup) (hv : v ∈ l)
    (hall : ∀ x ∈ l, x = v) : l = [v] := by
  cases l with
  | nil => simp at hv
  | cons a t =>
    have ha : a = v := hall a List.mem_cons_self
    subst ha
    cases t with
    | nil => rfl
    | cons b t' =>
      have hb : b = a := hall b (List.mem_cons_of_mem _ List.mem_cons_self)
      subst hb
      simp at hn

theorem foldl_max_int_lt (l : List Int) (i x : Int) : l.foldl max i < x ↔ i < x ∧ ∀ y ∈ l, y < x := by
  induction l generalizing i with
  | nil => simp
  | cons a l ih =>
    simp only [List.foldl_cons, ih, List.mem_cons, forall_eq_or_imp]
    constructor
    · rintro ⟨h1, h2⟩; exact ⟨by omega, by omega, h2⟩
    · rintro ⟨h1, h2, h3⟩; exact ⟨by omega, h3⟩

/-- `unrecoverable_newer_versions()` is non-empty exactly when some unrecoverable version has a sequence
    number above every recoverable one -/
theorem unrecoverableNewer_ne_nil (sm : ServerMap) :
    sm.unrecoverableNewer ≠ [] ↔ ∃ v ∈ sm.unrecoverable, ∀ w ∈ sm.recoverable, w.seqnum < v.seqnum := by
  unfold unrecoverableNewer
  simp only [ne_eq, List.map_eq_nil_iff, List.filter_eq_nil_iff, decide_eq_true_eq]
  constructor
  · intro h
    apply Classical.byContradiction
    intro hc
    apply h
    intro v hv hlt
    apply hc
    rw [foldl_max_int_lt] at hlt
    refine ⟨v, hv, fun w hw => ?_⟩
    have := hlt.2 (w.seqnum : Int) (List.mem_map.mpr ⟨w, hw, rfl⟩)
    omega
  · rintro ⟨v, hv, hlt⟩ h
    apply h v hv
    rw [foldl_max_int_lt]
    refine ⟨by omega, fun y hy => ?_⟩
    obtain ⟨w, hw, rfl⟩ := List.mem_map.mp hy
    have := hlt w hw
    omega

theorem two_le_count_map {α : Type} [DecidableEq α] (f : α → Nat) (l : List α) (v w : α) (hv : v ∈ l) (hw : w ∈ l)
    (hne : v ≠ w) (hf : f v = f w) : 2 ≤ (l.map f).count (f v) := by
  induction l with
  | nil => simp at hv
  | cons a t ih =>
    rcases List.mem_cons.mp hv with rfl | hv' <;> rcases List.mem_cons.mp hw with rfl | hw'
    · exact absurd rfl hne
    · have h1 : 1 ≤ (t.map f).count (f v) := by
        rw [hf]; exact List.count_pos_iff.mpr (List.mem_map.mpr ⟨w, hw', rfl⟩)
      rw [List.map_cons, List.count_cons_self]; omega
    · have h1 : 1 ≤ (t.map f).count (f v) := List.count_pos_iff.mpr (List.mem_map.mpr ⟨v, hv', rfl⟩)
      rw [List.map_cons, hf, List.count_cons_self, ← hf]; omega
    · have := ih hv' hw'
      rw [List.map_cons, List.count_cons]
      omega

theorem needsMerge_of_two (sm : ServerMap) (v w : VerInfo) (hv : v ∈ sm.recoverable) (hw : w ∈ sm.recoverable)
    (hne : v ≠ w) (hs : v.seqnum = w.seqnum) : sm.needsMerge = true := by
  unfold needsMerge
  simp only [List.any_eq_true, decide_eq_true_eq]
  refine ⟨v.seqnum, List.mem_map.mpr ⟨v, hv, rfl⟩, ?_⟩
  have := two_le_count_map (fun x : VerInfo => x.seqnum) sm.recoverable v w hv hw hne hs
  omega

theorem bestRecoverable_isSome (sm : ServerMap) : sm.bestRecoverable = none ↔ sm.recoverable = [] := by
  unfold bestRecoverable; exact maxVer_none _

/-- the shares left in the map after the verifier's marks: exactly those whose slot was not marked -/
theorem known_afterVerify (sm : ServerMap) (bads : List (ShareKey × List Nat)) :
    (afterVerify sm bads).known = sm.known.filter (fun e => decide (e.1 ∉ bads.map (·.1))) := by
  unfold afterVerify
  induction bads generalizing sm with
  | nil =>
    simp only [List.foldl_nil, List.map_nil, List.not_mem_nil, not_false_eq_true, decide_true]
    exact (List.filter_eq_self.mpr (fun _ _ => rfl)).symm
  | cons b bads ih =>
    simp only [List.foldl_cons]
    rw [ih]
    simp only [ServerMap.markBadShare, dictPop, List.filter_filter]
    apply List.filter_congr
    intro e _
    obtain ⟨⟨b1, b2⟩, cs⟩ := b
    simp only [List.map_cons, List.mem_cons, not_or, ne_eq, decide_not, Bool.decide_and, Bool.and_comm]

theorem located_afterVerify (sm : ServerMap) (bads : List (ShareKey × List Nat)) (v : VerInfo) :
    (afterVerify sm bads).Located v ↔ ∃ key, key ∉ bads.map (·.1) ∧ (key, v) ∈ sm.known := by
  unfold ServerMap.Located
  rw [known_afterVerify]
  simp only [List.mem_filter, decide_eq_true_eq]
  constructor
  · rintro ⟨key, h1, h2⟩; exact ⟨key, h2, h1⟩
  · rintro ⟨key, h1, h2⟩; exact ⟨key, h2, h1⟩

end Tahoe.Mutable.Check
