import Tahoe.Mutable.Authentic
/-! Helper lemmas for C10: the invariant of a Retrieve's share hash tree. -/
namespace Tahoe.Authentic

variable {H Chain Blocks : Type}

/-- the invariant: the tree's root is the seeded (signed) root and every validated share hashes to it -/
def RInv (T : TreeOps H Chain) (bhtRoot : Blocks → H) (root : H) (r : Retr H Blocks) : Prop :=
  r.tree = some root ∧ ∀ i b, (i, b) ∈ r.shares → ∃ c, T.chainRoot c i (bhtRoot b) = some root

theorem rinv_setup (T : TreeOps H Chain) (bhtRoot : Blocks → H) (root : H) :
    RInv T bhtRoot root (Retr.setup root : Retr H Blocks) :=
  ⟨rfl, by intro i b h; simp [Retr.setup] at h⟩

theorem rinv_step [DecidableEq H] (T : TreeOps H Chain) (bhtRoot : Blocks → H) (root : H) (r : Retr H Blocks)
    (e : REv Chain Blocks) (h : RInv T bhtRoot root r) : RInv T bhtRoot root (rstep T bhtRoot r e) := by
  obtain ⟨ht, hs⟩ := h
  cases e with
  | fail i => exact ⟨by simp [rstep, markBad, ht], by simpa [rstep, markBad] using hs⟩
  | offer i c b =>
    simp only [rstep]
    split
    · exact ⟨by simp [markBad, ht], by simpa [markBad] using hs⟩
    rename_i computed hcr
    simp only [ht]
    split
    · rename_i heq
      refine ⟨rfl, ?_⟩
      intro i' b' hmem
      simp only [List.mem_append, List.mem_singleton, Prod.mk.injEq] at hmem
      rcases hmem with hmem | ⟨hi, hb⟩
      · exact hs i' b' hmem
      · subst hi; subst hb; exact ⟨c, by rw [hcr, heq]⟩
    · exact ⟨by simp [markBad, ht], by simpa [markBad] using hs⟩

theorem rinv_run [DecidableEq H] (T : TreeOps H Chain) (bhtRoot : Blocks → H) (root : H) (evs : List (REv Chain Blocks))
    (r : Retr H Blocks) (h : RInv T bhtRoot root r) : RInv T bhtRoot root (rrun T bhtRoot r evs) := by
  induction evs generalizing r with
  | nil => exact h
  | cons e rest ih => exact ih _ (rinv_step T bhtRoot root r e h)

/-! ### the signature cache -/

/-- every cached key and every entered verinfo belongs to a prefix that some signature verified for -/
def SigInv {H Sig K : Type} (verify : Prefix H → Sig → Bool) (key : Prefix H → Nat → K) (st : SigCache H K) : Prop :=
  (∀ kk, kk ∈ st.valid → ∃ p o s, kk = key p o ∧ verify p s = true) ∧
  (∀ p o, (p, o) ∈ st.entered → ∃ s, verify p s = true)

theorem sigInv_step {H Sig K : Type} [DecidableEq K] (verify : Prefix H → Sig → Bool) (key : Prefix H → Nat → K)
    (hkey : ∀ p o p' o', key p o = key p' o' → p = p') (st : SigCache H K) (x : SigIn H Sig)
    (h : SigInv verify key st) : SigInv verify key (gotSignature verify key st x) := by
  obtain ⟨hv, he⟩ := h
  unfold gotSignature
  split
  · rename_i hmem
    refine ⟨hv, ?_⟩
    intro p o hpo
    simp only [List.mem_cons, Prod.mk.injEq] at hpo
    rcases hpo with ⟨hp, _⟩ | hpo
    · obtain ⟨p', o', s, hk, hs⟩ := hv _ hmem
      have := hkey _ _ _ _ hk
      exact ⟨s, by rw [hp, this]; exact hs⟩
    · exact he p o hpo
  · split
    · rename_i hver
      refine ⟨?_, ?_⟩
      · intro kk hkk
        simp only [List.mem_cons] at hkk
        rcases hkk with hkk | hkk
        · exact ⟨x.pre, x.offs, x.sig, hkk, hver⟩
        · exact hv kk hkk
      · intro p o hpo
        simp only [List.mem_cons, Prod.mk.injEq] at hpo
        rcases hpo with ⟨hp, _⟩ | hpo
        · exact ⟨x.sig, by rw [hp]; exact hver⟩
        · exact he p o hpo
    · exact ⟨hv, he⟩

theorem sigInv_foldl {H Sig K : Type} [DecidableEq K] (verify : Prefix H → Sig → Bool) (key : Prefix H → Nat → K)
    (hkey : ∀ p o p' o', key p o = key p' o' → p = p') (xs : List (SigIn H Sig)) (st : SigCache H K)
    (h : SigInv verify key st) : SigInv verify key (xs.foldl (gotSignature verify key) st) := by
  induction xs generalizing st with
  | nil => exact h
  | cons x rest ih => exact ih _ (sigInv_step verify key hkey st x h)

end Tahoe.Authentic
