import Tahoe.Mutable.Authentic
/-! Helper lemmas for C10: the invariant of a Retrieve's share hash tree. -/
namespace Tahoe.Authentic

variable {H Chain Blocks : Type}

/-- the invariant: the tree's root is the seeded (signed) root and every validated share hashes to it -/
def RInv (T : TreeOps H Chain) (bhtRoot : Blocks → H) (root : H) (r : Retr H Blocks) : Prop :=
  r.tree = some root ∧ ∀ i b, (i, b) ∈ r.shares → ∃ c, T.chainRoot c i (bhtRoot b) = some root

theorem rinv_setup (T : TreeOps H Chain) (bhtRoot : Blocks → H) (root : H) :
    RInv T bhtRoot root (Retr.setup root : Retr H Blocks) :=
  ⟨rfl, by intro i b h; simp [Retr.setup] at h⟩

theorem rinv_step [DecidableEq H] (T : TreeOps H Chain) (bhtRoot : Blocks → H) (root : H) (r : Retr H Blocks)
    (e : REv Chain Blocks) (h : RInv T bhtRoot root r) : RInv T bhtRoot root (rstep T bhtRoot r e) := by
  obtain ⟨ht, hs⟩ := h
  cases e with
  | fail i => exact ⟨by simp [rstep, markBad, ht], by simpa [rstep, markBad] using hs⟩
  | offer i c b =>
    simp only [rstep]
    split
    · exact ⟨by simp [markBad, ht], by simpa [markBad] using hs⟩
    rename_i computed hcr
    simp only [ht]
    split
    · rename_i heq
      refine ⟨rfl, ?_⟩
      intro i' b' hmem
      simp only [List.mem_append, List.mem_singleton, Prod.mk.injEq] at hmem
      rcases hmem with hmem | ⟨hi, hb⟩
      · exact hs i' b' hmem
      · subst hi; subst hb; exact ⟨c, by rw [hcr, heq]⟩
    · exact ⟨by simp [markBad, ht], by simpa [markBad] using hs⟩

theorem rinv_run [DecidableEq H] (T : TreeOps H Chain) (bhtRoot : Blocks → H) (root : H) (evs : List (REv Chain Blocks))
    (r : Retr H Blocks) (h : RInv T bhtRoot root r) : RInv T bhtRoot root (rrun T bhtRoot r evs) := by
  induction evs generalizing r with
  | nil => exact h
  | cons e rest ih => exact ih _ (rinv_step T bhtRoot root r e h)

end Tahoe.Authentic
