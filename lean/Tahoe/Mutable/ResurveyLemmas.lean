import Tahoe.Mutable.Resurvey
import Tahoe.Mutable.ServerMapLemmas
/-! Helper lemmas for the multi-pass survey theorem of `Tahoe/Props/C11.lean`. -/
namespace Tahoe.Mutable

theorem mem_dictSet_self {κ β : Type} [DecidableEq κ] (l : List (κ × β)) (k : κ) (v : β) :
    (k, v) ∈ dictSet l k v := by
  induction l with
  | nil => simp [dictSet]
  | cons e l ih =>
    obtain ⟨k', v'⟩ := e
    simp only [dictSet]
    split
    · exact List.mem_cons_self
    · exact List.mem_cons_of_mem _ ih

theorem mem_dictSet_of_mem {κ β : Type} [DecidableEq κ] (l : List (κ × β)) (k k' : κ) (v v' : β)
    (h : (k, v) ∈ l) (hs : k' = k → v' = v) : (k, v) ∈ dictSet l k' v' := by
  induction l with
  | nil => simp at h
  | cons e l ih =>
    obtain ⟨k₀, v₀⟩ := e
    simp only [dictSet]
    split
    · rename_i hk
      rcases List.mem_cons.mp h with he | he
      · simp only [Prod.mk.injEq] at he
        obtain ⟨rfl, rfl⟩ := he
        have := hs hk.symm
        subst this; subst hk
        exact List.mem_cons_self
      · exact List.mem_cons_of_mem _ he
    · rcases List.mem_cons.mp h with he | he
      · rw [he]; exact List.mem_cons_self
      · exact List.mem_cons_of_mem _ (ih he)

/-- an entry survives an event unless the event reports a different version for the same slot -/
theorem applySurveyEv_keeps (sm : ServerMap) (e : SurveyEv) (key : ShareKey) (v : VerInfo)
    (h : (key, v) ∈ sm.known) (hs : ∀ v', e = .share key.1 key.2 v' → v' = v) :
    (key, v) ∈ (applySurveyEv sm e).known := by
  cases e with
  | share s sh v' =>
    simp only [applySurveyEv, ServerMap.addNewShare]
    apply mem_dictSet_of_mem _ _ _ _ _ h
    intro hk
    apply hs v'
    obtain ⟨k1, k2⟩ := key
    simp only [Prod.mk.injEq] at hk
    rw [hk.1, hk.2]
  | failed s => exact h
  | answered s => exact h

theorem foldl_keeps (evs : List SurveyEv) (sm : ServerMap) (key : ShareKey) (v : VerInfo)
    (h : (key, v) ∈ sm.known) (hs : ∀ v', SurveyEv.share key.1 key.2 v' ∈ evs → v' = v) :
    (key, v) ∈ (evs.foldl applySurveyEv sm).known := by
  induction evs generalizing sm with
  | nil => exact h
  | cons e evs ih =>
    simp only [List.foldl_cons]
    apply ih
    · apply applySurveyEv_keeps _ _ _ _ h
      intro v' he
      exact hs v' (by rw [he]; exact List.mem_cons_self)
    · intro v' hm
      exact hs v' (List.mem_cons_of_mem _ hm)

theorem foldl_records (evs : List SurveyEv) (sm : ServerMap) (s sh : Nat) (v : VerInfo)
    (hm : SurveyEv.share s sh v ∈ evs) (hs : ∀ v', SurveyEv.share s sh v' ∈ evs → v' = v) :
    ((s, sh), v) ∈ (evs.foldl applySurveyEv sm).known := by
  induction evs generalizing sm with
  | nil => simp at hm
  | cons e evs ih =>
    simp only [List.foldl_cons]
    rcases List.mem_cons.mp hm with he | he
    · apply foldl_keeps
      · rw [← he]
        simp only [applySurveyEv, ServerMap.addNewShare]
        exact mem_dictSet_self _ _ _
      · intro v' hm'
        exact hs v' (List.mem_cons_of_mem _ hm')
    · exact ih _ he (fun v' hm' => hs v' (List.mem_cons_of_mem _ hm'))

theorem resurvey_eq_foldl (sm : ServerMap) (passes : List (List SurveyEv)) :
    resurvey sm passes = passes.flatten.foldl applySurveyEv sm := by
  unfold resurvey
  induction passes generalizing sm with
  | nil => rfl
  | cons p ps ih => simp only [List.foldl_cons, List.flatten_cons, List.foldl_append]; exact ih _

end Tahoe.Mutable
