/-
C09 — content of a mutable file under create / overwrite / modify / update / read by one writer.
Mathlib-free, executable; used by the driver `Drv/C09.lean`.

What is modelled (allmydata/mutable/…):
* `publish.py`  `Publish.publish` / `Publish.update` / `setup_encoding_parameters` (segment size rule,
  `num_segments`, `tail_segment_size`, `starting_segment`, `end_segment`), the push loop
  `push_segment → _encode_segment` (`self.data.read(segsize)`, `assert len(data) == segsize`),
  `MutableData.read`, `TransformingUploadable.__init__/read`.
* `filenode.py`  `MutableFileVersion._update`, `_do_modify_update`, `_do_update_update`
  (`start_segment` / `end_segment`), `_decode_and_decrypt_segments` (the two boundary segments),
  `_build_uploadable_and_finish`, `_modify_once`, `overwrite`, `read`.
* `retrieve.py`  `Retrieve.download`, `_start_download` precondition, `_setup_encoding_parameters`
  (`_start_segment`, `_last_segment`), `_decode_blocks` (tail decoder choice, `size_to_use`
  trimming of the decoder's padded output), `_set_segment` trimming.
* `layout.py`   `MDMFSlotReadProxy.get_block_and_salt` only for its segment-number check.

Abstractions (each is stated in harness/props/c09.py TRUSTED/ASSUMPTIONS):
* a published version is its plaintext plus `verinfo[3]` (segment size); block/FEC/AES/hash-tree
  round trips are abstracted: segment `i` of a version *is* `content[i*seg : (i+1)*seg]`.  Because the
  publisher asserts `len(data) == segsize` for every segment it pushes, segment `j` of the new version
  starts at `j*seg`, so an in-place update is `old[: start*seg] ++ pushed ++ old[(end+1)*seg :]`.
* "publish succeeded ⇒ the shares hold the new version" (C47/C11's subject).
* the model is the code with the two proposed repairs applied (fixes/C09-*.diff):
  `Publish.update` takes the old length from the version being updated (`version[4]`), not from
  `node.get_size()`; `_do_modify_update` zero-fills a gap when `offset > len(old)`.
* a `MutableFileVersion` object is a handle to the node: `step` applies every operation to the node's current
  best version (`Option Version`), whether the code reaches it through a fresh or a reused version object
  (fixes/C09-update-twice-stale-version.diff makes `_update` through a reused object do exactly that); the
  object's cached servermap, and what the code refuses when the object was overtaken by another one, are not modelled.
* Python ints are `Nat` where the code keeps them non-negative, `Int` for `end_segment` (which the
  code lets go to -1).
-/
namespace Tahoe.Mutable.Content

abbrev Bytes := List UInt8

/-- `pyutil.mathutil.div_ceil(n, d)` = `(n // d) + (n % d != 0)`  (raises ZeroDivisionError for d = 0;
    callers here guard `d > 0`). -/
def divCeil (n d : Nat) : Nat := n / d + (if n % d = 0 then 0 else 1)

/-- `pyutil.mathutil.next_multiple(n, k)` = `div_ceil(n, k) * k`. -/
def nextMultiple (n k : Nat) : Nat := divCeil n k * k

/-- Python `b[i:j]` for non-negative `i`, `j`. -/
def slice (b : Bytes) (i j : Nat) : Bytes := (b.take j).drop i

/-- The byte-string meaning of an in-place write of `data` at `off` for `off ≤ old.length`:
    `old[:off] + data + old[off+len(data):]`. -/
def splice (old : Bytes) (off : Nat) (data : Bytes) : Bytes :=
  old.take off ++ data ++ old.drop (off + data.length)

inductive Fmt | sdmf | mdmf
  deriving DecidableEq, Repr

/-- Client configuration: `k` = required shares, `maxSeg` = `DEFAULT_MUTABLE_MAX_SEGMENT_SIZE`. -/
structure Cfg where
  k : Nat
  maxSeg : Nat
  deriving Repr

/-- One published version: format, `verinfo[3]` (segment size), plaintext (`verinfo[4]` = its length). -/
structure Version where
  fmt : Fmt
  segsize : Nat
  content : Bytes
  deriving Repr

/-- exceptions the code answers with (a refusal: nothing is published) -/
inductive Err
  | zerodiv      -- ZeroDivisionError (`div_ceil(old_size, 0)` on an empty SDMF file)
  | assertion    -- AssertionError (`assert offset <= self.get_size()`, `precondition(...)`, `_assert(...)`)
  | index        -- IndexError after LayoutInvalid("Not a valid segment number") (boundary segment not fetchable)
  deriving DecidableEq, Repr

/-! ### Publisher -/

/-- `setup_encoding_parameters`: `segment_size` for a publish of `datalength` bytes. -/
def pubSegsize (cfg : Cfg) (fmt : Fmt) (datalength : Nat) : Nat :=
  nextMultiple (match fmt with | .mdmf => cfg.maxSeg | .sdmf => datalength) cfg.k

/-- `num_segments` (0 when `segment_size == 0`). -/
def numSegments (datalength seg : Nat) : Nat := if seg = 0 then 0 else divCeil datalength seg

/-- `tail_segment_size`: `datalength % segment_size`, or `segment_size` when that is 0. -/
def tailSize (datalength seg : Nat) : Nat :=
  let t := if seg ≠ 0 ∧ datalength ≠ 0 then datalength % seg else 0
  if t = 0 ∧ seg ≠ 0 then seg else t

/-- The publisher's push loop (`_push → push_segment → _encode_segment`), for segments
    `cur, cur+1, …` (`count` of them): each is read with `tail` if `cur + 1 == num_segments` else `seg`;
    `assert len(data) == segsize`.  `none` = the assertion failed. -/
def pushLoop {σ : Type} (rd : σ → Nat → Bytes × σ) (numSegs seg tail : Nat) :
    Nat → Nat → σ → Option (List Bytes)
  | _, 0, _ => some []
  | cur, c + 1, st =>
    let want := if cur + 1 = numSegs then tail else seg
    let r := rd st want
    if r.1.length = want then (pushLoop rd numSegs seg tail (cur + 1) c r.2).map (r.1 :: ·) else none

/-- `MutableData.read(length)` on a BytesIO: up to `length` bytes from the current position. -/
def plainRead (data : Bytes) (pos : Nat) (length : Nat) : Bytes × Nat :=
  let d := slice data pos (pos + length)
  (d, pos + d.length)

/-- `Publish.publish(newdata)`: whole-file publish in the node's format.  `none` only if a length
    assertion of the push loop failed (theorem `publishAll_content`: it never does). -/
def publishAll (cfg : Cfg) (fmt : Fmt) (data : Bytes) : Option Version :=
  let seg := pubSegsize cfg fmt data.length
  let n := numSegments data.length seg
  match pushLoop (plainRead data) n seg (tailSize data.length seg) 0 n 0 with
  | some segs => some { fmt := fmt, segsize := seg, content := segs.flatten }
  | none => none

/-! ### TransformingUploadable -/

structure TU where
  newdata : Bytes
  pos : Nat          -- `self._newdata.pos()`
  segsize : Nat      -- `self._segment_size` (= `verinfo[3]` of the version being updated)
  fso : Nat          -- `self._first_segment_offset = offset % segment_size`
  start : Bytes      -- `self._start` (plaintext of old segment `start_segment`)
  end_ : Bytes       -- `self._end`   (plaintext of old segment `end_segment`)
  marker : Nat       -- `self._read_marker`
  deriving Repr

/-- `TransformingUploadable.__init__` (`segsize > 0`: `_update` has already divided by it). -/
def TU.init (data : Bytes) (offset segsize : Nat) (start end_ : Bytes) : TU :=
  { newdata := data, pos := 0, segsize := segsize, fso := offset % segsize,
    start := start, end_ := end_, marker := 0 }

/-- `TransformingUploadable.read(length)`.  Differences from the text of the code, none in behaviour:
    `old_data_length = fso - marker` is tested `> 0` before use, so truncated subtraction is used
    after the test; `old_end_length = length - (size - pos)` is tested `> 0`, and truncated
    subtraction is positive exactly when Python's difference is; the inner
    `assert length == size - pos` then holds by arithmetic. -/
def TU.read (t : TU) (length : Nat) : Bytes × TU :=
  let odl := if t.fso > t.marker then min (t.fso - t.marker) length else 0
  let oldStart := if t.fso > t.marker then slice t.start t.marker (odl + t.marker) else []
  let length1 := length - odl
  let remaining := t.newdata.length - t.pos
  let oel := length1 - remaining
  let oldEnd :=
    if oel > 0 then
      let odo := (length1 - oel + odl) % t.segsize
      slice t.end_ odo (odo + oel)
    else []
  let length2 := length1 - oel
  let nd := slice t.newdata t.pos (t.pos + length2)
  let out := oldStart ++ nd ++ oldEnd
  (out, { t with pos := t.pos + nd.length, marker := t.marker + out.length })

/-! ### In-place update (MDMF) and re-encode update (SDMF) -/

/-- the plaintext of stored segment `i` of a version (what the publisher pushed for it). -/
def segmentOf (content : Bytes) (seg i : Nat) : Bytes := slice content (i * seg) (i * seg + seg)

/-- `Retrieve._decode_blocks`, the joined output of the FEC decoder for segment `segnum`: the tail
    segment goes through `_tail_decoder` (parameters `next_multiple(_tail_data_size, k)`), every other
    one through `_segment_decoder` (`segsize`); a decoder returns `k` blocks of `div_ceil(size, k)`
    bytes, i.e. the stored segment followed by the publisher's zero padding (`_encode_segment` pads the
    last piece).  (Padding is added to and removed from the crypttext; AES-CTR is length preserving,
    so the model states it on the plaintext.) -/
def decodedJoined (content : Bytes) (seg k segnum : Nat) : Bytes :=
  let dl := content.length
  let decSize := if segnum + 1 = numSegments dl seg then nextMultiple (tailSize dl seg) k
                 else nextMultiple seg k
  let s := segmentOf content seg segnum
  s ++ List.replicate (decSize - s.length) 0

/-- `Retrieve._decode_blocks` → `_process`: `segment[:size_to_use]` with `size_to_use =
    _tail_data_size` iff `segnum == self._num_segments - 1` (the file's last segment — not the last
    segment the read asks for), else `_segment_size`. -/
def decodeBlocks (content : Bytes) (seg k segnum : Nat) : Bytes :=
  let dl := content.length
  let sizeToUse := if segnum + 1 = numSegments dl seg then tailSize dl seg else seg
  (decodedJoined content seg k segnum).take sizeToUse

/-- `_do_update_update`: `(start_segment, end_segment)`; `end_segment` may be -1 (empty data at 0). -/
def updateRange (size seg off len : Nat) : Nat × Int :=
  let start := off / seg
  let end_ : Int :=
    if off + len < size then Int.ediv (((off + len : Nat) : Int) - 1) (seg : Int) else (start : Int)
  (start, end_)

/-- `Publish.setup_encoding_parameters(offset)` in the update case: `end_segment`. -/
def pubEndSegment (datalength seg uploadSize : Nat) : Int :=
  if uploadSize ≠ datalength then
    let e : Int := ((uploadSize / seg : Nat) : Int)
    if uploadSize % seg = 0 then e - 1 else e
  else ((numSegments datalength seg : Nat) : Int) - 1

/-! ### Servermap update data → the two boundary segments
    (`ServermapUpdater._got_results` with `fetch_update_data`, `_got_update_results_one_share`,
    `ServerMap.set_update_data_for_share_and_verinfo`, `MutableFileVersion._decode_and_decrypt_segments`,
    `Retrieve.decode`).  A fetched block is represented by the number of the segment it was read from (`k`
    blocks of segment `i` reassemble to `decodedJoined … i`); block hashes, salts and the bytes of a block
    are abstracted. -/

inductive Item
  | verinfo (ver : Nat)
  | blockhashes
  | block (seg : Int)
  deriving DecidableEq, Repr

/-- `_got_results`: `ds = [get_verinfo(), get_blockhashes(), get_block_and_salt(start_segment),
    get_block_and_salt(end_segment)]`, gathered in that order; `get_block_and_salt` raises
    `LayoutInvalid("Not a valid segment number")` when `segnum + 1 > num_segments` (then nothing is
    recorded for the share: `none`). -/
def fetchShare (numSegs ver startSeg : Nat) (endSeg : Int) : Option (List Item) :=
  if startSeg + 1 > numSegs ∨ endSeg + 1 > (numSegs : Int) then none
  else some [.verinfo ver, .blockhashes, .block startSeg, .block endSeg]

abbrev Datum := Item × Item × Item            -- (blockhashes, start, end)
abbrev Entry := Item × Datum                  -- (verinfo, (blockhashes, start, end))
abbrev UpdateData := List (Nat × List Entry)  -- `ServerMap.update_data`: shnum ↦ entries, in dict order

/-- `_got_update_results_one_share`: `assert len(results) == 4; verinfo, blockhashes, start, end = results`. -/
def gotUpdateResults : List Item → Option Entry
  | [v, bh, s, e] => some (v, (bh, s, e))
  | _ => none

/-- `set_update_data_for_share_and_verinfo`: `self.update_data.setdefault(shnum, []).append((verinfo, data))`. -/
def recordUpdate : UpdateData → Nat → Entry → UpdateData
  | [], sh, en => [(sh, [en])]
  | (sh', es) :: rest, sh, en =>
    if sh' = sh then (sh', es ++ [en]) :: rest else (sh', es) :: recordUpdate rest sh en

/-- the servermap update for the shares that answer, in the order their answers are processed. -/
def servermapUpdateData (shares : List Nat) (numSegs ver startSeg : Nat) (endSeg : Int) (ud : UpdateData) :
    UpdateData :=
  shares.foldl (fun ud sh =>
    match (fetchShare numSegs ver startSeg endSeg).bind gotUpdateResults with
    | some en => recordUpdate ud sh en
    | none => ud) ud

/-- `_decode_and_decrypt_segments`, one share: `data = [d[1] for d in original_data if d[0] == self._version]`,
    `datum = data[0]` (IndexError), `assert [x for x in data if x != datum] == []`. -/
def selectDatum (version : Item) (entries : List Entry) : Except Err Datum :=
  match (entries.filter (fun en => en.1 = version)).map (·.2) with
  | [] => .error .index
  | d :: rest => if rest.all (fun x => x = d) then .ok d else .error .assertion

/-- `_decode_and_decrypt_segments`: `start_segments[shnum] = datum[1]`, `end_segments[shnum] = datum[2]`,
    looping over `update_data.items()`. -/
def boundaryMaps (version : Item) : UpdateData → Except Err (List (Nat × Item) × List (Nat × Item))
  | [] => .ok ([], [])
  | (sh, entries) :: rest =>
    match selectDatum version entries with
    | .error e => .error e
    | .ok (_, s, e) =>
      match boundaryMaps version rest with
      | .error x => .error x
      | .ok (sm, em) => .ok ((sh, s) :: sm, (sh, e) :: em)

/-- `Retrieve.decode(blocks_and_salts, segnum)` → `_decode_blocks`: the salt of the first entry
    (`list(d.items())[0]`, IndexError on an empty dict), `_assert(len(shareids) >= k)`, the first `k` blocks
    decoded with the decoder and `size_to_use` of `segnum`.  The `k` blocks of one dict come from one segment
    (that of the first block is used). "Segment -1" (zero-length write at offset 0) reads bytes before the share
    data; the result is never used and is modelled as empty. -/
def decodeFetched (content : Bytes) (seg k : Nat) (blocks : List (Nat × Item)) (segnum : Int) : Except Err Bytes :=
  match blocks with
  | [] => .error .index
  | (_, b) :: _ =>
    if blocks.length < k then .error .assertion else
    match b with
    | .block i =>
      if i < 0 ∨ segnum < 0 then .ok []
      else
        let dl := content.length
        let sizeToUse := if segnum.toNat + 1 = numSegments dl seg then tailSize dl seg else seg
        .ok ((decodedJoined content seg k i.toNat).take sizeToUse)
    | _ => .error .assertion

/-- `_decode_and_decrypt_segments`: from the servermap's `update_data` and the object's version to the two
    plaintext boundary segments `(start, end)`. -/
def boundarySegmentsOf (ud : UpdateData) (version : Item) (content : Bytes) (seg k startSeg : Nat) (endSeg : Int) :
    Except Err (Bytes × Bytes) :=
  match boundaryMaps version ud with
  | .error e => .error e
  | .ok (sm, em) =>
    if content.length = 0 then .error .assertion else   -- `Retrieve.decode`: `_assert(self._read_length > 0)`
    match decodeFetched content seg k sm startSeg with
    | .error e => .error e
    | .ok a =>
      match decodeFetched content seg k em endSeg with
      | .error e => .error e
      | .ok b => .ok (a, b)

/-- the updater's two boundary segments, from a fresh servermap update answered by `shares`. -/
def boundarySegmentsFrom (shares : List Nat) (content : Bytes) (seg k startSeg : Nat) (endSeg : Int) :
    Except Err (Bytes × Bytes) :=
  boundarySegmentsOf (servermapUpdateData shares (numSegments content.length seg) 0 startSeg endSeg [])
    (.verinfo 0) content seg k startSeg endSeg

/-- `MutableFileVersion._update` for an MDMF version (`_do_update_update`,
    `_decode_and_decrypt_segments`, `_build_uploadable_and_finish`, `Publish.update`). -/
def mdmfUpdate (cfg : Cfg) (v : Version) (off : Nat) (data : Bytes) : Except Err Version :=
  let size := v.content.length
  let seg := v.segsize
  if seg = 0 then .error .zerodiv else                -- `div_ceil(old_size, segment_size)`
  if ¬ off ≤ size then .error .assertion else         -- `assert offset <= self.get_size()`
  let (startSeg, endSeg) := updateRange size seg off data.length
  -- the servermap update fetches blocks `start_segment` and `end_segment` of every share (modelled with the
  -- `k` shares the decoder needs; `boundary_segments_paired` is for any ≥ k answering shares);
  -- `_decode_and_decrypt_segments` turns them into the two boundary segments
  match boundarySegmentsFrom (List.range cfg.k) v.content seg cfg.k startSeg endSeg with
  | .error e => .error e     -- empty file: AssertionError; start segment not fetchable: IndexError
  | .ok (start, end_) =>
  let tu := TU.init data off seg start end_
  -- Publish.update
  let uploadSize := off + data.length                  -- `TransformingUploadable.get_size()`
  let datalength := max size uploadSize                -- `version[4]`, raised to the upload size
  let pseg := pubSegsize cfg .mdmf datalength
  if pseg = 0 then .error .zerodiv else
  let n := numSegments datalength pseg
  let starting := off / pseg
  let endP := pubEndSegment datalength pseg uploadSize
  let count := (endP + 1 - (starting : Int)).toNat     -- `while segnum <= end_segment`
  match pushLoop TU.read n pseg (tailSize datalength pseg) starting count tu with
  | none => .error .assertion                          -- `assert len(data) == segsize`
  | some segs =>
    .ok { fmt := .mdmf, segsize := pseg,
          content := v.content.take (starting * pseg) ++ segs.flatten
                     ++ v.content.drop ((starting + count) * pseg) }

/-- the modifier `m` of `_do_modify_update` (with the zero-fill repair). -/
def sdmfSplice (old : Bytes) (off : Nat) (data : Bytes) : Bytes :=
  let new := old.take off
  new ++ List.replicate (off - new.length) 0 ++ data ++ old.drop (off + data.length)

/-- `_modify_once` with modifier result `new?`: `None` or unchanged ⇒ nothing is published. -/
def modifyWith (cfg : Cfg) (v : Version) (new? : Option Bytes) : Option Version :=
  match new? with
  | none => some v
  | some new => if new = v.content then some v else publishAll cfg v.fmt new

/-- `MutableFileVersion._update`. -/
def update (cfg : Cfg) (v : Version) (off : Nat) (data : Bytes) : Except Err Version :=
  if v.segsize = 0 then .error .zerodiv else
  match v.fmt with
  | .sdmf =>
    match modifyWith cfg v (some (sdmfSplice v.content off data)) with
    | some v' => .ok v'
    | none => .error .assertion
  | .mdmf => mdmfUpdate cfg v off data

/-! ### Retrieve -/

/-- `_decode_blocks` + `_set_segment` for segments `cur … last`. `start`/`last` are
    `_start_segment`/`_last_segment`. -/
def readSegs (content : Bytes) (seg k off size start last : Nat) : Nat → Nat → Bytes
  | _, 0 => []
  | cur, c + 1 =>
    let s0 := decodeBlocks content seg k cur
    let s1 := if cur = last then
                let wanted := (off + size) % seg
                if wanted ≠ 0 then s0.take wanted else s0
              else s0
    let s2 := if cur = start then s1.drop (off % seg) else s1
    s2 ++ readSegs content seg k off size start last (cur + 1) c

/-- `MutableFileVersion.read(consumer, offset, size)` → `Retrieve.download`. `size = none` is Python's
    `None` (to the end; negative when `offset > datalength`, which the precondition then rejects).
    `k` = `verinfo[5]` (required shares; only the decoders' padding depends on it). -/
def read (k : Nat) (v : Version) (off : Nat) (size? : Option Nat) : Except Err Bytes :=
  let dl := v.content.length
  match (match size? with | some s => some s | none => if off ≤ dl then some (dl - off) else none) with
  | none => .error .assertion
  | some size =>
    if size = 0 then .ok [] else
    if ¬ (off < dl ∧ off + size ≤ dl) then .error .assertion else   -- `_start_download` precondition
    let seg := v.segsize
    let start := off / seg
    let last := (off + size - 1) / seg
    .ok (readSegs v.content seg k off size start last start (last + 1 - start))

/-! ### Node-level operations and histories -/

inductive Op
  | create (fmt : Fmt) (data : Bytes)
  | overwrite (data : Bytes)
  | modify (m : Bytes → Option Bytes)
  | update (off : Nat) (data : Bytes)

/-- one operation on the file (`none` = no file yet). `.error` = refused, state unchanged. -/
def step (cfg : Cfg) (st : Option Version) (op : Op) : Except Err (Option Version) :=
  match op, st with
  | .create fmt data, _ =>
    match publishAll cfg fmt data with | some v => .ok (some v) | none => .error .assertion
  | .overwrite data, some v =>
    match publishAll cfg v.fmt data with | some v' => .ok (some v') | none => .error .assertion
  | .modify m, some v =>
    match modifyWith cfg v (m v.content) with | some v' => .ok (some v') | none => .error .assertion
  | .update off data, some v =>
    match update cfg v off data with | .ok v' => .ok (some v') | .error e => .error e
  | _, none => .error .assertion

/-- run a history: for every op, whether it was accepted, and the state after it. -/
def run (cfg : Cfg) : Option Version → List Op → List (Bool × Option Version)
  | _, [] => []
  | st, op :: ops =>
    match step cfg st op with
    | .ok st' => (true, st') :: run cfg st' ops
    | .error _ => (false, st) :: run cfg st ops

/-- byte-string semantics of one operation (the reference the statement speaks of). -/
def specStep (old : Bytes) : Op → Bytes
  | .create _ data => data
  | .overwrite data => data
  | .modify m => (m old).getD old
  | .update off data => old.take off ++ List.replicate (off - old.length) 0 ++ data ++ old.drop (off + data.length)

/-- fold of the byte-string semantics over the accepted operations: content after each op. -/
def specRun : Bytes → List (Bool × Op) → List Bytes
  | _, [] => []
  | b, (acc, op) :: rest =>
    let b' := if acc then specStep b op else b
    b' :: specRun b' rest

def contentOf : Option Version → Bytes
  | some v => v.content
  | none => []

end Tahoe.Mutable.Content
