/-
Which operations go through a mutable node's serializer (C13), as a table.

  MutableFileNode (mutable/filenode.py): the public whole-file operations each hand their "serialized
  sibling" (`_download_best_version`, `_overwrite`, `_upload`, `_modify`, `_get_servermap`) to
  `_do_serialized`; none of those bodies calls a public (serialized) operation of the same node again
  -- they use the unserialized helpers (`_get_version_from_servermap`, `_update_servermap`, the
  version object's own methods).
  DirectoryNode (dirnode.py): every read (`list`, `has_child`, `get`, `get_child_and_metadata`,
  `get_metadata_for`) is `_read()` = `self._node.download_best_version()`; every edit is
  `self._node.modify(<Adder|Deleter|MetadataSetter>.modify)`; `move_child_to` within one directory is a
  read followed by two edits.

The table is compared with the code by instrumentation (harness/props/c13.py `routing_cases`): which
public operation of the backing node a call reaches, whether it enters `_do_serialized` before doing
anything else, and whether `_do_serialized` is entered again on the same node while the body runs.
Mathlib-free.
-/
namespace Tahoe.Routing

/-- public whole-file operations of MutableFileNode -/
inductive NodeOp
  | downloadBestVersion | overwrite | upload | modify | getServermap
  deriving DecidableEq, Repr

/-- does the operation hand its body to `_do_serialized`? -/
def serialized : NodeOp → Bool
  | .downloadBestVersion => true
  | .overwrite => true
  | .upload => true
  | .modify => true
  | .getServermap => true

/-- does the body, while it runs, request another serialized operation on the same node? -/
def bodyEnqueues : NodeOp → Bool
  | .downloadBestVersion => false      -- also on the retry after NotEnoughSharesError: `_get_version_from_servermap`, not `get_servermap`
  | .overwrite => false
  | .upload => false
  | .modify => false                   -- the retry loop lives in the version object; it re-surveys with `_update_servermap`
  | .getServermap => false

/-- operations of DirectoryNode -/
inductive DirOp
  | list | hasChild | get | getChildAndMetadata | getMetadataFor
  | setMetadataFor | setUri | setChildren | setNode | setNodes | addFile | delete | createSubdirectory
  | moveChildWithin                     -- move_child_to with the same directory as new parent
  deriving DecidableEq, Repr

/-- the whole-file operations of the backing node a directory operation is built on, in order -/
def dirOpCalls : DirOp → List NodeOp
  | .list => [.downloadBestVersion]
  | .hasChild => [.downloadBestVersion]
  | .get => [.downloadBestVersion]
  | .getChildAndMetadata => [.downloadBestVersion]
  | .getMetadataFor => [.downloadBestVersion]
  | .setMetadataFor => [.modify]
  | .setUri => [.modify]
  | .setChildren => [.modify]
  | .setNode => [.modify]
  | .setNodes => [.modify]
  | .addFile => [.modify]
  | .delete => [.modify]
  | .createSubdirectory => [.modify]
  | .moveChildWithin => [.downloadBestVersion, .modify, .modify]

def allNodeOps : List NodeOp := [.downloadBestVersion, .overwrite, .upload, .modify, .getServermap]

def allDirOps : List DirOp :=
  [.list, .hasChild, .get, .getChildAndMetadata, .getMetadataFor, .setMetadataFor, .setUri, .setChildren, .setNode,
   .setNodes, .addFile, .delete, .createSubdirectory, .moveChildWithin]

end Tahoe.Routing
