import Tahoe.Mutable.Handle
import Tahoe.Mutable.ContentLemmas
/-! Lemmas for the reused-version-object model (`Handle.lean`); property theorems are in Props/C09.lean. -/
namespace Tahoe.Mutable.Content

theorem hstep_read_state (cfg : Cfg) (s : HState) (off : Nat) (size? : Option Nat) :
    (hstep cfg s (.read off size?)).1 = s := by
  simp only [hstep]; split
  · rfl
  · split
    · rfl
    · split <;> rfl

theorem hstep_inv (cfg : Cfg) (s : HState) (op : HOp) (inv : HInv s) : HInv (hstep cfg s op).1 := by
  obtain ⟨h1, h2, h3, h4⟩ := inv
  cases op with
  | pin => exact ⟨rfl, rfl, Nat.le_refl _, fun _ => rfl⟩
  | read off size? => rw [hstep_read_state]; exact ⟨h1, h2, h3, h4⟩
  | overwrite data =>
    simp only [hstep]
    cases publishAll cfg s.h.smapVer.fmt data with
    | some v' =>
      refine ⟨rfl, rfl, ?_, ?_⟩
      · show s.h.pinned ≤ s.seq + 1; omega
      · intro hp; have : s.h.pinned = s.seq + 1 := hp; omega
    | none => exact ⟨h1, h2, h3, h4⟩
  | modify m =>
    simp only [hstep]
    have keep : HInv { s with h := { s.h with pinned := s.h.smapSeq, pinnedVer := s.h.smapVer } } :=
      ⟨h1, h2, by show s.h.smapSeq ≤ s.seq; omega, fun _ => h2⟩
    cases m s.h.smapVer.content with
    | none => exact keep
    | some new =>
      simp only
      by_cases hn : new = s.h.smapVer.content
      · rw [if_pos hn]; exact keep
      · rw [if_neg hn]
        cases publishAll cfg s.h.smapVer.fmt new with
        | some v' =>
          refine ⟨rfl, rfl, ?_, ?_⟩
          · show s.h.smapSeq ≤ s.seq + 1; omega
          · intro hp; have : s.h.smapSeq = s.seq + 1 := hp; omega
        | none => exact keep
  | update off data =>
    simp only [hstep]
    have keep : HInv { s with h := { s.h with pinned := s.h.smapSeq, pinnedVer := s.h.smapVer } } :=
      ⟨h1, h2, by show s.h.smapSeq ≤ s.seq; omega, fun _ => h2⟩
    cases update cfg s.h.smapVer off data with
    | error e => exact keep
    | ok v' =>
      simp only
      cases hp : updatePublishes s.h.smapVer off data with
      | true =>
        simp only [if_true]
        refine ⟨rfl, rfl, ?_, ?_⟩
        · show s.h.smapSeq ≤ s.seq + 1; omega
        · intro hq; have : s.h.smapSeq = s.seq + 1 := hq; omega
      | false => simp only [Bool.false_eq_true, if_false]; exact keep


theorem hstep_read (cfg : Cfg) (s : HState) (off : Nat) (size? : Option Nat) (inv : HInv s) :
    (s.h.pinned = s.seq →
      (hstep cfg s (.read off size?)).2
        = match read cfg.k s.file off size? with | .ok b => .bytes b | .error e => .refused e)
    ∧ (s.h.pinned ≠ s.seq → ∀ b, (hstep cfg s (.read off size?)).2 = .bytes b → b = []) := by
  obtain ⟨h1, h2, h3, h4⟩ := inv
  constructor
  · intro hp
    simp only [hstep, h4 hp, h1, hp]
    cases read cfg.k s.file off size? with
    | error e => rfl
    | ok b => simp
  · intro hp b
    simp only [hstep, h1]
    cases read cfg.k s.h.pinnedVer off size? with
    | error e => intro h; cases h
    | ok b' =>
      simp only [hp, if_false]
      by_cases hb : b' = []
      · simp only [hb, if_true]; intro h; cases h; rfl
      · simp only [hb, if_false]; intro h; cases h

theorem hstep_file (cfg : Cfg) (s : HState) (op : HOp) (p : Op) (hpl : op.plain = some p) (inv : HInv s) :
    match step cfg (some s.file) p with
    | .ok st' => st' = some (hstep cfg s op).1.file ∧ (hstep cfg s op).2 = .ok
    | .error e => (hstep cfg s op).1.file = s.file ∧ (hstep cfg s op).2 = .refused e := by
  obtain ⟨h1, h2, h3, h4⟩ := inv
  cases op with
  | pin => cases hpl
  | read off size? => cases hpl
  | overwrite data =>
    cases hpl
    simp only [hstep, step, h2]
    cases publishAll cfg s.file.fmt data with
    | some v' => (constructor <;> first | rfl | trivial)
    | none => (constructor <;> first | rfl | trivial)
  | modify m =>
    cases hpl
    simp only [hstep, step, modifyWith, h2]
    cases m s.file.content with
    | none => (constructor <;> first | rfl | trivial)
    | some new =>
      simp only
      by_cases hn : new = s.file.content
      · simp only [hn, if_true]; (constructor <;> first | rfl | trivial)
      · simp only [hn, if_false]
        cases publishAll cfg s.file.fmt new with
        | some v' => (constructor <;> first | rfl | trivial)
        | none => (constructor <;> first | rfl | trivial)
  | update off data =>
    cases hpl
    simp only [hstep, step, h2]
    cases hu : update cfg s.file off data with
    | error e => (constructor <;> first | rfl | trivial)
    | ok v' =>
      simp only
      cases hp : updatePublishes s.file off data with
      | true => simp only [if_true]; (constructor <;> first | rfl | trivial)
      | false =>
        simp only [Bool.false_eq_true, if_false]
        refine ⟨?_, by first | rfl | trivial⟩
        -- not published: SDMF with an unchanged result; `update` returned the old version itself
        have hseg : s.file.segsize ≠ 0 := by intro h0; simp [update, h0] at hu
        cases hf : s.file.fmt with
        | mdmf => simp [updatePublishes, hf] at hp
        | sdmf =>
          simp only [updatePublishes, hf, decide_eq_false_iff_not, ne_eq, Classical.not_not] at hp
          simp only [update, hseg, if_false, hf, modifyWith, hp, if_true] at hu
          cases hu; rfl


theorem hrun_inv (cfg : Cfg) : ∀ (ops : List HOp) (s : HState), HInv s → ∀ r ∈ hrun cfg s ops, HInv r.1 := by
  intro ops
  induction ops with
  | nil => intro s _ r hr; simp [hrun] at hr
  | cons op ops ih =>
    intro s inv r hr
    simp only [hrun, List.mem_cons] at hr
    rcases hr with h | h
    · subst h; exact hstep_inv cfg s op inv
    · exact ih _ (hstep_inv cfg s op inv) r h

end Tahoe.Mutable.Content
