import Tahoe.Mutable.PublishRun
import Tahoe.Mutable.PublishLemmas
/-! Helper lemmas for the end-to-end theorems of `Tahoe/Props/C47.lean`. -/
namespace Tahoe.Mutable.Pub
open Tahoe.Mutable

theorem chainEvent_writer (w : Writer) (r : Rpc) : (chainEvent w r).writer = w := by
  cases r <;> rfl

theorem chainEvent_answer_true (w w' : Writer) (r : Rpc) (rd : List (Nat × Nat))
    (h : chainEvent w' r = .answer w true rd) : w' = w ∧ r.stored = true := by
  cases r with
  | answered wr rd' =>
    simp only [chainEvent, proxyResult, Event.answer.injEq] at h
    obtain ⟨h1, h2, _⟩ := h
    exact ⟨h1, by simp [Rpc.stored, h2]⟩
  | lostBefore => simp [chainEvent, proxyResult] at h
  | lostAfter wr => simp [chainEvent, proxyResult] at h

theorem step_goal (p : Pub) (e : Event) : (step p e).goal = p.goal := by
  cases e with
  | problem w => rfl
  | answer w wrote rd => simp only [step]; split <;> split <;> (try split) <;> rfl

theorem foldl_goal (p : Pub) (evs : List Event) : (evs.foldl step p).goal = p.goal := by
  induction evs generalizing p with
  | nil => rfl
  | cons e evs ih => simp only [List.foldl_cons]; rw [ih, step_goal]

theorem mem_setAdd {α : Type} [DecidableEq α] (l : List α) (a x : α) : x ∈ setAdd l a ↔ x ∈ l ∨ x = a := by
  unfold setAdd
  split
  · rename_i h
    constructor
    · exact Or.inl
    · rintro (h' | rfl)
      · exact h'
      · exact h
  · simp

/-- `placed` only ever gains the slot of a proxy that was answered `wrote = True` -/
theorem step_placed (p : Pub) (e : Event) (x : Nat × Nat) (h : x ∈ (step p e).placed) :
    x ∈ p.placed ∨ ∃ w rd, e = .answer w true rd ∧ x = (w.server, w.shnum) := by
  cases e with
  | problem w => exact Or.inl h
  | answer w wrote rd =>
    cases hs : isSurprise p.writers p.checkstring w rd <;> cases wrote <;> cases hv : p.haveVerinfo <;>
      simp [step, hs, hv, mem_setAdd] at h <;>
      first
        | exact Or.inl h
        | (rcases h with h | h
           · exact Or.inl h
           · exact Or.inr ⟨w, rd, rfl, h⟩)

theorem foldl_placed (p : Pub) (evs : List Event) (x : Nat × Nat) (h : x ∈ (evs.foldl step p).placed) :
    x ∈ p.placed ∨ ∃ w rd, Event.answer w true rd ∈ evs ∧ x = (w.server, w.shnum) := by
  induction evs generalizing p with
  | nil => exact Or.inl h
  | cons e evs ih =>
    simp only [List.foldl_cons] at h
    rcases ih _ h with h1 | ⟨w, rd, hm, hx⟩
    · rcases step_placed p e x h1 with h2 | ⟨w, rd, he, hx⟩
      · exact Or.inl h2
      · exact Or.inr ⟨w, rd, by rw [he]; exact List.mem_cons_self, hx⟩
    · exact Or.inr ⟨w, rd, List.mem_cons_of_mem _ hm, hx⟩

/-- `bad_servers` only ever gains the server of a proxy whose write was refused -/
theorem step_bad (p : Pub) (e : Event) (s : Nat) (h : s ∈ (step p e).badServers) :
    s ∈ p.badServers ∨ ∃ w rd, e = .answer w false rd ∧ s = w.server := by
  cases e with
  | problem w => exact Or.inl h
  | answer w wrote rd =>
    cases hs : isSurprise p.writers p.checkstring w rd <;> cases wrote <;> cases hv : p.haveVerinfo <;>
      simp [step, hs, hv, mem_setAdd] at h <;>
      first
        | exact Or.inl h
        | (rcases h with h | h
           · exact Or.inl h
           · exact Or.inr ⟨w, rd, rfl, h⟩)

theorem foldl_bad (p : Pub) (evs : List Event) (s : Nat) (h : s ∈ (evs.foldl step p).badServers) :
    s ∈ p.badServers ∨ ∃ w rd, Event.answer w false rd ∈ evs ∧ s = w.server := by
  induction evs generalizing p with
  | nil => exact Or.inl h
  | cons e evs ih =>
    simp only [List.foldl_cons] at h
    rcases ih _ h with h1 | ⟨w, rd, hm, hx⟩
    · rcases step_bad p e s h1 with h2 | ⟨w, rd, he, hx⟩
      · exact Or.inl h2
      · exact Or.inr ⟨w, rd, by rw [he]; exact List.mem_cons_self, hx⟩
    · exact Or.inr ⟨w, rd, List.mem_cons_of_mem _ hm, hx⟩

theorem mem_eventsOf (arrivals : List (Writer × Rpc)) (e : Event) :
    e ∈ eventsOf arrivals ↔ ∃ w r, (w, r) ∈ arrivals ∧ chainEvent w r = e := by
  simp only [eventsOf, List.mem_map, Prod.exists]

theorem mem_storedSlots (arrivals : List (Writer × Rpc)) (w : Writer) (r : Rpc) (h : (w, r) ∈ arrivals)
    (hs : r.stored = true) : (w.server, w.shnum) ∈ storedSlots arrivals := by
  simp only [storedSlots, List.mem_map, List.mem_filter]
  exact ⟨(w, r), ⟨h, hs⟩, rfl⟩

/-! #### `update_goal` -/

theorem placeHomeless_keeps (servers : List Nat) (hl : List Nat) (i : Nat) (goal : List (Nat × Nat)) (x : Nat × Nat)
    (h : x ∈ goal) : x ∈ placeHomeless servers hl i goal := by
  induction hl generalizing i goal with
  | nil => exact h
  | cons sh rest ih =>
    simp only [placeHomeless]
    exact ih _ _ ((mem_setAdd _ _ _).mpr (Or.inl h))

theorem placeHomeless_places (servers : List Nat) (hl : List Nat) (i : Nat) (goal : List (Nat × Nat)) (sh : Nat)
    (h : sh ∈ hl) : ∃ srv, (srv, sh) ∈ placeHomeless servers hl i goal := by
  induction hl generalizing i goal with
  | nil => simp at h
  | cons a rest ih =>
    simp only [placeHomeless]
    rcases List.mem_cons.mp h with rfl | h
    · exact ⟨servers.getD i 0, placeHomeless_keeps _ _ _ _ _ ((mem_setAdd _ _ _).mpr (Or.inr rfl))⟩
    · exact ih _ _ h

/-- `update_goal` gives every share number below `total_shares` a home (or raises) -/
theorem updateGoal_covers (goal : List (Nat × Nat)) (bad : List Nat) (total : Nat) (full : List (Nat × Bool))
    (g : List (Nat × Nat)) (h : updateGoal goal bad total full = some g) (sh : Nat) (hsh : sh < total) :
    ∃ srv, (srv, sh) ∈ g := by
  unfold updateGoal at h
  simp only at h
  by_cases hin : (goal.filter (fun e => e.1 ∉ bad)).any (fun e => e.2 == sh) = true
  · obtain ⟨e, he, heq⟩ := List.any_eq_true.mp hin
    have hes : e = (e.1, sh) := by
      obtain ⟨a, b⟩ := e
      simp only [beq_iff_eq] at heq
      simp [heq]
    split at h
    · simp only [Option.some.injEq] at h; subst h; exact ⟨e.1, by rw [← hes]; exact he⟩
    · split at h
      · simp at h
      · simp only [Option.some.injEq] at h; subst h
        exact ⟨e.1, placeHomeless_keeps _ _ _ _ _ (by rw [← hes]; exact he)⟩
  · have hhome : sh ∈ (List.range total).filter
        (fun sh => !((goal.filter (fun e => e.1 ∉ bad)).any (fun e => e.2 == sh))) := by
      rw [List.mem_filter]
      refine ⟨List.mem_range.mpr hsh, ?_⟩
      cases hc : (goal.filter (fun e => e.1 ∉ bad)).any (fun e => e.2 == sh)
      · rfl
      · exact absurd hc hin
    split at h
    · rename_i hempty
      simp only [List.isEmpty_iff] at hempty
      rw [hempty] at hhome; simp at hhome
    · split at h
      · simp at h
      · simp only [Option.some.injEq] at h; subst h
        exact placeHomeless_places _ _ _ _ _ hhome

theorem mem_insertEntry (e x : Nat × Nat × Nat) (l : List (Nat × Nat × Nat)) :
    x ∈ insertEntry e l ↔ x = e ∨ x ∈ l := by
  induction l with
  | nil => simp [insertEntry]
  | cons f l ih =>
    simp only [insertEntry]
    split
    · simp
    · simp only [List.mem_cons, ih]
      constructor
      · rintro (h | h | h)
        · exact Or.inr (Or.inl h)
        · exact Or.inl h
        · exact Or.inr (Or.inr h)
      · rintro (h | h | h)
        · exact Or.inr (Or.inl h)
        · exact Or.inl h
        · exact Or.inr (Or.inr h)

theorem mem_foldr_insertEntry (l : List (Nat × Nat × Nat)) (x : Nat × Nat × Nat) :
    x ∈ l.foldr insertEntry [] ↔ x ∈ l := by
  induction l with
  | nil => simp
  | cons a l ih => simp only [List.foldr_cons, mem_insertEntry, ih, List.mem_cons]

/-- a share placed by the round robin goes to a server of the list (the index never leaves it) -/
theorem placeHomeless_from (servers : List Nat) (hl : List Nat) (i : Nat) (goal : List (Nat × Nat)) (x : Nat × Nat)
    (hi : i < servers.length) (h : x ∈ placeHomeless servers hl i goal) : x ∈ goal ∨ x.1 ∈ servers := by
  induction hl generalizing i goal with
  | nil => exact Or.inl h
  | cons sh rest ih =>
    simp only [placeHomeless] at h
    have hi' : (if servers.length ≤ i + 1 then 0 else i + 1) < servers.length := by
      split <;> omega
    rcases ih _ _ hi' h with h1 | h1
    · rcases (mem_setAdd _ _ _).mp h1 with h2 | h2
      · exact Or.inl h2
      · right
        rw [h2]
        simp only [List.getD_eq_getElem?_getD, List.getElem?_eq_getElem hi, Option.getD_some]
        exact List.getElem_mem hi
    · exact Or.inr h1

/-- `update_goal` keeps no share on a bad server and places homeless shares only on servers of the permuted list
    that are not bad and may be uploaded to -/
theorem updateGoal_sound (goal : List (Nat × Nat)) (bad : List Nat) (total : Nat) (full : List (Nat × Bool))
    (g : List (Nat × Nat)) (h : updateGoal goal bad total full = some g) (x : Nat × Nat) (hx : x ∈ g) :
    x.1 ∉ bad ∧ (x ∈ goal ∨ (x.1, true) ∈ full) := by
  unfold updateGoal at h
  simp only at h
  have hgoal1 : ∀ y ∈ goal.filter (fun e => e.1 ∉ bad), y.1 ∉ bad ∧ y ∈ goal := by
    intro y hy
    simp only [List.mem_filter, decide_eq_true_eq] at hy
    exact ⟨hy.2, hy.1⟩
  split at h
  · simp only [Option.some.injEq] at h; subst h
    obtain ⟨h1, h2⟩ := hgoal1 x hx
    exact ⟨h1, Or.inl h2⟩
  · split at h
    · simp at h
    · rename_i hne
      simp only [Option.some.injEq] at h; subst h
      have hlen : 0 < ((List.foldr insertEntry [] (List.map
          (fun e => ((goal.filter (fun g => decide (g.1 ∉ bad))).filter (fun g => g.1 == e.1.1) |>.length, e.2, e.1.1))
          (List.filter (fun e => decide (e.1.1 ∉ bad) && e.1.2) full.zipIdx))).map (·.2.2)).length := by
        simp only [List.length_map]
        apply List.length_pos_iff.mpr
        intro hnil
        apply hne
        simp only [List.isEmpty_iff]
        simpa using hnil
      rcases placeHomeless_from _ _ 0 _ x (by simpa using hlen) hx with h1 | h1
      · obtain ⟨a, b⟩ := hgoal1 x (by simpa using h1)
        exact ⟨a, Or.inl b⟩
      · simp only [List.mem_map] at h1
        obtain ⟨e, he, hex⟩ := h1
        rw [mem_foldr_insertEntry] at he
        simp only [List.mem_map, List.mem_filter, Bool.and_eq_true, decide_eq_true_eq] at he
        obtain ⟨z, ⟨hz, hnb, hperm⟩, rfl⟩ := he
        simp only at hex
        have hzfull : z.1 ∈ full := by
          obtain ⟨⟨a, b⟩, idx⟩ := z
          exact (List.mem_zipIdx hz).2.2 ▸ List.getElem_mem _
        refine ⟨by rw [← hex]; exact hnb, Or.inr ?_⟩
        obtain ⟨⟨a, b⟩, idx⟩ := z
        simp only at hperm hex hnb hzfull
        subst hperm
        rw [← hex]; exact hzfull

end Tahoe.Mutable.Pub
