import Tahoe.Mutable.ServerMap
/-
Model of the decision logic of `allmydata/mutable/checker.py` (`MutableChecker._got_mapupdate_results`,
`_count_shares`, `_make_checker_results`) and `allmydata/mutable/repairer.py`
(`Repairer._got_full_servermap`) on top of the `ServerMap` model.  Mathlib-free, executable (driver
`Drv/C14.lean`).

Not modelled: report/summary strings, the `sharemap`/happiness figures, corrupt-share locators (verify
marks bad shares *in the servermap* — `mark_bad_share` removes them from `_known_shares` — so their
effect on health is already in the map handed to `_make_checker_results`).
`list(unrecoverable)[0]` (a set's first element) is modelled as the first unrecoverable version in map
order; it only feeds the counters of a file with no recoverable version.
-/
namespace Tahoe.Mutable.Check
open Tahoe.Mutable Tahoe.Mutable.ServerMap

structure Counters where
  good : Nat          -- count-shares-good
  needed : Nat        -- count-shares-needed
  expected : Nat      -- count-shares-expected
  goodHosts : Nat     -- count-good-share-hosts
  wrong : Nat         -- count-wrong-shares
  deriving DecidableEq, Repr

/-- `MutableChecker._count_shares` -/
def countShares (sm : ServerMap) (v : VerInfo) : Counters :=
  { good := sm.distinctShnums v, needed := v.k, expected := v.n,
    goodHosts := (sm.allServersForVersion v).length,
    wrong := ((sm.makeVersionmap.filter (fun e => e.1 ≠ v)).map (fun e => e.2.length)).sum }

structure CheckResult where
  healthy : Bool
  recoverable : Bool
  counters : Counters
  numRecoverable : Nat
  numUnrecoverable : Nat
  deriving Repr

/-- the three version-count tests of `_make_checker_results`: no unrecoverable version ("some versions are
    unrecoverable"), at least one recoverable ("no versions are recoverable"), not more than one ("multiple
    versions are recoverable") -/
def healthBase (sm : ServerMap) : Bool :=
  sm.unrecoverable.isEmpty && sm.recoverable.length != 0 && !(decide (1 < sm.recoverable.length))

/-- `MutableChecker._make_checker_results` (the fields that carry the health decision) -/
def makeCheckerResults (sm : ServerMap) : CheckResult :=
  match sm.bestRecoverable, sm.unrecoverable with
  | some best, _ =>
    { healthy := healthBase sm && !(decide ((countShares sm best).good < (countShares sm best).expected)),
      recoverable := true, counters := countShares sm best,
      numRecoverable := sm.recoverable.length, numUnrecoverable := sm.unrecoverable.length }
  | none, first :: _ =>
    { healthy := false, recoverable := !sm.recoverable.isEmpty, counters := countShares sm first,
      numRecoverable := sm.recoverable.length, numUnrecoverable := sm.unrecoverable.length }
  | none, [] =>
    { healthy := healthBase sm, recoverable := !sm.recoverable.isEmpty,
      counters := { good := 0, needed := 3, expected := 10, goodHosts := 0, wrong := 0 },
      numRecoverable := sm.recoverable.length, numUnrecoverable := sm.unrecoverable.length }

/-- `MutableChecker._got_mapupdate_results`: `need_repair` (before verification) -/
def needRepair (sm : ServerMap) : Bool :=
  let nrec := sm.recoverable.length
  !sm.unrecoverable.isEmpty || nrec != 1 ||
  (match (if nrec != 0 then sm.bestRecoverable else none) with
   | some best => decide (sm.distinctShnums best < best.n)
   | none => false)

/-- outcomes of `Repairer._got_full_servermap` -/
inductive RepairDecision
  | notRepairable                   -- no recoverable version: `RepairResults` with `successful = False`
  | mustForceNewer                  -- `MustForceRepairError` (unrecoverable newer versions)
  | mustForceMerge                  -- `MustForceRepairError` (multiple recoverable versions, same seqnum)
  | needWritecap                    -- `RepairRequiresWritecapError`
  | republish (v : VerInfo) (newSeq : Nat)   -- download `v`, `node.upload(contents, smap)` ⇒ seqnum `newSeq`
  deriving DecidableEq, Repr

def repairDecide (sm : ServerMap) (force haveWritekey : Bool) : RepairDecision :=
  match sm.bestRecoverable with
  | none => .notRepairable
  | some best =>
    if !sm.unrecoverableNewer.isEmpty && !force then .mustForceNewer
    else if sm.needsMerge && !force then .mustForceMerge
    else if !haveWritekey then .needWritecap
    else .republish best (newSeqnum (some sm))

/-- `MutableFileNode._get_version_from_servermap`, inner `_get_version(servermap, v)` (`mutable/filenode.py`): the
    version `download_version` / `get_readable_version` will read from the servermap they end up with (which is a
    *fresh MODE_READ survey* when the map handed in was made in another mode — e.g. the repairer's MODE_REPAIR
    map).  `none` = `UnrecoverableFileError("no recoverable versions")`.  A requested version that the map cannot
    recover is an error; it is never replaced by another version. -/
def getVersion (sm : ServerMap) (v : Option VerInfo) : Option VerInfo :=
  match v with
  | some v => if v ∈ sm.recoverable then some v else none
  | none => sm.bestRecoverable

/-- what `_verify_all_shares` does to the servermap before `_make_checker_results` reads it: `Retrieve(verify=True)`
    calls `servermap.mark_bad_share(server, shnum, checkstring)` for every share that fails a check -/
def afterVerify (sm : ServerMap) (bads : List (ShareKey × List Nat)) : ServerMap :=
  bads.foldl (fun m b => m.markBadShare b.1.1 b.1.2 b.2) sm

end Tahoe.Mutable.Check
