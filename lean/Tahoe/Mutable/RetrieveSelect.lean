/-
Which version a mutable read goes for, and which shares a Retrieve uses (C10, liveness clause).

  ServerMap.make_versionmap / recoverable_versions / best_recoverable_version   (mutable/servermap.py)
      shares are grouped by `verinfo` = (seqnum, root_hash, IV, segsize, datalength, k, N, prefix,
      offsets_tuple).  The offsets table is NOT covered by the signature, yet it is part of the
      version identity: a share whose offsets differ forms a "version" of its own.
      best = the largest recoverable verinfo in tuple order (seqnum first, offsets last).
  Retrieve._activate_enough_servers / _process_segment / _mark_bad_share          (mutable/retrieve.py)
      keep k readers active, always adding the lowest unused share numbers of `remaining_sharemap`;
      a share that fails validation is dropped (`dropSrv = false`, the code since /repo 280b4a6; before
      that, `dropSrv = true`: every other entry of the same server in `remaining_sharemap` went with
      it); readers that are already active stay.
  MutableFileNode._download_best_version                                           (mutable/filenode.py)
      one retry with a fresh, complete servermap after NotEnoughSharesError.

Deviations: verinfo is cut down to (seqnum, root hash, rest-of-prefix identity, offsets identity), the
identities being ranks in the tuple order; every share number of a version is held by one server
(`Retrieve.readers` keeps one reader per share number anyway); lists of shares are sorted by share
number; a share is `good` when every block of it validates against the signed root (Authentic.lean),
so one round of the loop stands for the rounds of all segments.  Mathlib-free.
-/
namespace Tahoe.RetrSel

structure MShare where
  shnum : Nat
  server : Nat
  seq : Nat
  root : Nat
  pre : Nat
  offs : Nat
  good : Bool
  deriving DecidableEq, Repr

abbrev VerInfo := Nat × Nat × Nat × Nat

def MShare.verinfo (s : MShare) : VerInfo := (s.seq, s.root, s.pre, s.offs)

/-- Python tuple order -/
def vlt (a b : VerInfo) : Bool :=
  a.1 < b.1 || (a.1 == b.1 && (a.2.1 < b.2.1 || (a.2.1 == b.2.1 && (a.2.2.1 < b.2.2.1 ||
    (a.2.2.1 == b.2.2.1 && a.2.2.2 < b.2.2.2)))))

def sharesOf (m : List MShare) (v : VerInfo) : List MShare := m.filter (fun s => s.verinfo == v)

/-- `len(set(shnum ...)) >= k` -/
def recoverable (k : Nat) (m : List MShare) (v : VerInfo) : Bool :=
  k ≤ ((sharesOf m v).map (·.shnum)).eraseDups.length

/-- `best_recoverable_version`: largest recoverable verinfo -/
def best (k : Nat) (m : List MShare) : Option VerInfo :=
  m.foldl (fun acc s =>
    if recoverable k m s.verinfo then
      match acc with
      | none => some s.verinfo
      | some b => if vlt b s.verinfo then some s.verinfo else some b
    else acc) none

inductive RRes
  | ok (used : List Nat)
  | fail
  deriving DecidableEq, Repr

/-- the Retrieve loop: `rem` = remaining_sharemap (sorted by share number), `act` = active readers -/
def retrLoop (dropSrv : Bool) (k : Nat) : Nat → List MShare → List MShare → RRes
  | 0, _, _ => .fail
  | fuel + 1, rem, act =>
    let need := k - act.length
    let cand := (rem.filter (fun s => !act.any (fun a => a.shnum == s.shnum))).take need
    if cand.length < need then .fail                       -- _raise_notenoughshareserror
    else
      let bad := cand.filter (fun s => !s.good)
      if bad.isEmpty then .ok ((act ++ cand).map (·.shnum))
      else
        let rem' := if dropSrv then rem.filter (fun s => !bad.any (fun b => b.server == s.server))
                    else rem.filter (fun s => !bad.any (fun b => b.shnum == s.shnum))
        retrLoop dropSrv k fuel rem' (act ++ cand.filter (·.good))

def retrieve (dropSrv : Bool) (k : Nat) (shares : List MShare) : RRes :=
  retrLoop dropSrv k (shares.length + 1) shares []

/-- one `get_best_readable_version` + `download_to_data` on a servermap -/
def readOnce (dropSrv : Bool) (k : Nat) (m : List MShare) : Option VerInfo :=
  match best k m with
  | none => none
  | some v => match retrieve dropSrv k (sharesOf m v) with
    | .ok _ => some v
    | .fail => none

/-- `_download_best_version`: first survey, then (after NotEnoughSharesError; an empty first answer
from `best` is UnrecoverableFileError and is not retried) once more on the complete map -/
def read (dropSrv : Bool) (k : Nat) (first full : List MShare) : Option VerInfo :=
  match best k first with
  | none => none
  | some _ => match readOnce dropSrv k first with
    | some v => some v
    | none => readOnce dropSrv k full

/-! ### the offsets tuple inside the version identity

`SDMFSlotWriteProxy._get_offsets_tuple`, `MDMFSlotWriteProxy._get_offsets_tuple` (layout.py) and
`ServermapUpdater._got_signature_one_share` (servermap.py) turn the offsets dict of a share into the
tuple that is the last component of verinfo (`MShare.offs` above stands for its rank).  The dicts of
the write proxies and of the read proxy hold the same entries in different insertion orders.  As
repaired (canonical = true) the tuple is `tuple(sorted(offsets.items()))`; before, it was the
insertion order.  Fields are numbered by the alphabetical rank of their names, so `pairLe` is
Python's order on `(name, value)` pairs. -/

abbrev Offsets := List (Nat × Nat)

def pairLe (a b : Nat × Nat) : Bool := a.1 < b.1 || (a.1 == b.1 && a.2 ≤ b.2)

def offsetsTuple (canonical : Bool) (d : Offsets) : Offsets :=
  if canonical then d.mergeSort pairLe else d

end Tahoe.RetrSel
