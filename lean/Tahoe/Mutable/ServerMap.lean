/-
Model of `allmydata/mutable/servermap.py`: class `ServerMap` (the query functions) and the decision
function `ServermapUpdater._check_for_done` / `_send_more_queries`, plus the sequence-number choice of
`mutable/publish.py` (`Publish.publish` / `Publish.update`).  Mathlib-free, executable (driver
`Drv/C11.lean`).

Representation choices (deviations from the Python text, all checked by correspondence on sorted
outputs):
* a *verinfo* tuple `(seqnum, root_hash, IV, segsize, datalength, k, N, prefix, offsets_tuple)` is the
  structure `VerInfo`; byte strings are lists of byte values; `IV` is `none` for MDMF (Python `None`);
  `offsets_tuple` (a tuple of `(name, offset)` pairs, compared pair by pair, name first) is the flat list
  `[rank name₁, offset₁, rank name₂, offset₂, …]` with `rank` = position of the name in string order, so that
  list order = Python's tuple order; note that the MDMF write proxy and the read proxy list the names in
  different orders, so one version can occur under two verinfos in a real servermap.  Python's tuple comparison (used by `recoverable.sort()` and `max(recoverable_versions)`)
  is lexicographic; it is `VerInfo.le` = lexicographic order of `VerInfo.key`.
* servers are numbers; `_known_shares` (dict `(server, shnum) ↦ (verinfo, timestamp)`) is an association
  list with dict semantics (`dictSet` replaces in place, else appends).  Timestamps are dropped: no
  query function looks at them.
* `make_versionmap` (a `DictOfSets` built by one pass over `_known_shares`) is defined directly as
  "the distinct verinfos, each with the `(shnum, server)` pairs that carry it"; Python sets are
  unordered, the harness sorts.
* `recoverable.sort(); recoverable[-1]` is modelled as a left fold keeping the maximum.
-/
namespace Tahoe.Mutable

/-! ### small list utilities -/

/-- the distinct elements (membership and count are what matter; Python sets are unordered) -/
def dedup {α : Type} [DecidableEq α] : List α → List α
  | [] => []
  | a :: l => if a ∈ l then dedup l else a :: dedup l

/-- Python `d[k] = v` on an insertion-ordered dict -/
def dictSet {κ β : Type} [DecidableEq κ] : List (κ × β) → κ → β → List (κ × β)
  | [], k, v => [(k, v)]
  | (k', v') :: l, k, v => if k' = k then (k, v) :: l else (k', v') :: dictSet l k v

/-- Python `d.pop(k, None)` -/
def dictPop {κ β : Type} [DecidableEq κ] (l : List (κ × β)) (k : κ) : List (κ × β) :=
  l.filter (fun e => e.1 ≠ k)

def dictGet {κ β : Type} [DecidableEq κ] : List (κ × β) → κ → Option β
  | [], _ => none
  | (k', v') :: l, k => if k' = k then some v' else dictGet l k

def setAdd {α : Type} [DecidableEq α] (l : List α) (a : α) : List α := if a ∈ l then l else l ++ [a]

/-! ### verinfo -/

structure VerInfo where
  seqnum : Nat
  rootHash : List Nat
  iv : Option (List Nat)
  segsize : Nat
  datalength : Nat
  k : Nat
  n : Nat
  pfx : List Nat
  offsets : List Nat
  deriving DecidableEq, Repr

/-- the tuple as a list of comparable fields: Python compares tuples field by field -/
def VerInfo.key (v : VerInfo) : List (List Nat) :=
  [[v.seqnum], v.rootHash, (match v.iv with | none => [0] | some b => 1 :: b),
   [v.segsize], [v.datalength], [v.k], [v.n], v.pfx, v.offsets]

/-- Python `a <= b` on verinfo tuples -/
def VerInfo.le (a b : VerInfo) : Prop := a.key ≤ b.key

instance (a b : VerInfo) : Decidable (VerInfo.le a b) := by unfold VerInfo.le; infer_instance

abbrev ShareKey := Nat × Nat          -- (server, shnum)

structure ServerMap where
  known : List (ShareKey × VerInfo) := []        -- `_known_shares`
  bad : List (ShareKey × List Nat) := []         -- `_bad_shares`: (server, shnum) ↦ checkstring
  reachable : List Nat := []
  unreachable : List Nat := []
  deriving Repr

namespace ServerMap

/-- `ServerMap.add_new_share` -/
def addNewShare (sm : ServerMap) (server shnum : Nat) (v : VerInfo) : ServerMap :=
  { sm with bad := dictPop sm.bad (server, shnum), known := dictSet sm.known (server, shnum) v }

/-- `ServerMap.mark_bad_share` -/
def markBadShare (sm : ServerMap) (server shnum : Nat) (cs : List Nat) : ServerMap :=
  { sm with bad := dictSet sm.bad (server, shnum) cs, known := dictPop sm.known (server, shnum) }

def markReachable (sm : ServerMap) (s : Nat) : ServerMap := { sm with reachable := setAdd sm.reachable s }
def markUnreachable (sm : ServerMap) (s : Nat) : ServerMap := { sm with unreachable := setAdd sm.unreachable s }

/-- the distinct verinfos present (keys of `make_versionmap()`) -/
def versions (sm : ServerMap) : List VerInfo := dedup (sm.known.map (·.2))

/-- `make_versionmap()[v]` without timestamps: the `(shnum, server)` pairs carrying `v` -/
def sharesOf (sm : ServerMap) (v : VerInfo) : List (Nat × Nat) :=
  (sm.known.filter (fun e => e.2 = v)).map (fun e => (e.1.2, e.1.1))

/-- `make_versionmap` -/
def makeVersionmap (sm : ServerMap) : List (VerInfo × List (Nat × Nat)) :=
  (versions sm).map (fun v => (v, sharesOf sm v))

/-- `len(set(shnum for (shnum, server, ts) in shares))` -/
def distinctShnums (sm : ServerMap) (v : VerInfo) : Nat := (dedup ((sharesOf sm v).map (·.1))).length

/-- `shares_available`: verinfo ↦ (num_distinct_shares, k, N) -/
def sharesAvailable (sm : ServerMap) : List (VerInfo × (Nat × Nat × Nat)) :=
  (versions sm).map (fun v => (v, (distinctShnums sm v, v.k, v.n)))

/-- `highest_seqnum`: `max([verinfo[0] for verinfo in available] + [0])` -/
def highestSeqnum (sm : ServerMap) : Nat :=
  ((sharesAvailable sm).map (fun e => e.1.seqnum)).foldl max 0

/-- `recoverable_versions`: `len(shnums) >= k` -/
def recoverable (sm : ServerMap) : List VerInfo := (versions sm).filter (fun v => decide (v.k ≤ distinctShnums sm v))

/-- `unrecoverable_versions`: `len(shnums) < k` -/
def unrecoverable (sm : ServerMap) : List VerInfo := (versions sm).filter (fun v => decide (distinctShnums sm v < v.k))

/-- maximum under the tuple order (`sort()` then `[-1]`; also `max(set)`) -/
def maxVer : List VerInfo → Option VerInfo
  | [] => none
  | v :: l => some (l.foldl (fun m w => if VerInfo.le m w then w else m) v)

/-- `best_recoverable_version` -/
def bestRecoverable (sm : ServerMap) : Option VerInfo := maxVer (recoverable sm)

/-- `unrecoverable_newer_versions`: verinfo ↦ (found, k) for unrecoverable versions whose seqnum is above
    every recoverable one (`highest_recoverable_seqnum` starts at -1) -/
def unrecoverableNewer (sm : ServerMap) : List (VerInfo × (Nat × Nat)) :=
  let hi : Int := ((recoverable sm).map (fun v => (v.seqnum : Int))).foldl max (-1)
  ((unrecoverable sm).filter (fun v => decide (hi < (v.seqnum : Int)))).map
    (fun v => (v, (distinctShnums sm v, v.k)))

/-- `needs_merge`: two recoverable versions share a seqnum -/
def needsMerge (sm : ServerMap) : Bool :=
  let seqs := (recoverable sm).map (·.seqnum)
  seqs.any (fun s => decide (1 < seqs.count s))

/-- `all_servers` -/
def allServers (sm : ServerMap) : List Nat := dedup (sm.known.map (·.1.1))

/-- `all_servers_for_version` -/
def allServersForVersion (sm : ServerMap) (v : VerInfo) : List Nat :=
  dedup ((sm.known.filter (fun e => e.2 = v)).map (·.1.1))

/-- `version_on_server` -/
def versionOnServer (sm : ServerMap) (server shnum : Nat) : Option VerInfo := dictGet sm.known (server, shnum)

/-- `make_sharemap`: shnum ↦ servers -/
def makeSharemap (sm : ServerMap) : List (Nat × List Nat) :=
  (dedup (sm.known.map (·.1.2))).map (fun sh => (sh, (sm.known.filter (fun e => e.1.2 = sh)).map (·.1.1)))

end ServerMap

/-! ### `Publish.publish` / `Publish.update`: the new sequence number -/

/-- `self._new_seqnum`: `highest_seqnum() + 1` when a servermap is given, `1` for the initial publish
    (`servermap is None`; a `ServerMap` instance is always truthy) -/
def newSeqnum : Option ServerMap → Nat
  | none => 1
  | some sm => sm.highestSeqnum + 1

/-! ### `ServermapUpdater._check_for_done` -/

inductive Mode | read | write | check | anything | repair
  deriving DecidableEq, Repr

/-- the attributes of `ServermapUpdater` that `_check_for_done` and `_send_more_queries` look at -/
structure Upd where
  mode : Mode
  running : Bool
  mustQuery : List Nat           -- `_must_query`
  outstanding : List Nat         -- `_queries_outstanding`
  extra : List Nat               -- `extra_servers` (ordered; servers are popped from the front)
  completed : Nat                -- `_queries_completed`
  numToQuery : Nat               -- `num_servers_to_query`
  epsilon : Nat                  -- `EPSILON`
  needPrivkey : Bool             -- `_need_privkey`
  full : List Nat                -- `full_serverlist`
  bad : List Nat                 -- `_bad_servers`
  empty : List Nat               -- `_empty_servers`
  withShares : List Nat          -- `_servers_with_shares`
  sm : ServerMap
  deriving Repr

/-- exit paths of `_check_for_done`: `return` (keep waiting), `return self._done()`,
    `return self._send_more_queries(n)` -/
inductive Decision | wait | done | more (n : Nat)
  deriving DecidableEq, Repr

def MAX_IN_FLIGHT : Nat := 5

/-- state of the MODE_WRITE scan over `full_serverlist` -/
structure Scan where
  lastFound : Option Nat := none          -- `last_found` (-1 = none)
  lastNotResponded : Option Nat := none   -- `last_not_responded`
  numNotResponded : Nat := 0
  numNotFound : Nat := 0
  foundBoundary : Bool := false
  deriving Repr

/-- the `for i, server in enumerate(self.full_serverlist)` loop (with its `break`) -/
def scanLoop (u : Upd) : Nat → List Nat → Scan → Scan
  | _, [], s => s
  | i, server :: rest, s =>
    if server ∈ u.bad then scanLoop u (i + 1) rest s
    else if server ∈ u.empty then
      if s.lastFound.isSome then
        let nf := s.numNotFound + 1
        if u.epsilon ≤ nf then { s with numNotFound := nf, foundBoundary := true }     -- break
        else scanLoop u (i + 1) rest { s with numNotFound := nf }
      else scanLoop u (i + 1) rest s
    else if server ∈ u.withShares then
      scanLoop u (i + 1) rest { s with lastFound := some i, numNotFound := 0 }
    else
      scanLoop u (i + 1) rest { s with lastNotResponded := some i, numNotResponded := s.numNotResponded + 1 }

def checkForDone (u : Upd) : Decision :=
  if !u.running then .wait
  else if !u.mustQuery.isEmpty then .wait
  else if u.outstanding.isEmpty && u.extra.isEmpty then .done
  else
    let rec_ := u.sm.recoverable
    let unrec := u.sm.unrecoverable
    if u.mode = .anything && !rec_.isEmpty then .done
    else if u.mode = .check || u.mode = .repair then .done
    else if u.mode = .read then
      if u.completed < u.numToQuery then .more MAX_IN_FLIGHT
      else match ServerMap.maxVer rec_ with
        | none => .more MAX_IN_FLIGHT                         -- `if not recoverable_versions`
        | some hi =>
          if unrec.any (fun v => decide (hi.seqnum < v.seqnum)) then .more MAX_IN_FLIGHT
          else .done
    else if u.mode = .write then
      if rec_.isEmpty then .more MAX_IN_FLIGHT
      else
        let s := scanLoop u 0 u.full {}
        if s.foundBoundary then
          if s.lastNotResponded.isNone then
            if u.needPrivkey then .more MAX_IN_FLIGHT else .done
          else .more s.numNotResponded
        else .more MAX_IN_FLIGHT
    else .more MAX_IN_FLIGHT

/-- `_send_more_queries(num_outstanding)`: the servers popped from `extra_servers` (queried, hence added
    to `_queries_outstanding`) and the remaining `extra_servers` -/
def sendMore : Nat → Nat → List Nat → List Nat × List Nat
  | _, _, [] => ([], [])
  | active, num, s :: rest =>
    if num ≤ active then ([], s :: rest)
    else let r := sendMore (active + 1) num rest; (s :: r.1, r.2)

/-- one `_check_for_done` call: the decision, the servers newly queried, the new state -/
def stepCheck (u : Upd) : Decision × List Nat × Upd :=
  match checkForDone u with
  | .wait => (.wait, [], u)
  | .done => (.done, [], { u with running := false })
  | .more n =>
    let r := sendMore u.outstanding.length n u.extra
    (.more n, r.1, { u with extra := r.2, outstanding := r.1.foldl setAdd u.outstanding })

end Tahoe.Mutable
