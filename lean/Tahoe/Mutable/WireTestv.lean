/-
The glue between the mutable write proxies and the storage server's test-and-set, which no other model
covers: `allmydata/storage_client.py` `_StorageServer.slot_testv_and_readv_and_writev` turns each test vector
`(offset, length, specimen)` of the proxies into the Foolscap 4-tuple `(offset, length, b"eq", specimen)`
(`_HTTPStorageServer` builds `TestVector(offset, size, specimen)` from the same three fields), and
`allmydata/storage/mutable.py` evaluates it: `MutableShareFile.check_testv` reads `length` bytes at `offset`
and compares them with the specimen (`testv_compare`, operator `eq`); a share that does not exist is an
`EmptyShare`, which reads as `b""` whatever the vector asks for.
The write proxies' vector for a share they place for the first time is `(0, 1, b"")` ("reading one byte must
yield nothing").  Mathlib-free; driver `Drv/C47.lean` (`testv` lines).
-/
namespace Tahoe.Mutable.Wire

structure Testv where
  offset : Nat
  length : Nat
  specimen : List Nat
  deriving DecidableEq, Repr

/-- the 4-tuple on the wire (the operator is always `eq`) -/
def wireOf (t : Testv) : Nat × Nat × String × List Nat := (t.offset, t.length, "eq", t.specimen)

/-- the storage server's verdict on one wire vector; `share = none`: no such share (`EmptyShare`) -/
def passes (share : Option (List Nat)) (w : Nat × Nat × String × List Nat) : Bool :=
  match share with
  | none => ([] : List Nat) == w.2.2.2
  | some data => (data.drop w.1).take w.2.1 == w.2.2.2

/-- `SDMFSlotWriteProxy.finish_publishing` / `MDMFSlotWriteProxy._write`: `self._testvs.append((0, 1, b""))` -/
def mustNotExist : Testv := ⟨0, 1, []⟩

/-- a checkstring vector `(0, len(checkstring), checkstring)` -/
def holds (cs : List Nat) : Testv := ⟨0, cs.length, cs⟩

end Tahoe.Mutable.Wire
