/-
C17 model, part 3: the long-lived client-side objects as state machines over call HISTORIES.

`mutable/filenode.py MutableFileNode` keeps `_secret_holder`, `_writekey`, `_storage_index` (set by
`init_from_cap`, which may be called again with another cap) and answers `get_write_enabler(server)`,
`get_renewal_secret(server)`, `get_cancel_secret(server)`; as written, the getters read those attributes and
the server's seeds and write nothing.  `immutable/checker.py Checker.__init__` computes the file renewal /
cancel secrets ONCE and keeps them (`self.file_renewal_secret`, `self.file_cancel_secret`);
`_get_renewal_secret(seed)` / `_get_cancel_secret(seed)` hash the kept value with the seed.

The point of modelling them as machines (state, operation) → (state, answer) is to be able to STATE that an
answer does not depend on the calls made before it (a per-server memo, as in seeded change C17-a, would be a
different `step`); the harness runs the same histories on the real objects.
-/
import Tahoe.Crypto.Use

namespace Tahoe.Crypto.Objects
open Tahoe.Crypto.Derive Tahoe.Crypto.Use

/-- the attributes of a `MutableFileNode` that the secret getters read -/
structure NodeObj where
  leaseSecret : List UInt8      -- `self._secret_holder._lease_secret`
  writekey : List UInt8         -- `self._writekey`
  storageIndex : List UInt8     -- `self._storage_index`
  deriving DecidableEq, Repr

inductive NodeOp
  | initFromCap (writekey : List UInt8)     -- `init_from_cap(WriteableSSKFileURI(writekey, …))`
  | getWriteEnabler (s : Server)
  | getRenewalSecret (s : Server)
  | getCancelSecret (s : Server)
  deriving DecidableEq, Repr

/-- `none` = the getter's `assert len(seed) == 20` (or the hash helper's) fired; `init_from_cap` answers `some []` -/
abbrev Ans := Option (List UInt8)

/-- `MutableFileNode(…, secret_holder, …).init_from_cap(cap)` -/
def NodeObj.new (leaseSecret writekey : List UInt8) : NodeObj :=
  ⟨leaseSecret, writekey, (mkWriteCap writekey []).storageIndex⟩

def NodeObj.toMutNode (nd : NodeObj) : MutNode := ⟨nd.leaseSecret, nd.writekey, nd.storageIndex⟩

/-- one call on the object: new attribute values and the returned value -/
def NodeObj.step (nd : NodeObj) : NodeOp → NodeObj × Ans
  | .initFromCap wk => (NodeObj.new nd.leaseSecret wk, some [])
  | .getWriteEnabler s => (nd, nd.toMutNode.getWriteEnabler s)
  | .getRenewalSecret s => (nd, nd.toMutNode.getRenewalSecret s)
  | .getCancelSecret s => (nd, nd.toMutNode.getCancelSecret s)

/-- a whole call history: final object and the answers in order -/
def NodeObj.run (nd : NodeObj) : List NodeOp → NodeObj × List Ans
  | [] => (nd, [])
  | op :: rest =>
    let r := nd.step op
    let rr := NodeObj.run r.1 rest
    (rr.1, r.2 :: rr.2)

/-- `Checker(verifycap, servers, verify, add_lease, secret_holder, monitor)`: file secrets computed once -/
structure CheckerObj where
  fileRenewalSecret : List UInt8
  fileCancelSecret : List UInt8
  deriving DecidableEq, Repr

def CheckerObj.new (leaseSecret si : List UInt8) : CheckerObj :=
  ⟨fileRenewalSecretHash (myRenewalSecretHash leaseSecret) si, fileCancelSecretHash (myCancelSecretHash leaseSecret) si⟩

inductive CheckerOp
  | getRenewalSecret (seed : List UInt8)
  | getCancelSecret (seed : List UInt8)
  deriving DecidableEq, Repr

def CheckerObj.step (c : CheckerObj) : CheckerOp → CheckerObj × Ans
  | .getRenewalSecret seed => (c, bucketRenewalSecretHash c.fileRenewalSecret seed)
  | .getCancelSecret seed => (c, bucketCancelSecretHash c.fileCancelSecret seed)

def CheckerObj.run (c : CheckerObj) : List CheckerOp → CheckerObj × List Ans
  | [] => (c, [])
  | op :: rest =>
    let r := c.step op
    let rr := CheckerObj.run r.1 rest
    (rr.1, r.2 :: rr.2)

end Tahoe.Crypto.Objects
