/-
Helper lemmas for C17 (property theorems are in `Tahoe/Props/C17.lean`).
-/
import Tahoe.Crypto.Derive

namespace Tahoe.Crypto.Derive
open Tahoe.Base.Sha256 Tahoe.Base.NetstringEnc Tahoe.Generated

/-- ASCII bytes of a string literal (used to write documented tag strings in theorem statements) -/
def ascii (s : String) : List UInt8 := s.toList.map (fun c => UInt8.ofNat c.toNat)

/-- bytes as a (latin-1) string; only used to compare a tag constant with a string literal cheaply -/
def asString (l : List UInt8) : String := String.ofList (l.map (fun b => Char.ofNat b.toNat))

theorem ascii_asString (l : List UInt8) : ascii (asString l) = l := by
  simp only [ascii, asString, String.toList_ofList, List.map_map]
  conv => rhs; rw [← List.map_id l]
  apply List.map_congr_left
  intro b _
  simp only [Function.comp, id]
  have hb : b.toNat < 256 := b.toNat_lt
  have : (Char.ofNat b.toNat).toNat = b.toNat := by
    have hv : b.toNat.isValidChar := Or.inl (by omega)
    rw [Char.ofNat, dif_pos hv]
    simp [Char.ofNatAux, Char.toNat]
  rw [this]; exact UInt8.ofNat_toNat

/-- `c17_pin`: prove `TAG = ascii "literal"` by comparing `asString TAG` with the literal (cheap for the
    kernel: no UTF-8 decoding of the literal) -/
macro "c17_pin" : tactic =>
  `(tactic| (refine Eq.trans (ascii_asString _).symm (congrArg ascii ?_); rfl))

/-! ### truncate -/

theorem truncate_none (h : List UInt8) : truncate none h = h := rfl

theorem truncate_pos (n : Nat) (h : List UInt8) : truncate (some (Int.ofNat (n + 1))) h = h.take (n + 1) := rfl

theorem truncate_16 (h : List UInt8) : truncate (some 16) h = h.take 16 := rfl

theorem length_take_sha256d_16 (m : List UInt8) : ((sha256d m).take 16).length = 16 := by
  rw [List.length_take, sha256d_length]; rfl

/-! ### eval = truncate ∘ sha256d ∘ pre -/

theorem eval_eq (d : Deriv) : d.eval = d.pre.map (fun p => truncate d.trunc (sha256d p)) := by
  cases d <;>
    simp only [Deriv.eval, Deriv.pre, Deriv.tag, Deriv.rest, Deriv.trunc, Deriv.kind, Kind.fixedTag?,
      Option.map_some, storageIndexHash, blockHash, uriExtensionHash, plaintextHash, crypttextHash,
      crypttextSegmentHash, plaintextSegmentHash, backupdbDirhash, convergenceHash, myRenewalSecretHash,
      myCancelSecretHash, fileRenewalSecretHash, fileCancelSecretHash, bucketRenewalSecretHash,
      bucketCancelSecretHash, sskWritekeyHash, sskWriteEnablerMasterHash, sskWriteEnablerHash,
      sskPubkeyFingerprintHash, sskReadkeyHash, sskReadkeyDataHash, sskStorageIndexHash,
      mutableRwcapKeyHash, mutableRwcapSaltHash, taggedHash, taggedPairHash, taggedPre, taggedPairPre,
      Option.map_map, Function.comp_def]
  all_goals (try (split <;> simp))

/-! ### tags -/

/-- the module's tag constants are pairwise distinct -/
theorem fixedTag_inj (k1 k2 : Kind) (t : List UInt8)
    (h1 : k1.fixedTag? = some t) (h2 : k2.fixedTag? = some t) : k1 = k2 := by
  cases k1 <;> cases k2 <;>
    first
    | rfl
    | (simp only [Kind.fixedTag?, reduceCtorEq] at h1; done)
    | (simp only [Kind.fixedTag?, reduceCtorEq] at h2; done)
    | (have h := h1.trans h2.symm
       simp only [Kind.fixedTag?, Option.some.injEq] at h
       exact absurd h (by decide))

/-- for a kind with a constant tag, the tag fed to the hasher is that constant (when the code does not raise) -/
theorem tag_of_fixed {d : Deriv} {T t : List UInt8} (hT : d.kind.fixedTag? = some T) (ht : d.tag = some t) :
    t = T := by
  cases d <;> simp only [Deriv.kind, Kind.fixedTag?, reduceCtorEq] at hT <;>
    simp only [Deriv.tag, Deriv.kind, Kind.fixedTag?] at ht
  all_goals first
    | (rw [hT] at ht; exact (Option.some.inj ht).symm)
    | (split at ht
       · rw [← Option.some.inj hT]; exact (Option.some.inj ht).symm
       · exact absurd ht (by simp))

/-- the kinds without a constant tag -/
theorem nonfixed_cases {d : Deriv} (h : d.kind.fixedTag? = none) :
    (∃ k n s data c, d = .convergence k n s data c) ∨ (∃ s, d = .clientRenewal s) ∨ (∃ s, d = .clientCancel s) := by
  cases d <;> simp only [Deriv.kind, Kind.fixedTag?, reduceCtorEq] at h
  · exact Or.inl ⟨_, _, _, _, _, rfl⟩
  · exact Or.inr (Or.inl ⟨_, rfl⟩)
  · exact Or.inr (Or.inr ⟨_, rfl⟩)

/-- equal hasher inputs have equal tags and equal remainders (netstring unique decodability) -/
theorem pre_eq_split {d1 d2 : Deriv} {p : List UInt8} (h1 : d1.pre = some p) (h2 : d2.pre = some p) :
    ∃ t, d1.tag = some t ∧ d2.tag = some t ∧ d1.rest = d2.rest := by
  simp only [Deriv.pre] at h1 h2
  match ht1 : d1.tag, ht2 : d2.tag with
  | none, _ => rw [ht1] at h1; simp at h1
  | some _, none => rw [ht2] at h2; simp at h2
  | some t1, some t2 =>
    rw [ht1] at h1; rw [ht2] at h2
    simp only [Option.map_some, Option.some.injEq] at h1 h2
    obtain ⟨ht, hr⟩ := netstring_append_inj (h1.trans h2.symm)
    exact ⟨t1, rfl, by rw [ht], hr⟩

theorem convTag_eq {k n s : Int} {c t : List UInt8} (h : convergenceHasherTag k n s c = some t) :
    ∃ x, t = Hashutil.CONVERGENT_ENCRYPTION_TAG ++ x := by
  simp only [convergenceHasherTag] at h
  split at h; · simp at h
  split at h; · simp at h
  split at h; · simp at h
  exact ⟨_, (Option.some.inj h).symm⟩

/-- (A) the computed convergence tag is none of the constant tags: none of them extends the prefix
    `allmydata_immutable_content_to_key_with_added_secret_v1+` -/
theorem convTag_not_fixed {k n s : Int} {c t : List UInt8} (h : convergenceHasherTag k n s c = some t)
    (k2 : Kind) (h2 : k2.fixedTag? = some t) : False := by
  obtain ⟨x, hx⟩ := convTag_eq h
  have hp : Hashutil.CONVERGENT_ENCRYPTION_TAG <+: t := hx ▸ List.prefix_append _ _
  have hb : Hashutil.CONVERGENT_ENCRYPTION_TAG.isPrefixOf t = true := List.isPrefixOf_iff_prefix.mpr hp
  cases k2 <;> simp only [Kind.fixedTag?, reduceCtorEq, Option.some.injEq] at h2 <;>
    (subst h2; exact absurd hb (by decide))

/-- (B) the computed convergence tag is at least 56 bytes long -/
theorem convTag_length {k n s : Int} {c t : List UInt8} (h : convergenceHasherTag k n s c = some t) :
    56 ≤ t.length := by
  obtain ⟨x, hx⟩ := convTag_eq h
  have : Hashutil.CONVERGENT_ENCRYPTION_TAG.length = 56 := by decide
  rw [hx, List.length_append, this]; omega

/-- (C) the only constant tag of length 32 is FILE_RENEWAL_TAG -/
theorem fixed_len32 {k : Kind} {t : List UInt8} (h : k.fixedTag? = some t) (hl : t.length = 32) :
    k = .fileRenewal := by
  cases k <;> simp only [Kind.fixedTag?, reduceCtorEq, Option.some.injEq] at h <;>
    first
    | rfl
    | (subst h; exact absurd hl (by decide))

/-- (D) the remainder of a file-renewal derivation starts with a decimal digit -/
theorem rest_fileRenewal_head {d : Deriv} (h : d.kind = .fileRenewal) :
    ∃ x r, d.rest = x :: r ∧ 48 ≤ x.toNat ∧ x.toNat ≤ 57 := by
  cases d <;> simp only [Deriv.kind, reduceCtorEq] at h
  exact netstring_head_digit _ _

theorem client_tag_head_not_digit {x : UInt8} {r : List UInt8}
    (h : Hashutil.CLIENT_RENEWAL_TAG = x :: r ∨ Hashutil.CLIENT_CANCEL_TAG = x :: r)
    (hd : 48 ≤ x.toNat ∧ x.toNat ≤ 57) : False := by
  rcases h with h | h
  · simp only [Hashutil.CLIENT_RENEWAL_TAG, List.cons.injEq] at h
    rw [← h.1] at hd; revert hd; decide
  · simp only [Hashutil.CLIENT_CANCEL_TAG, List.cons.injEq] at h
    rw [← h.1] at hd; revert hd; decide

/-- a client-secret derivation (secret of the documented 32 bytes in the tag position) never feeds the
    hasher the same bytes as a derivation of another kind -/
theorem sep_client {d2 : Deriv} {s t : List UInt8} (crt : List UInt8)
    (hcrt : crt = Hashutil.CLIENT_RENEWAL_TAG ∨ crt = Hashutil.CLIENT_CANCEL_TAG)
    (hs : s.length = 32) (hst : s = t) (w2 : d2.WellFormed)
    (hconv : d2.kind ≠ .convergence → d2.kind.fixedTag? = none →
      (∃ s', d2 = .clientRenewal s') ∨ (∃ s', d2 = .clientCancel s'))
    (hother : ∀ s', d2 = .clientRenewal s' ∨ d2 = .clientCancel s' → d2.rest ≠ crt)
    (ht2 : d2.tag = some t) (hr : crt = d2.rest) : False := by
  subst hst
  match hf : d2.kind.fixedTag? with
  | some T =>
    have := tag_of_fixed hf ht2; subst this
    have hk2 := fixed_len32 hf hs
    obtain ⟨x, r, hxr, hd⟩ := rest_fileRenewal_head hk2
    rw [hxr] at hr
    rcases hcrt with h | h <;> rw [h] at hr
    · exact client_tag_head_not_digit (Or.inl hr) hd
    · exact client_tag_head_not_digit (Or.inr hr) hd
  | none =>
    by_cases hc : d2.kind = .convergence
    · cases d2 <;> simp only [Deriv.kind, reduceCtorEq] at hc
      simp only [Deriv.tag] at ht2
      have := convTag_length ht2
      omega
    · rcases hconv hc hf with ⟨s', rfl⟩ | ⟨s', rfl⟩
      · exact hother s' (Or.inl rfl) hr.symm
      · exact hother s' (Or.inr rfl) hr.symm

theorem sep_nonfixed {d1 d2 : Deriv} (w1 : d1.WellFormed) (w2 : d2.WellFormed)
    (hn : d1.kind.fixedTag? = none) (hk : d1.kind ≠ d2.kind) {t : List UInt8}
    (ht1 : d1.tag = some t) (ht2 : d2.tag = some t) (hr : d1.rest = d2.rest) : False := by
  have hconv2 : d2.kind ≠ .convergence → d2.kind.fixedTag? = none →
      (∃ s', d2 = .clientRenewal s') ∨ (∃ s', d2 = .clientCancel s') := by
    intro hc hf
    rcases nonfixed_cases hf with ⟨_, _, _, _, _, rfl⟩ | h | h
    · exact absurd rfl hc
    · exact Or.inl h
    · exact Or.inr h
  rcases nonfixed_cases hn with ⟨k, n, sg, data, c, rfl⟩ | ⟨s, rfl⟩ | ⟨s, rfl⟩
  · -- d1 is the convergence hasher
    simp only [Deriv.tag] at ht1
    match hf : d2.kind.fixedTag? with
    | some T =>
      have := tag_of_fixed hf ht2; subst this
      exact convTag_not_fixed ht1 _ hf
    | none =>
      rcases nonfixed_cases hf with ⟨_, _, _, _, _, rfl⟩ | ⟨s', rfl⟩ | ⟨s', rfl⟩
      · exact hk rfl
      · simp only [Deriv.tag, Option.some.injEq] at ht2
        have := convTag_length ht1
        simp only [Deriv.WellFormed] at w2
        subst ht2; omega
      · simp only [Deriv.tag, Option.some.injEq] at ht2
        have := convTag_length ht1
        simp only [Deriv.WellFormed] at w2
        subst ht2; omega
  · -- d1 = my_renewal_secret_hash(s)
    simp only [Deriv.tag, Option.some.injEq] at ht1
    simp only [Deriv.WellFormed] at w1
    refine sep_client Hashutil.CLIENT_RENEWAL_TAG (Or.inl rfl) w1 ht1 w2 hconv2 ?_ ht2 hr
    intro s' h
    rcases h with rfl | rfl
    · exact absurd rfl hk
    · simp only [Deriv.rest]; decide
  · -- d1 = my_cancel_secret_hash(s)
    simp only [Deriv.tag, Option.some.injEq] at ht1
    simp only [Deriv.WellFormed] at w1
    refine sep_client Hashutil.CLIENT_CANCEL_TAG (Or.inr rfl) w1 ht1 w2 hconv2 ?_ ht2 hr
    intro s' h
    rcases h with rfl | rfl
    · simp only [Deriv.rest]; decide
    · exact absurd rfl hk

/-- domain separation at the level of hasher inputs -/
theorem pre_ne_of_kind_ne {d1 d2 : Deriv} (w1 : d1.WellFormed) (w2 : d2.WellFormed)
    (hk : d1.kind ≠ d2.kind) {p1 p2 : List UInt8} (h1 : d1.pre = some p1) (h2 : d2.pre = some p2) :
    p1 ≠ p2 := by
  intro heq
  subst heq
  obtain ⟨t, ht1, ht2, hr⟩ := pre_eq_split h1 h2
  match hf1 : d1.kind.fixedTag?, hf2 : d2.kind.fixedTag? with
  | none, _ => exact sep_nonfixed w1 w2 hf1 hk ht1 ht2 hr
  | some _, none => exact sep_nonfixed w2 w1 hf2 (Ne.symm hk) ht2 ht1 hr.symm
  | some T1, some T2 =>
    have e1 := tag_of_fixed hf1 ht1
    have e2 := tag_of_fixed hf2 ht2
    subst e1
    subst e2
    exact hk (fixedTag_inj _ _ _ hf1 hf2)

end Tahoe.Crypto.Derive
