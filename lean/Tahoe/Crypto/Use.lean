/-
C17 model, part 2: the secrets at the point of USE — which secret is sent to which storage server.

`Tahoe/Crypto/Derive.lean` models the derivation functions.  This file models the code that *pairs*
servers with secrets before a message leaves the client:

* `immutable/upload.py Tahoe2ServerSelector._create_trackers` (+ the part of `get_shareholders` that
  prepares its arguments, and `ServerTracker.query`): candidate list, writeable filter, one tracker per
  server carrying the bucket renewal / cancel secrets;
* `immutable/checker.py Checker._get_buckets` (add-lease);
* `mutable/filenode.py MutableFileNode.get_write_enabler / get_renewal_secret / get_cancel_secret`,
  `mutable/publish.py Publish.publish / update` (one write proxy per (server, shnum) of the goal) and
  `mutable/servermap.py ServermapUpdater._do_read` (add-lease).

A server is what these code paths read from an `IServer`: `get_serverid()`, `get_lease_seed()`,
`get_foolscap_write_enabler_seed()` and the advertised `maximum-immutable-share-size`.

Deviations
* `readonly_servers = set(candidate_servers) - set(writeable_servers)` is a Python set: its iteration
  order is unspecified and duplicates collapse.  Modelled as the complement filter in candidate order;
  the harness compares the read-only trackers as a sorted list and generates distinct servers.
* The `assert len(seed) == 20` of the hash helpers / of `get_write_enabler` etc. → `none`.
* Only the secrets and their addressee are modelled; share placement (which tracker is queried for
  which shares) is C06/C07's subject.  Every query a tracker can send carries the tracker's secrets.
-/
import Tahoe.Crypto.Derive
import Tahoe.Base.Sha256

namespace Tahoe.Crypto.Use
open Tahoe.Crypto.Derive

/-- what the code reads from an `IServer` -/
structure Server where
  serverid : List UInt8
  leaseSeed : List UInt8
  weSeed : List UInt8
  maxImmutableShareSize : Nat
  deriving DecidableEq, Repr

/-- `ServerTracker` as far as secrets go: the server it talks to and the secrets it will send -/
structure Tracker where
  server : Server
  renew : List UInt8
  cancel : List UInt8
  deriving DecidableEq, Repr

/-- a lease-bearing message as it arrives at `server` (`allocate_buckets` / `add_lease`) -/
structure LeaseMsg where
  server : Server
  storageIndex : List UInt8
  renew : List UInt8
  cancel : List UInt8
  deriving DecidableEq, Repr

/-- body of `_make_trackers`' loop: `seed = s.get_lease_seed(); renew = bucket_renewal_secret_hash(frs, seed);
    cancel = bucket_cancel_secret_hash(fcs, seed); create_server_tracker(s, renew, cancel)` -/
def mkTracker (frs fcs : List UInt8) (s : Server) : Option Tracker :=
  match bucketRenewalSecretHash frs s.leaseSeed with
  | none => none
  | some r =>
    match bucketCancelSecretHash fcs s.leaseSeed with
    | none => none
    | some c => some ⟨s, r, c⟩

/-- `_make_trackers(servers)` -/
def makeTrackers (frs fcs : List UInt8) : List Server → Option (List Tracker)
  | [] => some []
  | s :: rest =>
    match mkTracker frs fcs s with
    | none => none
    | some t => (makeTrackers frs fcs rest).map (t :: ·)

/-- `_create_trackers` for an arbitrary writeable-filter `p`: `(readonly_trackers, write_trackers)`;
    the write trackers are made first -/
def createTrackersP (p : Server → Bool) (candidates : List Server) (frs fcs : List UInt8) :
    Option (List Tracker × List Tracker) :=
  match makeTrackers frs fcs (candidates.filter p) with
  | none => none
  | some wr =>
    match makeTrackers frs fcs (candidates.filter (fun s => !p s)) with
    | none => none
    | some ro => some (ro, wr)

/-- the code's filter: `_get_maxsize(server) >= allocated_size` -/
def writeable (allocatedSize : Nat) (s : Server) : Bool := decide (allocatedSize ≤ s.maxImmutableShareSize)

/-- `Tahoe2ServerSelector._create_trackers(candidate_servers, allocated_size, frs, fcs, …)` -/
def createTrackers (candidates : List Server) (allocatedSize : Nat) (frs fcs : List UInt8) :
    Option (List Tracker × List Tracker) :=
  createTrackersP (writeable allocatedSize) candidates frs fcs

/-- the part of `get_shareholders` before the first query: file secrets from the SecretHolder and the
    storage index, candidates = the first `2 * total_shares` servers of the permuted list -/
def uploadTrackers (leaseSecret si : List UInt8) (permuted : List Server) (totalShares allocatedSize : Nat) :
    Option (List Tracker × List Tracker) :=
  createTrackers (permuted.take (2 * totalShares)) allocatedSize
    (fileRenewalSecretHash (myRenewalSecretHash leaseSecret) si)
    (fileCancelSecretHash (myCancelSecretHash leaseSecret) si)

/-- `ServerTracker.query`: `allocate_buckets(storage_index, renew_secret, cancel_secret, …)` at its server -/
def Tracker.query (t : Tracker) (si : List UInt8) : LeaseMsg := ⟨t.server, si, t.renew, t.cancel⟩

/-- `Checker._get_buckets(s, storageindex)` with add_lease: the `add_lease` message for server `s` -/
def checkerAddLease (leaseSecret si : List UInt8) (s : Server) : Option LeaseMsg :=
  match bucketRenewalSecretHash (fileRenewalSecretHash (myRenewalSecretHash leaseSecret) si) s.leaseSeed with
  | none => none
  | some r =>
    match bucketCancelSecretHash (fileCancelSecretHash (myCancelSecretHash leaseSecret) si) s.leaseSeed with
    | none => none
    | some c => some ⟨s, si, r, c⟩

/-! ## Mutable files -/

/-- the fields of a `MutableFileNode` the secrets depend on (`init_from_cap` of a write cap) -/
structure MutNode where
  leaseSecret : List UInt8
  writekey : List UInt8
  storageIndex : List UInt8
  deriving DecidableEq, Repr

/-- `MutableFileNode(…, secret_holder, …).init_from_cap(WriteableSSKFileURI(writekey, fp))` -/
def mkMutNode (leaseSecret writekey : List UInt8) : MutNode :=
  ⟨leaseSecret, writekey, (mkWriteCap writekey []).storageIndex⟩

/-- `get_write_enabler(server)` (its own `assert len(seed) == 20` coincides with the helper's) -/
def MutNode.getWriteEnabler (nd : MutNode) (s : Server) : Option (List UInt8) :=
  if s.weSeed.length = 20 then sskWriteEnablerHash nd.writekey s.weSeed else none

/-- `get_renewal_secret(server)` -/
def MutNode.getRenewalSecret (nd : MutNode) (s : Server) : Option (List UInt8) :=
  if s.leaseSeed.length = 20 then renewalSecretChain nd.leaseSecret nd.storageIndex s.leaseSeed else none

/-- `get_cancel_secret(server)` -/
def MutNode.getCancelSecret (nd : MutNode) (s : Server) : Option (List UInt8) :=
  if s.leaseSeed.length = 20 then cancelSecretChain nd.leaseSecret nd.storageIndex s.leaseSeed else none

/-- a mutable write proxy: `writer_class(shnum, server.get_storage_server(), storage_index, secrets, …)`;
    every `slot_testv_and_readv_and_writev` it sends carries `(we, renew, cancel)` -/
structure Writer where
  shnum : Nat
  server : Server
  storageIndex : List UInt8
  we : List UInt8
  renew : List UInt8
  cancel : List UInt8
  deriving DecidableEq, Repr

/-- loop body of `Publish.publish` / `Publish.update`: the three getters in the code's order -/
def mkWriter (nd : MutNode) (g : Server × Nat) : Option Writer :=
  match nd.getWriteEnabler g.1 with
  | none => none
  | some we =>
    match nd.getRenewalSecret g.1 with
    | none => none
    | some r =>
      match nd.getCancelSecret g.1 with
      | none => none
      | some c => some ⟨g.2, g.1, nd.storageIndex, we, r, c⟩

/-- `for (server, shnum) in self.goal: …` -/
def publishWriters (nd : MutNode) : List (Server × Nat) → Option (List Writer)
  | [] => some []
  | g :: rest =>
    match mkWriter nd g with
    | none => none
    | some w => (publishWriters nd rest).map (w :: ·)

/-- `ServermapUpdater._do_read` with add_lease: the `add_lease` message for `server` -/
def mutableAddLease (nd : MutNode) (s : Server) : Option LeaseMsg :=
  match nd.getRenewalSecret s with
  | none => none
  | some r =>
    match nd.getCancelSecret s with
    | none => none
    | some c => some ⟨s, nd.storageIndex, r, c⟩

/-! ## From a storage announcement to the seeds (`storage_client.py`)

`_parse_announcement(server_id, furl, ann)` + `_FoolscapStorage` + `NativeStorageServer` /
`HTTPNativeStorageServer`: which bytes become the permutation seed (share placement, C32), the lease seed
(every lease-secret chain: uploader, immutable checker, mutable node) and the write-enabler seed.

The announcement is modelled after text decoding (base32 / regex matching are C15/C38's subject):
`tubid` = the base32-decoded TubID of the `pb://<tubid>@…` storage FURL, `seedAnnounced` = the decoded
`permutation-seed-base32` if the key is present, `serverIdPubkey` = the decoded key when `server_id` matches
`^v0-[0-9a-zA-Z]{52}$`, `serverId` = the raw server id. -/

structure Announcement where
  serverId : List UInt8
  tubid : List UInt8
  seedAnnounced : Option (List UInt8)
  serverIdPubkey : Option (List UInt8)
  deriving DecidableEq, Repr

/-- the two client-side server classes -/
inductive Transport
  | foolscap   -- `NativeStorageServer` (`_FoolscapStorage`)
  | http       -- `HTTPNativeStorageServer`
  deriving DecidableEq, Repr

/-- `_parse_announcement`: the permutation seed, in the code's order of preference -/
def permutationSeed (a : Announcement) : List UInt8 :=
  match a.seedAnnounced with
  | some s => s
  | none =>
    match a.serverIdPubkey with
    | some k => k
    | none => Tahoe.Base.Sha256.sha256 a.serverId

/-- what an `IServer` built from an announcement answers -/
structure NativeServer where
  serverid : List UInt8
  permutationSeed : List UInt8   -- `get_permutation_seed()`
  tubid : List UInt8             -- `get_tubid()`
  leaseSeed : List UInt8         -- `get_lease_seed()`
  weSeed : List UInt8            -- `get_foolscap_write_enabler_seed()`
  deriving DecidableEq, Repr

/-- `NativeStorageServer(server_id, ann, …)` / `HTTPNativeStorageServer(server_id, ann, …)`:
    `_FoolscapStorage.lease_seed = self.tubid`, `get_foolscap_write_enabler_seed = self._storage.tubid`; the
    HTTP class returns `self._tubid` for both.  The permutation seed plays no part in either. -/
def nativeServer (_t : Transport) (a : Announcement) : NativeServer :=
  { serverid := a.serverId, permutationSeed := permutationSeed a, tubid := a.tubid,
    leaseSeed := a.tubid, weSeed := a.tubid }

/-- the record the secret-bearing call sites read -/
def NativeServer.toServer (n : NativeServer) (maxImmutableShareSize : Nat) : Server :=
  ⟨n.serverid, n.leaseSeed, n.weSeed, maxImmutableShareSize⟩

end Tahoe.Crypto.Use
