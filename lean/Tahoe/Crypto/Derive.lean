/-
C17 model: every key / secret derivation of `src/allmydata/util/hashutil.py`, *as written*, on top of
the executable SHA-256 of `Tahoe/Base/Sha256.lean` and `netstring` of `Tahoe/Base/NetstringEnc.lean`.
Tags come from `Tahoe/Generated/Hashutil.lean` (`*_TAG`, the module constants) and the truncation each
function passes to the hasher comes from `TRUNC_<fn>` (observed by the extractor from the live
source), so nothing numeric or textual about the derivations is hand-copied here.

Each derivation `f` is split as `f args = truncate t (sha256d (fPre args))` with the *preimage*
`fPre` (the exact bytes fed to SHA-256) exposed, because domain separation is a statement about
preimages.

Deviations / modelling decisions
* `_SHA256d_Hasher` is a streaming object; `update` calls concatenate, so a hasher is modelled by the
  concatenation of its feeds (`hasherDigest`); the correspondence feeds the real hasher in chunks.
* `truncate_to` is a Python int or None: `Option Int`, with the code's truthiness test (`None` and `0`
  both mean "do not truncate") and Python slice semantics for negative values.
* `assert len(peerid) == 20` → `none` (the harness maps AssertionError to `AssertionError`);
  `ValueError` of `_convergence_hasher_tag` → `none`.
* `my_renewal_secret_hash(my_secret)` calls `tagged_hash(my_secret, CLIENT_RENEWAL_TAG)`: the secret
  sits in the *tag* position and the tag constant in the value position.  Modelled as written (this is
  also what docs/specifications/lease.rst documents).
* `timing_safe_compare` (random tag, only compared for equality) and `random_key` are not modelled.
-/
import Tahoe.Base.Sha256
import Tahoe.Base.NetstringEnc
import Tahoe.Generated.Hashutil

namespace Tahoe.Crypto.Derive
open Tahoe.Base.Sha256 Tahoe.Base.NetstringEnc Tahoe.Generated


/-! ## The hasher -/

/-- `_SHA256d_Hasher.digest`: `if self.truncate_to: h2 = h2[:self.truncate_to]` -/
def truncate (t : Option Int) (h : List UInt8) : List UInt8 :=
  match t with
  | none => h
  | some (Int.ofNat 0) => h                                  -- falsy: no truncation
  | some (Int.ofNat n) => h.take n
  | some (Int.negSucc n) => h.take (h.length - (n + 1))      -- h2[:-(n+1)]

/-- bytes fed to SHA-256 by `tagged_hash(tag, val)` -/
def taggedPre (tag val : List UInt8) : List UInt8 := netstring tag ++ val

/-- bytes fed to SHA-256 by `tagged_pair_hash(tag, val1, val2)` -/
def taggedPairPre (tag v1 v2 : List UInt8) : List UInt8 := netstring tag ++ (netstring v1 ++ netstring v2)

/-- `tagged_hasher(tag, truncate_to)` followed by `update(c)` for each chunk, then `digest()` -/
def hasherDigest (tag : List UInt8) (t : Option Int) (chunks : List (List UInt8)) : List UInt8 :=
  truncate t (sha256d (netstring tag ++ chunks.flatten))

/-- `tagged_hash(tag, val, truncate_to=None)` -/
def taggedHash (tag val : List UInt8) (t : Option Int) : List UInt8 := truncate t (sha256d (taggedPre tag val))

/-- `tagged_pair_hash(tag, val1, val2, truncate_to=None)` -/
def taggedPairHash (tag v1 v2 : List UInt8) (t : Option Int) : List UInt8 :=
  truncate t (sha256d (taggedPairPre tag v1 v2))

/-! ## Immutable files -/

/-- `storage_index_hash(key)` -/
def storageIndexHash (key : List UInt8) : List UInt8 :=
  taggedHash Hashutil.STORAGE_INDEX_TAG key Hashutil.TRUNC_storage_index_hash
/-- `block_hash(data)` / `block_hasher()` -/
def blockHash (d : List UInt8) : List UInt8 := taggedHash Hashutil.BLOCK_TAG d Hashutil.TRUNC_block_hash
/-- `uri_extension_hash(data)` / `uri_extension_hasher()` -/
def uriExtensionHash (d : List UInt8) : List UInt8 := taggedHash Hashutil.UEB_TAG d Hashutil.TRUNC_uri_extension_hash
/-- `plaintext_hash(data)` / `plaintext_hasher()` -/
def plaintextHash (d : List UInt8) : List UInt8 := taggedHash Hashutil.PLAINTEXT_TAG d Hashutil.TRUNC_plaintext_hash
/-- `crypttext_hash(data)` / `crypttext_hasher()` -/
def crypttextHash (d : List UInt8) : List UInt8 := taggedHash Hashutil.CIPHERTEXT_TAG d Hashutil.TRUNC_crypttext_hash
/-- `crypttext_segment_hash(data)` / `crypttext_segment_hasher()` -/
def crypttextSegmentHash (d : List UInt8) : List UInt8 :=
  taggedHash Hashutil.CIPHERTEXT_SEGMENT_TAG d Hashutil.TRUNC_crypttext_segment_hash
/-- `plaintext_segment_hash(data)` / `plaintext_segment_hasher()` -/
def plaintextSegmentHash (d : List UInt8) : List UInt8 :=
  taggedHash Hashutil.PLAINTEXT_SEGMENT_TAG d Hashutil.TRUNC_plaintext_segment_hash
/-- `backupdb_dirhash(contents)` -/
def backupdbDirhash (d : List UInt8) : List UInt8 :=
  taggedHash Hashutil.BACKUPDB_DIRHASH_TAG d Hashutil.TRUNC_backupdb_dirhash

/-- `b"%d" % i` for a Python int -/
def intDigits (i : Int) : List UInt8 :=
  match i with
  | Int.ofNat n => decDigits n
  | Int.negSucc n => 45 :: decDigits (n + 1)

/-- `_convergence_hasher_tag(k, n, segsize, convergence)`; `none` = `ValueError`.
    The three range checks are in the code's order (they all raise the same exception type). -/
def convergenceHasherTag (k n segsize : Int) (convergence : List UInt8) : Option (List UInt8) :=
  if k > n then none
  else if k < 1 ∨ n < 1 then none
  else if k > 256 ∨ n > 256 then none
  else
    let paramTag := netstring (intDigits k ++ 44 :: (intDigits n ++ 44 :: intDigits segsize))
    some (Hashutil.CONVERGENT_ENCRYPTION_TAG ++ (netstring convergence ++ paramTag))

/-- `convergence_hash(k, n, segsize, data, convergence)` (= `convergence_hasher(...)` fed `data`) -/
def convergenceHash (k n segsize : Int) (data convergence : List UInt8) : Option (List UInt8) :=
  (convergenceHasherTag k n segsize convergence).map
    (fun tag => taggedHash tag data Hashutil.TRUNC_convergence_hash)

/-! ## Lease secrets: client → file → bucket -/

/-- `my_renewal_secret_hash(my_secret)` — NB argument order: `tagged_hash(my_secret, CLIENT_RENEWAL_TAG)` -/
def myRenewalSecretHash (mySecret : List UInt8) : List UInt8 :=
  taggedHash mySecret Hashutil.CLIENT_RENEWAL_TAG Hashutil.TRUNC_my_renewal_secret_hash
/-- `my_cancel_secret_hash(my_secret)` — same argument order -/
def myCancelSecretHash (mySecret : List UInt8) : List UInt8 :=
  taggedHash mySecret Hashutil.CLIENT_CANCEL_TAG Hashutil.TRUNC_my_cancel_secret_hash
/-- `file_renewal_secret_hash(client_renewal_secret, storage_index)` -/
def fileRenewalSecretHash (crs si : List UInt8) : List UInt8 :=
  taggedPairHash Hashutil.FILE_RENEWAL_TAG crs si Hashutil.TRUNC_file_renewal_secret_hash
/-- `file_cancel_secret_hash(client_cancel_secret, storage_index)` -/
def fileCancelSecretHash (ccs si : List UInt8) : List UInt8 :=
  taggedPairHash Hashutil.FILE_CANCEL_TAG ccs si Hashutil.TRUNC_file_cancel_secret_hash
/-- `bucket_renewal_secret_hash(file_renewal_secret, peerid)`; `none` = the `len(peerid) == 20` assert -/
def bucketRenewalSecretHash (frs peerid : List UInt8) : Option (List UInt8) :=
  if peerid.length = 20 then
    some (taggedPairHash Hashutil.BUCKET_RENEWAL_TAG frs peerid Hashutil.TRUNC_bucket_renewal_secret_hash)
  else none
/-- `bucket_cancel_secret_hash(file_cancel_secret, peerid)` -/
def bucketCancelSecretHash (fcs peerid : List UInt8) : Option (List UInt8) :=
  if peerid.length = 20 then
    some (taggedPairHash Hashutil.BUCKET_CANCEL_TAG fcs peerid Hashutil.TRUNC_bucket_cancel_secret_hash)
  else none

/-! ## Mutable files (SSK) and dirnodes -/

/-- `ssk_writekey_hash(privkey)` -/
def sskWritekeyHash (privkey : List UInt8) : List UInt8 :=
  taggedHash Hashutil.MUTABLE_WRITEKEY_TAG privkey Hashutil.TRUNC_ssk_writekey_hash
/-- `ssk_write_enabler_master_hash(writekey)` -/
def sskWriteEnablerMasterHash (writekey : List UInt8) : List UInt8 :=
  taggedHash Hashutil.MUTABLE_WRITE_ENABLER_MASTER_TAG writekey Hashutil.TRUNC_ssk_write_enabler_master_hash
/-- `ssk_write_enabler_hash(writekey, peerid)`; the assert comes first -/
def sskWriteEnablerHash (writekey peerid : List UInt8) : Option (List UInt8) :=
  if peerid.length = 20 then
    some (taggedPairHash Hashutil.MUTABLE_WRITE_ENABLER_TAG (sskWriteEnablerMasterHash writekey) peerid
            Hashutil.TRUNC_ssk_write_enabler_hash)
  else none
/-- `ssk_pubkey_fingerprint_hash(pubkey)` -/
def sskPubkeyFingerprintHash (pubkey : List UInt8) : List UInt8 :=
  taggedHash Hashutil.MUTABLE_PUBKEY_TAG pubkey Hashutil.TRUNC_ssk_pubkey_fingerprint_hash
/-- `ssk_readkey_hash(writekey)` -/
def sskReadkeyHash (writekey : List UInt8) : List UInt8 :=
  taggedHash Hashutil.MUTABLE_READKEY_TAG writekey Hashutil.TRUNC_ssk_readkey_hash
/-- `ssk_readkey_data_hash(IV, readkey)` -/
def sskReadkeyDataHash (iv readkey : List UInt8) : List UInt8 :=
  taggedPairHash Hashutil.MUTABLE_DATAKEY_TAG iv readkey Hashutil.TRUNC_ssk_readkey_data_hash
/-- `ssk_storage_index_hash(readkey)` -/
def sskStorageIndexHash (readkey : List UInt8) : List UInt8 :=
  taggedHash Hashutil.MUTABLE_STORAGEINDEX_TAG readkey Hashutil.TRUNC_ssk_storage_index_hash
/-- `mutable_rwcap_key_hash(iv, writekey)` (dirnode child-cap key) -/
def mutableRwcapKeyHash (iv writekey : List UInt8) : List UInt8 :=
  taggedPairHash Hashutil.DIRNODE_CHILD_WRITECAP_TAG iv writekey Hashutil.TRUNC_mutable_rwcap_key_hash
/-- `mutable_rwcap_salt_hash(writekey)` (called with the child's rw-cap string by dirnode.py) -/
def mutableRwcapSaltHash (rwcap : List UInt8) : List UInt8 :=
  taggedHash Hashutil.DIRNODE_CHILD_SALT_TAG rwcap Hashutil.TRUNC_mutable_rwcap_salt_hash

/-! ## Not tagged: `hmac`, `permute_server_hash` -/

/-- `hashutil.hmac(tag, data)` as written: the key is XOR-ed bytewise with 0x36 / 0x5c but **not padded
    to the 64-byte block** (so this is HMAC-SHA256 only in construction, not RFC 2104). -/
def hmacAsWritten (tag data : List UInt8) : List UInt8 :=
  let ikey := tag.map (· ^^^ 0x36)
  let okey := tag.map (· ^^^ 0x5c)
  sha256 (okey ++ sha256 (ikey ++ data))

/-- `permute_server_hash(peer_selection_index, server_permutation_seed)` -/
def permuteServerHash (psi seed : List UInt8) : List UInt8 := sha1 (psi ++ seed)

/-! ## Call sites: how the cap classes and nodes chain the derivations -/

/-- `uri.CHKFileURI.__init__`: `storage_index = storage_index_hash(key)` -/
def chkStorageIndex (key : List UInt8) : List UInt8 := storageIndexHash key

/-- `uri.WriteableSSKFileURI.__init__` / `WriteableMDMFFileURI.__init__` (writekey, readkey, storage index) -/
structure WriteCap where
  writekey : List UInt8
  readkey : List UInt8
  storageIndex : List UInt8
  fingerprint : List UInt8

/-- `uri.ReadonlySSKFileURI.__init__` / `ReadonlyMDMFFileURI.__init__` -/
structure ReadCap where
  readkey : List UInt8
  storageIndex : List UInt8
  fingerprint : List UInt8

/-- `uri.SSKVerifierURI` -/
structure VerifyCap where
  storageIndex : List UInt8
  fingerprint : List UInt8

def mkWriteCap (writekey fingerprint : List UInt8) : WriteCap :=
  let rk := sskReadkeyHash writekey
  { writekey := writekey, readkey := rk, storageIndex := sskStorageIndexHash rk, fingerprint := fingerprint }

def mkReadCap (readkey fingerprint : List UInt8) : ReadCap :=
  { readkey := readkey, storageIndex := sskStorageIndexHash readkey, fingerprint := fingerprint }

/-- `WriteableSSKFileURI.get_readonly` -/
def WriteCap.getReadonly (w : WriteCap) : ReadCap := mkReadCap w.readkey w.fingerprint
/-- `WriteableSSKFileURI.get_verify_cap` -/
def WriteCap.getVerifyCap (w : WriteCap) : VerifyCap := ⟨w.storageIndex, w.fingerprint⟩
/-- `ReadonlySSKFileURI.get_verify_cap` -/
def ReadCap.getVerifyCap (r : ReadCap) : VerifyCap := ⟨r.storageIndex, r.fingerprint⟩

/-- `mutable/common.py derive_mutable_keys` without the AES step: (writekey, fingerprint) -/
def deriveMutableKeys (pubkeyDer privkeyDer : List UInt8) : List UInt8 × (List UInt8) :=
  (sskWritekeyHash privkeyDer, sskPubkeyFingerprintHash pubkeyDer)

/-- `MutableFileNode.get_renewal_secret(server)` / `Tahoe2ServerSelector` + `ServerTracker` /
    `Checker._get_renewal_secret`: lease secret → client → file → bucket renewal secret -/
def renewalSecretChain (leaseSecret si leaseSeed : List UInt8) : Option (List UInt8) :=
  bucketRenewalSecretHash (fileRenewalSecretHash (myRenewalSecretHash leaseSecret) si) leaseSeed

/-- same for the cancel secret -/
def cancelSecretChain (leaseSecret si leaseSeed : List UInt8) : Option (List UInt8) :=
  bucketCancelSecretHash (fileCancelSecretHash (myCancelSecretHash leaseSecret) si) leaseSeed

/-- `dirnode._encrypt_rw_uri(writekey, rw_uri)`: (salt, AES key); the AES-CTR step and the MAC are
    outside this property -/
def dirnodeChildKey (writekey rwUri : List UInt8) : List UInt8 × (List UInt8) :=
  let salt := mutableRwcapSaltHash rwUri
  (salt, mutableRwcapKeyHash salt writekey)

/-- `dirnode._encrypt_rw_uri` MAC: `hmac(key, salt + crypttext)` -/
def dirnodeChildMac (key salt crypttext : List UInt8) : List UInt8 := hmacAsWritten key (salt ++ crypttext)

/-! ## Catalogue of the tagged derivations (used to state domain separation)

`Deriv` lists every *tagged* SHA-256d derivation of hashutil.py with its arguments; `Deriv.kind` forgets
the arguments.  `Deriv.tag` / `Deriv.rest` are what the code feeds to the hasher: first
`netstring(tag)`, then `rest`; `none` exactly where the code raises (ValueError / the peerid assert).
`Deriv.eval` is the digest, defined through the model functions above; `eval_eq` (Lemmas) shows that it
is `truncate trunc (sha256d pre)`. -/

inductive Kind
  | storageIndex | block | ueb | plaintext | crypttext | crypttextSegment | plaintextSegment
  | backupdbDirhash | convergence | clientRenewal | clientCancel | fileRenewal | fileCancel
  | bucketRenewal | bucketCancel | sskWritekey | sskWriteEnablerMaster | sskWriteEnabler
  | sskPubkeyFingerprint | sskReadkey | sskDatakey | sskStorageIndex | dirnodeChildKey
  | dirnodeChildSalt
  deriving DecidableEq, Repr

inductive Deriv
  | storageIndex (key : List UInt8)
  | block (d : List UInt8)
  | ueb (d : List UInt8)
  | plaintext (d : List UInt8)
  | crypttext (d : List UInt8)
  | crypttextSegment (d : List UInt8)
  | plaintextSegment (d : List UInt8)
  | backupdbDirhash (d : List UInt8)
  | convergence (k n segsize : Int) (data convergence : List UInt8)
  | clientRenewal (leaseSecret : List UInt8)
  | clientCancel (leaseSecret : List UInt8)
  | fileRenewal (crs si : List UInt8)
  | fileCancel (ccs si : List UInt8)
  | bucketRenewal (frs peerid : List UInt8)
  | bucketCancel (fcs peerid : List UInt8)
  | sskWritekey (privkey : List UInt8)
  | sskWriteEnablerMaster (writekey : List UInt8)
  | sskWriteEnabler (writekey peerid : List UInt8)
  | sskPubkeyFingerprint (pubkey : List UInt8)
  | sskReadkey (writekey : List UInt8)
  | sskDatakey (iv readkey : List UInt8)
  | sskStorageIndex (readkey : List UInt8)
  | dirnodeChildKey (iv writekey : List UInt8)
  | dirnodeChildSalt (rwcap : List UInt8)

def Deriv.kind : Deriv → Kind
  | .storageIndex .. => .storageIndex | .block .. => .block | .ueb .. => .ueb
  | .plaintext .. => .plaintext | .crypttext .. => .crypttext
  | .crypttextSegment .. => .crypttextSegment | .plaintextSegment .. => .plaintextSegment
  | .backupdbDirhash .. => .backupdbDirhash | .convergence .. => .convergence
  | .clientRenewal .. => .clientRenewal | .clientCancel .. => .clientCancel
  | .fileRenewal .. => .fileRenewal | .fileCancel .. => .fileCancel
  | .bucketRenewal .. => .bucketRenewal | .bucketCancel .. => .bucketCancel
  | .sskWritekey .. => .sskWritekey | .sskWriteEnablerMaster .. => .sskWriteEnablerMaster
  | .sskWriteEnabler .. => .sskWriteEnabler | .sskPubkeyFingerprint .. => .sskPubkeyFingerprint
  | .sskReadkey .. => .sskReadkey | .sskDatakey .. => .sskDatakey
  | .sskStorageIndex .. => .sskStorageIndex | .dirnodeChildKey .. => .dirnodeChildKey
  | .dirnodeChildSalt .. => .dirnodeChildSalt

/-- the tag constant of the kinds whose tag is a module constant (all but convergence and the two
    client secrets, where the "tag" is computed / is the secret) -/
def Kind.fixedTag? : Kind → Option (List UInt8)
  | .storageIndex => some Hashutil.STORAGE_INDEX_TAG
  | .block => some Hashutil.BLOCK_TAG
  | .ueb => some Hashutil.UEB_TAG
  | .plaintext => some Hashutil.PLAINTEXT_TAG
  | .crypttext => some Hashutil.CIPHERTEXT_TAG
  | .crypttextSegment => some Hashutil.CIPHERTEXT_SEGMENT_TAG
  | .plaintextSegment => some Hashutil.PLAINTEXT_SEGMENT_TAG
  | .backupdbDirhash => some Hashutil.BACKUPDB_DIRHASH_TAG
  | .convergence => none
  | .clientRenewal => none
  | .clientCancel => none
  | .fileRenewal => some Hashutil.FILE_RENEWAL_TAG
  | .fileCancel => some Hashutil.FILE_CANCEL_TAG
  | .bucketRenewal => some Hashutil.BUCKET_RENEWAL_TAG
  | .bucketCancel => some Hashutil.BUCKET_CANCEL_TAG
  | .sskWritekey => some Hashutil.MUTABLE_WRITEKEY_TAG
  | .sskWriteEnablerMaster => some Hashutil.MUTABLE_WRITE_ENABLER_MASTER_TAG
  | .sskWriteEnabler => some Hashutil.MUTABLE_WRITE_ENABLER_TAG
  | .sskPubkeyFingerprint => some Hashutil.MUTABLE_PUBKEY_TAG
  | .sskReadkey => some Hashutil.MUTABLE_READKEY_TAG
  | .sskDatakey => some Hashutil.MUTABLE_DATAKEY_TAG
  | .sskStorageIndex => some Hashutil.MUTABLE_STORAGEINDEX_TAG
  | .dirnodeChildKey => some Hashutil.DIRNODE_CHILD_WRITECAP_TAG
  | .dirnodeChildSalt => some Hashutil.DIRNODE_CHILD_SALT_TAG

/-- the tag fed (netstring-wrapped) to the hasher; `none` where the code raises for these arguments -/
def Deriv.tag : Deriv → Option (List UInt8)
  | .convergence k n s _ c => convergenceHasherTag k n s c
  | .clientRenewal s => some s
  | .clientCancel s => some s
  | .bucketRenewal _ p => if p.length = 20 then some Hashutil.BUCKET_RENEWAL_TAG else none
  | .bucketCancel _ p => if p.length = 20 then some Hashutil.BUCKET_CANCEL_TAG else none
  | .sskWriteEnabler _ p => if p.length = 20 then some Hashutil.MUTABLE_WRITE_ENABLER_TAG else none
  | d => d.kind.fixedTag?

/-- what follows `netstring(tag)` in the hasher input -/
def Deriv.rest : Deriv → List UInt8
  | .storageIndex v | .block v | .ueb v | .plaintext v | .crypttext v | .crypttextSegment v
  | .plaintextSegment v | .backupdbDirhash v | .sskWritekey v | .sskWriteEnablerMaster v
  | .sskPubkeyFingerprint v | .sskReadkey v | .sskStorageIndex v | .dirnodeChildSalt v => v
  | .convergence _ _ _ data _ => data
  | .clientRenewal _ => Hashutil.CLIENT_RENEWAL_TAG
  | .clientCancel _ => Hashutil.CLIENT_CANCEL_TAG
  | .fileRenewal a b | .fileCancel a b | .bucketRenewal a b | .bucketCancel a b | .sskDatakey a b
  | .dirnodeChildKey a b => netstring a ++ netstring b
  | .sskWriteEnabler wk p => netstring (sskWriteEnablerMasterHash wk) ++ netstring p

/-- the exact byte string fed to SHA-256 (first application) -/
def Deriv.pre (d : Deriv) : Option (List UInt8) := d.tag.map (fun t => netstring t ++ d.rest)

/-- the `truncate_to` in force -/
def Deriv.trunc : Deriv → Option Int
  | .storageIndex .. => Hashutil.TRUNC_storage_index_hash
  | .block .. => Hashutil.TRUNC_block_hash
  | .ueb .. => Hashutil.TRUNC_uri_extension_hash
  | .plaintext .. => Hashutil.TRUNC_plaintext_hash
  | .crypttext .. => Hashutil.TRUNC_crypttext_hash
  | .crypttextSegment .. => Hashutil.TRUNC_crypttext_segment_hash
  | .plaintextSegment .. => Hashutil.TRUNC_plaintext_segment_hash
  | .backupdbDirhash .. => Hashutil.TRUNC_backupdb_dirhash
  | .convergence .. => Hashutil.TRUNC_convergence_hash
  | .clientRenewal .. => Hashutil.TRUNC_my_renewal_secret_hash
  | .clientCancel .. => Hashutil.TRUNC_my_cancel_secret_hash
  | .fileRenewal .. => Hashutil.TRUNC_file_renewal_secret_hash
  | .fileCancel .. => Hashutil.TRUNC_file_cancel_secret_hash
  | .bucketRenewal .. => Hashutil.TRUNC_bucket_renewal_secret_hash
  | .bucketCancel .. => Hashutil.TRUNC_bucket_cancel_secret_hash
  | .sskWritekey .. => Hashutil.TRUNC_ssk_writekey_hash
  | .sskWriteEnablerMaster .. => Hashutil.TRUNC_ssk_write_enabler_master_hash
  | .sskWriteEnabler .. => Hashutil.TRUNC_ssk_write_enabler_hash
  | .sskPubkeyFingerprint .. => Hashutil.TRUNC_ssk_pubkey_fingerprint_hash
  | .sskReadkey .. => Hashutil.TRUNC_ssk_readkey_hash
  | .sskDatakey .. => Hashutil.TRUNC_ssk_readkey_data_hash
  | .sskStorageIndex .. => Hashutil.TRUNC_ssk_storage_index_hash
  | .dirnodeChildKey .. => Hashutil.TRUNC_mutable_rwcap_key_hash
  | .dirnodeChildSalt .. => Hashutil.TRUNC_mutable_rwcap_salt_hash

/-- the digest, through the model functions (this is what the driver / the code computes) -/
def Deriv.eval : Deriv → Option (List UInt8)
  | .storageIndex v => some (storageIndexHash v)
  | .block v => some (blockHash v)
  | .ueb v => some (uriExtensionHash v)
  | .plaintext v => some (plaintextHash v)
  | .crypttext v => some (crypttextHash v)
  | .crypttextSegment v => some (crypttextSegmentHash v)
  | .plaintextSegment v => some (plaintextSegmentHash v)
  | .backupdbDirhash v => some (Tahoe.Crypto.Derive.backupdbDirhash v)
  | .convergence k n s data c => convergenceHash k n s data c
  | .clientRenewal s => some (myRenewalSecretHash s)
  | .clientCancel s => some (myCancelSecretHash s)
  | .fileRenewal a b => some (fileRenewalSecretHash a b)
  | .fileCancel a b => some (fileCancelSecretHash a b)
  | .bucketRenewal a b => bucketRenewalSecretHash a b
  | .bucketCancel a b => bucketCancelSecretHash a b
  | .sskWritekey v => some (sskWritekeyHash v)
  | .sskWriteEnablerMaster v => some (sskWriteEnablerMasterHash v)
  | .sskWriteEnabler a b => sskWriteEnablerHash a b
  | .sskPubkeyFingerprint v => some (sskPubkeyFingerprintHash v)
  | .sskReadkey v => some (sskReadkeyHash v)
  | .sskDatakey a b => some (sskReadkeyDataHash a b)
  | .sskStorageIndex v => some (sskStorageIndexHash v)
  | .dirnodeChildKey a b => some (mutableRwcapKeyHash a b)
  | .dirnodeChildSalt v => some (mutableRwcapSaltHash v)

/-- documented input lengths that domain separation depends on: the lease secret is 32 bytes
    (docs/specifications/lease.rst; `client._make_secret` uses CRYPTO_VAL_SIZE).  Needed only because
    `my_*_secret_hash` puts the secret in the tag position. -/
def Deriv.WellFormed : Deriv → Prop
  | .clientRenewal s => s.length = 32
  | .clientCancel s => s.length = 32
  | _ => True

end Tahoe.Crypto.Derive
