/-
Lemmas about call histories on the object machines of `Tahoe/Crypto/Objects.lean`.
-/
import Tahoe.Crypto.Objects

namespace Tahoe.Crypto.Objects
open Tahoe.Crypto.Derive Tahoe.Crypto.Use

/-- the only operation that changes the attributes the getters read -/
def rekey (nd : NodeObj) : NodeOp → NodeObj
  | .initFromCap wk => NodeObj.new nd.leaseSecret wk
  | _ => nd

/-- the attributes in force after a history: a fold of the `init_from_cap` calls alone -/
def keysAfter (nd : NodeObj) (ops : List NodeOp) : NodeObj := ops.foldl rekey nd

/-- the answer the specification prescribes for one call, as a function of the attributes in force and the
    call's own argument — and of nothing else -/
def specAnswer (nd : NodeObj) : NodeOp → Ans
  | .initFromCap _ => some []
  | .getWriteEnabler s => if s.weSeed.length = 20 then sskWriteEnablerHash nd.writekey s.weSeed else none
  | .getRenewalSecret s =>
      if s.leaseSeed.length = 20 then renewalSecretChain nd.leaseSecret nd.storageIndex s.leaseSeed else none
  | .getCancelSecret s =>
      if s.leaseSeed.length = 20 then cancelSecretChain nd.leaseSecret nd.storageIndex s.leaseSeed else none

theorem step_fst (nd : NodeObj) (op : NodeOp) : (nd.step op).1 = rekey nd op := by
  cases op <;> rfl

theorem step_snd (nd : NodeObj) (op : NodeOp) : (nd.step op).2 = specAnswer nd op := by
  cases op <;> rfl

theorem run_fst (nd : NodeObj) (ops : List NodeOp) : (nd.run ops).1 = keysAfter nd ops := by
  induction ops generalizing nd with
  | nil => rfl
  | cons op rest ih => simp only [NodeObj.run, keysAfter, List.foldl_cons, step_fst]; exact ih _

theorem run_snd_length (nd : NodeObj) (ops : List NodeOp) : (nd.run ops).2.length = ops.length := by
  induction ops generalizing nd with
  | nil => rfl
  | cons op rest ih => simp only [NodeObj.run, List.length_cons, ih]

/-- the answer at any position of any history -/
theorem run_answer_at (nd : NodeObj) (pre : List NodeOp) (op : NodeOp) (post : List NodeOp) :
    (nd.run (pre ++ op :: post)).2[pre.length]? = some (specAnswer (keysAfter nd pre) op) := by
  induction pre generalizing nd with
  | nil => simp [NodeObj.run, keysAfter, step_snd]
  | cons p rest ih =>
    simp only [List.cons_append, NodeObj.run, List.length_cons, List.getElem?_cons_succ, step_fst]
    rw [ih]
    simp [keysAfter]

theorem checker_step_fst (c : CheckerObj) (op : CheckerOp) : (c.step op).1 = c := by
  cases op <;> rfl

theorem checker_run_fst (c : CheckerObj) (ops : List CheckerOp) : (c.run ops).1 = c := by
  induction ops with
  | nil => rfl
  | cons op rest ih => simp only [CheckerObj.run, checker_step_fst]; exact ih

theorem checker_run_snd (c : CheckerObj) (ops : List CheckerOp) : (c.run ops).2 = ops.map (fun op => (c.step op).2) := by
  induction ops with
  | nil => rfl
  | cons op rest ih => simp only [CheckerObj.run, checker_step_fst, List.map_cons, ih]

end Tahoe.Crypto.Objects
