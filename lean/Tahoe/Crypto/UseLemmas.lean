/-
Helper lemmas for the "secrets at the point of use" theorems of C17 (`Tahoe/Props/C17.lean`).
-/
import Tahoe.Crypto.Use
import Tahoe.Crypto.Lemmas

namespace Tahoe.Crypto.Use
open Tahoe.Crypto.Derive Tahoe.Generated

/-- the tracker the specification prescribes for server `s`: secrets hashed from `s`'s *own* lease seed -/
def specTracker (frs fcs : List UInt8) (s : Server) : Tracker :=
  ⟨s, taggedPairHash Hashutil.BUCKET_RENEWAL_TAG frs s.leaseSeed Hashutil.TRUNC_bucket_renewal_secret_hash,
      taggedPairHash Hashutil.BUCKET_CANCEL_TAG fcs s.leaseSeed Hashutil.TRUNC_bucket_cancel_secret_hash⟩

theorem mkTracker_eq (frs fcs : List UInt8) (s : Server) :
    mkTracker frs fcs s = if s.leaseSeed.length = 20 then some (specTracker frs fcs s) else none := by
  simp only [mkTracker, bucketRenewalSecretHash, bucketCancelSecretHash, specTracker]
  by_cases h : s.leaseSeed.length = 20 <;> simp [h]

theorem makeTrackers_of_all20 (frs fcs : List UInt8) :
    ∀ (l : List Server), (∀ s ∈ l, s.leaseSeed.length = 20) →
      makeTrackers frs fcs l = some (l.map (specTracker frs fcs))
  | [], _ => rfl
  | s :: rest, h => by
    have hs : s.leaseSeed.length = 20 := h s List.mem_cons_self
    have hr := makeTrackers_of_all20 frs fcs rest (fun x hx => h x (List.mem_cons_of_mem _ hx))
    simp only [makeTrackers, mkTracker_eq, hs, if_true, hr, Option.map_some, List.map_cons]

theorem makeTrackers_some_inv (frs fcs : List UInt8) :
    ∀ (l : List Server) (ts : List Tracker), makeTrackers frs fcs l = some ts →
      (∀ s ∈ l, s.leaseSeed.length = 20) ∧ ts = l.map (specTracker frs fcs)
  | [], ts, h => by
    simp only [makeTrackers, Option.some.injEq] at h
    exact ⟨fun _ hx => absurd hx List.not_mem_nil, h.symm⟩
  | s :: rest, ts, h => by
    simp only [makeTrackers, mkTracker_eq] at h
    by_cases hs : s.leaseSeed.length = 20
    · simp only [hs, if_true] at h
      match hr : makeTrackers frs fcs rest with
      | none => rw [hr] at h; simp at h
      | some tr =>
        rw [hr] at h
        simp only [Option.map_some, Option.some.injEq] at h
        obtain ⟨h20, htr⟩ := makeTrackers_some_inv frs fcs rest tr hr
        refine ⟨?_, ?_⟩
        · intro x hx
          rcases List.mem_cons.mp hx with rfl | hx
          · exact hs
          · exact h20 x hx
        · rw [← h, htr, List.map_cons]
    · simp only [hs, if_false] at h
      exact absurd h (by simp)

theorem createTrackersP_some_inv (p : Server → Bool) (cands : List Server) (frs fcs : List UInt8)
    (ro wr : List Tracker) (h : createTrackersP p cands frs fcs = some (ro, wr)) :
    wr = (cands.filter p).map (specTracker frs fcs) ∧
    ro = (cands.filter (fun s => !p s)).map (specTracker frs fcs) ∧
    (∀ s ∈ cands, s.leaseSeed.length = 20) := by
  simp only [createTrackersP] at h
  match hw : makeTrackers frs fcs (cands.filter p) with
  | none => rw [hw] at h; simp at h
  | some w =>
    rw [hw] at h
    match hr : makeTrackers frs fcs (cands.filter (fun s => !p s)) with
    | none => rw [hr] at h; simp at h
    | some r =>
      rw [hr] at h
      simp only [Option.some.injEq, Prod.mk.injEq] at h
      obtain ⟨hw20, hwe⟩ := makeTrackers_some_inv frs fcs _ w hw
      obtain ⟨hr20, hre⟩ := makeTrackers_some_inv frs fcs _ r hr
      refine ⟨by rw [← h.2, hwe], by rw [← h.1, hre], ?_⟩
      intro s hs
      by_cases hp : p s = true
      · exact hw20 s (List.mem_filter.mpr ⟨hs, hp⟩)
      · exact hr20 s (List.mem_filter.mpr ⟨hs, by simp [hp]⟩)

theorem createTrackersP_of_all20 (p : Server → Bool) (cands : List Server) (frs fcs : List UInt8)
    (h : ∀ s ∈ cands, s.leaseSeed.length = 20) :
    createTrackersP p cands frs fcs =
      some ((cands.filter (fun s => !p s)).map (specTracker frs fcs), (cands.filter p).map (specTracker frs fcs)) := by
  have hw := makeTrackers_of_all20 frs fcs (cands.filter p) (fun s hs => h s (List.mem_filter.mp hs).1)
  have hr := makeTrackers_of_all20 frs fcs (cands.filter (fun s => !p s)) (fun s hs => h s (List.mem_filter.mp hs).1)
  simp only [createTrackersP, hw, hr]

/-! ### mutable writers -/

/-- the write proxy the specification prescribes for `(server, shnum)` -/
def specWriter (nd : MutNode) (g : Server × Nat) : Writer :=
  ⟨g.2, g.1, nd.storageIndex,
   taggedPairHash Hashutil.MUTABLE_WRITE_ENABLER_TAG (sskWriteEnablerMasterHash nd.writekey) g.1.weSeed
     Hashutil.TRUNC_ssk_write_enabler_hash,
   taggedPairHash Hashutil.BUCKET_RENEWAL_TAG
     (fileRenewalSecretHash (myRenewalSecretHash nd.leaseSecret) nd.storageIndex) g.1.leaseSeed
     Hashutil.TRUNC_bucket_renewal_secret_hash,
   taggedPairHash Hashutil.BUCKET_CANCEL_TAG
     (fileCancelSecretHash (myCancelSecretHash nd.leaseSecret) nd.storageIndex) g.1.leaseSeed
     Hashutil.TRUNC_bucket_cancel_secret_hash⟩

theorem mkWriter_eq (nd : MutNode) (g : Server × Nat) :
    mkWriter nd g = if g.1.weSeed.length = 20 ∧ g.1.leaseSeed.length = 20 then some (specWriter nd g) else none := by
  simp only [mkWriter, MutNode.getWriteEnabler, MutNode.getRenewalSecret, MutNode.getCancelSecret,
    sskWriteEnablerHash, renewalSecretChain, cancelSecretChain, bucketRenewalSecretHash, bucketCancelSecretHash,
    specWriter]
  by_cases h1 : g.1.weSeed.length = 20 <;> by_cases h2 : g.1.leaseSeed.length = 20 <;> simp [h1, h2]

theorem publishWriters_some_inv (nd : MutNode) :
    ∀ (goal : List (Server × Nat)) (ws : List Writer), publishWriters nd goal = some ws →
      (∀ g ∈ goal, g.1.weSeed.length = 20 ∧ g.1.leaseSeed.length = 20) ∧ ws = goal.map (specWriter nd)
  | [], ws, h => by
    simp only [publishWriters, Option.some.injEq] at h
    exact ⟨fun _ hx => absurd hx List.not_mem_nil, h.symm⟩
  | g :: rest, ws, h => by
    simp only [publishWriters, mkWriter_eq] at h
    by_cases hg : g.1.weSeed.length = 20 ∧ g.1.leaseSeed.length = 20
    · simp only [hg, and_self, if_true] at h
      match hr : publishWriters nd rest with
      | none => rw [hr] at h; simp at h
      | some wr =>
        rw [hr] at h
        simp only [Option.map_some, Option.some.injEq] at h
        obtain ⟨h20, hwr⟩ := publishWriters_some_inv nd rest wr hr
        refine ⟨?_, ?_⟩
        · intro x hx
          rcases List.mem_cons.mp hx with rfl | hx
          · exact hg
          · exact h20 x hx
        · rw [← h, hwr, List.map_cons]
    · simp only [hg, if_false] at h
      exact absurd h (by simp)

theorem publishWriters_of_all20 (nd : MutNode) :
    ∀ (goal : List (Server × Nat)), (∀ g ∈ goal, g.1.weSeed.length = 20 ∧ g.1.leaseSeed.length = 20) →
      publishWriters nd goal = some (goal.map (specWriter nd))
  | [], _ => rfl
  | g :: rest, h => by
    have hg := h g List.mem_cons_self
    have hr := publishWriters_of_all20 nd rest (fun x hx => h x (List.mem_cons_of_mem _ hx))
    simp only [publishWriters, mkWriter_eq, hg, and_self, if_true, hr, Option.map_some, List.map_cons]

end Tahoe.Crypto.Use
