import Tahoe.Config.Doc
/-! Helper lemmas for `Tahoe/Props/C48.lean` (structure of the recognisers). -/
namespace Tahoe.Config

/-! ### whitespace and digits -/

theorem dropWs_append_ws (pre r : List Sym) (h : pre.all isWs = true) : dropWs (pre ++ r) = dropWs r := by
  induction pre with
  | nil => rfl
  | cons x xs ih =>
    simp only [List.all_cons, Bool.and_eq_true] at h
    simp [dropWs, h.1, ih h.2]

theorem dropWs_spec (s : List Sym) : ∃ pre, s = pre ++ dropWs s ∧ pre.all isWs = true := by
  induction s with
  | nil => exact ⟨[], rfl, rfl⟩
  | cons x xs ih =>
    by_cases hx : isWs x = true
    · obtain ⟨pre, h1, h2⟩ := ih
      refine ⟨x :: pre, ?_, ?_⟩
      · simp only [dropWs, hx, if_true, List.cons_append]; rw [← h1]
      · simp [hx, h2]
    · exact ⟨[], by simp [dropWs, hx], rfl⟩

/-- a list that does not begin with whitespace -/
def headNotWs : List Sym → Bool
  | [] => true
  | x :: _ => !isWs x

theorem dropWs_of_headNotWs (r : List Sym) (h : headNotWs r = true) : dropWs r = r := by
  cases r with
  | nil => rfl
  | cons x xs => simp [headNotWs] at h; simp [dropWs, h]

theorem headNotWs_dropWs (r : List Sym) : headNotWs (dropWs r) = true := by
  induction r with
  | nil => rfl
  | cons x xs ih =>
    by_cases hx : isWs x = true
    · simp [dropWs, hx, ih]
    · simp [dropWs, hx, headNotWs]

/-- a list that does not begin with a digit -/
def headNotDig : List Sym → Bool
  | .dig _ :: _ => false
  | _ => true

theorem takeDigits_of_headNotDig (r : List Sym) (h : headNotDig r = true) : takeDigits r = ([], r) := by
  cases r with
  | nil => rfl
  | cons x xs => cases x <;> simp_all [headNotDig, takeDigits]

theorem takeDigits_map_dig (ds : List (Fin 10)) (r : List Sym) (h : headNotDig r = true) :
    takeDigits (ds.map Sym.dig ++ r) = (ds, r) := by
  induction ds with
  | nil => simpa using takeDigits_of_headNotDig r h
  | cons d ds ih => simp [takeDigits, ih]

theorem takeDigits_spec (r : List Sym) :
    r = (takeDigits r).1.map Sym.dig ++ (takeDigits r).2 ∧ headNotDig (takeDigits r).2 = true := by
  induction r with
  | nil => exact ⟨rfl, rfl⟩
  | cons x xs ih =>
    cases x with
    | dig v => simp only [takeDigits, List.map_cons, List.cons_append]; exact ⟨by rw [← ih.1], ih.2⟩
    | _ => simp [takeDigits, headNotDig]

theorem headNotDig_ws_append (mid r : List Sym) (hm : mid.all isWs = true) (hr : headNotDig r = true) :
    headNotDig (mid ++ r) = true := by
  cases mid with
  | nil => simpa using hr
  | cons x xs =>
    simp only [List.all_cons, Bool.and_eq_true] at hm
    cases x <;> simp_all [headNotDig, isWs]

theorem headNotDig_wordSyms (w : List Nat) (r : List Sym) (hr : headNotDig r = true) : headNotDig (wordSyms w ++ r) = true := by
  cases w with
  | nil => simpa [wordSyms] using hr
  | cons c cs => simp [wordSyms, headNotDig]

theorem headNotWs_wordSyms (w : List Nat) (r : List Sym) (hr : headNotWs r = true) : headNotWs (wordSyms w ++ r) = true := by
  cases w with
  | nil => simpa [wordSyms] using hr
  | cons c cs => simp [wordSyms, headNotWs, isWs]

/-! ### `int()` and `"%d"` -/

theorem num_append_single (ds : List (Fin 10)) (d : Fin 10) : num (ds ++ [d]) = 10 * num ds + d.val := by
  simp [num, List.foldl_append]

theorem digitsFuel_ne_nil (f n : Nat) : digitsFuel f n ≠ [] := by
  cases f with
  | zero => simp [digitsFuel]
  | succ f => simp only [digitsFuel]; split <;> simp

theorem num_digitsFuel (f : Nat) : ∀ n, n < 10 ^ (f + 1) → num (digitsFuel f n) = n := by
  induction f with
  | zero => intro n h; simp [digitsFuel, num]; omega
  | succ f ih =>
    intro n h
    simp only [digitsFuel]
    split
    · simp [num]; omega
    · rw [num_append_single, ih (n / 10) (by rw [Nat.pow_succ] at h; omega)]
      simp; omega

theorem lt_ten_pow_log2 (n : Nat) : n < 10 ^ (Nat.log2 n + 1) :=
  Nat.lt_of_lt_of_le Nat.lt_log2_self (Nat.pow_le_pow_left (by decide) _)

theorem num_digitsOf (n : Nat) : num (digitsOf n) = n := num_digitsFuel _ n (lt_ten_pow_log2 n)

theorem digitsOf_ne_nil (n : Nat) : digitsOf n ≠ [] := digitsFuel_ne_nil _ _

/-! ### case mappings -/

theorem map_upperSym_dig (ds : List (Fin 10)) : (ds.map Sym.dig).map upperSym = ds.map Sym.dig := by
  induction ds with
  | nil => rfl
  | cons d ds ih => simp_all [upperSym]

theorem map_upperSym_ws (mid : List Sym) (h : mid.all isWs = true) : mid.map upperSym = mid := by
  induction mid with
  | nil => rfl
  | cons x xs ih =>
    simp only [List.all_cons, Bool.and_eq_true] at h
    cases x <;> simp_all [upperSym, isWs]

theorem upperSym_eq_dig {x : Sym} {v : Fin 10} (h : upperSym x = .dig v) : x = .dig v := by
  cases x <;> simp_all [upperSym]

theorem isWs_of_upperSym {x : Sym} (h : isWs (upperSym x) = true) : isWs x = true := by
  cases x <;> simp_all [upperSym, isWs]

theorem upperSym_eq_nl {x : Sym} (h : upperSym x = .nl) : x = .nl := by
  cases x <;> simp_all [upperSym]

theorem map_upperSym_eq_dig (s : List Sym) (ds : List (Fin 10)) (h : s.map upperSym = ds.map Sym.dig) : s = ds.map Sym.dig := by
  induction s generalizing ds with
  | nil => cases ds <;> simp_all
  | cons x xs ih =>
    cases ds with
    | nil => simp at h
    | cons d ds =>
      simp only [List.map_cons, List.cons.injEq] at h
      simp [upperSym_eq_dig h.1, ih ds h.2]

theorem all_isWs_of_map_upperSym (s : List Sym) (h : (s.map upperSym).all isWs = true) : s.all isWs = true := by
  induction s with
  | nil => rfl
  | cons x xs ih =>
    simp only [List.map_cons, List.all_cons, Bool.and_eq_true] at h ⊢
    exact ⟨isWs_of_upperSym h.1, ih h.2⟩

theorem foldCI_of_lowerSym {x : Sym} {c : Nat} (h : lowerSym x = .asc c) : foldCI x = some c := by
  cases x <;> simp_all [lowerSym, foldCI]

theorem not_isWs_of_lowerSym {x : Sym} {c : Nat} (h : lowerSym x = .asc c) : isWs x = false := by
  cases x <;> simp_all [lowerSym, isWs]

/-! ### the unit alternation -/

/-- on a case variant `w` of the word `word'` followed by whitespace, the alternative `u` followed by
    `\s*$` matches exactly when `u` is that word -/
theorem tryUnit_variant (u : List Nat) (k : Nat) : ∀ (w : List Sym) (word' : List Nat) (post : List Sym),
    w.map lowerSym = wordSyms word' → post.all isWs = true →
    tryUnit (w ++ post) (u, k) = if u = word' then some w else none := by
  unfold tryUnit
  induction u with
  | nil =>
    intro w word' post hw hpost
    simp only [matchWordCI]
    cases w with
    | nil => cases word' <;> simp_all [wordSyms]
    | cons x xs =>
      cases word' with
      | nil => simp [wordSyms] at hw
      | cons c cs =>
        simp only [wordSyms, List.map_cons, List.cons.injEq] at hw
        simp [not_isWs_of_lowerSym hw.1]
  | cons a u ih =>
    intro w word' post hw hpost
    cases w with
    | nil =>
      cases word' with
      | cons c cs => simp [wordSyms] at hw
      | nil =>
        cases post with
        | nil => simp [matchWordCI]
        | cons p ps =>
          simp only [List.all_cons, Bool.and_eq_true] at hpost
          cases p <;> simp_all [matchWordCI, foldCI, isWs]
    | cons x xs =>
      cases word' with
      | nil => simp [wordSyms] at hw
      | cons c cs =>
        simp only [wordSyms, List.map_cons, List.cons.injEq] at hw
        have h1 := foldCI_of_lowerSym hw.1
        have := ih xs cs post (by simpa [wordSyms] using hw.2) hpost
        by_cases hc : c = a
        · subst hc
          simp only [List.cons_append, matchWordCI, h1, if_true, List.cons.injEq, true_and]
          cases hm : matchWordCI u (xs ++ post) with
          | none =>
            rw [hm] at this
            simp only at this ⊢
            by_cases hu : u = cs
            · simp [hu] at this
            · simp [hu]
          | some p =>
            obtain ⟨m, r'⟩ := p
            rw [hm] at this
            simp only at this ⊢
            by_cases hr : r'.all isWs = true
            · simp only [hr, if_true] at this ⊢
              by_cases hu : u = cs
              · simp only [hu, if_true, Option.some.injEq] at this ⊢; rw [this]
              · simp [hu] at this
            · simp only [hr] at this ⊢
              by_cases hu : u = cs
              · simp [hu] at this
              · simp [hu]
        · have hne : ¬ (some c = some a) := by simpa using hc
          have hne2 : ¬ (a :: u = c :: cs) := by
            intro h; simp only [List.cons.injEq] at h; exact hc h.1.symm
          simp only [List.cons_append, matchWordCI, h1, hne, hne2, if_false]

theorem findSome_tryUnit (tbl : List (List Nat × Nat)) (w : List Sym) (word' : List Nat) (post : List Sym)
    (hw : w.map lowerSym = wordSyms word') (hpost : post.all isWs = true) (k : Nat) (hmem : (word', k) ∈ tbl) :
    tbl.findSome? (tryUnit (w ++ post)) = some w := by
  induction tbl with
  | nil => simp at hmem
  | cons p ps ih =>
    obtain ⟨u, k'⟩ := p
    simp only [List.findSome?_cons, tryUnit_variant u k' w word' post hw hpost]
    by_cases hu : u = word'
    · simp [hu]
    · simp only [hu, if_false]
      apply ih
      simp only [List.mem_cons, Prod.mk.injEq] at hmem
      rcases hmem with ⟨h, _⟩ | h
      · exact absurd h.symm hu
      · exact h

theorem matchWordCI_spec (u : List Nat) : ∀ (r m rest : List Sym), matchWordCI u r = some (m, rest) →
    r = m ++ rest ∧ m.map foldCI = u.map some := by
  induction u with
  | nil => intro r m rest h; simp [matchWordCI] at h; simp [h.1, h.2]
  | cons c u ih =>
    intro r m rest h
    cases r with
    | nil => simp [matchWordCI] at h
    | cons x xs =>
      simp only [matchWordCI] at h
      split at h
      · rename_i hx
        cases hm : matchWordCI u xs with
        | none => simp [hm] at h
        | some p =>
          obtain ⟨m', r'⟩ := p
          simp only [hm, Option.some.injEq, Prod.mk.injEq] at h
          obtain ⟨h1, h2⟩ := ih xs m' r' hm
          obtain ⟨e1, e2⟩ := h
          subst e1 e2
          simp [h1, h2, hx]
      · simp at h

theorem lookupWord_spec (tbl : List (List Nat × Nat)) (w : List Sym) (k : Nat) (h : lookupWord tbl w = some k) :
    ∃ word, (word, k) ∈ tbl ∧ wordSyms word = w := by
  unfold lookupWord at h
  split at h
  · rename_i p hp
    simp only [Option.some.injEq] at h
    have h1 := List.mem_of_find?_eq_some hp
    have h2 := List.find?_some hp
    exact ⟨p.1, by rw [← h]; exact h1, by simpa using h2⟩
  · simp at h

/-! ### the optional letters of the size suffix -/

theorem optLetter_spec (allowed : List Nat) (r : List Sym) :
    r = wordSyms (optLetter allowed r).1 ++ (optLetter allowed r).2 ∧
    ((optLetter allowed r).1 = [] ∨ ∃ c, c ∈ allowed ∧ (optLetter allowed r).1 = [c]) := by
  cases r with
  | nil => simp [optLetter, wordSyms]
  | cons x xs =>
    cases x with
    | asc c =>
      simp only [optLetter]
      split
      · rename_i h; simp [wordSyms]; simpa using h
      · simp [wordSyms]
    | _ => simp [optLetter, wordSyms]

theorem atDollar_spec (r : List Sym) (h : atDollar r = true) : r = [] ∨ r = [.nl] := by
  cases r with
  | nil => simp
  | cons x xs =>
    cases xs with
    | nil => cases x <;> simp_all [atDollar]
    | cons y ys => cases x <;> simp_all [atDollar]

/-- what `([KMGTPE]?[I]?[B]?)$` followed by the dict lookup accepts -/
theorem sizeMult_spec (tbl : List (List Nat × Nat)) (r2 : List Sym) (k : Nat) (h : sizeMult tbl r2 = .ok k) :
    ∃ a b c tail, r2 = wordSyms (a ++ b ++ c) ++ tail ∧
      (a = [] ∨ a = [75] ∨ a = [77] ∨ a = [71] ∨ a = [84] ∨ a = [80] ∨ a = [69]) ∧
      (b = [] ∨ b = [73]) ∧ (c = [] ∨ c = [66]) ∧ (tail = [] ∨ tail = [.nl]) ∧
      lookupWord tbl (wordSyms (a ++ b)) = some k := by
  obtain ⟨ha, ha'⟩ := optLetter_spec scaleLetters r2
  obtain ⟨hb, hb'⟩ := optLetter_spec [73] (optLetter scaleLetters r2).2
  obtain ⟨hc, hc'⟩ := optLetter_spec [66] (optLetter [73] (optLetter scaleLetters r2).2).2
  unfold sizeMult at h
  dsimp only at h
  generalize optLetter [66] (optLetter [73] (optLetter scaleLetters r2).2).2 = c at h hc hc'
  generalize optLetter [73] (optLetter scaleLetters r2).2 = b at h hb hb' hc
  generalize optLetter scaleLetters r2 = a at h ha ha' hb
  split at h
  · simp at h
  · rename_i hdollar
    have htail := atDollar_spec c.2 (by simpa using hdollar)
    split at h
    · rename_i k' hk'
      simp only [Res.ok.injEq] at h
      subst h
      refine ⟨a.1, b.1, c.1, c.2, ?_, by simpa [scaleLetters] using ha', by simpa using hb', by simpa using hc', htail, hk'⟩
      rw [ha, hb, hc]; simp [wordSyms, List.append_assoc]
    · simp at h

/-- scale letter number of the matched `[KMGTPE]?` -/
def scaleIdx : List Nat → Nat
  | [] => 0
  | x :: _ => scaleLetters.idxOf x + 1

theorem size_table (i : Nat) (hi : i ≤ 6) (bin : Bool) :
    lookupWord Generated.Config.size_multipliers (wordSyms (sizeSuffix i bin false)) = some (sizeBase bin ^ i) := by
  have : i = 0 ∨ i = 1 ∨ i = 2 ∨ i = 3 ∨ i = 4 ∨ i = 5 ∨ i = 6 := by omega
  rcases this with rfl | rfl | rfl | rfl | rfl | rfl | rfl <;> cases bin <;> decide

/-- the 28 suffixes the pattern can match are the documented ones, with the documented multipliers -/
theorem suffix_enum (a b c : List Nat) (k : Nat)
    (ha : a = [] ∨ a = [75] ∨ a = [77] ∨ a = [71] ∨ a = [84] ∨ a = [80] ∨ a = [69])
    (hb : b = [] ∨ b = [73]) (hc : c = [] ∨ c = [66])
    (hk : lookupWord Generated.Config.size_multipliers (wordSyms (a ++ b)) = some k) :
    ∃ i bin hasB, i ≤ 6 ∧ a ++ b ++ c = sizeSuffix i bin hasB ∧ k = sizeBase bin ^ i := by
  refine ⟨scaleIdx a, !b.isEmpty, !c.isEmpty, ?_, ?_, ?_⟩
  · rcases ha with rfl | rfl | rfl | rfl | rfl | rfl | rfl <;> decide
  · rcases ha with rfl | rfl | rfl | rfl | rfl | rfl | rfl <;> rcases hb with rfl | rfl <;> rcases hc with rfl | rfl <;> decide
  · have e : a ++ b = sizeSuffix (scaleIdx a) (!b.isEmpty) false := by
      rcases ha with rfl | rfl | rfl | rfl | rfl | rfl | rfl <;> rcases hb with rfl | rfl <;> decide
    have hi : scaleIdx a ≤ 6 := by rcases ha with rfl | rfl | rfl | rfl | rfl | rfl | rfl <;> decide
    rw [e, size_table _ hi] at hk
    exact (Option.some.inj hk).symm

/-- a decimal point where the suffix should start: `[KMGTPE]?[I]?[B]?$` cannot match -/
theorem sizeMult_dot (tbl : List (List Nat × Nat)) (r : List Sym) : sizeMult tbl (.asc 46 :: r) = .valueError := by
  simp [sizeMult, optLetter, scaleLetters, atDollar]

/-- digits followed by a decimal point are not a size -/
theorem parseSize_digits_dot (tbl : List (List Nat × Nat)) (ds : List (Fin 10)) (hds : ds ≠ []) (r : List Sym) :
    parseSizeWith tbl (ds.map Sym.dig ++ .asc 46 :: r) = .valueError := by
  have hne : (ds.map Sym.dig ++ Sym.asc 46 :: r).isEmpty = false := by cases ds <;> simp_all
  have hds' : ds.isEmpty = false := by cases ds <;> simp_all
  have hup : upperSym (.asc 46) = .asc 46 := by decide
  unfold parseSizeWith
  rw [if_neg (by rw [hne]; simp)]
  simp only [List.map_append, List.map_cons, map_upperSym_dig, hup,
    takeDigits_map_dig ds (Sym.asc 46 :: r.map upperSym) rfl, hds', Bool.false_eq_true, if_false]
  rw [dropWs_of_headNotWs _ rfl, sizeMult_dot]

/-- every suffix the pattern can match is a key of the multiplier dict -/
theorem sizeMult_ne_keyError (r2 : List Sym) : sizeMult Generated.Config.size_multipliers r2 ≠ .keyError := by
  intro h
  obtain ⟨-, ha'⟩ := optLetter_spec scaleLetters r2
  obtain ⟨-, hb'⟩ := optLetter_spec [73] (optLetter scaleLetters r2).2
  unfold sizeMult at h
  dsimp only at h
  generalize optLetter [73] (optLetter scaleLetters r2).2 = b at h hb'
  generalize optLetter scaleLetters r2 = a at h ha'
  split at h
  · simp at h
  · split at h
    · simp at h
    · rename_i hnone
      have ha'' : a.1 = [] ∨ a.1 = [75] ∨ a.1 = [77] ∨ a.1 = [71] ∨ a.1 = [84] ∨ a.1 = [80] ∨ a.1 = [69] := by
        simpa [scaleLetters] using ha'
      have hb'' : b.1 = [] ∨ b.1 = [73] := by simpa using hb'
      rcases ha'' with e | e | e | e | e | e | e <;> rcases hb'' with f | f <;> rw [e, f] at hnone <;>
        revert hnone <;> decide

/-- completeness of the size recogniser, final newline included -/
theorem parseSize_complete (ds : List (Fin 10)) (mid w tail : List Sym) (i : Nat) (bin hasB : Bool)
    (hds : ds ≠ []) (hmid : mid.all isWs = true) (htail : tail = [] ∨ tail = [Sym.nl]) (hi : i ≤ 6)
    (hw : w.map upperSym = wordSyms (sizeSuffix i bin hasB)) :
    parseSize (ds.map Sym.dig ++ mid ++ w ++ tail) = .ok (num ds * sizeBase bin ^ i) := by
  have hne : (ds.map Sym.dig ++ mid ++ w ++ tail).isEmpty = false := by cases ds <;> simp_all
  have hds' : ds.isEmpty = false := by cases ds <;> simp_all
  have htail' : tail.map upperSym = tail := by rcases htail with rfl | rfl <;> rfl
  have htws : tail.all isWs = true := by rcases htail with rfl | rfl <;> rfl
  have hnd : headNotDig tail = true := by rcases htail with rfl | rfl <;> rfl
  have hi7 : i = 0 ∨ i = 1 ∨ i = 2 ∨ i = 3 ∨ i = 4 ∨ i = 5 ∨ i = 6 := by omega
  have hcore : sizeMult Generated.Config.size_multipliers (wordSyms (sizeSuffix i bin hasB) ++ tail) = .ok (sizeBase bin ^ i) := by
    rcases hi7 with rfl | rfl | rfl | rfl | rfl | rfl | rfl <;> cases bin <;> cases hasB <;>
      rcases htail with rfl | rfl <;> decide
  have hcore0 : sizeMult Generated.Config.size_multipliers [] = .ok (sizeBase bin ^ 0) := by cases bin <;> decide
  have hdig : headNotDig (mid ++ (wordSyms (sizeSuffix i bin hasB) ++ tail)) = true :=
    headNotDig_ws_append _ _ hmid (headNotDig_wordSyms _ _ hnd)
  unfold parseSize parseSizeWith
  rw [if_neg (by rw [hne]; simp)]
  simp only [List.map_append, map_upperSym_dig, map_upperSym_ws mid hmid, hw, htail', List.append_assoc,
    takeDigits_map_dig _ _ hdig, hds', Bool.false_eq_true, if_false, dropWs_append_ws _ _ hmid]
  by_cases hnil : sizeSuffix i bin hasB = []
  · have hi0 : i = 0 := by
      rcases hi7 with rfl | rfl | rfl | rfl | rfl | rfl | rfl <;> cases bin <;> cases hasB <;> simp [sizeSuffix] at hnil ⊢
    subst hi0
    rw [hnil]
    have : dropWs (wordSyms [] ++ tail) = [] := by rcases htail with rfl | rfl <;> rfl
    rw [this, hcore0]
  · have hws : headNotWs (wordSyms (sizeSuffix i bin hasB) ++ tail) = true := by
      cases hsfx : sizeSuffix i bin hasB with
      | nil => exact absurd hsfx hnil
      | cons c cs => simp [wordSyms, headNotWs, isWs]
    rw [dropWs_of_headNotWs _ hws, hcore]

/-! ### calendar -/

theorem daysBeforeYear_succ (y : Nat) (hy : 1 ≤ y) :
    daysBeforeYear (y + 1) = daysBeforeYear y + 365 + (if isLeap y then 1 else 0) := by
  have h4 : y / 4 = (y - 1) / 4 + (if y % 4 = 0 then 1 else 0) := by split <;> omega
  have h100 : y / 100 = (y - 1) / 100 + (if y % 100 = 0 then 1 else 0) := by split <;> omega
  have h400 : y / 400 = (y - 1) / 400 + (if y % 400 = 0 then 1 else 0) := by split <;> omega
  have l1 : (y - 1) / 100 ≤ (y - 1) / 4 := by omega
  have hl : isLeap y = true ↔ (y % 4 = 0 ∧ (y % 100 ≠ 0 ∨ y % 400 = 0)) := by simp [isLeap]
  have i1 : y % 400 = 0 → y % 100 = 0 := by omega
  have i2 : y % 100 = 0 → y % 4 = 0 := by omega
  simp only [daysBeforeYear, Nat.add_sub_cancel]
  rw [h4, h100, h400]
  clear h4 h100 h400
  generalize (y - 1) / 4 = a at *
  generalize (y - 1) / 100 = b at *
  generalize (y - 1) / 400 = c at *
  by_cases p4 : y % 4 = 0 <;> by_cases p100 : y % 100 = 0 <;> by_cases p400 : y % 400 = 0 <;>
    simp only [hl, p4, p100, p400, if_true, if_false, true_and, false_and, not_true_eq_false, not_false_eq_true,
      or_true, or_false, ne_eq, forall_const, imp_false] at i1 i2 ⊢ <;>
    first | omega | (exfalso; omega)

end Tahoe.Config
