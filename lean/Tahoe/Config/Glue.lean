import Tahoe.Config.Parse
/-!
# C48 — model of the client.py glue: `[storage]` keys of tahoe.cfg → parser calls → StorageServer arguments

Mirrors `allmydata.client._Client.get_anonymous_storage_server` (the part between `read_config` and
`StorageServer(...)`) and `allmydata.storage.expirer.LeaseCheckingCrawler.__init__` (mode check), in
source order, so that the *first* error raised is the model's error.

Abstractions (the harness `harness/props/c48.py glue_line` applies them; compared with the real
`read_config` + `_Client.get_anonymous_storage_server` on generated tahoe.cfg files):
* a key is `none` when absent from `[storage]`; a present value is the text written after `key =` on
  that line, as symbols (no "\n"/"\r": one physical line); configparser hands the parser `value.strip()`
  — `strip` below.
* booleans (`configparser.getboolean`): `t` for 1/yes/true/on, `f` for 0/no/false/off (any case), `bad`
  for anything else (→ `ValueError`).
* `expire.mode` is compared with the literals "age" and "cutoff-date": `age`, `cutoff`, or `other`.
`storage_dir`, plugins and announcements are outside the model.
-/
namespace Tahoe.Config

inductive BoolVal where
  | t | f | bad
  deriving DecidableEq, Repr

inductive ModeVal where
  | age | cutoff | other
  deriving DecidableEq, Repr

/-- the `[storage]` section as far as this code reads it -/
structure StorageCfg where
  readonly : Option BoolVal := none
  reservedSpace : Option (List Sym) := none
  debugDiscard : Option BoolVal := none
  expireEnabled : Option BoolVal := none
  expireMode : Option ModeVal := none
  overrideLeaseDuration : Option (List Sym) := none
  cutoffDate : Option (List Sym) := none
  expireImmutable : Option BoolVal := none
  expireMutable : Option BoolVal := none
  deriving DecidableEq, Repr

/-- why node start stops: `ValueError`, `KeyError`, `MissingConfigEntry` -/
inductive StartErr where
  | valueError | keyError | missingEntry
  deriving DecidableEq, Repr

/-- what the storage server and its lease checker end up configured with -/
structure Started where
  reserved : Nat                 -- StorageServer.reserved_space
  enabled : Bool                 -- lease_checker.expiration_enabled
  mode : ModeVal                 -- lease_checker.mode (never `other`)
  overrideDuration : Option Nat  -- lease_checker.override_lease_duration
  cutoff : Option Int            -- lease_checker.cutoff_date
  immutable : Bool               -- "immutable" ∈ sharetypes_to_expire
  mutable : Bool
  readonly : Bool
  deriving DecidableEq, Repr

inductive Start where
  | started (s : Started)
  | error (e : StartErr)
  deriving DecidableEq, Repr

/-- `str.strip()` -/
def strip (s : List Sym) : List Sym := (dropWs (dropWs s).reverse).reverse

/-- `config.get_config("storage", key, default, boolean=True)` -/
def getBool (v : Option BoolVal) (dflt : Bool) : Except StartErr Bool :=
  match v with
  | none => .ok dflt
  | some .t => .ok true
  | some .f => .ok false
  | some .bad => .error .valueError

/-- a parser result as the caller sees it -/
def liftRes {α : Type} (r : Res α) (ifNone : α) : Except StartErr α :=
  match r with
  | .ok v => .ok v
  | .none => .ok ifNone
  | .valueError => .error .valueError
  | .keyError => .error .keyError

/-- `reserved = parse_abbreviated_size(get_config("storage","reserved_space",None))`, `None → 0` -/
def readReserved (c : StorageCfg) : Except StartErr Nat :=
  match c.reservedSpace with
  | none => .ok 0
  | some v => liftRes (parseSize (strip v)) 0

/-- `expire.mode`: required when expiry is enabled, else default "age" -/
def readMode (c : StorageCfg) (enabled : Bool) : Except StartErr ModeVal :=
  match c.expireMode with
  | some m => .ok m
  | none => if enabled then .error .missingEntry else .ok .age

/-- `expire.override_lease_duration`: parsed whenever present (whatever the mode) -/
def readOverride (c : StorageCfg) : Except StartErr (Option Nat) :=
  match c.overrideLeaseDuration with
  | none => .ok none
  | some v => (liftRes (parseDuration (strip v)) 0).map some

/-- `expire.cutoff_date`: read (and required) only when `mode == "cutoff-date"` -/
def readCutoff (c : StorageCfg) (mode : ModeVal) : Except StartErr (Option Int) :=
  if mode = .cutoff then
    match c.cutoffDate with
    | none => .error .missingEntry
    | some v => (liftRes (parseDate (strip v)) 0).map some
  else .ok none

/-- `get_anonymous_storage_server` up to and including `StorageServer(...)`/`LeaseCheckingCrawler(...)` -/
def startStorageE (c : StorageCfg) : Except StartErr Started := do
  let readonly ← getBool c.readonly false
  let reserved ← readReserved c
  let _ ← getBool c.debugDiscard false
  let enabled ← getBool c.expireEnabled false
  let mode ← readMode c enabled
  let old ← readOverride c
  let cutoff ← readCutoff c mode
  let imm ← getBool c.expireImmutable true
  let mu ← getBool c.expireMutable true
  -- LeaseCheckingCrawler.__init__: only "age" keeps the override, only "cutoff-date" the date, anything else raises
  match mode with
  | .age => pure ⟨reserved, enabled, .age, old, none, imm, mu, readonly⟩
  | .cutoff => pure ⟨reserved, enabled, .cutoff, none, cutoff, imm, mu, readonly⟩
  | .other => throw .valueError

def startStorage (c : StorageCfg) : Start :=
  match startStorageE c with
  | .ok s => .started s
  | .error e => .error e

end Tahoe.Config
