import Tahoe.Config.Parse
/-!
# C48 — model of the client.py glue: `[storage]` keys of tahoe.cfg → parser calls → StorageServer arguments

Mirrors `allmydata.client._Client.get_anonymous_storage_server` (the part between `read_config` and
`StorageServer(...)`) and `allmydata.storage.expirer.LeaseCheckingCrawler.__init__` (mode check), in
source order, so that the *first* error raised is the model's error.

Abstractions (the harness `harness/props/c48.py glue_line` applies them; compared with the real
`read_config` + `_Client.get_anonymous_storage_server` on generated tahoe.cfg files):
* a key is `none` when absent from `[storage]`; a present value is the text written after `key =` on
  that line, as symbols (no "\n"/"\r": one physical line); configparser hands the parser `value.strip()`
  — `strip` below.
* booleans (`configparser.getboolean`) and `expire.mode` are classified in the model from the value text
  (`classifyBool`, `classifyMode`, `readSection`; entry point `startStorageRaw`, which is what the driver runs):
  `t` for 1/yes/true/on, `f` for 0/no/false/off (any case), `bad` otherwise (→ `ValueError`); `age`, `cutoff`
  for the literals "age" / "cutoff-date", else `other`.  The theorems are stated on the classified section
  `StorageCfg` and lifted through `readSection`.
`storage_dir`, plugins and announcements are outside the model.
-/
namespace Tahoe.Config

inductive BoolVal where
  | t | f | bad
  deriving DecidableEq, Repr

inductive ModeVal where
  | age | cutoff | other
  deriving DecidableEq, Repr

/-- the `[storage]` section as far as this code reads it -/
structure StorageCfg where
  readonly : Option BoolVal := none
  reservedSpace : Option (List Sym) := none
  debugDiscard : Option BoolVal := none
  expireEnabled : Option BoolVal := none
  expireMode : Option ModeVal := none
  overrideLeaseDuration : Option (List Sym) := none
  cutoffDate : Option (List Sym) := none
  expireImmutable : Option BoolVal := none
  expireMutable : Option BoolVal := none
  deriving DecidableEq, Repr

/-- why node start stops: `ValueError`, `KeyError`, `MissingConfigEntry` -/
inductive StartErr where
  | valueError | keyError | missingEntry
  deriving DecidableEq, Repr

/-- what the storage server and its lease checker end up configured with -/
structure Started where
  reserved : Nat                 -- StorageServer.reserved_space
  enabled : Bool                 -- lease_checker.expiration_enabled
  mode : ModeVal                 -- lease_checker.mode (never `other`)
  overrideDuration : Option Nat  -- lease_checker.override_lease_duration
  cutoff : Option Int            -- lease_checker.cutoff_date
  immutable : Bool               -- "immutable" ∈ sharetypes_to_expire
  mutable : Bool
  readonly : Bool
  deriving DecidableEq, Repr

inductive Start where
  | started (s : Started)
  | error (e : StartErr)
  deriving DecidableEq, Repr

/-- `str.strip()` -/
def strip (s : List Sym) : List Sym := (dropWs (dropWs s).reverse).reverse

/-- `_Config.get_config("storage", key, default)` for a non-boolean key: the item configparser holds — the text
    after `key =`, `.strip()`ped — whenever the option is present, **also when it is blank** (`some []`); the
    default (`none`) only when the option is absent.  (Seed C48-e turned a blank item into the default.) -/
def getConfig (raw : Option (List Sym)) : Option (List Sym) :=
  match raw with
  | none => none
  | some v => some (strip v)

/-- `config.get_config("storage", key, default, boolean=True)` -/
def getBool (v : Option BoolVal) (dflt : Bool) : Except StartErr Bool :=
  match v with
  | none => .ok dflt
  | some .t => .ok true
  | some .f => .ok false
  | some .bad => .error .valueError

/-- a parser result as the caller sees it -/
def liftRes {α : Type} (r : Res α) (ifNone : α) : Except StartErr α :=
  match r with
  | .ok v => .ok v
  | .none => .ok ifNone
  | .valueError => .error .valueError
  | .keyError => .error .keyError

/-- `reserved = parse_abbreviated_size(get_config("storage","reserved_space",None))`, `None → 0` -/
def readReserved (c : StorageCfg) : Except StartErr Nat :=
  match getConfig c.reservedSpace with
  | none => .ok 0
  | some v => liftRes (parseSize v) 0

/-- `expire.mode`: required when expiry is enabled, else default "age" -/
def readMode (c : StorageCfg) (enabled : Bool) : Except StartErr ModeVal :=
  match c.expireMode with
  | some m => .ok m
  | none => if enabled then .error .missingEntry else .ok .age

/-- `expire.override_lease_duration`: parsed whenever present (whatever the mode) -/
def readOverride (c : StorageCfg) : Except StartErr (Option Nat) :=
  match getConfig c.overrideLeaseDuration with
  | none => .ok none                    -- `if o_l_d is not None:`
  | some v => (liftRes (parseDuration v) 0).map some

/-- `expire.cutoff_date`: read (and required) only when `mode == "cutoff-date"` -/
def readCutoff (c : StorageCfg) (mode : ModeVal) : Except StartErr (Option Int) :=
  if mode = .cutoff then
    match getConfig c.cutoffDate with
    | none => .error .missingEntry
    | some v => (liftRes (parseDate v) 0).map some
  else .ok none

/-- `get_anonymous_storage_server` up to and including `StorageServer(...)`/`LeaseCheckingCrawler(...)` -/
def startStorageE (c : StorageCfg) : Except StartErr Started := do
  let readonly ← getBool c.readonly false
  let reserved ← readReserved c
  let _ ← getBool c.debugDiscard false
  let enabled ← getBool c.expireEnabled false
  let mode ← readMode c enabled
  let old ← readOverride c
  let cutoff ← readCutoff c mode
  let imm ← getBool c.expireImmutable true
  let mu ← getBool c.expireMutable true
  -- LeaseCheckingCrawler.__init__: only "age" keeps the override, only "cutoff-date" the date, anything else raises
  match mode with
  | .age => pure ⟨reserved, enabled, .age, old, none, imm, mu, readonly⟩
  | .cutoff => pure ⟨reserved, enabled, .cutoff, none, cutoff, imm, mu, readonly⟩
  | .other => throw .valueError

def startStorage (c : StorageCfg) : Start :=
  match startStorageE c with
  | .ok s => .started s
  | .error e => .error e

/-! ### the same section with every value still text: `configparser.getboolean` and the mode literals -/

def trueWords : List (List Sym) :=      -- "1" "yes" "true" "on"
  [[.dig 1], wordSyms [121, 101, 115], wordSyms [116, 114, 117, 101], wordSyms [111, 110]]
def falseWords : List (List Sym) :=     -- "0" "no" "false" "off"
  [[.dig 0], wordSyms [110, 111], wordSyms [102, 97, 108, 115, 101], wordSyms [111, 102, 102]]

/-- `configparser.getboolean`: `BOOLEAN_STATES[value.lower()]` on the stripped item, `ValueError` if not a key.
    (Here `dig` stands for the ASCII digit only: the harness maps every non-ASCII character of a literal-compared
    value to `other`.) -/
def classifyBool (v : List Sym) : BoolVal :=
  let w := (strip v).map lowerSym
  if trueWords.contains w then .t else if falseWords.contains w then .f else .bad

/-- `mode == "age"` / `mode == "cutoff-date"` on the stripped item (case-sensitive literals) -/
def classifyMode (v : List Sym) : ModeVal :=
  let w := strip v
  if w = wordSyms [97, 103, 101] then .age
  else if w = wordSyms [99, 117, 116, 111, 102, 102, 45, 100, 97, 116, 101] then .cutoff
  else .other

structure RawStorageCfg where
  readonly : Option (List Sym) := none
  reservedSpace : Option (List Sym) := none
  debugDiscard : Option (List Sym) := none
  expireEnabled : Option (List Sym) := none
  expireMode : Option (List Sym) := none
  overrideLeaseDuration : Option (List Sym) := none
  cutoffDate : Option (List Sym) := none
  expireImmutable : Option (List Sym) := none
  expireMutable : Option (List Sym) := none
  deriving DecidableEq, Repr

def readSection (r : RawStorageCfg) : StorageCfg :=
  { readonly := r.readonly.map classifyBool, reservedSpace := r.reservedSpace,
    debugDiscard := r.debugDiscard.map classifyBool, expireEnabled := r.expireEnabled.map classifyBool,
    expireMode := r.expireMode.map classifyMode, overrideLeaseDuration := r.overrideLeaseDuration,
    cutoffDate := r.cutoffDate, expireImmutable := r.expireImmutable.map classifyBool,
    expireMutable := r.expireMutable.map classifyBool }

/-- tahoe.cfg text → `get_anonymous_storage_server` -/
def startStorageRaw (r : RawStorageCfg) : Start := startStorage (readSection r)

end Tahoe.Config
