import Tahoe.Config.Parse
/-!
# C48 — what the documentation promises (specification side, written from the docs, not from the code)

* docs/garbage-collection.rst, `expire.override_lease_duration`: "a number of days, months, or years,
  followed by a units suffix, and optionally separated by a space": `7days 31day 60 days 2mo 3 month
  12 months 2years`; the docstring of `parse_duration` adds `s second seconds` and "case insensitive".
  A month is the 31 days of the default lease, a year 365 days.
* docs/configuration.rst, `reserved_space`: "a number, with an optional case-insensitive scale suffix,
  optionally followed by "B" or "iB"; scale suffixes K M G T P E; a following "i" indicates powers of
  1024 rather than 1000": `100MB = 100 M = 100000000B = 100000000 = 100000kb`, `1MiB = 1024KiB =
  1024 Ki = 1048576 B`.
* `expire.cutoff_date`: `2009-01-16`; "midnight UTC at the beginning of the given day".
-/
namespace Tahoe.Config

/-- documented duration units (lower-case code points) and their length in seconds -/
def docDurationUnits : List (List Nat × Nat) :=
  [ ([115], 1),                                   -- s
    ([115, 101, 99, 111, 110, 100], 1),           -- second
    ([115, 101, 99, 111, 110, 100, 115], 1),      -- seconds
    ([100, 97, 121], 86400),                      -- day
    ([100, 97, 121, 115], 86400),                 -- days
    ([109, 111], 31 * 86400),                     -- mo
    ([109, 111, 110, 116, 104], 31 * 86400),      -- month
    ([109, 111, 110, 116, 104, 115], 31 * 86400), -- months
    ([121, 101, 97, 114], 365 * 86400),           -- year
    ([121, 101, 97, 114, 115], 365 * 86400) ]     -- years

/-- the documented size suffix, upper case: scale letter number `i` (0 = none, 1..6 = K M G T P E),
    then "I" if `bin`, then "B" if `hasB` -/
def sizeSuffix (i : Nat) (bin hasB : Bool) : List Nat :=
  (if i = 0 then [] else [scaleLetters.getD (i - 1) 0]) ++ (if bin then [73] else []) ++ (if hasB then [66] else [])

def sizeBase (bin : Bool) : Nat := if bin then 1024 else 1000

/-- the calendar day after `y-m-d` -/
def nextDay (y m d : Nat) : Nat × Nat × Nat :=
  if d < daysInMonth y m then (y, m, d + 1) else if m < 12 then (y, m + 1, 1) else (y + 1, 1, 1)

/-! ### the documented grammars, as predicates on the whole string (`s` has the documented form and `v` is its
    documented value) -/

/-- whitespace · number · whitespace · a documented unit in any ASCII case · whitespace; value = number × unit -/
def DocDuration (s : List Sym) (v : Nat) : Prop :=
  ∃ pre ds mid w post word k,
    s = pre ++ ds.map Sym.dig ++ mid ++ w ++ post ∧
    pre.all isWs = true ∧ mid.all isWs = true ∧ post.all isWs = true ∧ ds ≠ [] ∧
    (word, k) ∈ docDurationUnits ∧ w.map lowerSym = wordSyms word ∧ v = num ds * k

/-- number · whitespace · [scale letter] [i] [B] in any case (as `str.upper()` sees it) · at most one final
    newline; value = number × 1000^i, resp. × 1024^i with the "i" -/
def DocSize (s : List Sym) (v : Nat) : Prop :=
  ∃ ds mid w tail i bin hasB,
    s = ds.map Sym.dig ++ mid ++ w ++ tail ∧ ds ≠ [] ∧ mid.all isWs = true ∧ (tail = [] ∨ tail = [Sym.nl]) ∧
    i ≤ 6 ∧ w.map upperSym = wordSyms (sizeSuffix i bin hasB) ∧ v = num ds * sizeBase bin ^ i

/-- exactly `YYYY-MM-DD` naming a day that exists; value = 86400 × (days since 1970-01-01) -/
def DocDate (s : List Sym) (t : Int) : Prop :=
  ∃ a b c d e f g h : Fin 10,
    s = [.dig a, .dig b, .dig c, .dig d, .asc 45, .dig e, .dig f, .asc 45, .dig g, .dig h] ∧
    validDate (num [a, b, c, d]) (num [e, f]) (num [g, h]) = true ∧
    t = 86400 * ((ordinal (num [a, b, c, d]) (num [e, f]) (num [g, h]) : Int) - (epochOrd : Int))

end Tahoe.Config
