import Tahoe.Config.Glue
import Tahoe.Config.Lemmas
/-! Helper lemmas about the client.py glue model (`Tahoe/Config/Glue.lean`) for `Tahoe/Props/C48.lean`. -/
namespace Tahoe.Config

theorem parseDuration_ne_none (s : List Sym) : parseDuration s ≠ .none := by
  unfold parseDuration parseDurationWith
  dsimp only
  split
  · simp
  · split
    · simp
    · split <;> simp

theorem parseDate_ne_none (s : List Sym) : parseDate s ≠ .none := by
  unfold parseDate
  split
  · dsimp only; split <;> simp
  · simp

theorem parseSize_none_iff (s : List Sym) : parseSize s = .none ↔ s = [] := by
  unfold parseSize parseSizeWith
  dsimp only
  cases s with
  | nil => simp
  | cons x xs =>
    simp only [List.isEmpty_cons, Bool.false_eq_true, if_false, reduceCtorEq, iff_false]
    split
    · simp
    · split
      · simp
      · rename_i e he
        intro h
        unfold sizeMult at h
        dsimp only at h
        split at h
        · simp at h
        · split at h <;> simp at h

/-- every way node start can succeed, read off the code path -/
theorem startStorageE_inv (c : StorageCfg) (st : Started) (h : startStorageE c = .ok st) :
    ∃ en mode old cut,
      getBool c.readonly false = .ok st.readonly ∧ readReserved c = .ok st.reserved ∧
      (∃ dd, getBool c.debugDiscard false = .ok dd) ∧
      getBool c.expireEnabled false = .ok en ∧ readMode c en = .ok mode ∧ readOverride c = .ok old ∧
      readCutoff c mode = .ok cut ∧ getBool c.expireImmutable true = .ok st.immutable ∧
      getBool c.expireMutable true = .ok st.mutable ∧ mode ≠ .other ∧ st.mode = mode ∧ st.enabled = en ∧
      st.overrideDuration = (if mode = .age then old else none) ∧ st.cutoff = (if mode = .cutoff then cut else none) := by
  unfold startStorageE at h
  simp only [bind, Except.bind, pure, Except.pure, throw, throwThe, MonadExceptOf.throw] at h
  repeat' (split at h)
  all_goals (try (simp at h; done))
  all_goals
    simp only [Except.ok.injEq] at h
    subst h
    rename_i hro _ _ hrs _ _ hdd _ en hen _ _ old hold _ cut _ _ himm _ _ hmut _ hmode hcut
    refine ⟨en, _, old, cut, hro, hrs, ⟨_, hdd⟩, hen, hmode, hold, hcut, himm, hmut, by simp, rfl, rfl, by simp, by simp⟩

theorem getConfig_some {raw : Option (List Sym)} {v' : List Sym} (h : getConfig raw = some v') :
    ∃ v, raw = some v ∧ v' = strip v := by
  cases raw with
  | none => simp [getConfig] at h
  | some v => simp only [getConfig, Option.some.injEq] at h; exact ⟨v, rfl, h.symm⟩

theorem getConfig_none {raw : Option (List Sym)} (h : getConfig raw = none) : raw = none := by
  cases raw with
  | none => rfl
  | some v => simp [getConfig] at h

theorem readReserved_ok (c : StorageCfg) (n : Nat) (h : readReserved c = .ok n) :
    (c.reservedSpace = none ∧ n = 0) ∨
    ∃ v, c.reservedSpace = some v ∧ ((strip v = [] ∧ n = 0) ∨ parseSize (strip v) = .ok n) := by
  unfold readReserved at h
  split at h
  · rename_i hc; left; simp only [Except.ok.injEq] at h; exact ⟨getConfig_none hc, h.symm⟩
  · rename_i v' hc'
    obtain ⟨v, hc, rfl⟩ := getConfig_some hc'
    right
    refine ⟨v, hc, ?_⟩
    unfold liftRes at h
    split at h
    · rename_i n' hp; simp only [Except.ok.injEq] at h; right; rw [hp, h]
    · rename_i hp; simp only [Except.ok.injEq] at h; left; exact ⟨(parseSize_none_iff _).mp hp, h.symm⟩
    · simp at h
    · simp at h

theorem readOverride_ok (c : StorageCfg) (o : Option Nat) (h : readOverride c = .ok o) :
    (c.overrideLeaseDuration = none ∧ o = none) ∨
    ∃ v n, c.overrideLeaseDuration = some v ∧ parseDuration (strip v) = .ok n ∧ o = some n := by
  unfold readOverride at h
  split at h
  · rename_i hc; left; simp only [Except.ok.injEq] at h; exact ⟨getConfig_none hc, h.symm⟩
  · rename_i v' hc'
    obtain ⟨v, hc, rfl⟩ := getConfig_some hc'
    right
    cases hp : parseDuration (strip v) with
    | ok n => rw [hp] at h; simp [liftRes, Except.map] at h; exact ⟨v, n, hc, hp, h.symm⟩
    | none => exact absurd hp (parseDuration_ne_none _)
    | valueError => rw [hp] at h; simp [liftRes, Except.map] at h
    | keyError => rw [hp] at h; simp [liftRes, Except.map] at h

theorem readCutoff_ok (c : StorageCfg) (o : Option Int) (h : readCutoff c .cutoff = .ok o) :
    ∃ v t, c.cutoffDate = some v ∧ parseDate (strip v) = .ok t ∧ o = some t := by
  unfold readCutoff at h
  simp only [if_true] at h
  split at h
  · simp at h
  · rename_i v' hc'
    obtain ⟨v, hc, rfl⟩ := getConfig_some hc'
    cases hp : parseDate (strip v) with
    | ok t => rw [hp] at h; simp [liftRes, Except.map] at h; exact ⟨v, t, hc, hp, h.symm⟩
    | none => exact absurd hp (parseDate_ne_none _)
    | valueError => rw [hp] at h; simp [liftRes, Except.map] at h
    | keyError => rw [hp] at h; simp [liftRes, Except.map] at h

theorem startStorage_started_iff (c : StorageCfg) (st : Started) :
    startStorage c = .started st ↔ startStorageE c = .ok st := by
  unfold startStorage
  cases startStorageE c <;> simp

theorem startStorage_total (c : StorageCfg) : (∃ st, startStorage c = .started st) ∨ (∃ e, startStorage c = .error e) := by
  unfold startStorage
  cases startStorageE c with
  | ok s => left; exact ⟨s, rfl⟩
  | error e => right; exact ⟨e, rfl⟩

theorem getBool_ok (v : Option BoolVal) (d : Bool) (h : v ≠ some .bad) : ∃ b, getBool v d = .ok b := by
  cases v with
  | none => exact ⟨d, rfl⟩
  | some x => cases x with
    | t => exact ⟨true, rfl⟩
    | f => exact ⟨false, rfl⟩
    | bad => exact absurd rfl h

theorem getBool_bad (d : Bool) : getBool (some .bad) d = .error .valueError := rfl

/-- the do-block with every reader's result plugged in -/
theorem startStorageE_of_reads (c : StorageCfg) (ro dd en imm mu : Bool) (rs : Nat) (mode : ModeVal)
    (old : Option Nat) (cut : Option Int)
    (h1 : getBool c.readonly false = .ok ro) (h2 : readReserved c = .ok rs) (h3 : getBool c.debugDiscard false = .ok dd)
    (h4 : getBool c.expireEnabled false = .ok en) (h5 : readMode c en = .ok mode) (h6 : readOverride c = .ok old)
    (h7 : readCutoff c mode = .ok cut) (h8 : getBool c.expireImmutable true = .ok imm)
    (h9 : getBool c.expireMutable true = .ok mu) :
    startStorageE c = (match mode with
      | .age => .ok ⟨rs, en, .age, old, none, imm, mu, ro⟩
      | .cutoff => .ok ⟨rs, en, .cutoff, none, cut, imm, mu, ro⟩
      | .other => .error .valueError) := by
  unfold startStorageE
  simp only [bind, Except.bind, h1, h2, h3, h4, h5, h6, h7, h8, h9]
  cases mode <;> rfl

/-! ### `str.strip()`, `getboolean`, the mode literals -/

theorem dropWs_allWs (v : List Sym) (h : v.all isWs = true) : dropWs v = [] := by
  have := dropWs_append_ws v [] h
  simpa [dropWs] using this

theorem strip_allWs (v : List Sym) (h : v.all isWs = true) : strip v = [] := by
  simp [strip, dropWs_allWs v h, dropWs]

/-- stripping removes exactly the surrounding whitespace -/
theorem strip_pad (pre w post : List Sym) (hpre : pre.all isWs = true) (hpost : post.all isWs = true)
    (hne : w ≠ []) (hh : headNotWs w = true) (hl : headNotWs w.reverse = true) :
    strip (pre ++ w ++ post) = w := by
  have h1 : headNotWs (w ++ post) = true := by
    cases w with
    | nil => exact absurd rfl hne
    | cons x xs => simpa [headNotWs] using hh
  have hpr : post.reverse.all isWs = true := by
    simp only [List.all_eq_true, List.mem_reverse] at hpost ⊢; exact hpost
  unfold strip
  rw [List.append_assoc, dropWs_append_ws _ _ hpre, dropWs_of_headNotWs _ h1, List.reverse_append,
    dropWs_append_ws _ _ hpr, dropWs_of_headNotWs _ hl, List.reverse_reverse]

/-- a case variant of an alphabetic word has no whitespace at either end -/
theorem variant_ends (w : List Sym) (word : List Nat) (hw : w.map lowerSym = wordSyms word) :
    headNotWs w = true ∧ headNotWs w.reverse = true := by
  have hall : ∀ x ∈ w, isWs x = false := by
    intro x hx
    have : lowerSym x ∈ w.map lowerSym := List.mem_map.mpr ⟨x, hx, rfl⟩
    rw [hw] at this
    obtain ⟨c, -, hc⟩ := List.mem_map.mp this
    exact not_isWs_of_lowerSym hc.symm
  constructor
  · cases w with
    | nil => rfl
    | cons x xs => simp [headNotWs, hall x (by simp)]
  · cases hr : w.reverse with
    | nil => rfl
    | cons x xs =>
      have : x ∈ w := by rw [← List.mem_reverse, hr]; simp
      simp [headNotWs, hall x this]

theorem classifyBool_blank (v : List Sym) (h : v.all isWs = true) : classifyBool v = .bad := by
  simp [classifyBool, strip_allWs v h, trueWords, falseWords, wordSyms]

theorem classifyMode_blank (v : List Sym) (h : v.all isWs = true) : classifyMode v = .other := by
  simp [classifyMode, strip_allWs v h, wordSyms]

theorem not_docDuration_nil : ¬ ∃ n, DocDuration [] n := by
  rintro ⟨n, pre, ds, mid, w, post, word, k, hs, -, -, -, hds, -⟩
  cases ds with
  | nil => exact hds rfl
  | cons d ds => simp at hs

theorem not_docDate_nil : ¬ ∃ t, DocDate [] t := by
  rintro ⟨t, a, b, c, d, e, f, g, h, hs, -⟩
  simp at hs

end Tahoe.Config
