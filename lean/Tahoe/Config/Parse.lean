import Tahoe.Generated.Config
/-!
# C48 — model of the tahoe.cfg value parsers

Mirrors (as they are *after* fixes/C48-size-whitespace.diff and fixes/C48-date-strict.diff):

* `allmydata.util.time_format.parse_duration`  → `parseDuration`
* `allmydata.util.time_format.parse_date`      → `parseDate`
* `allmydata.util.abbreviate.parse_abbreviated_size` → `parseSize`
* `allmydata.util.abbreviate.abbreviate_space` → `abbreviateSpace` (ints only; `None → "unknown"` not modelled)

## Alphabet

The functions look at their argument only through Python's `re` classes `\d`, `\s`, literal ASCII
characters, `re.IGNORECASE`, `str.upper()`, `str.lower()` and `int()`.  A Python character is
therefore abstracted to a `Sym` (the abstraction function lives in harness/props/c48.py `sym_of`
and is checked against the real code by the correspondence run, thorough tier: every code point):

* `dig v`    any character matched by `\d` (Unicode category Nd, ASCII '0'..'9' among them) whose
             `int()` value is `v`
* `ws`       any character matched by `\s` except "\n"
* `nl`       "\n" (kept apart because `$` also matches just before a final "\n")
* `asc c`    any other ASCII character, by code point
* `longS`    U+017F 'ſ' : `re.IGNORECASE` lets the pattern letter `s` match it, `upper()` gives "S",
             `lower()` leaves it alone
* `dotlessI` U+0131 'ı' : `upper()` gives "I" (and IGNORECASE lets `i` match it)
* `other`    every other code point.  None of them is matched by any class or literal used here;
             those whose `upper()` expands to several characters ('ß' → "SS", 'ﬁ' → "FI", 'ẗ' → "T̈")
             always produce at least one character nothing matches, so they behave like one `other`.
             ('K' U+212A matches the pattern letter `k` under IGNORECASE, but no duration unit has a k.)

Regexes are modelled by hand-written greedy recognisers.  Greedy is complete here because the
classes that follow one another (`\s`, `\d`, letters) are pairwise disjoint, so Python's
backtracking can never succeed where the greedy run fails; the one place where order matters, the
unit alternation `s|second|seconds|…` followed by `\s*$`, is modelled as written (first alternative,
in source order, after which the rest of the pattern matches).  The pattern strings themselves are
extracted into `Tahoe.Generated.Config` and pinned by theorems in `Tahoe/Props/C48.lean`.
-/
namespace Tahoe.Config
open Tahoe.Generated

inductive Sym where
  | dig (v : Fin 10)
  | ws
  | nl
  | asc (c : Nat)
  | longS
  | dotlessI
  | other
  deriving DecidableEq, Repr

/-- result of a parser call: returned value, returned `None`, raised `ValueError`, raised `KeyError` -/
inductive Res (α : Type) where
  | ok (v : α)
  | none
  | valueError
  | keyError
  deriving DecidableEq, Repr

/-- `\s` -/
def isWs : Sym → Bool
  | .ws => true
  | .nl => true
  | _ => false

/-- `\s*` (greedy) -/
def dropWs : List Sym → List Sym
  | [] => []
  | x :: r => if isWs x then dropWs r else x :: r

/-- `\d*` (greedy): the digit values read and the rest -/
def takeDigits : List Sym → List (Fin 10) × List Sym
  | .dig v :: r => ((takeDigits r).1.cons v, (takeDigits r).2)
  | r => ([], r)

/-- `int()` of a digit string -/
def num (ds : List (Fin 10)) : Nat := ds.foldl (fun a d => 10 * a + d.val) 0

def lowerCode (c : Nat) : Nat := if 65 ≤ c ∧ c ≤ 90 then c + 32 else c
def upperCode (c : Nat) : Nat := if 97 ≤ c ∧ c ≤ 122 then c - 32 else c

/-- the lower-case ASCII pattern letter that `re.IGNORECASE` lets this symbol match, if any -/
def foldCI : Sym → Option Nat
  | .asc c => some (lowerCode c)
  | .longS => some 115
  | .dotlessI => some 105
  | _ => Option.none

/-- `str.lower()` of one character -/
def lowerSym : Sym → Sym
  | .asc c => .asc (lowerCode c)
  | s => s

/-- `str.upper()` of one character (multi-character expansions are `other`, see the header) -/
def upperSym : Sym → Sym
  | .asc c => .asc (upperCode c)
  | .longS => .asc 83
  | .dotlessI => .asc 73
  | s => s

/-- a literal word of the pattern (lower-case code points) matched case-insensitively at the head:
    the matched symbols and the rest -/
def matchWordCI : List Nat → List Sym → Option (List Sym × List Sym)
  | [], r => some ([], r)
  | _ :: _, [] => Option.none
  | c :: w, x :: r =>
    if foldCI x = some c then
      match matchWordCI w r with
      | some (m, r') => some (x :: m, r')
      | Option.none => Option.none
    else Option.none

def wordSyms (w : List Nat) : List Sym := w.map Sym.asc

/-- dict lookup `table[word]` (string equality) -/
def lookupWord (tbl : List (List Nat × Nat)) (w : List Sym) : Option Nat :=
  match tbl.find? (fun p => decide (wordSyms p.1 = w)) with
  | some p => some p.2
  | Option.none => Option.none

/-- one alternative of `(s|second|…)` followed by `\s*$` -/
def tryUnit (r : List Sym) (p : List Nat × Nat) : Option (List Sym) :=
  match matchWordCI p.1 r with
  | some (m, rest) => if rest.all isWs then some m else Option.none
  | Option.none => Option.none

/-- `time_format.parse_duration(s)`:
    `re.match(r"^\s*(\d+)\s*(s|second|…|years)\s*$", s, re.IGNORECASE)`, then
    `int(group 1) * time_map[group 2 .lower()]`. -/
def parseDurationWith (tbl : List (List Nat × Nat)) (s : List Sym) : Res Nat :=
  let r1 := dropWs s
  let ds := (takeDigits r1).1
  let r2 := (takeDigits r1).2
  if ds.isEmpty then .valueError else
  let r3 := dropWs r2
  match tbl.findSome? (tryUnit r3) with
  | Option.none => .valueError
  | some m =>
    match lookupWord tbl (m.map lowerSym) with
    | some k => .ok (num ds * k)
    | Option.none => .keyError        -- "1ſ": matched by the regex, not a key of time_map

def parseDuration (s : List Sym) : Res Nat := parseDurationWith Config.duration_units s

/-- `[X]?` for a set of upper-case ASCII letters (greedy) -/
def optLetter (allowed : List Nat) : List Sym → List Nat × List Sym
  | .asc c :: r => if allowed.contains c then ([c], r) else ([], .asc c :: r)
  | r => ([], r)

/-- `$`: end of string, or just before a final "\n" -/
def atDollar : List Sym → Bool
  | [] => true
  | [.nl] => true
  | _ => false

def scaleLetters : List Nat := [75, 77, 71, 84, 80, 69]   -- K M G T P E

/-- the part of the size pattern after `(\d+)\s*`: `([KMGTPE]?[I]?[B]?)$`, then
    `if suffix.endswith("B"): suffix = suffix[:-1]` and `multiplier[suffix]` -/
def sizeMult (tbl : List (List Nat × Nat)) (r2 : List Sym) : Res Nat :=
  let a := optLetter scaleLetters r2
  let b := optLetter [73] a.2
  let c := optLetter [66] b.2
  if !atDollar c.2 then .valueError else
  match lookupWord tbl (wordSyms (a.1 ++ b.1)) with
  | some k => .ok k
  | Option.none => .keyError

/-- `abbreviate.parse_abbreviated_size(s)` for a `str` argument (`None` is treated like ""):
    `re.match(r"^(\d+)\s*([KMGTPE]?[I]?[B]?)$", s.upper())`, strip a final "B" from the suffix,
    `int(number) * multiplier[suffix]`. -/
def parseSizeWith (tbl : List (List Nat × Nat)) (s : List Sym) : Res Nat :=
  if s.isEmpty then .none else
  let u := s.map upperSym
  let ds := (takeDigits u).1
  let r1 := (takeDigits u).2
  if ds.isEmpty then .valueError else
  match sizeMult tbl (dropWs r1) with
  | .ok k => .ok (num ds * k)
  | e => e

def parseSize (s : List Sym) : Res Nat := parseSizeWith Config.size_multipliers s

/-! ### dates (`datetime.date`, `calendar.timegm`) -/

def isLeap (y : Nat) : Bool := y % 4 == 0 && (y % 100 != 0 || y % 400 == 0)

/-- `datetime._days_in_month` -/
def daysInMonth (y m : Nat) : Nat :=
  if m == 2 then (if isLeap y then 29 else 28)
  else if m == 4 || m == 6 || m == 9 || m == 11 then 30 else 31

/-- `datetime._days_before_year` -/
def daysBeforeYear (y : Nat) : Nat := (y - 1) * 365 + (y - 1) / 4 - (y - 1) / 100 + (y - 1) / 400

/-- `datetime._days_before_month` (`_DAYS_BEFORE_MONTH[month] + (month > 2 and _is_leap(year))`) -/
def daysBeforeMonth (y m : Nat) : Nat :=
  [0, 0, 31, 59, 90, 120, 151, 181, 212, 243, 273, 304, 334].getD m 0 + (if 2 < m && isLeap y then 1 else 0)

/-- `datetime.date(y, m, d).toordinal()` -/
def ordinal (y m d : Nat) : Nat := daysBeforeYear y + daysBeforeMonth y m + d

/-- `datetime.date(1970, 1, 1).toordinal()` (`calendar._EPOCH_ORD`) -/
def epochOrd : Nat := 719163

/-- `datetime.date(y, m, d)` does not raise (`MINYEAR = 1`; four digits keep `y ≤ MAXYEAR = 9999`) -/
def validDate (y m d : Nat) : Bool := 1 ≤ y && 1 ≤ m && m ≤ 12 && 1 ≤ d && d ≤ daysInMonth y m

/-- `time_format.parse_date(s)` (fixed version):
    `re.fullmatch(r"(\d{4})-(\d{2})-(\d{2})", s)`, `datetime.date(y, m, d)` (raises `ValueError` for
    a day that does not exist), `calendar.timegm(day.timetuple())`. -/
def parseDate : List Sym → Res Int
  | [.dig a, .dig b, .dig c, .dig d, .asc 45, .dig e, .dig f, .asc 45, .dig g, .dig h] =>
    let y := num [a, b, c, d]
    let m := num [e, f]
    let dd := num [g, h]
    if validDate y m dd then .ok (((ordinal y m dd : Int) - (epochOrd : Int)) * 86400) else .valueError
  | _ => .valueError

/-! ### printing sizes (`abbreviate_space`), including the float arithmetic of `"%.2f" % (s/U**i)` -/

/-- decimal digits of `n`, most significant first; `fuel + 1` digits are enough room -/
def digitsFuel : Nat → Nat → List (Fin 10)
  | 0, n => [⟨n % 10, Nat.mod_lt _ (by decide)⟩]
  | f + 1, n =>
    if n < 10 then [⟨n % 10, Nat.mod_lt _ (by decide)⟩]
    else digitsFuel f (n / 10) ++ [⟨n % 10, Nat.mod_lt _ (by decide)⟩]

/-- `"%d" % n` -/
def digitsOf (n : Nat) : List (Fin 10) := digitsFuel (Nat.log2 n) n

/-- `a / b` rounded to the nearest integer, ties to even -/
def rhe (a b : Nat) : Nat :=
  let q := a / b
  let r := a % b
  if 2 * r < b then q else if b < 2 * r then q + 1 else if q % 2 == 0 then q else q + 1

/-- int → float conversion (nearest double, ties to even), as the exact integer value of the double
    (no overflow: sizes below 2^1000 assumed) -/
def toDouble (s : Nat) : Nat :=
  if s < 2 ^ 53 then s else rhe s (2 ^ (Nat.log2 s - 52)) * 2 ^ (Nat.log2 s - 52)

/-- IEEE double division `a / D` for integers `a ≥ D > 0` that are exact doubles: the correctly
    rounded quotient as a fraction (numerator, power-of-two denominator) -/
def fdiv (a D : Nat) : Nat × Nat :=
  let b := Nat.log2 (a / D)
  if b ≤ 52 then (rhe (a * 2 ^ (52 - b)) D, 2 ^ (52 - b))
  else (rhe a (D * 2 ^ (b - 52)) * 2 ^ (b - 52), 1)

/-- hundredths printed by `"%.2f" % (s / D)` (correctly rounded, ties to even on the exact binary value) -/
def hundredths (s D : Nat) : Nat :=
  let q := fdiv (toDouble s) D
  rhe (q.1 * 100) q.2

/-- power of the base chosen by the `if s < U*U … ` ladder -/
def scaleIndex (U s : Nat) : Nat :=
  if s < U ^ 2 then 1 else if s < U ^ 3 then 2 else if s < U ^ 4 then 3
  else if s < U ^ 5 then 4 else if s < U ^ 6 then 5 else 6

/-- "k", "M", "G", "T", "P", "E" -/
def scalePrefix (i : Nat) : Nat := [107, 107, 77, 71, 84, 80, 69].getD i 69

/-- `abbreviate.abbreviate_space(s, SI=si)` for an int `s ≥ 0`; the printed ' ' is `ws`. -/
def abbreviateSpace (si : Bool) (s : Nat) : List Sym :=
  if s < 1024 then (digitsOf s).map Sym.dig ++ [.ws, .asc 66]
  else
    let U := if si then 1000 else 1024
    let i := scaleIndex U s
    let h := hundredths s (U ^ i)
    (digitsOf (h / 100)).map Sym.dig ++ [.asc 46]
      ++ [Sym.dig ⟨h / 10 % 10, Nat.mod_lt _ (by decide)⟩, Sym.dig ⟨h % 10, Nat.mod_lt _ (by decide)⟩]
      ++ [.ws, .asc (scalePrefix i)] ++ (if si then [] else [.asc 105]) ++ [.asc 66]

end Tahoe.Config
