/-
Executable SHA-256 (FIPS 180-4), SHA-256d (Ferguson/Schneier: SHA-256 applied twice, as
`util/hashutil.py _SHA256d_Hasher.digest`), SHA-1 (only for `permute_server_hash`) and the
standard HMAC-SHA256 (RFC 2104), over `List UInt8`.  Mathlib-free; compiled into drivers.

Trust statement: these functions are *not* proved against FIPS 180-4.  They are validated by the
NIST example vectors below (`#guard`, i.e. tests, labelled as tests) and by the C17 correspondence
run against `hashlib` on random inputs (including the padding boundary lengths 55/56/63/64/119/120).
The only facts proved about them are output lengths (`sha256_length`, `sha1_length`).
-/
namespace Tahoe.Base.Sha256


/-- big-endian 4 bytes of a word -/
def be32 (x : UInt32) : List UInt8 :=
  [(x >>> 24).toUInt8, (x >>> 16).toUInt8, (x >>> 8).toUInt8, x.toUInt8]

/-- big-endian 8 bytes of a natural number (mod 2^64) -/
def be64 (n : Nat) : List UInt8 :=
  [UInt8.ofNat (n >>> 56), UInt8.ofNat (n >>> 48), UInt8.ofNat (n >>> 40), UInt8.ofNat (n >>> 32),
   UInt8.ofNat (n >>> 24), UInt8.ofNat (n >>> 16), UInt8.ofNat (n >>> 8), UInt8.ofNat n]

/-- Merkle–Damgård padding shared by SHA-1 and SHA-256: `m ‖ 0x80 ‖ 0* ‖ bitlen_be64`, total length
    a multiple of 64. -/
def pad (m : List UInt8) : List UInt8 :=
  let l := m.length
  let z := (64 - (l + 9) % 64) % 64
  m ++ (0x80 : UInt8) :: (List.replicate z 0 ++ be64 (8 * l))

@[inline] def rotr (x : UInt32) (n : UInt32) : UInt32 := (x >>> n) ||| (x <<< (32 - n))
@[inline] def rotl (x : UInt32) (n : UInt32) : UInt32 := (x <<< n) ||| (x >>> (32 - n))

@[inline] def word (b : ByteArray) (i : Nat) : UInt32 :=
  ((b.get! i).toUInt32 <<< 24) ||| ((b.get! (i + 1)).toUInt32 <<< 16) |||
  ((b.get! (i + 2)).toUInt32 <<< 8) ||| (b.get! (i + 3)).toUInt32

/-! ## SHA-256 -/

def K : Array UInt32 := #[
  0x428a2f98, 0x71374491, 0xb5c0fbcf, 0xe9b5dba5, 0x3956c25b, 0x59f111f1, 0x923f82a4, 0xab1c5ed5,
  0xd807aa98, 0x12835b01, 0x243185be, 0x550c7dc3, 0x72be5d74, 0x80deb1fe, 0x9bdc06a7, 0xc19bf174,
  0xe49b69c1, 0xefbe4786, 0x0fc19dc6, 0x240ca1cc, 0x2de92c6f, 0x4a7484aa, 0x5cb0a9dc, 0x76f988da,
  0x983e5152, 0xa831c66d, 0xb00327c8, 0xbf597fc7, 0xc6e00bf3, 0xd5a79147, 0x06ca6351, 0x14292967,
  0x27b70a85, 0x2e1b2138, 0x4d2c6dfc, 0x53380d13, 0x650a7354, 0x766a0abb, 0x81c2c92e, 0x92722c85,
  0xa2bfe8a1, 0xa81a664b, 0xc24b8b70, 0xc76c51a3, 0xd192e819, 0xd6990624, 0xf40e3585, 0x106aa070,
  0x19a4c116, 0x1e376c08, 0x2748774c, 0x34b0bcb5, 0x391c0cb3, 0x4ed8aa4a, 0x5b9cca4f, 0x682e6ff3,
  0x748f82ee, 0x78a5636f, 0x84c87814, 0x8cc70208, 0x90befffa, 0xa4506ceb, 0xbef9a3f7, 0xc67178f2]

structure State where
  a : UInt32
  b : UInt32
  c : UInt32
  d : UInt32
  e : UInt32
  f : UInt32
  g : UInt32
  h : UInt32

def init : State :=
  ⟨0x6a09e667, 0xbb67ae85, 0x3c6ef372, 0xa54ff53a, 0x510e527f, 0x9b05688c, 0x1f83d9ab, 0x5be0cd19⟩

/-- message schedule W[0..63] of the 64-byte block starting at `off` -/
def schedule (blk : ByteArray) (off : Nat) : Array UInt32 := Id.run do
  let mut w : Array UInt32 := Array.mkEmpty 64
  for i in [0:16] do
    w := w.push (word blk (off + 4 * i))
  for i in [16:64] do
    let x := w.getD (i - 15) 0
    let y := w.getD (i - 2) 0
    let s0 := rotr x 7 ^^^ rotr x 18 ^^^ (x >>> 3)
    let s1 := rotr y 17 ^^^ rotr y 19 ^^^ (y >>> 10)
    w := w.push (w.getD (i - 16) 0 + s0 + w.getD (i - 7) 0 + s1)
  return w

/-- the compression function on one block -/
def compress (st : State) (blk : ByteArray) (off : Nat) : State := Id.run do
  let w := schedule blk off
  let mut a := st.a
  let mut b := st.b
  let mut c := st.c
  let mut d := st.d
  let mut e := st.e
  let mut f := st.f
  let mut g := st.g
  let mut h := st.h
  for i in [0:64] do
    let S1 := rotr e 6 ^^^ rotr e 11 ^^^ rotr e 25
    let ch := (e &&& f) ^^^ ((~~~ e) &&& g)
    let t1 := h + S1 + ch + K.getD i 0 + w.getD i 0
    let S0 := rotr a 2 ^^^ rotr a 13 ^^^ rotr a 22
    let maj := (a &&& b) ^^^ (a &&& c) ^^^ (b &&& c)
    let t2 := S0 + maj
    h := g
    g := f
    f := e
    e := d + t1
    d := c
    c := b
    b := a
    a := t1 + t2
  return ⟨st.a + a, st.b + b, st.c + c, st.d + d, st.e + e, st.f + f, st.g + g, st.h + h⟩

def digest (st : State) : List UInt8 :=
  be32 st.a ++ be32 st.b ++ be32 st.c ++ be32 st.d ++ be32 st.e ++ be32 st.f ++ be32 st.g ++ be32 st.h

/-- SHA-256 of a byte string (`hashlib.sha256(m).digest()`). -/
def sha256 (m : List UInt8) : List UInt8 :=
  let p := (pad m).toByteArray
  digest ((List.range (p.size / 64)).foldl (fun st i => compress st p (64 * i)) init)

/-- SHA-256d: `sha256(sha256(m))` (hashutil `_SHA256d_Hasher.digest` without truncation). -/
def sha256d (m : List UInt8) : List UInt8 := sha256 (sha256 m)

theorem digest_length (st : State) : (digest st).length = 32 := by
  simp [digest, be32]

theorem sha256_length (m : List UInt8) : (sha256 m).length = 32 := by
  simp only [sha256, digest_length]

theorem sha256d_length (m : List UInt8) : (sha256d m).length = 32 := sha256_length _

/-! ## SHA-1 (used only by `permute_server_hash`) -/

structure State1 where
  a : UInt32
  b : UInt32
  c : UInt32
  d : UInt32
  e : UInt32

def init1 : State1 := ⟨0x67452301, 0xefcdab89, 0x98badcfe, 0x10325476, 0xc3d2e1f0⟩

def schedule1 (blk : ByteArray) (off : Nat) : Array UInt32 := Id.run do
  let mut w : Array UInt32 := Array.mkEmpty 80
  for i in [0:16] do
    w := w.push (word blk (off + 4 * i))
  for i in [16:80] do
    w := w.push (rotl (w.getD (i - 3) 0 ^^^ w.getD (i - 8) 0 ^^^ w.getD (i - 14) 0 ^^^ w.getD (i - 16) 0) 1)
  return w

def compress1 (st : State1) (blk : ByteArray) (off : Nat) : State1 := Id.run do
  let w := schedule1 blk off
  let mut a := st.a
  let mut b := st.b
  let mut c := st.c
  let mut d := st.d
  let mut e := st.e
  for i in [0:80] do
    let (f, k) : UInt32 × UInt32 :=
      if i < 20 then ((b &&& c) ||| ((~~~ b) &&& d), 0x5a827999)
      else if i < 40 then (b ^^^ c ^^^ d, 0x6ed9eba1)
      else if i < 60 then ((b &&& c) ||| (b &&& d) ||| (c &&& d), 0x8f1bbcdc)
      else (b ^^^ c ^^^ d, 0xca62c1d6)
    let t := rotl a 5 + f + e + k + w.getD i 0
    e := d
    d := c
    c := rotl b 30
    b := a
    a := t
  return ⟨st.a + a, st.b + b, st.c + c, st.d + d, st.e + e⟩

def digest1 (st : State1) : List UInt8 :=
  be32 st.a ++ be32 st.b ++ be32 st.c ++ be32 st.d ++ be32 st.e

/-- SHA-1 of a byte string (`hashlib.sha1(m).digest()`). -/
def sha1 (m : List UInt8) : List UInt8 :=
  let p := (pad m).toByteArray
  digest1 ((List.range (p.size / 64)).foldl (fun st i => compress1 st p (64 * i)) init1)

theorem sha1_length (m : List UInt8) : (sha1 m).length = 20 := by
  simp [sha1, digest1, be32]

/-! ## Standard HMAC-SHA256 (RFC 2104).  NB: `hashutil.hmac` is *not* this function (it does not
    pad the key to the block size); that one is modelled as written in `Tahoe/Crypto/Derive.lean`. -/

def hmacSha256 (key msg : List UInt8) : List UInt8 :=
  let k0 := if key.length > 64 then sha256 key else key
  let k := k0 ++ List.replicate (64 - k0.length) 0
  sha256 (k.map (· ^^^ 0x5c) ++ sha256 (k.map (· ^^^ 0x36) ++ msg))

/-! ## Tests (NIST FIPS 180-4 / RFC 3174 / RFC 4231 example vectors; evaluated by `#guard`, they are
    tests, not proofs) -/

def hexOf (b : List UInt8) : String :=
  let hd (n : Nat) : Char := if n < 10 then Char.ofNat (48 + n) else Char.ofNat (87 + n)
  String.ofList (b.foldr (fun x acc => hd (x.toNat / 16) :: hd (x.toNat % 16) :: acc) [])

def ofAscii (s : String) : List UInt8 := s.toList.map (fun c => UInt8.ofNat c.toNat)

-- test: SHA-256("")
#guard hexOf (sha256 []) = "e3b0c44298fc1c149afbf4c8996fb92427ae41e4649b934ca495991b7852b855"
-- test: SHA-256("abc")
#guard hexOf (sha256 (ofAscii "abc")) = "ba7816bf8f01cfea414140de5dae2223b00361a396177a9cb410ff61f20015ad"
-- test: SHA-256 of the 448-bit message
#guard hexOf (sha256 (ofAscii "abcdbcdecdefdefgefghfghighijhijkijkljklmklmnlmnomnopnopq"))
  = "248d6a61d20638b8e5c026930c3e6039a33ce45964ff2167f6ecedd419db06c1"
-- test: SHA-256 of the 896-bit message
#guard hexOf (sha256 (ofAscii "abcdefghbcdefghicdefghijdefghijkefghijklfghijklmghijklmnhijklmnoijklmnopjklmnopqklmnopqrlmnopqrsmnopqrstnopqrstu"))
  = "cf5b16a778af8380036ce59e7b0492370b249b11e8f07a51afac45037afee9d1"
-- test: SHA-256d("") (well-known double hash of the empty string)
#guard hexOf (sha256d []) = "5df6e0e2761359d30a8275058e299fcc0381534545f55cf43e41983f5d4c9456"
-- test: SHA-1("abc"), SHA-1 of the 448-bit message
#guard hexOf (sha1 (ofAscii "abc")) = "a9993e364706816aba3e25717850c26c9cd0d89d"
#guard hexOf (sha1 (ofAscii "abcdbcdecdefdefgefghfghighijhijkijkljklmklmnlmnomnopnopq"))
  = "84983e441c3bd26ebaae4aa1f95129e5e54670f1"
-- test: RFC 4231 test case 2 (key "Jefe")
#guard hexOf (hmacSha256 (ofAscii "Jefe") (ofAscii "what do ya want for nothing?"))
  = "5bdcc146bf60754e6a042426089575c75a003f089d2739839dec58b964ec3843"

end Tahoe.Base.Sha256
