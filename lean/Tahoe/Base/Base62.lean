import Tahoe.Base.Bytes
/-
Base62 (`allmydata/util/base62.py`), Mathlib-free.

`b2a os`       = the big-endian value of `os` written with exactly `numChars n` base-62 digits over
                 `0-9A-Za-z`, where `numChars n` = number of iterations of
                 `while numvalues > 0: numvalues //= 62` started at `256^n` (`b2a_l`; its
                 `lengthinbits` argument is not used by the code).
`a2bL cs bits` = `a2b_l`: `translate(cs, c2vtranstable)` maps alphabet characters to their values and
                 leaves every other byte unchanged (so `!` = 33 counts as the "digit" 33 and `{` as
                 123); the value is then written with `⌈bits/8⌉` base-256 digits (reduced mod 256^that).
`a2b cs`       = `a2b_l(cs, 8 * log_floor(62^len, 256))` — no validation at all.
`a2bStrict`    = `a2b` followed by the check that the result re-encodes to the input.
-/
namespace Tahoe.Base.Base62
open Tahoe.Base Tahoe.Base.Bytes

def charOf (v : Nat) : UInt8 :=
  if v < 10 then UInt8.ofNat (48 + v) else if v < 36 then UInt8.ofNat (55 + v) else UInt8.ofNat (61 + v)

def valOf (c : UInt8) : Option Nat :=
  if 48 ≤ c.toNat ∧ c.toNat ≤ 57 then some (c.toNat - 48)
  else if 65 ≤ c.toNat ∧ c.toNat ≤ 90 then some (c.toNat - 55)
  else if 97 ≤ c.toNat ∧ c.toNat ≤ 122 then some (c.toNat - 61)
  else none

def alphabet : Bytes := (List.range 62).map charOf

/-- `bytes.translate(cs, c2vtranstable)` on one byte: bytes outside the alphabet pass through -/
def translate (c : UInt8) : Nat := (valOf c).getD c.toNat

/-- iterations of `while numvalues > 0: numvalues //= b` (fuel: `numvalues` itself suffices) -/
def countDiv (b : Nat) : Nat → Nat → Nat
  | 0, _ => 0
  | f + 1, nv => if nv > 0 then 1 + countDiv b f (nv / b) else 0

/-- iterations of `while numvalues > 1: numvalues //= b` -/
def countDiv1 (b : Nat) : Nat → Nat → Nat
  | 0, _ => 0
  | f + 1, nv => if nv > 1 then 1 + countDiv1 b f (nv / b) else 0

/-- pyutil `log_floor(n, b)`: `k - 1` where `k` counts `while p <= n: p *= b` -/
def logFloorLoop (b n : Nat) : Nat → Nat → Nat
  | 0, _ => 0
  | f + 1, p => if p ≤ n then 1 + logFloorLoop b n f (p * b) else 0

def logFloor (n b : Nat) : Nat := logFloorLoop b n (n + 1) 1 - 1

/-- number of characters `b2a` produces for `n` octets -/
def numChars (n : Nat) : Nat := countDiv 62 (8 * n + 1) (256 ^ n)

/-- `num_octets_that_encode_to_this_many_chars` -/
def numOctets (numcs : Nat) : Nat := logFloor (62 ^ numcs) 256

/-- `b2a` -/
def b2a (os : Bytes) : Bytes := (Radix.toBE 62 (numChars os.length) (beVal os)).map charOf

/-- `a2b_l(cs, lengthinbits)` -/
def a2bL (cs : Bytes) (bits : Nat) : Bytes :=
  be (countDiv1 256 (bits + 1) (2 ^ bits)) (Radix.ofBE 62 (cs.map translate))

/-- `a2b` -/
def a2b (cs : Bytes) : Bytes := a2bL cs (numOctets cs.length * 8)

/-- `a2b` with the canonicity check `b2a(result) == cs`; `none` = `ValueError` -/
def a2bStrict (cs : Bytes) : Option Bytes :=
  let os := a2b cs
  if b2a os = cs then some os else none

end Tahoe.Base.Base62
