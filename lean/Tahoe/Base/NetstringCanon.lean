import Tahoe.Base.Netstring
/-! Canonicity of the whole `split_netstring` (with the canonical length check): what it accepts is,
    from the start position on, exactly a concatenation of `netstring(...)` encodings of the returned
    elements, followed by the unconsumed rest (or by the required trailer and nothing else). -/
namespace Tahoe.Base.Netstring
open Tahoe.Base

theorem loop_canonical : ∀ (fuel : Nat) (rest : Bytes) (acc : List Bytes) (n : Nat) (els : List Bytes)
    (rest' : Bytes), loop strictLen fuel rest acc n = .ok (els, rest') →
    ∃ new, els = acc.reverse ++ new ∧ rest = (new.map enc).flatten ++ rest'
  | 0, rest, acc, n, els, rest', h => by
    simp only [loop, Except.ok.injEq, Prod.mk.injEq] at h
    exact ⟨[], by simp [h.1.symm], by simp [h.2]⟩
  | f + 1, rest, acc, n, els, rest', h => by
    simp only [loop] at h
    split at h
    · simp only [Except.ok.injEq, Prod.mk.injEq] at h
      exact ⟨[], by simp [h.1.symm], by simp [h.2]⟩
    · split at h
      · simp at h
      · rename_i s r' hp
        have hrest := enc_of_parseOne hp
        split at h
        · simp only [Except.ok.injEq, Prod.mk.injEq] at h
          exact ⟨[s], by simp [h.1.symm], by simp [hrest, h.2]⟩
        · obtain ⟨new, h1, h2⟩ := loop_canonical f r' (s :: acc) n els rest' h
          exact ⟨s :: new, by simp [h1], by simp [hrest, h2]⟩

theorem drop_of_suffix {data a rest : Bytes} {p : Nat} (h : data.drop p = a ++ rest) (hp : p ≤ data.length) :
    data.drop (data.length - rest.length) = rest ∧ data.length - rest.length = p + a.length := by
  have hd : data = (data.take p ++ a) ++ rest := by
    rw [List.append_assoc, ← h, List.take_append_drop]
  have hl : data.length = p + a.length + rest.length := by
    have := congrArg List.length hd
    simp only [List.length_append, List.length_take] at this
    omega
  have hidx : data.length - rest.length = (data.take p ++ a).length := by
    simp only [List.length_append, List.length_take]; omega
  refine ⟨?_, by omega⟩
  rw [hidx]
  have := congrArg (List.drop (data.take p ++ a).length) hd
  rw [this]
  exact List.drop_left' rfl

/-- **`split_netstring` canonicity, no trailer**: from `position` on, the data is the concatenation of
    the encodings of the returned elements, then the part starting at the returned position -/
theorem split_canonical_none {data : Bytes} {n p pos : Nat} {els : List Bytes}
    (h : split strictLen data n p none = .ok (els, pos)) (hp : p ≤ data.length) :
    data.drop p = (els.map enc).flatten ++ data.drop pos ∧
      pos = p + ((els.map enc).flatten).length ∧ n ≤ els.length := by
  simp only [split] at h
  split at h
  · simp at h
  · rename_i els' rest hl
    obtain ⟨new, h1, h2⟩ := loop_canonical _ _ _ _ _ _ hl
    simp only [List.reverse_nil, List.nil_append] at h1
    subst h1
    simp only [hp, ↓reduceIte] at h
    split at h
    · simp at h
    · rename_i hn
      simp only [Except.ok.injEq, Prod.mk.injEq] at h
      obtain ⟨rfl, rfl⟩ := h
      obtain ⟨hd, hidx⟩ := drop_of_suffix h2 hp
      exact ⟨by rw [hd]; exact h2, hidx, by omega⟩

/-- **`split_netstring` canonicity, with `required_trailer`**: from `position` on, the data is exactly
    the encodings of the returned elements followed by the trailer — nothing else -/
theorem split_canonical_trailer {data t : Bytes} {n p pos : Nat} {els : List Bytes}
    (h : split strictLen data n p (some t) = .ok (els, pos)) :
    p ≤ data.length ∧ data.drop p = (els.map enc).flatten ++ t ∧ pos = data.length ∧ n ≤ els.length := by
  simp only [split] at h
  split at h
  · simp at h
  · rename_i els' rest hl
    obtain ⟨new, h1, h2⟩ := loop_canonical _ _ _ _ _ _ hl
    simp only [List.reverse_nil, List.nil_append] at h1
    subst h1
    split at h
    · simp at h
    · rename_i hn
      split at h
      · rename_i hc
        obtain ⟨hp, rfl⟩ := hc
        simp only [hp, ↓reduceIte, Except.ok.injEq, Prod.mk.injEq] at h
        obtain ⟨rfl, rfl⟩ := h
        obtain ⟨_, hidx⟩ := drop_of_suffix h2 hp
        have hlen : data.length = p + ((els'.map enc).flatten).length + rest.length := by
          have := congrArg List.length h2
          simp only [List.length_drop, List.length_append] at this
          omega
        exact ⟨hp, h2, by omega, by omega⟩
      · simp at h

/-- one netstring: accepted exactly when the input is its encoding followed by the remainder -/
theorem parseOne_iff (x s r : Bytes) : parseOne strictLen x = .ok (s, r) ↔ x = enc s ++ r :=
  ⟨enc_of_parseOne, fun h => h ▸ parseOne_enc s r⟩

end Tahoe.Base.Netstring
