import Tahoe.Base.LemmasMerkleStray
/-! Histories of `set_hashes` calls (accepted and rejected ones, arbitrary int-key batches, a pop order per
    call): the tree keeps its size, its root and its agreement with the genuine tree throughout. -/
namespace Tahoe.Base.Merkle

variable {H : Type}

/-- what every state of a history satisfies: right size, trusted root present, equal to `T` wherever populated -/
def HInv (T t : Tree H) : Prop := t.length = T.length ∧ Agree t T ∧ get t 0 ≠ none

theorem setHashesZ_ok_reach [DecidableEq H] {ops : HashOps H} {cfg : Cfg} {pick : List Nat → Nat} {first : Nat}
    {t : Tree H} {hashes leaves : List (Int × H)} {t' : Tree H}
    (h : setHashesZ ops cfg pick first t hashes leaves = (.ok, t')) :
    ∃ st, Reach (ops.withCfg cfg) { t := t, red := [], rm := [] } st ∧ st.t = t' := by
  unfold setHashesZ at h
  cases hm : mergeLeavesZ first hashes leaves with
  | none => rw [hm] at h; simp only at h; injection h with h1 h2; cases h1
  | some new =>
    rw [hm] at h; simp only at h
    have hreach := tryBodyZ_reach (ops.withCfg cfg) pick t new
    cases hres : tryBodyZ (ops.withCfg cfg) pick t new with
    | error e =>
      obtain ⟨o', st⟩ := e
      rw [hres] at h; simp only at h
      split at h <;> (injection h with h1 h2; cases h1)
    | ok r =>
      obtain ⟨st, p⟩ := r
      rw [hres] at h hreach
      cases p with
      | true => simp only at h; injection h with h1 h2; cases h1
      | false =>
        simp only at h; injection h with h1 h2
        exact ⟨st, hreach, h2⟩

/-- one call, accepted or not, keeps the history invariant -/
theorem setHashesZ_hinv [DecidableEq H] {ops : HashOps H} {cfg : Cfg} (hstrict : StrictPresence ops cfg)
    (hcatch : cfg.catchIndex = true) (hinj : PairInjective ops) {T t : Tree H} (hT : Genuine ops T)
    (hinv : HInv T t) (pick : List Nat → Nat) (first : Nat) (hashes leaves : List (Int × H)) :
    HInv T (setHashesZ ops cfg pick first t hashes leaves).2 ∧
    ((setHashesZ ops cfg pick first t hashes leaves).1 ≠ .ok →
      (setHashesZ ops cfg pick first t hashes leaves).2 = t) := by
  obtain ⟨hlen, hagree, hroot⟩ := hinv
  cases hr : setHashesZ ops cfg pick first t hashes leaves with
  | mk o t' =>
    by_cases ho : o = .ok
    · subst ho
      refine ⟨⟨?_, setHashesZ_sound hstrict hinj hT hlen hagree hroot pick first hashes leaves hr, ?_⟩,
        fun h => absurd rfl h⟩
      · obtain ⟨st, hreach, e⟩ := setHashesZ_ok_reach hr
        rw [← e, ← hlen]; exact hreach.length_eq
      · obtain ⟨st, hreach, e⟩ := setHashesZ_ok_reach hr
        cases hg : get t 0 with
        | none => exact absurd hg hroot
        | some r =>
          have := hreach.mono hstrict (a := { t := t, red := [], rm := [] }) hg
          rw [← e, this]; exact fun e => nomatch e
    · have := setHashesZ_rollback hstrict hcatch pick first t hashes leaves hr ho
      subst this
      exact ⟨⟨hlen, hagree, hroot⟩, fun _ => rfl⟩

/-- statement: Tahoe.C35.history_invariant -/
theorem runBatches_hinv [DecidableEq H] {ops : HashOps H} {cfg : Cfg} (hstrict : StrictPresence ops cfg)
    (hcatch : cfg.catchIndex = true) (hinj : PairInjective ops) {T : Tree H} (hT : Genuine ops T)
    (first : Nat) (calls : List (Batch H)) (t : Tree H) (hinv : HInv T t) :
    ∀ r ∈ runBatches ops cfg first t calls, HInv T r.2 := by
  induction calls generalizing t with
  | nil => intro r hr; cases hr
  | cons b rest ih =>
    intro r hr
    have hstep := (setHashesZ_hinv hstrict hcatch hinj hT hinv b.pick first b.hashes b.leaves).1
    unfold runBatches at hr
    rcases List.mem_cons.mp hr with e | e
    · rw [e]; exact hstep
    · exact ih _ hstep r e

end Tahoe.Base.Merkle
