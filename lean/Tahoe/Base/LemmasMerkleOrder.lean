import Tahoe.Base.LemmasMerkleSound
/-! The pop order of `set_hashes` does not matter (helper lemmas for Tahoe/Props/C35.lean). -/
namespace Tahoe.Base.Merkle

variable {H : Type}

/-- `t'` has every entry of `t` -/
def Sub (t t' : Tree H) : Prop := ∀ x v, get t x = some v → get t' x = some v

theorem tree_ext {a b : Tree H} (hlen : a.length = b.length) (h : ∀ x, get a x = get b x) : a = b := by
  apply List.ext_getElem?
  intro x
  by_cases hx : x < a.length
  · rw [getElem?_eq_some_get hx, getElem?_eq_some_get (by omega), h x]
  · rw [List.getElem?_eq_none (by omega), List.getElem?_eq_none (by omega)]

theorem tree_eq_of_sub {a b : Tree H} (hlen : a.length = b.length) (h1 : Sub a b) (h2 : Sub b a) : a = b := by
  apply tree_ext hlen
  intro x
  cases ha : get a x with
  | some v => exact (h1 x v ha).symm
  | none =>
    cases hb : get b x with
    | none => rfl
    | some w => have := h2 x w hb; rw [ha] at this; cases this

/-- under a strict presence test the red set after is the red set before plus the newly populated entries -/
theorem Reach.red_iff {ops : HashOps H} (htr : ∀ h, ops.truthy h = true) {a b : St H} (h : Reach ops a b)
    (j : Nat) : j ∈ b.red ↔ j ∈ a.red ∨ (get a.t j = none ∧ get b.t j ≠ none) := by
  constructor
  · intro hj
    induction h with
    | refl => exact Or.inl hj
    | step st st' p v hp hg hr ih =>
      have hn := none_of_not_truthy htr hg
      rcases ih hj with h1 | ⟨h1, h2⟩
      · cases mem_addSet.mp h1 with
        | inl h1 => exact Or.inl h1
        | inr h1 =>
          right; subst h1
          refine ⟨hn, ?_⟩
          have : get (upd st j v).t j = some v := by simp [upd, get_set_eq _ hp]
          exact fun e => by rw [hr.mono htr this] at e; cases e
      · by_cases e : p = j
        · right; subst e; exact ⟨hn, h2⟩
        · right; refine ⟨?_, h2⟩
          simpa [upd, get_set_ne _ e] using h1
  · intro hj
    rcases hj with h1 | ⟨h1, h2⟩
    · exact h.red_sub h1
    · cases h.newPop h2 with
      | inl h3 => exact absurd h1 h3
      | inr h3 => exact h3

/-- value of a checked node's parent -/
theorem checked_value {ops : HashOps H} {t : Tree H} {i : Nat} (hc : Checked ops t i) {a b : H}
    (hgi : get t i = some a) (hgs : get t (sibling i) = some b) :
    get t (parent i) = some (if i ≤ sibling i then ops.pair a b else ops.pair b a) := by
  obtain ⟨hi, x, y, h1, h2, h3⟩ := hc
  have hcp := children_of_parent hi
  by_cases hle : i ≤ sibling i
  · obtain ⟨e1, e2⟩ := hcp.1 hle
    rw [e1, hgi] at h1; rw [e2, hgs] at h2
    injection h1 with h1; injection h2 with h2; subst h1; subst h2
    rw [if_pos hle]; exact h3
  · obtain ⟨e1, e2⟩ := hcp.2 hle
    rw [e1, hgs] at h1; rw [e2, hgi] at h2
    injection h1 with h1; injection h2 with h2; subst h1; subst h2
    rw [if_neg hle]; exact h3

/-- post-condition of a successful level: every processed node and its sibling were present at entry and
    hash to the parent stored at exit -/
theorem levelLoop_post [DecidableEq H] {ops : HashOps H} (htr : ∀ h, ops.truthy h = true)
    (pick : List Nat → Nat) (l f : Nat) (this : List Nat) (st : St H) {st1 : St H}
    (h : levelLoop ops pick f this st = .ok st1) (hdepth : ∀ i ∈ this, depthOf i = l) :
    ∀ i ∈ this, i ≠ 0 → get st.t i ≠ none ∧ get st.t (sibling i) ≠ none ∧ Checked ops st1.t i := by
  fun_induction levelLoop ops pick f this st with
  | case1 => intro i hi; cases hi
  | case2 => cases h
  | case3 f head tail st i this hi ih =>
    intro j hj hj0
    exact ih h (fun x hx => hdepth x (List.mem_of_mem_erase hx)) j
      (mem_erase_of_mem_ne hj (by rw [hi]; exact hj0)) hj0
  | case4 => cases h
  | case5 => cases h
  | case6 => cases h
  | case7 f head tail st i this hi s hs hgs hi' hgi p np htr' heq ih =>
    have hpe : get st.t p = some np := Classical.not_not.mp heq
    have hck := checked_of_pair (ops := ops) hi hgi hgs hpe
    have hr := levelLoop_reach ops pick f (this.erase s) st
    rw [h] at hr
    have hmono : ∀ x v, get st.t x = some v → get st1.t x = some v := fun x v hx => hr.mono htr hx
    intro j hj hj0
    by_cases e1 : j = i
    · rw [e1]; exact ⟨ne_none_of_some' hgi, ne_none_of_some' hgs, hck.1.mono hmono⟩
    · by_cases e2 : j = s
      · rw [e2]
        refine ⟨ne_none_of_some' hgs, ?_, hck.2.mono hmono⟩
        show get st.t (sibling (sibling i)) ≠ none
        rw [sibling_sibling hi]; exact ne_none_of_some' hgi
      · exact ih h (fun x hx => hdepth x (List.mem_of_mem_erase (List.mem_of_mem_erase hx))) j
          (mem_erase_of_mem_ne (mem_erase_of_mem_ne hj e1) e2) hj0
  | case8 f head tail st i this hi s hs hgs hi' hgi p np htr' ih =>
    have hm_i : i ∈ head :: tail := popChoice_mem pick head tail
    have hn : get st.t p = none := none_of_not_truthy htr (by simpa using htr')
    have hplt : p < st.t.length := by
      have := lt_of_get_some hgi; have := parent_lt hi; omega
    have hmono0 : ∀ x v, get st.t x = some v → get (st.t.set p (some np)) x = some v := by
      intro x v hx
      have : p ≠ x := by intro e; subst e; rw [hn] at hx; cases hx
      rw [get_set_ne _ this]; exact hx
    have hck := checked_of_pair (ops := ops) (t := st.t.set p (some np)) hi (hmono0 _ _ hgi) (hmono0 _ _ hgs)
      (get_set_eq _ hplt)
    have hr := levelLoop_reach ops pick f (this.erase s)
      { t := st.t.set p (some np), red := addSet st.red p, rm := addSet st.rm p }
    rw [h] at hr
    have hmono : ∀ x v, get (st.t.set p (some np)) x = some v → get st1.t x = some v :=
      fun x v hx => hr.mono htr hx
    have hdp : depthOf p + 1 = l := by
      show depthOf (parent i) + 1 = l
      have := depthOf_parent hi; have := hdepth i hm_i; omega
    intro j hj hj0
    by_cases e1 : j = i
    · rw [e1]; exact ⟨ne_none_of_some' hgi, ne_none_of_some' hgs, hck.1.mono hmono⟩
    · by_cases e2 : j = s
      · rw [e2]
        refine ⟨ne_none_of_some' hgs, ?_, hck.2.mono hmono⟩
        show get st.t (sibling (sibling i)) ≠ none
        rw [sibling_sibling hi]; exact ne_none_of_some' hgi
      · have hj' := mem_erase_of_mem_ne (mem_erase_of_mem_ne hj e1) e2
        obtain ⟨h1, h2, h3⟩ := ih h (fun x hx => hdepth x (List.mem_of_mem_erase (List.mem_of_mem_erase hx))) j hj' hj0
        have hdj := hdepth j hj
        have hpj : p ≠ j := by intro e; rw [← e] at hdj; omega
        have hps : p ≠ sibling j := by
          intro e; have := depthOf_sibling hj0; rw [← e] at this; omega
        simp only [get_set_ne _ hpj, get_set_ne _ hps] at h1 h2
        exact ⟨h1, h2, h3⟩

/-- a level cannot fail, and stays below `tf`, when `tf` extends the entry tree and checks every node of
    the level -/
theorem levelLoop_follow [DecidableEq H] {ops : HashOps H} (htr : ∀ h, ops.truthy h = true)
    (tf : Tree H) (pick : List Nat → Nat) (f : Nat) (this : List Nat) (st : St H)
    (hf : this.length ≤ f) (hsub : Sub st.t tf)
    (hpost : ∀ i ∈ this, i ≠ 0 → get st.t i ≠ none ∧ get st.t (sibling i) ≠ none ∧ Checked ops tf i) :
    ∃ st1, levelLoop ops pick f this st = .ok st1 ∧ Sub st1.t tf := by
  fun_induction levelLoop ops pick f this st with
  | case1 f st => exact ⟨st, rfl, hsub⟩
  | case2 => simp at hf
  | case3 f head tail st i this hi ih =>
    have hm : i ∈ head :: tail := popChoice_mem pick head tail
    apply ih
    · have h1 : this.length = (head :: tail).length - 1 := List.length_erase_of_mem hm
      have h0 : (head :: tail).length = tail.length + 1 := rfl
      omega
    · exact hsub
    · intro j hj; exact hpost j (List.mem_of_mem_erase hj)
  | case4 f head tail st i hi s hgs =>
    exact absurd hgs (hpost i (popChoice_mem pick head tail) hi).2.1
  | case5 f head tail st i hi s hs hgs hgi =>
    exact absurd hgi (hpost i (popChoice_mem pick head tail) hi).1
  | case6 f head tail st i hi s hs hgs hi' hgi p np htr' hne =>
    exfalso
    have hc := (hpost i (popChoice_mem pick head tail) hi).2.2
    have hv := checked_value hc (hsub _ _ hgi) (hsub _ _ hgs)
    cases hg : get st.t p with
    | none => rw [hg] at htr'; simp [truthyOpt] at htr'
    | some w =>
      have := hsub p w hg
      rw [hv] at this
      apply hne; rw [hg, ← this]
  | case7 f head tail st i this hi s hs hgs hi' hgi p np htr' heq ih =>
    have hm : i ∈ head :: tail := popChoice_mem pick head tail
    apply ih
    · have h1 : this.length = (head :: tail).length - 1 := List.length_erase_of_mem hm
      have h0 : (head :: tail).length = tail.length + 1 := rfl
      have h2 := length_erase_le this s
      omega
    · exact hsub
    · intro j hj; exact hpost j (List.mem_of_mem_erase (List.mem_of_mem_erase hj))
  | case8 f head tail st i this hi s hs hgs hi' hgi p np htr' ih =>
    have hm : i ∈ head :: tail := popChoice_mem pick head tail
    have hn : get st.t p = none := none_of_not_truthy htr (by simpa using htr')
    have hplt : p < st.t.length := by
      have := lt_of_get_some hgi; have := parent_lt hi; omega
    have hc := (hpost i hm hi).2.2
    have hv := checked_value hc (hsub _ _ hgi) (hsub _ _ hgs)
    have hmono : ∀ x, get st.t x ≠ none → get (st.t.set p (some np)) x ≠ none := by
      intro x hx
      by_cases e : p = x
      · subst e; rw [get_set_eq _ hplt]; exact fun e => nomatch e
      · rw [get_set_ne _ e]; exact hx
    apply ih
    · have h1 : this.length = (head :: tail).length - 1 := List.length_erase_of_mem hm
      have h0 : (head :: tail).length = tail.length + 1 := rfl
      have h2 := length_erase_le this s
      omega
    · intro x v hx
      by_cases e : p = x
      · subst e
        rw [get_set_eq _ hplt] at hx
        injection hx with hx; rw [← hx]; exact hv
      · rw [get_set_ne _ e] at hx; exact hsub x v hx
    · intro j hj hj0
      obtain ⟨h1, h2, h3⟩ := hpost j (List.mem_of_mem_erase (List.mem_of_mem_erase hj)) hj0
      exact ⟨hmono _ h1, hmono _ h2, h3⟩

/-- two loop states with the same list and the same red set -/
def Eqv (a b : St H) : Prop := a.t = b.t ∧ ∀ j, j ∈ a.red ↔ j ∈ b.red

theorem levelLoop_eqv [DecidableEq H] {ops : HashOps H} (htr : ∀ h, ops.truthy h = true)
    (pick1 pick2 : List Nat → Nat) (k : Nat) (a b : St H) (hab : Eqv a b) {a1 : St H}
    (h : levelLoop ops pick1 (thisLevel a k).length (thisLevel a k) a = .ok a1) :
    ∃ b1, levelLoop ops pick2 (thisLevel b k).length (thisLevel b k) b = .ok b1 ∧ Eqv a1 b1 := by
  have hmem : ∀ i, i ∈ thisLevel b k ↔ i ∈ thisLevel a k := by
    intro i; rw [mem_thisLevel, mem_thisLevel, hab.2 i]
  have hra0 := levelLoop_reach ops pick1 (thisLevel a k).length (thisLevel a k) a
  rw [h] at hra0
  have hra : Reach ops a a1 := hra0
  have hpa := levelLoop_post htr pick1 k _ _ a h (fun i hi => (mem_thisLevel.mp hi).2)
  obtain ⟨b1, hb1, hsub1⟩ := levelLoop_follow htr a1.t pick2 _ (thisLevel b k) b (Nat.le_refl _)
    (by rw [← hab.1]; exact fun x v hx => hra.mono htr hx)
    (by intro i hi hi0; rw [← hab.1]; exact hpa i ((hmem i).mp hi) hi0)
  have hrb0 := levelLoop_reach ops pick2 (thisLevel b k).length (thisLevel b k) b
  rw [hb1] at hrb0
  have hrb : Reach ops b b1 := hrb0
  have hpb := levelLoop_post htr pick2 k _ _ b hb1 (fun i hi => (mem_thisLevel.mp hi).2)
  obtain ⟨a1', ha1', hsub2⟩ := levelLoop_follow htr b1.t pick1 _ (thisLevel a k) a (Nat.le_refl _)
    (by rw [hab.1]; exact fun x v hx => hrb.mono htr hx)
    (by intro i hi hi0; rw [hab.1]; exact hpb i ((hmem i).mpr hi) hi0)
  rw [h] at ha1'; injection ha1' with ha1'; subst ha1'
  have hlen : a1.t.length = b1.t.length := by
    have e1 : a1.t.length = a.t.length := hra.length_eq
    have e2 : b1.t.length = b.t.length := hrb.length_eq
    rw [e1, e2, hab.1]
  have hteq : a1.t = b1.t := tree_eq_of_sub hlen hsub2 hsub1
  refine ⟨b1, hb1, hteq, ?_⟩
  intro j
  rw [hra.red_iff htr j, hrb.red_iff htr j, hab.1, hteq, hab.2 j]

theorem levelsLoop_eqv [DecidableEq H] {ops : HashOps H} (htr : ∀ h, ops.truthy h = true)
    (pick1 pick2 : List Nat → Nat) (k : Nat) (a b : St H) (hab : Eqv a b) {a1 : St H}
    (h : levelsLoop ops pick1 k a = .ok a1) :
    ∃ b1, levelsLoop ops pick2 k b = .ok b1 ∧ Eqv a1 b1 := by
  induction k generalizing a b with
  | zero => injection h with h; subst h; exact ⟨b, rfl, hab⟩
  | succ k ih =>
    unfold levelsLoop at h
    cases hres : levelLoop ops pick1 (thisLevel a k).length (thisLevel a k) a with
    | error e => rw [hres] at h; cases h
    | ok a' =>
      rw [hres] at h
      obtain ⟨b', hb', hab'⟩ := levelLoop_eqv htr pick1 pick2 k a b hab hres
      obtain ⟨b1, hb1, hab1⟩ := ih a' b' hab' h
      refine ⟨b1, ?_, hab1⟩
      unfold levelsLoop; rw [hb']; exact hb1

/-- the `try:` body succeeds under one pop order iff it does under any other, with the same list -/
theorem tryBody_order [DecidableEq H] {ops : HashOps H} (htr : ∀ h, ops.truthy h = true)
    (pick1 pick2 : List Nat → Nat) (t : Tree H) (new : List (Nat × H)) {st1 : St H}
    (h : tryBody ops pick1 t new = .ok st1) : ∃ st2, tryBody ops pick2 t new = .ok st2 ∧ st2.t = st1.t := by
  unfold tryBody at h
  cases hres : provisional ops new { t := t, red := [], rm := [] } with
  | error e => rw [hres] at h; cases h
  | ok st0 =>
    rw [hres] at h
    obtain ⟨st2, h2, he⟩ := levelsLoop_eqv htr pick1 pick2 _ st0 st0 ⟨rfl, fun _ => Iff.rfl⟩ h
    refine ⟨st2, ?_, he.1.symm⟩
    unfold tryBody; rw [hres]; exact h2

end Tahoe.Base.Merkle
