/-
Netstring *encoding* only (`util/netstring.py netstring`): `b"%d:%s," % (len(s), s)`, with the lemmas
C17 needs: the encoding is uniquely decodable from the front (`netstring_append_inj`), hence
prefix-free.  Self-contained and Mathlib-free (the full codec with `split_netstring` lives in
`Tahoe/Base/Netstring.lean`, written by another builder; nothing here depends on it).
-/
namespace Tahoe.Base.NetstringEnc


/-- fuel-driven worker for `decDigits` (structural recursion, so that the kernel can evaluate it);
    with `n < fuel` the fuel never runs out -/
def decDigitsAux : Nat → Nat → List UInt8
  | 0, _ => []
  | fuel + 1, n =>
    if n < 10 then [UInt8.ofNat (48 + n)] else decDigitsAux fuel (n / 10) ++ [UInt8.ofNat (48 + n % 10)]

/-- ASCII decimal digits of `n` without leading zeros (`b"%d" % n` for `n ≥ 0`). -/
def decDigits (n : Nat) : List UInt8 := decDigitsAux (n + 1) n

theorem decDigitsAux_fuel : ∀ (f1 f2 n : Nat), n < f1 → n < f2 → decDigitsAux f1 n = decDigitsAux f2 n
  | 0, _, _, h, _ => by omega
  | _ + 1, 0, _, _, h => by omega
  | f1 + 1, f2 + 1, n, h1, h2 => by
    simp only [decDigitsAux]
    split
    · rfl
    · rw [decDigitsAux_fuel f1 f2 (n / 10) (by omega) (by omega)]

/-- the defining equation of `decDigits` -/
theorem decDigits_eq (n : Nat) :
    decDigits n = if n < 10 then [UInt8.ofNat (48 + n)] else decDigits (n / 10) ++ [UInt8.ofNat (48 + n % 10)] := by
  show decDigitsAux (n + 1) n = _
  rw [decDigitsAux]
  by_cases h : n < 10
  · simp only [h, if_true]
  · simp only [h, if_false]
    rw [decDigits, decDigitsAux_fuel n (n / 10 + 1) (n / 10) (by omega) (by omega)]

/-- `netstring(s) = b"%d:%s," % (len(s), s)`; 58 = ':' and 44 = ','. -/
def netstring (s : List UInt8) : List UInt8 := decDigits s.length ++ 58 :: (s ++ [44])

/-- value of a digit string (left inverse of `decDigits`, used only in proofs) -/
def decVal (ds : List UInt8) : Nat := ds.foldl (fun a d => 10 * a + (d.toNat - 48)) 0

theorem decDigits_digit (n : Nat) : ∀ d ∈ decDigits n, 48 ≤ d.toNat ∧ d.toNat ≤ 57 := by
  induction n using Nat.strongRecOn with
  | _ n ih =>
    intro d hd
    rw [decDigits_eq] at hd
    split at hd
    · simp only [List.mem_singleton] at hd
      subst hd
      simp only [UInt8.toNat_ofNat']
      omega
    · rcases List.mem_append.mp hd with h | h
      · exact ih (n / 10) (by omega) d h
      · simp only [List.mem_singleton] at h
        subst h
        simp only [UInt8.toNat_ofNat']
        omega

theorem colon_not_mem_decDigits (n : Nat) : (58 : UInt8) ∉ decDigits n := by
  intro h
  have := decDigits_digit n 58 h
  simp at this

theorem decVal_append_single (ds : List UInt8) (d : UInt8) :
    decVal (ds ++ [d]) = 10 * decVal ds + (d.toNat - 48) := by
  simp [decVal, List.foldl_append]

theorem decVal_decDigits (n : Nat) : decVal (decDigits n) = n := by
  induction n using Nat.strongRecOn with
  | _ n ih =>
    rw [decDigits_eq]
    split
    · simp only [decVal, List.foldl_cons, List.foldl_nil, UInt8.toNat_ofNat']
      omega
    · rw [decVal_append_single, ih (n / 10) (by omega)]
      simp only [UInt8.toNat_ofNat']
      omega

theorem decDigits_inj {a b : Nat} (h : decDigits a = decDigits b) : a = b := by
  have := congrArg decVal h
  rwa [decVal_decDigits, decVal_decDigits] at this

/-- splitting at the first occurrence of a separator is unique -/
theorem split_at_sep {α} (c : α) :
    ∀ (l1 l2 r1 r2 : List α), c ∉ l1 → c ∉ l2 → l1 ++ c :: r1 = l2 ++ c :: r2 → l1 = l2 ∧ r1 = r2
  | [], [], _, _, _, _, h => by simpa using h
  | [], y :: l2, _, _, _, h2, h => by
      simp only [List.nil_append, List.cons_append, List.cons.injEq] at h
      exact absurd (h.1 ▸ List.mem_cons_self) h2
  | x :: l1, [], _, _, h1, _, h => by
      simp only [List.nil_append, List.cons_append, List.cons.injEq] at h
      exact absurd (h.1 ▸ List.mem_cons_self) h1
  | x :: l1, y :: l2, r1, r2, h1, h2, h => by
      simp only [List.cons_append, List.cons.injEq] at h
      have := split_at_sep c l1 l2 r1 r2 (fun m => h1 (List.mem_cons_of_mem _ m))
        (fun m => h2 (List.mem_cons_of_mem _ m)) h.2
      exact ⟨by rw [h.1, this.1], this.2⟩

/-- **Unique decodability from the front**: a netstring followed by anything determines both the
    payload and the remainder.  (The genuine ∀-lemma behind domain separation.) -/
theorem netstring_append_inj {a b x y : List UInt8} (h : netstring a ++ x = netstring b ++ y) :
    a = b ∧ x = y := by
  simp only [netstring, List.append_assoc, List.cons_append] at h
  obtain ⟨hd, hr⟩ := split_at_sep 58 _ _ _ _ (colon_not_mem_decDigits _) (colon_not_mem_decDigits _) h
  have hl : a.length = b.length := decDigits_inj hd
  obtain ⟨hab, hxy⟩ := List.append_inj hr hl
  simp only [List.nil_append, List.cons.injEq, true_and] at hxy
  exact ⟨hab, hxy⟩

theorem netstring_inj {a b : List UInt8} (h : netstring a = netstring b) : a = b := by
  have := @netstring_append_inj a b [] [] (by simpa using h)
  exact this.1

/-- **Prefix-freeness**: no netstring is a proper prefix of another. -/
theorem netstring_prefix_free {a b : List UInt8} (h : netstring a <+: netstring b) : a = b := by
  obtain ⟨t, ht⟩ := h
  exact (@netstring_append_inj a b t [] (by simpa using ht)).1

theorem netstring_length (s : List UInt8) : (netstring s).length = (decDigits s.length).length + s.length + 2 := by
  simp [netstring]; omega

/-- a netstring starts with a decimal digit -/
theorem netstring_head_digit (s x : List UInt8) :
    ∃ d r, netstring s ++ x = d :: r ∧ 48 ≤ d.toNat ∧ d.toNat ≤ 57 := by
  have hne : decDigits s.length ≠ [] := by
    rw [decDigits_eq]; split <;> simp
  match hd : decDigits s.length with
  | [] => exact absurd hd hne
  | d :: ds =>
    refine ⟨d, ds ++ 58 :: (s ++ [44]) ++ x, ?_, ?_⟩
    · simp [netstring, hd]
    · exact decDigits_digit s.length d (by rw [hd]; exact List.mem_cons_self)

-- tests
#guard netstring [] = [48, 58, 44]
#guard netstring [97, 98, 99] = [51, 58, 97, 98, 99, 44]
#guard decDigits 1024 = [49, 48, 50, 52]

end Tahoe.Base.NetstringEnc
