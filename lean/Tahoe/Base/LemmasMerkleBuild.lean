import Tahoe.Base.LemmasMerkle
/-! `HashTree(L)` (`build`) is a genuine Merkle tree: odd length, fully populated, every internal node the
    pair hash of its children. -/
namespace Tahoe.Base.Merkle

variable {H : Type}

theorem pairUp_length (ops : HashOps H) (l : List H) : (pairUp ops l).length = l.length / 2 := by
  fun_induction pairUp ops l with
  | case1 a b rest ih => simp [ih]; omega
  | case2 l h =>
    match l with
    | [] => simp
    | [_] => simp
    | a :: b :: rest => exact absurd rfl (h a b rest)

theorem pairUp_getElem? (ops : HashOps H) (l : List H) (x : Nat) (a b : H)
    (ha : l[2 * x]? = some a) (hb : l[2 * x + 1]? = some b) : (pairUp ops l)[x]? = some (ops.pair a b) := by
  fun_induction pairUp ops l generalizing x with
  | case1 a' b' rest ih =>
    cases x with
    | zero => simp at ha hb; subst ha; subst hb; simp
    | succ x =>
      have e1 : 2 * (x + 1) = 2 * x + 1 + 1 := by omega
      have e2 : 2 * (x + 1) + 1 = 2 * x + 1 + 1 + 1 := by omega
      rw [e1] at ha; rw [e2] at hb
      simp only [List.getElem?_cons_succ] at ha hb ⊢
      exact ih x ha hb
  | case2 l h =>
    match l with
    | [] => simp at ha
    | [_] => simp at hb
    | a' :: b' :: rest => exact absurd rfl (h a' b' rest)

/-- heap property in coordinates shifted by the length `m` of the top row: the children of position `x` are
    at `2x+m`, `2x+m+1` (for `m = 1` this is the usual `2x+1`, `2x+2`) -/
def Shifted (ops : HashOps H) (m : Nat) (X : List H) : Prop :=
  ∀ x a b, X[2 * x + m]? = some a → X[2 * x + m + 1]? = some b → X[x]? = some (ops.pair a b)

theorem buildAux_spec (ops : HashOps H) (f d M : Nat) (last below : List H)
    (hm : last.length = 2 ^ d) (hd : d ≤ f) (hlen : (last ++ below).length + last.length = 2 * M)
    (hs : Shifted ops last.length (last ++ below)) :
    Shifted ops 1 (buildAux ops f last below) ∧ (buildAux ops f last below).length + 1 = 2 * M := by
  induction f generalizing d last below with
  | zero =>
    have : d = 0 := by omega
    subst this
    simp only [buildAux]
    rw [hm] at hs hlen
    exact ⟨hs, hlen⟩
  | succ f ih =>
    unfold buildAux
    by_cases h1 : last.length = 1
    · rw [if_pos h1]; rw [h1] at hs hlen; exact ⟨hs, hlen⟩
    · rw [if_neg h1]
      have hd0 : d ≠ 0 := by intro e; subst e; exact h1 hm
      obtain ⟨d', rfl⟩ : ∃ d', d = d' + 1 := ⟨d - 1, by omega⟩
      have hpl : (pairUp ops last).length = 2 ^ d' := by
        rw [pairUp_length, hm, Nat.pow_succ]; omega
      have hm2 : last.length = 2 * 2 ^ d' := by rw [hm, Nat.pow_succ]; omega
      apply ih d' (pairUp ops last) (last ++ below) hpl (by omega)
      · simp only [List.length_append] at hlen ⊢; omega
      · intro x a b ha hb
        rw [hpl] at ha hb
        have ha' : (last ++ below)[2 * x]? = some a := by
          rw [List.getElem?_append_right (by omega)] at ha
          rw [hpl] at ha
          have : 2 * x + 2 ^ d' - 2 ^ d' = 2 * x := by omega
          rw [this] at ha; exact ha
        have hb' : (last ++ below)[2 * x + 1]? = some b := by
          rw [List.getElem?_append_right (by omega)] at hb
          rw [hpl] at hb
          have : 2 * x + 2 ^ d' + 1 - 2 ^ d' = 2 * x + 1 := by omega
          rw [this] at hb; exact hb
        by_cases hx : x < 2 ^ d'
        · rw [List.getElem?_append_left (by omega)]
          apply pairUp_getElem?
          · rw [List.getElem?_append_left (by omega)] at ha'; exact ha'
          · rw [List.getElem?_append_left (by omega)] at hb'; exact hb'
        · rw [List.getElem?_append_right (by omega), hpl]
          apply hs
          · rw [hm2]
            have : 2 * (x - 2 ^ d') + 2 * 2 ^ d' = 2 * x := by omega
            rw [this]; exact ha'
          · rw [hm2]
            have : 2 * (x - 2 ^ d') + 2 * 2 ^ d' + 1 = 2 * x + 1 := by omega
            rw [this]; exact hb'

theorem roundupPow2Aux_pow (f e x : Nat) : ∃ d, roundupPow2Aux f (2 ^ e) x = 2 ^ d := by
  induction f generalizing e with
  | zero => exact ⟨e, rfl⟩
  | succ f ih =>
    unfold roundupPow2Aux
    split
    · have : 2 ^ e * 2 = 2 ^ (e + 1) := by rw [Nat.pow_succ]
      rw [this]; exact ih (e + 1)
    · exact ⟨e, rfl⟩

theorem roundupPow2Aux_ge (f ans x : Nat) (h : x ≤ ans * 2 ^ f) : x ≤ roundupPow2Aux f ans x := by
  induction f generalizing ans with
  | zero => simpa [roundupPow2Aux] using h
  | succ f ih =>
    unfold roundupPow2Aux
    split
    · apply ih; rw [Nat.pow_succ] at h; rw [Nat.mul_assoc, Nat.mul_comm 2]; exact h
    · omega

theorem roundupPow2_pow (x : Nat) : ∃ d, roundupPow2 x = 2 ^ d := by
  have := roundupPow2Aux_pow x 0 x
  simpa [roundupPow2] using this

theorem roundupPow2_ge (x : Nat) : x ≤ roundupPow2 x := by
  apply roundupPow2Aux_ge
  have := Nat.lt_two_pow_self (n := x)
  omega

theorem padLeaves_length (ops : HashOps H) (L : List H) : (padLeaves ops L).length = roundupPow2 L.length := by
  unfold padLeaves
  have := roundupPow2_ge L.length
  simp; omega

/-- `HashTree(L)` is a genuine Merkle tree whose bottom row is `L` padded with `empty_leaf_hash(i)` -/
theorem build_genuine (ops : HashOps H) (L : List H) : Genuine ops (build ops L) := by
  obtain ⟨d, hd⟩ := roundupPow2_pow L.length
  have hpl := padLeaves_length ops L
  have hspec := buildAux_spec ops (padLeaves ops L).length d (padLeaves ops L).length (padLeaves ops L) []
    (by rw [hpl, hd]) (by rw [hpl, hd]; exact Nat.le_of_lt Nat.lt_two_pow_self)
    (by simp; omega)
    (by
      intro x a b ha _
      rw [List.append_nil] at ha
      rw [List.getElem?_eq_none (by omega)] at ha; cases ha)
  obtain ⟨hs, hlen⟩ := hspec
  have hget : ∀ i, get (build ops L) i = (buildList ops L)[i]? := by
    intro i
    unfold get build
    rw [List.getElem?_map]
    cases (buildList ops L)[i]? <;> rfl
  refine ⟨?_, ?_, ?_⟩
  · unfold build; rw [List.length_map]
    show (buildAux ops (padLeaves ops L).length (padLeaves ops L) []).length % 2 = 1
    omega
  · intro i hi
    rw [hget]
    unfold build at hi; rw [List.length_map] at hi
    rw [List.getElem?_eq_getElem hi]; exact fun e => nomatch e
  · intro i a b h1 h2
    rw [hget] at h1 h2 ⊢
    exact hs i a b h1 h2

theorem build_length (ops : HashOps H) (L : List H) : (build ops L).length = 2 * roundupPow2 L.length - 1 := by
  obtain ⟨d, hd⟩ := roundupPow2_pow L.length
  have hpl := padLeaves_length ops L
  have hspec := buildAux_spec ops (padLeaves ops L).length d (padLeaves ops L).length (padLeaves ops L) []
    (by rw [hpl, hd]) (by rw [hpl, hd]; exact Nat.le_of_lt Nat.lt_two_pow_self)
    (by simp; omega)
    (by
      intro x a b ha _
      rw [List.append_nil] at ha
      rw [List.getElem?_eq_none (by omega)] at ha; cases ha)
  have hlen := hspec.2
  unfold build; rw [List.length_map]
  show (buildAux ops (padLeaves ops L).length (padLeaves ops L) []).length = _
  omega

theorem buildAux_suffix (ops : HashOps H) (f : Nat) (last below : List H) :
    ∃ pre, buildAux ops f last below = pre ++ (last ++ below) := by
  induction f generalizing last below with
  | zero => exact ⟨[], rfl⟩
  | succ f ih =>
    unfold buildAux
    split
    · exact ⟨[], rfl⟩
    · obtain ⟨pre, h⟩ := ih (pairUp ops last) (last ++ below)
      exact ⟨pre ++ pairUp ops last, by rw [h]; simp⟩

/-- the bottom row of `HashTree(L)` starts at `first_leaf_num` and is `L` followed by the padding -/
theorem build_bottom_row (ops : HashOps H) (L : List H) (k : Nat) :
    get (build ops L) (firstLeafNum L.length + k) = (padLeaves ops L)[k]? := by
  obtain ⟨pre, hpre⟩ := buildAux_suffix ops (padLeaves ops L).length (padLeaves ops L) []
  have hg := build_genuine ops L
  have hpl := padLeaves_length ops L
  obtain ⟨d, hd⟩ := roundupPow2_pow L.length
  have hspec := buildAux_spec ops (padLeaves ops L).length d (padLeaves ops L).length (padLeaves ops L) []
    (by rw [hpl, hd]) (by rw [hpl, hd]; exact Nat.le_of_lt Nat.lt_two_pow_self)
    (by simp; omega)
    (by
      intro x a b ha _
      rw [List.append_nil] at ha
      rw [List.getElem?_eq_none (by omega)] at ha; cases ha)
  have hlen := hspec.2
  rw [hpre] at hlen
  simp only [List.length_append, List.append_nil] at hlen
  have hprelen : pre.length = firstLeafNum L.length := by unfold firstLeafNum; omega
  unfold get build buildList
  simp only
  rw [hpre, List.append_nil, List.getElem?_map, ← hprelen, List.getElem?_append_right (by omega)]
  have : pre.length + k - pre.length = k := by omega
  rw [this]
  cases (padLeaves ops L)[k]? <;> rfl

theorem build_leaf (ops : HashOps H) (L : List H) (k : Nat) (hk : k < L.length) :
    get (build ops L) (firstLeafNum L.length + k) = L[k]? := by
  rw [build_bottom_row]
  unfold padLeaves
  rw [List.getElem?_append_left hk]

theorem build_padding (ops : HashOps H) (L : List H) (k : Nat) (h1 : L.length ≤ k)
    (h2 : k < roundupPow2 L.length) :
    get (build ops L) (firstLeafNum L.length + k) = some (ops.emptyLeaf k) := by
  rw [build_bottom_row]
  unfold padLeaves
  rw [List.getElem?_append_right h1]
  have : k - L.length < roundupPow2 L.length - L.length := by omega
  simp [this]
  congr 1; omega

end Tahoe.Base.Merkle
