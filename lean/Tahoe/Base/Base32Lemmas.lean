import Tahoe.Base.Base32
/-! Round trip and canonicity of the base32 model (`slack = 0`: the corrected trailing-bits table). -/
namespace Tahoe.Base.Base32
open Tahoe.Base Tahoe.Base.Bytes

theorem valOf_charOf : ∀ d, d < 32 → valOf (charOf d) = some d := by decide

theorem charOf_valOf {c : UInt8} {v : Nat} (h : valOf c = some v) : charOf v = c ∧ v < 32 := by
  have hc := c.toNat_lt
  simp only [valOf] at h
  split at h
  · simp only [Option.some.injEq] at h; subst h
    refine ⟨?_, by omega⟩
    apply UInt8.toNat_inj.mp
    simp only [charOf]; rw [if_pos (by omega)]; simp only [UInt8.toNat_ofNat']; omega
  · split at h
    · simp only [Option.some.injEq] at h; subst h
      refine ⟨?_, by omega⟩
      apply UInt8.toNat_inj.mp
      simp only [charOf]; rw [if_neg (by omega)]; simp only [UInt8.toNat_ofNat']; omega
    · simp at h

theorem vals_map_charOf (ds : List Nat) (h : ∀ d ∈ ds, d < 32) : vals (ds.map charOf) = ds := by
  induction ds with
  | nil => rfl
  | cons d ds ih =>
    simp only [vals, List.map_cons, List.map_map] at *
    rw [valOf_charOf d (h d List.mem_cons_self)]
    simp only [Option.getD_some, List.cons.injEq, true_and]
    exact ih (fun x hx => h x (List.mem_cons_of_mem _ hx))

theorem all_valid_map_charOf (ds : List Nat) (h : ∀ d ∈ ds, d < 32) :
    (ds.map charOf).all (fun c => (valOf c).isSome) = true := by
  simp only [List.all_map, List.all_eq_true, Function.comp]
  intro d hd
  rw [valOf_charOf d (h d hd)]; rfl

theorem map_charOf_vals (cs : Bytes) (h : cs.all (fun c => (valOf c).isSome) = true) :
    (vals cs).map charOf = cs ∧ ∀ d ∈ vals cs, d < 32 := by
  induction cs with
  | nil => exact ⟨rfl, by simp [vals]⟩
  | cons c cs ih =>
    simp only [List.all_cons, Bool.and_eq_true] at h
    obtain ⟨ih1, ih2⟩ := ih h.2
    cases hv : valOf c with
    | none => simp [hv] at h
    | some v =>
      obtain ⟨h1, h2⟩ := charOf_valOf hv
      refine ⟨?_, ?_⟩
      · simp only [vals, List.map_cons, hv, Option.getD_some, h1, List.map_map, List.cons.injEq, true_and]
        simpa [vals] using ih1
      · intro d hd
        simp only [vals, List.map_cons, hv, Option.getD_some, List.mem_cons] at hd
        rcases hd with rfl | hd
        · exact h2
        · exact ih2 d (by simpa [vals] using hd)

theorem pow256 (n : Nat) : 256 ^ n = 2 ^ (8 * n) := by
  rw [show (256 : Nat) = 2 ^ 8 from rfl, ← Nat.pow_mul]

theorem pow32 (q : Nat) : 32 ^ q = 2 ^ (5 * q) := by
  rw [show (32 : Nat) = 2 ^ 5 from rfl, ← Nat.pow_mul]

theorem mod32_mod_pow {p : Nat} (hp : p ≤ 5) (w : Nat) : w % 32 % 2 ^ p = w % 2 ^ p := by
  apply Nat.mod_mod_of_dvd
  exact (show (32 : Nat) = 2 ^ 5 from rfl) ▸ Nat.pow_dvd_pow 2 hp

theorem getLast?_toBE_succ (b q w : Nat) : (Radix.toBE b (q + 1) w).getLast? = some (w % b) := by
  simp [Radix.toBE, Radix.toLE]

/-- **decode ∘ encode** -/
theorem a2b_b2a (os : Bytes) : a2b 0 (b2a os) = some os := by
  have hq1 : 5 * numQuintets os.length / 8 = os.length := by unfold numQuintets; omega
  have hq2 : 5 * numQuintets os.length % 8 = 5 * numQuintets os.length - 8 * os.length := by
    unfold numQuintets; omega
  have hq3 : 8 * os.length + (5 * numQuintets os.length - 8 * os.length) = 5 * numQuintets os.length := by
    unfold numQuintets; omega
  have hq4 : legitLen (numQuintets os.length) = true := by
    simp only [legitLen, numQuintets, Bool.or_eq_true, beq_iff_eq]; omega
  have hq5 : 5 * numQuintets os.length - 8 * os.length ≤ 4 := by unfold numQuintets; omega
  generalize hq : numQuintets os.length = q at *
  generalize hp : 5 * q - 8 * os.length = p at *
  have hV := beVal_lt os
  have hW : beVal os * 2 ^ p < 32 ^ q := by
    rw [pow32, ← hq3, Nat.pow_add, ← pow256]
    exact Nat.mul_lt_mul_of_pos_right hV (Nat.two_pow_pos p)
  have hdig := Radix.toBE_lt (b := 32) (by decide) q (beVal os * 2 ^ p)
  have hlen : (b2a os).length = q := by simp [b2a, hq]
  have hvals : vals (b2a os) = Radix.toBE 32 q (beVal os * 2 ^ p) := by
    simp only [b2a, hq, hp]; exact vals_map_charOf _ hdig
  have hdec : decode (b2a os) = os := by
    simp only [decode, hlen, hvals, numOctets, padBits, hq1, hq2]
    rw [Radix.ofBE_toBE_of_lt hW, Nat.mul_div_cancel _ (Nat.two_pow_pos p)]
    exact be_beVal os
  have hcould : couldBe 0 (b2a os) = true := by
    cases q with
    | zero => simp [couldBe, b2a, hq, Radix.toBE, Radix.toLE]
    | succ q' =>
      have hlast : (b2a os).getLast? = some (charOf (beVal os * 2 ^ p % 32)) := by
        simp only [b2a, hq, hp, List.getLast?_map, getLast?_toBE_succ, Option.map_some]
      simp only [couldBe, hlast, hlen, hq4, Bool.true_and, padBits, hq2, Nat.sub_zero]
      rw [valOf_charOf _ (Nat.mod_lt _ (by decide))]
      simp only [Bool.and_eq_true, beq_iff_eq]
      refine ⟨?_, ?_⟩
      · rw [mod32_mod_pow (by omega)]; exact Nat.mul_mod_left _ _
      · simp only [b2a, hq, hp]; exact all_valid_map_charOf _ hdig
  simp [a2b, hcould, hdec]

/-- **canonicity**: the corrected decoder accepts only what `b2a` produces -/
theorem b2a_of_a2b {cs os : Bytes} (h : a2b 0 cs = some os) : b2a os = cs := by
  simp only [a2b] at h
  split at h
  · rename_i hc
    simp only [Option.some.injEq] at h; subst h
    -- facts from the precondition
    have hfacts : legitLen cs.length = true ∧ cs.all (fun c => (valOf c).isSome) = true ∧
        Radix.ofBE 32 (vals cs) % 2 ^ padBits cs.length = 0 := by
      rcases List.eq_nil_or_concat cs with h0 | ⟨init, last, h0⟩
      · subst h0; simp [legitLen, vals, Radix.ofBE, Radix.ofLE]
      · subst h0
        simp only [List.concat_eq_append] at *
        simp only [couldBe, List.getLast?_append, List.getLast?_singleton,
          Option.some_or, Bool.and_eq_true, Nat.sub_zero] at hc
        obtain ⟨⟨h1, h2⟩, h3⟩ := hc
        refine ⟨h1, h3, ?_⟩
        cases hv : valOf last with
        | none => simp [hv] at h2
        | some v =>
          simp only [hv, beq_iff_eq] at h2
          have hv32 := (charOf_valOf hv).2
          have : vals (init ++ [last]) = vals init ++ [v] := by simp [vals, hv]
          rw [this, Radix.ofBE_append]
          simp only [List.length_cons, List.length_nil, Nat.zero_add, Nat.pow_one, Radix.ofBE,
            List.reverse_cons, List.reverse_nil, List.nil_append, Radix.ofLE, Nat.mul_zero, Nat.add_zero]
          have hp : padBits (init ++ [last]).length ≤ 5 := by
            simp only [legitLen, Bool.or_eq_true, beq_iff_eq] at h1
            unfold padBits; omega
          rw [← mod32_mod_pow hp, Nat.mul_add_mod_self_right, Nat.mod_eq_of_lt hv32]
          exact h2
    obtain ⟨hlegit, hall, hmod⟩ := hfacts
    obtain ⟨hcs, hlt⟩ := map_charOf_vals cs hall
    have hU := Radix.ofBE_lt (b := 32) (vals cs) hlt
    have hvl : (vals cs).length = cs.length := by simp [vals]
    rw [hvl] at hU
    generalize hq : cs.length = q at *
    generalize hUd : Radix.ofBE 32 (vals cs) = U at *
    have hn1 : numQuintets (5 * q / 8) = q := by
      simp only [legitLen, Bool.or_eq_true, beq_iff_eq] at hlegit
      unfold numQuintets; omega
    have hn2 : 5 * q - 8 * (5 * q / 8) = 5 * q % 8 := by omega
    have hn3 : 8 * (5 * q / 8) + 5 * q % 8 = 5 * q := by omega
    have hdiv : U / 2 ^ (5 * q % 8) < 256 ^ (5 * q / 8) := by
      rw [Nat.div_lt_iff_lt_mul (Nat.two_pow_pos _), pow256, ← Nat.pow_add, hn3, ← pow32]
      exact hU
    have hmod' : U % 2 ^ (5 * q % 8) = 0 := by simpa [padBits] using hmod
    simp only [decode, numOctets, padBits, hq, hUd]
    simp only [b2a, length_be, hn1, hn2]
    rw [beVal_be hdiv, Nat.div_mul_cancel (Nat.dvd_of_mod_eq_zero hmod')]
    rw [← hUd, ← hvl, Radix.toBE_ofBE _ hlt, hcs]
  · simp at h

theorem length_b2a (os : Bytes) : (b2a os).length = (8 * os.length + 4) / 5 := by
  simp [b2a, numQuintets]

end Tahoe.Base.Base32
