/-
Facts proved about the Merkle–Damgård padding of `Tahoe/Base/Sha256.lean` (shared by SHA-256 and SHA-1).
The compression functions themselves are validated by vectors and by correspondence with hashlib, not proved.
-/
import Tahoe.Base.Sha256

namespace Tahoe.Base.Sha256

theorem be64_length (n : Nat) : (be64 n).length = 8 := rfl

/-- the padded message is a whole number of 64-byte blocks -/
theorem pad_length_mod (m : List UInt8) : (pad m).length % 64 = 0 := by
  simp only [pad, List.length_append, List.length_cons, List.length_replicate, be64_length]
  omega

/-- … of the minimal number of blocks: fewer than 64 + 9 bytes are added -/
theorem pad_length_le (m : List UInt8) : m.length + 9 ≤ (pad m).length ∧ (pad m).length < m.length + 9 + 64 := by
  simp only [pad, List.length_append, List.length_cons, List.length_replicate, be64_length]
  omega

/-- the padded message starts with the message, followed by the byte 0x80 -/
theorem pad_prefix (m : List UInt8) : ∃ rest, pad m = m ++ 0x80 :: rest := ⟨_, rfl⟩

/-- … and ends with the 64-bit big-endian bit length -/
theorem pad_suffix (m : List UInt8) : ∃ front, pad m = front ++ be64 (8 * m.length) ∧ front.length = (pad m).length - 8 := by
  refine ⟨m ++ (0x80 : UInt8) :: List.replicate ((64 - (m.length + 9) % 64) % 64) 0, ?_, ?_⟩
  · simp [pad]
  · simp only [pad, List.length_append, List.length_cons, List.length_replicate, be64_length]; omega

theorem byte_eq_toNat {x y : Nat} (h : UInt8.ofNat x = UInt8.ofNat y) : x % 256 = y % 256 := by
  have := congrArg UInt8.toNat h
  simpa [UInt8.toNat_ofNat'] using this

/-- the length field determines the length (below 2^64 bits) -/
theorem be64_inj {a b : Nat} (ha : a < 2 ^ 64) (hb : b < 2 ^ 64) (h : be64 a = be64 b) : a = b := by
  simp only [be64, List.cons.injEq, and_true] at h
  obtain ⟨h7, h6, h5, h4, h3, h2, h1, h0⟩ := h
  have e7 := byte_eq_toNat h7
  have e6 := byte_eq_toNat h6
  have e5 := byte_eq_toNat h5
  have e4 := byte_eq_toNat h4
  have e3 := byte_eq_toNat h3
  have e2 := byte_eq_toNat h2
  have e1 := byte_eq_toNat h1
  have e0 := byte_eq_toNat h0
  simp only [Nat.shiftRight_eq_div_pow] at e7 e6 e5 e4 e3 e2 e1
  omega

/-- **Padding is injective** (for messages shorter than 2^61 bytes, i.e. 2^64 bits — SHA-256's own domain):
    two different messages never feed the compression chain the same block sequence. -/
theorem pad_injective {m1 m2 : List UInt8} (h1 : m1.length < 2 ^ 61) (h2 : m2.length < 2 ^ 61)
    (h : pad m1 = pad m2) : m1 = m2 := by
  have hp : ∀ m : List UInt8, pad m = (m ++ (0x80 : UInt8) :: List.replicate ((64 - (m.length + 9) % 64) % 64) 0)
      ++ be64 (8 * m.length) := by
    intro m; simp [pad]
  rw [hp m1, hp m2] at h
  obtain ⟨hf, hl⟩ := List.append_inj' h (by simp [be64_length])
  have hlen : m1.length = m2.length := by
    have := be64_inj (by omega) (by omega) hl
    omega
  exact (List.append_inj hf hlen).1

end Tahoe.Base.Sha256
