import Tahoe.Base.LemmasMerkleComplete
import Tahoe.Base.LemmasMerkleOrder
import Tahoe.Base.LemmasMerkleClosed
import Tahoe.Base.LemmasMerkleStray
/-! `needed_hashes` is minimal: a batch confined to the chain of a leaf that leaves out one of the unknown
    siblings cannot be accepted.  Ingredients: `SibClosed` is an invariant of successful calls; every entry a
    successful call adds lies on the way from some supplied key up to the root. -/
namespace Tahoe.Base.Merkle

variable {H : Type}

/-! ## ancestors -/

theorem Anc.trans {a b c : Nat} (h1 : Anc a b) (h2 : Anc b c) : Anc a c := by
  induction h1 with
  | self => exact h2
  | step here c' hne _ ih => exact Anc.step here c hne (ih h2)

theorem Anc.depth_le {L c : Nat} (h : Anc L c) : depthOf c ≤ depthOf L := by
  rcases h.depth with e | e
  · rw [e]; exact Nat.le_refl _
  · omega

/-- a node has one ancestor per level -/
theorem Anc.unique {L a b : Nat} (ha : Anc L a) (hb : Anc L b) (hd : depthOf a = depthOf b) : a = b := by
  induction ha with
  | self here =>
    rcases hb.depth with e | e
    · exact e.symm
    · omega
  | step here a hne ha' ih =>
    cases hb with
    | self =>
      have := ha'.depth_le
      have := depthOf_parent hne
      omega
    | step _ _ _ hb' => exact ih hb' hd

/-! ## the level loop writes one level up -/

theorem levelLoop_writes_depth [DecidableEq H] {ops : HashOps H} (pick : List Nat → Nat) (l f : Nat)
    (this : List Nat) (st : St H) {st1 : St H} (h : levelLoop ops pick f this st = .ok st1)
    (hdepth : ∀ i ∈ this, depthOf i = l) :
    ∀ x, get st.t x = none → get st1.t x ≠ none → depthOf x + 1 = l := by
  fun_induction levelLoop ops pick f this st with
  | case1 => injection h with h; subst h; intro x h1 h2; exact absurd h1 h2
  | case2 => cases h
  | case3 f head tail st i this hi ih =>
    exact ih h (fun x hx => hdepth x (List.mem_of_mem_erase hx))
  | case4 => cases h
  | case5 => cases h
  | case6 => cases h
  | case7 f head tail st i this hi s hs hgs hi' hgi p np htr' heq ih =>
    exact ih h (fun x hx => hdepth x (List.mem_of_mem_erase (List.mem_of_mem_erase hx)))
  | case8 f head tail st i this hi s hs hgs hi' hgi p np htr' ih =>
    have hm_i : i ∈ head :: tail := popChoice_mem pick head tail
    intro x h1 h2
    by_cases e : p = x
    · rw [← e]; show depthOf (parent i) + 1 = l
      have := depthOf_parent hi; have := hdepth i hm_i; omega
    · apply ih h (fun x hx => hdepth x (List.mem_of_mem_erase (List.mem_of_mem_erase hx))) x _ h2
      rw [get_set_ne _ e]; exact h1

/-! ## `SibClosed` is preserved -/

theorem tryBody_sibClosed [DecidableEq H] {ops : HashOps H} (htr : ∀ h, ops.truthy h = true)
    (pick : List Nat → Nat) (t : Tree H) (new : List (Nat × H)) (hsc : SibClosed t) {st1 : St H}
    (h : tryBody ops pick t new = .ok st1) : SibClosed st1.t := by
  unfold tryBody at h
  have hr := provisional_reach ops new { t := t, red := [], rm := [] }
  cases hres : provisional ops new { t := t, red := [], rm := [] } with
  | error e => rw [hres] at h; cases h
  | ok st0 =>
    rw [hres] at h hr
    have hr0 : Reach ops { t := t, red := [], rm := [] } st0 := hr
    -- invariant between levels
    have key : ∀ k (st : St H) (st1 : St H), levelsLoop ops pick k st = .ok st1 →
        (∀ x, x ≠ 0 → get st.t x ≠ none → get st.t (sibling x) = none → x ∈ st.red ∧ depthOf x < k) →
        ∀ x, x ≠ 0 → get st1.t x ≠ none → get st1.t (sibling x) = none → False := by
      intro k
      induction k with
      | zero =>
        intro st st1 h hinv x hx h1 h2
        injection h with h; subst h
        exact Nat.not_lt_zero _ (hinv x hx h1 h2).2
      | succ k ih =>
        intro st st1 h hinv
        unfold levelsLoop at h
        cases hl : levelLoop ops pick (thisLevel st k).length (thisLevel st k) st with
        | error e => rw [hl] at h; cases h
        | ok st' =>
          rw [hl] at h
          have hdepth : ∀ i ∈ thisLevel st k, depthOf i = k := fun i hi => (mem_thisLevel.mp hi).2
          have hpost := levelLoop_post htr pick k _ _ st hl hdepth
          have hw := levelLoop_writes_depth pick k _ _ st hl hdepth
          have hrl0 := levelLoop_reach ops pick (thisLevel st k).length (thisLevel st k) st
          rw [hl] at hrl0
          have hrl : Reach ops st st' := hrl0
          apply ih st' st1 h
          intro x hx h1 h2
          by_cases hpx : get st.t x = none
          · have := hw x hpx h1
            refine ⟨?_, by omega⟩
            rcases hrl.newPop h1 with h3 | h3
            · exact absurd hpx h3
            · exact h3
          · have hs : get st.t (sibling x) = none := by
              cases hg : get st.t (sibling x) with
              | none => rfl
              | some w => rw [hrl.mono htr hg] at h2; cases h2
            obtain ⟨hred, hd⟩ := hinv x hx hpx hs
            refine ⟨hrl.red_sub hred, ?_⟩
            by_cases e : depthOf x = k
            · exact absurd hs (hpost x (mem_thisLevel.mpr ⟨hred, e⟩) hx).2.1
            · omega
    intro x hx h1
    intro h2
    apply key _ st0 st1 h _ x hx h1 h2
    intro y hy g1 g2
    have hnew : get t y = none := by
      cases hg : get t y with
      | none => rfl
      | some w =>
        exfalso
        have hs := hsc y hy (ne_none_of_some' hg)
        cases hg2 : get t (sibling y) with
        | none => exact hs hg2
        | some w2 => have := hr0.mono htr (a := { t := t, red := [], rm := [] }) hg2; rw [g2] at this; cases this
    refine ⟨?_, ?_⟩
    · rcases hr0.newPop g1 with h3 | h3
      · exact absurd hnew h3
      · exact h3
    · have hl : st0.t.length = t.length := hr0.length_eq
      have := lt_of_get_ne_none g1
      have := depthOf_mono (a := y) (b := t.length - 1) (by omega)
      omega

theorem newTree_sibClosed (n : Nat) : SibClosed (newTree H n) := by
  intro i _ h1
  exfalso; apply h1
  unfold newTree get
  cases h : (List.replicate (2 * roundupPow2 n - 1) (none : Option H))[i]? with
  | none => rfl
  | some v =>
    have := List.mem_of_getElem? h
    rw [List.mem_replicate] at this
    rw [this.2]; rfl

/-- a tree that holds at most its root (a fresh tree seeded with the trusted root) is closed and sibling-closed -/
theorem rootOnly_closed (r : Option H) (m : Nat) :
    Closed (r :: List.replicate m none) ∧ SibClosed (r :: List.replicate m none) := by
  have key : ∀ i, i ≠ 0 → get (r :: List.replicate m (none : Option H)) i = none := by
    intro i hi
    obtain ⟨i', rfl⟩ : ∃ i', i = i' + 1 := ⟨i - 1, by omega⟩
    unfold get
    rw [List.getElem?_cons_succ]
    cases h : (List.replicate m (none : Option H))[i']? with
    | none => rfl
    | some v =>
      have := List.mem_of_getElem? h
      rw [List.mem_replicate] at this
      rw [this.2]; rfl
  exact ⟨fun i hi h1 _ => absurd (key i hi) h1, fun i hi h1 => absurd (key i hi) h1⟩

/-! ## every added entry lies above a supplied key -/

/-- entries that were `None` at entry and are known now have a supplied key below them (or are one) -/
def KInv (t0 : Tree H) (K : Nat → Prop) (t : Tree H) : Prop :=
  ∀ x, get t0 x = none → get t x ≠ none → ∃ y, K y ∧ Anc y x

theorem provisional_kinv [DecidableEq H] {ops : HashOps H} (t0 : Tree H) (K : Nat → Prop)
    (new : List (Nat × H)) (st : St H) {st0 : St H} (h : provisional ops new st = .ok st0)
    (hk : ∀ i v, (i, v) ∈ new → K i) (hinv : KInv t0 K st.t) : KInv t0 K st0.t := by
  fun_induction provisional ops new st with
  | case1 st => injection h with h; subst h; exact hinv
  | case2 => cases h
  | case3 => cases h
  | case4 i h' rest st hge htr hne ih =>
    exact ih h (fun j v hm => hk j v (List.mem_cons_of_mem _ hm)) hinv
  | case5 i h' rest st hge htr ih =>
    apply ih h (fun j v hm => hk j v (List.mem_cons_of_mem _ hm))
    intro x h1 h2
    by_cases e : i = x
    · exact ⟨i, hk i h' List.mem_cons_self, by rw [e]; exact Anc.self x⟩
    · rw [get_set_ne _ e] at h2; exact hinv x h1 h2

theorem levelLoop_kinv [DecidableEq H] {ops : HashOps H} (t0 : Tree H) (K : Nat → Prop)
    (pick : List Nat → Nat) (f : Nat) (this : List Nat) (st : St H) {st1 : St H}
    (h : levelLoop ops pick f this st = .ok st1)
    (hnew : ∀ i ∈ this, get t0 i = none) (hinv : KInv t0 K st.t) : KInv t0 K st1.t := by
  fun_induction levelLoop ops pick f this st with
  | case1 => injection h with h; subst h; exact hinv
  | case2 => cases h
  | case3 f head tail st i this hi ih =>
    exact ih h (fun x hx => hnew x (List.mem_of_mem_erase hx)) hinv
  | case4 => cases h
  | case5 => cases h
  | case6 => cases h
  | case7 f head tail st i this hi s hs hgs hi' hgi p np htr' heq ih =>
    exact ih h (fun x hx => hnew x (List.mem_of_mem_erase (List.mem_of_mem_erase hx))) hinv
  | case8 f head tail st i this hi s hs hgs hi' hgi p np htr' ih =>
    have hm_i : i ∈ head :: tail := popChoice_mem pick head tail
    apply ih h (fun x hx => hnew x (List.mem_of_mem_erase (List.mem_of_mem_erase hx)))
    intro x h1 h2
    by_cases e : p = x
    · obtain ⟨y, hy, ha⟩ := hinv i (hnew i hm_i) (ne_none_of_some' hgi)
      exact ⟨y, hy, by rw [← e]; exact ha.parent hi⟩
    · rw [get_set_ne _ e] at h2; exact hinv x h1 h2

theorem tryBody_kinv [DecidableEq H] {ops : HashOps H} (htr : ∀ h, ops.truthy h = true)
    (K : Nat → Prop) (pick : List Nat → Nat) (t : Tree H) (new : List (Nat × H)) {st1 : St H}
    (h : tryBody ops pick t new = .ok st1) (hk : ∀ i v, (i, v) ∈ new → K i) : KInv t K st1.t := by
  unfold tryBody at h
  have hr := provisional_reach ops new { t := t, red := [], rm := [] }
  cases hres : provisional ops new { t := t, red := [], rm := [] } with
  | error e => rw [hres] at h; cases h
  | ok st0 =>
    rw [hres] at h hr
    have hr0 : Reach ops { t := t, red := [], rm := [] } st0 := hr
    have h0 : KInv t K st0.t :=
      provisional_kinv t K new _ hres hk (fun x h1 h2 => absurd h1 h2)
    have key : ∀ k (st : St H) (st1 : St H), levelsLoop ops pick k st = .ok st1 →
        Reach ops { t := t, red := [], rm := [] } st → KInv t K st.t → KInv t K st1.t := by
      intro k
      induction k with
      | zero => intro st st1 h _ hinv; injection h with h; subst h; exact hinv
      | succ k ih =>
        intro st st1 h hreach hinv
        unfold levelsLoop at h
        cases hl : levelLoop ops pick (thisLevel st k).length (thisLevel st k) st with
        | error e => rw [hl] at h; cases h
        | ok st' =>
          rw [hl] at h
          have hrl0 := levelLoop_reach ops pick (thisLevel st k).length (thisLevel st k) st
          rw [hl] at hrl0
          have hrl : Reach ops st st' := hrl0
          apply ih st' st1 h (Reach.trans hreach hrl)
          apply levelLoop_kinv t K pick _ _ st hl _ hinv
          intro i hi
          have := (hreach.red_iff htr i).mp (mem_thisLevel.mp hi).1
          rcases this with h1 | h1
          · cases h1
          · exact h1.1
    exact key _ st0 st1 h hr0 h0

theorem mergeLeaves_sub [DecidableEq H] (first : Nat) (new leaves : List (Nat × H)) {res : List (Nat × H)}
    (h : mergeLeaves first new leaves = some res) :
    ∀ x ∈ res, x ∈ new ∨ ∃ k v, (k, v) ∈ leaves ∧ x = (first + k, v) := by
  induction leaves generalizing new with
  | nil => injection h with h; subst h; intro x hx; exact Or.inl hx
  | cons kv rest ih =>
    obtain ⟨k0, v0⟩ := kv
    unfold mergeLeaves at h
    cases hl : new.lookup (first + k0) with
    | some w =>
      rw [hl] at h; simp only at h
      by_cases e : w ≠ v0
      · rw [if_pos e] at h; cases h
      · rw [if_neg e] at h
        intro x hx
        rcases ih new h x hx with h1 | ⟨k, v, h1, h2⟩
        · exact Or.inl h1
        · exact Or.inr ⟨k, v, List.mem_cons_of_mem _ h1, h2⟩
    | none =>
      rw [hl] at h; simp only at h
      intro x hx
      rcases ih _ h x hx with h1 | ⟨k, v, h1, h2⟩
      · rcases List.mem_append.mp h1 with h1 | h1
        · exact Or.inl h1
        · right; exact ⟨k0, v0, List.mem_cons_self, List.mem_singleton.mp h1⟩
      · exact Or.inr ⟨k, v, List.mem_cons_of_mem _ h1, h2⟩

/-- from a known node everything up to the root is known in a closed, sibling-closed tree -/
theorem known_above {t : Tree H} (hc : Closed t) (hsc : SibClosed t) {L c : Nat} (ha : Anc L c)
    (hL : get t L ≠ none) : get t c ≠ none := by
  induction ha with
  | self => exact hL
  | step here c hne _ ih => exact ih (hc here hne hL (hsc here hne hL))

/-- a sibling of the chain of `L` has no other chain member, and not `L`, below it -/
theorem chain_not_below {L j y : Nat} (hj : j ∈ neededFor L) (hy : y ∈ neededFor L ∨ y = L) (hyj : y ≠ j) :
    ¬ Anc y j := by
  obtain ⟨c, hc, hc0, ej⟩ := mem_neededFor.mp hj
  have hnot : ¬ Anc L j := by
    intro h
    have := Anc.unique h hc (by rw [ej]; exact depthOf_sibling hc0)
    rw [ej] at this; exact sibling_ne hc0 this
  intro ha
  rcases hy with hy | hy
  · obtain ⟨c', hc', hc0', ey⟩ := mem_neededFor.mp hy
    cases ha with
    | self => exact hyj rfl
    | step _ _ hy0 ha' =>
      apply hnot
      have : parent y = parent c' := by rw [ey]; exact parent_sibling hc0'
      rw [this] at ha'
      exact Anc.trans (hc'.parent hc0') ha'
  · rw [hy] at ha; exact hnot ha

/-! ## `needed_hashes` and the honest answer to it -/

theorem neededHashes?_eq {t : Tree H} {first k : Nat} (h : first + k < t.length) :
    neededHashes? t first k false = some (neededHashes t (first + k)) := by
  unfold neededHashes? completeNeededHashes? neededFor? neededHashes
  have : ¬ (first + k ≥ t.length) := by omega
  simp [this]

theorem mem_genuineBatch {T : Tree H} {l : List Nat} {i : Nat} {w : H} :
    (i, w) ∈ genuineBatch T l ↔ i ∈ l ∧ get T i = some w := by
  unfold genuineBatch
  rw [List.mem_filterMap]
  constructor
  · intro ⟨a, ha, h⟩
    cases hg : get T a with
    | none => rw [hg] at h; cases h
    | some v =>
      rw [hg] at h; simp only [Option.map_some] at h
      injection h with h; injection h with e1 e2
      subst e1; subst e2; exact ⟨ha, hg⟩
  · intro ⟨h1, h2⟩
    exact ⟨i, h1, by rw [h2]; rfl⟩

theorem neededFor_lt {len L i : Nat} (hodd : len % 2 = 1) (hL : L < len) (hi : i ∈ neededFor L) : i < len := by
  obtain ⟨c, hc, hc0, e⟩ := mem_neededFor.mp hi
  rw [e]; exact sibling_lt_len hodd hc0 (by have := hc.le; omega)

theorem mem_neededHashes {t : Tree H} {L i : Nat} : i ∈ neededHashes t L ↔ i ∈ neededFor L ∧ get t i = none := by
  unfold neededHashes
  rw [List.mem_filter]
  cases get t i <;> simp

/-- completeness of `setHashes` (statement: Tahoe.C35.complete) -/
theorem setHashes_complete [DecidableEq H] (ops : HashOps H) (cfg : Cfg) (hstrict : StrictPresence ops cfg)
    (T t : Tree H) (hT : Genuine ops T) (hlen : t.length = T.length) (hagree : Agree t T)
    (hclosed : Closed t) (pick : List Nat → Nat) (first k : Nat) (hL : first + k < t.length)
    (v : H) (hv : get T (first + k) = some v) (hashes : List (Nat × H))
    (hgen : ∀ i w, (i, w) ∈ hashes → get T i = some w)
    (hkeys : ∀ i w, (i, w) ∈ hashes → i ∈ neededFor (first + k))
    (hcov : ∀ i, i ∈ neededHashes t (first + k) → ∃ w, (i, w) ∈ hashes) :
    ∃ t', setHashes ops cfg pick first t hashes [(k, v)] = (.ok, t') := by
  -- new_hashes: `hashes`, with the leaf appended unless it is already there with the same value
  have hmerge : ∃ new, mergeLeaves first hashes [(k, v)] = some new ∧
      (∀ i w, (i, w) ∈ new → (i, w) ∈ hashes ∨ (i = first + k ∧ w = v)) ∧
      (∀ x ∈ hashes, x ∈ new) ∧ (first + k, v) ∈ new := by
    unfold mergeLeaves
    cases hl : hashes.lookup (first + k) with
    | some w =>
      have hm := mem_of_lookup _ _ _ hl
      have := hgen _ _ hm
      rw [hv] at this; injection this with this; subst this
      refine ⟨hashes, by simp [mergeLeaves], fun i w h => Or.inl h, fun x h => h, hm⟩
    | none =>
      refine ⟨hashes ++ [(first + k, v)], by simp [mergeLeaves], ?_, fun x h => List.mem_append_left _ h,
        List.mem_append_right _ (List.mem_singleton.mpr rfl)⟩
      intro i w h
      rcases List.mem_append.mp h with h | h
      · exact Or.inl h
      · have := List.mem_singleton.mp h; injection this with e1 e2; exact Or.inr ⟨e1, e2⟩
  obtain ⟨new, hm, hsub, hsup, hleaf⟩ := hmerge
  obtain ⟨st1, h1⟩ := tryBody_complete (ops := ops.withCfg cfg) hstrict
    (T := T) ⟨hT.odd, hT.full, hT.node⟩ hlen hagree hclosed (first + k) hL pick new
    (by
      intro i w h
      rcases hsub i w h with h | ⟨e1, e2⟩
      · exact hgen i w h
      · rw [e1, e2]; exact hv)
    (by
      intro i w h
      rcases hsub i w h with h | ⟨e1, _⟩
      · exact Or.inl (hkeys i w h)
      · exact Or.inr e1)
    (by
      intro i hi hg
      have : i ∈ neededHashes t (first + k) := by
        unfold neededHashes; simp [hi, hg]
      obtain ⟨w, hw⟩ := hcov i this
      exact ⟨w, hsup _ hw⟩)
    ⟨v, hleaf⟩
  exact ⟨st1.t, setHashes_ok_of hm h1⟩

/-- statement: Tahoe.C35.needed_hashes_accepted -/
theorem validateLeaf_ok [DecidableEq H] (ops : HashOps H) (cfg : Cfg) (hstrict : StrictPresence ops cfg)
    (T t : Tree H) (hT : Genuine ops T) (hlen : t.length = T.length) (hagree : Agree t T)
    (hclosed : Closed t) (pick : List Nat → Nat) (first k : Nat) (hL : first + k < t.length) :
    ∃ batch t', validateLeaf ops cfg pick first t T k = some (batch, .ok, t') ∧
      batch = genuineBatch T (neededHashes t (first + k)) := by
  have hodd : t.length % 2 = 1 := by rw [hlen]; exact hT.odd
  cases hv : get T (first + k) with
  | none => exact absurd hv (hT.full _ (by omega))
  | some v =>
    obtain ⟨t', ht'⟩ := setHashes_complete ops cfg hstrict T t hT hlen hagree hclosed pick first k hL v hv
      (genuineBatch T (neededHashes t (first + k)))
      (fun i w h => (mem_genuineBatch.mp h).2)
      (fun i w h => (mem_neededHashes.mp (mem_genuineBatch.mp h).1).1)
      (by
        intro i hi
        have hlt : i < T.length := by
          rw [← hlen]; exact neededFor_lt hodd hL (mem_neededHashes.mp hi).1
        cases hg : get T i with
        | none => exact absurd hg (hT.full i hlt)
        | some w => exact ⟨w, mem_genuineBatch.mpr ⟨hi, hg⟩⟩)
    refine ⟨_, t', ?_, rfl⟩
    unfold validateLeaf
    rw [neededHashes?_eq hL, hv]
    simp only [ht']

/-- statement: Tahoe.C35.needed_hashes_minimal -/
theorem setHashes_minimal [DecidableEq H] (ops : HashOps H) (cfg : Cfg) (hstrict : StrictPresence ops cfg)
    (t : Tree H) (hclosed : Closed t) (hsib : SibClosed t) (pick : List Nat → Nat) (first k : Nat)
    (j : Nat) (hj : j ∈ neededHashes t (first + k)) (v : H) (hashes : List (Nat × H))
    (hkeys : ∀ i w, (i, w) ∈ hashes → i ∈ neededFor (first + k)) (hdrop : ∀ w, (j, w) ∉ hashes) :
    (setHashes ops cfg pick first t hashes [(k, v)]).1 ≠ .ok := by
  intro hok
  have h' : setHashes ops cfg pick first t hashes [(k, v)]
      = (.ok, (setHashes ops cfg pick first t hashes [(k, v)]).2) := by rw [← hok]
  obtain ⟨new, st, hm, hres, _⟩ := setHashes_ok h'
  obtain ⟨hjn, hjnone⟩ := mem_neededHashes.mp hj
  obtain ⟨c, hc, hc0, ej⟩ := mem_neededFor.mp hjn
  -- the accepted tree is closed and sibling-closed and holds the leaf, hence the whole path and its siblings
  have hcl := tryBody_closed (ops := ops.withCfg cfg) hstrict pick t new hclosed hres
  have hsc := tryBody_sibClosed (ops := ops.withCfg cfg) hstrict pick t new hsib hres
  have hleaf : get st.t (first + k) ≠ none :=
    ne_none_of_some' (tryBody_stored (ops := ops.withCfg cfg) hstrict pick t new hres _ v
      ((mergeLeaves_mem first hashes [(k, v)] hm).2 k v List.mem_cons_self))
  have hcknown := known_above hcl hsc hc hleaf
  have hjknown : get st.t j ≠ none := by rw [ej]; exact hsc c hc0 hcknown
  -- so `j` was added; everything added lies above a supplied key
  have hk : ∀ i w, (i, w) ∈ new → (i ∈ neededFor (first + k) ∨ i = first + k) ∧ i ≠ j := by
    intro i w hmem
    rcases mergeLeaves_sub first hashes [(k, v)] hm (i, w) hmem with h1 | ⟨k', v', h1, h2⟩
    · refine ⟨Or.inl (hkeys i w h1), ?_⟩
      intro e; rw [e] at h1; exact hdrop w h1
    · have hk' : k' = k := by
        have := List.mem_singleton.mp h1; injection this
      injection h2 with e1 e2
      rw [hk'] at e1
      refine ⟨Or.inr e1, ?_⟩
      intro e
      -- j = first + k is impossible: j is the sibling of a path node
      have hLj : Anc (first + k) j := by rw [← e, e1]; exact Anc.self _
      have := Anc.unique hLj hc (by rw [ej]; exact depthOf_sibling hc0)
      rw [ej] at this; exact sibling_ne hc0 this
  obtain ⟨y, ⟨hy1, hy2⟩, hay⟩ := tryBody_kinv (ops := ops.withCfg cfg) hstrict
    (fun i => (i ∈ neededFor (first + k) ∨ i = first + k) ∧ i ≠ j) pick t new hres hk j hjnone hjknown
  exact chain_not_below hjn hy1 hy2 hay

/-- statement: Tahoe.C35.complete_int_keys -/
theorem setHashesZ_complete [DecidableEq H] (ops : HashOps H) (cfg : Cfg) (hstrict : StrictPresence ops cfg)
    (T t : Tree H) (hT : Genuine ops T) (hlen : t.length = T.length) (hagree : Agree t T)
    (hclosed : Closed t) (pick : List Nat → Nat) (first k : Nat) (hL : first + k < t.length)
    (v : H) (hv : get T (first + k) = some v) (hashes : List (Int × H))
    (hgen : ∀ i w, (i, w) ∈ hashes → 0 ≤ i ∧ get T i.toNat = some w ∧ i.toNat ∈ neededFor (first + k))
    (hcov : ∀ i, i ∈ neededHashes t (first + k) → ∃ w, ((i : Int), w) ∈ hashes) :
    ∃ t', setHashesZ ops cfg pick first t hashes [((k : Int), v)] = (.ok, t') := by
  let hs : List (Nat × H) := hashes.map (fun p => (p.1.toNat, p.2))
  have hcast : castKeys hs = hashes := castKeys_toNat hashes (fun p hp => (hgen p.1 p.2 hp).1)
  have hmem : ∀ i w, (i, w) ∈ hs → ∃ z : Int, (z, w) ∈ hashes ∧ z.toNat = i := by
    intro i w h
    obtain ⟨p, hp, e⟩ := List.mem_map.mp h
    injection e with e1 e2
    exact ⟨p.1, by rw [← e2]; exact hp, e1⟩
  obtain ⟨t', ht'⟩ := setHashes_complete ops cfg hstrict T t hT hlen hagree hclosed pick first k hL v hv hs
    (by intro i w h; obtain ⟨z, hz, e⟩ := hmem i w h; rw [← e]; exact (hgen z w hz).2.1)
    (by intro i w h; obtain ⟨z, hz, e⟩ := hmem i w h; rw [← e]; exact (hgen z w hz).2.2)
    (by
      intro i hi
      obtain ⟨w, hw⟩ := hcov i hi
      exact ⟨w, List.mem_map.mpr ⟨((i : Int), w), hw, by simp⟩⟩)
  refine ⟨t', ?_⟩
  have hc := setHashesZ_castKeys ops cfg pick first t hs [(k, v)]
  rw [hcast, ht'] at hc
  exact hc

end Tahoe.Base.Merkle
