import Tahoe.Base.Bytes
/-
A model of Python's `struct.pack` / `struct.unpack` / `struct.calcsize` for big-endian (`">…"`)
formats made of unsigned integers (`B` 1, `H` 2, `L`/`I` 4, `Q` 8 bytes) and fixed-width byte strings
(`<n>s`).  Mathlib-free.  Used for lease records and share-container headers; general enough for the
SDMF/MDMF headers.

Behaviour mirrored:
* `pack`   raises `struct.error` (here: `none`) when an integer is negative or does not fit, when the
           number of values differs from the number of fields, or a value has the wrong type;
           an `<n>s` argument that is too long is silently truncated, one that is too short is
           NUL-padded (`packS`).
* `unpack` raises `struct.error` (here: `none`) unless the buffer has exactly `calcsize` bytes.
-/
namespace Tahoe.Base.Struct
open Tahoe.Base Tahoe.Base.Bytes

inductive Field where
  | u (w : Nat)      -- unsigned big-endian integer of `w` bytes
  | s (n : Nat)      -- `n`-byte string
  deriving DecidableEq, Repr

inductive Value where
  | int (n : Int)
  | bytes (b : Bytes)
  deriving DecidableEq, Repr

def Field.size : Field → Nat
  | .u w => w
  | .s n => n

/-- `struct.calcsize` -/
def size : List Field → Nat
  | [] => 0
  | f :: fs => f.size + size fs

/-- format characters after the `>`; `cnt` is the repeat count read so far -/
def parseFields : List Char → Option Nat → Option (List Field)
  | [], none => some []
  | [], some _ => none
  | c :: cs, cnt =>
    if c.isDigit then parseFields cs (some (cnt.getD 0 * 10 + (c.toNat - 48)))
    else
      let rep (f : Field) : Option (List Field) :=
        (parseFields cs none).map (fun r => List.replicate (cnt.getD 1) f ++ r)
      if c = 's' then (parseFields cs none).map (fun r => Field.s (cnt.getD 1) :: r)
      else if c = 'B' then rep (.u 1)
      else if c = 'H' then rep (.u 2)
      else if c = 'L' then rep (.u 4)
      else if c = 'I' then rep (.u 4)
      else if c = 'Q' then rep (.u 8)
      else none

/-- parse a big-endian struct format such as `">L32s32sL"` (given as its list of characters) -/
def parseFormat : List Char → Option (List Field)
  | '>' :: cs => parseFields cs none
  | _ => none

def packField : Field → Value → Option Bytes
  | .u w, .int n => packU w n
  | .s n, .bytes b => some (packS n b)
  | _, _ => none

/-- `struct.pack(fmt, *vs)` -/
def pack : List Field → List Value → Option Bytes
  | [], [] => some []
  | f :: fs, v :: vs =>
    match packField f v, pack fs vs with
    | some a, some r => some (a ++ r)
    | _, _ => none
  | _, _ => none

def unpackField : Field → Bytes → Value
  | .u w, b => .int (beVal (b.take w))
  | .s n, b => .bytes (b.take n)

def unpackFields : List Field → Bytes → List Value
  | [], _ => []
  | f :: fs, b => unpackField f b :: unpackFields fs (b.drop f.size)

/-- `struct.unpack(fmt, b)` -/
def unpack (fs : List Field) (b : Bytes) : Option (List Value) :=
  if b.length = size fs then some (unpackFields fs b) else none

/-- the value is in the field's range: the precondition for an exact round trip -/
def Fits : Field → Value → Prop
  | .u w, .int n => 0 ≤ n ∧ n.toNat < 256 ^ w
  | .s n, .bytes b => b.length = n
  | _, _ => False

def FitsAll : List Field → List Value → Prop
  | [], [] => True
  | f :: fs, v :: vs => Fits f v ∧ FitsAll fs vs
  | _, _ => False

instance : (f : Field) → (v : Value) → Decidable (Fits f v)
  | .u _, .int _ => by unfold Fits; infer_instance
  | .s _, .bytes _ => by unfold Fits; infer_instance
  | .u _, .bytes _ => isFalse (by simp [Fits])
  | .s _, .int _ => isFalse (by simp [Fits])

instance decFitsAll : (fs : List Field) → (vs : List Value) → Decidable (FitsAll fs vs)
  | [], [] => isTrue trivial
  | _ :: fs, _ :: vs => by
    unfold FitsAll
    exact @instDecidableAnd _ _ _ (decFitsAll fs vs)
  | [], _ :: _ => isFalse (by simp [FitsAll])
  | _ :: _, [] => isFalse (by simp [FitsAll])

theorem packField_length {f : Field} {v : Value} {a : Bytes} (h : packField f v = some a) :
    a.length = f.size := by
  cases f <;> cases v <;> simp only [packField, packU] at h
  · split at h
    · simp only [Option.some.injEq] at h; subst h; simp [Field.size]
    · simp at h
  · simp at h
  · simp at h
  · simp only [Option.some.injEq] at h; subst h; simp [Field.size]

theorem pack_length : ∀ {fs : List Field} {vs : List Value} {b : Bytes},
    pack fs vs = some b → b.length = size fs
  | [], [], b, h => by simp [pack] at h; subst h; rfl
  | [], _ :: _, b, h => by simp [pack] at h
  | _ :: _, [], b, h => by simp [pack] at h
  | f :: fs, v :: vs, b, h => by
    simp only [pack] at h
    split at h
    · rename_i a r ha hr
      simp only [Option.some.injEq] at h; subst h
      simp [size, packField_length ha, pack_length hr]
    · simp at h

theorem unpackField_packField {f : Field} {v : Value} {a : Bytes} (hf : Fits f v)
    (h : packField f v = some a) (r : Bytes) : unpackField f (a ++ r) = v := by
  have hl := packField_length h
  cases f <;> cases v <;> simp only [Fits] at hf
  · rename_i w n
    simp only [packField, packU, hf, and_self, ↓reduceIte, Option.some.injEq] at h
    subst h
    simp only [unpackField, Field.size] at *
    rw [List.take_left' (by simp), beVal_be hf.2]
    congr 1
    exact Int.toNat_of_nonneg hf.1
  · rename_i n b
    simp only [packField, Option.some.injEq] at h
    subst h
    simp only [unpackField]
    rw [packS_of_length hf, List.take_left' hf]

/-- **decode ∘ encode**: values that fit their fields are packed, and unpack to themselves -/
theorem unpack_pack : ∀ (fs : List Field) (vs : List Value), FitsAll fs vs →
    ∃ b, pack fs vs = some b ∧ unpack fs b = some vs
  | [], [], _ => ⟨[], rfl, by simp [unpack, size, unpackFields]⟩
  | [], _ :: _, h => by simp [FitsAll] at h
  | _ :: _, [], h => by simp [FitsAll] at h
  | f :: fs, v :: vs, h => by
    obtain ⟨hf, hrest⟩ := h
    obtain ⟨r, hr, hur⟩ := unpack_pack fs vs hrest
    have hpf : ∃ a, packField f v = some a := by
      cases f <;> cases v <;> simp only [Fits] at hf
      · rename_i w n
        exact ⟨be w n.toNat, by simp only [packField, packU, hf, and_self, ↓reduceIte]⟩
      · exact ⟨_, rfl⟩
    obtain ⟨a, ha⟩ := hpf
    refine ⟨a ++ r, by simp [pack, ha, hr], ?_⟩
    have hla := packField_length ha
    have hlr := pack_length hr
    simp only [unpack, List.length_append, hla, hlr, size, ↓reduceIte, Option.some.injEq,
      unpackFields]
    rw [unpackField_packField hf ha, List.drop_left' hla]
    simp only [unpack, hlr, ↓reduceIte, Option.some.injEq] at hur
    rw [hur]

theorem packField_unpackField (f : Field) (b : Bytes) (h : f.size ≤ b.length) :
    packField f (unpackField f b) = some (b.take f.size) ∧ Fits f (unpackField f b) := by
  cases f with
  | u w =>
    simp only [Field.size] at h
    have hl : (b.take w).length = w := by simp; omega
    have hlt := beVal_lt (b.take w)
    rw [hl] at hlt
    have hbe := be_beVal (b.take w)
    rw [hl] at hbe
    simp only [unpackField, packField, packU, Fits, Field.size, Int.toNat_natCast, hlt,
      Int.natCast_nonneg, and_self, ↓reduceIte, hbe]
  | s n =>
    simp only [Field.size] at h
    have hl : (b.take n).length = n := by simp; omega
    simp only [unpackField, packField, Fits, Field.size, packS_of_length hl, hl, and_self]

/-- **canonicity**: whatever unpacks, re-packs to exactly the same bytes (fixed-width records have a
    unique encoding), and the unpacked values fit their fields -/
theorem pack_unpack : ∀ (fs : List Field) (b : Bytes) (vs : List Value),
    unpack fs b = some vs → pack fs vs = some b ∧ FitsAll fs vs
  | [], b, vs, h => by
    simp only [unpack, size, unpackFields] at h
    by_cases hl : b.length = 0
    · simp only [hl, ↓reduceIte, Option.some.injEq] at h; subst h
      have : b = [] := List.eq_nil_of_length_eq_zero hl
      subst this; exact ⟨rfl, trivial⟩
    · simp [hl] at h
  | f :: fs, b, vs, h => by
    simp only [unpack, size, unpackFields] at h
    by_cases hl : b.length = f.size + size fs
    · simp only [hl, ↓reduceIte, Option.some.injEq] at h; subst h
      have hle : f.size ≤ b.length := by omega
      obtain ⟨h1, h2⟩ := packField_unpackField f b hle
      have hrest : unpack fs (b.drop f.size) = some (unpackFields fs (b.drop f.size)) := by
        simp only [unpack, List.length_drop, ite_eq_left_iff]
        intro hne; omega
      obtain ⟨h3, h4⟩ := pack_unpack fs (b.drop f.size) _ hrest
      refine ⟨?_, h2, h4⟩
      simp only [pack, h1, h3, List.take_append_drop]
    · simp [hl] at h

/-- `unpack` rejects exactly the buffers of the wrong length -/
theorem unpack_eq_none_iff (fs : List Field) (b : Bytes) : unpack fs b = none ↔ b.length ≠ size fs := by
  simp only [unpack]; split <;> simp_all

end Tahoe.Base.Struct
