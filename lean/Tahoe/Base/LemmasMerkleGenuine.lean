import Tahoe.Base.LemmasMerkleComplete
import Tahoe.Base.LemmasMerkleStray
/-! Genuine values are never refuted (a batch of genuine values can only be accepted or found insufficient), and
    the exits of `set_hashes` are exactly the named ones. -/
namespace Tahoe.Base.Merkle

variable {H : Type}

theorem levelLoop_genuine [DecidableEq H] {ops : HashOps H} {T : Tree H} (hT : Genuine ops T)
    (pick : List Nat → Nat) (f : Nat) (this : List Nat) (st : St H) (hag : Agree st.t T) :
    (∀ st1, levelLoop ops pick f this st = .ok st1 → Agree st1.t T) ∧
    (∀ o st', levelLoop ops pick f this st = .error (o, st') → o ≠ .badHash) := by
  fun_induction levelLoop ops pick f this st with
  | case1 f st => exact ⟨fun st1 h => by injection h with h; subst h; exact hag, fun o st' h => by cases h⟩
  | case2 =>
    refine ⟨fun st1 h => (by cases h), fun o st' h => ?_⟩
    injection h with h; injection h with h1 h2; subst h1; simp
  | case3 f head tail st i this hi ih => exact ih hag
  | case4 =>
    refine ⟨fun st1 h => (by cases h), fun o st' h => ?_⟩
    injection h with h; injection h with h1 h2; subst h1; simp
  | case5 =>
    refine ⟨fun st1 h => (by cases h), fun o st' h => ?_⟩
    injection h with h; injection h with h1 h2; subst h1; simp
  | case6 f head tail st i hi s hs hgs hi' hgi p np htr' hne =>
    exfalso
    have hTp := genuine_parent hT hag hi hgi hgs
    cases hg : get st.t p with
    | none => rw [hg] at htr'; simp [truthyOpt] at htr'
    | some w =>
      have := hag p w hg
      rw [hTp] at this
      apply hne; rw [hg, ← this]
  | case7 f head tail st i this hi s hs hgs hi' hgi p np htr' heq ih => exact ih hag
  | case8 f head tail st i this hi s hs hgs hi' hgi p np htr' ih =>
    apply ih
    have hTp := genuine_parent hT hag hi hgi hgs
    have hplt : p < st.t.length := by
      have := lt_of_get_some hgi; have := parent_lt hi; omega
    intro j w hj
    by_cases e : p = j
    · subst e
      rw [get_set_eq _ hplt] at hj
      injection hj with hj; rw [← hj]; exact hTp
    · rw [get_set_ne _ e] at hj; exact hag j w hj

theorem levelsLoop_genuine [DecidableEq H] {ops : HashOps H} {T : Tree H} (hT : Genuine ops T)
    (pick : List Nat → Nat) (k : Nat) (st : St H) (hag : Agree st.t T) :
    (∀ st1, levelsLoop ops pick k st = .ok st1 → Agree st1.t T) ∧
    (∀ o st', levelsLoop ops pick k st = .error (o, st') → o ≠ .badHash) := by
  induction k generalizing st with
  | zero => exact ⟨fun st1 h => by injection h with h; subst h; exact hag, fun o st' h => by cases h⟩
  | succ k ih =>
    obtain ⟨h1, h2⟩ := levelLoop_genuine hT pick (thisLevel st k).length (thisLevel st k) st hag
    unfold levelsLoop
    cases hl : levelLoop ops pick (thisLevel st k).length (thisLevel st k) st with
    | error e =>
      obtain ⟨o', st''⟩ := e
      refine ⟨fun st1 h => (by cases h), fun o st' h => ?_⟩
      injection h with h; injection h with e1 e2; subst e1
      exact h2 o' st'' hl
    | ok st' => exact ih st' (h1 st' hl)

/-- the level loops never raise IndexError (only the provisional loop's `self[i]` does) -/
theorem levelLoop_no_index [DecidableEq H] (ops : HashOps H) (pick : List Nat → Nat) (f : Nat) (this : List Nat)
    (st : St H) {o : Outcome} {st' : St H} (h : levelLoop ops pick f this st = .error (o, st')) :
    o ≠ .indexError := by
  fun_induction levelLoop ops pick f this st with
  | case1 => cases h
  | case2 => injection h with h; injection h with h1 h2; subst h1; simp
  | case3 f head tail st i this hi ih => exact ih h
  | case4 => injection h with h; injection h with h1 h2; subst h1; simp
  | case5 => injection h with h; injection h with h1 h2; subst h1; simp
  | case6 => injection h with h; injection h with h1 h2; subst h1; simp
  | case7 f head tail st i this hi s hs hgs hi' hgi p np htr' heq ih => exact ih h
  | case8 f head tail st i this hi s hs hgs hi' hgi p np htr' ih => exact ih h

theorem levelsLoop_no_index [DecidableEq H] (ops : HashOps H) (pick : List Nat → Nat) (k : Nat) (st : St H)
    {o : Outcome} {st' : St H} (h : levelsLoop ops pick k st = .error (o, st')) : o ≠ .indexError := by
  induction k generalizing st with
  | zero => cases h
  | succ k ih =>
    unfold levelsLoop at h
    cases hl : levelLoop ops pick (thisLevel st k).length (thisLevel st k) st with
    | error e =>
      rw [hl] at h; obtain ⟨o', st''⟩ := e
      injection h with h; injection h with e1 e2; subst e1
      exact levelLoop_no_index ops pick _ _ st hl
    | ok st1 => rw [hl] at h; exact ih st1 h

/-- merging genuine leaves into genuine hashes never conflicts -/
theorem mergeLeaves_genuine [DecidableEq H] {T : Tree H} (first : Nat) (new leaves : List (Nat × H))
    (hn : ∀ i w, (i, w) ∈ new → get T i = some w) (hl : ∀ k v, (k, v) ∈ leaves → get T (first + k) = some v) :
    ∃ res, mergeLeaves first new leaves = some res ∧ ∀ i w, (i, w) ∈ res → get T i = some w := by
  induction leaves generalizing new with
  | nil => exact ⟨new, rfl, hn⟩
  | cons kv rest ih =>
    obtain ⟨k0, v0⟩ := kv
    have hv0 := hl k0 v0 List.mem_cons_self
    have hrest : ∀ k v, (k, v) ∈ rest → get T (first + k) = some v := fun k v h => hl k v (List.mem_cons_of_mem _ h)
    unfold mergeLeaves
    cases hlk : new.lookup (first + k0) with
    | some w =>
      have := hn _ _ (mem_of_lookup _ _ _ hlk)
      rw [hv0] at this; injection this with this; subst this
      simp only [ne_eq, not_true_eq_false, if_false]
      exact ih new hn hrest
    | none =>
      simp only
      apply ih _ _ hrest
      intro i w h
      rcases List.mem_append.mp h with h | h
      · exact hn i w h
      · have := List.mem_singleton.mp h; injection this with e1 e2; rw [e1, e2]; exact hv0

/-- statement: Tahoe.C35.genuine_batch_never_refuted -/
theorem setHashes_genuine [DecidableEq H] (ops : HashOps H) (cfg : Cfg) {T t : Tree H} (hT : Genuine ops T)
    (hlen : t.length = T.length) (hagree : Agree t T) (pick : List Nat → Nat) (first : Nat)
    (hashes leaves : List (Nat × H))
    (hh : ∀ i w, (i, w) ∈ hashes → get T i = some w)
    (hl : ∀ k v, (k, v) ∈ leaves → get T (first + k) = some v) :
    ((setHashes ops cfg pick first t hashes leaves).1 = .ok ∧
        Agree (setHashes ops cfg pick first t hashes leaves).2 T) ∨
      (setHashes ops cfg pick first t hashes leaves).1 = .notEnough := by
  obtain ⟨new, hm, hnew⟩ := mergeLeaves_genuine (T := T) first hashes leaves hh hl
  have hT' : Genuine (ops.withCfg cfg) T := ⟨hT.odd, hT.full, hT.node⟩
  obtain ⟨st0, hp, hag0⟩ := provisional_genuine (ops := ops.withCfg cfg) T new { t := t, red := [], rm := [] }
    (fun i v h => ⟨hnew i v h, by rw [hlen]; exact lt_of_get_some (hnew i v h)⟩) hagree
  obtain ⟨g1, g2⟩ := levelsLoop_genuine hT' pick (depthOf (t.length - 1) + 1) st0 hag0
  have htb : tryBody (ops.withCfg cfg) pick t new = levelsLoop (ops.withCfg cfg) pick (depthOf (t.length - 1) + 1) st0 := by
    unfold tryBody; rw [hp]
  unfold setHashes
  rw [hm]; simp only
  rw [htb]
  cases hl' : levelsLoop (ops.withCfg cfg) pick (depthOf (t.length - 1) + 1) st0 with
  | ok st1 => left; exact ⟨rfl, g1 st1 hl'⟩
  | error e =>
    obtain ⟨o, st⟩ := e
    right
    have hr := provisional_reach (ops.withCfg cfg) new { t := t, red := [], rm := [] }
    rw [hp] at hr
    have hr' : Reach (ops.withCfg cfg) { t := t, red := [], rm := [] } st0 := hr
    have hcls := levelsLoop_no_internal (ops.withCfg cfg) pick _ st0 hl' (hr'.redPop (by simp))
    have hnb := g2 o st hl'
    have hni : o ≠ .indexError := by
      intro e
      exact levelsLoop_no_index (ops.withCfg cfg) pick _ st0 hl' e
    have ho : o = .notEnough := by
      rcases hcls with e | e | e
      · exact absurd e hnb
      · exact e
      · exact absurd e hni
    subst ho
    simp

/-! ## the exits of `set_hashes` -/

/-- statement: Tahoe.C35.exits_are_named -/
theorem setHashes_outcome_named [DecidableEq H] (ops : HashOps H) (cfg : Cfg) (pick : List Nat → Nat)
    (first : Nat) (t : Tree H) (hashes leaves : List (Nat × H)) :
    (setHashes ops cfg pick first t hashes leaves).1 = .ok ∨
    (setHashes ops cfg pick first t hashes leaves).1 = .badHash ∨
    (setHashes ops cfg pick first t hashes leaves).1 = .notEnough ∨
    (setHashes ops cfg pick first t hashes leaves).1 = .indexError := by
  unfold setHashes
  cases hm : mergeLeaves first hashes leaves with
  | none => right; left; rfl
  | some new =>
    simp only
    cases hres : tryBody (ops.withCfg cfg) pick t new with
    | ok st => left; rfl
    | error e =>
      obtain ⟨o, st⟩ := e
      have hcls := tryBody_no_internal (ops.withCfg cfg) pick t new hres
      simp only
      split <;> (rcases hcls with e | e | e <;> simp [e])

/-- statement: Tahoe.C35.exits_are_named_int_keys -/
theorem setHashesZ_outcome_named [DecidableEq H] (ops : HashOps H) (cfg : Cfg) (pick : List Nat → Nat)
    (first : Nat) (t : Tree H) (hashes leaves : List (Int × H)) :
    (setHashesZ ops cfg pick first t hashes leaves).1 = .ok ∨
    (setHashesZ ops cfg pick first t hashes leaves).1 = .unvalidatable ∨
    (setHashesZ ops cfg pick first t hashes leaves).1 = .err .badHash ∨
    (setHashesZ ops cfg pick first t hashes leaves).1 = .err .notEnough ∨
    (setHashesZ ops cfg pick first t hashes leaves).1 = .err .indexError := by
  unfold setHashesZ
  cases hm : mergeLeavesZ first hashes leaves with
  | none => right; right; left; rfl
  | some new =>
    simp only
    cases hres : tryBodyZ (ops.withCfg cfg) pick t new with
    | ok r =>
      obtain ⟨st, p⟩ := r
      cases p with
      | false => left; rfl
      | true => right; left; rfl
    | error e =>
      obtain ⟨o, st⟩ := e
      have hcls := tryBodyZ_class (ops.withCfg cfg) pick t new hres
      simp only
      split <;> (rcases hcls with e | e | e <;> simp [e])

end Tahoe.Base.Merkle
