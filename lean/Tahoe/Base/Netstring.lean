import Tahoe.Base.Bytes
/-
Netstrings (`allmydata/util/netstring.py`), Mathlib-free.

* `toDec n`               = `b"%d" % n` for `n ≥ 0`
* `enc s`                 = `netstring(s)` = `b"%d:%s," % (len(s), s)`
* `parseDecStrict`        = canonical decimal: non-empty, ASCII digits only, no leading zero except "0"
* `pyInt`                 = Python's `int(<bytes>)` (base 10): surrounding ASCII whitespace, an optional
                            sign, digits with single underscores between digits — the lenient parser
* `parseOne np`           = one iteration of the `while` loop of `split_netstring`, with the length
                            parser `np` as a parameter (`strictLen` or `pyLen`)
* `split np data n pos t` = `split_netstring(data, n, pos, required_trailer=t)`; exceptions as `Err`

`split strictLen` is the decoder with a canonical length check; `split pyLen` is the decoder that
passes the length field to `int()`.
-/
namespace Tahoe.Base.Netstring
open Tahoe.Base

def colon : UInt8 := 58
def comma : UInt8 := 44

def digit (n : Nat) : UInt8 := UInt8.ofNat (48 + n)

/-- decimal digits with explicit fuel (structural, so that `decide` can evaluate it) -/
def toDecF : Nat → Nat → Bytes
  | 0, _ => []
  | f + 1, n => if n < 10 then [digit n] else toDecF f (n / 10) ++ [digit (n % 10)]

/-- `b"%d" % n` -/
def toDec (n : Nat) : Bytes := toDecF (n + 1) n

/-- `netstring(s)` -/
def enc (s : Bytes) : Bytes := toDec s.length ++ colon :: (s ++ [comma])

def isDigit (c : UInt8) : Bool := 48 ≤ c.toNat && c.toNat ≤ 57

def digitsVal (ds : Bytes) : Nat := ds.foldl (fun a d => 10 * a + (d.toNat - 48)) 0

/-- canonical decimal numeral -/
def parseDecStrict (ds : Bytes) : Option Nat :=
  if ds ≠ [] ∧ ds.all isDigit = true ∧ (ds = [48] ∨ ds.head? ≠ some 48) then some (digitsVal ds) else none

/-! ### Python `int(<bytes>)` -/

def isSpace (c : UInt8) : Bool := c.toNat == 32 || (9 ≤ c.toNat && c.toNat ≤ 13)

/-- digits with single underscores strictly between digits; `prevDigit` = the previous char was a digit -/
def pyDigits : Bytes → Bool → Nat → Option Nat
  | [], prevDigit, acc => if prevDigit then some acc else none
  | c :: cs, prevDigit, acc =>
    if isDigit c then pyDigits cs true (10 * acc + (c.toNat - 48))
    else if c.toNat == 95 && prevDigit then
      match cs with
      | [] => none
      | d :: _ => if isDigit d then pyDigits cs false acc else none
    else none

def dropSpaceEnd (b : Bytes) : Bytes := (b.reverse.dropWhile isSpace).reverse

/-- `int(b)` for a bytes object `b` (base 10); `none` = `ValueError` -/
def pyInt (b : Bytes) : Option Int :=
  match dropSpaceEnd (b.dropWhile isSpace) with
  | [] => none
  | c :: cs =>
    if c.toNat == 45 then (pyDigits cs false 0).map (fun n => - Int.ofNat n)
    else if c.toNat == 43 then (pyDigits cs false 0).map Int.ofNat
    else (pyDigits (c :: cs) false 0).map Int.ofNat

/-! ### split_netstring -/

inductive Err where
  | value | assertion | index
  deriving DecidableEq, Repr

/-- `data.index(c)`: split at the first `c` -/
def splitAt (c : UInt8) : Bytes → Option (Bytes × Bytes)
  | [] => none
  | x :: xs => if x = c then some ([], xs) else (splitAt c xs).map (fun p => (x :: p.1, p.2))

/-- length parsers -/
def strictLen (b : Bytes) : Option Int := (parseDecStrict b).map Int.ofNat
def pyLen (b : Bytes) : Option Int := pyInt b

/-- one netstring at the front of `rest`: `(string, remaining)`.
    A negative length makes `len(string) == length` fail in the code (slices are never of negative
    length), hence `assertion`. -/
def parseOne (np : Bytes → Option Int) (rest : Bytes) : Except Err (Bytes × Bytes) :=
  match splitAt colon rest with
  | none => .error .value                      -- data.index: ValueError
  | some (lenstr, after) =>
    match np lenstr with
    | none => .error .value                    -- int(): ValueError
    | some len =>
      if len < 0 then .error .assertion
      else
        let string := after.take len.toNat
        if string.length ≠ len.toNat then .error .assertion
        else match after.drop len.toNat with
          | [] => .error .index               -- data[position]: IndexError
          | c :: rest' => if c = comma then .ok (string, rest') else .error .assertion

/-- the `while position < len(data)` loop; `acc` holds the elements in reverse; fuel = bytes left -/
def loop (np : Bytes → Option Int) : Nat → Bytes → List Bytes → Nat → Except Err (List Bytes × Bytes)
  | 0, rest, acc, _ => .ok (acc.reverse, rest)
  | f + 1, rest, acc, n =>
    if rest = [] then .ok (acc.reverse, rest)
    else match parseOne np rest with
      | .error e => .error e
      | .ok (s, rest') =>
        if (s :: acc).length = n then .ok ((s :: acc).reverse, rest')
        else loop np f rest' (s :: acc) n

/-- `split_netstring(data, numstrings, position, required_trailer)`; result `(elements, new position)` -/
def split (np : Bytes → Option Int) (data : Bytes) (n pos : Nat) (trailer : Option Bytes) :
    Except Err (List Bytes × Nat) :=
  match loop np data.length (data.drop pos) [] n with
  | .error e => .error e
  | .ok (els, rest) =>
    let position := if pos ≤ data.length then data.length - rest.length else pos
    if els.length < n then .error .value       -- "ran out of netstrings"
    else match trailer with
      | none => .ok (els, position)
      | some t =>
        if pos ≤ data.length ∧ rest = t then .ok (els, position + t.length)
        else .error .value                    -- "leftover data in netstrings"

/-! ## Lemmas -/

theorem toDecF_fuel : ∀ (f g n : Nat), n < f → n < g → toDecF f n = toDecF g n := by
  intro f
  induction f with
  | zero => intro g n h; omega
  | succ f ih =>
    intro g n hf hg
    cases g with
    | zero => omega
    | succ g =>
      simp only [toDecF]
      split
      · rfl
      · rw [ih g (n / 10) (by omega) (by omega)]

theorem toDec_unfold (n : Nat) :
    toDec n = if n < 10 then [digit n] else toDec (n / 10) ++ [digit (n % 10)] := by
  show toDecF (n + 1) n = if n < 10 then [digit n] else toDecF (n / 10 + 1) (n / 10) ++ [digit (n % 10)]
  rw [toDecF]
  split
  · rfl
  · rw [toDecF_fuel n (n / 10 + 1) (n / 10) (by omega) (by omega)]

theorem toDec_small {n : Nat} (h : n < 10) : toDec n = [digit n] := by
  rw [toDec_unfold, if_pos h]

theorem toDec_big {n : Nat} (h : ¬ n < 10) : toDec n = toDec (n / 10) ++ [digit (n % 10)] := by
  rw [toDec_unfold, if_neg h]

theorem digit_toNat {n : Nat} (h : n < 10) : (digit n).toNat = 48 + n := by
  simp only [digit, UInt8.toNat_ofNat']; omega

theorem isDigit_digit {n : Nat} (h : n < 10) : isDigit (digit n) = true := by
  simp only [isDigit, digit_toNat h, Bool.and_eq_true, decide_eq_true_eq]; omega

theorem toDec_ne_nil (n : Nat) : toDec n ≠ [] := by
  rw [toDec_unfold]; split <;> simp

theorem toDec_all_digits (n : Nat) : (toDec n).all isDigit = true := by
  induction n using Nat.strongRecOn with
  | _ n ih =>
    rw [toDec_unfold]
    split
    · rename_i h; simp [isDigit_digit h]
    · rw [List.all_append, ih (n / 10) (by omega)]
      simp [isDigit_digit (Nat.mod_lt n (by decide : 0 < 10))]

theorem digitsVal_append_single (ds : Bytes) (d : UInt8) :
    digitsVal (ds ++ [d]) = 10 * digitsVal ds + (d.toNat - 48) := by
  simp [digitsVal, List.foldl_append]

theorem digitsVal_toDec (n : Nat) : digitsVal (toDec n) = n := by
  induction n using Nat.strongRecOn with
  | _ n ih =>
    rw [toDec_unfold]
    split
    · rename_i h
      simp only [digitsVal, List.foldl_cons, List.foldl_nil, digit_toNat h]; omega
    · rw [digitsVal_append_single, ih (n / 10) (by omega),
        digit_toNat (Nat.mod_lt n (by decide : 0 < 10))]
      omega

/-- the first digit is `0` only for the numeral `0` -/
theorem toDec_head (n : Nat) : toDec n = [48] ∨ (toDec n).head? ≠ some 48 := by
  induction n using Nat.strongRecOn with
  | _ n ih =>
    rw [toDec_unfold]
    split
    · rename_i h
      by_cases h0 : n = 0
      · left; subst h0; rfl
      · right
        simp only [List.head?_cons, ne_eq, Option.some.injEq]
        intro hc
        have := congrArg UInt8.toNat hc
        rw [digit_toNat h] at this
        simp at this; omega
    · rename_i h
      right
      have hne := toDec_ne_nil (n / 10)
      rcases ih (n / 10) (by omega) with h1 | h1
      · -- toDec (n/10) = "0" means n/10 = 0, impossible
        have := congrArg digitsVal h1
        rw [digitsVal_toDec] at this
        simp [digitsVal] at this
        omega
      · cases hd : toDec (n / 10) with
        | nil => exact absurd hd hne
        | cons x xs => rw [hd] at h1; simpa using h1

/-- **decimal round trip** -/
theorem parseDecStrict_toDec (n : Nat) : parseDecStrict (toDec n) = some n := by
  simp only [parseDecStrict]
  rw [if_pos ⟨toDec_ne_nil n, toDec_all_digits n, toDec_head n⟩, digitsVal_toDec]

theorem foldl_dec_ge (ds : Bytes) (a : Nat) :
    a ≤ ds.foldl (fun a d => 10 * a + (d.toNat - 48)) a := by
  induction ds generalizing a with
  | nil => simp
  | cons d ds ih =>
    simp only [List.foldl_cons]
    exact Nat.le_trans (by omega) (ih _)

theorem digitsVal_pos {d : UInt8} {ds : Bytes} (hd : isDigit d = true) (h0 : d ≠ 48) :
    0 < digitsVal (d :: ds) := by
  simp only [digitsVal, List.foldl_cons]
  have h1 : 1 ≤ 10 * 0 + (d.toNat - 48) := by
    simp only [isDigit, Bool.and_eq_true, decide_eq_true_eq] at hd
    have : d.toNat ≠ 48 := by
      intro hc; apply h0; exact UInt8.toNat_inj.mp (by simpa using hc)
    omega
  exact Nat.lt_of_lt_of_le (by omega) (foldl_dec_ge ds _)

theorem digit_of_isDigit {d : UInt8} (hd : isDigit d = true) : digit (d.toNat - 48) = d := by
  simp only [isDigit, Bool.and_eq_true, decide_eq_true_eq] at hd
  apply UInt8.toNat_inj.mp
  rw [digit_toNat (by omega)]; omega

/-- canonical numerals are printed back exactly -/
theorem toDec_digitsVal : ∀ (k : Nat) (ds : Bytes), ds.length = k → ds ≠ [] → ds.all isDigit = true →
    (ds = [48] ∨ ds.head? ≠ some 48) → toDec (digitsVal ds) = ds := by
  intro k
  induction k with
  | zero => intro ds hl hne; simp_all
  | succ k ih =>
    intro ds hl hne hall hhead
    rcases List.eq_nil_or_concat ds with h | ⟨L, b, h⟩
    · exact absurd h hne
    · subst h
      simp only [List.concat_eq_append] at *
      rw [List.all_append] at hall
      simp only [Bool.and_eq_true, List.all_cons, List.all_nil, Bool.and_true] at hall
      obtain ⟨hL, hb⟩ := hall
      have hbr : b.toNat - 48 < 10 := by
        simp only [isDigit, Bool.and_eq_true, decide_eq_true_eq] at hb; omega
      cases L with
      | nil =>
        simp only [List.nil_append, digitsVal, List.foldl_cons, List.foldl_nil]
        rw [Nat.mul_zero, Nat.zero_add, toDec_small hbr, digit_of_isDigit hb]
      | cons x xs =>
        have hx : isDigit x = true := by simp_all
        have hx0 : x ≠ 48 := by
          rcases hhead with h | h
          · simp at h
          · simpa using h
        have hpos := digitsVal_pos (ds := xs) hx hx0
        rw [digitsVal_append_single]
        have hbig : ¬ (10 * digitsVal (x :: xs) + (b.toNat - 48) < 10) := by omega
        rw [toDec_big hbig]
        have h1 : (10 * digitsVal (x :: xs) + (b.toNat - 48)) / 10 = digitsVal (x :: xs) := by omega
        have h2 : (10 * digitsVal (x :: xs) + (b.toNat - 48)) % 10 = b.toNat - 48 := by omega
        rw [h1, h2, digit_of_isDigit hb]
        rw [ih (x :: xs) (by simp at hl ⊢; omega) (by simp) hL (by right; simpa using hx0)]

/-- **decimal canonicity** -/
theorem toDec_of_parseDecStrict {ds : Bytes} {n : Nat} (h : parseDecStrict ds = some n) :
    toDec n = ds := by
  simp only [parseDecStrict] at h
  split at h
  · rename_i hc
    simp only [Option.some.injEq] at h; subst h
    exact toDec_digitsVal ds.length ds rfl hc.1 hc.2.1 hc.2.2
  · simp at h

theorem splitAt_append {c : UInt8} {l : Bytes} (h : c ∉ l) (r : Bytes) :
    splitAt c (l ++ c :: r) = some (l, r) := by
  induction l with
  | nil => simp [splitAt]
  | cons x xs ih =>
    have hx : x ≠ c := fun e => h (e ▸ List.mem_cons_self)
    have := ih (fun m => h (List.mem_cons_of_mem _ m))
    simp [splitAt, hx, this]

theorem splitAt_some {c : UInt8} : ∀ {x l r : Bytes}, splitAt c x = some (l, r) →
    x = l ++ c :: r ∧ c ∉ l
  | [], l, r, h => by simp [splitAt] at h
  | y :: ys, l, r, h => by
    simp only [splitAt] at h
    split at h
    · rename_i hy
      simp only [Option.some.injEq, Prod.mk.injEq] at h
      obtain ⟨rfl, rfl⟩ := h
      simp [hy]
    · rename_i hy
      cases hs : splitAt c ys with
      | none => simp [hs] at h
      | some p =>
        obtain ⟨l', r'⟩ := p
        simp only [hs, Option.map_some, Option.some.injEq, Prod.mk.injEq] at h
        obtain ⟨rfl, rfl⟩ := h
        obtain ⟨h1, h2⟩ := splitAt_some hs
        refine ⟨by rw [h1]; rfl, ?_⟩
        intro hm
        rcases List.mem_cons.mp hm with e | e
        · exact hy e.symm
        · exact h2 e

theorem colon_not_mem_toDec (n : Nat) : colon ∉ toDec n := by
  intro h
  have := List.all_eq_true.mp (toDec_all_digits n) _ h
  simp [isDigit, colon] at this

/-- **decode ∘ encode** for one netstring followed by anything -/
theorem parseOne_enc (s r : Bytes) : parseOne strictLen (enc s ++ r) = .ok (s, r) := by
  simp only [parseOne, enc, List.append_assoc, List.cons_append]
  rw [splitAt_append (colon_not_mem_toDec _)]
  simp only [strictLen, parseDecStrict_toDec, Option.map_some]
  simp [comma]

/-- **canonicity**: the only input from which the strict decoder reads `s` with remainder `r`
    is `netstring(s) ++ r` -/
theorem enc_of_parseOne {x s r : Bytes} (h : parseOne strictLen x = .ok (s, r)) : x = enc s ++ r := by
  simp only [parseOne] at h
  split at h
  · simp at h
  · rename_i lenstr after hs
    obtain ⟨hx, _⟩ := splitAt_some hs
    split at h
    · simp at h
    · rename_i len hn
      simp only [strictLen] at hn
      cases hp : parseDecStrict lenstr with
      | none => simp [hp] at hn
      | some n =>
        simp only [hp, Option.map_some, Option.some.injEq] at hn
        subst hn
        have hdec := toDec_of_parseDecStrict hp
        have hton : (Int.ofNat n).toNat = n := rfl
        have hnn : ¬ (Int.ofNat n < 0) := by simp
        rw [hton] at h
        split at h
        · simp at h
        · split at h
          · simp at h
          · rename_i hlen
            split at h
            · simp at h
            · rename_i c rest' hdrop
              split at h
              · rename_i hc
                simp only [Except.ok.injEq, Prod.mk.injEq] at h
                obtain ⟨rfl, rfl⟩ := h
                have hlen' : (after.take n).length = n := by
                  simpa using hlen
                have : after = after.take n ++ c :: rest' := by
                  rw [← hdrop, List.take_append_drop]
                rw [hx, enc, hlen', hdec]
                conv => lhs; rw [this, hc]
                simp
              · simp at h

/-- prefix-freeness / unique decodability from the front -/
theorem enc_append_inj {a b x y : Bytes} (h : enc a ++ x = enc b ++ y) : a = b ∧ x = y := by
  have h1 := parseOne_enc a x
  rw [h, parseOne_enc] at h1
  simp only [Except.ok.injEq, Prod.mk.injEq] at h1
  exact ⟨h1.1.symm, h1.2.symm⟩

theorem enc_inj {a b : Bytes} (h : enc a = enc b) : a = b :=
  (@enc_append_inj a b [] [] (by simpa using h)).1

/-- no netstring is a proper prefix of another -/
theorem enc_prefix_free {a b : Bytes} (h : enc a <+: enc b) : a = b := by
  obtain ⟨t, ht⟩ := h
  exact (@enc_append_inj a b t [] (by simpa using ht)).1

/-- concatenations of netstrings are uniquely decodable -/
theorem concat_enc_inj : ∀ (xs ys : List Bytes),
    (xs.map enc).flatten = (ys.map enc).flatten → xs = ys
  | [], [], _ => rfl
  | [], y :: ys, h => by
    have hne : enc y ≠ [] := by simp [enc]
    simp only [List.map_nil, List.flatten_nil, List.map_cons, List.flatten_cons] at h
    have := congrArg List.length h
    simp only [List.length_nil, List.length_append] at this
    have : (enc y).length = 0 := by omega
    exact absurd (List.eq_nil_of_length_eq_zero this) hne
  | x :: xs, [], h => by
    have hne : enc x ≠ [] := by simp [enc]
    simp only [List.map_nil, List.flatten_nil, List.map_cons, List.flatten_cons] at h
    have := congrArg List.length h
    simp only [List.length_nil, List.length_append] at this
    have : (enc x).length = 0 := by omega
    exact absurd (List.eq_nil_of_length_eq_zero this) hne
  | x :: xs, y :: ys, h => by
    simp only [List.map_cons, List.flatten_cons] at h
    obtain ⟨h1, h2⟩ := enc_append_inj h
    rw [h1, concat_enc_inj xs ys h2]

theorem enc_length_pos (s : Bytes) : 2 ≤ (enc s).length := by
  simp [enc]; omega

/-- the loop on a concatenation of `k ≥ 1` netstrings followed by `tail`, asking for `k + acc` elements -/
theorem loop_concat : ∀ (ss : List Bytes) (fuel : Nat) (acc : List Bytes) (tail : Bytes),
    ss ≠ [] → ((ss.map enc).flatten ++ tail).length ≤ fuel →
    loop strictLen fuel ((ss.map enc).flatten ++ tail) acc (acc.length + ss.length)
      = .ok (acc.reverse ++ ss, tail)
  | [], _, _, _, h, _ => absurd rfl h
  | s :: ss, fuel, acc, tail, _, hf => by
    have hpos := enc_length_pos s
    simp only [List.map_cons, List.flatten_cons, List.append_assoc, List.length_append] at hf
    cases fuel with
    | zero => omega
    | succ f =>
      simp only [List.map_cons, List.flatten_cons, List.append_assoc, loop]
      have hne : enc s ++ ((ss.map enc).flatten ++ tail) ≠ [] := by
        intro hc
        have := congrArg List.length hc
        simp only [List.length_append, List.length_nil] at this
        omega
      rw [if_neg hne, parseOne_enc]
      simp only [List.length_cons]
      by_cases hss : ss = []
      · subst hss
        simp
      · have hlen : 0 < ss.length := List.length_pos_iff.mpr hss
        rw [if_neg (by omega)]
        have := loop_concat ss f (s :: acc) tail hss (by simp only [List.length_append]; omega)
        simp only [List.length_cons] at this
        rw [show acc.length + (ss.length + 1) = acc.length + 1 + ss.length by omega, this]
        simp

/-- **`split_netstring` on a concatenation**: `k ≥ 1` netstrings followed by any tail are read back
    exactly, and the returned position is the length of what was consumed -/
theorem split_concat (ss : List Bytes) (tail : Bytes) (h : ss ≠ []) :
    split strictLen ((ss.map enc).flatten ++ tail) ss.length 0 none
      = .ok (ss, ((ss.map enc).flatten).length) := by
  have := loop_concat ss ((ss.map enc).flatten ++ tail).length [] tail h (Nat.le_refl _)
  simp only [List.length_nil, Nat.zero_add, List.reverse_nil, List.nil_append] at this
  simp only [split, List.drop_zero, this, Nat.zero_le, ↓reduceIte, Nat.lt_irrefl]
  simp

end Tahoe.Base.Netstring
