import Tahoe.Base.LemmasMerkle
/-! Soundness of `set_hashes` (helper lemmas for Tahoe/Props/C35.lean). -/
namespace Tahoe.Base.Merkle

variable {H : Type}

/-- `j` holds a value different from the genuine one -/
def Bad (T t : Tree H) (j : Nat) : Prop := ∃ h, get t j = some h ∧ get T j ≠ some h

/-- `j` and its sibling hash to the stored parent -/
def Checked (ops : HashOps H) (t : Tree H) (j : Nat) : Prop :=
  j ≠ 0 ∧ ∃ a b, get t (2 * parent j + 1) = some a ∧ get t (2 * parent j + 2) = some b ∧
    get t (parent j) = some (ops.pair a b)

theorem agree_iff_no_bad {T t : Tree H} : Agree t T ↔ ∀ j, ¬ Bad T t j := by
  constructor
  · intro h j ⟨v, h1, h2⟩; exact h2 (h j v h1)
  · intro h j v hv
    apply Classical.byContradiction
    intro hn; exact h j ⟨v, hv, hn⟩

theorem Checked.mono {ops : HashOps H} {t t' : Tree H} {j : Nat} (h : Checked ops t j)
    (hm : ∀ x v, get t x = some v → get t' x = some v) : Checked ops t' j := by
  obtain ⟨h0, a, b, h1, h2, h3⟩ := h
  exact ⟨h0, a, b, hm _ _ h1, hm _ _ h2, hm _ _ h3⟩

theorem checked_of_pair {ops : HashOps H} {t : Tree H} {i : Nat} (hi : i ≠ 0) {a b : H}
    (hgi : get t i = some a) (hgs : get t (sibling i) = some b)
    (hp : get t (parent i) = some (if i ≤ sibling i then ops.pair a b else ops.pair b a)) :
    Checked ops t i ∧ Checked ops t (sibling i) := by
  have hc := children_of_parent hi
  have hps := parent_sibling hi
  have hs0 := sibling_ne_zero hi
  by_cases hle : i ≤ sibling i
  · obtain ⟨e1, e2⟩ := hc.1 hle
    rw [if_pos hle] at hp
    refine ⟨⟨hi, a, b, ?_, ?_, hp⟩, ⟨hs0, a, b, ?_, ?_, ?_⟩⟩
    · rw [e1]; exact hgi
    · rw [e2]; exact hgs
    · rw [hps, e1]; exact hgi
    · rw [hps, e2]; exact hgs
    · rw [hps]; exact hp
  · obtain ⟨e1, e2⟩ := hc.2 hle
    rw [if_neg hle] at hp
    refine ⟨⟨hi, b, a, ?_, ?_, hp⟩, ⟨hs0, b, a, ?_, ?_, ?_⟩⟩
    · rw [e1]; exact hgs
    · rw [e2]; exact hgi
    · rw [hps, e1]; exact hgs
    · rw [hps, e2]; exact hgi
    · rw [hps]; exact hp

/-- level invariant: a wrong entry is still red (in this level's set or in a shallower one) or has been
    checked against its stored parent -/
def LInv (ops : HashOps H) (T : Tree H) (l : Nat) (this : List Nat) (st : St H) : Prop :=
  ∀ j, Bad T st.t j → j ∈ this ∨ (j ∈ st.red ∧ depthOf j < l) ∨ Checked ops st.t j

def RootGood (T t : Tree H) : Prop := ∃ r, get t 0 = some r ∧ get T 0 = some r

theorem RootGood.not_bad {T t : Tree H} (h : RootGood T t) : ¬ Bad T t 0 := by
  obtain ⟨r, h1, h2⟩ := h
  intro ⟨v, h3, h4⟩
  rw [h1] at h3; injection h3 with h3; subst h3; exact h4 h2

theorem bad_set_ne {T t : Tree H} {p j : Nat} {v : Option H} (hne : p ≠ j) (h : Bad T (t.set p v) j) : Bad T t j := by
  obtain ⟨w, h1, h2⟩ := h
  rw [get_set_ne _ hne] at h1
  exact ⟨w, h1, h2⟩

theorem levelLoop_sound [DecidableEq H] {ops : HashOps H} (htr : ∀ h, ops.truthy h = true) (T : Tree H)
    (pick : List Nat → Nat) (l f : Nat) (this : List Nat) (st : St H) {st1 : St H}
    (h : levelLoop ops pick f this st = .ok st1)
    (hdepth : ∀ i ∈ this, depthOf i = l) (hroot : RootGood T st.t) (hinv : LInv ops T l this st) :
    LInv ops T l [] st1 := by
  fun_induction levelLoop ops pick f this st with
  | case1 => injection h with h; subst h; exact hinv
  | case2 => cases h
  | case3 f head tail st i this hi ih =>
    apply ih h
    · intro j hj; exact hdepth j (List.mem_of_mem_erase hj)
    · exact hroot
    · intro j hb
      cases hinv j hb with
      | inl hm =>
        left
        have hj0 : j ≠ 0 := by intro e; subst e; exact hroot.not_bad hb
        exact mem_erase_of_mem_ne hm (by rw [hi]; exact hj0)
      | inr hr => exact Or.inr hr
  | case4 => cases h
  | case5 => cases h
  | case6 => cases h
  | case7 f head tail st i this hi s hs hgs hi' hgi p np htr' heq ih =>
    have hpe : get st.t p = some np := Classical.not_not.mp heq
    have hck := checked_of_pair (ops := ops) hi hgi hgs hpe
    apply ih h
    · intro j hj; exact hdepth j (List.mem_of_mem_erase (List.mem_of_mem_erase hj))
    · exact hroot
    · intro j hb
      cases hinv j hb with
      | inl hm =>
        by_cases e1 : j = i
        · right; right; rw [e1]; exact hck.1
        · by_cases e2 : j = s
          · right; right; rw [e2]; exact hck.2
          · left; exact mem_erase_of_mem_ne (mem_erase_of_mem_ne hm e1) e2
      | inr hr => exact Or.inr hr
  | case8 f head tail st i this hi s hs hgs hi' hgi p np htr' ih =>
    have hn : get st.t p = none := none_of_not_truthy htr (by simpa using htr')
    have hm_i : i ∈ head :: tail := popChoice_mem pick head tail
    have hplt : p < st.t.length := by
      have := lt_of_get_some hgi; have := parent_lt hi; omega
    have hmono : ∀ x v, get st.t x = some v → get (st.t.set p (some np)) x = some v := by
      intro x v hx
      have : p ≠ x := by intro e; subst e; rw [hn] at hx; cases hx
      rw [get_set_ne _ this]; exact hx
    have hck := checked_of_pair (ops := ops) (t := st.t.set p (some np)) hi (hmono _ _ hgi) (hmono _ _ hgs)
      (get_set_eq _ hplt)
    apply ih h
    · intro j hj; exact hdepth j (List.mem_of_mem_erase (List.mem_of_mem_erase hj))
    · obtain ⟨r, h1, h2⟩ := hroot
      exact ⟨r, hmono _ _ h1, h2⟩
    · intro j hb
      by_cases ejp : p = j
      · right; left
        refine ⟨mem_addSet.mpr (Or.inr ejp.symm), ?_⟩
        have h1 := depthOf_parent hi
        have h2 := hdepth i hm_i
        rw [← ejp]; show depthOf (parent i) < l; omega
      · have hb' : Bad T st.t j := bad_set_ne ejp hb
        cases hinv j hb' with
        | inl hm =>
          by_cases e1 : j = i
          · right; right; rw [e1]; exact hck.1
          · by_cases e2 : j = s
            · right; right; rw [e2]; exact hck.2
            · left; exact mem_erase_of_mem_ne (mem_erase_of_mem_ne hm e1) e2
        | inr hr =>
          cases hr with
          | inl hr => right; left; exact ⟨mem_addSet.mpr (Or.inl hr.1), hr.2⟩
          | inr hr => right; right; exact hr.mono hmono

theorem levelsLoop_sound [DecidableEq H] {ops : HashOps H} (htr : ∀ h, ops.truthy h = true) (T : Tree H)
    (pick : List Nat → Nat) (k : Nat) (st : St H) {st1 : St H}
    (h : levelsLoop ops pick k st = .ok st1) (hroot : RootGood T st.t) (hinv : LInv ops T k [] st) :
    LInv ops T 0 [] st1 ∧ RootGood T st1.t := by
  induction k generalizing st with
  | zero => injection h with h; subst h; exact ⟨hinv, hroot⟩
  | succ k ih =>
    unfold levelsLoop at h
    have hr := levelLoop_reach ops pick (thisLevel st k).length (thisLevel st k) st
    cases hres : levelLoop ops pick (thisLevel st k).length (thisLevel st k) st with
    | error e => rw [hres] at h; cases h
    | ok st' =>
      rw [hres] at h hr
      have h1 : LInv ops T k (thisLevel st k) st := by
        intro j hb
        cases hinv j hb with
        | inl hm => cases hm
        | inr hr' =>
          cases hr' with
          | inr hc => exact Or.inr (Or.inr hc)
          | inl hc =>
            by_cases e : depthOf j = k
            · left; exact mem_thisLevel.mpr ⟨hc.1, e⟩
            · right; left; exact ⟨hc.1, by omega⟩
      have h2 := levelLoop_sound htr T pick k _ _ st hres (fun i hi => (mem_thisLevel.mp hi).2) hroot h1
      have hroot' : RootGood T st'.t := by
        obtain ⟨r, r1, r2⟩ := hroot
        exact ⟨r, hr.mono htr r1, r2⟩
      exact ih st' h hroot' h2

/-- a wrong entry either was wrong before or carries a red dot -/
theorem Reach.bad {ops : HashOps H} {T : Tree H} {a b : St H} (h : Reach ops a b) {j : Nat}
    (hb : Bad T b.t j) : Bad T a.t j ∨ j ∈ b.red := by
  induction h with
  | refl => exact Or.inl hb
  | step st st' p v hp hg hr ih =>
    cases ih hb with
    | inr h => exact Or.inr h
    | inl h =>
      by_cases e : p = j
      · right; exact hr.red_sub (mem_addSet.mpr (Or.inr e.symm))
      · left; exact bad_set_ne e h

/-- if every wrong entry has been checked against its parent and the root is right, nothing is wrong -/
theorem no_bad_of_checked {ops : HashOps H}
    (hinj : ∀ a b c d, ops.pair a b = ops.pair c d → a = c ∧ b = d)
    {T t : Tree H} (hT : Genuine ops T) (hlen : t.length = T.length)
    (hall : ∀ j, Bad T t j → Checked ops t j) : ∀ j, ¬ Bad T t j := by
  intro j
  induction j using Nat.strongRecOn with
  | _ j ih =>
    intro hb
    obtain ⟨hj0, a, b, h1, h2, h3⟩ := hall j hb
    have hpar : ¬ Bad T t (parent j) := ih (parent j) (parent_lt hj0)
    have hTp : get T (parent j) = some (ops.pair a b) := by
      apply Classical.byContradiction
      intro hn; exact hpar ⟨_, h3, hn⟩
    have hl1 : 2 * parent j + 1 < T.length := by rw [← hlen]; exact lt_of_get_some h1
    have hl2 : 2 * parent j + 2 < T.length := by rw [← hlen]; exact lt_of_get_some h2
    cases ha : get T (2 * parent j + 1) with
    | none => exact hT.full _ hl1 ha
    | some a' =>
      cases hb' : get T (2 * parent j + 2) with
      | none => exact hT.full _ hl2 hb'
      | some b' =>
        have hn := hT.node (parent j) a' b' ha hb'
        rw [hTp] at hn
        injection hn with hn
        obtain ⟨ea, eb⟩ := hinj _ _ _ _ hn
        subst ea; subst eb
        obtain ⟨v, hv1, hv2⟩ := hb
        cases child_cases hj0 with
        | inl e => rw [e] at hv1 hv2; rw [h1] at hv1; injection hv1 with hv1; subst hv1; exact hv2 ha
        | inr e => rw [e] at hv1 hv2; rw [h2] at hv1; injection hv1 with hv1; subst hv1; exact hv2 hb'

/-- soundness of the `try:` body -/
theorem tryBody_sound [DecidableEq H] {ops : HashOps H} (htr : ∀ h, ops.truthy h = true)
    (hinj : ∀ a b c d, ops.pair a b = ops.pair c d → a = c ∧ b = d)
    {T t : Tree H} (hT : Genuine ops T) (hlen : t.length = T.length) (hagree : Agree t T)
    (hroot : get t 0 ≠ none) (pick : List Nat → Nat) (new : List (Nat × H)) {st1 : St H}
    (h : tryBody ops pick t new = .ok st1) : Agree st1.t T := by
  have hrg : RootGood T t := by
    cases hr : get t 0 with
    | none => exact absurd hr hroot
    | some r => exact ⟨r, hr, hagree 0 r hr⟩
  have hreach := tryBody_reach ops pick t new
  rw [h] at hreach
  unfold tryBody at h
  have hr := provisional_reach ops new { t := t, red := [], rm := [] }
  cases hres : provisional ops new { t := t, red := [], rm := [] } with
  | error e => rw [hres] at h; cases h
  | ok st0 =>
    rw [hres] at h hr
    have hrg0 : RootGood T st0.t := by
      obtain ⟨r, r1, r2⟩ := hrg; exact ⟨r, hr.mono htr r1, r2⟩
    have hinv : LInv ops T (depthOf (t.length - 1) + 1) [] st0 := by
      intro j hb
      cases hr.bad hb with
      | inl h0 => exact absurd h0 (agree_iff_no_bad.mp hagree j)
      | inr h0 =>
        right; left
        refine ⟨h0, ?_⟩
        obtain ⟨v, hv, _⟩ := hb
        have hj := lt_of_get_some hv
        have hl : st0.t.length = t.length := hr.length_eq
        have := depthOf_mono (a := j) (b := t.length - 1) (by omega)
        omega
    obtain ⟨h1, h2⟩ := levelsLoop_sound htr T pick _ st0 h hrg0 hinv
    have hlen1 : st1.t.length = T.length := by
      have : st1.t.length = t.length := hreach.length_eq
      omega
    apply agree_iff_no_bad.mpr
    apply no_bad_of_checked hinj hT hlen1
    intro j hb
    cases h1 j hb with
    | inl hm => cases hm
    | inr hm =>
      cases hm with
      | inl hm => exact absurd hm.2 (Nat.not_lt_zero _)
      | inr hm => exact hm

/-! ## what was supplied is what is stored after success -/

theorem mem_of_lookup {β : Type} (l : List (Nat × β)) (k : Nat) (v : β) (h : l.lookup k = some v) : (k, v) ∈ l := by
  induction l with
  | nil => cases h
  | cons x rest ih =>
    obtain ⟨k', v'⟩ := x
    rw [List.lookup_cons] at h
    by_cases e : k = k'
    · subst e; simp at h; subst h; exact List.mem_cons_self
    · have : (k == k') = false := by simpa using e
      rw [this] at h
      exact List.mem_cons_of_mem _ (ih h)

theorem mergeLeaves_mem [DecidableEq H] (first : Nat) (new : List (Nat × H)) (leaves : List (Nat × H))
    {res : List (Nat × H)} (h : mergeLeaves first new leaves = some res) :
    (∀ x ∈ new, x ∈ res) ∧ (∀ k v, (k, v) ∈ leaves → (first + k, v) ∈ res) := by
  induction leaves generalizing new with
  | nil => injection h with h; subst h; exact ⟨fun _ hx => hx, by simp⟩
  | cons kv rest ih =>
    obtain ⟨k0, v0⟩ := kv
    unfold mergeLeaves at h
    cases hl : new.lookup (first + k0) with
    | some w =>
      rw [hl] at h
      simp only at h
      by_cases e : w ≠ v0
      · rw [if_pos e] at h; cases h
      · rw [if_neg e] at h
        have e' : w = v0 := Classical.not_not.mp e
        obtain ⟨h1, h2⟩ := ih new h
        refine ⟨h1, ?_⟩
        intro k v hm
        cases List.mem_cons.mp hm with
        | inl heq =>
          injection heq with e1 e2; subst e1; subst e2
          apply h1
          have := mem_of_lookup _ _ _ hl
          rw [← e']; exact this
        | inr hm' => exact h2 k v hm'
    | none =>
      rw [hl] at h
      simp only at h
      obtain ⟨h1, h2⟩ := ih _ h
      refine ⟨fun x hx => h1 x (List.mem_append_left _ hx), ?_⟩
      intro k v hm
      cases List.mem_cons.mp hm with
      | inl heq =>
        injection heq with e1 e2; subst e1; subst e2
        exact h1 _ (List.mem_append_right _ (List.mem_singleton.mpr rfl))
      | inr hm' => exact h2 k v hm'

theorem provisional_stored [DecidableEq H] {ops : HashOps H} (htr : ∀ h, ops.truthy h = true)
    (new : List (Nat × H)) (st : St H) {st1 : St H} (h : provisional ops new st = .ok st1) :
    ∀ i v, (i, v) ∈ new → get st1.t i = some v := by
  fun_induction provisional ops new st with
  | case1 st => intro i v hm; cases hm
  | case2 i h' rest st hge => cases h
  | case3 i h' rest st hge htr' hne => cases h
  | case4 i h' rest st hge htr' hne ih =>
    intro j v hm
    cases List.mem_cons.mp hm with
    | inl heq =>
      injection heq with e1 e2; subst e1; subst e2
      have hr := provisional_reach ops rest st
      rw [h] at hr
      exact hr.mono htr (Classical.not_not.mp hne)
    | inr hm' => exact ih h j v hm'
  | case5 i h' rest st hge htr' ih =>
    intro j v hm
    cases List.mem_cons.mp hm with
    | inl heq =>
      injection heq with e1 e2; subst e1; subst e2
      have hr := provisional_reach ops rest { t := st.t.set j (some v), red := addSet st.red j, rm := addSet st.rm j }
      rw [h] at hr
      exact hr.mono htr (get_set_eq _ (by omega))
    | inr hm' => exact ih h j v hm'

/-- after a successful `try:` body every supplied (index, hash) is stored -/
theorem tryBody_stored [DecidableEq H] {ops : HashOps H} (htr : ∀ h, ops.truthy h = true)
    (pick : List Nat → Nat) (t : Tree H) (new : List (Nat × H)) {st1 : St H}
    (h : tryBody ops pick t new = .ok st1) : ∀ i v, (i, v) ∈ new → get st1.t i = some v := by
  unfold tryBody at h
  cases hres : provisional ops new { t := t, red := [], rm := [] } with
  | error e => rw [hres] at h; cases h
  | ok st0 =>
    rw [hres] at h
    intro i v hm
    have h' : levelsLoop ops pick (depthOf (t.length - 1) + 1) st0 = .ok st1 := h
    have hr := levelsLoop_reach ops pick (depthOf (t.length - 1) + 1) st0
    rw [h'] at hr
    exact hr.mono htr (provisional_stored htr new _ hres i v hm)

end Tahoe.Base.Merkle
