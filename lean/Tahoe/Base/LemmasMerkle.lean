import Tahoe.Base.Merkle
/-! Helper lemmas for the Merkle model (used by Tahoe/Props/C35.lean). Mathlib-free. -/
namespace Tahoe.Base.Merkle

variable {H : Type}

/-! ## index arithmetic -/

theorem parent_lt {i : Nat} (h : i ≠ 0) : parent i < i := by
  unfold parent; omega

theorem sibling_ne_zero {i : Nat} (h : i ≠ 0) : sibling i ≠ 0 := by
  unfold sibling; split <;> omega

theorem sibling_sibling {i : Nat} (_h : i ≠ 0) : sibling (sibling i) = i := by
  unfold sibling; split <;> split <;> omega

theorem parent_sibling {i : Nat} (_h : i ≠ 0) : parent (sibling i) = parent i := by
  unfold sibling parent; split <;> omega

theorem sibling_ne {i : Nat} (_h : i ≠ 0) : sibling i ≠ i := by
  unfold sibling; split <;> omega

theorem sibling_ne_parent {i : Nat} (h : i ≠ 0) : sibling i ≠ parent i := by
  unfold sibling parent; split <;> omega

/-- the children of `parent i` are `i` and its sibling, left one first -/
theorem children_of_parent {i : Nat} (h : i ≠ 0) :
    (i ≤ sibling i → 2 * parent i + 1 = i ∧ 2 * parent i + 2 = sibling i) ∧
    (¬ i ≤ sibling i → 2 * parent i + 1 = sibling i ∧ 2 * parent i + 2 = i) := by
  unfold sibling parent; split <;> constructor <;> intro _ <;> omega

theorem child_cases {i : Nat} (h : i ≠ 0) : i = 2 * parent i + 1 ∨ i = 2 * parent i + 2 := by
  unfold parent; omega

/-- with an odd length every non-root index in range has its sibling in range -/
theorem sibling_lt_len {len i : Nat} (hodd : len % 2 = 1) (_h0 : i ≠ 0) (hi : i < len) : sibling i < len := by
  unfold sibling; split <;> omega

/-- the code's `sibling()` (parent / lchild / rchild with range checks) is the parity formula -/
theorem sibling?_eq {len i : Nat} (hodd : len % 2 = 1) (h0 : i ≠ 0) (hi : i < len) :
    sibling? len i = some (sibling i) := by
  unfold sibling? parent? lchild? rchild? sibling
  have h1 : ¬ (i < 1 ∨ i ≥ len) := by omega
  simp only [h1, if_false]
  have h2 : ¬ (2 * ((i - 1) / 2) + 1 ≥ len) := by omega
  simp only [h2, if_false]
  by_cases hp : i % 2 = 1
  · have e1 : 2 * ((i - 1) / 2) + 1 = i := by omega
    have e2 : ¬ (2 * ((i - 1) / 2) + 2 ≥ len) := by omega
    rw [if_pos e1, if_neg e2, if_pos hp]; congr 1; omega
  · have e1 : ¬ (2 * ((i - 1) / 2) + 1 = i) := by omega
    rw [if_neg e1, if_neg hp]; congr 1; omega

theorem log2_mono {a b : Nat} (h : a ≤ b) : Nat.log2 a ≤ Nat.log2 b := by
  by_cases ha : a = 0
  · subst ha; have : Nat.log2 0 = 0 := by decide
    omega
  · apply Nat.le_of_not_lt
    intro hlt
    have hb : b ≠ 0 := by omega
    have h1 := (Nat.log2_lt hb).mp hlt
    have h2 := Nat.log2_self_le ha
    omega

theorem depthOf_mono {a b : Nat} (h : a ≤ b) : depthOf a ≤ depthOf b := by
  unfold depthOf; exact log2_mono (by omega)

/-- `assert parent_level == level-1` always holds -/
theorem depthOf_parent {i : Nat} (h : i ≠ 0) : depthOf (parent i) + 1 = depthOf i := by
  unfold depthOf parent
  rw [Nat.log2_def (i + 1)]
  have h2 : 2 ≤ i + 1 := by omega
  simp only [h2, if_true]
  have : (i - 1) / 2 + 1 = (i + 1) / 2 := by omega
  rw [this]

theorem depthOf_sibling {i : Nat} (h : i ≠ 0) : depthOf (sibling i) = depthOf i := by
  have h1 := depthOf_parent h
  have h2 := depthOf_parent (sibling_ne_zero h)
  rw [parent_sibling h] at h2
  omega

theorem depthOf_zero : depthOf 0 = 0 := by decide

theorem depthOf_pos {i : Nat} (h : i ≠ 0) : 0 < depthOf i := by
  have := depthOf_parent h; omega

/-! ## get / set -/

theorem get_of_ge {t : Tree H} {i : Nat} (h : t.length ≤ i) : get t i = none := by
  unfold get; simp [List.getElem?_eq_none h]

theorem lt_of_get_some {t : Tree H} {i : Nat} {h : H} (hg : get t i = some h) : i < t.length := by
  apply Nat.lt_of_not_le
  intro hle
  rw [get_of_ge hle] at hg
  cases hg

theorem lt_of_get_ne_none {t : Tree H} {i : Nat} (hg : get t i ≠ none) : i < t.length := by
  apply Nat.lt_of_not_le
  intro hle
  exact hg (get_of_ge hle)

theorem get_set_eq {t : Tree H} {i : Nat} (v : Option H) (h : i < t.length) : get (t.set i v) i = v := by
  unfold get; simp [h]

theorem get_set_ne {t : Tree H} {i j : Nat} (v : Option H) (h : i ≠ j) : get (t.set i v) j = get t j := by
  unfold get; simp [h]

theorem getElem?_eq_some_get {t : Tree H} {i : Nat} (h : i < t.length) : t[i]? = some (get t i) := by
  unfold get; simp [h]

theorem ne_none_of_some' {o : Option H} {v : H} (h : o = some v) : o ≠ none := by
  rw [h]; exact fun e => nomatch e

/-! ## sets as lists -/

theorem mem_addSet {l : List Nat} {i j : Nat} : j ∈ addSet l i ↔ j ∈ l ∨ j = i := by
  unfold addSet; split
  · constructor
    · intro h; exact Or.inl h
    · intro h; cases h with
      | inl h => exact h
      | inr h => subst h; assumption
  · simp

theorem popChoice_mem (pick : List Nat → Nat) (a : Nat) (l : List Nat) : popChoice pick (a :: l) ∈ a :: l := by
  unfold popChoice; split
  · assumption
  · simp

theorem mem_erase_of_mem_ne {l : List Nat} {a b : Nat} (h : a ∈ l) (hne : a ≠ b) : a ∈ l.erase b :=
  (List.mem_erase_of_ne hne).mpr h

/-! ## strict truthiness -/

theorem truthyOpt_strict {ops : HashOps H} (htr : ∀ h, ops.truthy h = true) (o : Option H) :
    truthyOpt ops o = o.isSome := by
  cases o <;> simp [truthyOpt, htr]

/-! ## the elementary state change and reachability -/

/-- the only way `set_hashes` writes: fill `p` with `v`, red-dot it, remember it for rollback -/
def upd (st : St H) (p : Nat) (v : H) : St H :=
  { t := st.t.set p (some v), red := addSet st.red p, rm := addSet st.rm p }

/-- `st'` is obtained from `st` by filling non-truthy in-range slots -/
inductive Reach (ops : HashOps H) : St H → St H → Prop
  | refl (st : St H) : Reach ops st st
  | step (st st' : St H) (p : Nat) (v : H) : p < st.t.length → truthyOpt ops (get st.t p) = false →
      Reach ops (upd st p v) st' → Reach ops st st'

/-- the state carried by a result, success or failure -/
def stOf : Except (Outcome × St H) (St H) → St H
  | .ok st => st
  | .error (_, st) => st

theorem Reach.trans {ops : HashOps H} {a b c : St H} (h1 : Reach ops a b) (h2 : Reach ops b c) : Reach ops a c := by
  induction h1 with
  | refl => exact h2
  | step st st' p v hp hg _ ih => exact Reach.step st _ p v hp hg (ih h2)

theorem provisional_reach [DecidableEq H] (ops : HashOps H) (new : List (Nat × H)) (st : St H) :
    Reach ops st (stOf (provisional ops new st)) := by
  fun_induction provisional ops new st with
  | case1 st => exact Reach.refl _
  | case2 i h rest st hge => exact Reach.refl _
  | case3 i h rest st hge htr hne => exact Reach.refl _
  | case4 i h rest st hge htr hne ih => exact ih
  | case5 i h rest st hge htr ih =>
    exact Reach.step st _ i h (by omega) (by simpa using htr) ih

theorem levelLoop_reach [DecidableEq H] (ops : HashOps H) (pick : List Nat → Nat) (f : Nat) (this : List Nat)
    (st : St H) : Reach ops st (stOf (levelLoop ops pick f this st)) := by
  fun_induction levelLoop ops pick f this st with
  | case1 => exact Reach.refl _
  | case2 => exact Reach.refl _
  | case3 f head tail st i this hi ih => exact ih
  | case4 => exact Reach.refl _
  | case5 => exact Reach.refl _
  | case6 => exact Reach.refl _
  | case7 f head tail st i this hi s hs hgs hi' hgi p np htr heq ih => exact ih
  | case8 f head tail st i this hi s hs hgs hi' hgi p np htr ih =>
    have hlt : p < st.t.length := by
      have := lt_of_get_some hgi
      have := parent_lt hi
      omega
    exact Reach.step st _ p np hlt (by simpa using htr) ih

theorem levelsLoop_reach [DecidableEq H] (ops : HashOps H) (pick : List Nat → Nat) (k : Nat) (st : St H) :
    Reach ops st (stOf (levelsLoop ops pick k st)) := by
  induction k generalizing st with
  | zero => exact Reach.refl _
  | succ k ih =>
    unfold levelsLoop
    have h1 := levelLoop_reach ops pick (thisLevel st k).length (thisLevel st k) st
    cases hres : levelLoop ops pick (thisLevel st k).length (thisLevel st k) st with
    | error e => rw [hres] at h1; obtain ⟨o, st'⟩ := e; exact h1
    | ok st' => rw [hres] at h1; exact Reach.trans h1 (ih st')

theorem tryBody_reach [DecidableEq H] (ops : HashOps H) (pick : List Nat → Nat) (t : Tree H) (new : List (Nat × H)) :
    Reach ops { t := t, red := [], rm := [] } (stOf (tryBody ops pick t new)) := by
  unfold tryBody
  have h1 := provisional_reach ops new { t := t, red := [], rm := [] }
  cases hres : provisional ops new { t := t, red := [], rm := [] } with
  | error e => rw [hres] at h1; obtain ⟨o, st'⟩ := e; exact h1
  | ok st' => rw [hres] at h1; exact Reach.trans h1 (levelsLoop_reach ops pick _ st')

/-! ## frame properties of reachability -/

theorem Reach.length_eq {ops : HashOps H} {a b : St H} (h : Reach ops a b) : b.t.length = a.t.length := by
  induction h with
  | refl => rfl
  | step st st' p v hp hg _ ih => rw [ih]; simp [upd]

theorem Reach.red_sub {ops : HashOps H} {a b : St H} (h : Reach ops a b) {j : Nat} (hj : j ∈ a.red) : j ∈ b.red := by
  induction h with
  | refl => exact hj
  | step st st' p v hp hg _ ih => exact ih (mem_addSet.mpr (Or.inl hj))

/-- everything newly populated carries a red dot -/
theorem Reach.newPop {ops : HashOps H} {a b : St H} (h : Reach ops a b) {j : Nat} (hj : get b.t j ≠ none) :
    get a.t j ≠ none ∨ j ∈ b.red := by
  induction h with
  | refl => exact Or.inl hj
  | step st st' p v hp hg hr ih =>
    cases ih hj with
    | inr h => exact Or.inr h
    | inl h =>
      by_cases hjp : p = j
      · subst hjp; exact Or.inr (hr.red_sub (mem_addSet.mpr (Or.inr rfl)))
      · left; simpa [upd, get_set_ne _ hjp] using h

/-- red-dotted entries are populated -/
theorem Reach.redPop {ops : HashOps H} {a b : St H} (h : Reach ops a b)
    (ha : ∀ i ∈ a.red, get a.t i ≠ none) : ∀ i ∈ b.red, get b.t i ≠ none := by
  induction h with
  | refl => exact ha
  | step st st' p v hp hg _ ih =>
    apply ih
    intro i hi
    by_cases hip : p = i
    · subst hip; simp [upd, get_set_eq _ hp]
    · have := mem_addSet.mp hi
      simp only [upd, get_set_ne _ hip]
      cases this with
      | inl h => exact ha i h
      | inr h => exact absurd h.symm hip

theorem none_of_not_truthy {ops : HashOps H} (htr : ∀ h, ops.truthy h = true) {o : Option H}
    (h : truthyOpt ops o = false) : o = none := by
  cases o with
  | none => rfl
  | some v => simp [truthyOpt, htr] at h

/-- with a strict presence test populated entries are never overwritten -/
theorem Reach.mono {ops : HashOps H} (htr : ∀ h, ops.truthy h = true) {a b : St H} (h : Reach ops a b)
    {j : Nat} {v : H} (hj : get a.t j = some v) : get b.t j = some v := by
  induction h with
  | refl => exact hj
  | step st st' p w hp hg _ ih =>
    apply ih
    have hn := none_of_not_truthy htr hg
    have hne : p ≠ j := by intro e; subst e; rw [hn] at hj; cases hj
    simp [upd, get_set_ne _ hne, hj]

/-- ghost invariant for rollback: outside `rm` the list is the input list, and `rm` only holds indices that
    were `None` in the input -/
def RollInv (t0 : Tree H) (st : St H) : Prop :=
  st.t.length = t0.length ∧ (∀ j, j ∉ st.rm → st.t[j]? = t0[j]?) ∧ (∀ j ∈ st.rm, get t0 j = none)

theorem Reach.rollInv {ops : HashOps H} (htr : ∀ h, ops.truthy h = true) {t0 : Tree H} {a b : St H}
    (h : Reach ops a b) (ha : RollInv t0 a) : RollInv t0 b := by
  induction h with
  | refl => exact ha
  | step st st' p w hp hg _ ih =>
    apply ih
    obtain ⟨h1, h2, h3⟩ := ha
    have hn := none_of_not_truthy htr hg
    refine ⟨by simp [upd, h1], ?_, ?_⟩
    · intro j hj
      have hj' : j ∉ st.rm ∧ j ≠ p := by
        constructor
        · intro hm; exact hj (mem_addSet.mpr (Or.inl hm))
        · intro e; exact hj (mem_addSet.mpr (Or.inr e))
      simp only [upd]
      rw [List.getElem?_set]
      have : ¬ p = j := fun e => hj'.2 e.symm
      simp only [this, if_false]
      exact h2 j hj'.1
    · intro j hj
      cases mem_addSet.mp hj with
      | inl h => exact h3 j h
      | inr h =>
        subst h
        by_cases hm : j ∈ st.rm
        · exact h3 j hm
        · have e := h2 j hm
          unfold get at hn ⊢
          rw [← e]; exact hn

theorem rollback_getElem? (rm : List Nat) (t : Tree H) (j : Nat) :
    (rollback rm t)[j]? = if j ∈ rm ∧ j < t.length then some none else t[j]? := by
  induction rm generalizing t with
  | nil => simp [rollback]
  | cons i rm ih =>
    have : rollback (i :: rm) t = rollback rm (t.set i none) := rfl
    rw [this, ih, List.getElem?_set]
    simp only [List.length_set, List.mem_cons]
    by_cases hj : j < t.length
    · by_cases hi : i = j
      · subst hi; simp [hj]
      · have : ¬ j = i := fun e => hi e.symm
        simp [hi, this]
    · have : t[j]? = none := List.getElem?_eq_none (by omega)
      simp only [hj, and_false, if_false, this]
      split
      · split
        · omega
        · rfl
      · rfl

theorem rollback_spec {t0 : Tree H} {st : St H} (h : RollInv t0 st) : rollback st.rm st.t = t0 := by
  obtain ⟨h1, h2, h3⟩ := h
  apply List.ext_getElem?
  intro j
  rw [rollback_getElem?]
  by_cases hm : j ∈ st.rm
  · by_cases hj : j < st.t.length
    · simp only [hm, hj, and_self, if_true]
      rw [getElem?_eq_some_get (by omega), h3 j hm]
    · simp only [hj, and_false, if_false]
      rw [List.getElem?_eq_none (by omega), List.getElem?_eq_none (by omega)]
  · simp only [hm, false_and, if_false]
    exact h2 j hm

/-! ## failures are BadHashError, NotEnoughHashesError or IndexError: `internal` (and `ok`) are never raised -/

theorem provisional_no_internal [DecidableEq H] (ops : HashOps H) (new : List (Nat × H)) (st : St H)
    {o : Outcome} {st' : St H} (h : provisional ops new st = .error (o, st')) : o = .badHash ∨ o = .notEnough ∨ o = .indexError := by
  fun_induction provisional ops new st with
  | case1 st => cases h
  | case2 i h' rest st hge => injection h with h; injection h with h1 h2; subst h1; simp
  | case3 i h' rest st hge htr hne => injection h with h; injection h with h1 h2; subst h1; simp
  | case4 i h' rest st hge htr hne ih => exact ih h
  | case5 i h' rest st hge htr ih => exact ih h

theorem length_erase_le (l : List Nat) (a : Nat) : (l.erase a).length ≤ l.length :=
  (List.erase_sublist (a := a) (l := l)).length_le

theorem levelLoop_no_internal [DecidableEq H] (ops : HashOps H) (pick : List Nat → Nat) (f : Nat)
    (this : List Nat) (st : St H) {o : Outcome} {st' : St H}
    (h : levelLoop ops pick f this st = .error (o, st'))
    (hf : this.length ≤ f) (hp : ∀ i ∈ this, get st.t i ≠ none) : o = .badHash ∨ o = .notEnough ∨ o = .indexError := by
  fun_induction levelLoop ops pick f this st with
  | case1 => cases h
  | case2 => simp at hf
  | case3 f head tail st i this hi ih =>
    have hm : i ∈ head :: tail := popChoice_mem pick head tail
    apply ih h
    · have h1 : this.length = (head :: tail).length - 1 := List.length_erase_of_mem hm
      have h0 : (head :: tail).length = tail.length + 1 := rfl
      omega
    · intro j hj; exact hp j (List.mem_of_mem_erase hj)
  | case4 => injection h with h; injection h with h1 h2; subst h1; simp
  | case5 f head tail st i hi s hs hgs hgi =>
    exact absurd hgi (hp i (popChoice_mem pick head tail))
  | case6 => injection h with h; injection h with h1 h2; subst h1; simp
  | case7 f head tail st i this hi s hs hgs hi' hgi p np htr heq ih =>
    have hm : i ∈ head :: tail := popChoice_mem pick head tail
    apply ih h
    · have h1 : this.length = (head :: tail).length - 1 := List.length_erase_of_mem hm
      have h0 : (head :: tail).length = tail.length + 1 := rfl
      have h2 := length_erase_le this s
      omega
    · intro j hj; exact hp j (List.mem_of_mem_erase (List.mem_of_mem_erase hj))
  | case8 f head tail st i this hi s hs hgs hi' hgi p np htr ih =>
    have hm : i ∈ head :: tail := popChoice_mem pick head tail
    apply ih h
    · have h1 : this.length = (head :: tail).length - 1 := List.length_erase_of_mem hm
      have h0 : (head :: tail).length = tail.length + 1 := rfl
      have h2 := length_erase_le this s
      omega
    · intro j hj
      have hjp := hp j (List.mem_of_mem_erase (List.mem_of_mem_erase hj))
      by_cases e : p = j
      · subst e
        have hlt : p < st.t.length := lt_of_get_ne_none hjp
        simp [get_set_eq _ hlt]
      · simpa [get_set_ne _ e] using hjp

theorem mem_thisLevel {st : St H} {k i : Nat} : i ∈ thisLevel st k ↔ i ∈ st.red ∧ depthOf i = k := by
  unfold thisLevel; simp

theorem levelsLoop_no_internal [DecidableEq H] (ops : HashOps H) (pick : List Nat → Nat) (k : Nat) (st : St H)
    {o : Outcome} {st' : St H} (h : levelsLoop ops pick k st = .error (o, st'))
    (hp : ∀ i ∈ st.red, get st.t i ≠ none) : o = .badHash ∨ o = .notEnough ∨ o = .indexError := by
  induction k generalizing st with
  | zero => cases h
  | succ k ih =>
    unfold levelsLoop at h
    have hr := levelLoop_reach ops pick (thisLevel st k).length (thisLevel st k) st
    cases hres : levelLoop ops pick (thisLevel st k).length (thisLevel st k) st with
    | error e =>
      rw [hres] at h
      obtain ⟨o', st''⟩ := e
      injection h with h; injection h with h1 h2; subst h1
      exact levelLoop_no_internal ops pick _ _ st hres (Nat.le_refl _)
        (fun i hi => hp i (mem_thisLevel.mp hi).1)
    | ok st1 =>
      rw [hres] at h hr
      exact ih st1 h (hr.redPop hp)

theorem tryBody_no_internal [DecidableEq H] (ops : HashOps H) (pick : List Nat → Nat) (t : Tree H)
    (new : List (Nat × H)) {o : Outcome} {st' : St H} (h : tryBody ops pick t new = .error (o, st')) :
    o = .badHash ∨ o = .notEnough ∨ o = .indexError := by
  unfold tryBody at h
  have hr := provisional_reach ops new { t := t, red := [], rm := [] }
  cases hres : provisional ops new { t := t, red := [], rm := [] } with
  | error e =>
    rw [hres] at h; obtain ⟨o', st''⟩ := e
    injection h with h; injection h with h1 h2; subst h1
    exact provisional_no_internal ops new _ hres
  | ok st1 =>
    rw [hres] at h hr
    exact levelsLoop_no_internal ops pick _ st1 h (hr.redPop (by simp))

theorem rollInv_init (t : Tree H) : RollInv t { t := t, red := [], rm := [] } :=
  ⟨rfl, fun _ _ => rfl, by simp⟩

/-! ## unfolding `setHashes` -/

theorem setHashes_ok [DecidableEq H] {ops : HashOps H} {cfg : Cfg} {pick : List Nat → Nat} {first : Nat}
    {t : Tree H} {hashes leaves : List (Nat × H)} {t' : Tree H}
    (h : setHashes ops cfg pick first t hashes leaves = (.ok, t')) :
    ∃ new st, mergeLeaves first hashes leaves = some new ∧
      tryBody (ops.withCfg cfg) pick t new = .ok st ∧ st.t = t' := by
  unfold setHashes at h
  cases hm : mergeLeaves first hashes leaves with
  | none => rw [hm] at h; simp only at h; injection h with h1 h2; cases h1
  | some new =>
    rw [hm] at h; simp only at h
    cases hres : tryBody (ops.withCfg cfg) pick t new with
    | ok st =>
      rw [hres] at h; simp only at h; injection h with h1 h2
      exact ⟨new, st, rfl, hres, h2⟩
    | error e =>
      obtain ⟨o', st⟩ := e
      rw [hres] at h
      have hcls := tryBody_no_internal (ops.withCfg cfg) pick t new hres
      simp only at h
      split at h <;> (injection h with h1 h2; subst h1; simp at hcls)

theorem setHashes_ok_of [DecidableEq H] {ops : HashOps H} {cfg : Cfg} {pick : List Nat → Nat} {first : Nat}
    {t : Tree H} {hashes leaves new : List (Nat × H)} {st : St H}
    (hm : mergeLeaves first hashes leaves = some new)
    (hres : tryBody (ops.withCfg cfg) pick t new = .ok st) :
    setHashes ops cfg pick first t hashes leaves = (.ok, st.t) := by
  unfold setHashes; rw [hm]; simp only; rw [hres]

theorem setHashes_fail [DecidableEq H] {ops : HashOps H} {cfg : Cfg} {pick : List Nat → Nat} {first : Nat}
    {t : Tree H} {hashes leaves : List (Nat × H)} {o : Outcome} {t' : Tree H}
    (h : setHashes ops cfg pick first t hashes leaves = (o, t')) (hne : o ≠ .ok) :
    (mergeLeaves first hashes leaves = none ∧ t' = t) ∨
    ∃ new st, mergeLeaves first hashes leaves = some new ∧
      tryBody (ops.withCfg cfg) pick t new = .error (o, st) ∧
      (o = .badHash ∨ o = .notEnough ∨ o = .indexError) ∧
      t' = if o = .indexError ∧ cfg.catchIndex = false then st.t else rollback st.rm st.t := by
  unfold setHashes at h
  cases hm : mergeLeaves first hashes leaves with
  | none => rw [hm] at h; simp only at h; injection h with h1 h2; exact Or.inl ⟨rfl, h2.symm⟩
  | some new =>
    rw [hm] at h; simp only at h
    right
    cases hres : tryBody (ops.withCfg cfg) pick t new with
    | ok st => rw [hres] at h; simp only at h; injection h with h1 h2; exact absurd h1.symm hne
    | error e =>
      obtain ⟨o', st⟩ := e
      rw [hres] at h
      have hcls := tryBody_no_internal (ops.withCfg cfg) pick t new hres
      simp only at h
      by_cases hc : o' = .badHash ∨ o' = .notEnough ∨ (o' = .indexError ∧ cfg.catchIndex = true)
      · rw [if_pos hc] at h
        injection h with h1 h2; subst h1
        refine ⟨new, st, rfl, hres, hcls, ?_⟩
        have : ¬ (o' = .indexError ∧ cfg.catchIndex = false) := by
          intro ⟨e1, e2⟩
          rcases hc with e | e | e
          · rw [e1] at e; cases e
          · rw [e1] at e; cases e
          · rw [e.2] at e2; cases e2
        rw [if_neg this]; exact h2.symm
      · rw [if_neg hc] at h
        injection h with h1 h2; subst h1
        refine ⟨new, st, rfl, hres, hcls, ?_⟩
        have : o' = .indexError ∧ cfg.catchIndex = false := by
          rcases hcls with e | e | e
          · exact absurd (Or.inl e) hc
          · exact absurd (Or.inr (Or.inl e)) hc
          · refine ⟨e, ?_⟩
            cases hci : cfg.catchIndex with
            | false => rfl
            | true => exact absurd (Or.inr (Or.inr ⟨e, hci⟩)) hc
        rw [if_pos this]; exact h2.symm

end Tahoe.Base.Merkle
