import Tahoe.Base.Radix
/-
Byte strings and big-endian unsigned integers (Mathlib-free).

`be w n`     = the `w`-byte big-endian representation of `n` (`struct.pack(">L", n)` for `w = 4`,
               `">Q"` for `w = 8`, `">H"` for 2, `">B"` for 1) — for `n < 256^w`; the range check that
               `struct.pack` performs is `packU`.
`beVal b`    = `int.from_bytes(b, "big")` = what `struct.unpack` returns for an unsigned field.
`packS n b`  = a struct `"<n>s"` field: `b` truncated to `n` bytes or NUL-padded to `n` bytes.
-/
namespace Tahoe.Base

abbrev Bytes := List UInt8

/-- decidable equality of `Except` values (so that concrete decoder results can be checked by `decide`) -/
instance instDecEqExcept {ε α : Type} [DecidableEq ε] [DecidableEq α] : DecidableEq (Except ε α)
  | .ok a, .ok b => if h : a = b then isTrue (by rw [h]) else isFalse (by intro e; cases e; exact h rfl)
  | .error a, .error b => if h : a = b then isTrue (by rw [h]) else isFalse (by intro e; cases e; exact h rfl)
  | .ok _, .error _ => isFalse (by intro e; cases e)
  | .error _, .ok _ => isFalse (by intro e; cases e)

namespace Bytes

def ofNats (ds : List Nat) : Bytes := ds.map UInt8.ofNat
def toNats (b : Bytes) : List Nat := b.map UInt8.toNat

@[simp] theorem length_ofNats (ds : List Nat) : (ofNats ds).length = ds.length := by simp [ofNats]
@[simp] theorem length_toNats (b : Bytes) : (toNats b).length = b.length := by simp [toNats]

theorem toNats_lt (b : Bytes) : ∀ d ∈ toNats b, d < 256 := by
  intro d h
  simp only [toNats, List.mem_map] at h
  obtain ⟨x, _, rfl⟩ := h
  exact x.toNat_lt

theorem toNats_ofNats (ds : List Nat) (h : ∀ d ∈ ds, d < 256) : toNats (ofNats ds) = ds := by
  induction ds with
  | nil => rfl
  | cons d ds ih =>
    have hd := h d List.mem_cons_self
    simp only [toNats, ofNats, List.map_cons, List.map_map] at *
    rw [ih (fun x hx => h x (List.mem_cons_of_mem _ hx))]
    simp only [UInt8.toNat_ofNat', List.cons.injEq, and_true]
    omega

theorem ofNats_toNats (b : Bytes) : ofNats (toNats b) = b := by
  induction b with
  | nil => rfl
  | cons x xs ih =>
    simp only [toNats, ofNats, List.map_cons, List.map_map] at *
    rw [ih]; simp

/-- `w`-byte big-endian representation (of `n mod 256^w`) -/
def be (w n : Nat) : Bytes := ofNats (Radix.toBE 256 w n)

/-- big-endian value of a byte string -/
def beVal (b : Bytes) : Nat := Radix.ofBE 256 (toNats b)

@[simp] theorem length_be (w n : Nat) : (be w n).length = w := by simp [be]

/-- decode ∘ encode: `unpack(pack(n)) = n` for `n < 256^w` -/
theorem beVal_be {w n : Nat} (h : n < 256 ^ w) : beVal (be w n) = n := by
  simp only [beVal, be]
  rw [toNats_ofNats _ (Radix.toBE_lt (by decide) w n), Radix.ofBE_toBE_of_lt h]

/-- without the range guard the value is reduced modulo `256^w` -/
theorem beVal_be_mod (w n : Nat) : beVal (be w n) = n % 256 ^ w := by
  simp only [beVal, be]
  rw [toNats_ofNats _ (Radix.toBE_lt (by decide) w n), Radix.ofBE_toBE]

/-- encode ∘ decode: every `w`-byte string is the canonical encoding of its value -/
theorem be_beVal (b : Bytes) : be b.length (beVal b) = b := by
  simp only [beVal, be]
  have := Radix.toBE_ofBE (b := 256) (toNats b) (toNats_lt b)
  rw [length_toNats] at this
  rw [this, ofNats_toNats]

theorem beVal_lt (b : Bytes) : beVal b < 256 ^ b.length := by
  have := Radix.ofBE_lt (b := 256) (toNats b) (toNats_lt b)
  simpa [beVal] using this

theorem be_inj {w m n : Nat} (hm : m < 256 ^ w) (hn : n < 256 ^ w) (h : be w m = be w n) : m = n := by
  have := congrArg beVal h
  rwa [beVal_be hm, beVal_be hn] at this

theorem beVal_append (a b : Bytes) : beVal (a ++ b) = beVal a * 256 ^ b.length + beVal b := by
  simp [beVal, toNats, Radix.ofBE_append]

/-- `struct.pack` of an unsigned big-endian field of `w` bytes: `struct.error` (here `none`) unless
    `0 ≤ n < 256^w` -/
def packU (w : Nat) (n : Int) : Option Bytes :=
  if 0 ≤ n ∧ n.toNat < 256 ^ w then some (be w n.toNat) else none

/-- a struct `"<n>s"` field: truncate or NUL-pad to exactly `n` bytes (what `struct.pack` does) -/
def packS (n : Nat) (b : Bytes) : Bytes := b.take n ++ List.replicate (n - b.length) 0

@[simp] theorem length_packS (n : Nat) (b : Bytes) : (packS n b).length = n := by
  simp [packS]; omega

theorem packS_of_length {n : Nat} {b : Bytes} (h : b.length = n) : packS n b = b := by
  simp [packS, ← h]

/-- `b[off : off+len]` (Python slice semantics for non-negative bounds) -/
def slice (b : Bytes) (off len : Nat) : Bytes := (b.drop off).take len

theorem slice_append_left (a b : Bytes) : slice (a ++ b) 0 a.length = a := by
  simp [slice]

theorem slice_append_right (a b : Bytes) (n : Nat) : slice (a ++ b) a.length n = b.take n := by
  simp [slice]

abbrev u32Max : Nat := 4294967295

theorem pow_256_4 : 256 ^ 4 = 4294967296 := by decide
theorem pow_256_8 : 256 ^ 8 = 18446744073709551616 := by decide

end Bytes
end Tahoe.Base
