/-
Driver utilities (Mathlib-free): line loop, hex codecs, small parsers.
Every driver `lean/Drv/Cxx.lean` is `def main := Tahoe.Drv.mainLoop handle` with
`handle : List String → String` receiving the space-separated tokens of one input line.
A line the driver cannot parse must produce an output starting with `bad-op`.
-/
namespace Tahoe.Drv

abbrev Bytes := List UInt8

def hexDigit (n : Nat) : Char :=
  if n < 10 then Char.ofNat (48 + n) else Char.ofNat (87 + n)

def hexOfBytes (b : Bytes) : String :=
  if b.isEmpty then "-" else
  String.ofList (b.foldr (fun x acc => hexDigit (x.toNat / 16) :: hexDigit (x.toNat % 16) :: acc) [])

def hexVal (c : Char) : Option Nat :=
  if '0' ≤ c ∧ c ≤ '9' then some (c.toNat - 48)
  else if 'a' ≤ c ∧ c ≤ 'f' then some (c.toNat - 87)
  else if 'A' ≤ c ∧ c ≤ 'F' then some (c.toNat - 55)
  else none

def bytesOfHexChars : List Char → Option Bytes
  | [] => some []
  | [_] => none
  | a :: b :: rest => do
      let x ← hexVal a
      let y ← hexVal b
      let r ← bytesOfHexChars rest
      pure (UInt8.ofNat (16 * x + y) :: r)

/-- `-` is the empty byte string. -/
def bytesOfHex (s : String) : Option Bytes :=
  if s == "-" then some [] else bytesOfHexChars s.toList

def showNatList (l : List Nat) : String := ",".intercalate (l.map toString)

def parseNatList (s : String) : Option (List Nat) :=
  if s == "-" then some [] else (s.splitOn ",").mapM String.toNat?

def parseInt? (s : String) : Option Int := s.toInt?

def splitTokens (line : String) : List String :=
  (line.splitOn " ").filter (fun t => !t.isEmpty)

partial def loop (h : IO.FS.Stream) (out : IO.FS.Stream) (handle : List String → String) : IO Unit := do
  let line ← h.getLine
  if line.isEmpty then return ()
  let l := (line.dropEndWhile (fun c => c == '\n' || c == '\r')).toString
  out.putStrLn (handle (splitTokens l))
  loop h out handle

def mainLoop (handle : List String → String) : IO Unit := do
  let stdin ← IO.getStdin
  let stdout ← IO.getStdout
  loop stdin stdout handle
  stdout.flush

end Tahoe.Drv
