/-
Tahoe.Base.File — a file as a list of bytes with POSIX-style positional read / write / truncate,
and big-endian fixed-width integer packing (`struct.pack(">L")`, `">Q"`).  Mathlib-free.

Design (DESIGN.md Appendix A.3): every container proof reduces to the five splice lemmas
`pread_pwrite_eq`, `pread_pwrite_lt`, `pread_pwrite_gt`, `length_pwrite`, `pwrite_pwrite_comm`
plus `omega`.  All of them are derived from ONE pointwise characterisation (`getElem?_splice`,
`getElem?_pread`), so a new lemma about byte layouts is normally `apply List.ext_getElem?` followed
by `simp [getElem?_pwrite, getElem?_pread]` and `omega`/`grind`.

Python correspondence:
* `f.seek(off); f.read(len)`         = `pread f off len`  (short read at EOF: fewer bytes, never an error)
* `f.seek(off); f.write(d)`          = `pwrite f off d`   (gap between EOF and `off` is zero-filled;
                                         a zero-length write never changes the file, even past EOF)
* `f.truncate(n)`                    = `truncate f n`     (shrinks, or extends with zeros)
* `bytearray` splice with zero fill  = `splice f off d`   (like `pwrite`, but an EMPTY `d` past the end
                                         still zero-extends to `off`; used as the abstract "growable
                                         byte array" write of the C23 statement)
-/
namespace Tahoe.Base.File

abbrev Bytes := List UInt8
abbrev File := List UInt8

/-- `b'\x00' * n` -/
def zeros (n : Nat) : Bytes := List.replicate n 0

/-- positional read; clipped at end of file -/
def pread (f : File) (off len : Nat) : Bytes := (f.drop off).take len

/-- byte-array splice with zero extension: result has length `max f.length (off + d.length)` -/
def splice (f : File) (off : Nat) (d : Bytes) : File :=
  (f ++ zeros (off - f.length)).take off ++ d ++ f.drop (off + d.length)

/-- positional write (POSIX `pwrite`): a zero-length write is a no-op -/
def pwrite (f : File) (off : Nat) (d : Bytes) : File :=
  if d.length = 0 then f else splice f off d

/-- `ftruncate` -/
def truncate (f : File) (n : Nat) : File := f.take n ++ zeros (n - f.length)

/-! ### lengths -/

@[simp] theorem length_zeros (n : Nat) : (zeros n).length = n := by simp [zeros]

theorem length_pread (f : File) (off len : Nat) :
    (pread f off len).length = min len (f.length - off) := by
  simp [pread]

theorem length_pread_of_le (f : File) (off len : Nat) (h : off + len ≤ f.length) :
    (pread f off len).length = len := by
  rw [length_pread]; omega

theorem length_splice (f : File) (off : Nat) (d : Bytes) :
    (splice f off d).length = max f.length (off + d.length) := by
  simp [splice]; omega

/-- A.3 `length_pwrite` -/
theorem length_pwrite (f : File) (off : Nat) (d : Bytes) :
    (pwrite f off d).length = if d.length = 0 then f.length else max f.length (off + d.length) := by
  unfold pwrite; split <;> simp_all [length_splice]

theorem length_pwrite_ge (f : File) (off : Nat) (d : Bytes) : f.length ≤ (pwrite f off d).length := by
  rw [length_pwrite]; split <;> omega

theorem length_pwrite_of_le (f : File) (off : Nat) (d : Bytes) (h : off + d.length ≤ f.length) :
    (pwrite f off d).length = f.length := by
  rw [length_pwrite]; split <;> omega

theorem length_truncate (f : File) (n : Nat) : (truncate f n).length = n := by
  simp [truncate]; omega

/-! ### pointwise characterisation -/

theorem getElem?_zeros (n i : Nat) : (zeros n)[i]? = if i < n then some 0 else none := by
  simp [zeros, List.getElem?_replicate]

theorem getElem?_pread (f : File) (off len i : Nat) :
    (pread f off len)[i]? = if i < len then f[off + i]? else none := by
  simp [pread, List.getElem?_take, List.getElem?_drop]

/-- the master lemma: byte `i` of a splice -/
theorem getElem?_splice (f : File) (off : Nat) (d : Bytes) (i : Nat) :
    (splice f off d)[i]? =
      if i < off then (if i < f.length then f[i]? else some 0)
      else if i < off + d.length then d[i - off]?
      else f[i]? := by
  simp only [splice, List.append_assoc]
  by_cases h1 : i < off
  · rw [List.getElem?_append_left (by simp; omega)]
    simp only [h1, if_true, List.getElem?_take]
    by_cases h2 : i < f.length
    · simp [h2, List.getElem?_append_left h2]
    · simp only [h2, if_false]
      rw [List.getElem?_append_right (by omega), getElem?_zeros]; simp; omega
  · have hl : ((f ++ zeros (off - f.length)).take off).length = off := by simp; omega
    rw [List.getElem?_append_right (by omega), hl]
    simp only [h1, if_false]
    by_cases h2 : i < off + d.length
    · simp only [h2, if_true]
      rw [List.getElem?_append_left (by omega)]
    · simp only [h2, if_false]
      rw [List.getElem?_append_right (by omega), List.getElem?_drop]
      congr 1; omega

theorem getElem?_pwrite (f : File) (off : Nat) (d : Bytes) (i : Nat) :
    (pwrite f off d)[i]? =
      if d.length = 0 then f[i]?
      else if i < off then (if i < f.length then f[i]? else some 0)
      else if i < off + d.length then d[i - off]?
      else f[i]? := by
  unfold pwrite; split
  · rfl
  · rw [getElem?_splice]

theorem getElem?_truncate (f : File) (n i : Nat) :
    (truncate f n)[i]? = if i < n then (if i < f.length then f[i]? else some 0) else none := by
  simp only [truncate]
  by_cases h1 : i < n
  · by_cases h2 : i < f.length
    · rw [List.getElem?_append_left (by simp; omega)]; simp [h1, h2]
    · rw [List.getElem?_append_right (by simp; omega), getElem?_zeros]; simp [h1, h2]; omega
  · have : (f.take n ++ zeros (n - f.length)).length ≤ i := by simp; omega
    simp [h1, List.getElem?_eq_none this]

/-! ### the five splice lemmas of Appendix A.3 -/

/-- A.3 `pread_pwrite_eq`: reading exactly what was just written -/
theorem pread_pwrite_eq (f : File) (off : Nat) (d : Bytes) :
    pread (pwrite f off d) off d.length = d := by
  apply List.ext_getElem?; intro i
  rw [getElem?_pread, getElem?_pwrite]
  by_cases h : i < d.length
  · have h0 : d.length ≠ 0 := by omega
    have h1 : ¬ (off + i < off) := by omega
    have h2 : off + i < off + d.length := by omega
    simp [h, h0, h1, h2]
  · simp [h]

/-- A.3 `pread_pwrite_lt`: a read entirely below the written range (and inside the old file) is unchanged -/
theorem pread_pwrite_lt (f : File) (off : Nat) (d : Bytes) (o n : Nat)
    (h : o + n ≤ off) (hf : o + n ≤ f.length) :
    pread (pwrite f off d) o n = pread f o n := by
  apply List.ext_getElem?; intro i
  rw [getElem?_pread, getElem?_pread, getElem?_pwrite]
  by_cases hi : i < n
  · have h1 : o + i < off := by omega
    have h2 : o + i < f.length := by omega
    simp [hi, h1, h2]
  · simp [hi]

/-- A.3 `pread_pwrite_gt`: a read entirely above the written range is unchanged -/
theorem pread_pwrite_gt (f : File) (off : Nat) (d : Bytes) (o n : Nat)
    (h : off + d.length ≤ o) :
    pread (pwrite f off d) o n = pread f o n := by
  apply List.ext_getElem?; intro i
  rw [getElem?_pread, getElem?_pread, getElem?_pwrite]
  by_cases hi : i < n
  · have h1 : ¬ (o + i < off) := by omega
    have h2 : ¬ (o + i < off + d.length) := by omega
    simp [hi, h1, h2]
  · simp [hi]

/-- bytes in the gap between the old end of file and the write offset read as zeros -/
theorem pread_pwrite_gap (f : File) (off : Nat) (d : Bytes) (o n : Nat)
    (hd : d.length ≠ 0) (h1 : f.length ≤ o) (h2 : o + n ≤ off) :
    pread (pwrite f off d) o n = zeros n := by
  apply List.ext_getElem?; intro i
  rw [getElem?_pread, getElem?_pwrite, getElem?_zeros]
  by_cases hi : i < n
  · have a : o + i < off := by omega
    have b : ¬ (o + i < f.length) := by omega
    simp [hi, hd, a, b]
  · simp [hi]

/-- A.3 `pwrite_pwrite_comm`: writes to disjoint ranges commute -/
theorem pwrite_pwrite_comm (f : File) (a : Nat) (da : Bytes) (b : Nat) (db : Bytes)
    (h : a + da.length ≤ b) :
    pwrite (pwrite f a da) b db = pwrite (pwrite f b db) a da := by
  apply List.ext_getElem?; intro i
  simp only [getElem?_pwrite, length_pwrite]
  by_cases ha : da.length = 0 <;> by_cases hb : db.length = 0 <;> simp only [ha, hb, if_true, if_false]
  by_cases h1 : i < a
  · have : i < b := by omega
    simp only [h1, this, if_true]
    by_cases h2 : i < f.length
    · have : i < max f.length (a + da.length) := by omega
      have : i < max f.length (b + db.length) := by omega
      simp [*]
    · by_cases h3 : i < max f.length (a + da.length) <;> by_cases h4 : i < max f.length (b + db.length)
        <;> simp [*]
      all_goals omega
  · by_cases h2 : i < a + da.length
    · have : i < b := by omega
      have : i < max f.length (a + da.length) := by omega
      simp [*]
    · by_cases h3 : i < b
      · simp only [h1, h2, h3, if_true, if_false]
        by_cases h4 : i < max f.length (a + da.length) <;> by_cases h5 : i < f.length <;> simp [*]
        all_goals omega
      · simp [*]

/-- overwriting a range with what it already holds changes nothing -/
theorem pwrite_pread_self (f : File) (off n : Nat) (h : off + n ≤ f.length) :
    pwrite f off (pread f off n) = f := by
  apply List.ext_getElem?; intro i
  have hl := length_pread_of_le f off n h
  rw [getElem?_pwrite, hl, getElem?_pread]
  by_cases h0 : n = 0
  · simp [h0]
  · by_cases h1 : i < off
    · have : i < f.length := by omega
      simp [*]
    · by_cases h2 : i < off + n
      · have : i - off < n := by omega
        have e : off + (i - off) = i := by omega
        simp [*]
      · simp [*]

/-- a later write to the same range wins -/
theorem pwrite_pwrite_same (f : File) (off : Nat) (d e : Bytes) (h : d.length = e.length) :
    pwrite (pwrite f off d) off e = pwrite f off e := by
  apply List.ext_getElem?; intro i
  simp only [getElem?_pwrite, length_pwrite, h]
  by_cases h0 : e.length = 0 <;> simp only [h0, if_true, if_false]
  by_cases h1 : i < off
  · by_cases h2 : i < f.length
    · have : i < max f.length (off + e.length) := by omega
      simp [*]
    · by_cases h3 : i < max f.length (off + e.length) <;> simp [*]
  · by_cases h2 : i < off + e.length <;> simp [*]

theorem pread_zero (f : File) (off : Nat) : pread f off 0 = [] := by simp [pread]

theorem pread_all (f : File) : pread f 0 f.length = f := by simp [pread]

/-- splitting a read -/
theorem pread_append (f : File) (off a b : Nat) :
    pread f off (a + b) = pread f off a ++ pread f (off + a) b := by
  simp only [pread]
  rw [List.take_add, List.drop_drop]

/-- a read of a read -/
theorem pread_pread (f : File) (off len o n : Nat) (h : o + n ≤ len) :
    pread (pread f off len) o n = pread f (off + o) n := by
  apply List.ext_getElem?; intro i
  simp only [getElem?_pread]
  by_cases hi : i < n
  · have : o + i < len := by omega
    simp [hi, this, Nat.add_assoc]
  · simp [hi]

/-- pointwise form of an in-file write (no length change, no zero fill) -/
theorem getElem?_pwrite_of_le (f : File) (off : Nat) (d : Bytes) (i : Nat) (h : off + d.length ≤ f.length) :
    (pwrite f off d)[i]? = if off ≤ i ∧ i < off + d.length then d[i - off]? else f[i]? := by
  rw [getElem?_pwrite]
  by_cases h0 : d.length = 0
  · have : ¬ (off ≤ i ∧ i < off + d.length) := by omega
    rw [if_pos h0, if_neg this]
  · by_cases h1 : i < off
    · have a : i < f.length := by omega
      have b : ¬ (off ≤ i ∧ i < off + d.length) := by omega
      simp [h0, h1, a, b]
    · by_cases h2 : i < off + d.length
      · have b : off ≤ i ∧ i < off + d.length := by omega
        simp [h0, h1, h2]
      · have b : ¬ (off ≤ i ∧ i < off + d.length) := by omega
        simp [h0, h1, h2]

/-- a read disjoint from the written range is unchanged (both directions in one lemma) -/
theorem pread_pwrite_disj (f : File) (off : Nat) (d : Bytes) (o n : Nat)
    (h : (o + n ≤ off ∧ o + n ≤ f.length) ∨ off + d.length ≤ o) :
    pread (pwrite f off d) o n = pread f o n := by
  rcases h with ⟨h1, h2⟩ | h
  · exact pread_pwrite_lt f off d o n h1 h2
  · exact pread_pwrite_gt f off d o n h

/-- reading a sub-range of what was just written -/
theorem pread_pwrite_sub (f : File) (off : Nat) (d : Bytes) (o n : Nat)
    (h1 : off ≤ o) (h2 : o + n ≤ off + d.length) :
    pread (pwrite f off d) o n = pread d (o - off) n := by
  apply List.ext_getElem?; intro i
  rw [getElem?_pread, getElem?_pread, getElem?_pwrite]
  by_cases hi : i < n
  · have a : d.length ≠ 0 := by omega
    have b : ¬ (o + i < off) := by omega
    have c : o + i < off + d.length := by omega
    have e : o + i - off = o - off + i := by omega
    simp [hi, a, b, c, e]
  · simp [hi]

theorem pread_of_length_le (f : File) (off len : Nat) (h : f.length ≤ off) : pread f off len = [] := by
  simp [pread, List.drop_eq_nil_of_le h]

theorem pread_zeros (n o m : Nat) (h : o + m ≤ n) : pread (zeros n) o m = zeros m := by
  apply List.ext_getElem?; intro i
  rw [getElem?_pread, getElem?_zeros, getElem?_zeros]
  by_cases hi : i < m
  · have : o + i < n := by omega
    simp [hi, this]
  · simp [hi]

theorem pread_append_of_le (a b : Bytes) (off len : Nat) (h : a.length ≤ off) :
    pread (a ++ b) off len = pread b (off - a.length) len := by
  simp only [pread, List.drop_append, List.drop_eq_nil_of_le h, List.nil_append]

theorem pread_append_prefix (a b : Bytes) (len : Nat) (h : len = a.length) :
    pread (a ++ b) 0 len = a := by
  subst h; simp [pread]

theorem pread_zero_eq_take (f : File) (n : Nat) : pread f 0 n = f.take n := by simp [pread]

/-! ### big-endian fixed-width integers (`struct.pack(">L", n)`, `">Q"`) -/

/-- `n` as `w` big-endian bytes (value taken mod `256^w`; Python raises `struct.error` instead when
    `n ≥ 256^w` — callers that model such a call must guard it) -/
def packBE : (w : Nat) → (n : Nat) → Bytes
  | 0, _ => []
  | w + 1, n => packBE w (n / 256) ++ [UInt8.ofNat (n % 256)]

/-- big-endian bytes to number (any length) -/
def unpackBE (b : Bytes) : Nat := b.foldl (fun acc x => acc * 256 + x.toNat) 0

@[simp] theorem length_packBE (w n : Nat) : (packBE w n).length = w := by
  induction w generalizing n with
  | zero => simp [packBE]
  | succ w ih => simp [packBE, ih]

theorem unpackBE_append_singleton (b : Bytes) (x : UInt8) :
    unpackBE (b ++ [x]) = unpackBE b * 256 + x.toNat := by
  simp [unpackBE, List.foldl_append]

theorem unpackBE_packBE (w n : Nat) : unpackBE (packBE w n) = n % 256 ^ w := by
  induction w generalizing n with
  | zero => simp [packBE, unpackBE, Nat.mod_one]
  | succ w ih =>
    rw [packBE, unpackBE_append_singleton, ih]
    have h256 : (UInt8.ofNat (n % 256)).toNat = n % 256 := by
      simp [UInt8.toNat_ofNat']
    rw [h256, Nat.pow_succ, Nat.mul_comm (256 ^ w) 256, Nat.mod_mul]
    generalize n / 256 % 256 ^ w = t
    omega

theorem unpackBE_packBE_of_lt (w n : Nat) (h : n < 256 ^ w) : unpackBE (packBE w n) = n := by
  rw [unpackBE_packBE, Nat.mod_eq_of_lt h]

/-- induction from the right end of a list -/
theorem snoc_induction {α : Type} {P : List α → Prop} (hnil : P [])
    (hsnoc : ∀ b x, P b → P (b ++ [x])) : ∀ b, P b := by
  have h : ∀ b : List α, P b.reverse := by
    intro b
    induction b with
    | nil => simpa using hnil
    | cons x b ih => simpa using hsnoc _ x ih
  intro b
  simpa using h b.reverse

theorem unpackBE_lt (b : Bytes) : unpackBE b < 256 ^ b.length := by
  induction b using snoc_induction with
  | hnil => simp [unpackBE]
  | hsnoc b x ih =>
    rw [unpackBE_append_singleton, List.length_append, List.length_singleton, Nat.pow_succ]
    have := x.toNat_lt
    omega

/-- packing is canonical: re-packing an unpacked field gives back the same bytes -/
theorem packBE_unpackBE (b : Bytes) : packBE b.length (unpackBE b) = b := by
  induction b using snoc_induction with
  | hnil => simp [packBE]
  | hsnoc b x ih =>
    rw [unpackBE_append_singleton, List.length_append, List.length_singleton, packBE]
    have hx := x.toNat_lt
    have h1 : (unpackBE b * 256 + x.toNat) / 256 = unpackBE b := by omega
    have h2 : (unpackBE b * 256 + x.toNat) % 256 = x.toNat := by omega
    rw [h1, h2, ih]; simp

/-- `struct.pack(">L", n)` (for `n < 2^32`) -/
def packU32 (n : Nat) : Bytes := packBE 4 n
/-- `struct.pack(">Q", n)` (for `n < 2^64`) -/
def packU64 (n : Nat) : Bytes := packBE 8 n

@[simp] theorem length_packU32 (n : Nat) : (packU32 n).length = 4 := by simp [packU32]
@[simp] theorem length_packU64 (n : Nat) : (packU64 n).length = 8 := by simp [packU64]

theorem unpackBE_packU32 (n : Nat) (h : n < 2 ^ 32) : unpackBE (packU32 n) = n :=
  unpackBE_packBE_of_lt 4 n (by omega)

theorem unpackBE_packU64 (n : Nat) (h : n < 2 ^ 64) : unpackBE (packU64 n) = n :=
  unpackBE_packBE_of_lt 8 n (by omega)

theorem packU32_unpackBE (b : Bytes) (h : b.length = 4) : packU32 (unpackBE b) = b := by
  rw [packU32, ← h, packBE_unpackBE]

theorem packU64_unpackBE (b : Bytes) (h : b.length = 8) : packU64 (unpackBE b) = b := by
  rw [packU64, ← h, packBE_unpackBE]

theorem packBE_inj (w a b : Nat) (ha : a < 256 ^ w) (hb : b < 256 ^ w) (h : packBE w a = packBE w b) : a = b := by
  have := congrArg unpackBE h
  rwa [unpackBE_packBE_of_lt w a ha, unpackBE_packBE_of_lt w b hb] at this

example : packU32 0x01020304 = [1, 2, 3, 4] := by decide
example : unpackBE [1, 2, 3, 4] = 0x01020304 := by decide
example : pwrite [1, 2] 4 [9] = [1, 2, 0, 0, 9] := by decide
example : pwrite [1, 2] 4 [] = [1, 2] := by decide
example : splice [1, 2] 4 [] = [1, 2, 0, 0] := by decide
example : pread [1, 2, 3] 1 5 = [2, 3] := by decide

end Tahoe.Base.File
