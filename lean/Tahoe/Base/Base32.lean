import Tahoe.Base.Bytes
/-
Base32 (`allmydata/util/base32.py`), Mathlib-free.

`b2a os`   = `base64.b32encode(os).rstrip(b"=").lower()`: the bit string of `os`, zero-padded to a
             multiple of 5 bits, read as big-endian base-32 digits over `abcdefghijklmnopqrstuvwxyz234567`.
             Modelled arithmetically: with `q = ⌈8n/5⌉` quintets the digits are those of
             `beVal os * 2^(5q-8n)` in radix 32.
`couldBe`  = `could_be_base32_encoded`: legitimate length modulo 8, every character in the alphabet,
             and the last character has its padding bits clear.  The table `s8` of the code checks
             `padBits - 1` bits only (`4-(bits%5)` where `5-(bits%5)` is meant); `slack = 1` models
             that table, `slack = 0` the corrected one.
`a2b`      = `a2b`: the precondition, then `base64.b32decode` (which ignores the padding bits).
-/
namespace Tahoe.Base.Base32
open Tahoe.Base Tahoe.Base.Bytes

/-- character of a 5-bit value: `a`..`z` then `2`..`7` -/
def charOf (v : Nat) : UInt8 := if v < 26 then UInt8.ofNat (97 + v) else UInt8.ofNat (24 + v)

/-- value of a character of the alphabet -/
def valOf (c : UInt8) : Option Nat :=
  if 97 ≤ c.toNat ∧ c.toNat ≤ 122 then some (c.toNat - 97)
  else if 50 ≤ c.toNat ∧ c.toNat ≤ 55 then some (c.toNat - 24)
  else none

def alphabet : Bytes := (List.range 32).map charOf

/-- number of quintets that encode `n` octets (`NUM_OS_TO_NUM_QS` extended periodically) -/
def numQuintets (n : Nat) : Nat := (8 * n + 4) / 5

/-- number of octets encoded by `q` quintets (`NUM_QS_TO_NUM_OS`) -/
def numOctets (q : Nat) : Nat := 5 * q / 8

/-- zero bits appended by the encoder to fill the last quintet -/
def padBits (q : Nat) : Nat := 5 * q % 8

/-- `NUM_QS_LEGIT[q % 8]` -/
def legitLen (q : Nat) : Bool := q % 8 == 0 || q % 8 == 2 || q % 8 == 4 || q % 8 == 5 || q % 8 == 7

/-- `b2a` -/
def b2a (os : Bytes) : Bytes :=
  let q := numQuintets os.length
  (Radix.toBE 32 q (beVal os * 2 ^ (5 * q - 8 * os.length))).map charOf

def vals (cs : Bytes) : List Nat := cs.map (fun c => (valOf c).getD 0)

/-- `could_be_base32_encoded`; `slack` = number of padding bits the trailing-character table fails
    to check (1 in the code as it is, 0 once corrected) -/
def couldBe (slack : Nat) (cs : Bytes) : Bool :=
  match cs.getLast? with
  | none => true
  | some last =>
    legitLen cs.length
    && (match valOf last with
        | some v => v % 2 ^ (padBits cs.length - slack) == 0
        | none => false)
    && cs.all (fun c => (valOf c).isSome)

/-- what `base64.b32decode` returns for an input that passed the precondition -/
def decode (cs : Bytes) : Bytes :=
  be (numOctets cs.length) (Radix.ofBE 32 (vals cs) / 2 ^ padBits cs.length)

/-- `a2b`; `none` = the precondition's `AssertionError` -/
def a2b (slack : Nat) (cs : Bytes) : Option Bytes :=
  if couldBe slack cs then some (decode cs) else none

end Tahoe.Base.Base32
