import Tahoe.Base.Base62
/-! Round trip of the base62 model, and canonicity of the checked decoder `a2bStrict`. -/
namespace Tahoe.Base.Base62
open Tahoe.Base Tahoe.Base.Bytes

theorem translate_charOf : ∀ d, d < 62 → translate (charOf d) = d := by decide

theorem map_translate_charOf (ds : List Nat) (h : ∀ d ∈ ds, d < 62) :
    (ds.map charOf).map translate = ds := by
  induction ds with
  | nil => rfl
  | cons d ds ih =>
    have := ih (fun x hx => h x (List.mem_cons_of_mem _ hx))
    simp only [List.map_cons, translate_charOf d (h d List.mem_cons_self), this]

/-- the loop `while nv > 0: nv //= b` runs long enough for `b^count` to exceed `nv` -/
theorem lt_pow_countDiv {b : Nat} (hb : 2 ≤ b) : ∀ (f nv : Nat), nv < b ^ f → nv < b ^ countDiv b f nv
  | 0, nv, h => by simpa [countDiv] using h
  | f + 1, nv, h => by
    simp only [countDiv]
    split
    · have hlt : nv / b < b ^ f := by
        rw [Nat.div_lt_iff_lt_mul (by omega)]; rwa [Nat.pow_succ] at h
      have ih := lt_pow_countDiv hb f (nv / b) hlt
      rw [Nat.add_comm, Nat.pow_succ]
      exact (Nat.div_lt_iff_lt_mul (by omega)).mp ih
    · simp only [Nat.pow_zero]; omega

/-- … and not longer: `b^(count-1) ≤ nv` -/
theorem pow_countDiv_le {b : Nat} (hb : 2 ≤ b) : ∀ (f nv : Nat), 0 < nv → nv < b ^ f →
    b ^ (countDiv b f nv - 1) ≤ nv
  | 0, nv, h0, h => by simp at h; omega
  | f + 1, nv, h0, h => by
    simp only [countDiv, gt_iff_lt, h0, ↓reduceIte, Nat.add_sub_cancel_left]
    by_cases hz : nv / b = 0
    · have : countDiv b f (nv / b) = 0 := by rw [hz]; cases f <;> simp [countDiv]
      rw [this, Nat.pow_zero]; omega
    · have hpos : 0 < nv / b := Nat.pos_of_ne_zero hz
      have hlt : nv / b < b ^ f := by
        rw [Nat.div_lt_iff_lt_mul (by omega)]; rwa [Nat.pow_succ] at h
      have ih := pow_countDiv_le hb f (nv / b) hpos hlt
      have hc : 1 ≤ countDiv b f (nv / b) := by
        cases f with
        | zero => rw [Nat.pow_zero] at hlt; omega
        | succ f => simp only [countDiv, gt_iff_lt, hpos, ↓reduceIte]; omega
      calc b ^ countDiv b f (nv / b) = b ^ (countDiv b f (nv / b) - 1 + 1) := by congr 1; omega
        _ = b ^ (countDiv b f (nv / b) - 1) * b := by rw [Nat.pow_succ]
        _ ≤ (nv / b) * b := Nat.mul_le_mul_right _ ih
        _ ≤ nv := Nat.div_mul_le_self nv b

theorem logFloorLoop_eq {b n : Nat} (hb : 2 ≤ b) : ∀ (k f p : Nat), 0 < p → k < f →
    p * b ^ k ≤ n → n < p * b ^ (k + 1) → logFloorLoop b n f p = k + 1
  | 0, f, p, hp, hf, h1, h2 => by
    cases f with
    | zero => omega
    | succ f =>
      simp only [Nat.pow_zero, Nat.mul_one, Nat.zero_add, Nat.pow_one] at h1 h2
      simp only [logFloorLoop, h1, ↓reduceIte]
      cases f with
      | zero => simp [logFloorLoop]
      | succ f => simp only [logFloorLoop]; rw [if_neg (by omega)]
  | k + 1, f, p, hp, hf, h1, h2 => by
    cases f with
    | zero => omega
    | succ f =>
      have hbk : 1 ≤ b ^ (k + 1) := Nat.pow_pos (by omega)
      have hpn : p ≤ n := Nat.le_trans (by simpa using Nat.mul_le_mul_left p hbk) h1
      simp only [logFloorLoop, hpn, ↓reduceIte]
      have := logFloorLoop_eq hb k f (p * b) (Nat.mul_pos hp (by omega)) (by omega)
        (by rw [Nat.mul_assoc, ← Nat.pow_succ']; exact h1)
        (by rw [Nat.mul_assoc, ← Nat.pow_succ']; exact h2)
      rw [this]; omega

/-- `log_floor(n, b) = k` whenever `b^k ≤ n < b^(k+1)` -/
theorem logFloor_eq {b n k : Nat} (hb : 2 ≤ b) (h1 : b ^ k ≤ n) (h2 : n < b ^ (k + 1)) : logFloor n b = k := by
  have hk : k < n + 1 := by
    have : k < b ^ k := Nat.lt_of_lt_of_le Nat.lt_two_pow_self (Nat.pow_le_pow_left hb k)
    omega
  simp only [logFloor]
  rw [logFloorLoop_eq hb k (n + 1) 1 (by decide) hk (by simpa using h1) (by simpa using h2)]
  omega

theorem countDiv1_pow256 : ∀ (k f : Nat), k < f → countDiv1 256 f (256 ^ k) = k
  | 0, f, _ => by cases f <;> simp [countDiv1]
  | k + 1, f, h => by
    cases f with
    | zero => omega
    | succ f =>
      have h1 : 256 ^ (k + 1) > 1 := by
        have : 1 ≤ 256 ^ k := Nat.pow_pos (by decide)
        rw [Nat.pow_succ]; omega
      simp only [countDiv1, h1, ↓reduceIte]
      rw [Nat.pow_succ, Nat.mul_div_cancel _ (by decide), countDiv1_pow256 k f (by omega)]
      omega

theorem fuel_ok (n : Nat) : 256 ^ n < 62 ^ (8 * n + 1) := by
  have h1 : 256 ^ n = 2 ^ (8 * n) := by
    rw [show (256 : Nat) = 2 ^ 8 from rfl, ← Nat.pow_mul]
  have h2 : 2 ^ (8 * n) < 2 ^ (8 * n + 1) := Nat.pow_lt_pow_right (by decide) (by omega)
  have h3 : 2 ^ (8 * n + 1) ≤ 62 ^ (8 * n + 1) := Nat.pow_le_pow_left (by decide) _
  omega

theorem pow256_lt_pow62_numChars (n : Nat) : 256 ^ n < 62 ^ numChars n :=
  lt_pow_countDiv (by decide) _ _ (fuel_ok n)

/-- the decoder recovers the number of octets from the number of characters -/
theorem numOctets_numChars (n : Nat) : numOctets (numChars n) = n := by
  have hpos : 0 < 256 ^ n := Nat.pow_pos (by decide)
  have h1 := pow256_lt_pow62_numChars n
  have h2 : 62 ^ (numChars n - 1) ≤ 256 ^ n := pow_countDiv_le (by decide) _ _ hpos (fuel_ok n)
  have hc : 1 ≤ numChars n := by
    rcases Nat.eq_zero_or_pos (numChars n) with h0 | h0
    · rw [h0] at h1; simp at h1 <;> omega
    · exact h0
  apply logFloor_eq (by decide) (Nat.le_of_lt h1)
  calc 62 ^ numChars n = 62 ^ (numChars n - 1 + 1) := by congr 1; omega
    _ = 62 ^ (numChars n - 1) * 62 := by rw [Nat.pow_succ]
    _ ≤ 256 ^ n * 62 := Nat.mul_le_mul_right _ h2
    _ < 256 ^ n * 256 := Nat.mul_lt_mul_of_pos_left (by decide) hpos
    _ = 256 ^ (n + 1) := by rw [Nat.pow_succ]

@[simp] theorem length_b2a (os : Bytes) : (b2a os).length = numChars os.length := by simp [b2a]

/-- **decode ∘ encode** -/
theorem a2b_b2a (os : Bytes) : a2b (b2a os) = os := by
  have hV := beVal_lt os
  have hlt : beVal os < 62 ^ numChars os.length := Nat.lt_trans hV (pow256_lt_pow62_numChars _)
  simp only [a2b, a2bL, length_b2a, numOctets_numChars]
  have hbits : 2 ^ (os.length * 8) = 256 ^ os.length := by
    rw [show (256 : Nat) = 2 ^ 8 from rfl, ← Nat.pow_mul, Nat.mul_comm]
  rw [hbits, countDiv1_pow256 _ _ (by omega)]
  simp only [b2a]
  rw [map_translate_charOf _ (Radix.toBE_lt (by decide) _ _), Radix.ofBE_toBE_of_lt hlt]
  exact be_beVal os

/-- the checked decoder accepts every genuine encoding … -/
theorem a2bStrict_b2a (os : Bytes) : a2bStrict (b2a os) = some os := by
  simp [a2bStrict, a2b_b2a]

/-- … and nothing else (**canonicity**) -/
theorem b2a_of_a2bStrict {cs os : Bytes} (h : a2bStrict cs = some os) : b2a os = cs := by
  simp only [a2bStrict] at h
  split at h
  · rename_i hc; simp only [Option.some.injEq] at h; subst h; exact hc
  · simp at h

theorem b2a_inj {a b : Bytes} (h : b2a a = b2a b) : a = b := by
  have := congrArg a2b h
  rwa [a2b_b2a, a2b_b2a] at this

end Tahoe.Base.Base62
