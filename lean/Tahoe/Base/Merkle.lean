/-
Merkle hash trees — executable model of /repo/src/allmydata/hashtree.py (Mathlib-free).

  * `CompleteBinaryTreeMixin` index arithmetic: `parent?`, `lchild?`, `rchild?`, `sibling?`, `neededFor?`
    (the `?` versions return `none` where the Python raises `IndexError`), `depthOf`, `depthFirst`
  * `HashTree.__init__` (`build`): padding with `empty_leaf_hash(i)`, rows formed bottom-up, flattened top-first
  * `IncompleteHashTree`: `newTree`, `neededHashes`, `set_hashes` (`setHashes`) — transcribed with its
    truthiness tests (`if self[i]:` is `truthyOpt`, `is None` is `= none`), the provisional insertion, the
    per-level "red dot" sets processed deepest level first, `set.pop()` as a *parameter* `pick`, the
    `remove_upon_failure` rollback list and the three exceptional exits.

The hash is abstract: `HashOps H` gives `pair` (hashtree.pair_hash), `emptyLeaf` (hashtree.empty_leaf_hash) and
`truthy` (Python's `bool(h)`; for `bytes` this is `h != b""`).  Leaf hashes are produced by the callers
(`hashutil.block_hash` …), not by hashtree.py, so they are plain values of `H` here.

A tree is `List (Option H)` (`none` = Python `None`), root at index 0, children of `i` at `2i+1`, `2i+2`.
Indices are `Nat`: negative Python indices are outside the model (callers produce them from `enumerate`,
`struct.unpack(">H")` or `needed_hashes`).

`Cfg` selects between the code as it is and the repaired code (fixes/C35-falsy-hash-and-indexerror.diff):
  * `pyTruthy`  — `if self[i]:` : a stored `b""` counts as absent and is overwritten (as in /repo), versus
                  `if self[i] is not None:` (repaired);
  * `catchIndex` — whether an out-of-range index (`IndexError`) rolls the provisional insertions back
                  (repaired) or escapes the `except (BadHashError, NotEnoughHashesError)` clause leaving them
                  in the tree (as in /repo).
-/
namespace Tahoe.Base.Merkle

/-- the hash functions hashtree.py uses, and Python truthiness of a hash value -/
structure HashOps (H : Type) where
  /-- `pair_hash(a, b)` = tagged_pair_hash('Merkle tree internal node', a, b) -/
  pair : H → H → H
  /-- `empty_leaf_hash(i)` = tagged_hash('Merkle tree empty leaf', "%d" % i) -/
  emptyLeaf : Nat → H
  /-- `bool(h)`; for `bytes`: `h != b""` -/
  truthy : H → Bool

abbrev Tree (H : Type) := List (Option H)

/-- `self[i]` for an in-range `i` (`none` = `None`); out of range also gives `none` — every use below is
    either guarded by an explicit range test or shown in range by `Tahoe.Base.Merkle` lemmas. -/
def get {H : Type} (t : Tree H) (i : Nat) : Option H := (t[i]?).getD none

/-- Python `if x:` for `x` a hash or `None` -/
def truthyOpt {H : Type} (ops : HashOps H) : Option H → Bool
  | none => false
  | some h => ops.truthy h

/-! ## roundup_pow2 -/

def roundupPow2Aux : Nat → Nat → Nat → Nat
  | 0, ans, _ => ans
  | f + 1, ans, x => if ans < x then roundupPow2Aux f (ans * 2) x else ans

/-- `roundup_pow2(x)`: `ans = 1; while ans < x: ans *= 2` (fuel `x` is enough since `2^x > x`). -/
def roundupPow2 (x : Nat) : Nat := roundupPow2Aux x 1 x

/-! ## CompleteBinaryTreeMixin -/

/-- `(i - 1) // 2` -/
def parent (i : Nat) : Nat := (i - 1) / 2
def lchild (i : Nat) : Nat := 2 * i + 1
def rchild (i : Nat) : Nat := 2 * i + 2
/-- the sibling of `i ≥ 1` (odd indices are left children) -/
def sibling (i : Nat) : Nat := if i % 2 = 1 then i + 1 else i - 1

/-- `parent(i)`: IndexError when `i < 1 or i >= len(self)` -/
def parent? (len i : Nat) : Option Nat := if i < 1 ∨ i ≥ len then none else some ((i - 1) / 2)
/-- `lchild(i)`: IndexError when `2i+1 >= len(self)` -/
def lchild? (len i : Nat) : Option Nat := if 2 * i + 1 ≥ len then none else some (2 * i + 1)
/-- `rchild(i)`: IndexError when `2i+2 >= len(self)` -/
def rchild? (len i : Nat) : Option Nat := if 2 * i + 2 ≥ len then none else some (2 * i + 2)

/-- `sibling(i)` as written: `parent = self.parent(i); if self.lchild(parent) == i: return
    self.rchild(parent) else: return self.lchild(parent)` -/
def sibling? (len i : Nat) : Option Nat :=
  match parent? len i with
  | none => none
  | some p =>
    match lchild? len p with
    | none => none
    | some l => if l = i then rchild? len p else lchild? len p

/-- the `while here != 0` loop of `needed_for` (fuel: `parent here < here`, so `here` steps suffice) -/
def neededForAux : Nat → Nat → List Nat
  | 0, _ => []
  | f + 1, here => if here = 0 then [] else sibling here :: neededForAux f (parent here)

/-- total version used by the model of `needed_hashes`/proofs: siblings on the path from `i` to the root,
    deepest first -/
def neededFor (i : Nat) : List Nat := neededForAux i i

/-- `needed_for(i)`: IndexError when `i >= len(self)` (`i < 0` is outside the model) -/
def neededFor? (len i : Nat) : Option (List Nat) := if i ≥ len then none else some (neededFor i)

/-- `depth_of(i) = log_floor(i+1, 2)` -/
def depthOf (i : Nat) : Nat := Nat.log2 (i + 1)

/-- `depth_first(i)`: preorder (index, depth) pairs of the subtree under `i`; the `except IndexError: pass`
    arms are the range tests.  Fuel bounds the recursion depth (`len` is ample). -/
def depthFirstAux (len : Nat) : Nat → Nat → Nat → List (Nat × Nat)
  | 0, _, _ => []
  | f + 1, i, d =>
    (i, d) ::
      ((if 2 * i + 1 < len then depthFirstAux len f (2 * i + 1) (d + 1) else []) ++
       (if 2 * i + 2 < len then depthFirstAux len f (2 * i + 2) (d + 1) else []))

def depthFirst (len : Nat) : List (Nat × Nat) := depthFirstAux len (len + 1) 0 0

/-! ## HashTree.__init__ -/

/-- `[pair_hash(last[2*i], last[2*i+1]) for i in range(len(last)//2)]` -/
def pairUp {H : Type} (ops : HashOps H) : List H → List H
  | a :: b :: rest => ops.pair a b :: pairUp ops rest
  | _ => []

/-- rows are formed bottom-up until a row of length 1; `below` is the flattening of the rows under `last`
    (`rows.reverse(); sum(rows, [])`).  Fuel: the row length halves, `len(L)` steps are ample. -/
def buildAux {H : Type} (ops : HashOps H) : Nat → List H → List H → List H
  | 0, last, below => last ++ below
  | f + 1, last, below =>
    if last.length = 1 then last ++ below else buildAux ops f (pairUp ops last) (last ++ below)

/-- the padded bottom row: `L + [empty_leaf_hash(i) for i in range(len(L), roundup_pow2(len(L)))]` -/
def padLeaves {H : Type} (ops : HashOps H) (L : List H) : List H :=
  L ++ (List.range (roundupPow2 L.length - L.length)).map (fun k => ops.emptyLeaf (L.length + k))

/-- `HashTree(L)` as a flat list (all entries populated) -/
def buildList {H : Type} (ops : HashOps H) (L : List H) : List H :=
  let padded := padLeaves ops L
  buildAux ops padded.length padded []

def build {H : Type} (ops : HashOps H) (L : List H) : Tree H := (buildList ops L).map some

/-- `first_leaf_num = roundup_pow2(len(L)) - 1` -/
def firstLeafNum (numLeaves : Nat) : Nat := roundupPow2 numLeaves - 1

/-- `HashTree.needed_hashes(leafnum, include_leaf)` (a set in Python; here in discovery order) -/
def completeNeededHashes? (len first leafnum : Nat) (includeLeaf : Bool) : Option (List Nat) :=
  match neededFor? len (first + leafnum) with
  | none => none
  | some l => some (if includeLeaf then l ++ [first + leafnum] else l)

/-! ## IncompleteHashTree -/

/-- `IncompleteHashTree(num_leaves)`: rows of `None` of sizes n, n/2, …, 1 for n = roundup_pow2(num_leaves),
    flattened: `2n-1` entries (modelled directly as `replicate`). -/
def newTree (H : Type) (numLeaves : Nat) : Tree H := List.replicate (2 * roundupPow2 numLeaves - 1) none

/-- `IncompleteHashTree.needed_hashes`: the members of `needed_for(first+leafnum)` (plus the leaf) with
    `self[i] is None`.  `none` = IndexError. -/
def neededHashes? {H : Type} (t : Tree H) (first leafnum : Nat) (includeLeaf : Bool) : Option (List Nat) :=
  match completeNeededHashes? t.length first leafnum includeLeaf with
  | none => none
  | some l => some (l.filter (fun i => (get t i).isNone))

/-- total version for node index `L` (no leaf): the unpopulated siblings on the path to the root -/
def neededHashes {H : Type} (t : Tree H) (L : Nat) : List Nat :=
  (neededFor L).filter (fun i => (get t i).isNone)

inductive Outcome
  | ok
  | badHash        -- BadHashError
  | notEnough      -- NotEnoughHashesError
  | indexError     -- IndexError from `self[i]` with `i >= len(self)`
  | internal       -- never produced (fuel exhausted / `pair_hash(None, …)`): see `Lemmas.no_internal`
  deriving DecidableEq, Repr

structure Cfg where
  /-- keep `hashes`' Python truthiness test (`if self[i]:`) instead of `is not None` -/
  pyTruthy : Bool
  /-- roll back on IndexError as well -/
  catchIndex : Bool

/-- /repo as it is -/
def Cfg.asIs : Cfg := { pyTruthy := true, catchIndex := false }
/-- with fixes/C35-… applied -/
def Cfg.repaired : Cfg := { pyTruthy := false, catchIndex := true }

/-- the hash operations as seen by the configured `if self[i]:` test -/
def HashOps.withCfg {H : Type} (ops : HashOps H) (cfg : Cfg) : HashOps H :=
  { ops with truthy := fun h => if cfg.pyTruthy then ops.truthy h else true }

/-- loop state of `set_hashes`: the list itself, the union of `hashes_to_check[*]` (red dots, insertion
    order; the level of an index is `depthOf`), and `remove_upon_failure` -/
structure St (H : Type) where
  t : Tree H
  red : List Nat
  rm : List Nat

/-- `set.add` on a list without duplicates -/
def addSet (l : List Nat) (i : Nat) : List Nat := if i ∈ l then l else l ++ [i]

/-- `new_hashes = hashes.copy(); for leafnum, leafhash in leaves.items(): …` — `none` is the
    "conflicting hashes in my arguments" BadHashError (raised before anything is touched).  Dicts are
    association lists in insertion order; re-assigning an equal value changes nothing. -/
def mergeLeaves {H : Type} [DecidableEq H] (first : Nat) (new : List (Nat × H)) :
    List (Nat × H) → Option (List (Nat × H))
  | [] => some new
  | (ln, lh) :: rest =>
    match new.lookup (first + ln) with
    | some v => if v ≠ lh then none else mergeLeaves first new rest
    | none => mergeLeaves first (new ++ [(first + ln, lh)]) rest

/-- `for i,h in new_hashes.items(): if self[i]: (compare) else: (insert, red dot, remember)` -/
def provisional {H : Type} [DecidableEq H] (ops : HashOps H) :
    List (Nat × H) → St H → Except (Outcome × St H) (St H)
  | [], st => .ok st
  | (i, h) :: rest, st =>
    if i ≥ st.t.length then .error (.indexError, st)
    else if truthyOpt ops (get st.t i) then
      if get st.t i ≠ some h then .error (.badHash, st) else provisional ops rest st
    else
      provisional ops rest { t := st.t.set i (some h), red := addSet st.red i, rm := addSet st.rm i }

/-- `this_level.pop()`: the oracle's choice if it is a member, else the first element -/
def popChoice (pick : List Nat → Nat) (this : List Nat) : Nat :=
  if pick this ∈ this then pick this else this.headD 0

/-- `while this_level: i = this_level.pop(); …; this_level.discard(siblingnum)` for one level.
    `this` is the local red set of the level; computed parents are added to `st.red` (they sit one level
    up: `assert parent_level == level-1` is `Lemmas.depthOf_parent`). -/
def levelLoop {H : Type} [DecidableEq H] (ops : HashOps H) (pick : List Nat → Nat) :
    Nat → List Nat → St H → Except (Outcome × St H) (St H)
  | _, [], st => .ok st
  | 0, _ :: _, st => .error (.internal, st)
  | f + 1, this@(_ :: _), st =>
    let i := popChoice pick this
    let this := this.erase i
    if i = 0 then levelLoop ops pick f this st
    else
      let s := sibling i
      match get st.t s with
      | none => .error (.notEnough, st)
      | some hs =>
        match get st.t i with
        | none => .error (.internal, st)
        | some hi =>
          let p := parent i
          -- leftnum, rightnum = sorted([i, siblingnum])
          let np := if i ≤ s then ops.pair hi hs else ops.pair hs hi
          if truthyOpt ops (get st.t p) then
            if get st.t p ≠ some np then .error (.badHash, st)
            else levelLoop ops pick f (this.erase s) st
          else
            levelLoop ops pick f (this.erase s)
              { t := st.t.set p (some np), red := addSet st.red p, rm := addSet st.rm p }

/-- `hashes_to_check[level]` -/
def thisLevel {H : Type} (st : St H) (level : Nat) : List Nat := st.red.filter (fun i => depthOf i == level)

/-- `for level in reversed(range(count))` -/
def levelsLoop {H : Type} [DecidableEq H] (ops : HashOps H) (pick : List Nat → Nat) :
    Nat → St H → Except (Outcome × St H) (St H)
  | 0, st => .ok st
  | k + 1, st =>
    match levelLoop ops pick (thisLevel st k).length (thisLevel st k) st with
    | .error e => .error e
    | .ok st' => levelsLoop ops pick k st'

/-- `for i in remove_upon_failure: self[i] = None` -/
def rollback {H : Type} (rm : List Nat) (t : Tree H) : Tree H := rm.foldl (fun t i => t.set i none) t

/-- the `try:` body -/
def tryBody {H : Type} [DecidableEq H] (ops : HashOps H) (pick : List Nat → Nat) (t : Tree H)
    (new : List (Nat × H)) : Except (Outcome × St H) (St H) :=
  match provisional ops new { t := t, red := [], rm := [] } with
  | .error e => .error e
  | .ok st => levelsLoop ops pick (depthOf (t.length - 1) + 1) st

/-- `IncompleteHashTree.set_hashes(hashes, leaves)`: outcome class and the list afterwards.
    `first` is `self.first_leaf_num`. -/
def setHashes {H : Type} [DecidableEq H] (ops : HashOps H) (cfg : Cfg) (pick : List Nat → Nat)
    (first : Nat) (t : Tree H) (hashes leaves : List (Nat × H)) : Outcome × Tree H :=
  match mergeLeaves first hashes leaves with
  | none => (.badHash, t)
  | some new =>
    match tryBody (ops.withCfg cfg) pick t new with
    | .ok st => (.ok, st.t)
    | .error (o, st) =>
      if o = .badHash ∨ o = .notEnough ∨ (o = .indexError ∧ cfg.catchIndex) then (o, rollback st.rm st.t)
      else (o, st.t)

/-! ## batches as a caller can really pass them: `int` keys (stray, negative, too large)

`hashes` / `leaves` are dicts keyed by Python ints.  `self[i]` with `-len ≤ i < 0` aliases slot `len + i`;
`depth_of(i)` is `-1` for a negative `i`, so a negative key written into an empty slot is red-dotted in
`hashes_to_check[-1]`, the deepest level, under its negative number.  Such an entry can never be validated:
when it is popped `sibling(i)` → `parent(i)` raises IndexError (`i < 1`), and the deepest level cannot be left
without popping it.  So the batch is rejected — with IndexError, or with the BadHashError /
NotEnoughHashesError of another entry of that level if the pop order meets that one first — and everything
is rolled back.  The model records this as `BatchOutcome.unvalidatable` without replaying the level loop. -/

inductive BatchOutcome
  | ok
  | err (o : Outcome)   -- the named exception
  | unvalidatable       -- a red-dotted negative key: IndexError / BadHashError / NotEnoughHashesError (order-dependent)
  deriving DecidableEq, Repr

/-- Python list index resolution: `none` = IndexError; negative indices alias `len + i` -/
def resolveIdx (len : Nat) (i : Int) : Option Nat :=
  if 0 ≤ i then (if i.toNat < len then some i.toNat else none)
  else if (-i).toNat ≤ len then some (len - (-i).toNat) else none

/-- `new_hashes` over int keys (`hashnum = self.first_leaf_num + leafnum`), see `mergeLeaves` -/
def mergeLeavesZ {H : Type} [DecidableEq H] (first : Nat) (new : List (Int × H)) :
    List (Int × H) → Option (List (Int × H))
  | [] => some new
  | (ln, lh) :: rest =>
    match new.lookup ((first : Int) + ln) with
    | some v => if v ≠ lh then none else mergeLeavesZ first new rest
    | none => mergeLeavesZ first (new ++ [((first : Int) + ln, lh)]) rest

/-- the provisional loop over int keys; the Bool records that a negative key was written (and red-dotted).
    (For such a key the red dot and the rollback entry are kept under the aliased slot number; the red set is
    not used afterwards.) -/
def provisionalZ {H : Type} [DecidableEq H] (ops : HashOps H) :
    List (Int × H) → St H → Bool → Except (Outcome × St H) (St H × Bool)
  | [], st, poison => .ok (st, poison)
  | (i, h) :: rest, st, poison =>
    match resolveIdx st.t.length i with
    | none => .error (.indexError, st)
    | some j =>
      if truthyOpt ops (get st.t j) then
        if get st.t j ≠ some h then .error (.badHash, st) else provisionalZ ops rest st poison
      else
        provisionalZ ops rest { t := st.t.set j (some h), red := addSet st.red j, rm := addSet st.rm j }
          (poison || decide (i < 0))

/-- the `try:` body over int keys -/
def tryBodyZ {H : Type} [DecidableEq H] (ops : HashOps H) (pick : List Nat → Nat) (t : Tree H)
    (new : List (Int × H)) : Except (Outcome × St H) (St H × Bool) :=
  match provisionalZ ops new { t := t, red := [], rm := [] } false with
  | .error e => .error e
  | .ok (st, true) => .ok (st, true)
  | .ok (st, false) =>
    match levelsLoop ops pick (depthOf (t.length - 1) + 1) st with
    | .error e => .error e
    | .ok st' => .ok (st', false)

/-- `set_hashes(hashes, leaves)` for arbitrary int keys.  With `cfg.catchIndex = false` (the code before the
    repair) the result for an `unvalidatable` batch is only one of the order-dependent possibilities. -/
def setHashesZ {H : Type} [DecidableEq H] (ops : HashOps H) (cfg : Cfg) (pick : List Nat → Nat)
    (first : Nat) (t : Tree H) (hashes leaves : List (Int × H)) : BatchOutcome × Tree H :=
  match mergeLeavesZ first hashes leaves with
  | none => (.err .badHash, t)
  | some new =>
    match tryBodyZ (ops.withCfg cfg) pick t new with
    | .ok (st, false) => (.ok, st.t)
    | .ok (st, true) => (.unvalidatable, if cfg.catchIndex then rollback st.rm st.t else st.t)
    | .error (o, st) =>
      if o = .badHash ∨ o = .notEnough ∨ (o = .indexError ∧ cfg.catchIndex) then (.err o, rollback st.rm st.t)
      else (.err o, st.t)

/-- `IncompleteHashTree._name_hash(i)`: the node description used in the text of BadHashError.  It is called
    inside the `try:` while the message is built, so it must be defined for every node (an exception raised
    here would not be one of the three the rollback clause catches). -/
def nameHash (len first i : Nat) : String :=
  let name := s!"[{i} of {len}]"
  if i ≥ first then name ++ s!" (leaf [{i - first}] of {len - first})" else name

/-- one `set_hashes` call of a history: the pop order of that call and its two dicts -/
structure Batch (H : Type) where
  pick : List Nat → Nat
  hashes : List (Int × H)
  leaves : List (Int × H)

/-- a history of `set_hashes` calls on one tree object (exceptions are survived by the caller): outcome and
    list after every call -/
def runBatches {H : Type} [DecidableEq H] (ops : HashOps H) (cfg : Cfg) (first : Nat) :
    Tree H → List (Batch H) → List (BatchOutcome × Tree H)
  | _, [] => []
  | t, b :: rest =>
    let r := setHashesZ ops cfg b.pick first t b.hashes b.leaves
    r :: runBatches ops cfg first r.2 rest

/-- what an honest provider answers to `needed_hashes`: the genuine tree's value for each requested node
    (`dict((i, T[i]) for i in needed)`) -/
def genuineBatch {H : Type} (T : Tree H) (l : List Nat) : List (Nat × H) :=
  l.filterMap (fun i => (get T i).map (fun v => (i, v)))

/-- the download step for leaf `leafnum`: ask `needed_hashes(leafnum)`, receive the genuine values and the
    genuine leaf, call `set_hashes`.  `none` = `needed_hashes` raised IndexError / the genuine tree has no such
    leaf. -/
def validateLeaf {H : Type} [DecidableEq H] (ops : HashOps H) (cfg : Cfg) (pick : List Nat → Nat)
    (first : Nat) (t T : Tree H) (leafnum : Nat) : Option (List (Nat × H) × Outcome × Tree H) :=
  match neededHashes? t first leafnum false, get T (first + leafnum) with
  | some l, some v =>
    let r := setHashes ops cfg pick first t (genuineBatch T l) [(leafnum, v)]
    some (genuineBatch T l, r.1, r.2)
  | _, _ => none

/-! ## specification vocabulary (used by the property theorems of C35 and the integrity chains) -/

/-- `T` is a fully populated Merkle tree: odd length, every node present, every internal node the pair hash
    of its children (what `HashTree(L)` builds) -/
structure Genuine {H : Type} (ops : HashOps H) (T : Tree H) : Prop where
  odd : T.length % 2 = 1
  full : ∀ i, i < T.length → get T i ≠ none
  node : ∀ i a b, get T (2 * i + 1) = some a → get T (2 * i + 2) = some b → get T i = some (ops.pair a b)

/-- the partially populated tree `t` agrees with `T` wherever it is populated -/
def Agree {H : Type} (t T : Tree H) : Prop := ∀ j h, get t j = some h → get T j = some h

/-- whenever a node and its sibling are known so is their parent (every tree produced by successful
    `set_hashes` calls from an empty tree has this shape) -/
def Closed {H : Type} (t : Tree H) : Prop :=
  ∀ i, i ≠ 0 → get t i ≠ none → get t (sibling i) ≠ none → get t (parent i) ≠ none

/-- every known node other than the root has a known sibling (nothing is accepted without its sibling; every
    tree produced by successful `set_hashes` calls from an empty tree has this shape) -/
def SibClosed {H : Type} (t : Tree H) : Prop :=
  ∀ i, i ≠ 0 → get t i ≠ none → get t (sibling i) ≠ none

/-- collision-freeness of the pair hash (the cryptographic hypothesis; holds in `symOps` by construction) -/
def PairInjective {H : Type} (ops : HashOps H) : Prop :=
  ∀ a b c d, ops.pair a b = ops.pair c d → a = c ∧ b = d

/-- the configured presence test `if self[i]:` never mistakes a stored hash for `None`: true of the repaired
    code for every hash type, and of the code as it is for hash types without a falsy value (e.g. the
    32-byte strings SHA-256d produces) -/
def StrictPresence {H : Type} (ops : HashOps H) (cfg : Cfg) : Prop :=
  ∀ h, (ops.withCfg cfg).truthy h = true

/-! ## a free (symbolic) hash: `pair` injective by construction; `empty` is Python's `b""` -/

inductive Sym
  | atom (n : Nat)
  | emptyLeaf (i : Nat)
  | pair (a b : Sym)
  | empty
  deriving DecidableEq, Repr

/-- symbolic operations with Python truthiness (`empty` is falsy) -/
def symOps : HashOps Sym :=
  { pair := Sym.pair, emptyLeaf := Sym.emptyLeaf, truthy := fun h => h != Sym.empty }

/-- non-empty byte strings (what SHA-256d produces is 32 bytes long): the carrier on which Python's
    `if self[i]:` is the same test as `is not None` -/
abbrev NEBytes := { b : List UInt8 // b ≠ [] }

/-- an instance with Python truthiness (`h != b""`) over non-empty byte strings; `pair`/`emptyLeaf` are
    placeholders (framing only), used to show `StrictPresence … Cfg.asIs` is satisfiable -/
def neBytesOps : HashOps NEBytes :=
  { pair := fun a b => ⟨0 :: (a.val ++ b.val), by simp⟩,
    emptyLeaf := fun _ => ⟨[1], by simp⟩,
    truthy := fun h => h.val != [] }

end Tahoe.Base.Merkle
