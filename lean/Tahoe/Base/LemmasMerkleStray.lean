import Tahoe.Base.LemmasMerkleSound
import Tahoe.Base.LemmasMerkleOrder
/-! `set_hashes` over batches with arbitrary int keys (`setHashesZ`): stray node numbers — negative, too
    large, off the chain — never leave anything behind and never get a forged value accepted. -/
namespace Tahoe.Base.Merkle

variable {H : Type}

/-- the state carried by a result of the int-key loops -/
def stOfZ : Except (Outcome × St H) (St H × Bool) → St H
  | .ok (st, _) => st
  | .error (_, st) => st

theorem resolveIdx_lt {len : Nat} {i : Int} {j : Nat} (h : resolveIdx len i = some j) : j < len := by
  unfold resolveIdx at h
  split at h
  · split at h
    · injection h with h; omega
    · cases h
  · split at h
    · injection h with h
      have : 0 < (-i).toNat := by omega
      omega
    · cases h

theorem provisionalZ_reach [DecidableEq H] (ops : HashOps H) (new : List (Int × H)) (st : St H) (p : Bool) :
    Reach ops st (stOfZ (provisionalZ ops new st p)) := by
  fun_induction provisionalZ ops new st p with
  | case1 st p => exact Reach.refl _
  | case2 i h rest st p hres => exact Reach.refl _
  | case3 i h rest st p j hres htr hne => exact Reach.refl _
  | case4 i h rest st p j hres htr hne ih => exact ih
  | case5 i h rest st p j hres htr ih =>
    exact Reach.step st _ j h (resolveIdx_lt hres) (by simpa using htr) ih

theorem provisionalZ_class [DecidableEq H] (ops : HashOps H) (new : List (Int × H)) (st : St H) (p : Bool)
    {o : Outcome} {st' : St H} (h : provisionalZ ops new st p = .error (o, st')) :
    o = .badHash ∨ o = .notEnough ∨ o = .indexError := by
  fun_induction provisionalZ ops new st p with
  | case1 st p => cases h
  | case2 i h' rest st p hres => injection h with h; injection h with h1 h2; subst h1; simp
  | case3 i h' rest st p j hres htr hne => injection h with h; injection h with h1 h2; subst h1; simp
  | case4 i h' rest st p j hres htr hne ih => exact ih h
  | case5 i h' rest st p j hres htr ih => exact ih h

theorem tryBodyZ_reach [DecidableEq H] (ops : HashOps H) (pick : List Nat → Nat) (t : Tree H)
    (new : List (Int × H)) :
    Reach ops { t := t, red := [], rm := [] } (stOfZ (tryBodyZ ops pick t new)) := by
  unfold tryBodyZ
  have h1 := provisionalZ_reach ops new { t := t, red := [], rm := [] } false
  cases hres : provisionalZ ops new { t := t, red := [], rm := [] } false with
  | error e => rw [hres] at h1; obtain ⟨o, st'⟩ := e; exact h1
  | ok r =>
    obtain ⟨st0, p⟩ := r
    rw [hres] at h1
    cases p with
    | true => exact h1
    | false =>
      simp only
      have h2 := levelsLoop_reach ops pick (depthOf (t.length - 1) + 1) st0
      cases hl : levelsLoop ops pick (depthOf (t.length - 1) + 1) st0 with
      | error e => rw [hl] at h2; obtain ⟨o, st'⟩ := e; exact Reach.trans h1 h2
      | ok st1 => rw [hl] at h2; exact Reach.trans h1 h2

theorem tryBodyZ_class [DecidableEq H] (ops : HashOps H) (pick : List Nat → Nat) (t : Tree H)
    (new : List (Int × H)) {o : Outcome} {st' : St H} (h : tryBodyZ ops pick t new = .error (o, st')) :
    o = .badHash ∨ o = .notEnough ∨ o = .indexError := by
  unfold tryBodyZ at h
  have h1 := provisionalZ_reach ops new { t := t, red := [], rm := [] } false
  cases hres : provisionalZ ops new { t := t, red := [], rm := [] } false with
  | error e =>
    rw [hres] at h; obtain ⟨o', st''⟩ := e
    injection h with h; injection h with e1 e2; subst e1
    exact provisionalZ_class ops new _ _ hres
  | ok r =>
    obtain ⟨st0, p⟩ := r
    rw [hres] at h h1
    cases p with
    | true => cases h
    | false =>
      simp only at h
      cases hl : levelsLoop ops pick (depthOf (t.length - 1) + 1) st0 with
      | ok st1 => rw [hl] at h; cases h
      | error e =>
        rw [hl] at h; obtain ⟨o', st''⟩ := e
        injection h with h; injection h with e1 e2; subst e1
        have hr : Reach ops { t := t, red := [], rm := [] } st0 := h1
        exact levelsLoop_no_internal ops pick _ st0 hl (hr.redPop (by simp))

/-- rollback over the whole input domain: a batch with arbitrary int keys that is not accepted leaves the
    list exactly as it was -/
theorem setHashesZ_rollback [DecidableEq H] {ops : HashOps H} {cfg : Cfg} (hstrict : StrictPresence ops cfg)
    (hcatch : cfg.catchIndex = true) (pick : List Nat → Nat) (first : Nat) (t : Tree H)
    (hashes leaves : List (Int × H)) {o : BatchOutcome} {t' : Tree H}
    (h : setHashesZ ops cfg pick first t hashes leaves = (o, t')) (hne : o ≠ .ok) : t' = t := by
  unfold setHashesZ at h
  cases hm : mergeLeavesZ first hashes leaves with
  | none => rw [hm] at h; simp only at h; injection h with h1 h2; exact h2.symm
  | some new =>
    rw [hm] at h; simp only at h
    have hreach := tryBodyZ_reach (ops.withCfg cfg) pick t new
    cases hres : tryBodyZ (ops.withCfg cfg) pick t new with
    | ok r =>
      obtain ⟨st, p⟩ := r
      rw [hres] at h hreach
      have hinv : RollInv t st := Reach.rollInv hstrict hreach (rollInv_init t)
      cases p with
      | false => simp only at h; injection h with h1 h2; exact absurd h1.symm hne
      | true =>
        simp only [hcatch, if_true] at h
        injection h with h1 h2
        rw [← h2]; exact rollback_spec hinv
    | error e =>
      obtain ⟨o', st⟩ := e
      rw [hres] at h hreach
      have hinv : RollInv t st := Reach.rollInv hstrict hreach (rollInv_init t)
      have hcls := tryBodyZ_class (ops.withCfg cfg) pick t new hres
      simp only at h
      have hc : o' = .badHash ∨ o' = .notEnough ∨ (o' = .indexError ∧ cfg.catchIndex = true) := by
        rcases hcls with e | e | e
        · exact Or.inl e
        · exact Or.inr (Or.inl e)
        · exact Or.inr (Or.inr ⟨e, hcatch⟩)
      rw [if_pos hc] at h
      injection h with h1 h2
      rw [← h2]; exact rollback_spec hinv

/-- soundness of the level loops from any state reached from the input tree by provisional writes -/
theorem levels_sound_of_reach [DecidableEq H] {ops : HashOps H} (htr : ∀ h, ops.truthy h = true)
    (hinj : ∀ a b c d, ops.pair a b = ops.pair c d → a = c ∧ b = d)
    {T t : Tree H} (hT : Genuine ops T) (hlen : t.length = T.length) (hagree : Agree t T)
    (hroot : get t 0 ≠ none) (pick : List Nat → Nat) {st0 st1 : St H}
    (hr : Reach ops { t := t, red := [], rm := [] } st0)
    (h : levelsLoop ops pick (depthOf (t.length - 1) + 1) st0 = .ok st1) : Agree st1.t T := by
  have hrg : RootGood T t := by
    cases hr0 : get t 0 with
    | none => exact absurd hr0 hroot
    | some r => exact ⟨r, hr0, hagree 0 r hr0⟩
  have hr2 := levelsLoop_reach ops pick (depthOf (t.length - 1) + 1) st0
  rw [h] at hr2
  have hr2' : Reach ops st0 st1 := hr2
  have hrg0 : RootGood T st0.t := by
    obtain ⟨r, r1, r2⟩ := hrg; exact ⟨r, hr.mono htr r1, r2⟩
  have hl : st0.t.length = t.length := hr.length_eq
  have hinv : LInv ops T (depthOf (t.length - 1) + 1) [] st0 := by
    intro j hb
    cases hr.bad hb with
    | inl h0 => exact absurd h0 (agree_iff_no_bad.mp hagree j)
    | inr h0 =>
      right; left
      refine ⟨h0, ?_⟩
      obtain ⟨v, hv, _⟩ := hb
      have hj := lt_of_get_some hv
      have := depthOf_mono (a := j) (b := t.length - 1) (by omega)
      omega
  obtain ⟨h1, h2⟩ := levelsLoop_sound htr T pick _ st0 h hrg0 hinv
  have hlen1 : st1.t.length = T.length := by
    have : st1.t.length = st0.t.length := hr2'.length_eq
    omega
  apply agree_iff_no_bad.mpr
  apply no_bad_of_checked hinj hT hlen1
  intro j hb
  cases h1 j hb with
  | inl hm => cases hm
  | inr hm =>
    cases hm with
    | inl hm => exact absurd hm.2 (Nat.not_lt_zero _)
    | inr hm => exact hm

/-- soundness over the whole input domain -/
theorem setHashesZ_sound [DecidableEq H] {ops : HashOps H} {cfg : Cfg} (hstrict : StrictPresence ops cfg)
    (hinj : PairInjective ops) {T t : Tree H} (hT : Genuine ops T) (hlen : t.length = T.length)
    (hagree : Agree t T) (hroot : get t 0 ≠ none) (pick : List Nat → Nat) (first : Nat)
    (hashes leaves : List (Int × H)) {t' : Tree H}
    (h : setHashesZ ops cfg pick first t hashes leaves = (.ok, t')) : Agree t' T := by
  unfold setHashesZ at h
  cases hm : mergeLeavesZ first hashes leaves with
  | none => rw [hm] at h; simp only at h; injection h with h1 h2; cases h1
  | some new =>
    rw [hm] at h; simp only at h
    cases hres : tryBodyZ (ops.withCfg cfg) pick t new with
    | error e =>
      obtain ⟨o', st⟩ := e
      rw [hres] at h; simp only at h
      split at h <;> (injection h with h1 h2; cases h1)
    | ok r =>
      obtain ⟨st, p⟩ := r
      rw [hres] at h
      cases p with
      | true => simp only at h; injection h with h1 h2; cases h1
      | false =>
        simp only at h; injection h with h1 h2; subst h2
        unfold tryBodyZ at hres
        have hr := provisionalZ_reach (ops.withCfg cfg) new { t := t, red := [], rm := [] } false
        cases hp : provisionalZ (ops.withCfg cfg) new { t := t, red := [], rm := [] } false with
        | error e => rw [hp] at hres; cases hres
        | ok r0 =>
          obtain ⟨st0, p0⟩ := r0
          rw [hp] at hres hr
          cases p0 with
          | true => simp only at hres; injection hres with hres; injection hres with e1 e2; cases e2
          | false =>
            simp only at hres
            cases hl : levelsLoop (ops.withCfg cfg) pick (depthOf (t.length - 1) + 1) st0 with
            | error e => rw [hl] at hres; cases hres
            | ok st1 =>
              rw [hl] at hres; injection hres with hres; injection hres with e1 e2; subst e1
              exact levels_sound_of_reach (ops := ops.withCfg cfg) hstrict hinj ⟨hT.odd, hT.full, hT.node⟩
                hlen hagree hroot pick hr hl

/-! ## on batches with natural-number keys `setHashesZ` is `setHashes` -/

/-- a batch with natural keys as an int-key batch -/
def castKeys (l : List (Nat × H)) : List (Int × H) := l.map (fun p => ((p.1 : Int), p.2))

def toBatch : Outcome → BatchOutcome
  | .ok => .ok
  | o => .err o

theorem resolveIdx_nat (len i : Nat) : resolveIdx len (i : Int) = if i < len then some i else none := by
  unfold resolveIdx
  have : (0 : Int) ≤ (i : Int) := Int.natCast_nonneg i
  simp [this]

theorem lookup_castKeys (l : List (Nat × H)) (k : Nat) : (castKeys l).lookup (k : Int) = l.lookup k := by
  induction l with
  | nil => rfl
  | cons x rest ih =>
    obtain ⟨k', v⟩ := x
    simp only [castKeys, List.map_cons, List.lookup_cons] at ih ⊢
    by_cases e : k = k'
    · subst e; simp
    · have e1 : (k == k') = false := by simpa using e
      have e2 : ((k : Int) == (k' : Int)) = false := by
        simp only [beq_eq_false_iff_ne, ne_eq]; intro h; exact e (Int.ofNat_inj.mp h)
      rw [e1, e2]; exact ih

theorem mergeLeavesZ_cast [DecidableEq H] (first : Nat) (new leaves : List (Nat × H)) :
    mergeLeavesZ first (castKeys new) (castKeys leaves) = (mergeLeaves first new leaves).map castKeys := by
  induction leaves generalizing new with
  | nil => rfl
  | cons x rest ih =>
    obtain ⟨ln, lh⟩ := x
    have hk : (first : Int) + (ln : Int) = ((first + ln : Nat) : Int) := by simp
    simp only [castKeys, List.map_cons] at ih ⊢
    unfold mergeLeavesZ mergeLeaves
    rw [hk]
    have hl := lookup_castKeys new (first + ln)
    simp only [castKeys] at hl
    rw [hl]
    cases hlk : new.lookup (first + ln) with
    | some v =>
      simp only
      by_cases e : v ≠ lh
      · rw [if_pos e, if_pos e]; rfl
      · rw [if_neg e, if_neg e]; exact ih new
    | none =>
      simp only
      have := ih (new ++ [(first + ln, lh)])
      simp only [List.map_append, List.map_cons, List.map_nil] at this
      exact this

theorem provisionalZ_cast [DecidableEq H] (ops : HashOps H) (new : List (Nat × H)) (st : St H) :
    provisionalZ ops (castKeys new) st false = (provisional ops new st).map (fun s => (s, false)) := by
  fun_induction provisional ops new st with
  | case1 st => rfl
  | case2 i h rest st hge =>
    simp only [castKeys, List.map_cons]
    unfold provisionalZ
    rw [resolveIdx_nat, if_neg (by omega)]; rfl
  | case3 i h rest st hge htr hne =>
    simp only [castKeys, List.map_cons]
    unfold provisionalZ
    rw [resolveIdx_nat, if_pos (by omega)]
    simp only [htr, if_true]
    rw [if_pos hne]; rfl
  | case4 i h rest st hge htr hne ih =>
    simp only [castKeys, List.map_cons] at ih ⊢
    unfold provisionalZ
    rw [resolveIdx_nat, if_pos (by omega)]
    simp only [htr, if_true]
    rw [if_neg hne]
    exact ih
  | case5 i h rest st hge htr ih =>
    simp only [castKeys, List.map_cons] at ih ⊢
    unfold provisionalZ
    rw [resolveIdx_nat, if_pos (by omega)]
    have hneg : decide ((i : Int) < 0) = false := by
      simp only [decide_eq_false_iff_not]; omega
    simp only [htr, hneg, Bool.or_false]
    exact ih

/-- the int-key model restricted to natural keys is the model the other theorems are about -/
theorem setHashesZ_castKeys [DecidableEq H] (ops : HashOps H) (cfg : Cfg) (pick : List Nat → Nat)
    (first : Nat) (t : Tree H) (hashes leaves : List (Nat × H)) :
    setHashesZ ops cfg pick first t (castKeys hashes) (castKeys leaves) =
      (toBatch (setHashes ops cfg pick first t hashes leaves).1, (setHashes ops cfg pick first t hashes leaves).2) := by
  unfold setHashesZ setHashes
  rw [mergeLeavesZ_cast]
  cases hm : mergeLeaves first hashes leaves with
  | none => rfl
  | some new =>
    simp only [Option.map_some]
    unfold tryBodyZ tryBody
    rw [provisionalZ_cast]
    cases hp : provisional (ops.withCfg cfg) new { t := t, red := [], rm := [] } with
    | error e =>
      obtain ⟨o, st⟩ := e
      have hcls := provisional_no_internal (ops.withCfg cfg) new _ hp
      simp only [Except.map]
      split <;> (rcases hcls with e | e | e <;> subst e <;> rfl)
    | ok st0 =>
      simp only [Except.map]
      cases hl : levelsLoop (ops.withCfg cfg) pick (depthOf (t.length - 1) + 1) st0 with
      | ok st1 => rfl
      | error e =>
        obtain ⟨o, st⟩ := e
        have hr := provisional_reach (ops.withCfg cfg) new { t := t, red := [], rm := [] }
        rw [hp] at hr
        have hr' : Reach (ops.withCfg cfg) { t := t, red := [], rm := [] } st0 := hr
        have hcls := levelsLoop_no_internal (ops.withCfg cfg) pick _ st0 hl (hr'.redPop (by simp))
        simp only
        split <;> (rcases hcls with e | e | e <;> subst e <;> rfl)

/-! ## pop order over int-key batches -/

theorem tryBodyZ_order [DecidableEq H] {ops : HashOps H} (htr : ∀ h, ops.truthy h = true)
    (pick1 pick2 : List Nat → Nat) (t : Tree H) (new : List (Int × H)) {st1 : St H}
    (h : tryBodyZ ops pick1 t new = .ok (st1, false)) :
    ∃ st2, tryBodyZ ops pick2 t new = .ok (st2, false) ∧ st2.t = st1.t := by
  unfold tryBodyZ at h
  cases hp : provisionalZ ops new { t := t, red := [], rm := [] } false with
  | error e => rw [hp] at h; cases h
  | ok r =>
    obtain ⟨st0, p⟩ := r
    rw [hp] at h
    cases p with
    | true => simp only at h; injection h with h; injection h with e1 e2; cases e2
    | false =>
      simp only at h
      cases hl : levelsLoop ops pick1 (depthOf (t.length - 1) + 1) st0 with
      | error e => rw [hl] at h; cases h
      | ok sta =>
        rw [hl] at h; injection h with h; injection h with e1 e2; subst e1
        obtain ⟨st2, h2, he⟩ := levelsLoop_eqv htr pick1 pick2 _ st0 st0 ⟨rfl, fun _ => Iff.rfl⟩ hl
        refine ⟨st2, ?_, he.1.symm⟩
        unfold tryBodyZ; rw [hp]; simp only; rw [h2]

/-- an accepted int-key batch is accepted, with the same list, under every other pop order -/
theorem setHashesZ_order [DecidableEq H] {ops : HashOps H} {cfg : Cfg} (hstrict : StrictPresence ops cfg)
    (pick1 pick2 : List Nat → Nat) (first : Nat) (t : Tree H) (hashes leaves : List (Int × H))
    (h : (setHashesZ ops cfg pick1 first t hashes leaves).1 = .ok) :
    setHashesZ ops cfg pick2 first t hashes leaves = setHashesZ ops cfg pick1 first t hashes leaves := by
  unfold setHashesZ at h ⊢
  cases hm : mergeLeavesZ first hashes leaves with
  | none => rfl
  | some new =>
    rw [hm] at h; simp only at h ⊢
    cases hres : tryBodyZ (ops.withCfg cfg) pick1 t new with
    | error e =>
      obtain ⟨o', st⟩ := e
      rw [hres] at h; simp only at h
      split at h <;> cases h
    | ok r =>
      obtain ⟨st, p⟩ := r
      rw [hres] at h
      cases p with
      | true => simp only at h; cases h
      | false =>
        obtain ⟨st2, h2, he⟩ := tryBodyZ_order (ops := ops.withCfg cfg) hstrict pick1 pick2 t new hres
        rw [h2]; simp only; rw [he]

/-! ## completeness over int-key batches -/

theorem castKeys_toNat (l : List (Int × H)) (h : ∀ p ∈ l, 0 ≤ p.1) :
    castKeys (l.map (fun p => (p.1.toNat, p.2))) = l := by
  unfold castKeys
  rw [List.map_map]
  conv => rhs; rw [← List.map_id l]
  apply List.map_congr_left
  intro p hp
  have := h p hp
  obtain ⟨i, w⟩ := p
  simp only [Function.comp, id]
  congr 1
  exact Int.toNat_of_nonneg this

end Tahoe.Base.Merkle
