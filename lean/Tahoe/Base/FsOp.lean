import Tahoe.Base.File
/-!
Tahoe.Base.FsOp — primitive file-system operations in program order, and crashes as prefixes.
A file system is a function from paths to optional file contents (directories carry no content:
`mkdir`/`rmdir` are recorded in operation lists so that they can be compared with the trace of the
real code, but do not change any file).  A crash is any prefix of the operation list
(`List.take n`); single `write`/`rename` calls are atomic (DESIGN §2 C29 *Limits*).  Mathlib-free.
-/
namespace Tahoe.Base.FsOp
open Tahoe.Base.File

abbrev Fs (P : Type) := P → Option File

inductive FsOp (P : Type) where
  | create (p : P)                          -- open(p, 'wb'): create or truncate to empty
  | pwrite (p : P) (off : Nat) (d : Bytes)  -- seek(off); write(d)
  | truncate (p : P) (n : Nat)
  | rename (src dst : P)
  | unlink (p : P)
  | mkdir (p : P)
  | rmdir (p : P)
deriving Repr

variable {P : Type} [DecidableEq P]

def upd (fs : Fs P) (p : P) (v : Option File) : Fs P := fun q => if q = p then v else fs q

/-- one primitive operation; an operation on a missing file fails (ENOENT) and changes nothing -/
def apply (fs : Fs P) : FsOp P → Fs P
  | .create p => upd fs p (some [])
  | .pwrite p off d => match fs p with
    | some f => upd fs p (some (pwrite f off d))
    | none => fs
  | .truncate p n => match fs p with
    | some f => upd fs p (some (truncate f n))
    | none => fs
  | .rename a b => match fs a with
    | some f => upd (upd fs a none) b (some f)
    | none => fs
  | .unlink p => upd fs p none
  | .mkdir _ => fs
  | .rmdir _ => fs

def run (fs : Fs P) (ops : List (FsOp P)) : Fs P := ops.foldl apply fs

/-- the paths whose content an operation may change -/
def touches : FsOp P → List P
  | .create p => [p]
  | .pwrite p _ _ => [p]
  | .truncate p _ => [p]
  | .rename a b => [a, b]
  | .unlink p => [p]
  | .mkdir _ => []
  | .rmdir _ => []

theorem run_append (fs : Fs P) (a b : List (FsOp P)) : run fs (a ++ b) = run (run fs a) b := by
  simp [run, List.foldl_append]

theorem apply_untouched (fs : Fs P) (op : FsOp P) (q : P) (h : q ∉ touches op) : apply fs op q = fs q := by
  cases op with
  | create p => simp only [touches, List.mem_singleton] at h; simp [apply, upd, h]
  | pwrite p off d =>
    simp only [touches, List.mem_singleton] at h
    simp only [apply]; cases fs p <;> simp [upd, h]
  | truncate p n =>
    simp only [touches, List.mem_singleton] at h
    simp only [apply]; cases fs p <;> simp [upd, h]
  | rename a b =>
    simp only [touches, List.mem_cons, List.mem_nil_iff, or_false, not_or] at h
    simp only [apply]; cases fs a <;> simp [upd, h.1, h.2]
  | unlink p => simp only [touches, List.mem_singleton] at h; simp [apply, upd, h]
  | mkdir p => rfl
  | rmdir p => rfl

theorem run_untouched (fs : Fs P) (ops : List (FsOp P)) (q : P) (h : ∀ op ∈ ops, q ∉ touches op) :
    run fs ops q = fs q := by
  induction ops generalizing fs with
  | nil => rfl
  | cons op rest ih =>
    simp only [run, List.foldl_cons] at *
    rw [ih (apply fs op) (fun o ho => h o (List.mem_cons_of_mem _ ho))]
    exact apply_untouched fs op q (h op List.mem_cons_self)

/-- a crash prefix touches no more than the whole list -/
theorem run_take_untouched (fs : Fs P) (ops : List (FsOp P)) (n : Nat) (q : P)
    (h : ∀ op ∈ ops, q ∉ touches op) : run fs (ops.take n) q = fs q :=
  run_untouched fs _ q (fun o ho => h o (List.mem_of_mem_take ho))

end Tahoe.Base.FsOp
