import Tahoe.Base.LemmasMerkleSound
/-! Completeness of `set_hashes` (helper lemmas for Tahoe/Props/C35.lean): genuine values for the chain of a
    node are accepted, whatever the pop order. -/
namespace Tahoe.Base.Merkle

variable {H : Type}

/-- `Anc here c`: `c` is `here` or one of its ancestors -/
inductive Anc : Nat → Nat → Prop
  | self (here : Nat) : Anc here here
  | step (here c : Nat) : here ≠ 0 → Anc (parent here) c → Anc here c

theorem Anc.le {L c : Nat} (h : Anc L c) : c ≤ L := by
  induction h with
  | self => exact Nat.le_refl _
  | step here c hne _ ih => have := parent_lt hne; omega

theorem Anc.parent {L c : Nat} (h : Anc L c) (hc : c ≠ 0) : Anc L (parent c) := by
  induction h with
  | self here => exact Anc.step here _ hc (Anc.self _)
  | step here c hne _ ih => exact Anc.step here _ hne (ih hc)

theorem Anc.cases_up {L c : Nat} (h : Anc L c) : c = L ∨ ∃ c', Anc L c' ∧ c' ≠ 0 ∧ c = Merkle.parent c' := by
  induction h with
  | self => exact Or.inl rfl
  | step here c hne h' ih =>
    right
    cases ih with
    | inl e => exact ⟨here, Anc.self here, hne, e⟩
    | inr e =>
      obtain ⟨c', h1, h2, h3⟩ := e
      exact ⟨c', Anc.step here c' hne h1, h2, h3⟩

theorem Anc.depth {L c : Nat} (h : Anc L c) : c = L ∨ depthOf c < depthOf L := by
  induction h with
  | self => exact Or.inl rfl
  | step here c hne _ ih =>
    right
    have := depthOf_parent hne
    cases ih with
    | inl e => rw [e]; omega
    | inr e => omega

theorem mem_neededForAux {f here s : Nat} (hf : here ≤ f) :
    s ∈ neededForAux f here ↔ ∃ c, Anc here c ∧ c ≠ 0 ∧ s = sibling c := by
  induction f generalizing here with
  | zero =>
    have : here = 0 := by omega
    subst this
    simp only [neededForAux, List.not_mem_nil, false_iff]
    intro ⟨c, h1, h2, _⟩
    have := h1.le; omega
  | succ f ih =>
    unfold neededForAux
    by_cases h0 : here = 0
    · subst h0
      simp only [if_true, List.not_mem_nil, false_iff]
      intro ⟨c, h1, h2, _⟩
      have := h1.le; omega
    · simp only [h0, if_false, List.mem_cons]
      have hp := parent_lt h0
      rw [ih (here := Merkle.parent here) (by omega)]
      constructor
      · intro h
        cases h with
        | inl e => exact ⟨here, Anc.self here, h0, e⟩
        | inr e =>
          obtain ⟨c, h1, h2, h3⟩ := e
          exact ⟨c, Anc.step here c h0 h1, h2, h3⟩
      · intro ⟨c, h1, h2, h3⟩
        cases h1 with
        | self => exact Or.inl h3
        | step _ _ _ h1' => exact Or.inr ⟨c, h1', h2, h3⟩

theorem mem_neededFor {L s : Nat} : s ∈ neededFor L ↔ ∃ c, Anc L c ∧ c ≠ 0 ∧ s = sibling c :=
  mem_neededForAux (Nat.le_refl _)

/-! ## the provisional insertion of genuine values succeeds -/

theorem provisional_genuine [DecidableEq H] {ops : HashOps H} (T : Tree H)
    (new : List (Nat × H)) (st : St H)
    (hgen : ∀ i v, (i, v) ∈ new → get T i = some v ∧ i < st.t.length) (hagree : Agree st.t T) :
    ∃ st0, provisional ops new st = .ok st0 ∧ Agree st0.t T := by
  fun_induction provisional ops new st with
  | case1 st => exact ⟨st, rfl, hagree⟩
  | case2 i h rest st hge => have := (hgen i h List.mem_cons_self).2; omega
  | case3 i h rest st hge htr hne =>
    exfalso
    cases hg : get st.t i with
    | none => rw [hg] at htr; simp [truthyOpt] at htr
    | some w =>
      have := hagree i w hg
      rw [(hgen i h List.mem_cons_self).1] at this
      injection this with this; subst this; exact hne hg
  | case4 i h rest st hge htr hne ih =>
    exact ih (fun j v hm => hgen j v (List.mem_cons_of_mem _ hm)) hagree
  | case5 i h rest st hge htr ih =>
    apply ih
    · intro j v hm
      have := hgen j v (List.mem_cons_of_mem _ hm)
      simpa using this
    · intro j w hj
      by_cases e : i = j
      · subst e
        rw [get_set_eq _ (by omega)] at hj
        injection hj with hj; subst hj
        exact (hgen i h List.mem_cons_self).1
      · rw [get_set_ne _ e] at hj; exact hagree j w hj

theorem provisional_red [DecidableEq H] {ops : HashOps H} (new : List (Nat × H)) (st : St H) {st0 : St H}
    (h : provisional ops new st = .ok st0) : ∀ j ∈ st0.red, j ∈ st.red ∨ ∃ v, (j, v) ∈ new := by
  fun_induction provisional ops new st with
  | case1 st => injection h with h; subst h; intro j hj; exact Or.inl hj
  | case2 => cases h
  | case3 => cases h
  | case4 i h' rest st hge htr hne ih =>
    intro j hj
    cases ih h j hj with
    | inl e => exact Or.inl e
    | inr e => obtain ⟨v, hv⟩ := e; exact Or.inr ⟨v, List.mem_cons_of_mem _ hv⟩
  | case5 i h' rest st hge htr ih =>
    intro j hj
    cases ih h j hj with
    | inl e =>
      cases mem_addSet.mp e with
      | inl e' => exact Or.inl e'
      | inr e' => subst e'; exact Or.inr ⟨h', List.mem_cons_self⟩
    | inr e => obtain ⟨v, hv⟩ := e; exact Or.inr ⟨v, List.mem_cons_of_mem _ hv⟩

/-! ## the level loop cannot fail on a genuine chain -/

/-- invariant of the level loop at level `k` while validating the chain of node `L` with genuine values -/
structure CInv (T t0 : Tree H) (L k : Nat) (this : List Nat) (st : St H) : Prop where
  agree : Agree st.t T
  keep : ∀ x, get t0 x ≠ none → get st.t x ≠ none
  sib : ∀ c, Anc L c → c ≠ 0 → get st.t (sibling c) ≠ none
  leaf : get st.t L ≠ none
  red : ∀ j ∈ st.red, Anc L j ∨ ∃ c, Anc L c ∧ c ≠ 0 ∧ j = sibling c
  newp : ∀ j, get st.t j ≠ none → get t0 j ≠ none ∨ j ∈ st.red
  deep : ∀ c, Anc L c → k ≤ depthOf c → get st.t c ≠ none
  par : ∀ c, Anc L c → c ≠ 0 → depthOf c = k → c ∈ this ∨ sibling c ∈ this ∨ get st.t (parent c) ≠ none
  sub : ∀ i ∈ this, i ∈ st.red ∧ depthOf i = k

/-- the computed parent hash is the genuine one -/
theorem genuine_parent {ops : HashOps H} {T t : Tree H} (hT : Genuine ops T) (hagree : Agree t T) {i : Nat}
    (hi : i ≠ 0) {a b : H} (hgi : get t i = some a) (hgs : get t (sibling i) = some b) :
    get T (parent i) = some (if i ≤ sibling i then ops.pair a b else ops.pair b a) := by
  have hc := children_of_parent hi
  have ha := hagree _ _ hgi
  have hb := hagree _ _ hgs
  by_cases hle : i ≤ sibling i
  · obtain ⟨e1, e2⟩ := hc.1 hle
    rw [if_pos hle]
    apply hT.node
    · rw [e1]; exact ha
    · rw [e2]; exact hb
  · obtain ⟨e1, e2⟩ := hc.2 hle
    rw [if_neg hle]
    apply hT.node
    · rw [e1]; exact hb
    · rw [e2]; exact ha


theorem levelLoop_complete [DecidableEq H] {ops : HashOps H} (htr : ∀ h, ops.truthy h = true)
    {T t0 : Tree H} (hT : Genuine ops T) (L k : Nat)
    (pick : List Nat → Nat) (f : Nat) (this : List Nat) (st : St H)
    (hf : this.length ≤ f) (hinv : CInv T t0 L k this st) :
    ∃ st1, levelLoop ops pick f this st = .ok st1 ∧ CInv T t0 L k [] st1 := by
  fun_induction levelLoop ops pick f this st with
  | case1 f st => exact ⟨st, rfl, hinv⟩
  | case2 => simp at hf
  | case3 f head tail st i this hi ih =>
    have hm : i ∈ head :: tail := popChoice_mem pick head tail
    apply ih
    · have h1 : this.length = (head :: tail).length - 1 := List.length_erase_of_mem hm
      have h0 : (head :: tail).length = tail.length + 1 := rfl
      omega
    · refine { hinv with par := ?_, sub := ?_ }
      · intro c hc hc0 hd
        have hs0 := sibling_ne_zero hc0
        rcases hinv.par c hc hc0 hd with h | h | h
        · exact Or.inl (mem_erase_of_mem_ne h (by rw [hi]; exact hc0))
        · exact Or.inr (Or.inl (mem_erase_of_mem_ne h (by rw [hi]; exact hs0)))
        · exact Or.inr (Or.inr h)
      · intro j hj; exact hinv.sub j (List.mem_of_mem_erase hj)
  | case4 f head tail st i hi s hgs =>
    exfalso
    have hm : i ∈ head :: tail := popChoice_mem pick head tail
    have hsub := hinv.sub i hm
    rcases hinv.red i hsub.1 with h | ⟨c, hc, hc0, e⟩
    · exact hinv.sib i h hi hgs
    · have : s = c := by show sibling i = c; rw [e]; exact sibling_sibling hc0
      have hd : depthOf c = k := by rw [← hsub.2, e]; exact (depthOf_sibling hc0).symm
      rw [this] at hgs
      exact hinv.deep c hc (by omega) hgs
  | case5 f head tail st i hi s hs hgs hgi =>
    exfalso
    have hm : i ∈ head :: tail := popChoice_mem pick head tail
    have hsub := hinv.sub i hm
    rcases hinv.red i hsub.1 with h | ⟨c, hc, hc0, e⟩
    · exact hinv.deep i h (by omega) hgi
    · rw [e] at hgi; exact hinv.sib c hc hc0 hgi
  | case6 f head tail st i hi s hs hgs hi' hgi p np htr' hne =>
    exfalso
    have hTp := genuine_parent hT hinv.agree hi hgi hgs
    cases hg : get st.t p with
    | none => rw [hg] at htr'; simp [truthyOpt] at htr'
    | some w =>
      have := hinv.agree p w hg
      rw [hTp] at this
      apply hne; rw [hg, ← this]
  | case7 f head tail st i this hi s hs hgs hi' hgi p np htr' heq ih =>
    have hm : i ∈ head :: tail := popChoice_mem pick head tail
    have hpe : get st.t p = some np := Classical.not_not.mp heq
    apply ih
    · have h1 : this.length = (head :: tail).length - 1 := List.length_erase_of_mem hm
      have h0 : (head :: tail).length = tail.length + 1 := rfl
      have h2 := length_erase_le this s
      omega
    · refine { hinv with par := ?_, sub := ?_ }
      · intro c hc hc0 hd
        have key : ∀ x, x ∈ head :: tail → (x = c ∨ x = sibling c) → x ∈ this.erase s ∨ get st.t (parent c) ≠ none := by
          intro x hx hxc
          by_cases e1 : x = i
          · right
            have : parent c = p := by
              rcases hxc with e | e
              · rw [← e, e1]
              · have : c = sibling i := by rw [← e1, e]; exact (sibling_sibling hc0).symm
                rw [this]; exact parent_sibling hi
            rw [this, hpe]; exact fun e => nomatch e
          · by_cases e2 : x = s
            · right
              have : parent c = p := by
                rcases hxc with e | e
                · rw [← e, e2]; exact parent_sibling hi
                · have : c = i := by
                    have h3 : sibling c = sibling i := by rw [← e, e2]
                    have := congrArg sibling h3
                    rw [sibling_sibling hc0, sibling_sibling hi] at this; exact this
                  rw [this]
              rw [this, hpe]; exact fun e => nomatch e
            · left; exact mem_erase_of_mem_ne (mem_erase_of_mem_ne hx e1) e2
        rcases hinv.par c hc hc0 hd with h | h | h
        · rcases key c h (Or.inl rfl) with h' | h'
          · exact Or.inl h'
          · exact Or.inr (Or.inr h')
        · rcases key (sibling c) h (Or.inr rfl) with h' | h'
          · exact Or.inr (Or.inl h')
          · exact Or.inr (Or.inr h')
        · exact Or.inr (Or.inr h)
      · intro j hj; exact hinv.sub j (List.mem_of_mem_erase (List.mem_of_mem_erase hj))
  | case8 f head tail st i this hi s hs hgs hi' hgi p np htr' ih =>
    have hm : i ∈ head :: tail := popChoice_mem pick head tail
    have hn : get st.t p = none := none_of_not_truthy htr (by simpa using htr')
    have hplt : p < st.t.length := by
      have := lt_of_get_some hgi; have := parent_lt hi; omega
    have hmono : ∀ x, get st.t x ≠ none → get (st.t.set p (some np)) x ≠ none := by
      intro x hx
      by_cases e : p = x
      · subst e; rw [get_set_eq _ hplt]; exact fun e => nomatch e
      · rw [get_set_ne _ e]; exact hx
    have hpp : get (st.t.set p (some np)) p ≠ none := by
      rw [get_set_eq _ hplt]; exact fun e => nomatch e
    have hTp := genuine_parent hT hinv.agree hi hgi hgs
    have hsub := hinv.sub i hm
    apply ih
    · have h1 : this.length = (head :: tail).length - 1 := List.length_erase_of_mem hm
      have h0 : (head :: tail).length = tail.length + 1 := rfl
      have h2 := length_erase_le this s
      omega
    · refine ⟨?_, ?_, ?_, ?_, ?_, ?_, ?_, ?_, ?_⟩
      · intro j w hj
        by_cases e : p = j
        · subst e
          rw [get_set_eq _ hplt] at hj
          injection hj with hj; rw [← hj]; exact hTp
        · rw [get_set_ne _ e] at hj; exact hinv.agree j w hj
      · intro x hx; exact hmono x (hinv.keep x hx)
      · intro c hc hc0; exact hmono _ (hinv.sib c hc hc0)
      · exact hmono _ hinv.leaf
      · intro j hj
        cases mem_addSet.mp hj with
        | inl h => exact hinv.red j h
        | inr h =>
          left
          rcases hinv.red i hsub.1 with h' | ⟨c, hc, hc0, e⟩
          · rw [h]; exact h'.parent hi
          · rw [h]
            have : p = parent c := by show parent i = parent c; rw [e]; exact parent_sibling hc0
            rw [this]; exact hc.parent hc0
      · intro j hj
        by_cases e : p = j
        · right; exact mem_addSet.mpr (Or.inr e.symm)
        · rw [get_set_ne _ e] at hj
          cases hinv.newp j hj with
          | inl h => exact Or.inl h
          | inr h => exact Or.inr (mem_addSet.mpr (Or.inl h))
      · intro c hc hd; exact hmono _ (hinv.deep c hc hd)
      · intro c hc hc0 hd
        have key : ∀ x, x ∈ head :: tail → (x = c ∨ x = sibling c) →
            x ∈ this.erase s ∨ get (st.t.set p (some np)) (parent c) ≠ none := by
          intro x hx hxc
          by_cases e1 : x = i
          · right
            have : parent c = p := by
              rcases hxc with e | e
              · rw [← e, e1]
              · have : c = sibling i := by rw [← e1, e]; exact (sibling_sibling hc0).symm
                rw [this]; exact parent_sibling hi
            rw [this]; exact hpp
          · by_cases e2 : x = s
            · right
              have : parent c = p := by
                rcases hxc with e | e
                · rw [← e, e2]; exact parent_sibling hi
                · have : c = i := by
                    have h3 : sibling c = sibling i := by rw [← e, e2]
                    have := congrArg sibling h3
                    rw [sibling_sibling hc0, sibling_sibling hi] at this; exact this
                  rw [this]
              rw [this]; exact hpp
            · left; exact mem_erase_of_mem_ne (mem_erase_of_mem_ne hx e1) e2
        rcases hinv.par c hc hc0 hd with h | h | h
        · rcases key c h (Or.inl rfl) with h' | h'
          · exact Or.inl h'
          · exact Or.inr (Or.inr h')
        · rcases key (sibling c) h (Or.inr rfl) with h' | h'
          · exact Or.inr (Or.inl h')
          · exact Or.inr (Or.inr h')
        · exact Or.inr (Or.inr (hmono _ h))
      · intro j hj
        have := hinv.sub j (List.mem_of_mem_erase (List.mem_of_mem_erase hj))
        exact ⟨mem_addSet.mpr (Or.inl this.1), this.2⟩

/-- invariant between levels: levels `k-1 … 0` remain to be processed -/
structure DInv (T t0 : Tree H) (L k : Nat) (st : St H) : Prop where
  agree : Agree st.t T
  keep : ∀ x, get t0 x ≠ none → get st.t x ≠ none
  sib : ∀ c, Anc L c → c ≠ 0 → get st.t (sibling c) ≠ none
  leaf : get st.t L ≠ none
  red : ∀ j ∈ st.red, Anc L j ∨ ∃ c, Anc L c ∧ c ≠ 0 ∧ j = sibling c
  newp : ∀ j, get st.t j ≠ none → get t0 j ≠ none ∨ j ∈ st.red
  deep : ∀ c, Anc L c → k ≤ depthOf c + 1 → get st.t c ≠ none

theorem levelsLoop_complete [DecidableEq H] {ops : HashOps H} (htr : ∀ h, ops.truthy h = true)
    {T t0 : Tree H} (hT : Genuine ops T) (hclosed : Closed t0) (L : Nat)
    (pick : List Nat → Nat) (k : Nat) (st : St H) (hinv : DInv T t0 L k st) :
    ∃ st1, levelsLoop ops pick k st = .ok st1 := by
  induction k generalizing st with
  | zero => exact ⟨st, rfl⟩
  | succ k ih =>
    have hc : CInv T t0 L k (thisLevel st k) st := by
      refine ⟨hinv.agree, hinv.keep, hinv.sib, hinv.leaf, hinv.red, hinv.newp, ?_, ?_, ?_⟩
      · intro c hc hd; exact hinv.deep c hc (by omega)
      · intro c hc hc0 hd
        by_cases h1 : c ∈ thisLevel st k
        · exact Or.inl h1
        · by_cases h2 : sibling c ∈ thisLevel st k
          · exact Or.inr (Or.inl h2)
          · right; right
            have hcp := hinv.deep c hc (by omega)
            have hsp := hinv.sib c hc hc0
            have hc0' : get t0 c ≠ none := by
              cases hinv.newp c hcp with
              | inl h => exact h
              | inr h => exact absurd (mem_thisLevel.mpr ⟨h, hd⟩) h1
            have hs0' : get t0 (sibling c) ≠ none := by
              cases hinv.newp _ hsp with
              | inl h => exact h
              | inr h => exact absurd (mem_thisLevel.mpr ⟨h, by rw [depthOf_sibling hc0]; exact hd⟩) h2
            exact hinv.keep _ (hclosed c hc0 hc0' hs0')
      · intro i hi; exact mem_thisLevel.mp hi
    obtain ⟨st1, hres, hc1⟩ := levelLoop_complete htr hT L k pick _ _ st (Nat.le_refl _) hc
    have hd1 : DInv T t0 L k st1 := by
      refine ⟨hc1.agree, hc1.keep, hc1.sib, hc1.leaf, hc1.red, hc1.newp, ?_⟩
      intro c hc hd
      by_cases h1 : k ≤ depthOf c
      · exact hc1.deep c hc h1
      · rcases hc.cases_up with e | ⟨c', hc', hc0', e⟩
        · rw [e]; exact hc1.leaf
        · have hdp := depthOf_parent hc0'
          rw [← e] at hdp
          rcases hc1.par c' hc' hc0' (by omega) with h | h | h
          · cases h
          · cases h
          · rw [e]; exact h
    obtain ⟨st2, h2⟩ := ih st1 hd1
    refine ⟨st2, ?_⟩
    unfold levelsLoop; rw [hres]; exact h2

/-- completeness of the `try:` body: genuine values on the chain of node `L`, covering every unknown sibling
    and `L` itself, are accepted -/
theorem tryBody_complete [DecidableEq H] {ops : HashOps H} (htr : ∀ h, ops.truthy h = true)
    {T t : Tree H} (hT : Genuine ops T) (hlen : t.length = T.length) (hagree : Agree t T)
    (hclosed : Closed t) (L : Nat) (hL : L < t.length) (pick : List Nat → Nat) (new : List (Nat × H))
    (hgen : ∀ i v, (i, v) ∈ new → get T i = some v)
    (hkeys : ∀ i v, (i, v) ∈ new → i ∈ neededFor L ∨ i = L)
    (hcov : ∀ i ∈ neededFor L, get t i = none → ∃ v, (i, v) ∈ new)
    (hleaf : ∃ v, (L, v) ∈ new) : ∃ st1, tryBody ops pick t new = .ok st1 := by
  have hodd : t.length % 2 = 1 := by rw [hlen]; exact hT.odd
  have hrange : ∀ i, i ∈ neededFor L → i < t.length := by
    intro i hi
    obtain ⟨c, hc, hc0, e⟩ := mem_neededFor.mp hi
    rw [e]; exact sibling_lt_len hodd hc0 (by have := hc.le; omega)
  obtain ⟨st0, hres, hag0⟩ := provisional_genuine (ops := ops) T new { t := t, red := [], rm := [] }
    (by
      intro i v hm
      refine ⟨hgen i v hm, ?_⟩
      rcases hkeys i v hm with h | h
      · exact hrange i h
      · rw [h]; exact hL) hagree
  have hr := provisional_reach ops new { t := t, red := [], rm := [] }
  rw [hres] at hr
  have hstored := provisional_stored htr new _ hres
  have hred := provisional_red new _ hres
  have hkeep : ∀ x, get t x ≠ none → get st0.t x ≠ none := by
    intro x hx
    cases hg : get t x with
    | none => exact absurd hg hx
    | some v => exact ne_none_of_some' (hr.mono htr hg)
  have hleaf0 : get st0.t L ≠ none := by
    obtain ⟨v, hv⟩ := hleaf; exact ne_none_of_some' (hstored L v hv)
  have hd : DInv T t L (depthOf (t.length - 1) + 1) st0 := by
    refine ⟨hag0, hkeep, ?_, hleaf0, ?_, ?_, ?_⟩
    · intro c hc hc0
      have hmem : sibling c ∈ neededFor L := mem_neededFor.mpr ⟨c, hc, hc0, rfl⟩
      by_cases hg : get t (sibling c) = none
      · obtain ⟨v, hv⟩ := hcov _ hmem hg
        exact ne_none_of_some' (hstored _ v hv)
      · exact hkeep _ hg
    · intro j hj
      rcases hred j hj with h | ⟨v, hv⟩
      · cases h
      · rcases hkeys j v hv with h | h
        · exact Or.inr (mem_neededFor.mp h)
        · rw [h]; exact Or.inl (Anc.self L)
    · intro j hj; exact hr.newPop hj
    · intro c hc hd
      rcases hc.depth with e | e
      · rw [e]; exact hleaf0
      · have := depthOf_mono (a := L) (b := t.length - 1) (by omega)
        omega
  obtain ⟨st1, h1⟩ := levelsLoop_complete htr hT hclosed L pick _ st0 hd
  refine ⟨st1, ?_⟩
  unfold tryBody; rw [hres]; exact h1

end Tahoe.Base.Merkle
