import Tahoe.Base.LemmasMerkle
/-! `Closed` (node and sibling known ⇒ parent known) is an invariant of successful `set_hashes` calls. -/
namespace Tahoe.Base.Merkle

variable {H : Type}

/-- `j` and its sibling are known but their parent is not -/
def Open (t : Tree H) (j : Nat) : Prop :=
  j ≠ 0 ∧ get t j ≠ none ∧ get t (sibling j) ≠ none ∧ get t (parent j) = none

theorem closed_iff_no_open {t : Tree H} : Closed t ↔ ∀ j, ¬ Open t j := by
  constructor
  · intro h j ⟨h0, h1, h2, h3⟩; exact h j h0 h1 h2 h3
  · intro h i h0 h1 h2 h3; exact h i ⟨h0, h1, h2, h3⟩

/-- an open pair still has a red dot in this level's set, or in a shallower one -/
def OInv (l : Nat) (this : List Nat) (st : St H) : Prop :=
  ∀ j, Open st.t j → (j ∈ this ∨ sibling j ∈ this) ∨ ((j ∈ st.red ∨ sibling j ∈ st.red) ∧ depthOf j < l)

theorem pair_cases {i j : Nat} (hi : i ≠ 0) (hj : j ≠ 0)
    (h : j = i ∨ j = sibling i ∨ sibling j = i ∨ sibling j = sibling i) : parent j = parent i := by
  rcases h with e | e | e | e
  · rw [e]
  · rw [e]; exact parent_sibling hi
  · rw [← e]; exact (parent_sibling hj).symm
  · have := congrArg sibling e
    rw [sibling_sibling hj, sibling_sibling hi] at this; rw [this]

theorem levelLoop_closed [DecidableEq H] {ops : HashOps H} (htr : ∀ h, ops.truthy h = true)
    (pick : List Nat → Nat) (l f : Nat) (this : List Nat) (st : St H) {st1 : St H}
    (h : levelLoop ops pick f this st = .ok st1)
    (hdepth : ∀ i ∈ this, depthOf i = l) (hinv : OInv l this st) : OInv l [] st1 := by
  fun_induction levelLoop ops pick f this st with
  | case1 => injection h with h; subst h; exact hinv
  | case2 => cases h
  | case3 f head tail st i this hi ih =>
    apply ih h (fun x hx => hdepth x (List.mem_of_mem_erase hx))
    intro j hj
    rcases hinv j hj with h1 | h1
    · left
      rcases h1 with h1 | h1
      · exact Or.inl (mem_erase_of_mem_ne h1 (by rw [hi]; exact hj.1))
      · exact Or.inr (mem_erase_of_mem_ne h1 (by rw [hi]; exact sibling_ne_zero hj.1))
    · exact Or.inr h1
  | case4 => cases h
  | case5 => cases h
  | case6 => cases h
  | case7 f head tail st i this hi s hs hgs hi' hgi p np htr' heq ih =>
    have hpe : get st.t p = some np := Classical.not_not.mp heq
    apply ih h (fun x hx => hdepth x (List.mem_of_mem_erase (List.mem_of_mem_erase hx)))
    intro j hj
    have hnp : parent j ≠ p := by
      intro e; have := hj.2.2.2; rw [e, hpe] at this; cases this
    have hne : ∀ x, (x = j ∨ x = sibling j) → x ≠ i ∧ x ≠ s := by
      intro x hx
      constructor
      · intro e; apply hnp
        rcases hx with e' | e'
        · exact pair_cases hi hj.1 (Or.inl (by rw [← e', e]))
        · exact pair_cases hi hj.1 (Or.inr (Or.inr (Or.inl (by rw [← e', e]))))
      · intro e; apply hnp
        rcases hx with e' | e'
        · exact pair_cases hi hj.1 (Or.inr (Or.inl (by rw [← e', e])))
        · exact pair_cases hi hj.1 (Or.inr (Or.inr (Or.inr (by rw [← e', e]))))
    rcases hinv j hj with h1 | h1
    · left
      rcases h1 with h1 | h1
      · have := hne j (Or.inl rfl)
        exact Or.inl (mem_erase_of_mem_ne (mem_erase_of_mem_ne h1 this.1) this.2)
      · have := hne (sibling j) (Or.inr rfl)
        exact Or.inr (mem_erase_of_mem_ne (mem_erase_of_mem_ne h1 this.1) this.2)
    · exact Or.inr h1
  | case8 f head tail st i this hi s hs hgs hi' hgi p np htr' ih =>
    have hm_i : i ∈ head :: tail := popChoice_mem pick head tail
    have hn : get st.t p = none := none_of_not_truthy htr (by simpa using htr')
    have hplt : p < st.t.length := by
      have := lt_of_get_some hgi; have := parent_lt hi; omega
    have hdp : depthOf p + 1 = l := by
      show depthOf (parent i) + 1 = l
      have := depthOf_parent hi; have := hdepth i hm_i; omega
    apply ih h (fun x hx => hdepth x (List.mem_of_mem_erase (List.mem_of_mem_erase hx)))
    intro j hj
    by_cases e1 : j = p
    · right; exact ⟨Or.inl (mem_addSet.mpr (Or.inr e1)), by rw [e1]; omega⟩
    · by_cases e2 : sibling j = p
      · right
        refine ⟨Or.inr (mem_addSet.mpr (Or.inr e2)), ?_⟩
        have := depthOf_sibling hj.1; rw [e2] at this; omega
      · have hnp : parent j ≠ p := by
          intro e; have := hj.2.2.2; rw [e, get_set_eq _ hplt] at this; cases this
        have hj' : Open st.t j := by
          obtain ⟨h0, h1, h2, h3⟩ := hj
          refine ⟨h0, ?_, ?_, ?_⟩
          · simpa [get_set_ne _ (Ne.symm e1)] using h1
          · simpa [get_set_ne _ (Ne.symm e2)] using h2
          · simpa [get_set_ne _ (Ne.symm hnp)] using h3
        have hne : ∀ x, (x = j ∨ x = sibling j) → x ≠ i ∧ x ≠ s := by
          intro x hx
          constructor
          · intro e; apply hnp
            rcases hx with e' | e'
            · exact pair_cases hi hj.1 (Or.inl (by rw [← e', e]))
            · exact pair_cases hi hj.1 (Or.inr (Or.inr (Or.inl (by rw [← e', e]))))
          · intro e; apply hnp
            rcases hx with e' | e'
            · exact pair_cases hi hj.1 (Or.inr (Or.inl (by rw [← e', e])))
            · exact pair_cases hi hj.1 (Or.inr (Or.inr (Or.inr (by rw [← e', e]))))
        rcases hinv j hj' with h1 | h1
        · left
          rcases h1 with h1 | h1
          · have := hne j (Or.inl rfl)
            exact Or.inl (mem_erase_of_mem_ne (mem_erase_of_mem_ne h1 this.1) this.2)
          · have := hne (sibling j) (Or.inr rfl)
            exact Or.inr (mem_erase_of_mem_ne (mem_erase_of_mem_ne h1 this.1) this.2)
        · right
          refine ⟨?_, h1.2⟩
          rcases h1.1 with h1 | h1
          · exact Or.inl (mem_addSet.mpr (Or.inl h1))
          · exact Or.inr (mem_addSet.mpr (Or.inl h1))

theorem levelsLoop_closed [DecidableEq H] {ops : HashOps H} (htr : ∀ h, ops.truthy h = true)
    (pick : List Nat → Nat) (k : Nat) (st : St H) {st1 : St H}
    (h : levelsLoop ops pick k st = .ok st1) (hinv : OInv k [] st) : OInv 0 [] st1 := by
  induction k generalizing st with
  | zero => injection h with h; subst h; exact hinv
  | succ k ih =>
    unfold levelsLoop at h
    cases hres : levelLoop ops pick (thisLevel st k).length (thisLevel st k) st with
    | error e => rw [hres] at h; cases h
    | ok st' =>
      rw [hres] at h
      have h1 : OInv k (thisLevel st k) st := by
        intro j hj
        rcases hinv j hj with h1 | h1
        · rcases h1 with h1 | h1 <;> cases h1
        · by_cases e : depthOf j = k
          · left
            rcases h1.1 with h2 | h2
            · exact Or.inl (mem_thisLevel.mpr ⟨h2, e⟩)
            · exact Or.inr (mem_thisLevel.mpr ⟨h2, by rw [depthOf_sibling hj.1]; exact e⟩)
          · right; exact ⟨h1.1, by have := h1.2; omega⟩
      exact ih st' h (levelLoop_closed htr pick k _ _ st hres (fun i hi => (mem_thisLevel.mp hi).2) h1)

/-- a successful `try:` body keeps the tree closed -/
theorem tryBody_closed [DecidableEq H] {ops : HashOps H} (htr : ∀ h, ops.truthy h = true)
    (pick : List Nat → Nat) (t : Tree H) (new : List (Nat × H)) (hclosed : Closed t) {st1 : St H}
    (h : tryBody ops pick t new = .ok st1) : Closed st1.t := by
  unfold tryBody at h
  have hr := provisional_reach ops new { t := t, red := [], rm := [] }
  cases hres : provisional ops new { t := t, red := [], rm := [] } with
  | error e => rw [hres] at h; cases h
  | ok st0 =>
    rw [hres] at h hr
    have hr' : Reach ops { t := t, red := [], rm := [] } st0 := hr
    have hinv : OInv (depthOf (t.length - 1) + 1) [] st0 := by
      intro j ⟨h0, h1, h2, h3⟩
      right
      have hjl : j < t.length := by
        have := lt_of_get_ne_none h1
        have e : st0.t.length = t.length := hr'.length_eq
        omega
      refine ⟨?_, by have := depthOf_mono (a := j) (b := t.length - 1) (by omega); omega⟩
      cases hr'.newPop h1 with
      | inr hred => exact Or.inl hred
      | inl hj0 =>
        cases hr'.newPop h2 with
        | inr hred => exact Or.inr hred
        | inl hs0 =>
          exfalso
          have hp := hclosed j h0 hj0 hs0
          cases hg : get t (parent j) with
          | none => exact hp hg
          | some w => have := hr'.mono htr (a := { t := t, red := [], rm := [] }) hg; rw [h3] at this; cases this
    have hfin := levelsLoop_closed htr pick _ st0 h hinv
    apply closed_iff_no_open.mpr
    intro j hj
    rcases hfin j hj with h1 | h1
    · rcases h1 with h1 | h1 <;> cases h1
    · exact absurd h1.2 (Nat.not_lt_zero _)

theorem newTree_closed (n : Nat) : Closed (newTree H n) := by
  intro i _ h1
  exfalso; apply h1
  unfold newTree get
  cases h : (List.replicate (2 * roundupPow2 n - 1) (none : Option H))[i]? with
  | none => rfl
  | some v =>
    have := List.mem_of_getElem? h
    rw [List.mem_replicate] at this
    rw [this.2]; rfl

end Tahoe.Base.Merkle
