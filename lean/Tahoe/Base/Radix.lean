/-
Positional number systems with a fixed number of digits (Mathlib-free).

`toLE b w n` = the `w` least significant base-`b` digits of `n`, least significant first — the shape of
every "value % b; value //= b" loop in the code base (`base62.b2a_l`, `base62.a2b_l`, `struct.pack`).
`ofLE b ds` = the value of a little-endian digit list — the shape of every
"value += d * numvalues; numvalues *= b" loop.  Big-endian variants are the reversals.
-/
namespace Tahoe.Base.Radix

/-- the `w` least significant base-`b` digits of `n`, least significant first -/
def toLE (b : Nat) : Nat → Nat → List Nat
  | 0, _ => []
  | w + 1, n => n % b :: toLE b w (n / b)

/-- value of a little-endian digit list -/
def ofLE (b : Nat) : List Nat → Nat
  | [] => 0
  | d :: ds => d + b * ofLE b ds

/-- exactly `w` digits, most significant first (`n` taken modulo `b^w`) -/
def toBE (b w n : Nat) : List Nat := (toLE b w n).reverse

/-- value of a big-endian digit list -/
def ofBE (b : Nat) (ds : List Nat) : Nat := ofLE b ds.reverse

@[simp] theorem length_toLE (b w n : Nat) : (toLE b w n).length = w := by
  induction w generalizing n with
  | zero => rfl
  | succ w ih => simp [toLE, ih]

@[simp] theorem length_toBE (b w n : Nat) : (toBE b w n).length = w := by
  simp [toBE]

theorem toLE_lt {b : Nat} (hb : 0 < b) (w n : Nat) : ∀ d ∈ toLE b w n, d < b := by
  induction w generalizing n with
  | zero => intro d h; simp [toLE] at h
  | succ w ih =>
    intro d h
    simp only [toLE, List.mem_cons] at h
    rcases h with h | h
    · subst h; exact Nat.mod_lt _ hb
    · exact ih _ d h

theorem toBE_lt {b : Nat} (hb : 0 < b) (w n : Nat) : ∀ d ∈ toBE b w n, d < b := by
  intro d h
  exact toLE_lt hb w n d (by simpa [toBE] using h)

/-- reading back the digits gives the value modulo `b^w` -/
theorem ofLE_toLE (b w n : Nat) : ofLE b (toLE b w n) = n % b ^ w := by
  induction w generalizing n with
  | zero => simp [toLE, ofLE, Nat.mod_one]
  | succ w ih =>
    simp only [toLE, ofLE, ih]
    rw [Nat.pow_succ, Nat.mul_comm (b ^ w) b, Nat.mod_mul]

theorem ofLE_toLE_of_lt {b w n : Nat} (h : n < b ^ w) : ofLE b (toLE b w n) = n := by
  rw [ofLE_toLE, Nat.mod_eq_of_lt h]

theorem ofBE_toBE_of_lt {b w n : Nat} (h : n < b ^ w) : ofBE b (toBE b w n) = n := by
  simp [ofBE, toBE, ofLE_toLE_of_lt h]

theorem ofBE_toBE (b w n : Nat) : ofBE b (toBE b w n) = n % b ^ w := by
  simp [ofBE, toBE, ofLE_toLE]

/-- a digit list is the digit list of its value (canonicity of fixed-width positional notation) -/
theorem toLE_ofLE {b : Nat} (ds : List Nat) (h : ∀ d ∈ ds, d < b) :
    toLE b ds.length (ofLE b ds) = ds := by
  induction ds with
  | nil => rfl
  | cons d ds ih =>
    have hd : d < b := h d List.mem_cons_self
    have hb : 0 < b := by omega
    have ih' := ih (fun x hx => h x (List.mem_cons_of_mem _ hx))
    simp only [List.length_cons, toLE, ofLE]
    have h1 : (d + b * ofLE b ds) % b = d := by
      rw [Nat.add_mul_mod_self_left]; exact Nat.mod_eq_of_lt hd
    have h2 : (d + b * ofLE b ds) / b = ofLE b ds := by
      rw [Nat.add_mul_div_left _ _ hb, Nat.div_eq_of_lt hd, Nat.zero_add]
    rw [h1, h2, ih']

theorem toBE_ofBE {b : Nat} (ds : List Nat) (h : ∀ d ∈ ds, d < b) :
    toBE b ds.length (ofBE b ds) = ds := by
  have := toLE_ofLE (b := b) ds.reverse (by intro d hd; exact h d (by simpa using hd))
  simp only [List.length_reverse] at this
  simp [toBE, ofBE, this]

theorem ofLE_lt {b : Nat} (ds : List Nat) (h : ∀ d ∈ ds, d < b) : ofLE b ds < b ^ ds.length := by
  induction ds with
  | nil => simp [ofLE]
  | cons d ds ih =>
    have hd : d < b := h d List.mem_cons_self
    have ih' := ih (fun x hx => h x (List.mem_cons_of_mem _ hx))
    simp only [ofLE, List.length_cons, Nat.pow_succ]
    calc d + b * ofLE b ds < b + b * ofLE b ds := by omega
      _ = b * (ofLE b ds + 1) := by rw [Nat.mul_add, Nat.mul_one, Nat.add_comm]
      _ ≤ b * b ^ ds.length := Nat.mul_le_mul_left _ ih'
      _ = b ^ ds.length * b := Nat.mul_comm _ _

theorem ofBE_lt {b : Nat} (ds : List Nat) (h : ∀ d ∈ ds, d < b) : ofBE b ds < b ^ ds.length := by
  have := ofLE_lt (b := b) ds.reverse (by intro d hd; exact h d (by simpa using hd))
  simpa [ofBE] using this

theorem ofLE_append (b : Nat) (xs ys : List Nat) :
    ofLE b (xs ++ ys) = ofLE b xs + b ^ xs.length * ofLE b ys := by
  induction xs with
  | nil => simp [ofLE]
  | cons x xs ih =>
    simp only [List.cons_append, ofLE, ih, List.length_cons, Nat.pow_succ]
    rw [Nat.mul_add, Nat.add_assoc, Nat.mul_comm (b ^ xs.length) b, Nat.mul_assoc]

/-- big-endian value of a concatenation -/
theorem ofBE_append (b : Nat) (xs ys : List Nat) :
    ofBE b (xs ++ ys) = ofBE b xs * b ^ ys.length + ofBE b ys := by
  simp only [ofBE, List.reverse_append, ofLE_append, List.length_reverse]
  rw [Nat.add_comm, Nat.mul_comm]

/-- injectivity of fixed-width notation -/
theorem toBE_inj {b w m n : Nat} (hm : m < b ^ w) (hn : n < b ^ w) (h : toBE b w m = toBE b w n) :
    m = n := by
  have := congrArg (ofBE b) h
  rwa [ofBE_toBE_of_lt hm, ofBE_toBE_of_lt hn] at this

end Tahoe.Base.Radix
