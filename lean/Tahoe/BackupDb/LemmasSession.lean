import Tahoe.BackupDb.Session
import Tahoe.BackupDb.LemmasDir
/-! Helper lemmas for C42: the `caps` table (fileid allocation) along histories, and the session level. -/
namespace Tahoe.BackupDb

variable {K : Type} [DecidableEq K]

/-! ### the caps table along a history -/

/-- `filecap UNIQUE`: a cap has at most one fileid -/
def CapsUnique (caps : List (Nat × Bytes)) : Prop :=
  ∀ i j c, (i, c) ∈ caps → (j, c) ∈ caps → i = j

theorem findId_none_not_mem (cap : Bytes) (caps : List (Nat × Bytes)) (h : findId cap caps = none) :
    ∀ i, (i, cap) ∉ caps := by
  induction caps with
  | nil => simp
  | cons p r ih =>
    obtain ⟨j, c⟩ := p
    by_cases hc : c = cap
    · simp [findId, hc] at h
    · simp [findId, hc] at h
      intro i hm
      rcases List.mem_cons.mp hm with hm | hm
      · cases hm; exact hc rfl
      · exact ih h i hm

omit [DecidableEq K] in
theorem alloc_mem_mono (db : Db K) (cap : Bytes) (i : Nat) (c : Bytes) (h : (i, c) ∈ db.caps) :
    (i, c) ∈ (alloc db cap).1.caps := by
  unfold alloc
  split
  · exact h
  · simp [h]

omit [DecidableEq K] in
theorem alloc_unique (db : Db K) (cap : Bytes) (h : CapsUnique db.caps) : CapsUnique (alloc db cap).1.caps := by
  unfold alloc
  cases hf : findId cap db.caps with
  | some i => exact h
  | none =>
    have hn := findId_none_not_mem cap db.caps hf
    intro i j c hi hj
    simp only [List.mem_append, List.mem_singleton, Prod.mk.injEq] at hi hj
    rcases hi with hi | ⟨rfl, rfl⟩ <;> rcases hj with hj | ⟨hj1, hj2⟩
    · exact h i j c hi hj
    · subst hj2; exact absurd hi (hn i)
    · exact absurd hj (hn j)
    · exact hj1.symm

omit [DecidableEq K] in
theorem alloc_result_mem (db : Db K) (cap : Bytes) : ((alloc db cap).2, cap) ∈ (alloc db cap).1.caps := by
  unfold alloc
  cases hf : findId cap db.caps with
  | some i => exact findId_mem cap db.caps i hf
  | none => simp

/-- every step either leaves `caps` alone or performs one `alloc` -/
theorem step_caps (H : Bytes → K) (db : Db K) (op : Op) :
    (step H db op).caps = db.caps ∨ ∃ cap, (step H db op).caps = (alloc db cap).1.caps := by
  cases op with
  | checkFile p st ts now rnd =>
    left; simp only [step]; unfold checkFile; (repeat' split) <;> simp
  | didUpload cap p m c s now => right; exact ⟨cap, by simp [step, didUploadFile]⟩
  | didCheckHealthy cap now =>
    right; refine ⟨cap, ?_⟩
    simp only [step]; unfold didCheckFileHealthy; simp only; split <;> simp
  | checkDir c now rnd => left; rfl
  | didCreateDir d c now => left; rfl
  | didCheckDirHealthy d now => left; rfl

theorem run_snoc (H : Bytes → K) (ops : List Op) (op : Op) : run H (ops ++ [op]) = step H (run H ops) op := by
  simp [run]

theorem run_append (H : Bytes → K) (ops more : List Op) :
    run H (ops ++ more) = more.foldl (step H) (run H ops) := by
  simp [run]

theorem caps_unique_foldl (H : Bytes → K) (ops : List Op) (db : Db K) (h : CapsUnique db.caps) :
    CapsUnique (ops.foldl (step H) db).caps := by
  induction ops generalizing db with
  | nil => exact h
  | cons op rest ih =>
    apply ih
    rcases step_caps H db op with h2 | ⟨cap, h2⟩
    · rw [h2]; exact h
    · rw [h2]; exact alloc_unique db cap h

theorem caps_unique_run (H : Bytes → K) (ops : List Op) : CapsUnique (run H ops).caps :=
  caps_unique_foldl H ops {} (by intro i j c h; simp at h)

theorem caps_mono_foldl (H : Bytes → K) (more : List Op) (db : Db K) (i : Nat) (c : Bytes)
    (h : (i, c) ∈ db.caps) : (i, c) ∈ (more.foldl (step H) db).caps := by
  induction more generalizing db with
  | nil => exact h
  | cons op rest ih =>
    apply ih
    rcases step_caps H db op with h2 | ⟨cap, h2⟩
    · rw [h2]; exact h
    · rw [h2]; exact alloc_mem_mono db cap i c h

/-! ### sessions -/

omit [DecidableEq K] in
theorem checkFile_result_fields (db : Db K) (p : Bytes) (st : Stat) (ts : Bool) (now : Int) (rnd : Nat) :
    (checkFile db p st ts now rnd).2.path = p ∧ (checkFile db p st ts now rnd).2.size = st.size
      ∧ (checkFile db p st ts now rnd).2.mtime = st.mtime ∧ (checkFile db p st ts now rnd).2.ctime = st.ctime := by
  unfold checkFile
  (repeat' split) <;> simp

def SessInv (H : Bytes → K) (s : Sess K) : Prop :=
  s.db = run H s.trace.reverse ∧ ∀ rc ∈ s.dres, rc.1.dirhash = H (dirData rc.2)

theorem sessInv_step (H : Bytes → K) (s : Sess K) (op : SOp) (h : SessInv H s) : SessInv H (sstep H s op) := by
  obtain ⟨hdb, hd⟩ := h
  cases op with
  | check p st ts now rnd =>
    refine ⟨?_, hd⟩
    simp only [sstep, List.reverse_cons, run_snoc, step, ← hdb]
  | uploadVia k cap now =>
    simp only [sstep]
    split
    · refine ⟨?_, hd⟩
      simp only [List.reverse_cons, run_snoc, step, ← hdb, FileResult.didUpload]
    · exact ⟨hdb, hd⟩
  | healthyVia k now =>
    simp only [sstep]
    split
    · split
      · rename_i r _ c hc
        refine ⟨?_, hd⟩
        simp only [List.reverse_cons, run_snoc, step, ← hdb, FileResult.didCheckHealthy, hc]
      · exact ⟨hdb, hd⟩
    · exact ⟨hdb, hd⟩
  | checkDir c now rnd =>
    refine ⟨?_, ?_⟩
    · simp only [sstep, List.reverse_cons, run_snoc, step, ← hdb]
    · intro rc hm
      simp only [sstep, List.mem_append, List.mem_singleton] at hm
      rcases hm with hm | rfl
      · exact hd rc hm
      · simp [checkDirectory]; split <;> rfl
  | createVia k d now =>
    simp only [sstep]
    split
    · rename_i r c hk
      have hm : (r, c) ∈ s.dres := List.mem_of_getElem? hk
      have := hd (r, c) hm
      refine ⟨?_, hd⟩
      simp only [List.reverse_cons, run_snoc, step, ← hdb, DirResult.didCreate]
      simp only at this
      rw [this]
    · exact ⟨hdb, hd⟩
  | dirHealthyVia k now =>
    simp only [sstep]
    split
    · split
      · rename_i r _ _ d hc
        refine ⟨?_, hd⟩
        simp only [List.reverse_cons, run_snoc, step, ← hdb, DirResult.didCheckHealthy, hc]
      · exact ⟨hdb, hd⟩
    · exact ⟨hdb, hd⟩
  | api op =>
    refine ⟨?_, hd⟩
    simp only [sstep, List.reverse_cons, run_snoc, ← hdb]

theorem sessInv_run (H : Bytes → K) (sops : List SOp) : SessInv H (srun H sops) := by
  unfold srun
  have h0 : SessInv H ({} : Sess K) := ⟨by simp [run], by intro rc h; simp at h⟩
  generalize ({} : Sess K) = s at h0
  induction sops generalizing s with
  | nil => exact h0
  | cons op rest ih => exact ih _ (sessInv_step H s op h0)

/-- what the handed-out `FileResult`s carry is what their `check` steps sampled -/
theorem fres_foldl (H : Bytes → K) (sops : List SOp) (s : Sess K) :
    ((sops.foldl (sstep H) s).fres.map (fun r => (r.path, Stat.mk r.size r.mtime r.ctime)))
      = s.fres.map (fun r => (r.path, Stat.mk r.size r.mtime r.ctime)) ++ checksOf sops := by
  induction sops generalizing s with
  | nil => simp [checksOf]
  | cons op rest ih =>
    rw [List.foldl_cons, ih]
    cases op with
    | check p st ts now rnd =>
      obtain ⟨h1, h2, h3, h4⟩ := checkFile_result_fields s.db p st ts now rnd
      simp [sstep, checksOf, h1, h2, h3, h4]
    | uploadVia k cap now => simp only [sstep, checksOf]; split <;> rfl
    | healthyVia k now => simp only [sstep, checksOf]; (repeat' split) <;> rfl
    | checkDir c now rnd => simp [sstep, checksOf]
    | createVia k d now => simp only [sstep, checksOf]; split <;> rfl
    | dirHealthyVia k now => simp only [sstep, checksOf]; (repeat' split) <;> rfl
    | api op => simp [sstep, checksOf]

/-! ### run level -/

omit [DecidableEq K] in
theorem checkFile_caps (db : Db K) (p : Bytes) (st : Stat) (ts : Bool) (now : Int) (rnd : Nat) :
    (checkFile db p st ts now rnd).1.caps = db.caps ∧ (checkFile db p st ts now rnd).1.nextId = db.nextId := by
  unfold checkFile
  (repeat' split) <;> simp

omit [DecidableEq K] in
/-- with `use_timestamps=False` `check_file` never reports a cap -/
theorem checkFile_no_ts_none (db : Db K) (p : Bytes) (st : Stat) (now : Int) (rnd : Nat) :
    (checkFile db p st false now rnd).2.filecap = none := by
  unfold checkFile
  (repeat' split) <;> simp_all

omit [DecidableEq K] in
/-- right after `did_upload_file(cap, path, mtime, ctime, size)` a `check_file` that sees the same stat reports `cap` -/
theorem checkFile_after_upload (db : Db K) (hok : CapsOk db.caps db.nextId) (cap p : Bytes) (st : Stat)
    (now now' : Int) (rnd : Nat) :
    (checkFile (didUploadFile db cap p st.mtime st.ctime st.size now) p st true now' rnd).2.filecap = some cap := by
  obtain ⟨_, a2, _, _, _⟩ := alloc_spec db cap hok
  unfold checkFile
  simp only [didUploadFile, get_put_same, a2]
  simp

theorem sstep_check_fres (H : Bytes → K) (s : Sess K) (p : Bytes) (st : Stat) (ts : Bool) (now : Int) (rnd : Nat) :
    (sstep H s (.check p st ts now rnd)).fres[s.fres.length]? = some (checkFile s.db p st ts now rnd).2
      ∧ (sstep H s (.check p st ts now rnd)).db = (checkFile s.db p st ts now rnd).1 := by
  simp [sstep]

/-- sessions reachable by `sstep`s from the fresh one -/
def Reach (H : Bytes → K) (s : Sess K) : Prop := ∃ sops, s = srun H sops

theorem reach_sstep (H : Bytes → K) (s : Sess K) (op : SOp) (h : Reach H s) : Reach H (sstep H s op) := by
  obtain ⟨sops, rfl⟩ := h
  exact ⟨sops ++ [op], by simp [srun]⟩

theorem reach_toolFileStep (H : Bytes → K) (s : Sess K) (h : Reach H s) (p : Bytes) (st : Stat) (ign : Bool)
    (cap : Bytes) (healthy : Bool) (now : Int) (rnd : Nat) :
    Reach H (toolFileStep H s p st ign cap healthy now rnd).1 := by
  have h1 := reach_sstep H s (.check p st (!ign) now rnd) h
  unfold toolFileStep
  simp only
  (repeat' split) <;> (try dsimp only) <;> first | exact h1 | exact reach_sstep H _ _ h1

theorem reach_toolDirStep (H : Bytes → K) (s : Sess K) (h : Reach H s) (c : List Entry) (d : Bytes)
    (healthy : Bool) (now : Int) (rnd : Nat) : Reach H (toolDirStep H s c d healthy now rnd).1 := by
  have h1 := reach_sstep H s (.checkDir c now rnd) h
  unfold toolDirStep
  simp only
  (repeat' split) <;> (try dsimp only) <;> first | exact h1 | exact reach_sstep H _ _ h1

theorem reach_trun (H : Bytes → K) (rs : List RunStep) : Reach H (trun H rs) := by
  unfold trun
  have h0 : Reach H ({} : Sess K) := ⟨[], rfl⟩
  generalize ({} : Sess K) = s at h0
  induction rs generalizing s with
  | nil => exact h0
  | cons r rest ih =>
    apply ih
    cases r with
    | file p st ign cap healthy now rnd => exact reach_toolFileStep H s h0 p st ign cap healthy now rnd
    | dir c d healthy now rnd => exact reach_toolDirStep H s h0 c d healthy now rnd

theorem sstep_checkDir_dres (H : Bytes → K) (s : Sess K) (c : List Entry) (now : Int) (rnd : Nat) :
    (sstep H s (.checkDir c now rnd)).dres[s.dres.length]? = some (checkDirectory H s.db c now rnd, c) := by
  simp [sstep]

end Tahoe.BackupDb
