import Tahoe.BackupDb
/-!
Session level of the C42 model: how the backup tool uses `BackupDB_v2` — through the result objects.

`check_file` / `check_directory` hand out `FileResult` / `DirectoryResult` objects; the tool later calls
`did_upload`, `did_check_healthy`, `did_create` *on those objects* (tahoe_backup.py `BackerUpper.upload`,
`upload_directory`, `check_backupdb_file`, `check_backupdb_directory`), possibly much later and possibly on an old
object.  A session keeps the handed-out objects; every step also appends the API call it amounts to to `trace`
(most recent first), which is what the history theorems of `Tahoe/Props/C42.lean` talk about.
The file system does not appear: the `os.stat` triple seen by each `check_file` is an argument, so quantifying over
all sessions quantifies over all histories of file changes between the calls (including writes between a
`check_file` and the `did_upload` on its result).
-/
namespace Tahoe.BackupDb

variable {K : Type} [DecidableEq K]

/-- `DirectoryResult.did_create(dircap)`: `self.bdb.did_create_directory(dircap, self.dirhash)` -/
def DirResult.didCreate (r : DirResult K) (db : Db K) (dircap : Bytes) (now : Int) : Db K :=
  didCreateDirectory db dircap r.dirhash now

/-- `DirectoryResult.did_check_healthy(results)`: `did_check_directory_healthy(self.dircap, results)`;
    with `dircap is None` the `UPDATE … WHERE dircap=NULL` matches no row. -/
def DirResult.didCheckHealthy (r : DirResult K) (db : Db K) (now : Int) : Db K :=
  match r.dircap with
  | some d => didCheckDirectoryHealthy db d now
  | none => db

/-- `FileResult.did_check_healthy(results)`: `did_check_file_healthy(self.filecap, results)`.
    Deviation: on a result without a cap the real code raises `AssertionError` (API misuse: the tool only calls it
    after `was_uploaded()` returned a cap); the model leaves the database unchanged and the harness never does it. -/
def FileResult.didCheckHealthy (r : FileResult) (db : Db K) (now : Int) : Db K :=
  match r.filecap with
  | some c => didCheckFileHealthy db c now
  | none => db

structure Sess (K : Type) where
  db : Db K := {}
  /-- the `FileResult`s handed out so far, oldest first -/
  fres : List FileResult := []
  /-- the `DirectoryResult`s handed out so far, with the contents they were computed from -/
  dres : List (DirResult K × List Entry) := []
  /-- the API calls made so far, most recent first -/
  trace : List Op := []

/-- one step of the backup tool -/
inductive SOp
  | check (path : Bytes) (st : Stat) (useTs : Bool) (now : Int) (rnd : Nat)
  | uploadVia (k : Nat) (cap : Bytes) (now : Int)       -- `fres[k].did_upload(cap)`
  | healthyVia (k : Nat) (now : Int)                    -- `fres[k].did_check_healthy(…)`
  | checkDir (contents : List Entry) (now : Int) (rnd : Nat)
  | createVia (k : Nat) (dircap : Bytes) (now : Int)    -- `dres[k].did_create(dircap)`
  | dirHealthyVia (k : Nat) (now : Int)                 -- `dres[k].did_check_healthy(…)`
  | api (op : Op)                                       -- a direct call of a `BackupDB_v2` method

def sstep (H : Bytes → K) (s : Sess K) : SOp → Sess K
  | .check p st ts now rnd =>
    let (db', r) := checkFile s.db p st ts now rnd
    { s with db := db', fres := s.fres ++ [r], trace := .checkFile p st ts now rnd :: s.trace }
  | .uploadVia k cap now =>
    match s.fres[k]? with
    | some r => { s with db := r.didUpload s.db cap now
                         trace := .didUpload cap r.path r.mtime r.ctime r.size now :: s.trace }
    | none => s
  | .healthyVia k now =>
    match s.fres[k]? with
    | some r =>
      match r.filecap with
      | some c => { s with db := r.didCheckHealthy s.db now, trace := .didCheckHealthy c now :: s.trace }
      | none => s
    | none => s
  | .checkDir c now rnd =>
    { s with dres := s.dres ++ [(checkDirectory H s.db c now rnd, c)], trace := .checkDir c now rnd :: s.trace }
  | .createVia k d now =>
    match s.dres[k]? with
    | some (r, c) => { s with db := r.didCreate s.db d now, trace := .didCreateDir d c now :: s.trace }
    | none => s
  | .dirHealthyVia k now =>
    match s.dres[k]? with
    | some (r, _) =>
      match r.dircap with
      | some d => { s with db := r.didCheckHealthy s.db now, trace := .didCheckDirHealthy d now :: s.trace }
      | none => s
    | none => s
  | .api op => { s with db := step H s.db op, trace := op :: s.trace }

def srun (H : Bytes → K) (sops : List SOp) : Sess K := sops.foldl (sstep H) {}

/-- One file of one `tahoe backup` run, as far as the database is concerned: tahoe_backup.py
    `BackerUpper.upload` → `check_backupdb_file` (`use_timestamps = not options["ignore-timestamps"]`,
    `check_file`, `was_uploaded`, `should_check`, the `t=check` POST answering `healthy`, `did_check_healthy`)
    and, when the file must be uploaded, the PUT yielding `newcap` followed by `bdb_results.did_upload(newcap)`.
    An `--ignore-timestamps` run goes through the very same calls (so that the stale row is replaced).
    Result: the session, whether the file was uploaded, and the cap the run uses for it. -/
def toolFileStep (H : Bytes → K) (s : Sess K) (path : Bytes) (st : Stat) (ignoreTs : Bool) (newcap : Bytes)
    (healthy : Bool) (now : Int) (rnd : Nat) : Sess K × Bool × Bytes :=
  let k := s.fres.length
  let s1 := sstep H s (.check path st (!ignoreTs) now rnd)
  match s1.fres[k]? with
  | none => (s1, true, newcap)                       -- unreachable: `check` appends the k-th result
  | some r =>
    match r.wasUploaded with
    | none => (sstep H s1 (.uploadVia k newcap now), true, newcap)
    | some c =>
      if r.shouldCheck = false then (s1, false, c)
      else if healthy then (sstep H s1 (.healthyVia k now), false, c)
      else (sstep H s1 (.uploadVia k newcap now), true, newcap)

/-- One directory of one run: `BackerUpper.upload_directory` → `check_backupdb_directory` (`check_directory`,
    `was_created`, `should_check`, `t=check`, `did_check_healthy`) and, when it must be created, `mkdir` yielding
    `newdircap` followed by `r.did_create(newdircap)`. -/
def toolDirStep (H : Bytes → K) (s : Sess K) (contents : List Entry) (newdircap : Bytes) (healthy : Bool)
    (now : Int) (rnd : Nat) : Sess K × Bool × Bytes :=
  let k := s.dres.length
  let s1 := sstep H s (.checkDir contents now rnd)
  match s1.dres[k]? with
  | none => (s1, true, newdircap)
  | some (r, _) =>
    match r.wasCreated with
    | none => (sstep H s1 (.createVia k newdircap now), true, newdircap)
    | some d =>
      if r.shouldCheck = false then (s1, false, d)
      else if healthy then (sstep H s1 (.dirHealthyVia k now), false, d)
      else (sstep H s1 (.createVia k newdircap now), true, newdircap)

/-- one step of a `tahoe backup` run: a file (`FileTarget.backup` → `BackerUpper.upload`) or a directory
    (`DirectoryTarget.backup` → `BackerUpper.upload_directory`); a run is a list of such steps with the run's flags
    (`--ignore-timestamps`, the answers of the grid) and a history of runs is the concatenation -/
inductive RunStep
  | file (path : Bytes) (st : Stat) (ignoreTs : Bool) (newcap : Bytes) (healthy : Bool) (now : Int) (rnd : Nat)
  | dir (contents : List Entry) (newdircap : Bytes) (healthy : Bool) (now : Int) (rnd : Nat)

/-- the step's effect on the session and its outcome: (uploaded / created?, the cap the run uses) -/
def tstep (H : Bytes → K) (s : Sess K) : RunStep → Sess K × Bool × Bytes
  | .file p st ign cap healthy now rnd => toolFileStep H s p st ign cap healthy now rnd
  | .dir c d healthy now rnd => toolDirStep H s c d healthy now rnd

/-- the session after a history of backup runs (any number of runs, any flags, any file changes in between — the
    stat and content-derived cap of every step are arguments), starting from a fresh database -/
def trun (H : Bytes → K) (rs : List RunStep) : Sess K := rs.foldl (fun s r => (tstep H s r).1) {}

/-- the (path, stat) pairs seen by the `check` steps of a session, in order: what each result object sampled -/
def checksOf : List SOp → List (Bytes × Stat)
  | [] => []
  | .check p st _ _ _ :: r => (p, st) :: checksOf r
  | _ :: r => checksOf r

end Tahoe.BackupDb
