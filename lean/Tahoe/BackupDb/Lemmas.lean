import Tahoe.BackupDb
/-! Helper lemmas for C42: finite maps, `alloc`, the file-table invariant. -/
namespace Tahoe.BackupDb

section maps
variable {κ ν : Type} [DecidableEq κ]

theorem get_put_same (k : κ) (v : ν) (l : List (κ × ν)) : get k (put k v l) = some v := by
  induction l with
  | nil => simp [put, get]
  | cons p r ih =>
    obtain ⟨k', v'⟩ := p
    by_cases h : k' = k <;> simp [put, get, h, ih]

theorem get_put_other (k k' : κ) (v : ν) (l : List (κ × ν)) (h : k' ≠ k) :
    get k' (put k v l) = get k' l := by
  induction l with
  | nil => simp [put, get, Ne.symm h]
  | cons p r ih =>
    obtain ⟨k2, v2⟩ := p
    by_cases h2 : k2 = k
    · subst h2; simp [put, get, Ne.symm h]
    · by_cases h3 : k2 = k'
      · subst h3; simp [put, get, h2]
      · simp [put, get, h2, h3, ih]

theorem get_del_other (k k' : κ) (l : List (κ × ν)) (h : k' ≠ k) : get k' (del k l) = get k' l := by
  induction l with
  | nil => simp [del, get]
  | cons p r ih =>
    obtain ⟨k2, v2⟩ := p
    by_cases h2 : k2 = k
    · subst h2; simp [del, get, Ne.symm h, ih]
    · by_cases h3 : k2 = k'
      · subst h3; simp [del, get, h2]
      · simp [del, get, h2, h3, ih]

theorem get_append_of_some (k : κ) (v : ν) (l l' : List (κ × ν)) (h : get k l = some v) :
    get k (l ++ l') = some v := by
  induction l with
  | nil => simp [get] at h
  | cons p r ih =>
    obtain ⟨k2, v2⟩ := p
    by_cases h2 : k2 = k
    · simp [get, h2] at h ⊢; exact h
    · simp [get, h2] at h ⊢; exact ih h

theorem get_append_of_none (k : κ) (l l' : List (κ × ν)) (h : get k l = none) :
    get k (l ++ l') = get k l' := by
  induction l with
  | nil => rfl
  | cons p r ih =>
    obtain ⟨k2, v2⟩ := p
    by_cases h2 : k2 = k
    · simp [get, h2] at h
    · simp [get, h2] at h ⊢; exact ih h

end maps

/-- `caps` is well formed: every fileid is below the AUTOINCREMENT counter and each row is found by its fileid -/
def CapsOk (caps : List (Nat × Bytes)) (next : Nat) : Prop :=
  ∀ i c, (i, c) ∈ caps → i < next ∧ get i caps = some c

theorem findId_mem (cap : Bytes) (caps : List (Nat × Bytes)) (i : Nat) (h : findId cap caps = some i) :
    (i, cap) ∈ caps := by
  induction caps with
  | nil => simp [findId] at h
  | cons p r ih =>
    obtain ⟨j, c⟩ := p
    by_cases hc : c = cap
    · simp [findId, hc] at h; subst h; subst hc; simp
    · simp [findId, hc] at h; exact List.mem_cons_of_mem _ (ih h)

theorem get_none_of_all_lt (caps : List (Nat × Bytes)) (n : Nat) (h : ∀ i c, (i, c) ∈ caps → i < n) :
    get n caps = none := by
  induction caps with
  | nil => rfl
  | cons p r ih =>
    obtain ⟨j, c⟩ := p
    have hj := h j c (by simp)
    have : j ≠ n := by omega
    simp [get, this]
    exact ih (fun i c hm => h i c (List.mem_cons_of_mem _ hm))

variable {K : Type} [DecidableEq K]

omit [DecidableEq K] in
theorem alloc_spec (db : Db K) (cap : Bytes) (hok : CapsOk db.caps db.nextId) :
    CapsOk (alloc db cap).1.caps (alloc db cap).1.nextId
    ∧ get (alloc db cap).2 (alloc db cap).1.caps = some cap
    ∧ (∀ i c, get i db.caps = some c → get i (alloc db cap).1.caps = some c)
    ∧ (alloc db cap).1.localFiles = db.localFiles
    ∧ (alloc db cap).1.dirs = db.dirs := by
  unfold alloc
  cases hf : findId cap db.caps with
  | some i =>
    simp only
    exact ⟨hok, (hok i cap (findId_mem cap db.caps i hf)).2, fun _ _ h => h, by first | rfl | trivial, by first | rfl | trivial⟩
  | none =>
    simp only
    have hnone : get db.nextId db.caps = none := get_none_of_all_lt _ _ (fun i c hm => (hok i c hm).1)
    refine ⟨?_, ?_, ?_, by first | rfl | trivial, by first | rfl | trivial⟩
    · intro i c hm
      rcases List.mem_append.mp hm with hm | hm
      · have := hok i c hm
        exact ⟨by omega, get_append_of_some _ _ _ _ this.2⟩
      · simp at hm
        obtain ⟨rfl, rfl⟩ := hm
        refine ⟨by omega, ?_⟩
        rw [get_append_of_none _ _ _ hnone]; simp [get]
    · rw [get_append_of_none _ _ _ hnone]; simp [get]
    · intro i c h; exact get_append_of_some _ _ _ _ h

/-- the invariant behind `reuse_only_if_unchanged`; `hist` is the history, most recent call first -/
def FileInv (db : Db K) (hist : List Op) : Prop :=
  CapsOk db.caps db.nextId ∧
  ∀ path rec, get path db.localFiles = some rec →
    ∃ cap, get rec.fileid db.caps = some cap ∧
      lastUploadOf path hist = some (rec.size, rec.mtime, rec.ctime, cap)

omit [DecidableEq K] in
theorem fileInv_empty : FileInv ({} : Db K) [] := by
  refine ⟨?_, ?_⟩
  · intro i c h; simp at h
  · intro p r h; simp [get] at h

theorem lastUploadOf_cons_other (path : Bytes) (op : Op) (hist : List Op)
    (h : ∀ cap p m c s now, op = .didUpload cap p m c s now → p ≠ path) :
    lastUploadOf path (op :: hist) = lastUploadOf path hist := by
  cases op <;> simp [lastUploadOf]
  rename_i cap p m c s now
  exact fun hp => absurd hp (h cap p m c s now rfl)

theorem fileInv_step (H : Bytes → K) (db : Db K) (hist : List Op) (op : Op) (hinv : FileInv db hist) :
    FileInv (step H db op) (op :: hist) := by
  obtain ⟨hcaps, hfiles⟩ := hinv
  cases op with
  | checkFile p st ts now rnd =>
    have hcaps' : (checkFile db p st ts now rnd).1.caps = db.caps
        ∧ (checkFile db p st ts now rnd).1.nextId = db.nextId
        ∧ ((checkFile db p st ts now rnd).1.localFiles = db.localFiles
            ∨ (checkFile db p st ts now rnd).1.localFiles = del p db.localFiles) := by
      unfold checkFile
      (repeat' split) <;> simp
    obtain ⟨h1, h2, h3⟩ := hcaps'
    refine ⟨by simp only [step]; rw [h1, h2]; exact hcaps, ?_⟩
    intro path rec hget
    simp only [step] at hget ⊢
    rw [h1]
    have hl : lastUploadOf path (Op.checkFile p st ts now rnd :: hist) = lastUploadOf path hist := by
      simp [lastUploadOf]
    rw [hl]
    rcases h3 with h3 | h3
    · rw [h3] at hget; exact hfiles path rec hget
    · rw [h3] at hget
      by_cases hp : path = p
      · subst hp
        have : get path (del path db.localFiles) = none := by
          clear hfiles hget h3
          induction db.localFiles with
          | nil => rfl
          | cons q r ih =>
            obtain ⟨k2, v2⟩ := q
            by_cases h2 : k2 = path <;> simp [del, get, h2, ih]
        rw [this] at hget; cases hget
      · rw [get_del_other _ _ _ hp] at hget; exact hfiles path rec hget
  | didUpload cap p m c s now =>
    obtain ⟨a1, a2, a3, a4, _⟩ := alloc_spec db cap hcaps
    simp only [step, didUploadFile]
    refine ⟨a1, ?_⟩
    intro path rec hget
    simp only at hget
    by_cases hp : path = p
    · subst hp
      rw [get_put_same] at hget
      cases hget
      exact ⟨cap, a2, by simp [lastUploadOf]⟩
    · rw [get_put_other _ _ _ _ hp, a4] at hget
      obtain ⟨cap', hc1, hc2⟩ := hfiles path rec hget
      refine ⟨cap', a3 _ _ hc1, ?_⟩
      simp [lastUploadOf, Ne.symm hp, hc2]
  | didCheckHealthy cap now =>
    obtain ⟨a1, a2, a3, a4, _⟩ := alloc_spec db cap hcaps
    have hshape : (didCheckFileHealthy db cap now).caps = (alloc db cap).1.caps
        ∧ (didCheckFileHealthy db cap now).nextId = (alloc db cap).1.nextId
        ∧ (didCheckFileHealthy db cap now).localFiles = (alloc db cap).1.localFiles := by
      unfold didCheckFileHealthy
      simp only
      split <;> simp
    obtain ⟨h1, h2, h3⟩ := hshape
    simp only [step]
    refine ⟨by rw [h1, h2]; exact a1, ?_⟩
    intro path rec hget
    rw [h3, a4] at hget
    obtain ⟨cap', hc1, hc2⟩ := hfiles path rec hget
    exact ⟨cap', by rw [h1]; exact a3 _ _ hc1, by simp [lastUploadOf, hc2]⟩
  | checkDir contents now rnd =>
    refine ⟨hcaps, ?_⟩
    intro path rec hget
    obtain ⟨cap', hc1, hc2⟩ := hfiles path rec hget
    exact ⟨cap', hc1, by simp [lastUploadOf, hc2]⟩
  | didCreateDir d contents now =>
    refine ⟨hcaps, ?_⟩
    intro path rec hget
    obtain ⟨cap', hc1, hc2⟩ := hfiles path rec hget
    exact ⟨cap', hc1, by simp [lastUploadOf, hc2]⟩
  | didCheckDirHealthy d now =>
    refine ⟨hcaps, ?_⟩
    intro path rec hget
    obtain ⟨cap', hc1, hc2⟩ := hfiles path rec hget
    exact ⟨cap', hc1, by simp [lastUploadOf, hc2]⟩

theorem fileInv_run (H : Bytes → K) (ops : List Op) : FileInv (run H ops) ops.reverse := by
  unfold run
  suffices h : ∀ (db : Db K) (hist : List Op), FileInv db hist →
      FileInv (ops.foldl (step H) db) (ops.reverse ++ hist) by
    simpa using h {} [] fileInv_empty
  induction ops with
  | nil => intro db hist h; simpa using h
  | cons op rest ih =>
    intro db hist h
    simp only [List.foldl_cons, List.reverse_cons, List.append_assoc, List.singleton_append]
    exact ih _ _ (fileInv_step H db hist op h)

end Tahoe.BackupDb
