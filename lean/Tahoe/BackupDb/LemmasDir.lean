import Tahoe.BackupDb.Lemmas
/-! Helper lemmas for C42, directory side: netstring framing is uniquely decodable, the entry order is a
    total order (so sorting is canonical), and the `directories` table invariant. -/
namespace Tahoe.BackupDb

/-! ### decimal lengths and netstrings -/

theorem digit_props (d : Nat) (h : d < 10) :
    digit d ≠ 58 ∧ 48 ≤ (digit d).toNat ∧ (digit d).toNat ≤ 57 ∧ (digit d).toNat - 48 = d := by
  have : d = 0 ∨ d = 1 ∨ d = 2 ∨ d = 3 ∨ d = 4 ∨ d = 5 ∨ d = 6 ∨ d = 7 ∨ d = 8 ∨ d = 9 := by omega
  rcases this with h | h | h | h | h | h | h | h | h | h <;> subst h <;> decide

/-- proof device: read a decimal number up to the first `:` (the code never decodes this string) -/
def readNat : Nat → Bytes → Option (Nat × Bytes)
  | _, [] => none
  | acc, b :: rest =>
    if b = 58 then some (acc, rest)
    else if 48 ≤ b.toNat ∧ b.toNat ≤ 57 then readNat (acc * 10 + (b.toNat - 48)) rest
    else none

theorem readNat_digit (acc d : Nat) (h : d < 10) (tail : Bytes) :
    readNat acc (digit d :: tail) = readNat (acc * 10 + d) tail := by
  obtain ⟨h1, h2, h3, h4⟩ := digit_props d h
  simp [readNat, h1, h2, h3, h4]

theorem dec_lt (n : Nat) (h : n < 10) : dec n = [digit n] := by
  rw [dec]; simp [h]

theorem dec_ge (n : Nat) (h : ¬ n < 10) : dec n = dec (n / 10) ++ [digit (n % 10)] := by
  rw [dec]; simp [h]

theorem readNat_dec (n : Nat) : ∀ (acc : Nat) (tail : Bytes),
    readNat acc (dec n ++ tail) = readNat (acc * 10 ^ (dec n).length + n) tail := by
  induction n using Nat.strongRecOn with
  | _ n ih =>
    intro acc tail
    by_cases h : n < 10
    · rw [dec_lt n h]
      simp only [List.singleton_append, List.length_singleton, Nat.pow_one]
      exact readNat_digit acc n h tail
    · rw [dec_ge n h]
      have hq : n / 10 < n := by omega
      rw [List.append_assoc, ih (n / 10) hq]
      simp only [List.singleton_append, List.length_append, List.length_singleton]
      rw [readNat_digit _ _ (by omega)]
      congr 1
      rw [Nat.pow_succ, ← Nat.mul_assoc]
      generalize acc * 10 ^ (dec (n / 10)).length = Y
      omega

/-- proof device: decode one netstring (lax about the trailing comma) -/
def decodeOne (inp : Bytes) : Option (Bytes × Bytes) :=
  match readNat 0 inp with
  | none => none
  | some (n, rest) => if rest.length < n + 1 then none else some (rest.take n, rest.drop (n + 1))

theorem decodeOne_netstring (s r : Bytes) : decodeOne (netstring s ++ r) = some (s, r) := by
  unfold decodeOne netstring
  rw [List.append_assoc, readNat_dec]
  simp [readNat]

theorem netstring_ne_nil (s : Bytes) : netstring s ≠ [] := by
  unfold netstring; simp

theorem encodeEntries_inj : ∀ l1 l2 : List Entry, encodeEntries l1 = encodeEntries l2 → l1 = l2 := by
  intro l1
  induction l1 with
  | nil =>
    intro l2 h
    cases l2 with
    | nil => rfl
    | cons y ys =>
      obtain ⟨n, c⟩ := y
      simp [encodeEntries, netstring_ne_nil] at h
  | cons x xs ih =>
    intro l2 h
    obtain ⟨n1, c1⟩ := x
    cases l2 with
    | nil => simp [encodeEntries, netstring_ne_nil] at h
    | cons y ys =>
      obtain ⟨n2, c2⟩ := y
      simp only [encodeEntries, List.append_assoc] at h
      have h1 := congrArg decodeOne h
      rw [decodeOne_netstring, decodeOne_netstring] at h1
      simp only [Option.some.injEq, Prod.mk.injEq] at h1
      obtain ⟨hn, ht⟩ := h1
      have h2 := congrArg decodeOne ht
      rw [decodeOne_netstring, decodeOne_netstring] at h2
      simp only [Option.some.injEq, Prod.mk.injEq] at h2
      obtain ⟨hc, hr⟩ := h2
      rw [hn, hc, ih ys hr]

/-! ### the order on entries -/

theorem u8_eq_of_not_lt (a b : UInt8) (h1 : ¬ a.toNat < b.toNat) (h2 : ¬ b.toNat < a.toNat) : a = b := by
  apply UInt8.toNat_inj.mp
  omega

theorem bytesLe_total : ∀ a b : Bytes, (bytesLe a b || bytesLe b a) = true
  | [], _ => by simp [bytesLe]
  | _ :: _, [] => by simp [bytesLe]
  | a :: as, b :: bs => by
    have ih := bytesLe_total as bs
    simp only [bytesLe]
    by_cases h1 : a.toNat < b.toNat
    · simp [h1]
    · by_cases h2 : b.toNat < a.toNat
      · simp [h1, h2]
      · simp [h1, h2]; simpa using ih

theorem bytesLe_antisymm : ∀ a b : Bytes, bytesLe a b = true → bytesLe b a = true → a = b
  | [], [] => fun _ _ => rfl
  | [], _ :: _ => by simp [bytesLe]
  | _ :: _, [] => by simp [bytesLe]
  | a :: as, b :: bs => by
    have ih := bytesLe_antisymm as bs
    simp only [bytesLe]
    by_cases h1 : a.toNat < b.toNat
    · have h2 : ¬ b.toNat < a.toNat := by omega
      simp [h1, h2]
    · by_cases h2 : b.toNat < a.toNat
      · simp [h1, h2]
      · simp only [h1, h2, if_false]
        intro x y
        rw [u8_eq_of_not_lt a b h1 h2, ih x y]

theorem bytesLe_trans : ∀ a b c : Bytes, bytesLe a b = true → bytesLe b c = true → bytesLe a c = true
  | [], _, _ => by simp [bytesLe]
  | _ :: _, [], _ => by simp [bytesLe]
  | _ :: _, _ :: _, [] => by simp [bytesLe]
  | a :: as, b :: bs, c :: cs => by
    have ih := bytesLe_trans as bs cs
    simp only [bytesLe]
    intro hab hbc
    by_cases h5 : a.toNat < c.toNat
    · simp [h5]
    · have h6 : ¬ c.toNat < a.toNat := by
        intro h6
        by_cases h1 : a.toNat < b.toNat
        · have h3 : ¬ b.toNat < c.toNat := by omega
          have h4 : c.toNat < b.toNat := by omega
          simp [h3, h4] at hbc
        · by_cases h2 : b.toNat < a.toNat
          · simp [h1, h2] at hab
          · have h3 : ¬ b.toNat < c.toNat := by omega
            have h4 : c.toNat < b.toNat := by omega
            simp [h3, h4] at hbc
      simp only [h5, h6, if_false]
      -- a = c as numbers; b must equal both
      have h1 : ¬ a.toNat < b.toNat := by
        intro h1
        have h3 : ¬ b.toNat < c.toNat := by omega
        have h4 : c.toNat < b.toNat := by omega
        simp [h3, h4] at hbc
      have h2 : ¬ b.toNat < a.toNat := by
        intro h2
        simp [h1, h2] at hab
      have h3 : ¬ b.toNat < c.toNat := by omega
      have h4 : ¬ c.toNat < b.toNat := by omega
      simp only [h1, h2, if_false] at hab
      simp only [h3, h4, if_false] at hbc
      exact ih hab hbc

theorem entryLe_total (x y : Entry) : (entryLe x y || entryLe y x) = true := by
  unfold entryLe
  by_cases h : x.1 = y.1
  · simp [h, bytesLe_total]
  · have h' : ¬ y.1 = x.1 := fun e => h e.symm
    simp [h, h', bytesLe_total]

theorem entryLe_antisymm (x y : Entry) (h1 : entryLe x y = true) (h2 : entryLe y x = true) : x = y := by
  unfold entryLe at h1 h2
  by_cases h : x.1 = y.1
  · simp [h] at h1 h2
    exact Prod.ext h (bytesLe_antisymm _ _ h1 h2)
  · have h' : ¬ y.1 = x.1 := fun e => h e.symm
    simp [h, h'] at h1 h2
    exact absurd (bytesLe_antisymm _ _ h1 h2) h

theorem entryLe_trans (x y z : Entry) (h1 : entryLe x y = true) (h2 : entryLe y z = true) :
    entryLe x z = true := by
  unfold entryLe at h1 h2 ⊢
  by_cases hxy : x.1 = y.1 <;> by_cases hyz : y.1 = z.1
  · have hxz : x.1 = z.1 := hxy.trans hyz
    simp [hxy, hyz] at h1 h2 ⊢
    rw [← hyz] at *
    simp_all
    exact bytesLe_trans _ _ _ h1 h2
  · have hxz : ¬ x.1 = z.1 := fun e => hyz (hxy.symm.trans e)
    simp [hxy, hyz] at h1 h2 ⊢
    exact h2
  · have hxz : ¬ x.1 = z.1 := fun e => hxy (e.trans hyz.symm)
    simp [hyz, hxz] at h1 h2 ⊢
    exact h1
  · simp [hxy, hyz] at h1 h2
    have t := bytesLe_trans _ _ _ h1 h2
    by_cases hxz : x.1 = z.1
    · exfalso
      rw [← hxz] at h2
      exact hxy (bytesLe_antisymm _ _ h1 h2)
    · simp [hxz, t]

theorem sortEntries_perm (c : List Entry) : (sortEntries c).Perm c := List.mergeSort_perm c entryLe

theorem sortEntries_sorted (c : List Entry) : (sortEntries c).Pairwise (fun a b => entryLe a b = true) :=
  List.pairwise_mergeSort (le := entryLe) entryLe_trans entryLe_total c

theorem sortEntries_canonical (c1 c2 : List Entry) (h : c1.Perm c2) : sortEntries c1 = sortEntries c2 := by
  apply List.Perm.eq_of_pairwise (le := fun a b => entryLe a b = true)
  · intro a b _ _ h1 h2; exact entryLe_antisymm a b h1 h2
  · exact sortEntries_sorted c1
  · exact sortEntries_sorted c2
  · exact (sortEntries_perm c1).trans (h.trans (sortEntries_perm c2).symm)

theorem dirData_eq_iff (c1 c2 : List Entry) : dirData c1 = dirData c2 ↔ c1.Perm c2 := by
  constructor
  · intro h
    have := encodeEntries_inj _ _ h
    exact (sortEntries_perm c1).symm.trans (this ▸ sortEntries_perm c2)
  · intro h; unfold dirData; rw [sortEntries_canonical c1 c2 h]

/-! ### the `directories` table -/

variable {K : Type} [DecidableEq K]

/-- dircap given to the most recent `did_create` whose dirhash is `key` (history most recent first) -/
def lastCreateKey (H : Bytes → K) (key : K) : List Op → Option Bytes
  | [] => none
  | .didCreateDir d c' _ :: earlier =>
    if H (dirData c') = key then some d else lastCreateKey H key earlier
  | _ :: earlier => lastCreateKey H key earlier

theorem lastCreateKey_eq (H : Bytes → K) (hH : Function.Injective H) (contents : List Entry) (hist : List Op) :
    lastCreateKey H (H (dirData contents)) hist = lastCreateOf contents hist := by
  induction hist with
  | nil => rfl
  | cons op rest ih =>
    cases op <;> simp only [lastCreateKey, lastCreateOf, ih]
    rename_i d c' now
    have : (H (dirData c') = H (dirData contents)) ↔ c'.isPerm contents = true := by
      rw [List.isPerm_iff, ← dirData_eq_iff]
      exact ⟨fun h => hH h, fun h => congrArg H h⟩
    by_cases hk : H (dirData c') = H (dirData contents)
    · simp [hk, this.mp hk]
    · have : ¬ c'.isPerm contents = true := fun e => hk (this.mpr e)
      simp [hk, this]

def DirInv (H : Bytes → K) (db : Db K) (hist : List Op) : Prop :=
  ∀ key rec, get key db.dirs = some rec → lastCreateKey H key hist = some rec.dircap

theorem get_map_checked (dircap : Bytes) (now : Int) (key : K) (l : List (K × DirRec)) :
    (get key (l.map (fun (k, r) => if r.dircap = dircap then (k, { r with checked := now }) else (k, r)))).map (·.dircap)
      = (get key l).map (·.dircap) := by
  induction l with
  | nil => rfl
  | cons p r ih =>
    obtain ⟨k2, v2⟩ := p
    by_cases h2 : k2 = key <;> by_cases h3 : v2.dircap = dircap <;> simp [get, h2, h3] <;> simpa using ih

omit [DecidableEq K] in
theorem alloc_dirs (db : Db K) (cap : Bytes) : (alloc db cap).1.dirs = db.dirs := by
  unfold alloc
  split <;> rfl

theorem dirInv_step (H : Bytes → K) (db : Db K) (hist : List Op) (op : Op) (hinv : DirInv H db hist) :
    DirInv H (step H db op) (op :: hist) := by
  cases op with
  | checkFile p st ts now rnd =>
    have hd : (checkFile db p st ts now rnd).1.dirs = db.dirs := by
      unfold checkFile
      (repeat' split) <;> simp
    intro key rec hget
    simp only [step] at hget
    rw [hd] at hget
    simpa [lastCreateKey] using hinv key rec hget
  | didUpload cap p m c s now =>
    intro key rec hget
    have hd : (didUploadFile db cap p m c s now).dirs = db.dirs := by
      simp only [didUploadFile]
      exact alloc_dirs db cap
    simp only [step] at hget
    rw [hd] at hget
    simpa [lastCreateKey] using hinv key rec hget
  | didCheckHealthy cap now =>
    intro key rec hget
    have hd : (didCheckFileHealthy db cap now).dirs = db.dirs := by
      have : (didCheckFileHealthy db cap now).dirs = (alloc db cap).1.dirs := by
        unfold didCheckFileHealthy
        simp only
        split <;> simp
      rw [this]; exact alloc_dirs db cap
    simp only [step] at hget
    rw [hd] at hget
    simpa [lastCreateKey] using hinv key rec hget
  | checkDir contents now rnd =>
    intro key rec hget
    simpa [lastCreateKey] using hinv key rec hget
  | didCreateDir d contents now =>
    intro key rec hget
    simp only [step, didCreateDirectory] at hget
    by_cases hk : key = H (dirData contents)
    · subst hk
      rw [get_put_same] at hget
      cases hget
      simp [lastCreateKey]
    · rw [get_put_other _ _ _ _ hk] at hget
      have := hinv key rec hget
      simp [lastCreateKey, Ne.symm hk, this]
  | didCheckDirHealthy d now =>
    intro key rec hget
    simp only [step, didCheckDirectoryHealthy] at hget
    have hm := get_map_checked d now key db.dirs
    rw [hget] at hm
    cases hg : get key db.dirs with
    | none => rw [hg] at hm; simp at hm
    | some rec0 =>
      rw [hg] at hm
      simp at hm
      have := hinv key rec0 hg
      simp [lastCreateKey, this, hm]

theorem dirInv_run (H : Bytes → K) (ops : List Op) : DirInv H (run H ops) ops.reverse := by
  unfold run
  suffices h : ∀ (db : Db K) (hist : List Op), DirInv H db hist →
      DirInv H (ops.foldl (step H) db) (ops.reverse ++ hist) by
    have h0 : DirInv H ({} : Db K) [] := by intro key rec hget; simp [get] at hget
    simpa using h {} [] h0
  induction ops with
  | nil => intro db hist h; simpa using h
  | cons op rest ih =>
    intro db hist h
    simp only [List.foldl_cons, List.reverse_cons, List.append_assoc, List.singleton_append]
    exact ih _ _ (dirInv_step H db hist op h)

end Tahoe.BackupDb
