import Tahoe.GridManager.Model
/-!
Model of the inbound side of `allmydata/introducer/client.py` (`IntroducerClient.got_announcements`,
`_process_announcement`, `_deliver_announcements`) and of `introducer/common.py`
`unsign_from_foolscap`.  Mathlib-free; executable (used by `Drv/C34.lean`).

* Ed25519 is the parameter `verify` (symbolic instance and `Unforgeable` hypothesis are shared with
  the grid-manager model: `Tahoe.GridManager.symVerify`, `Unforgeable`).
* `msg.decode("utf-8")` + `json.loads` and the reads `_process_announcement` makes of the resulting
  object are the parameter `parse : Msg → Option Ann`; `Ann` keeps exactly the distinctions the
  code makes (see the fields).
* The batch loop modelled is the **repaired** one (`fixes/C34-batch-except.diff`): an announcement
  whose unsigning or processing raises *any* exception is logged and skipped.  The unchanged tree
  catches only `BadSignature`; every other exception leaves `got_announcements` and the rest of the
  batch is dropped (DESIGN §3, C34).
* Subscriptions (`subscribe_to`) are fixed before the stream starts; the announcement cache and
  late subscription are not modelled.
-/
namespace Tahoe.Introducer
open Tahoe.GridManager (SymSig symVerify Unforgeable)

/-- exception classes leaving `unsign_from_foolscap` -/
inductive UErr
  | unknownKey     -- UnknownKeyError: missing signature/key, or no `v0-` prefix
  | assertion      -- AssertionError: `base32.a2b` precondition (not base32)
  | value          -- ValueError: decoded key is not 32 bytes long
  | badSignature   -- BadSignature
  | json           -- UnicodeDecodeError / JSONDecodeError on the (correctly signed) message
  | other          -- wrong tuple shape or field types
  deriving DecidableEq, Repr

/-- the signature field `sig_vs` of the wire tuple -/
inductive SigField (Sig : Type)
  | falsy                -- `None` or `b""`
  | noPrefix             -- does not start with `v0-`
  | badB32               -- `v0-` + something `base32.a2b` refuses
  | bytes (s : Sig)      -- `v0-` + base32 of the bytes `s` (any length)
  deriving DecidableEq, Repr

/-- the key field `claimed_key_vs` of the wire tuple -/
inductive KeyField (PK : Type)
  | falsy | noPrefix | badB32
  | badLen               -- base32 of something that is not 32 bytes
  | key (k : PK)
  deriving DecidableEq, Repr

inductive Wire (PK Sig Msg : Type)
  | garbage                                                  -- not a 3-tuple of bytes/None
  | tuple (msg : Msg) (sig : SigField Sig) (key : KeyField PK)
  deriving DecidableEq, Repr

/-- the value under `"seqnum"` of an announcement, by how the code can use it.
    As a *new* seqnum only `int` is valid (`isinstance(ann["seqnum"], int)`; JSON booleans are
    ints 0/1 in Python).  As the *stored* one it is the right operand of `new <= old["seqnum"]`:
    a non-integer-typed finite number behaves like its floor, `Infinity`/`-Infinity` are constant,
    anything else (string, list, object, null) raises TypeError. -/
inductive SeqVal
  | absent
  | int (n : Int)
  | float (floor : Int)
  | posInf
  | negInf
  | junk
  deriving DecidableEq, Repr

/-- `ann["service-name"]`: raises (not a dict / no such key) or gives `str(...)`, interned -/
inductive Svc
  | unreadable
  | name (s : Nat)
  deriving DecidableEq, Repr

/-- a decoded announcement.  `content` identifies the object up to Python `==` (the duplicate test
    compares whole dicts); `descRaises`: building the log description raises (nickname that is not
    a string, unparsable `anonymous-storage-FURL`). -/
structure Ann where
  content : Nat
  svc : Svc
  descRaises : Bool
  seq : SeqVal
  deriving DecidableEq, Repr

section
variable {PK Sig Msg : Type}

/-- `unsign_from_foolscap(ann_t)`, checks in the order of the code -/
def unsign (verify : PK → Sig → Msg → Bool) (parse : Msg → Option Ann) :
    Wire PK Sig Msg → Except UErr (Ann × PK)
  | .garbage => .error .other
  | .tuple msg sig key =>
    match sig, key with
    | .falsy, _ => .error .unknownKey          -- `if not sig_vs or not claimed_key_vs`
    | _, .falsy => .error .unknownKey
    | .noPrefix, _ => .error .unknownKey       -- `if not sig_vs.startswith(b"v0-")`
    | _, .noPrefix => .error .unknownKey       -- `if not claimed_key_vs.startswith(b"v0-")`
    | _, .badB32 => .error .assertion          -- `verifying_key_from_string`
    | _, .badLen => .error .value
    | .badB32, .key _ => .error .assertion     -- `base32.a2b(remove_prefix(sig_vs, b"v0-"))`
    | .bytes s, .key k =>
      if verify k s msg then
        match parse msg with
        | none => .error .json
        | some a => .ok (a, k)                 -- `key_vs = claimed_key_vs`
      else .error .badSignature

abbrev Index (PK : Type) := Nat × PK

/-- `_inbound_announcements` (an insertion-ordered dict keyed by `(service_name, key_s)`) and the
    calls made to local subscribers, oldest first -/
structure State (PK : Type) where
  store : List (Index PK × Ann)
  delivered : List (PK × Ann)

def lookup [DecidableEq PK] (idx : Index PK) : List (Index PK × Ann) → Option Ann
  | [] => none
  | (i, a) :: rest => if i = idx then some a else lookup idx rest

/-- `d[idx] = a` on an insertion-ordered dict -/
def setEntry [DecidableEq PK] (idx : Index PK) (a : Ann) : List (Index PK × Ann) → List (Index PK × Ann)
  | [] => [(idx, a)]
  | (i, b) :: rest => if i = idx then (idx, a) :: rest else (i, b) :: setEntry idx a rest

/-- `ann["seqnum"] <= old["seqnum"]` for an integer on the left; `none` = TypeError -/
def leOld (n : Int) : SeqVal → Option Bool
  | .int m => some (decide (n ≤ m))
  | .float f => some (decide (n ≤ f))
  | .posInf => some true
  | .negInf => some false
  | .junk => none
  | .absent => none        -- not reached: guarded by `"seqnum" in old`

/-- what `_process_announcement` did with one verified announcement -/
inductive Outcome
  | raised           -- an exception left `_process_announcement` (before any state change)
  | wrongService     -- nobody subscribed to that service
  | duplicate        -- equal to the stored announcement
  | noValidSeqnum    -- stored one has a seqnum, new one has none / not an int
  | oldSeqnum        -- new seqnum <= stored seqnum
  | new              -- first announcement for the index
  | update           -- replaced the stored announcement
  | skipped (e : UErr)  -- never reached `_process_announcement`: `unsign_from_foolscap` raised
  deriving DecidableEq, Repr

/-- store and deliver (`self._inbound_announcements[index] = …; self._deliver_announcements(…)`) -/
def accept [DecidableEq PK] (st : State PK) (idx : Index PK) (ann : Ann) : State PK :=
  { store := setEntry idx ann st.store, delivered := st.delivered ++ [(idx.2, ann)] }

/-- `_process_announcement(ann, key_s)` with the local subscriptions `subs` -/
def processAnn [DecidableEq PK] (subs : List Nat) (st : State PK) (ann : Ann) (key : PK) :
    Outcome × State PK :=
  match ann.svc with
  | .unreadable => (.raised, st)                        -- `ann["service-name"]`
  | .name s =>
    if !subs.contains s then (.wrongService, st)
    else if ann.descRaises then (.raised, st)
    else
      match lookup (s, key) st.store with
      | none => (.new, accept st (s, key) ann)
      | some old =>
        if old.content = ann.content then (.duplicate, st)
        else
          match old.seq with
          | .absent => (.update, accept st (s, key) ann)     -- `if "seqnum" in old:` is false
          | oseq =>
            match ann.seq with
            | .int n =>
              match leOld n oseq with
              | none => (.raised, st)                        -- TypeError in `<=`
              | some true => (.oldSeqnum, st)
              | some false => (.update, accept st (s, key) ann)
            | _ => (.noValidSeqnum, st)

/-- one iteration of the (repaired) loop of `got_announcements` -/
def gotOne [DecidableEq PK] (verify : PK → Sig → Msg → Bool) (parse : Msg → Option Ann)
    (subs : List Nat) (st : State PK) (w : Wire PK Sig Msg) : Outcome × State PK :=
  match unsign verify parse w with
  | .error e => (.skipped e, st)
  | .ok (ann, key) => processAnn subs st ann key

/-- `got_announcements(announcements)`: the state after the batch (repaired loop) -/
def gotBatch [DecidableEq PK] (verify : PK → Sig → Msg → Bool) (parse : Msg → Option Ann)
    (subs : List Nat) (st : State PK) : List (Wire PK Sig Msg) → State PK
  | [] => st
  | w :: ws => gotBatch verify parse subs (gotOne verify parse subs st w).2 ws

/-- the per-announcement outcomes of a batch (for the driver's counters) -/
def batchOutcomes [DecidableEq PK] (verify : PK → Sig → Msg → Bool) (parse : Msg → Option Ann)
    (subs : List Nat) (st : State PK) : List (Wire PK Sig Msg) → List Outcome
  | [] => []
  | w :: ws =>
    let r := gotOne verify parse subs st w
    r.1 :: batchOutcomes verify parse subs r.2 ws

/-- a whole stream: several calls of `got_announcements` -/
def gotStream [DecidableEq PK] (verify : PK → Sig → Msg → Bool) (parse : Msg → Option Ann)
    (subs : List Nat) (st : State PK) : List (List (Wire PK Sig Msg)) → State PK
  | [] => st
  | b :: bs => gotStream verify parse subs (gotBatch verify parse subs st b) bs

/-! ### Late subscription

`subscribe_to(service_name, callback)` may be called at any time.  It adds an observer to the
service's `ObserverList` and then calls `obs.notify(key_s, ann)` for every stored announcement of
that service (in dict order) — the memory "for clients who subscribe after startup".  Nothing is
stored for a service nobody has subscribed to yet, so the first subscriber of a service is told
nothing; a further subscriber of an already subscribed service triggers one `notify` per stored
announcement of it (which reaches the earlier observers again).  `delivered` counts `notify` calls.
The store is not changed. -/
def subscribeTo [DecidableEq PK] (svc : Nat) (st : State PK) : State PK :=
  { st with delivered := st.delivered ++
      (st.store.filter (fun e => e.1.1 == svc)).map (fun e => (e.1.2, e.2)) }

/-- what happens to a client: a call of `got_announcements` or a call of `subscribe_to` -/
inductive Ev (PK Sig Msg : Type)
  | batch (ws : List (Wire PK Sig Msg))
  | subscribe (svc : Nat)

/-- a history of events; the first component is the list of subscribed services -/
def gotEvents [DecidableEq PK] (verify : PK → Sig → Msg → Bool) (parse : Msg → Option Ann) :
    List Nat → State PK → List (Ev PK Sig Msg) → List Nat × State PK
  | subs, st, [] => (subs, st)
  | subs, st, .batch ws :: rest => gotEvents verify parse subs (gotBatch verify parse subs st ws) rest
  | subs, st, .subscribe svc :: rest => gotEvents verify parse (subs ++ [svc]) (subscribeTo svc st) rest

/-! ### Key spellings

The wire carries the key as a *string* (`claimed_key_vs`); `ed25519.verifying_key_from_string`
decodes it.  `dec : Sp → KeyField PK` is that decoding (missing / no `v0-` / not base32 / wrong
length / the verifying key).  The identity an announcement is filed under in this model is the
decoded **verifying key**, not the spelling.  The code files it under the string it received
(`key_vs = claimed_key_vs`); the two agree as long as a key has exactly one accepted spelling,
which `base32.a2b`'s precondition (lower case, zero pad bits, no whitespace) ensures in the
unchanged tree — the harness sends case / whitespace / pad-bit variants and checks that they are
refused (seed C34-c accepted them and split one key into several identities). -/
inductive SpelledWire (Sp Sig Msg : Type)
  | garbage
  | tuple (msg : Msg) (sig : SigField Sig) (sp : Sp)
  deriving DecidableEq, Repr

def decodeWire {Sp : Type} (dec : Sp → KeyField PK) : SpelledWire Sp Sig Msg → Wire PK Sig Msg
  | .garbage => .garbage
  | .tuple msg sig sp => .tuple msg sig (dec sp)

/-- the same tuple with its key string re-spelled -/
def respell {Sp : Type} (ren : Sp → Sp) : SpelledWire Sp Sig Msg → SpelledWire Sp Sig Msg
  | .garbage => .garbage
  | .tuple msg sig sp => .tuple msg sig (ren sp)

/-- a stream of batches of tuples as received (keys still spelled) -/
def gotStreamS {Sp : Type} [DecidableEq PK] (dec : Sp → KeyField PK) (verify : PK → Sig → Msg → Bool)
    (parse : Msg → Option Ann) (subs : List Nat) (st : State PK)
    (bs : List (List (SpelledWire Sp Sig Msg))) : State PK :=
  gotStream verify parse subs st (bs.map (fun b => b.map (decodeWire dec)))

end
end Tahoe.Introducer
