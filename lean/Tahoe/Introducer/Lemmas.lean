import Tahoe.Introducer.Model
/-! Helper lemmas for C34 (kept apart from the property theorems). -/
namespace Tahoe.Introducer

variable {PK Sig Msg : Type}

theorem unsign_ok {verify : PK → Sig → Msg → Bool} {parse : Msg → Option Ann}
    {w : Wire PK Sig Msg} {a : Ann} {k : PK} (h : unsign verify parse w = .ok (a, k)) :
    ∃ msg s, w = .tuple msg (.bytes s) (.key k) ∧ verify k s msg = true ∧ parse msg = some a := by
  cases w with
  | garbage => simp [unsign] at h
  | tuple msg sig key =>
    cases sig <;> cases key <;> simp [unsign] at h
    rename_i s k'
    by_cases hv : verify k' s msg = true
    · simp [hv] at h
      cases hp : parse msg with
      | none => simp [hp] at h
      | some a' =>
        simp [hp] at h
        obtain ⟨h1, h2⟩ := h
        subst h1 h2
        exact ⟨msg, s, rfl, hv, hp⟩
    · simp [hv] at h

section
variable [DecidableEq PK]

theorem lookup_setEntry_same (idx : Index PK) (a : Ann) (l : List (Index PK × Ann)) :
    lookup idx (setEntry idx a l) = some a := by
  induction l with
  | nil => simp [setEntry, lookup]
  | cons p rest ih =>
    obtain ⟨i, b⟩ := p
    by_cases h : i = idx
    · simp [setEntry, lookup, h]
    · simp [setEntry, lookup, h, ih]

theorem lookup_setEntry_other (idx j : Index PK) (a : Ann) (l : List (Index PK × Ann)) (h : j ≠ idx) :
    lookup j (setEntry idx a l) = lookup j l := by
  induction l with
  | nil =>
    have : ¬ idx = j := fun e => h e.symm
    simp [setEntry, lookup, this]
  | cons p rest ih =>
    obtain ⟨i, b⟩ := p
    by_cases hi : i = idx
    · have : ¬ idx = j := fun e => h e.symm
      have : ¬ i = j := fun e => h (e.symm.trans hi)
      simp [setEntry, lookup, *]
    · by_cases hj : i = j
      · subst hj
        simp [setEntry, lookup, hi]
      · simp [setEntry, lookup, hi, hj, ih]

theorem mem_setEntry (idx : Index PK) (a : Ann) (l : List (Index PK × Ann)) (e : Index PK × Ann)
    (h : e ∈ setEntry idx a l) : e = (idx, a) ∨ e ∈ l := by
  induction l with
  | nil => simp [setEntry] at h; exact Or.inl h
  | cons p rest ih =>
    obtain ⟨i, b⟩ := p
    by_cases hi : i = idx
    · simp [setEntry, hi] at h
      rcases h with h | h
      · exact Or.inl h
      · exact Or.inr (List.mem_cons_of_mem _ h)
    · simp [setEntry, hi] at h
      rcases h with h | h
      · exact Or.inr (by rw [h]; exact List.mem_cons_self)
      · rcases ih h with h' | h'
        · exact Or.inl h'
        · exact Or.inr (List.mem_cons_of_mem _ h')

/-- every way `_process_announcement` can end: state untouched, or `ann` stored and delivered under
    `(s, key)` with the side conditions of the branch taken -/
theorem processAnn_cases (subs : List Nat) (st : State PK) (ann : Ann) (key : PK) :
    (processAnn subs st ann key).2 = st ∨
    ∃ s, ann.svc = .name s ∧ subs.contains s = true ∧
      (processAnn subs st ann key).2 = accept st (s, key) ann ∧
      (lookup (s, key) st.store = none ∨
       ∃ old, lookup (s, key) st.store = some old ∧ old.content ≠ ann.content ∧
         (old.seq = .absent ∨ ∃ n, ann.seq = .int n ∧ leOld n old.seq = some false)) := by
  unfold processAnn
  cases hs : ann.svc with
  | unreadable => simp
  | name s =>
    by_cases hsub : s ∈ subs
    · by_cases hd : ann.descRaises = true
      · simp [hsub, hd]
      · cases hl : lookup (s, key) st.store with
        | none =>
          right
          exact ⟨s, rfl, by simpa using hsub, by simp [hsub, hd, hl], Or.inl hl⟩
        | some old =>
          by_cases hc : old.content = ann.content
          · simp [hsub, hd, hl, hc]
          · cases ho : old.seq with
            | absent =>
              right
              exact ⟨s, rfl, by simpa using hsub, by simp [hsub, hd, hl, hc, ho],
                Or.inr ⟨old, hl, hc, Or.inl ho⟩⟩
            | int m =>
              cases ha : ann.seq with
              | int n =>
                cases hle : leOld n (.int m) with
                | none => simp [hsub, hd, hl, hc, ho, hle]
                | some b =>
                  cases b with
                  | true => simp [hsub, hd, hl, hc, ho, hle]
                  | false =>
                    right
                    exact ⟨s, rfl, by simpa using hsub, by simp [hsub, hd, hl, hc, ho, hle],
                      Or.inr ⟨old, hl, hc, Or.inr ⟨n, rfl, by rw [ho]; exact hle⟩⟩⟩
              | _ => simp [hsub, hd, hl, hc, ho]
            | float m =>
              cases ha : ann.seq with
              | int n =>
                cases hle : leOld n (.float m) with
                | none => simp [hsub, hd, hl, hc, ho, hle]
                | some b =>
                  cases b with
                  | true => simp [hsub, hd, hl, hc, ho, hle]
                  | false =>
                    right
                    exact ⟨s, rfl, by simpa using hsub, by simp [hsub, hd, hl, hc, ho, hle],
                      Or.inr ⟨old, hl, hc, Or.inr ⟨n, rfl, by rw [ho]; exact hle⟩⟩⟩
              | _ => simp [hsub, hd, hl, hc, ho]
            | posInf =>
              cases ha : ann.seq with
              | int n => simp [hsub, hd, hl, hc, ho, leOld]
              | _ => simp [hsub, hd, hl, hc, ho]
            | negInf =>
              cases ha : ann.seq with
              | int n =>
                right
                exact ⟨s, rfl, by simpa using hsub, by simp [hsub, hd, hl, hc, ho, leOld],
                  Or.inr ⟨old, hl, hc, Or.inr ⟨n, rfl, by rw [ho]; rfl⟩⟩⟩
              | _ => simp [hsub, hd, hl, hc, ho]
            | junk =>
              cases ha : ann.seq with
              | int n => simp [hsub, hd, hl, hc, ho, leOld]
              | _ => simp [hsub, hd, hl, hc, ho]
    · simp [hsub]

theorem gotBatch_append (verify : PK → Sig → Msg → Bool) (parse : Msg → Option Ann)
    (subs : List Nat) (st : State PK) (a b : List (Wire PK Sig Msg)) :
    gotBatch verify parse subs st (a ++ b) =
      gotBatch verify parse subs (gotBatch verify parse subs st a) b := by
  induction a generalizing st with
  | nil => rfl
  | cons w ws ih => simp [gotBatch, ih]

theorem gotStream_eq_flatten (verify : PK → Sig → Msg → Bool) (parse : Msg → Option Ann)
    (subs : List Nat) (st : State PK) (bs : List (List (Wire PK Sig Msg))) :
    gotStream verify parse subs st bs = gotBatch verify parse subs st bs.flatten := by
  induction bs generalizing st with
  | nil => rfl
  | cons b bs ih => simp [gotStream, ih, gotBatch_append]

end

open Tahoe.GridManager (SymSig symVerify Unforgeable)

/-- `ann` arrived in `ws` inside a tuple claiming key `k`, with a signature that verifies under `k`
    for exactly the message bytes that decode to `ann` -/
def Verified (verify : PK → Sig → Msg → Bool) (parse : Msg → Option Ann)
    (ws : List (Wire PK Sig Msg)) (k : PK) (ann : Ann) : Prop :=
  ∃ msg s, Wire.tuple msg (.bytes s) (.key k) ∈ ws ∧ verify k s msg = true ∧ parse msg = some ann

/-- every stored and every delivered announcement is `Verified` for the key it is filed under -/
def Authentic (verify : PK → Sig → Msg → Bool) (parse : Msg → Option Ann)
    (ws : List (Wire PK Sig Msg)) (st : State PK) : Prop :=
  (∀ e ∈ st.delivered, Verified verify parse ws e.1 e.2) ∧
  (∀ e ∈ st.store, Verified verify parse ws e.1.2 e.2 ∧ e.2.svc = .name e.1.1)

theorem Verified.mono {verify : PK → Sig → Msg → Bool} {parse : Msg → Option Ann}
    {ws ws' : List (Wire PK Sig Msg)} {k : PK} {a : Ann} (hsub : ∀ w ∈ ws, w ∈ ws')
    (h : Verified verify parse ws k a) : Verified verify parse ws' k a := by
  obtain ⟨msg, s, hm, hv, hp⟩ := h
  exact ⟨msg, s, hsub _ hm, hv, hp⟩

theorem authentic_step [DecidableEq PK] (verify : PK → Sig → Msg → Bool)
    (parse : Msg → Option Ann) (subs : List Nat) (seen : List (Wire PK Sig Msg)) (st : State PK)
    (w : Wire PK Sig Msg) (h : Authentic verify parse seen st) :
    Authentic verify parse (seen ++ [w]) (gotOne verify parse subs st w).2 := by
  have hmono : ∀ x ∈ seen, x ∈ seen ++ [w] := fun x hx => List.mem_append_left _ hx
  have hkeep : Authentic verify parse (seen ++ [w]) st :=
    ⟨fun e he => (h.1 e he).mono hmono, fun e he => ⟨((h.2 e he).1).mono hmono, (h.2 e he).2⟩⟩
  unfold gotOne
  cases hu : unsign verify parse w with
  | error e => exact hkeep
  | ok p =>
    obtain ⟨ann, key⟩ := p
    obtain ⟨msg, s, hw, hv, hp⟩ := unsign_ok hu
    have hver : Verified verify parse (seen ++ [w]) key ann :=
      ⟨msg, s, by rw [← hw]; simp, hv, hp⟩
    rcases processAnn_cases subs st ann key with hst | ⟨sv, hsv, _, hst, _⟩
    · simp only [hst]; exact hkeep
    · simp only [hst]
      constructor
      · intro e he
        simp only [accept, List.mem_append, List.mem_singleton] at he
        rcases he with he | he
        · exact hkeep.1 e he
        · subst he; exact hver
      · intro e he
        rcases mem_setEntry _ _ _ _ he with he | he
        · subst he; exact ⟨hver, hsv⟩
        · exact hkeep.2 e he

theorem authentic_batch [DecidableEq PK] (verify : PK → Sig → Msg → Bool)
    (parse : Msg → Option Ann) (subs : List Nat) (seen : List (Wire PK Sig Msg)) (st : State PK)
    (ws : List (Wire PK Sig Msg)) (h : Authentic verify parse seen st) :
    Authentic verify parse (seen ++ ws) (gotBatch verify parse subs st ws) := by
  induction ws generalizing seen st with
  | nil => simpa [gotBatch] using h
  | cons w ws ih =>
    have := ih (seen ++ [w]) _ (authentic_step verify parse subs seen st w h)
    simpa [gotBatch] using this

theorem processAnn_lookup [DecidableEq PK] (subs : List Nat) (st : State PK)
    (ann : Ann) (key : PK) (idx : Index PK) (old : Ann) (hold : lookup idx st.store = some old) :
    lookup idx (processAnn subs st ann key).2.store = some old ∨
    (lookup idx (processAnn subs st ann key).2.store = some ann ∧ idx.2 = key ∧
      (old.seq = .absent ∨ ∃ n, ann.seq = .int n ∧ leOld n old.seq = some false)) := by
  rcases processAnn_cases subs st ann key with hst | ⟨s, _, _, hst, hcase⟩
  · rw [hst]; exact Or.inl hold
  · rw [hst]
    by_cases hi : idx = (s, key)
    · subst hi
      right
      refine ⟨by simp [accept, lookup_setEntry_same], rfl, ?_⟩
      rcases hcase with hn | ⟨old', ho', _, hc⟩
      · rw [hn] at hold; cases hold
      · rw [ho'] at hold; cases hold; exact hc
    · left
      simp [accept, lookup_setEntry_other _ _ _ _ hi, hold]

theorem seq_mono_one [DecidableEq PK] (verify : PK → Sig → Msg → Bool)
    (parse : Msg → Option Ann) (subs : List Nat) (st : State PK) (w : Wire PK Sig Msg)
    (idx : Index PK) (a : Ann) (m : Int) (ha : a.seq = .int m)
    (h : ∃ b n, lookup idx st.store = some b ∧ b.seq = .int n ∧ (b = a ∨ m < n)) :
    ∃ b n, lookup idx (gotOne verify parse subs st w).2.store = some b ∧ b.seq = .int n ∧
      (b = a ∨ m < n) := by
  obtain ⟨b, n, hb, hbn, hord⟩ := h
  unfold gotOne
  cases hu : unsign verify parse w with
  | error e => exact ⟨b, n, hb, hbn, hord⟩
  | ok p =>
    obtain ⟨ann, key⟩ := p
    rcases processAnn_lookup subs st ann key idx b hb with h1 | ⟨h1, _, h2⟩
    · exact ⟨b, n, h1, hbn, hord⟩
    · rcases h2 with h2 | ⟨n', hn', hle⟩
      · rw [hbn] at h2; cases h2
      · refine ⟨ann, n', h1, hn', Or.inr ?_⟩
        rw [hbn] at hle
        simp [leOld] at hle
        rcases hord with rfl | hlt
        · rw [ha] at hbn; cases hbn; omega
        · omega

/-- an announcement is *bad* when unsigning it raises (any exception class) or processing it raises -/
def Bad [DecidableEq PK] (verify : PK → Sig → Msg → Bool) (parse : Msg → Option Ann)
    (subs : List Nat) (st : State PK) (w : Wire PK Sig Msg) : Prop :=
  (∃ e, unsign verify parse w = .error e) ∨
  (∃ ann k, unsign verify parse w = .ok (ann, k) ∧ (processAnn subs st ann k).1 = .raised)

theorem raised_keeps_state [DecidableEq PK] (subs : List Nat) (st : State PK) (ann : Ann)
    (key : PK) (h : (processAnn subs st ann key).1 = .raised) : (processAnn subs st ann key).2 = st := by
  unfold processAnn at h ⊢
  repeat' split
  all_goals first | rfl | (simp_all; done)


theorem decodeWire_respell {PK Sig Msg Sp : Type} (dec : Sp → KeyField PK) (ren : Sp → Sp)
    (hren : ∀ sp, dec (ren sp) = dec sp) (w : SpelledWire Sp Sig Msg) :
    decodeWire dec (respell ren w) = decodeWire dec w := by
  cases w <;> simp [respell, decodeWire, hren]

theorem map_decode_respell {PK Sig Msg Sp : Type} (dec : Sp → KeyField PK) (ren : Sp → Sp)
    (hren : ∀ sp, dec (ren sp) = dec sp) (bs : List (List (SpelledWire Sp Sig Msg))) :
    (bs.map (fun b => b.map (respell ren))).map (fun b => b.map (decodeWire dec)) =
      bs.map (fun b => b.map (decodeWire dec)) := by
  induction bs with
  | nil => rfl
  | cons b bs ih =>
    simp only [List.map_cons, List.map_map] at ih ⊢
    rw [ih]
    congr 1
    exact List.map_congr_left (fun w _ => decodeWire_respell dec ren hren w)

section Subscribe
variable {PK Sig Msg : Type} [DecidableEq PK]

theorem authentic_subscribe (verify : PK → Sig → Msg → Bool) (parse : Msg → Option Ann)
    (seen : List (Wire PK Sig Msg)) (st : State PK) (svc : Nat) (h : Authentic verify parse seen st) :
    Authentic verify parse seen (subscribeTo svc st) := by
  refine ⟨?_, h.2⟩
  intro e he
  simp only [subscribeTo, List.mem_append, List.mem_map, List.mem_filter] at he
  rcases he with he | ⟨x, ⟨hx, _⟩, rfl⟩
  · exact h.1 e he
  · exact (h.2 x hx).1

/-- the wire tuples of a history, in order -/
def wiresOf : List (Ev PK Sig Msg) → List (Wire PK Sig Msg)
  | [] => []
  | .batch ws :: rest => ws ++ wiresOf rest
  | .subscribe _ :: rest => wiresOf rest

theorem authentic_events (verify : PK → Sig → Msg → Bool) (parse : Msg → Option Ann)
    (evs : List (Ev PK Sig Msg)) (subs : List Nat) (seen : List (Wire PK Sig Msg)) (st : State PK)
    (h : Authentic verify parse seen st) :
    Authentic verify parse (seen ++ wiresOf evs) (gotEvents verify parse subs st evs).2 := by
  induction evs generalizing subs seen st with
  | nil => simpa [gotEvents, wiresOf] using h
  | cons ev rest ih =>
    cases ev with
    | batch ws =>
      have := ih subs (seen ++ ws) _ (authentic_batch verify parse subs seen st ws h)
      simpa [gotEvents, wiresOf, List.append_assoc] using this
    | subscribe svc =>
      have := ih (subs ++ [svc]) seen _ (authentic_subscribe verify parse seen st svc h)
      simpa [gotEvents, wiresOf] using this

theorem seq_mono_batch (verify : PK → Sig → Msg → Bool) (parse : Msg → Option Ann) (subs : List Nat)
    (ws : List (Wire PK Sig Msg)) (st : State PK) (idx : Index PK) (a : Ann) (m : Int) (ha : a.seq = .int m)
    (h : ∃ b n, lookup idx st.store = some b ∧ b.seq = .int n ∧ (b = a ∨ m < n)) :
    ∃ b n, lookup idx (gotBatch verify parse subs st ws).store = some b ∧ b.seq = .int n ∧ (b = a ∨ m < n) := by
  induction ws generalizing st with
  | nil => exact h
  | cons w ws ih => exact ih _ (seq_mono_one verify parse subs st w idx a m ha h)

theorem seq_mono_events (verify : PK → Sig → Msg → Bool) (parse : Msg → Option Ann)
    (evs : List (Ev PK Sig Msg)) (subs : List Nat) (st : State PK) (idx : Index PK) (a : Ann) (m : Int)
    (ha : a.seq = .int m)
    (h : ∃ b n, lookup idx st.store = some b ∧ b.seq = .int n ∧ (b = a ∨ m < n)) :
    ∃ b n, lookup idx (gotEvents verify parse subs st evs).2.store = some b ∧ b.seq = .int n ∧ (b = a ∨ m < n) := by
  induction evs generalizing subs st with
  | nil => exact h
  | cons ev rest ih =>
    cases ev with
    | batch ws => exact ih subs _ (seq_mono_batch verify parse subs ws st idx a m ha h)
    | subscribe svc => exact ih (subs ++ [svc]) (subscribeTo svc st) h

end Subscribe

end Tahoe.Introducer
