/-
Marshalling layer of the HTTP storage protocol (C31): what `storage/http_server.py` and
`storage/http_client.py` do between the wire and the `StorageServer` calls.  Mathlib-free, executable.

The storage semantics itself is abstracted to the smallest thing the marshalling needs:
a finished share is its byte string, an upload in progress is a list of cells (`none` = not yet written),
a mutable share is its byte string.  (The container formats are the subject of C22–C25.)

Assumed interfaces (third party, sampled by the correspondence run, not modelled):
werkzeug's `parse_range_header` / `Range.to_header` / `parse_content_range_header` / `ContentRange.to_header`
(the model starts from the *parsed* header), CBOR encoding/decoding and the CDDL validator (the model starts
from the decoded value; a body the validator rejects is `Body.invalid`).
-/
import Tahoe.Http.Codec
namespace Tahoe.Http

/-! ### direct storage semantics (the reference both paths must agree with) -/

/-- `ShareFile.read_share_data` / `MutableShareFile._read_share_data`: reads past the end are truncated,
reads starting past the end are empty. -/
def readShareData (d : Bytes) (offset length : Nat) : Bytes := (d.drop offset).take length

/-! ### range reads: `read_range` + `_ReadRangeProducer` (server), `read_share_chunk` (client) -/

/-- the result of werkzeug's `parse_range_header`: units and the list of `(start, end-exclusive or None)` -/
structure RangeHdr where
  units : String
  ranges : List (Int × Option Int)
deriving Repr, DecidableEq

/-- what the server answers to a share read -/
inductive ReadResp
  | ok200 (data : Bytes)                       -- no Range header: whole share (`_ReadAllProducer`)
  | partial206 (start stop : Nat) (data : Bytes) -- Content-Range `bytes start-(stop-1)/*`
  | noContent204
  | rangeNotSatisfiable416
  | serverError500
deriving Repr, DecidableEq

/-- `read_range(request, read_data, share_length)`.
`hdr = none`: no `Range` header; `some none`: header present but `parse_range_header` returned `None`. -/
def readRange (hdr : Option (Option RangeHdr)) (d : Bytes) : ReadResp :=
  match hdr with
  | none => .ok200 d
  | some none => .rangeNotSatisfiable416
  | some (some h) =>
    if h.units ≠ "bytes" then .rangeNotSatisfiable416
    else if h.ranges.length > 1 then .rangeNotSatisfiable416
    else match h.ranges with
      | [] => .serverError500                       -- `ranges[0]` IndexError (werkzeug never produces this)
      | (_, none) :: _ => .rangeNotSatisfiable416   -- range without end
      | (offset, some e) :: _ =>
        -- werkzeug only yields 0 ≤ offset < e when the end is given; other values are kept total here
        let off := offset.toNat
        let stop := min e.toNat d.length
        if offset < 0 then .serverError500
        else if off ≥ stop then .noContent204
        else .partial206 off stop (readShareData d off (stop - off))

/-- what the client's `read_share_chunk(offset, length)` returns -/
inductive ClientRead
  | data (b : Bytes)
  | httpError (code : Nat)       -- `ClientException(code)`
  | valueError                   -- client-side `ValueError`
deriving Repr, DecidableEq

/-- How `read_share_chunk` treats `length = 0` (an HTTP byte range cannot be empty).  The variant in force is
*generated* from the live client (`Generated.Http.zeroLengthRead`, observed by the extractor on a stub server):
`raise`  — `Range("bytes", [(o, o)])` raises `ValueError`, nothing is sent (the code before 04453c5);
`empty`  — returns `b""` without any request (04453c5);
`probe`  — asks for the one byte at `offset`, drops it (so a missing share still answers 404). -/
inductive ZeroRead
  | raise | empty | probe
deriving Repr, DecidableEq

def ZeroRead.ofName : String → ZeroRead
  | "empty" => .empty
  | "probe" => .probe
  | _ => .raise

/-- the variant the code under verification has -/
def zeroRead : ZeroRead := ZeroRead.ofName Generated.Http.zeroLengthRead

/-- what the client does before any network traffic -/
inductive ReadPlan
  | raise                                     -- client-side `ValueError`
  | localEmpty                                -- `return b""`, no request
  | send (h : RangeHdr) (reqLen : Nat)        -- `Range("bytes", [(offset, offset+reqLen)])`
deriving Repr, DecidableEq

def rangeFor (offset reqLen : Nat) : RangeHdr := ⟨"bytes", [((offset : Int), some ((offset + reqLen : Nat) : Int))]⟩

def clientReadPlan (m : ZeroRead) (offset length : Nat) : ReadPlan :=
  if length = 0 then
    match m with
    | .raise => .raise
    | .empty => .localEmpty
    | .probe => .send (rangeFor offset 1) 1
  else .send (rangeFor offset length) length

/-- the client side of `read_share_chunk` applied to a server response: `reqLen` bytes were asked for, the caller
wants `length` of them (`reqLen = length` except for the one-byte probe of a zero-length read). -/
def clientInterpretRead (reqLen length : Nat) : ReadResp → ClientRead
  | .noContent204 => .data []
  | .partial206 start stop body =>
    if stop - start > reqLen then .valueError          -- "Server sent more than we asked for?!"
    else if body.length ≠ stop - start then .valueError
    else .data (body.take length)
  | .ok200 _ => .httpError 200
  | .rangeNotSatisfiable416 => .httpError 416
  | .serverError500 => .httpError 500

/-- whole HTTP read path on a share that may be missing (`none`: the server answers 404). -/
def httpReadOpt (m : ZeroRead) (share : Option Bytes) (offset length : Nat) : ClientRead :=
  match clientReadPlan m offset length with
  | .raise => .valueError
  | .localEmpty => .data []
  | .send h reqLen =>
    match share with
    | none => .httpError 404
    | some d => clientInterpretRead reqLen length (readRange (some (some h)) d)

/-- whole HTTP read path on an existing share with content `d`. -/
def httpRead (m : ZeroRead) (d : Bytes) (offset length : Nat) : ClientRead := httpReadOpt m (some d) offset length

/-- the direct path on a share that may be missing: `get_buckets(si)[n]` / `slot_readv(si, [n], …)` have no entry -/
def directReadOpt (share : Option Bytes) (offset length : Nat) : Option Bytes :=
  share.map (fun d => readShareData d offset length)

/-! ### chunked immutable upload: `BucketWriter` as cells -/

abbrev Cells := List (Option UInt8)

/-- `BucketWriter.write`, the conflict check: some already written byte in the range differs from the new
data (`cells` already dropped to the offset; bytes beyond the allocation are not looked at here). -/
def conflictsAt : Cells → Bytes → Bool
  | _, [] => false
  | [], _ :: _ => false
  | none :: cs, _ :: bs => conflictsAt cs bs
  | some c :: cs, b :: bs => c != b || conflictsAt cs bs

/-- result of one `BucketWriter.write(offset, data)` -/
inductive WriteRes
  | ok (cells : Cells)
  | conflict                                             -- `ConflictingWriteError`
  | tooLarge                                             -- `DataTooLargeError` (raised by `write_share_data`, after the conflict check)
deriving Repr, DecidableEq

def bucketWrite (cells : Cells) (off : Nat) (data : Bytes) : WriteRes :=
  if conflictsAt (cells.drop off) data then .conflict
  else if off + data.length > cells.length then .tooLarge
  else .ok (cells.take off ++ data.map some ++ cells.drop (off + data.length))

/-- `_is_finished`: the written ranges add up to the allocated size. -/
def finished (cells : Cells) : Bool := cells.all Option.isSome

def cellsData (cells : Cells) : Bytes := cells.map (fun c => c.getD 0)

/-- `required_ranges().ranges()` as `(begin, end)` pairs: maximal runs of unwritten cells.
`pos` = index of the head cell, `run` = start of the current unwritten run. -/
def requiredFrom (pos : Nat) (run : Option Nat) : Cells → List (Nat × Nat)
  | [] => match run with
    | some s => [(s, pos)]
    | none => []
  | none :: cs => requiredFrom (pos + 1) (some (run.getD pos)) cs
  | some _ :: cs => match run with
    | some s => (s, pos) :: requiredFrom (pos + 1) none cs
    | none => requiredFrom (pos + 1) none cs

def required (cells : Cells) : List (Nat × Nat) := requiredFrom 0 none cells

/-- one upload seen from the marshalling layer: open with its cells, or closed (moved to its final place) -/
inductive UpSt
  | opened (cells : Cells)
  | closed (data : Bytes)
deriving Repr, DecidableEq

/-- what a `write_share_chunk` reports -/
inductive UpRes
  | progress (finished : Bool) (required : List (Nat × Nat))   -- 200 / 201 with the `required` list
  | conflict                                                     -- 409
  | tooLarge                                                     -- 500
  | gone                                                         -- 404: no such upload in progress (any more)
deriving Repr, DecidableEq

/-- `HTTPServer.write_share_data` for a chunk whose body matches its Content-Range: write, and close the
bucket as soon as `write` reports completion. -/
def upStep : UpSt → Nat × Bytes → UpSt × UpRes
  | .closed d, _ => (.closed d, .gone)
  | .opened cells, (off, data) =>
    match bucketWrite cells off data with
    | .conflict => (.opened cells, .conflict)
    | .tooLarge => (.opened cells, .tooLarge)
    | .ok c' => if finished c' then (.closed (cellsData c'), .progress true []) else (.opened c', .progress false (required c'))

def runUpload (s : UpSt) : List (Nat × Bytes) → UpSt × List UpRes
  | [] => (s, [])
  | c :: rest =>
    let r := upStep s c
    let rr := runUpload r.1 rest
    (rr.1, r.2 :: rr.2)

/-- the parsed `Content-Range` of a PATCH: `none` = `parse_content_range_header` returned `None`;
`span = none` = `bytes */len` (start and stop are `None`). -/
structure ContentRange where
  units : String
  span : Option (Nat × Nat)            -- (start, stop-exclusive)
deriving Repr, DecidableEq

/-- the `Content-Range` the client's `write_share_chunk(offset, data)` sends:
`ContentRange("bytes", offset, offset+len(data))`; werkzeug asserts `start < stop`, so an empty chunk is a
client-side `AssertionError` and nothing is sent. -/
def clientContentRange (offset : Nat) (data : Bytes) : Option ContentRange :=
  if data.length = 0 then none else some ⟨"bytes", some (offset, offset + data.length)⟩

/-! ### mutable shares: `MutableShareFile._write_share_data`, `writev` -/

/-- `_write_share_data(offset, data)` on the logical data: the gap up to `offset` is zero-filled; an empty
write beyond the end extends the share with zeros (because the test is `offset+length >= data_length`). -/
def mutWrite (d : Bytes) (offset : Nat) (w : Bytes) : Bytes :=
  let pre := d.take offset
  pre ++ List.replicate (offset - pre.length) 0 ++ w ++ d.drop (offset + w.length)

/-- `writev(datav, new_length)`: writes in order, then truncation when `new_length < current length`. -/
def mutWritev (d : Bytes) (ws : List (Nat × Bytes)) (newLength : Option Nat) : Bytes :=
  let d' := ws.foldl (fun acc w => mutWrite acc w.1 w.2) d
  match newLength with
  | some n => if n < d'.length then d'.take n else d'
  | none => d'

/-! ### read-test-write marshalling

`Val` is the decoded CBOR tree.  The client builds it (`TestWriteVectors.asdict`, `attrs.asdict` of the read
vectors, `_read_test_write_chunks`), `cbor2`/`pycddl` carry and validate it, the server handler looks the keys
up again and calls `slot_testv_and_readv_and_writev`. -/

inductive Val
  | nat (n : Nat)
  | bytes (b : Bytes)
  | text (s : String)
  | null
  | bool (b : Bool)
  | list (l : List Val)
  | map (m : List (Val × Val))
deriving Repr

structure TestV where
  offset : Nat
  size : Nat
  specimen : Bytes
deriving Repr, DecidableEq

structure TWV where
  tests : List TestV
  writes : List (Nat × Bytes)
  newLength : Option Nat
deriving Repr, DecidableEq

/-- the arguments of the direct call `slot_testv_and_readv_and_writev(si, secrets, tw_vectors, r_vector)` -/
structure RtwArgs where
  tw : List (Nat × TWV)            -- dict share number → vectors, in iteration order
  rv : List (Nat × Nat)
deriving Repr, DecidableEq

def Val.lookup (k : String) : List (Val × Val) → Option Val
  | [] => none
  | (.text s, v) :: rest => if s = k then some v else Val.lookup k rest
  | _ :: rest => Val.lookup k rest

/-- client: `TestWriteVectors.asdict()` -/
def encTWV (t : TWV) : Val :=
  .map [ (.text "test", .list (t.tests.map fun x =>
            .map [(.text "offset", .nat x.offset), (.text "size", .nat x.size), (.text "specimen", .bytes x.specimen)])),
         (.text "write", .list (t.writes.map fun w => .map [(.text "offset", .nat w.1), (.text "data", .bytes w.2)])),
         (.text "new-length", match t.newLength with | some n => .nat n | none => .null) ]

/-- client: the `message` of `_read_test_write_chunks` -/
def encRtw (a : RtwArgs) : Val :=
  .map [ (.text "test-write-vectors", .map (a.tw.map fun p => (.nat p.1, encTWV p.2))),
         (.text "read-vector", .list (a.rv.map fun r => .map [(.text "offset", .nat r.1), (.text "size", .nat r.2)])) ]

def decNat : Val → Option Nat
  | .nat n => some n
  | _ => none

def decBytes : Val → Option Bytes
  | .bytes b => some b
  | _ => none

def decList : Val → Option (List Val)
  | .list l => some l
  | _ => none

def decMap : Val → Option (List (Val × Val))
  | .map m => some m
  | _ => none

def decTest (v : Val) : Option TestV := do
  let m ← decMap v
  pure ⟨← (Val.lookup "offset" m).bind decNat, ← (Val.lookup "size" m).bind decNat,
        ← (Val.lookup "specimen" m).bind decBytes⟩

def decWrite (v : Val) : Option (Nat × Bytes) := do
  let m ← decMap v
  pure (← (Val.lookup "offset" m).bind decNat, ← (Val.lookup "data" m).bind decBytes)

def decRead (v : Val) : Option (Nat × Nat) := do
  let m ← decMap v
  pure (← (Val.lookup "offset" m).bind decNat, ← (Val.lookup "size" m).bind decNat)

def decNewLength : Val → Option (Option Nat)
  | .nat n => some (some n)
  | .null => some none
  | _ => none

/-- the CDDL bounds of `_SCHEMAS["mutable_read_test_write"]`: at most 30 test vectors per share and 30 read
vectors, at most 256 shares (more → 400, where the direct call has no bound). -/
def maxTestVectors : Nat := 30
def maxReadVectors : Nat := 30
def maxShares : Nat := 256

def decTWV (v : Val) : Option TWV := do
  let m ← decMap v
  let ts ← ((← (Val.lookup "test" m).bind decList).mapM decTest)
  let ws ← ((← (Val.lookup "write" m).bind decList).mapM decWrite)
  let nl ← (Val.lookup "new-length" m).bind decNewLength
  if ts.length ≤ maxTestVectors then pure ⟨ts, ws, nl⟩ else none

def decShareEntry (p : Val × Val) : Option (Nat × TWV) := do
  pure (← decNat p.1, ← decTWV p.2)

/-- server: schema validation + the comprehension in `mutable_read_test_write`; `none` = 400 -/
def decRtw (v : Val) : Option RtwArgs := do
  let m ← decMap v
  let tw ← ((← (Val.lookup "test-write-vectors" m).bind decMap).mapM decShareEntry)
  let rv ← ((← (Val.lookup "read-vector" m).bind decList).mapM decRead)
  if tw.length ≤ maxShares ∧ rv.length ≤ maxReadVectors then pure ⟨tw, rv⟩ else none

/-- the result of `slot_testv_and_readv_and_writev`: success flag and, per existing share, the read data -/
structure RtwResult where
  success : Bool
  reads : List (Nat × List Bytes)
deriving Repr, DecidableEq

/-- server: `{"success": …, "data": …}` -/
def encRtwResult (r : RtwResult) : Val :=
  .map [ (.text "success", .bool r.success),
         (.text "data", .map (r.reads.map fun p => (.nat p.1, .list (p.2.map .bytes)))) ]

def decBool : Val → Option Bool
  | .bool b => some b
  | _ => none

def decReadsEntry (p : Val × Val) : Option (Nat × List Bytes) := do
  pure (← decNat p.1, ← ((← decList p.2).mapM decBytes))

/-- client: `ReadTestWriteResult(success=result["success"], reads=result["data"])` -/
def decRtwResult (v : Val) : Option RtwResult := do
  let m ← decMap v
  let s ← (Val.lookup "success" m).bind decBool
  let d ← (Val.lookup "data" m).bind decMap
  let reads ← d.mapM decReadsEntry
  pure ⟨s, reads⟩

/-! ### the storage-side meaning of read-test-write on one slot (share number → data) -/

def lookupShare (n : Nat) : List (Nat × Bytes) → Option Bytes
  | [] => none
  | (k, d) :: rest => if k = n then some d else lookupShare n rest

/-- `_evaluate_test_vectors`: every vector of every mentioned share; a missing share reads as empty. -/
def testsPass (shares : List (Nat × Bytes)) (tw : List (Nat × TWV)) : Bool :=
  tw.all fun p =>
    let d := (lookupShare p.1 shares).getD []
    p.2.tests.all fun t => readShareData d t.offset t.size == t.specimen

/-- `_evaluate_read_vectors`: for *every existing* share of the slot -/
def readAll (shares : List (Nat × Bytes)) (rv : List (Nat × Nat)) : List (Nat × List Bytes) :=
  shares.map fun p => (p.1, rv.map fun r => readShareData p.2 r.1 r.2)

end Tahoe.Http
