/-
Helper definitions for `Tahoe/Props/C31.lean`: the tie between the server handler `hWrite` and the
marshalling-level upload step `upStep`.
-/
import Tahoe.Http.Server
import Tahoe.Http.LemmasMarshal
namespace Tahoe.Http

/-- how `write_share_data` answers given the marshalling-level step -/
def writeOutcome (st : State) (si : String) (n : Nat) (u : Upload) : UpSt × UpRes → State × Response
  | (_, .conflict) => (st, ⟨409, .empty⟩)
  | (_, .tooLarge) => (st, ⟨500, .html⟩)
  | (_, .gone) => (st, ⟨404, .empty⟩)
  | (.closed d, .progress _ _) =>
    ({ st with up := eraseK (si, n) st.up, imm := st.imm ++ [((si, n), ⟨d, [u.lease]⟩)] }, ⟨201, .required []⟩)
  | (.opened c, .progress _ q) => ({ st with up := setK (si, n) { u with cells := c } st.up }, ⟨200, .required q⟩)

theorem write_handler_is_upStep_aux (st : State) (sec : SecretsDict) (si : String) (n : Nat) (u : Upload) (off : Nat) (data : Bytes)
    (hu : lookupK (si, n) st.up = some u) (hs : u.secret = getS sec .upload) (hne : data ≠ []) :
    hWrite st sec si n (clientContentRange off data) data = writeOutcome st si n u (upStep (.opened u.cells) (off, data)) := by
  have hlen : data.length ≠ 0 := by
    intro h; exact hne (List.length_eq_zero_iff.mp h)
  have hg : getWriteBucket Upload.secret st.up si n (getS sec .upload) = .found u := by
    unfold lookupK at hu
    unfold getWriteBucket
    cases hf : st.up.find? (fun e => e.1 = (si, n)) with
    | none => simp [hf] at hu
    | some e =>
      simp [hf] at hu
      simp [hu, hs]
  unfold hWrite clientContentRange
  simp only [hlen, if_false, ne_eq, not_true_eq_false, hg]
  have hw : off + data.length - off = data.length := by omega
  simp only [hw, List.take_length, hlen, if_false, hne]
  unfold upStep
  cases hb : bucketWrite u.cells off data with
  | conflict => simp [hb, writeOutcome]
  | tooLarge => simp [hb, writeOutcome]
  | ok c =>
    simp only [Nat.lt_irrefl, if_false]
    by_cases hf : finished c = true
    · simp [hb, hf, writeOutcome]
    · simp [hb, hf, writeOutcome]

end Tahoe.Http
