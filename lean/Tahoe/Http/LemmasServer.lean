/-
Helper definitions for `Tahoe/Props/C31.lean`: the tie between the server handler `hWrite` and the
marshalling-level upload step `upStep`.
-/
import Tahoe.Http.Server
import Tahoe.Http.LemmasMarshal
namespace Tahoe.Http

/-- how `write_share_data` answers given the marshalling-level step -/
def writeOutcome (st : State) (si : String) (n : Nat) (u : Upload) : UpSt × UpRes → State × Response
  | (_, .conflict) => (st, ⟨409, .empty⟩)
  | (_, .tooLarge) => (st, ⟨500, .html⟩)
  | (_, .gone) => (st, ⟨404, .empty⟩)
  | (.closed d, .progress _ _) =>
    ({ st with up := eraseK (si, n) st.up, imm := st.imm ++ [((si, n), ⟨d, [u.lease]⟩)] }, ⟨201, .required []⟩)
  | (.opened c, .progress _ q) => ({ st with up := setK (si, n) { u with cells := c } st.up }, ⟨200, .required q⟩)

end Tahoe.Http
