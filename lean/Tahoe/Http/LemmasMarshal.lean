/-
Helper lemmas for `Tahoe/Props/C31.lean`: the `BucketWriter` cell model under consistent chunks.
-/
import Tahoe.Http.Marshal
namespace Tahoe.Http

/-- offset `i` lies in one of the chunks -/
def covers (chunks : List (Nat × Bytes)) (i : Nat) : Bool :=
  chunks.any (fun c => decide (c.1 ≤ i) && decide (i < c.1 + c.2.length))

/-- every offset of a share of `size` bytes lies in one of the chunks -/
def fullCover (size : Nat) (chunks : List (Nat × Bytes)) : Prop := ∀ i, i < size → covers chunks i = true

instance (size : Nat) (chunks : List (Nat × Bytes)) : Decidable (fullCover size chunks) :=
  decidable_of_iff (∀ i, i < size → covers chunks i = true) Iff.rfl

/-- a chunk is a non-empty slice of the target: what a well-behaved uploader of `target` sends -/
def Consistent (target : Bytes) (c : Nat × Bytes) : Prop :=
  c.2 ≠ [] ∧ c.1 + c.2.length ≤ target.length ∧ ∀ j, j < c.2.length → c.2[j]? = target[c.1 + j]?

/-- the cells after the chunks `done` of `target` were written: covered offsets hold the target's byte -/
def cellsOf (target : Bytes) (done : List (Nat × Bytes)) : Cells :=
  (List.range target.length).map (fun i => if covers done i then target[i]? else none)

theorem cellsOf_length (target : Bytes) (done : List (Nat × Bytes)) : (cellsOf target done).length = target.length := by
  simp [cellsOf]

theorem cellsOf_get (target : Bytes) (done : List (Nat × Bytes)) (i : Nat) (hi : i < target.length) :
    (cellsOf target done)[i]? = some (if covers done i then target[i]? else none) := by
  simp [cellsOf, hi]

theorem covers_append (done : List (Nat × Bytes)) (c : Nat × Bytes) (i : Nat) :
    covers (done ++ [c]) i = (covers done i || (decide (c.1 ≤ i) && decide (i < c.1 + c.2.length))) := by
  simp [covers]

theorem conflictsAt_false (cs : Cells) (data : Bytes)
    (h : ∀ j b, j < data.length → cs[j]? = some (some b) → data[j]? = some b) : conflictsAt cs data = false := by
  induction data generalizing cs with
  | nil => cases cs <;> simp [conflictsAt]
  | cons d ds ih =>
    cases cs with
    | nil => simp [conflictsAt]
    | cons c cs' =>
      have ih' := ih cs' (fun j b hj hb => by
        have := h (j + 1) b (by simp; omega) (by simpa using hb)
        simpa using this)
      cases c with
      | none => simp [conflictsAt, ih']
      | some x =>
        have := h 0 x (by simp) (by simp)
        simp at this
        simp [conflictsAt, ih', this]

theorem finished_iff (cells : Cells) : finished cells = true ↔ ∀ i, i < cells.length → ∃ b, cells[i]? = some (some b) := by
  unfold finished
  rw [List.all_eq_true]
  constructor
  · intro h i hi
    have := h cells[i] (List.getElem_mem hi)
    cases hc : cells[i] with
    | none => simp [hc] at this
    | some b => exact ⟨b, by simp [List.getElem?_eq_getElem hi, hc]⟩
  · intro h x hx
    obtain ⟨i, hi, rfl⟩ := List.getElem_of_mem hx
    obtain ⟨b, hb⟩ := h i hi
    rw [List.getElem?_eq_getElem hi] at hb
    cases hb' : cells[i] with
    | none => simp [hb'] at hb
    | some _ => rfl

/-- writing a consistent chunk onto the cells reached so far never conflicts, never overflows, and yields the
cells of the extended chunk list -/
theorem bucketWrite_consistent (target : Bytes) (done : List (Nat × Bytes)) (c : Nat × Bytes) (hc : Consistent target c) :
    bucketWrite (cellsOf target done) c.1 c.2 = .ok (cellsOf target (done ++ [c])) := by
  obtain ⟨off, data⟩ := c
  obtain ⟨_, hb, hd⟩ := hc
  simp only at hb hd
  unfold bucketWrite
  have hconf : conflictsAt ((cellsOf target done).drop off) data = false := by
    apply conflictsAt_false
    intro j b hj hcell
    rw [List.getElem?_drop, cellsOf_get target done (off + j) (by omega)] at hcell
    rw [hd j hj]
    split at hcell <;> simp_all
  rw [hconf]
  simp only [Bool.false_eq_true, if_false, cellsOf_length]
  rw [if_neg (by omega)]
  congr 1
  apply List.ext_getElem?
  intro i
  by_cases hi : i < target.length
  · rw [cellsOf_get target (done ++ [(off, data)]) i hi, covers_append]
    by_cases h1 : i < off
    · rw [List.getElem?_append_left (by simp [cellsOf_length]; omega)]
      rw [List.getElem?_append_left (by simp [cellsOf_length]; omega)]
      rw [List.getElem?_take_of_lt h1, cellsOf_get target done i hi]
      have : decide (off ≤ i) = false := by simp; omega
      simp [this]
    · by_cases h2 : i < off + data.length
      · rw [List.getElem?_append_left (by simp [cellsOf_length]; omega)]
        rw [List.getElem?_append_right (by simp [cellsOf_length]; omega)]
        simp only [List.length_take, cellsOf_length, List.getElem?_map]
        have hmin : min off target.length = off := by omega
        rw [hmin, hd (i - off) (by omega)]
        have e : off + (i - off) = i := by omega
        rw [e]
        have a1 : decide (off ≤ i) = true := by simp; omega
        have a2 : decide (i < off + data.length) = true := by simp; omega
        simp [a1, a2, List.getElem?_eq_getElem hi]
      · rw [List.getElem?_append_right (by simp [cellsOf_length]; omega)]
        simp only [List.length_append, List.length_take, List.length_map, cellsOf_length, List.getElem?_drop]
        have hmin : min off target.length = off := by omega
        rw [hmin]
        have e : off + data.length + (i - (off + data.length)) = i := by omega
        rw [e, cellsOf_get target done i hi]
        have a2 : decide (i < off + data.length) = false := by simp; omega
        simp [a2]
  · have l1 : (cellsOf target (done ++ [(off, data)])).length ≤ i := by rw [cellsOf_length]; omega
    have l2 : (List.take off (cellsOf target done) ++ List.map some data ++ List.drop (off + data.length) (cellsOf target done)).length ≤ i := by
      simp [cellsOf_length]; omega
    rw [List.getElem?_eq_none l1, List.getElem?_eq_none l2]

theorem finished_cellsOf (target : Bytes) (done : List (Nat × Bytes)) :
    finished (cellsOf target done) = true ↔ fullCover target.length done := by
  rw [finished_iff, cellsOf_length]
  constructor
  · intro h i hi
    obtain ⟨b, hb⟩ := h i hi
    rw [cellsOf_get target done i hi] at hb
    cases hcv : covers done i with
    | true => rfl
    | false => simp [hcv] at hb
  · intro h i hi
    rw [cellsOf_get target done i hi, h i hi]
    exact ⟨target[i], by simp [List.getElem?_eq_getElem hi]⟩

theorem cellsData_cellsOf_full (target : Bytes) (done : List (Nat × Bytes)) (h : fullCover target.length done) :
    cellsData (cellsOf target done) = target := by
  apply List.ext_getElem?
  intro i
  unfold cellsData
  rw [List.getElem?_map]
  by_cases hi : i < target.length
  · rw [cellsOf_get target done i hi, h i hi]
    simp [List.getElem?_eq_getElem hi]
  · have l1 : (cellsOf target done).length ≤ i := by rw [cellsOf_length]; omega
    rw [List.getElem?_eq_none l1, List.getElem?_eq_none (by omega)]
    rfl

theorem fullCover_append (size : Nat) (done : List (Nat × Bytes)) (c : Nat × Bytes) (h : fullCover size done) :
    fullCover size (done ++ [c]) := by
  intro i hi
  rw [covers_append, h i hi]
  rfl

/-- the state of the upload after the chunks `done` -/
def expectedState (target : Bytes) (done : List (Nat × Bytes)) : UpSt :=
  if fullCover target.length done then .closed target else .opened (cellsOf target done)

/-- the answer to chunk `c` arriving after the chunks `done` -/
def expectedRes (target : Bytes) (done : List (Nat × Bytes)) (c : Nat × Bytes) : UpRes :=
  if fullCover target.length done then .gone
  else if fullCover target.length (done ++ [c]) then .progress true []
  else .progress false (required (cellsOf target (done ++ [c])))

theorem upStep_consistent (target : Bytes) (done : List (Nat × Bytes)) (c : Nat × Bytes) (hc : Consistent target c) :
    upStep (expectedState target done) c = (expectedState target (done ++ [c]), expectedRes target done c) := by
  unfold expectedState expectedRes
  by_cases hf : fullCover target.length done
  · have hf' := fullCover_append _ _ c hf
    simp [hf, hf', upStep]
  · rw [if_neg hf, if_neg hf]
    obtain ⟨off, data⟩ := c
    have hw := bucketWrite_consistent target done (off, data) hc
    simp only at hw
    simp only [upStep, hw]
    by_cases hf' : fullCover target.length (done ++ [(off, data)])
    · have := (finished_cellsOf target (done ++ [(off, data)])).mpr hf'
      simp [this, hf', cellsData_cellsOf_full target _ hf']
    · have : finished (cellsOf target (done ++ [(off, data)])) = false := by
        cases hfin : finished (cellsOf target (done ++ [(off, data)])) with
        | false => rfl
        | true => exact absurd ((finished_cellsOf target _).mp hfin) hf'
      simp [this, hf']

/-- the answers to the chunks `rest` arriving after `done` -/
def expectedResults (target : Bytes) : List (Nat × Bytes) → List (Nat × Bytes) → List UpRes
  | _, [] => []
  | done, c :: rest => expectedRes target done c :: expectedResults target (done ++ [c]) rest

theorem runUpload_consistent (target : Bytes) (done rest : List (Nat × Bytes)) (h : ∀ c ∈ rest, Consistent target c) :
    runUpload (expectedState target done) rest = (expectedState target (done ++ rest), expectedResults target done rest) := by
  induction rest generalizing done with
  | nil => simp [runUpload, expectedResults]
  | cons c rest ih =>
    have hc := h c (by simp)
    simp only [runUpload, upStep_consistent target done c hc]
    rw [ih (done ++ [c]) (fun x hx => h x (by simp [hx]))]
    simp [expectedResults]

/-! ### read-test-write marshalling -/

theorem mapM_map_some {α β : Type} (f : α → β) (g : β → Option α) (l : List α) (h : ∀ x ∈ l, g (f x) = some x) :
    (l.map f).mapM g = some l := by
  induction l with
  | nil => rfl
  | cons x xs ih =>
    have hx := h x (by simp)
    have ih' := ih (fun y hy => h y (by simp [hy]))
    simp [List.mapM_cons, hx, ih']

theorem decTest_enc (x : TestV) :
    decTest (.map [(.text "offset", .nat x.offset), (.text "size", .nat x.size), (.text "specimen", .bytes x.specimen)]) = some x := by
  simp [decTest, decMap, Val.lookup, decNat, decBytes]

theorem decWrite_enc (w : Nat × Bytes) :
    decWrite (.map [(.text "offset", .nat w.1), (.text "data", .bytes w.2)]) = some w := by
  simp [decWrite, decMap, Val.lookup, decNat, decBytes]

theorem decRead_enc (r : Nat × Nat) :
    decRead (.map [(.text "offset", .nat r.1), (.text "size", .nat r.2)]) = some r := by
  simp [decRead, decMap, Val.lookup, decNat]

theorem decTWV_enc (t : TWV) (h : t.tests.length ≤ maxTestVectors) : decTWV (encTWV t) = some t := by
  obtain ⟨ts, ws, nl⟩ := t
  have h1 := mapM_map_some (fun x : TestV => Val.map [(.text "offset", .nat x.offset), (.text "size", .nat x.size),
    (.text "specimen", .bytes x.specimen)]) decTest ts (fun x _ => decTest_enc x)
  have h2 := mapM_map_some (fun w : Nat × Bytes => Val.map [(.text "offset", .nat w.1), (.text "data", .bytes w.2)])
    decWrite ws (fun w _ => decWrite_enc w)
  simp only at h
  cases nl <;> simp [decTWV, encTWV, decMap, Val.lookup, decList, h1, h2, h, decNewLength]

theorem decRtw_enc (a : RtwArgs) (hs : a.tw.length ≤ maxShares) (hr : a.rv.length ≤ maxReadVectors)
    (ht : ∀ p ∈ a.tw, p.2.tests.length ≤ maxTestVectors) : decRtw (encRtw a) = some a := by
  obtain ⟨tw, rv⟩ := a
  have h1 := mapM_map_some (fun p : Nat × TWV => (Val.nat p.1, encTWV p.2)) decShareEntry tw
    (fun p hp => by simp [decShareEntry, decNat, decTWV_enc p.2 (ht p hp)])
  have h2 := mapM_map_some (fun r : Nat × Nat => Val.map [(.text "offset", .nat r.1), (.text "size", .nat r.2)]) decRead rv
    (fun r _ => decRead_enc r)
  simp only at hs hr
  simp [decRtw, encRtw, decMap, Val.lookup, decList, h1, h2, hs, hr]

theorem decRtwResult_enc (r : RtwResult) : decRtwResult (encRtwResult r) = some r := by
  obtain ⟨s, reads⟩ := r
  have h1 := mapM_map_some (fun p : Nat × List Bytes => (Val.nat p.1, Val.list (p.2.map Val.bytes))) decReadsEntry reads
    (fun p _ => by
      have := mapM_map_some Val.bytes decBytes p.2 (fun _ _ => rfl)
      simp [decReadsEntry, decNat, decList, this])
  simp [decRtwResult, encRtwResult, decMap, Val.lookup, decBool, h1]

end Tahoe.Http
