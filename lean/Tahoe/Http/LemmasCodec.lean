/-
Helper lemmas for `Tahoe/Props/C31.lean`: what the client writes into its headers is read back by the server —
`base64.b64decode(base64.b64encode(v)) = v` for the lenient decoder of `Codec.lean`, and ASCII is UTF-8.
-/
import Tahoe.Http.Codec
namespace Tahoe.Http

theorem b64_table : ∀ n, n < 64 →
    b64Val (b64Char n).toNat = some n ∧ (b64Char n).toNat ≠ 61 ∧ (b64Char n).toNat < 128 := by decide

theorem a2b_quad (out : Bytes) (rest : List Nat) (v1 v2 v3 v4 : Nat)
    (h1 : v1 < 64) (h2 : v2 < 64) (h3 : v3 < 64) (h4 : v4 < 64) :
    a2bLoop 0 0 0 out ((b64Char v1).toNat :: (b64Char v2).toNat :: (b64Char v3).toNat :: (b64Char v4).toNat :: rest) =
      a2bLoop 0 0 0 (UInt8.ofNat (v3 % 4 * 64 + v4) :: UInt8.ofNat (v2 % 16 * 16 + v3 / 4) :: UInt8.ofNat (v1 * 4 + v2 / 16) :: out)
        rest := by
  obtain ⟨a1, b1, _⟩ := b64_table v1 h1
  obtain ⟨a2, b2, _⟩ := b64_table v2 h2
  obtain ⟨a3, b3, _⟩ := b64_table v3 h3
  obtain ⟨a4, b4, _⟩ := b64_table v4 h4
  simp [a2bLoop, a1, a2, a3, a4, b1, b2, b3, b4]

theorem a2b_tail2 (out : Bytes) (rest : List Nat) (v1 v2 : Nat) (h1 : v1 < 64) (h2 : v2 < 64) :
    a2bLoop 0 0 0 out ((b64Char v1).toNat :: (b64Char v2).toNat :: 61 :: 61 :: rest) =
      some ((UInt8.ofNat (v1 * 4 + v2 / 16) :: out).reverse) := by
  obtain ⟨a1, b1, _⟩ := b64_table v1 h1
  obtain ⟨a2, b2, _⟩ := b64_table v2 h2
  simp [a2bLoop, a1, a2, b1, b2]

theorem a2b_tail3 (out : Bytes) (rest : List Nat) (v1 v2 v3 : Nat) (h1 : v1 < 64) (h2 : v2 < 64) (h3 : v3 < 64) :
    a2bLoop 0 0 0 out ((b64Char v1).toNat :: (b64Char v2).toNat :: (b64Char v3).toNat :: 61 :: rest) =
      some ((UInt8.ofNat (v2 % 16 * 16 + v3 / 4) :: UInt8.ofNat (v1 * 4 + v2 / 16) :: out).reverse) := by
  obtain ⟨a1, b1, _⟩ := b64_table v1 h1
  obtain ⟨a2, b2, _⟩ := b64_table v2 h2
  obtain ⟨a3, b3, _⟩ := b64_table v3 h3
  simp [a2bLoop, a1, a2, a3, b1, b2, b3]

theorem ofNat_of_toNat (a : UInt8) (n : Nat) (h : n = a.toNat) : UInt8.ofNat n = a := by
  subst h; exact UInt8.ofNat_toNat

/-- **base64 round trip**: the lenient decoder reads back what `b64encode` wrote -/
theorem a2b_b64encode (v : Bytes) (out : Bytes) :
    a2bLoop 0 0 0 out ((b64encode v).map UInt8.toNat) = some (out.reverse ++ v) := by
  induction v using b64encode.induct generalizing out with
  | case1 => simp [b64encode, a2bLoop]
  | case2 a =>
    have hx : a.toNat < 256 := a.toNat_lt
    simp only [b64encode, List.map_cons, List.map_nil]
    have : (61 : UInt8).toNat = 61 := rfl
    rw [this, a2b_tail2 out [] (a.toNat / 4) (a.toNat % 4 * 16) (by omega) (by omega)]
    rw [ofNat_of_toNat a _ (by omega)]
    simp
  | case3 a b =>
    have hx : a.toNat < 256 := a.toNat_lt
    have hy : b.toNat < 256 := b.toNat_lt
    simp only [b64encode, List.map_cons, List.map_nil]
    have : (61 : UInt8).toNat = 61 := rfl
    rw [this, a2b_tail3 out [] (a.toNat / 4) (a.toNat % 4 * 16 + b.toNat / 16) (b.toNat % 16 * 4) (by omega) (by omega) (by omega)]
    rw [ofNat_of_toNat a _ (by omega), ofNat_of_toNat b _ (by omega)]
    simp
  | case4 a b c rest ih =>
    have hx : a.toNat < 256 := a.toNat_lt
    have hy : b.toNat < 256 := b.toNat_lt
    have hz : c.toNat < 256 := c.toNat_lt
    simp only [b64encode, List.map_cons]
    rw [a2b_quad out _ (a.toNat / 4) (a.toNat % 4 * 16 + b.toNat / 16) (b.toNat % 16 * 4 + c.toNat / 64) (c.toNat % 64)
      (by omega) (by omega) (by omega) (by omega)]
    rw [ofNat_of_toNat a _ (by omega), ofNat_of_toNat b _ (by omega), ofNat_of_toNat c _ (by omega)]
    rw [ih]
    simp

end Tahoe.Http
