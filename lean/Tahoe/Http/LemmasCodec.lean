/-
Helper lemmas for `Tahoe/Props/C31.lean`: what the client writes into its headers is read back by the server —
`base64.b64decode(base64.b64encode(v)) = v` for the lenient decoder of `Codec.lean`, and ASCII is UTF-8.
-/
import Tahoe.Http.Codec
namespace Tahoe.Http

set_option maxRecDepth 16384 in
theorem b64_table_space : ∀ n, n < 64 → isPySpace (b64Char n).toNat = false := by decide

set_option maxRecDepth 16384 in
theorem b64_table : ∀ n, n < 64 →
    b64Val (b64Char n).toNat = some n ∧ (b64Char n).toNat ≠ 61 ∧ (b64Char n).toNat < 128 := by decide

theorem a2b_quad (out : Bytes) (rest : List Nat) (v1 v2 v3 v4 : Nat)
    (h1 : v1 < 64) (h2 : v2 < 64) (h3 : v3 < 64) (h4 : v4 < 64) :
    a2bLoop 0 0 0 out ((b64Char v1).toNat :: (b64Char v2).toNat :: (b64Char v3).toNat :: (b64Char v4).toNat :: rest) =
      a2bLoop 0 0 0 (UInt8.ofNat (v3 % 4 * 64 + v4) :: UInt8.ofNat (v2 % 16 * 16 + v3 / 4) :: UInt8.ofNat (v1 * 4 + v2 / 16) :: out)
        rest := by
  obtain ⟨a1, b1, _⟩ := b64_table v1 h1
  obtain ⟨a2, b2, _⟩ := b64_table v2 h2
  obtain ⟨a3, b3, _⟩ := b64_table v3 h3
  obtain ⟨a4, b4, _⟩ := b64_table v4 h4
  simp [a2bLoop, a1, a2, a3, a4, b1, b2, b3, b4]

theorem a2b_tail2 (out : Bytes) (rest : List Nat) (v1 v2 : Nat) (h1 : v1 < 64) (h2 : v2 < 64) :
    a2bLoop 0 0 0 out ((b64Char v1).toNat :: (b64Char v2).toNat :: 61 :: 61 :: rest) =
      some ((UInt8.ofNat (v1 * 4 + v2 / 16) :: out).reverse) := by
  obtain ⟨a1, b1, _⟩ := b64_table v1 h1
  obtain ⟨a2, b2, _⟩ := b64_table v2 h2
  simp [a2bLoop, a1, a2, b1, b2]

theorem a2b_tail3 (out : Bytes) (rest : List Nat) (v1 v2 v3 : Nat) (h1 : v1 < 64) (h2 : v2 < 64) (h3 : v3 < 64) :
    a2bLoop 0 0 0 out ((b64Char v1).toNat :: (b64Char v2).toNat :: (b64Char v3).toNat :: 61 :: rest) =
      some ((UInt8.ofNat (v2 % 16 * 16 + v3 / 4) :: UInt8.ofNat (v1 * 4 + v2 / 16) :: out).reverse) := by
  obtain ⟨a1, b1, _⟩ := b64_table v1 h1
  obtain ⟨a2, b2, _⟩ := b64_table v2 h2
  obtain ⟨a3, b3, _⟩ := b64_table v3 h3
  simp [a2bLoop, a1, a2, a3, b1, b2, b3]

theorem ofNat_of_toNat (a : UInt8) (n : Nat) (h : n = a.toNat) : UInt8.ofNat n = a := by
  subst h; exact UInt8.ofNat_toNat

/-- **base64 round trip**: the lenient decoder reads back what `b64encode` wrote -/
theorem a2b_b64encode (v : Bytes) (out : Bytes) :
    a2bLoop 0 0 0 out ((b64encode v).map UInt8.toNat) = some (out.reverse ++ v) := by
  induction v using b64encode.induct generalizing out with
  | case1 => simp [b64encode, a2bLoop]
  | case2 a =>
    have hx : a.toNat < 256 := a.toNat_lt
    simp only [b64encode, List.map_cons, List.map_nil]
    have : (61 : UInt8).toNat = 61 := rfl
    rw [this, a2b_tail2 out [] (a.toNat / 4) (a.toNat % 4 * 16) (by omega) (by omega)]
    rw [ofNat_of_toNat a _ (by omega)]
    simp
  | case3 a b =>
    have hx : a.toNat < 256 := a.toNat_lt
    have hy : b.toNat < 256 := b.toNat_lt
    simp only [b64encode, List.map_cons, List.map_nil]
    have : (61 : UInt8).toNat = 61 := rfl
    rw [this, a2b_tail3 out [] (a.toNat / 4) (a.toNat % 4 * 16 + b.toNat / 16) (b.toNat % 16 * 4) (by omega) (by omega) (by omega)]
    have e1 : UInt8.ofNat (a.toNat / 4 * 4 + (a.toNat % 4 * 16 + b.toNat / 16) / 16) = a := ofNat_of_toNat a _ (by omega)
    have e2 : UInt8.ofNat ((a.toNat % 4 * 16 + b.toNat / 16) % 16 * 16 + b.toNat % 16 * 4 / 4) = b :=
      ofNat_of_toNat b _ (by omega)
    rw [e1, e2]
    simp
  | case4 a b c rest ih =>
    have hx : a.toNat < 256 := a.toNat_lt
    have hy : b.toNat < 256 := b.toNat_lt
    have hz : c.toNat < 256 := c.toNat_lt
    simp only [b64encode, List.map_cons]
    rw [a2b_quad out _ (a.toNat / 4) (a.toNat % 4 * 16 + b.toNat / 16) (b.toNat % 16 * 4 + c.toNat / 64) (c.toNat % 64)
      (by omega) (by omega) (by omega) (by omega)]
    have e1 : UInt8.ofNat (a.toNat / 4 * 4 + (a.toNat % 4 * 16 + b.toNat / 16) / 16) = a := ofNat_of_toNat a _ (by omega)
    have e2 : UInt8.ofNat ((a.toNat % 4 * 16 + b.toNat / 16) % 16 * 16 + (b.toNat % 16 * 4 + c.toNat / 64) / 4) = b :=
      ofNat_of_toNat b _ (by omega)
    have e3 : UInt8.ofNat ((b.toNat % 16 * 4 + c.toNat / 64) % 4 * 64 + c.toNat % 64) = c := ofNat_of_toNat c _ (by omega)
    rw [e1, e2, e3, ih]
    simp

/-- every byte `b64encode` writes is an alphabet character or `=`: ASCII, and never white space -/
def B64Byte (b : UInt8) : Prop := b.toNat < 128 ∧ isPySpace b.toNat = false

theorem b64Char_ok (n : Nat) (h : n < 64) : B64Byte (b64Char n) := ⟨(b64_table n h).2.2, b64_table_space n h⟩

theorem b64encode_bytes (v : Bytes) : ∀ b ∈ b64encode v, B64Byte b := by
  have pad : B64Byte 61 := ⟨by decide, by decide⟩
  induction v using b64encode.induct with
  | case1 => intro b hb; simp [b64encode] at hb
  | case2 a =>
    have hx : a.toNat < 256 := a.toNat_lt
    intro b hb
    simp only [b64encode, List.mem_cons, List.not_mem_nil, or_false] at hb
    rcases hb with rfl | rfl | rfl | rfl
    · exact b64Char_ok _ (by omega)
    · exact b64Char_ok _ (by omega)
    · exact pad
    · exact pad
  | case3 a c =>
    have hx : a.toNat < 256 := a.toNat_lt
    have hy : c.toNat < 256 := c.toNat_lt
    intro b hb
    simp only [b64encode, List.mem_cons, List.not_mem_nil, or_false] at hb
    rcases hb with rfl | rfl | rfl | rfl
    · exact b64Char_ok _ (by omega)
    · exact b64Char_ok _ (by omega)
    · exact b64Char_ok _ (by omega)
    · exact pad
  | case4 a c d rest ih =>
    have hx : a.toNat < 256 := a.toNat_lt
    have hy : c.toNat < 256 := c.toNat_lt
    have hz : d.toNat < 256 := d.toNat_lt
    intro b hb
    simp only [b64encode, List.mem_cons] at hb
    rcases hb with rfl | rfl | rfl | rfl | hb
    · exact b64Char_ok _ (by omega)
    · exact b64Char_ok _ (by omega)
    · exact b64Char_ok _ (by omega)
    · exact b64Char_ok _ (by omega)
    · exact ih b hb

theorem b64encode_ne_nil (v : Bytes) (h : v ≠ []) : b64encode v ≠ [] := by
  cases v with
  | nil => exact absurd rfl h
  | cons a t =>
    cases t with
    | nil => simp [b64encode]
    | cons b t2 =>
      cases t2 with
      | nil => simp [b64encode]
      | cons c t3 => simp [b64encode]

/-- `base64.b64decode(base64.b64encode(v).decode()) == v` -/
theorem b64decodeStr_b64encode (v : Bytes) : b64decodeStr ((b64encode v).map UInt8.toNat) = some v := by
  unfold b64decodeStr
  have hall : ((b64encode v).map UInt8.toNat).all (· < 128) = true := by
    rw [List.all_eq_true]
    intro x hx
    rw [List.mem_map] at hx
    obtain ⟨b, hb, rfl⟩ := hx
    simpa using (b64encode_bytes v b hb).1
  rw [if_pos hall, a2b_b64encode]
  simp

/-- ASCII bytes are valid UTF-8 and decode to themselves -/
theorem utf8_ascii (l : Bytes) (h : ∀ b ∈ l, b.toNat < 128) : utf8Decode l = some (l.map UInt8.toNat) := by
  unfold utf8Decode
  induction l with
  | nil => simp [utf8Loop]
  | cons a rest ih =>
    have ha := h a (by simp)
    have := ih (fun b hb => h b (by simp [hb]))
    simp [utf8Loop, ha, this]

theorem splitFirstSpace_append (name rest : List Nat) (h : ∀ c ∈ name, c ≠ 32) :
    splitFirstSpace (name ++ 32 :: rest) = some (name, rest) := by
  induction name with
  | nil => simp [splitFirstSpace]
  | cons c cs ih =>
    have hc := h c (by simp)
    have := ih (fun x hx => h x (by simp [hx]))
    simp [splitFirstSpace, hc, this]

/-- a string that neither starts nor ends with white space is its own `strip()` -/
theorem pyStrip_id (a : Nat) (m : List Nat) (z : Nat) (init : List Nat) (ha : isPySpace a = false) (hz : isPySpace z = false)
    (hl : a :: m = init ++ [z]) : pyStrip (a :: m) = a :: m := by
  unfold pyStrip
  rw [List.dropWhile_cons_of_neg (by simp [ha]), hl, List.reverse_append]
  simp only [List.reverse_cons, List.reverse_nil, List.nil_append, List.singleton_append]
  rw [List.dropWhile_cons_of_neg (by simp [hz])]
  simp

end Tahoe.Http
