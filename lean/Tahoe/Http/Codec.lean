/-
Codecs used by the HTTP storage protocol model (C30/C31).  Mathlib-free, executable.

* `b64encode`        — `base64.b64encode` (RFC 4648 alphabet, `=` padding).
* `a2bBase64`        — `binascii.a2b_base64(s, strict_mode=False)` as CPython 3.12 implements it (this is what
                       `base64.b64decode(s)` without `validate=True` runs, i.e. what `_extract_secrets` uses):
                       characters outside the alphabet are skipped, a `=` counts only once two characters of the
                       current quad have been seen, the first complete pad sequence ends the decoding and
                       everything after it is ignored, a dangling partial quad is an error.
* `utf8Decode`       — Python's strict `bytes.decode("utf8")` (no overlong forms, no surrogates, ≤ U+10FFFF).
* `pyStrip`          — `str.strip()` with the whitespace table generated from the running interpreter.
* `canonSI`          — `StorageIndexConverter`: regex `[a-z2-7]{26}` then `si_a2b`, which accepts a last
                       character whose lowest bit is clear and ignores its second-lowest bit; the model keeps a
                       storage index as its canonical 26-character string (decoding is injective on those).
-/
import Tahoe.Generated.Http
namespace Tahoe.Http
open Tahoe.Generated

abbrev Bytes := List UInt8

/-! ### base64 -/

def b64Chars : List Char :=
  "ABCDEFGHIJKLMNOPQRSTUVWXYZabcdefghijklmnopqrstuvwxyz0123456789+/".toList

def b64Char (n : Nat) : UInt8 := UInt8.ofNat (b64Chars.getD n '?').toNat

/-- `base64.b64encode` -/
def b64encode : Bytes → Bytes
  | [] => []
  | [a] =>
    let x := a.toNat
    [b64Char (x / 4), b64Char (x % 4 * 16), 61, 61]
  | [a, b] =>
    let x := a.toNat; let y := b.toNat
    [b64Char (x / 4), b64Char (x % 4 * 16 + y / 16), b64Char (y % 16 * 4), 61]
  | a :: b :: c :: rest =>
    let x := a.toNat; let y := b.toNat; let z := c.toNat
    b64Char (x / 4) :: b64Char (x % 4 * 16 + y / 16) :: b64Char (y % 16 * 4 + z / 64) :: b64Char (z % 64)
      :: b64encode rest

/-- value of a base64 alphabet character (by code point) -/
def b64Val (c : Nat) : Option Nat :=
  if 65 ≤ c ∧ c ≤ 90 then some (c - 65)
  else if 97 ≤ c ∧ c ≤ 122 then some (c - 97 + 26)
  else if 48 ≤ c ∧ c ≤ 57 then some (c - 48 + 52)
  else if c = 43 then some 62
  else if c = 47 then some 63
  else none

/-- the main loop of `binascii.a2b_base64` (non-strict).  `quad` = position in the current quad,
`pads` = consecutive `=` seen since the last data character (only counted when `quad ≥ 2`),
`left` = left-over bits, `out` = output so far, reversed.  `none` = `binascii.Error`. -/
def a2bLoop (quad pads left : Nat) (out : Bytes) : List Nat → Option Bytes
  | [] => if quad ≠ 0 then none else some out.reverse
  | ch :: rest =>
    if ch = 61 then
      if quad ≥ 2 then
        if quad + (pads + 1) ≥ 4 then some out.reverse          -- `goto done`: the rest is ignored
        else a2bLoop quad (pads + 1) left out rest
      else a2bLoop quad pads left out rest
    else match b64Val ch with
      | none => a2bLoop quad pads left out rest                   -- skipped
      | some v =>
        match quad with
        | 0 => a2bLoop 1 0 v out rest
        | 1 => a2bLoop 2 0 (v % 16) (UInt8.ofNat (left * 4 + v / 16) :: out) rest
        | 2 => a2bLoop 3 0 (v % 4) (UInt8.ofNat (left * 16 + v / 4) :: out) rest
        | _ => a2bLoop 0 0 0 (UInt8.ofNat (left * 64 + v) :: out) rest

/-- `base64.b64decode(s)` for a `str` argument given as code points: non-ASCII → `ValueError`,
otherwise the lenient decoder.  `none` = `ValueError`/`binascii.Error`. -/
def b64decodeStr (s : List Nat) : Option Bytes :=
  if s.all (· < 128) then a2bLoop 0 0 0 [] s else none

/-! ### UTF-8 (strict, as Python) -/

def isCont (b : UInt8) : Bool := 128 ≤ b.toNat && b.toNat < 192

/-- `bytes.decode("utf8")` as a byte-at-a-time automaton: `need` continuation bytes are still expected for
the code point accumulated in `cp`, whose smallest non-overlong value is `lo`.  `none` = `UnicodeDecodeError`
(the decoder is strict, so only *whether* it fails matters, not where). -/
def utf8Loop (need cp lo : Nat) : Bytes → Option (List Nat)
  | [] => if need = 0 then some [] else none
  | b :: rest =>
    let x := b.toNat
    if need = 0 then
      if x < 128 then (utf8Loop 0 0 0 rest).map (x :: ·)
      else if 194 ≤ x ∧ x < 224 then utf8Loop 1 (x - 192) 128 rest
      else if 224 ≤ x ∧ x < 240 then utf8Loop 2 (x - 224) 2048 rest
      else if 240 ≤ x ∧ x < 245 then utf8Loop 3 (x - 240) 65536 rest
      else none
    else if isCont b then
      let cp' := cp * 64 + (x - 128)
      if need = 1 then
        if lo ≤ cp' ∧ cp' < 1114112 ∧ ¬(55296 ≤ cp' ∧ cp' < 57344) then (utf8Loop 0 0 0 rest).map (cp' :: ·)
        else none
      else utf8Loop (need - 1) cp' lo rest
    else none

/-- `bytes.decode("utf8")`: code points, or `none` for `UnicodeDecodeError`. -/
def utf8Decode (b : Bytes) : Option (List Nat) := utf8Loop 0 0 0 b

/-! ### `str.strip()` and `str.split(" ", 1)` -/

def isPySpace (c : Nat) : Bool := Http.pyWhitespace.contains c

def pyStrip (s : List Nat) : List Nat :=
  ((s.dropWhile isPySpace).reverse.dropWhile isPySpace).reverse

/-- `s.split(" ", 1)` unpacked into two names: `none` when there is no space (`ValueError`). -/
def splitFirstSpace : List Nat → Option (List Nat × List Nat)
  | [] => none
  | c :: rest =>
    if c = 32 then some ([], rest)
    else (splitFirstSpace rest).map (fun p => (c :: p.1, p.2))

def strOfCodes (s : List Nat) : String := String.ofList (s.map Char.ofNat)

/-! ### storage index path segment -/

def alphaIndex (c : Char) : Option Nat :=
  let l := Http.siAlphabet.toList
  let i := l.findIdx (· == c)
  if i < l.length then some i else none

/-- `StorageIndexConverter`: the canonical form of an accepted segment, `none` when werkzeug does not match
(wrong length / alphabet, or `si_a2b` raises). -/
def canonSI (seg : String) : Option String :=
  let cs := seg.toList
  if cs.length ≠ Http.siLength then none
  else if !(cs.all (fun c => (alphaIndex c).isSome)) then none
  else match cs.getLast? with
    | none => none
    | some lastc =>
      if !(Http.siLastChars.toList.contains lastc) then none
      else match alphaIndex lastc with
        | none => none
        | some i => some (String.ofList (cs.dropLast ++ [Http.siAlphabet.toList.getD (i - i % 4) 'a']))

/-- `int(signed=False)` converter: regex `\d+` (ASCII digits; other Unicode digits are outside the model). -/
def parseShnum (seg : String) : Option Nat :=
  let cs := seg.toList
  if cs.isEmpty then none
  else if cs.all (fun c => '0' ≤ c ∧ c ≤ '9') then some (cs.foldl (fun acc c => acc * 10 + (c.toNat - 48)) 0)
  else none

end Tahoe.Http
