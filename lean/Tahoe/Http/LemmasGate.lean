/-
Helper lemmas for `Tahoe/Props/C31.lean`: the request the client builds (`mkRequest`: swissnum header, one
`X-Tahoe-Authorization: <name> <base64>` per secret) passes the server's gate, which hands the handler exactly the
client's secrets.
-/
import Tahoe.Http.LemmasCodec
import Tahoe.Http.LemmasSpec
import Tahoe.Http.LemmasDirect
namespace Tahoe.Http

def nameCodes (k : Secret) : List Nat := (asciiBytes k.name).map UInt8.toNat

set_option maxRecDepth 16384 in
theorem name_facts (k : Secret) :
    nameCodes k ≠ [] ∧ (∀ c ∈ nameCodes k, isPySpace c = false) ∧ Secret.ofName (strOfCodes (nameCodes k)) = some k ∧
    (∀ b ∈ asciiBytes k.name, b.toNat < 128) := by
  cases k <;> decide

/-- the code points of the header `StorageClient._request` writes for one secret -/
def headerCodes (p : Secret × Bytes) : List Nat := nameCodes p.1 ++ 32 :: (b64encode p.2).map UInt8.toNat

/-- a secret the server will accept: non-empty, lease secrets 32 bytes long (what real clients send) -/
def SecretOk (p : Secret × Bytes) : Prop := p.2 ≠ [] ∧ ((p.1 = .leaseCancel ∨ p.1 = .leaseRenew) → p.2.length = 32)

theorem secretHeader_utf8 (p : Secret × Bytes) : utf8Decode (secretHeader p.1 p.2) = some (headerCodes p) := by
  obtain ⟨_, _, _, hascii⟩ := name_facts p.1
  have h : ∀ b ∈ secretHeader p.1 p.2, b.toNat < 128 := by
    intro b hb
    simp only [secretHeader, List.mem_append, List.mem_singleton] at hb
    rcases hb with (hb | rfl) | hb
    · exact hascii b hb
    · decide
    · exact (b64encode_bytes p.2 b hb).1
  rw [utf8_ascii _ h]
  simp [secretHeader, headerCodes, nameCodes]

theorem parse_client_header (p : Secret × Bytes) (hp : SecretOk p) : parseOne (headerCodes p) = some p := by
  obtain ⟨k, v⟩ := p
  obtain ⟨hv, hl⟩ := hp
  obtain ⟨hne, hsp, hname, _⟩ := name_facts k
  simp only at hv hl
  -- strip() changes nothing
  have hstrip : pyStrip (headerCodes (k, v)) = headerCodes (k, v) := by
    cases hn : nameCodes k with
    | nil => exact absurd hn hne
    | cons a m =>
      have ha : isPySpace a = false := hsp a (by simp [hn])
      have hb := b64encode_ne_nil v hv
      have hz := (b64encode_bytes v _ (List.getLast_mem hb)).2
      have hlast : (b64encode v).dropLast ++ [(b64encode v).getLast hb] = b64encode v := List.dropLast_concat_getLast hb
      have hl2 : headerCodes (k, v) = a :: (m ++ 32 :: (b64encode v).map UInt8.toNat) := by simp [headerCodes, hn]
      rw [hl2]
      apply pyStrip_id a _ ((b64encode v).getLast hb).toNat (a :: m ++ 32 :: ((b64encode v).dropLast).map UInt8.toNat) ha hz
      conv => lhs; rw [← hlast]
      simp
  have hsplit : splitFirstSpace (headerCodes (k, v)) = some (nameCodes k, (b64encode v).map UInt8.toNat) := by
    apply splitFirstSpace_append
    intro c hc hc32
    have := hsp c hc
    rw [hc32] at this
    revert this; decide
  unfold parseOne parseSecretHeader
  rw [hstrip, hsplit]
  simp only [hname, b64decodeStr_b64encode]
  rw [if_neg hv]
  by_cases hlease : k = .leaseCancel ∨ k = .leaseRenew
  · have := hl hlease
    simp [hlease, this]
  · simp [hlease]

theorem mapM_map_eq {α β γ : Type} (f : α → β) (g : β → Option γ) (h : α → γ) (l : List α) (hx : ∀ x ∈ l, g (f x) = some (h x)) :
    (l.map f).mapM g = some (l.map h) := by
  induction l with
  | nil => rfl
  | cons x xs ih =>
    have h1 := hx x (by simp)
    have h2 := ih (fun y hy => hx y (by simp [hy]))
    simp [List.mapM_cons, h1, h2]

theorem authHeader_utf8 (sw : Bytes) : (utf8Decode (authHeader sw)).isSome = true := by
  have hp : ∀ b ∈ Generated.Http.authPrefix.toList.map (fun c => UInt8.ofNat c.toNat), b.toNat < 128 := by decide
  have h : ∀ b ∈ authHeader sw, b.toNat < 128 := by
    intro b hb
    simp only [authHeader, List.mem_append] at hb
    rcases hb with hb | hb
    · exact hp b hb
    · exact (b64encode_bytes sw b hb).1
  rw [utf8_ascii _ h]
  rfl

/-- **the client-built request passes the gate**, and the handler receives the client's secrets -/
theorem gate_client (sw : Bytes) (method : String) (path : List String) (secrets : List (Secret × Bytes)) (body : Body)
    (m : Matched) (hm : matchRoute method path = some m) (hs : ∀ p ∈ secrets, SecretOk p)
    (hk : ∀ k, k ∈ m.required ↔ ∃ p ∈ secrets, p.1 = k) :
    gate sw (mkRequest sw method path secrets body) = .pass m (collect [] secrets) := by
  have ha : authCheck sw [authHeader sw] = .ok :=
    (authCheck_ok_iff sw [authHeader sw]).mpr ⟨rfl, by simp [authHeader_utf8]⟩
  have hv : (secrets.map (fun p => secretHeader p.1 p.2)).mapM utf8Decode = some (secrets.map headerCodes) :=
    mapM_map_eq _ _ _ _ (fun p _ => secretHeader_utf8 p)
  have hps : (secrets.map headerCodes).mapM parseOne = some secrets := by
    have := mapM_map_eq headerCodes parseOne id secrets (fun p hp => by simpa using parse_client_header p (hs p hp))
    simpa using this
  have he := (extractSecrets_ok_iff (secrets.map headerCodes) m.required (collect [] secrets)).mpr ⟨secrets, hps, rfl, hk⟩
  simp [gate, mkRequest, hm, ha, hv, he]

/-! ### the whole HTTP path -/

def clientMethod : Op → String
  | .create .. => "POST" | .write .. => "PATCH" | .abort .. => "PUT" | .read .. => "GET" | .mread .. => "GET"
  | .list _ => "GET" | .mlist _ => "GET" | .lease .. => "PUT" | .rtw .. => "POST"

def clientPath : Op → List String
  | .create si .. => immPath si []
  | .write si n .. => immPath si [toString n]
  | .abort si n _ => immPath si [toString n, "abort"]
  | .read si n .. => immPath si [toString n]
  | .mread si n .. => mutPath si [toString n]
  | .list si => immPath si ["shares"]
  | .mlist si => mutPath si ["shares"]
  | .lease si .. => ["storage", "v1", "lease", si]
  | .rtw si .. => mutPath si ["read-test-write"]

theorem opRequest_eq (sw : Bytes) (op : Op) :
    opRequest sw op = (clientBody zeroRead op).map (fun body => mkRequest sw (clientMethod op) (clientPath op) (clientSecrets op) body) := by
  cases op with
  | create si ns size u r c => rfl
  | write si n u off d =>
    simp only [opRequest, clientBody, clientMethod, clientPath, clientSecrets]
    cases clientContentRange off d <;> rfl
  | abort si n u => rfl
  | read si n off len =>
    simp only [opRequest, readRequest, clientBody, clientMethod, clientPath, clientSecrets]
    cases clientReadPlan zeroRead off len <;> rfl
  | mread si n off len =>
    simp only [opRequest, readRequest, clientBody, clientMethod, clientPath, clientSecrets]
    cases clientReadPlan zeroRead off len <;> rfl
  | list si => rfl
  | mlist si => rfl
  | lease si r c => rfl
  | rtw si we r c a =>
    simp only [opRequest, clientBody, clientMethod, clientPath, clientSecrets]
    cases decRtw (encRtw a) <;> rfl

theorem client_required (op : Op) : ∀ k, k ∈ (clientMatched op).required ↔ ∃ p ∈ clientSecrets op, p.1 = k := by
  intro k
  cases op <;> cases k <;> simp [clientMatched, clientSecrets]

theorem client_collect (op : Op) : collect [] (clientSecrets op) = clientSecrets op := by
  cases op <;> simp [collect, dictSet, clientSecrets]

/-- the secrets of the operation are ones a server accepts (non-empty; lease secrets 32 bytes) -/
def SecretsOk (op : Op) : Prop := ∀ p ∈ clientSecrets op, SecretOk p

/-- werkzeug routes the client's URL to the endpoint the client means -/
def RouteOk (op : Op) : Prop := matchRoute (clientMethod op) (clientPath op) = some (clientMatched op)

def opSI : Op → String
  | .create si .. => si | .write si .. => si | .abort si .. => si | .read si .. => si | .mread si .. => si
  | .list si => si | .mlist si => si | .lease si .. => si | .rtw si .. => si

def opShnum : Op → Nat
  | .write _ n .. => n | .abort _ n _ => n | .read _ n .. => n | .mread _ n .. => n
  | _ => 0

/-- the URL the client renders is routed to the endpoint it means, for a canonical storage-index string and a share
number whose decimal rendering is read back (`shnum_roundtrip_256`: every share number below 256) -/
theorem route_ok (op : Op) (hsi : canonSI (opSI op) = some (opSI op)) (hn : parseShnum (opShnum op).repr = some (opShnum op)) :
    RouteOk op := by
  have hne : ¬ ("shares" = (opShnum op).repr) := by
    intro h
    rw [← h] at hn
    have hnone : parseShnum "shares" = none := by decide
    rw [hnone] at hn
    cases hn
  cases op <;>
    simp_all [RouteOk, clientMethod, clientPath, clientMatched, immPath, mutPath, matchRoute, Generated.Http.routes, matchSegs,
      Route.ofEndpoint, Secret.ofName, Secret.all, Secret.name, Generated.Http.secretNames, opSI, opShnum]

set_option maxRecDepth 65536 in
theorem shnum_roundtrip_256 : ∀ n, n < 256 → parseShnum (Nat.repr n) = some n := by decide

/-- through the gate: the whole HTTP path is the path behind the gate -/
theorem clientStep_eq_handledStep (sw : Bytes) (st : State) (op : Op) (hs : SecretsOk op) (hr : RouteOk op) :
    clientStep sw st op = handledStep st op := by
  unfold clientStep handledStep
  rw [opRequest_eq]
  cases hb : clientBody zeroRead op with
  | none => rfl
  | some body =>
    simp only [Option.map]
    have hg := gate_client sw (clientMethod op) (clientPath op) (clientSecrets op) body (clientMatched op) hr hs
      (client_required op)
    rw [client_collect] at hg
    have hbody : (mkRequest sw (clientMethod op) (clientPath op) (clientSecrets op) body).body = body := rfl
    simp [step, hg, hbody]

/-- a history through the whole HTTP path (client, gate, handler) -/
def clientRun (sw : Bytes) (st : State) : List Op → State × List Res
  | [] => (st, [])
  | op :: rest =>
    let r := clientStep sw st op
    let rr := clientRun sw r.1 rest
    (rr.1, r.2 :: rr.2)

/-- what a real client's operation looks like on the wire: acceptable secrets, the canonical storage-index string
(`si_b2a` output), a share number below 256 -/
def WireOk (op : Op) : Prop := SecretsOk op ∧ canonSI (opSI op) = some (opSI op) ∧ opShnum op < 256

theorem clientStep_eq_directStep (sw : Bytes) (st : State) (op : Op) (hop : OpOk st op) (hs : SecretsOk op)
    (hsi : canonSI (opSI op) = some (opSI op)) (hn : parseShnum (opShnum op).repr = some (opShnum op))
    (hz : zeroRead = .probe) : clientStep sw st op = directStep st op := by
  rw [clientStep_eq_handledStep sw st op hs (route_ok op hsi hn)]
  cases op with
  | create si ns size u r c => exact handled_create st si ns size u r c
  | write si n u off d => exact handled_write st si n u off d hop
  | abort si n u => exact handled_abort st si n u hop
  | read si n off len => exact handled_read hz st si n off len
  | mread si n off len => exact handled_mread hz st si n off len
  | list si => exact handled_list st si
  | mlist si => exact handled_mlist st si
  | lease si r c => exact handled_lease st si r c
  | rtw si we r c a => exact handled_rtw st si we r c a hop

theorem clientRun_eq_directRun (sw : Bytes) (st : State) (ops : List Op) (h : HistoryOk st ops) (hw : ∀ op ∈ ops, WireOk op)
    (hz : zeroRead = .probe) : clientRun sw st ops = directRun st ops := by
  induction ops generalizing st with
  | nil => rfl
  | cons op rest ih =>
    obtain ⟨h1, h2⟩ := h
    obtain ⟨hs, hsi, hn⟩ := hw op (by simp)
    have e := clientStep_eq_directStep sw st op h1 hs hsi (shnum_roundtrip_256 _ hn) hz
    simp only [clientRun, directRun, e]
    rw [ih _ h2 (fun o ho => hw o (by simp [ho]))]

end Tahoe.Http
