/-
Helper lemmas for `Tahoe/Props/C30.lean`: an upload in progress (its cells, its secret, its lease) is changed or
removed only by a served write / abort addressed to it that presents its own upload secret.
-/
import Tahoe.Http.LemmasSpec
namespace Tahoe.Http

theorem find?_filter_of_imp {α : Type} (p q : α → Bool) (l : List α) (h : ∀ x, p x = true → q x = true) :
    (l.filter q).find? p = l.find? p := by
  induction l with
  | nil => rfl
  | cons e rest ih =>
    cases hq : q e with
    | true =>
      rw [List.filter_cons_of_pos hq, List.find?_cons, List.find?_cons, ih]
    | false =>
      have hp : p e = false := by
        cases hp : p e with
        | false => rfl
        | true => rw [h e hp] at hq; cases hq
      rw [List.filter_cons_of_neg (by simp [hq]), List.find?_cons, hp, ih]

theorem find?_map_of_fix {α : Type} (p : α → Bool) (f : α → α) (l : List α) (h1 : ∀ x, p (f x) = p x)
    (h2 : ∀ x, p x = true → f x = x) : (l.map f).find? p = l.find? p := by
  induction l with
  | nil => rfl
  | cons e rest ih =>
    rw [List.map_cons, List.find?_cons, List.find?_cons, h1 e, ih]
    cases hp : p e with
    | true => simp [h2 e hp]
    | false => rfl

theorem lookupK_eraseK_ne {α : Type} (k k' : Key) (l : List (Key × α)) (h : k ≠ k') :
    lookupK k (eraseK k' l) = lookupK k l := by
  unfold lookupK eraseK
  rw [find?_filter_of_imp]
  intro x hx
  have : x.1 = k := by simpa using hx
  simp [this, h]

theorem lookupK_setK_ne {α : Type} (k k' : Key) (v : α) (l : List (Key × α)) (h : k ≠ k') :
    lookupK k (setK k' v l) = lookupK k l := by
  have hk : ¬ k' = k := fun hc => h hc.symm
  unfold setK
  split
  · unfold lookupK
    rw [find?_map_of_fix]
    · intro x
      by_cases hx : x.1 = k'
      · simp [hx, hk]
      · simp [hx]
    · intro x hx
      have : x.1 = k := by simpa using hx
      have hne : ¬ x.1 = k' := by rw [this]; exact h
      simp [hne]
  · unfold lookupK
    rw [List.find?_append]
    cases hf : List.find? (fun e => decide (e.1 = k)) l <;> simp [hk]

theorem lookupK_append_some {α : Type} (k : Key) (l l' : List (Key × α)) (v : α) (h : lookupK k l = some v) :
    lookupK k (l ++ l') = some v := by
  unfold lookupK at *
  rw [List.find?_append]
  cases hf : List.find? (fun e => decide (e.1 = k)) l with
  | none => simp [hf] at h
  | some e => simpa [hf] using h

/-- the request is a served write or abort addressed to upload `k` that presents the secret `s` -/
def touches (sw : Bytes) (k : Key) (s : Bytes) (rq : Request) : Prop :=
  ∃ m sec, gate sw rq = .pass m sec ∧ (m.route = .write ∨ m.route = .abort) ∧ (m.args.si, m.args.shnum) = k ∧
    getS sec .upload = s

theorem hWrite_up_ne (st : State) (sec : SecretsDict) (si : String) (n : Nat) (cr : Option ContentRange) (data : Bytes)
    (k : Key) (hk : k ≠ (si, n)) : lookupK k (hWrite st sec si n cr data).1.up = lookupK k st.up := by
  unfold hWrite
  split
  · rfl
  · split
    · rfl
    · split
      · rfl
      · rfl
      · split
        · rfl
        · dsimp only
          split
          · rfl
          · split
            · rfl
            · split
              · rfl
              · rfl
              · split
                · exact lookupK_setK_ne k (si, n) _ _ hk
                · split
                  · exact lookupK_eraseK_ne k (si, n) _ hk
                  · exact lookupK_setK_ne k (si, n) _ _ hk

theorem hWrite_up (st : State) (sec : SecretsDict) (si : String) (n : Nat) (cr : Option ContentRange) (data : Bytes)
    (k : Key) (u : Upload) (h : lookupK k st.up = some u) (hchg : lookupK k (hWrite st sec si n cr data).1.up ≠ some u) :
    (si, n) = k ∧ getS sec .upload = u.secret := by
  by_cases hk : k = (si, n)
  · subst hk
    refine ⟨rfl, ?_⟩
    unfold hWrite at hchg
    split at hchg
    · exact absurd h hchg
    · split at hchg
      · exact absurd h hchg
      · split at hchg
        · exact absurd h hchg
        · exact absurd h hchg
        · rename_i u' hf
          have hfound := getWriteBucket_found _ _ _ _ _ _ hf
          unfold lookupK at h
          rw [h] at hfound
          cases hfound.1
          exact hfound.2.symm
  · rw [hWrite_up_ne st sec si n cr data k hk] at hchg
    exact absurd h hchg

theorem hAbort_up (st : State) (sec : SecretsDict) (si : String) (n : Nat)
    (k : Key) (u : Upload) (h : lookupK k st.up = some u) (hchg : lookupK k (hAbort st sec si n).1.up ≠ some u) :
    (si, n) = k ∧ getS sec .upload = u.secret := by
  unfold hAbort at hchg
  split at hchg
  · exact absurd h hchg
  · split at hchg <;> exact absurd h hchg
  · rename_i u' hf
    have hfound := getWriteBucket_found _ _ _ _ _ _ hf
    by_cases hk : k = (si, n)
    · subst hk
      unfold lookupK at h
      rw [h] at hfound
      cases hfound.1
      exact ⟨rfl, hfound.2.symm⟩
    · exfalso
      apply hchg
      simp only
      rw [lookupK_eraseK_ne k (si, n) _ hk]
      exact h

theorem hAllocate_up (st : State) (sec : SecretsDict) (si : String) (ns : List Nat) (size : Nat) (k : Key) (u : Upload)
    (h : lookupK k st.up = some u) : lookupK k (hAllocate st sec si ns size).1.up = some u := by
  simp only [hAllocate, ssAllocate]
  exact lookupK_append_some k _ _ u h

theorem hRtw_up (st : State) (sec : SecretsDict) (si : String) (a : RtwArgs) : (hRtw st sec si a).1.up = st.up := by
  unfold hRtw
  cases hs : ssRtw st si (getS sec .writeEnabler) (getS sec .leaseRenew, getS sec .leaseCancel) a with
  | none => rfl
  | some r =>
    unfold ssRtw at hs
    split at hs
    · cases hs
    · cases hs
      dsimp only
      split <;> rfl

theorem hCorrupt_up (st : State) (body : Body) : (hCorrupt st body).1.up = st.up := by
  unfold hCorrupt
  split <;> rfl

/-- behind the gate: only the write / abort handler addressed to an upload, given its secret, changes or removes it -/
theorem handle_up (st : State) (m : Matched) (sec : SecretsDict) (body : Body) (k : Key) (u : Upload)
    (h : lookupK k st.up = some u) (hchg : lookupK k (handle st m sec body).1.up ≠ some u) :
    (m.route = .write ∨ m.route = .abort) ∧ (m.args.si, m.args.shnum) = k ∧ getS sec .upload = u.secret := by
  unfold handle at hchg
  cases hr : m.route <;> simp only [hr] at hchg
  · exact absurd h hchg
  · split at hchg
    · exact absurd (hAllocate_up st sec _ _ _ k u h) hchg
    · exact absurd h hchg
  · exact ⟨.inr rfl, hAbort_up st sec _ _ k u h hchg⟩
  · split at hchg
    · exact ⟨.inl rfl, hWrite_up st sec _ _ _ _ k u h hchg⟩
    · exact ⟨.inl rfl, hWrite_up st sec _ _ _ _ k u h hchg⟩
  · exact absurd h hchg
  · split at hchg <;> exact absurd h hchg
  · split at hchg
    · exact absurd h hchg
    · exact absurd h hchg
  · split at hchg
    · exact absurd h hchg
    · rw [hCorrupt_up] at hchg; exact absurd h hchg
  · split at hchg
    · rw [hRtw_up] at hchg; exact absurd h hchg
    · exact absurd h hchg
  · split at hchg <;> exact absurd h hchg
  · exact absurd h hchg
  · split at hchg
    · exact absurd h hchg
    · rw [hCorrupt_up] at hchg; exact absurd h hchg

/-- one request: an upload in progress that is no longer exactly what it was has been touched with its own secret -/
theorem step_up (sw : Bytes) (st : State) (rq : Request) (k : Key) (u : Upload)
    (h : lookupK k st.up = some u) (hchg : lookupK k (step sw st rq).1.up ≠ some u) : touches sw k u.secret rq := by
  unfold step at hchg
  split at hchg
  · exact absurd h hchg
  · exact absurd h hchg
  · exact absurd h hchg
  · exact absurd h hchg
  · exact absurd h hchg
  · rename_i m sec hg
    obtain ⟨h1, h2, h3⟩ := handle_up st m sec rq.body k u h hchg
    exact ⟨m, sec, hg, h1, h2, h3⟩

/-- histories: as long as no request touches the upload with its own secret it stays exactly as it is -/
theorem run_up (sw : Bytes) (st : State) (reqs : List Request) (k : Key) (u : Upload)
    (h : lookupK k st.up = some u) (hno : ∀ rq ∈ reqs, ¬ touches sw k u.secret rq) :
    lookupK k (run sw st reqs).1.up = some u := by
  induction reqs generalizing st with
  | nil => exact h
  | cons rq rest ih =>
    simp only [run]
    apply ih
    · apply Decidable.byContradiction
      intro hc
      exact hno rq (by simp) (step_up sw st rq k u h hc)
    · intro r hr
      exact hno r (by simp [hr])

/-! ### requests and timeouts -/

theorem expire_up_ne (st : State) (k k' : Key) (h : k ≠ k') : lookupK k (expire st k').up = lookupK k st.up :=
  lookupK_eraseK_ne k k' st.up h

/-- the event concerns upload `k` legitimately: its own timeout / disconnect, or a served write / abort with its secret -/
def concerns (sw : Bytes) (k : Key) (s : Bytes) : Event → Prop
  | .request rq => touches sw k s rq
  | .expire k' => k' = k

theorem stepEvent_up (sw : Bytes) (st : State) (e : Event) (k : Key) (u : Upload)
    (h : lookupK k st.up = some u) (hchg : lookupK k (stepEvent sw st e).up ≠ some u) : concerns sw k u.secret e := by
  cases e with
  | request rq => exact step_up sw st rq k u h hchg
  | expire k' =>
    simp only [stepEvent] at hchg
    simp only [concerns]
    apply Decidable.byContradiction
    intro hne
    rw [expire_up_ne st k k' (fun hc => hne hc.symm)] at hchg
    exact hchg h

theorem runEvents_up (sw : Bytes) (st : State) (evs : List Event) (k : Key) (u : Upload)
    (h : lookupK k st.up = some u) (hno : ∀ e ∈ evs, ¬ concerns sw k u.secret e) :
    lookupK k (runEvents sw st evs).up = some u := by
  induction evs generalizing st with
  | nil => exact h
  | cons e rest ih =>
    simp only [runEvents]
    apply ih
    · apply Decidable.byContradiction
      intro hc
      exact hno e (by simp) (stepEvent_up sw st e k u h hc)
    · intro e' he'
      exact hno e' (by simp [he'])

end Tahoe.Http
