/-
Helper lemmas for `Tahoe/Props/C30.lean` (HTTP storage API authorization).
-/
import Tahoe.Http.Server
namespace Tahoe.Http

theorem authHeader_ne_nil (sw : Bytes) : authHeader sw ≠ [] := by
  unfold authHeader
  have h : Generated.Http.authPrefix.toList.map (fun c => UInt8.ofNat c.toNat) ≠ [] := by decide
  intro hc
  exact h (List.append_eq_nil_iff.mp hc).1

/-- the swissnum check passes only when the first `Authorization` value is exactly the expected header -/
theorem authCheck_ok_iff (sw : Bytes) (auth : List Bytes) :
    authCheck sw auth = .ok ↔
      auth.head? = some (authHeader sw) ∧ auth.all (fun x => (utf8Decode x).isSome) = true := by
  cases auth with
  | nil =>
    have := authHeader_ne_nil sw
    simp only [authCheck, List.head?_nil, List.all_nil]
    constructor
    · intro h; split at h
      · rename_i h2; exact absurd h2.symm this
      · cases h
    · intro h; cases h.1
  | cons v rest =>
    simp only [authCheck, List.head?_cons, Option.some.injEq]
    by_cases hu : (v :: rest).any (fun x => (utf8Decode x).isNone) = true
    · rw [if_pos hu]
      constructor
      · intro h; cases h
      · intro h
        have h2 := h.2
        simp only [List.any_eq_true] at hu
        obtain ⟨x, hx, hx2⟩ := hu
        have := (List.all_eq_true.mp h2) x hx
        cases hd : utf8Decode x <;> simp_all
    · rw [if_neg hu]
      have hall : (v :: rest).all (fun x => (utf8Decode x).isSome) = true := by
        rw [List.all_eq_true]
        intro x hx
        cases hd : utf8Decode x with
        | some _ => rfl
        | none =>
          exfalso; apply hu
          rw [List.any_eq_true]; exact ⟨x, hx, by simp [hd]⟩
      by_cases hv : v = authHeader sw
      · rw [if_pos hv]; exact ⟨fun _ => ⟨hv, hall⟩, fun _ => rfl⟩
      · rw [if_neg hv]
        constructor
        · intro h; cases h
        · intro h; exact absurd h.1 hv

theorem gate_pass_matched {sw : Bytes} {rq : Request} {m : Matched} {sec : SecretsDict}
    (h : gate sw rq = .pass m sec) :
    matchRoute rq.method rq.path = some m ∧ authCheck sw rq.auth = .ok ∧
    ∃ vals, rq.xauth.mapM utf8Decode = some vals ∧ extractSecrets vals m.required = .ok sec := by
  unfold gate at h
  split at h
  · cases h
  · rename_i m' hm
    split at h
    · cases h
    · cases h
    · rename_i ha
      split at h
      · cases h
      · rename_i vals hv
        split at h
        · cases h
        · rename_i sec' he
          cases h
          exact ⟨hm, ha, vals, hv, he⟩

/-- a state change through `step` can only come from the handler, after the whole gate was passed -/
theorem step_changes_only_through_gate {sw : Bytes} {st : State} {rq : Request}
    (h : (step sw st rq).1 ≠ st) :
    ∃ m sec, gate sw rq = .pass m sec ∧ (handle st m sec rq.body).1 ≠ st := by
  unfold step at h
  split at h <;> first | exact absurd rfl h | skip
  rename_i m sec hg
  exact ⟨m, sec, hg, h⟩

theorem getWriteBucket_found {α : Type} (secretOf : α → Bytes) (ups : List ((String × Nat) × α)) (si : String) (n : Nat)
    (p : Bytes) (b : α) (h : getWriteBucket secretOf ups si n p = .found b) :
    (ups.find? (fun e => e.1 = (si, n))).map (·.2) = some b ∧ secretOf b = p := by
  unfold getWriteBucket at h
  split at h
  · cases h
  · rename_i e he
    split at h
    · rename_i hs
      cases h
      exact ⟨by simp [he], hs⟩
    · cases h

/-! ### `_extract_secrets` accepts only well-formed, complete secret sets -/

/-- every entry is non-empty, and lease secrets are 32 bytes long -/
def WellFormed (d : SecretsDict) : Prop :=
  ∀ p ∈ d, p.2 ≠ [] ∧ ((p.1 = .leaseCancel ∨ p.1 = .leaseRenew) → p.2.length = 32)

theorem parseSecretHeader_ok {v : List Nat} {k : Secret} {b : Bytes} (h : parseSecretHeader v = .ok (k, b)) :
    b ≠ [] ∧ ((k = .leaseCancel ∨ k = .leaseRenew) → b.length = 32) := by
  unfold parseSecretHeader at h
  split at h
  · cases h
  · split at h
    · cases h
    · split at h
      · cases h
      · rename_i key _ b' _
        split at h
        · cases h
        · rename_i hne
          split at h
          · cases h
          · rename_i hl
            cases h
            refine ⟨hne, fun hk => ?_⟩
            apply Decidable.byContradiction
            intro hc
            exact hl ⟨hk, hc⟩

theorem dictSet_wellFormed {d : SecretsDict} {k : Secret} {b : Bytes} (hd : WellFormed d)
    (hb : b ≠ [] ∧ ((k = .leaseCancel ∨ k = .leaseRenew) → b.length = 32)) : WellFormed (dictSet d k b) := by
  unfold dictSet
  split
  · intro p hp
    rw [List.mem_map] at hp
    obtain ⟨q, hq, rfl⟩ := hp
    split
    · exact hb
    · exact hd q hq
  · intro p hp
    rw [List.mem_append] at hp
    cases hp with
    | inl h => exact hd p h
    | inr h => simp at h; subst h; exact hb

theorem extractLoop_wellFormed {acc : SecretsDict} {vals : List (List Nat)} {d : SecretsDict}
    (hacc : WellFormed acc) (h : extractLoop acc vals = .ok d) : WellFormed d := by
  induction vals generalizing acc with
  | nil => simp [extractLoop] at h; subst h; exact hacc
  | cons v rest ih =>
    unfold extractLoop at h
    split at h
    · cases h
    · rename_i k b hp
      exact ih (dictSet_wellFormed hacc (parseSecretHeader_ok hp)) h

theorem extractSecrets_ok {vals : List (List Nat)} {required : List Secret} {d : SecretsDict}
    (h : extractSecrets vals required = .ok d) : sameKeySet d required = true ∧ WellFormed d := by
  unfold extractSecrets at h
  split at h
  · cases h
  · rename_i d' hl
    split at h
    · rename_i hs
      cases h
      exact ⟨hs, extractLoop_wellFormed (by intro p hp; cases hp) hl⟩
    · cases h

end Tahoe.Http
